(* C07 (queue part) -- where the allocator is asked, read off the definitions.
   For every operation of C05's [q_step] other than a_que_drop / a_que_setz: if one of its
   requests was refused ([failed w' = true]) the operation returned its failure value and the
   world is the one before the call except for the pending schedule and the trace ([q_same]).
   No invariant is needed for this: it is a fact about the control flow of each function. *)
From Coq Require Import NArith ZArith List Bool Lia ZifyBool ZifyNat ZifyN FMapPositive.
From LibaV Require Import C05.DListDefs C05.QueDefs C05.QueSpec C07.QueFaultDefs.
Import ListNotations.
Local Open Scope N_scope.

(* ------------------------------------------------------------------ q_same *)
Lemma q_same_refl w : q_same w w.
Proof. unfold q_same. auto. Qed.
Lemma q_same_trans w w1 w2 : q_same w w1 -> q_same w1 w2 -> q_same w w2.
Proof. unfold q_same. intros (?&?&?&?&?) (?&?&?&?&?). repeat split; congruence. Qed.
Lemma q_same_clear w : q_same w (clear_trace w).
Proof. unfold q_same. auto. Qed.
Lemma q_same_sched w l : q_same w (set_sched w l).
Proof. unfold q_same. auto. Qed.

(* two worlds that differ in schedule and trace only make the same step under the same schedule *)
Lemma q_same_clear_sched w w1 sc :
  q_same w w1 -> clear_trace (set_sched w1 sc) = clear_trace (set_sched w sc).
Proof.
  destruct w, w1. unfold q_same, clear_trace, set_sched; cbn. intros (-> & -> & -> & -> & ->). reflexivity.
Qed.

(* ------------------------------------------------------------------ record plumbing *)
Lemma trace_seth w h : w_trace (seth w h) = w_trace w.
Proof. reflexivity. Qed.
Lemma trace_setv w a v : w_trace (setv w a v) = w_trace w.
Proof. reflexivity. Qed.
Lemma trace_setq w s q : w_trace (setq w s q) = w_trace w.
Proof. destruct s; reflexivity. Qed.

Lemma failed_seth w h : failed (seth w h) = failed w.
Proof. reflexivity. Qed.
Lemma failed_setv w a v : failed (setv w a v) = failed w.
Proof. reflexivity. Qed.
Lemma failed_setq w s q : failed (setq w s q) = failed w.
Proof. unfold failed. now rewrite trace_setq. Qed.
Lemma failed_clear w : failed (clear_trace w) = false.
Proof. reflexivity. Qed.

Lemma ask_same w mk w1 ok :
  ask w mk = (w1, ok) -> q_same w w1 /\ failed w1 = refused (mk ok) || failed w.
Proof.
  unfold ask. destruct (w_sched w) as [|b r]; intros [= <- <-]; (split; [unfold q_same; cbn; auto|reflexivity]).
Qed.

(* ------------------------------------------------------------------ a_que_new_, a_que_die_ *)
Lemma new_failed w s w1 n :
  q_new_ w s = Ok (w1, n) -> failed w = false ->
  (failed w1 = true /\ n = 0 /\ q_same w w1) \/ failed w1 = false.
Proof.
  unfold q_new_. intros H F. destruct (q_pool (getq w s)) as [|x rest].
  - destruct (ask w _) as [wa ok] eqn:E. destruct (ask_same _ _ _ _ E) as [S Fa]. rewrite F in Fa.
    destruct ok.
    + injection H as <- <-. right. rewrite failed_setq. cbn in Fa. exact Fa.
    + injection H as <- <-. left. cbn in Fa. auto.
  - destruct (N.ltb _ _); [discriminate|]. injection H as <- <-. right. now rewrite failed_setq.
Qed.

Lemma die_failed w s node w1 rc :
  q_die_ w s node = Ok (w1, rc) -> failed w = false ->
  (failed w1 = true /\ rc = 4%Z /\ q_same w w1) \/ (failed w1 = false /\ rc <> 4%Z).
Proof.
  unfold q_die_. intros H F. destruct (N.eqb node 0); [injection H as <- <-; right; split; [assumption|discriminate]|].
  destruct (N.leb _ _).
  - destruct (ask w _) as [wa ok] eqn:E. destruct (ask_same _ _ _ _ E) as [S Fa]. rewrite F in Fa.
    destruct ok.
    + destruct (N.ltb _ _); [|discriminate]. injection H as <- <-. right. rewrite failed_setq. cbn in Fa.
      split; [exact Fa|discriminate].
    + injection H as <- <-. left. cbn in Fa. auto.
  - injection H as <- <-. right. rewrite failed_setq. split; [assumption|discriminate].
Qed.

(* ------------------------------------------------------------------ the operations built on them *)
(* shape of the claim about an operation that returns a node address *)
Definition ptr_claim (w w' : qworld) (r : id) : Prop :=
  (failed w' = true /\ r = 0 /\ q_same w w') \/ failed w' = false.

Lemma push_failed fore w s v w' r :
  q_push fore w s v = Ok (w', r) -> failed w = false -> ptr_claim w w' r.
Proof.
  unfold q_push, ptr_claim. intros H F.
  destruct (q_new_ w s) as [[w1 node]| |] eqn:E; try discriminate.
  destruct (new_failed _ _ _ _ E F) as [(F1 & -> & S)|F1].
  - cbn [N.eqb] in H. injection H as <- <-. left. auto.
  - right. destruct (N.eqb node 0); [injection H as <- <-; assumption|].
    destruct (lift _) as [h| |]; try discriminate. injection H as <- <-. exact F1.
Qed.

Lemma take_rc_failed w s node w' rc :
  q_take_rc w s node = Ok (w', rc) -> failed w = false ->
  (failed w' = true /\ rc = 4%Z /\ q_same w w') \/ (failed w' = false /\ rc <> 4%Z).
Proof.
  unfold q_take_rc. intros H F.
  destruct (q_die_ w s node) as [[w1 rc1]| |] eqn:E; try discriminate.
  destruct (die_failed _ _ _ _ _ E F) as [(F1 & -> & S)|(F1 & Hrc)].
  - cbn [Z.eqb] in H. injection H as <- <-. left. auto.
  - right. destruct (Z.eqb rc1 0).
    + destruct (lift (l_del_node _ _)) as [h1| |]; try discriminate.
      destruct (lift (l_init _ _)) as [h2| |]; try discriminate. injection H as <- <-.
      split; [exact F1|discriminate].
    + injection H as <- <-. auto.
Qed.

Lemma take_failed w s node w' r :
  q_take w s node = Ok (w', r) -> failed w = false -> ptr_claim w w' r.
Proof.
  unfold q_take, ptr_claim. intros H F.
  destruct (q_take_rc w s node) as [[w1 rc]| |] eqn:E; try discriminate. cbn [fst snd] in H.
  injection H as <- <-.
  destruct (take_rc_failed _ _ _ _ _ E F) as [(F1 & -> & S)|(F1 & _)]; [left; auto|right; assumption].
Qed.

Lemma pull_failed fore w s w' r :
  q_pull fore w s = Ok (w', r) -> failed w = false -> ptr_claim w w' r.
Proof.
  unfold q_pull. intros H F. destruct (lift _) as [n| |]; try discriminate.
  destruct (N.eqb n (qaddr s)); [injection H as <- <-; right; assumption|].
  eapply take_failed; eassumption.
Qed.

Lemma insert_failed w s idx v w' r :
  q_insert w s idx v = Ok (w', r) -> failed w = false -> ptr_claim w w' r.
Proof.
  unfold q_insert. intros H F. destruct (N.ltb idx _); [|eapply push_failed; eassumption].
  unfold ptr_claim.
  destruct (q_new_ w s) as [[w1 node]| |] eqn:E; try discriminate.
  destruct (new_failed _ _ _ _ E F) as [(F1 & -> & S)|F1].
  - cbn [N.eqb] in H. injection H as <- <-. left. auto.
  - right. destruct (N.eqb node 0); [injection H as <- <-; assumption|].
    destruct (lift _) as [n| |]; try discriminate.
    destruct (seek _ _ _ _ _ _) as [it| |]; try discriminate.
    destruct (N.eqb it 0); [injection H as <- <-; exact F1|].
    destruct (lift _) as [h| |]; try discriminate. injection H as <- <-. exact F1.
Qed.

Lemma remove_failed w s idx w' r :
  q_remove w s idx = Ok (w', r) -> failed w = false -> ptr_claim w w' r.
Proof.
  unfold q_remove. intros H F. destruct (N.ltb idx _); [|eapply pull_failed; eassumption].
  destruct (lift _) as [n| |]; try discriminate.
  destruct (seek _ _ _ _ _ _) as [node| |]; try discriminate.
  eapply take_failed; eassumption.
Qed.

Lemma push_sort_failed cmp w s key w' r :
  q_push_sort cmp w s key = Ok (w', r) -> failed w = false -> ptr_claim w w' r.
Proof.
  unfold q_push_sort, ptr_claim. intros H F.
  destruct (lift _) as [it0| |]; try discriminate.
  destruct (q_new_ w s) as [[w1 node]| |] eqn:E; try discriminate.
  destruct (new_failed _ _ _ _ E F) as [(F1 & -> & S)|F1].
  - cbn [N.eqb] in H. injection H as <- <-. left. auto.
  - right. destruct (N.eqb node 0); [injection H as <- <-; assumption|].
    destruct (if N.ltb 1 _ then _ else _) as [it| |]; try discriminate.
    destruct (lift (rd_next _ _)) as [itn| |]; try discriminate.
    destruct (lift (l_link _ _ _)) as [h1| |]; try discriminate.
    destruct (lift (l_link h1 _ _)) as [h2| |]; try discriminate.
    injection H as <- <-. exact F1.
Qed.

(* operations that never ask the allocator *)
Lemma sort_fore_trace cmp w s w' : q_sort_fore cmp w s = Ok w' -> failed w' = failed w.
Proof.
  unfold q_sort_fore. intros H. destruct (N.ltb 1 _); [|injection H as <-; reflexivity].
  repeat match type of H with
         | context [match ?x with _ => _ end] => destruct x; try discriminate
         end; injection H as <-; reflexivity.
Qed.

Lemma sort_back_trace cmp w s w' : q_sort_back cmp w s = Ok w' -> failed w' = failed w.
Proof.
  unfold q_sort_back. intros H. destruct (N.ltb 1 _); [|injection H as <-; reflexivity].
  repeat match type of H with
         | context [match ?x with _ => _ end] => destruct x; try discriminate
         end; injection H as <-; reflexivity.
Qed.

Lemma swap_elem_trace w l r w' : q_swap_elem w l r = Ok w' -> failed w' = failed w.
Proof.
  unfold q_swap_elem. intros H.
  repeat match type of H with
         | context [match ?x with _ => _ end] => destruct x; try discriminate
         end; injection H as <-; reflexivity.
Qed.

Lemma swap_trace w s1 s2 w' : q_swap w s1 s2 = Ok w' -> failed w' = failed w.
Proof.
  unfold q_swap, q_struct_swap. intros H. destruct (Bool.eqb s1 s2); [injection H as <-; reflexivity|].
  destruct (lift (dget (w_h w) 1)) as [na| |]; try discriminate.
  destruct (lift (dget (w_h w) 2)) as [nb| |]; try discriminate.
  destruct (q_move_ _ _ _) as [h1| |]; try discriminate.
  destruct (q_move_ h1 _ _) as [h2| |]; try discriminate.
  injection H as <-. reflexivity.
Qed.

Lemma reset_trace w s size w' : q_reset w s size = Ok w' -> failed w' = failed w.
Proof.
  unfold q_reset, q_ctor. intros H. destruct (ring_of _ _ _) as [xs|]; [|discriminate].
  destruct (lift _) as [h| |]; try discriminate. injection H as <-.
  rewrite failed_setq. reflexivity.
Qed.

(* ------------------------------------------------------------------ one operation of C05's machine *)
Definition not_drop_setz (o : qop) : Prop :=
  match o with QDrop _ | QSetz _ _ => False | _ => True end.

Theorem q_step_failed w0 o w' r :
  not_drop_setz o -> q_step w0 o = Ok (w', r) -> failed w' = true ->
  q_fail_ret o = Some r /\ q_same w0 w'.
Proof.
  intros Hnd H Ff. unfold q_step in H. set (w := clear_trace w0) in *.
  assert (F : failed w = false) by reflexivity.
  assert (S0 : q_same w0 w) by apply q_same_clear.
  assert (P : forall x, ptr_res x = Ok (w', r) ->
                (forall w1 n, x = Ok (w1, n) -> ptr_claim w w1 n) ->
                r = 0%Z /\ q_same w0 w').
  { intros x Hx Hc. unfold ptr_res in Hx. destruct x as [[w1 n]| |]; try discriminate.
    cbn [fst snd] in Hx. injection Hx as <- <-.
    destruct (Hc _ _ eq_refl) as [(_ & -> & S)|F1]; [|congruence].
    split; [reflexivity|exact (q_same_trans _ _ _ S0 S)]. }
  assert (U : forall x, unit_res x = Ok (w', r) -> (forall w1, x = Ok w1 -> failed w1 = failed w) -> False).
  { intros x Hx Hc. unfold unit_res in Hx. destruct x as [w1| |]; try discriminate.
    injection Hx as <- <-. rewrite (Hc _ eq_refl) in Ff. congruence. }
  assert (L : forall x, look_res w x = Ok (w', r) -> False).
  { intros x Hx. unfold look_res in Hx. destruct x as [n| |]; try discriminate.
    injection Hx as <- <-. congruence. }
  destruct o; cbn [q_fail_ret]; try contradiction.
  - injection H as <- <-. discriminate.
  - exfalso. eapply U; [exact H|]. intros w1 E. eapply reset_trace; exact E.
  - destruct (P _ H) as [-> S]; [intros; eapply push_failed; eassumption|auto].
  - destruct (P _ H) as [-> S]; [intros; eapply push_failed; eassumption|auto].
  - destruct (P _ H) as [-> S]; [intros; eapply pull_failed; eassumption|auto].
  - destruct (P _ H) as [-> S]; [intros; eapply pull_failed; eassumption|auto].
  - destruct (P _ H) as [-> S]; [intros; eapply insert_failed; eassumption|auto].
  - destruct (P _ H) as [-> S]; [intros; eapply remove_failed; eassumption|auto].
  - exfalso. eapply L; exact H.
  - exfalso. eapply L; exact H.
  - exfalso. eapply L; exact H.
  - exfalso. eapply U; [exact H|]. intros w1 E. eapply sort_fore_trace; exact E.
  - exfalso. eapply U; [exact H|]. intros w1 E. eapply sort_back_trace; exact E.
  - destruct (P _ H) as [-> S]; [intros; eapply push_sort_failed; eassumption|auto].
  - exfalso. eapply U; [exact H|]. intros w1 E. eapply swap_elem_trace; exact E.
  - exfalso. eapply U; [exact H|]. intros w1 E. eapply swap_trace; exact E.
Qed.

(* ... and an operation none of whose requests was refused is not reported as failed by a null
   pointer for lack of memory: the converse direction is C05's refinement theorem. *)
