(* C07 (queue part) -- the ledger of node blocks of liba's a_que, by counting.

   Statement: along every operation of the repaired library ([qf_step], QueFaultDefs.v), the ones
   in which an allocation request is refused included, the number of addresses of the heap is
   2 (the sentinels of the two queue objects) + the number of nodes the two objects account for
   ([held] = num_ of A + num_ of B + entries of both pool arrays).  So no node block is ever lost
   (an address that stays in the heap without being counted) or given back twice (a counted node
   whose address is gone).  After [q_destroy] only the two sentinels are left and no pool array.

     card_inv w            the counting invariant (with: both sentinels live, every live address
                           below w_fresh, 3 <= w_fresh)
     qf_step_card          QInv w X -> card_inv w -> qf_step w o = Ok (w', r) -> card_inv w'
                           (all 18 constructors of qop; no precondition on QSwapElem)
     q_destroy_card        QInv w X -> card_inv w -> q_destroy succeeds and leaves
                           node_blocks = pool_arrays = live_blocks = 0, live addresses = {1, 2}
     card_inv_world0       card_inv q_world0
     card_inv_blocks       card_inv w -> node_blocks w = held w
     que_card_example      a computed history (refused push, pull, drop, growing setz, destroy)

   Method: cardinal facts of PositiveMap (FMapFacts.WProperties_fun) lifted to dset/ddel; every
   a_list_* surgery keeps the domain of the heap ([same_dom]); a_que_new_ either recycles
   (pool - 1, num + 1), allocates the address w_fresh (cardinal + 1, num + 1) or is refused
   (nothing changes); a_que_die_ moves one counted node from num_ to the pool (num_ >= 1 comes
   from QInv: the node was found in the ring); dtor / the release loop of the repaired a_que_setz
   delete a duplicate-free list of live addresses of exactly the counted length.
   Uses from C05 (read only): QInv and its projections, ring_of_spec, reset_ok, take_rc_ok,
   ask_spec, same_core_QInv, clear_trace_core, size_up8_ge, Ring_next, Ring_prev; nothing about
   C05's q_drop / q_setz. *)
From Coq Require Import NArith ZArith List Bool FMapPositive FMapFacts Lia ZifyBool ZifyNat ZifyN Permutation.
From LibaV Require Import C05.DListDefs C05.DListProofs C05.QueDefs C05.QueSpec C05.QueProofs C07.QueFaultDefs.
Import ListNotations.
Local Open Scope N_scope.

Module PMP := FMapFacts.WProperties_fun PositiveMap.E PositiveMap.
Module PMF := PMP.F.

Lemma card_add_new {A} k (v : A) m : ~ PositiveMap.In k m ->
  PositiveMap.cardinal (PositiveMap.add k v m) = S (PositiveMap.cardinal m).
Proof.
  intros H. apply (PMP.cardinal_2 (m:=m) (m':=PositiveMap.add k v m) (x:=k) (e:=v) H).
  intros y. reflexivity.
Qed.

Lemma card_remove_in {A} k (m : PositiveMap.t A) : PositiveMap.In k m ->
  S (PositiveMap.cardinal (PositiveMap.remove k m)) = PositiveMap.cardinal m.
Proof.
  intros [v Hv]. symmetry.
  apply (PMP.cardinal_2 (m:=PositiveMap.remove k m) (m':=m) (x:=k) (e:=v)).
  - apply PositiveMap.remove_1. reflexivity.
  - intros y. rewrite PMF.add_o, PMF.remove_o.
    destruct (PositiveMap.E.eq_dec k y) as [E|E].
    + unfold PositiveMap.E.eq in E. subst y. apply PositiveMap.find_1. exact Hv.
    + reflexivity.
Qed.

Lemma card_remove_notin {A} k (m : PositiveMap.t A) : ~ PositiveMap.In k m ->
  PositiveMap.cardinal (PositiveMap.remove k m) = PositiveMap.cardinal m.
Proof.
  intros H. apply PMP.Equal_cardinal. intros y. rewrite PMF.remove_o.
  destruct (PositiveMap.E.eq_dec k y) as [E|E]; [|reflexivity].
  unfold PositiveMap.E.eq in E. subst y. symmetry. apply PMF.not_find_in_iff. exact H.
Qed.

Lemma card_add_in {A} k (v : A) m : PositiveMap.In k m ->
  PositiveMap.cardinal (PositiveMap.add k v m) = PositiveMap.cardinal m.
Proof.
  intros H. rewrite <- (card_remove_in k m H).
  assert (H' : PositiveMap.In k (PositiveMap.add k v m)) by (apply PMF.add_in_iff; left; reflexivity).
  rewrite <- (card_remove_in k _ H'). f_equal. apply PMP.Equal_cardinal.
  intros y. rewrite !PMF.remove_o, PMF.add_o. destruct (PositiveMap.E.eq_dec k y); reflexivity.
Qed.
(* ---- heap level ---- *)
Lemma live_pos h p : live h (Npos p) <-> PositiveMap.In p h.
Proof.
  unfold live, dget. split.
  - intros [n Hn]. exists n. apply PositiveMap.find_2. exact Hn.
  - intros [n Hn]. exists n. apply PositiveMap.find_1. exact Hn.
Qed.

Lemma live_dset h a n x : a <> 0 -> (live (dset h a n) x <-> x = a \/ live h x).
Proof.
  intros Ha. destruct (N.eq_dec x a) as [->|Hx].
  - split; [auto|]. intros _. exists n. apply dget_dset_same. exact Ha.
  - unfold live. rewrite dget_dset_other by congruence. split; [auto|]. intros [E|H]; [contradiction|exact H].
Qed.

Lemma live_ddel h a x : live (ddel h a) x <-> x <> a /\ live h x.
Proof.
  destruct (N.eq_dec x a) as [->|Hx].
  - split; [|intros [H _]; contradiction]. intros L. exfalso.
    destruct a as [|p]; [apply (live_nz _ _ L); reflexivity|].
    apply live_pos in L. cbn [ddel] in L. revert L. apply PositiveMap.remove_1. reflexivity.
  - unfold live. rewrite dget_ddel_other by exact Hx. tauto.
Qed.

Lemma card_dset_live h a n : live h a -> PositiveMap.cardinal (dset h a n) = PositiveMap.cardinal h.
Proof.
  destruct a as [|p]; [reflexivity|]. intros L. apply live_pos in L. cbn [dset]. apply card_add_in. exact L.
Qed.

Lemma card_dset_new h a n : a <> 0 -> ~ live h a ->
  PositiveMap.cardinal (dset h a n) = S (PositiveMap.cardinal h).
Proof.
  destruct a as [|p]; [congruence|]. intros _ L. cbn [dset]. apply card_add_new.
  intros H. apply L. apply live_pos. exact H.
Qed.

Lemma card_ddel_live h a : live h a -> S (PositiveMap.cardinal (ddel h a)) = PositiveMap.cardinal h.
Proof.
  destruct a as [|p]; intros L; [exfalso; apply (live_nz _ _ L); reflexivity|].
  apply live_pos in L. cbn [ddel]. apply card_remove_in. exact L.
Qed.

Definition same_dom (h h' : dheap) : Prop :=
  PositiveMap.cardinal h' = PositiveMap.cardinal h /\ forall x, live h' x <-> live h x.

Lemma same_dom_refl h : same_dom h h.
Proof. split; [reflexivity|tauto]. Qed.
Lemma same_dom_trans h h1 h2 : same_dom h h1 -> same_dom h1 h2 -> same_dom h h2.
Proof. intros [A1 A2] [B1 B2]. split; [congruence|]. intros x. rewrite B2. apply A2. Qed.

Lemma dset_live_dom h a n : live h a -> same_dom h (dset h a n).
Proof.
  intros L. split; [apply card_dset_live; exact L|]. intros x.
  rewrite live_dset by (eapply live_nz; eauto). split; [intros [->|H]; auto|auto].
Qed.

Lemma wr_next_dom h a v h' : wr_next h a v = Some h' -> same_dom h h'.
Proof.
  unfold wr_next. destruct (dget h a) as [n|] eqn:E; [|discriminate]. intros H. injection H as <-.
  apply dset_live_dom. exists n. exact E.
Qed.
Lemma wr_prev_dom h a v h' : wr_prev h a v = Some h' -> same_dom h h'.
Proof.
  unfold wr_prev. destruct (dget h a) as [n|] eqn:E; [|discriminate]. intros H. injection H as <-.
  apply dset_live_dom. exists n. exact E.
Qed.

Ltac dom_close :=
  repeat match goal with
         | H : same_dom ?a ?b |- same_dom ?c ?b => apply (same_dom_trans c a b); [|exact H]
         end; apply same_dom_refl.

Ltac opt_step H :=
  match type of H with
  | match ?e with Some _ => _ | None => None end = Some _ => destruct e eqn:?; [|discriminate H]
  | Some _ = Some _ => injection H as <-
  end.

Lemma l_init_dom h c h' : l_init h c = Some h' -> same_dom h h'.
Proof.
  unfold l_init. intros H. repeat opt_step H.
  repeat match goal with
  | H : wr_next _ _ _ = Some _ |- _ => apply wr_next_dom in H
  | H : wr_prev _ _ _ = Some _ |- _ => apply wr_prev_dom in H end. dom_close.
Qed.
Lemma l_link_dom h a b h' : l_link h a b = Some h' -> same_dom h h'.
Proof.
  unfold l_link. intros H. repeat opt_step H.
  repeat match goal with
  | H : wr_next _ _ _ = Some _ |- _ => apply wr_next_dom in H
  | H : wr_prev _ _ _ = Some _ |- _ => apply wr_prev_dom in H end. dom_close.
Qed.

Ltac to_dom :=
  repeat match goal with
  | H : wr_next _ _ _ = Some _ |- _ => apply wr_next_dom in H
  | H : wr_prev _ _ _ = Some _ |- _ => apply wr_prev_dom in H
  | H : l_init _ _ = Some _ |- _ => apply l_init_dom in H
  | H : l_link _ _ _ = Some _ |- _ => apply l_link_dom in H
  end.

Lemma l_add__dom h a b c d h' : l_add_ h a b c d = Some h' -> same_dom h h'.
Proof. unfold l_add_. intros H. repeat opt_step H. to_dom. dom_close. Qed.
Lemma l_add_next_dom h c n h' : l_add_next h c n = Some h' -> same_dom h h'.
Proof. unfold l_add_next. intros H. repeat opt_step H. eapply l_add__dom; eauto. Qed.
Lemma l_add_prev_dom h c n h' : l_add_prev h c n = Some h' -> same_dom h h'.
Proof. unfold l_add_prev. intros H. repeat opt_step H. eapply l_add__dom; eauto. Qed.
Lemma l_del__dom h a b h' : l_del_ h a b = Some h' -> same_dom h h'.
Proof. unfold l_del_. intros H. repeat opt_step H. eapply l_link_dom; eauto. Qed.
Lemma l_del_node_dom h n h' : l_del_node h n = Some h' -> same_dom h h'.
Proof. apply l_del__dom. Qed.
Lemma l_swap__dom h a b c d h' : l_swap_ h a b c d = Some h' -> same_dom h h'.
Proof.
  unfold l_swap_. intros H. repeat opt_step H.
  repeat match goal with H : l_add_ _ _ _ _ _ = Some _ |- _ => apply l_add__dom in H end. dom_close.
Qed.
Lemma l_swap_node_dom h l r h' : l_swap_node h l r = Some h' -> same_dom h h'.
Proof. apply l_swap__dom. Qed.

Lemma card_free ns : forall h, NoDup ns -> (forall x, In x ns -> live h x) ->
  (PositiveMap.cardinal (fold_left ddel ns h) + length ns = PositiveMap.cardinal h)%nat /\
  forall x, live (fold_left ddel ns h) x <-> live h x /\ ~ In x ns.
Proof.
  induction ns as [|a ns IH]; intros h ND L.
  - cbn [fold_left length In]. split; [lia|tauto].
  - cbn [fold_left length]. inversion ND as [|? ? Hna ND']; subst.
    destruct (IH (ddel h a) ND') as [C D].
    { intros x Hx. apply live_ddel. split; [intros ->; contradiction|apply L; right; exact Hx]. }
    split.
    + pose proof (card_ddel_live h a (L a (or_introl eq_refl))). lia.
    + intros x. rewrite D, live_ddel. cbn [In]. split.
      * intros [[H1 H2] H3]. split; [exact H2|]. intros [E|E]; [congruence|contradiction].
      * intros [H1 H2]. split; [split; [intros ->; apply H2; left; reflexivity|exact H1]|]. intros E. apply H2. right. exact E.
Qed.
(* ---- world level ---- *)
Definition card_inv (w : qworld) : Prop :=
  PositiveMap.cardinal (w_h w) = (2 + held w)%nat /\ live (w_h w) 1 /\ live (w_h w) 2 /\
  (forall x, live (w_h w) x -> x < w_fresh w) /\ 3 <= w_fresh w.

Definition hq (q : que) : nat := (N.to_nat (q_num q) + length (q_pool q))%nat.
Lemma held_hq w : held w = (hq (getq w false) + hq (getq w true))%nat.
Proof. unfold held, hq, getq. lia. Qed.

Lemma getq_setq w s q t : getq (setq w s q) t = if Bool.eqb s t then q else getq w t.
Proof. destruct s, t; reflexivity. Qed.
Lemma held_setq w s q : (held (setq w s q) + hq (getq w s) = held w + hq q)%nat.
Proof. rewrite !held_hq, !getq_setq. destruct s; cbn [Bool.eqb]; lia. Qed.
Lemma w_h_setq w s q : w_h (setq w s q) = w_h w. Proof. destruct s; reflexivity. Qed.
Lemma w_fresh_setq w s q : w_fresh (setq w s q) = w_fresh w. Proof. destruct s; reflexivity. Qed.

Definition keeps (w w' : qworld) : Prop :=
  same_dom (w_h w) (w_h w') /\ w_fresh w' = w_fresh w /\ held w' = held w.
Lemma keeps_refl w : keeps w w.
Proof. split; [apply same_dom_refl|auto]. Qed.
Lemma keeps_trans w w1 w2 : keeps w w1 -> keeps w1 w2 -> keeps w w2.
Proof. intros (A & B & C) (A' & B' & C'). split; [eapply same_dom_trans; eauto|split; congruence]. Qed.
Lemma keeps_card w w' : keeps w w' -> card_inv w -> card_inv w'.
Proof.
  intros ([A1 A2] & B & C) (I1 & I2 & I3 & I4 & I5). unfold card_inv. rewrite A1, B, C.
  split; [exact I1|]. split; [apply A2; exact I2|]. split; [apply A2; exact I3|].
  split; [|exact I5]. intros x Hx. apply I4. apply A2. exact Hx.
Qed.

(* same queue records, same fresh, heap with the same domain *)
Lemma keeps_heap w w' : same_dom (w_h w) (w_h w') -> w_fresh w' = w_fresh w ->
  w_qa w' = w_qa w -> w_qb w' = w_qb w -> keeps w w'.
Proof. intros A B C D. split; [exact A|]. split; [exact B|]. unfold held. rewrite C, D. reflexivity. Qed.

Lemma keeps_seth w h : same_dom (w_h w) h -> keeps w (seth w h).
Proof. intros H. apply keeps_heap; auto. Qed.
Lemma keeps_setv w a v : keeps w (setv w a v).
Proof. apply keeps_heap; auto. apply same_dom_refl. Qed.
Lemma keeps_clear w : keeps w (clear_trace w).
Proof. apply keeps_heap; auto. apply same_dom_refl. Qed.
Lemma keeps_sched w l : keeps w (set_sched w l).
Proof. apply keeps_heap; auto. apply same_dom_refl. Qed.
Lemma keeps_ask w mk : keeps w (fst (ask w mk)).
Proof. unfold ask. destruct (w_sched w); apply keeps_heap; auto; apply same_dom_refl. Qed.
Lemma getq_ask w mk s : getq (fst (ask w mk)) s = getq w s.
Proof. unfold ask. destruct (w_sched w); destruct s; reflexivity. Qed.
Lemma keeps_setq w s q : hq q = hq (getq w s) -> keeps w (setq w s q).
Proof.
  intros H. split; [rewrite w_h_setq; apply same_dom_refl|]. split; [apply w_fresh_setq|].
  pose proof (held_setq w s q). lia.
Qed.

Ltac out_step H :=
  match type of H with
  | match lift ?e with Ok _ => _ | Fault => Fault | NoFuel => NoFuel end = Ok _ =>
      destruct e eqn:?; cbn [lift] in H; [|discriminate H]
  | match ?e with Ok _ => _ | Fault => Fault | NoFuel => NoFuel end = Ok _ =>
      destruct e eqn:?; [|discriminate H|discriminate H]
  | (let '(_, _) := ?e in _) = Ok _ => destruct e eqn:?
  | (if ?c then _ else _) = Ok _ => destruct c eqn:?
  | Ok _ = Ok _ => injection H; clear H; intros; subst
  | Fault = Ok _ => discriminate H
  | lift ?e = Ok _ => destruct e eqn:?; cbn [lift] in H; [|discriminate H]
  end.

(* ---- a_que_new_ ---- *)
Lemma new_card w s w1 n : q_new_ w s = Ok (w1, n) -> card_inv w -> card_inv w1.
Proof.
  unfold q_new_. intros H I.
  destruct (q_pool (getq w s)) as [|m rest] eqn:Hp.
  - pose proof (keeps_ask w (RNode (16 + q_siz (getq w s)))) as K.
    pose proof (getq_ask w (RNode (16 + q_siz (getq w s))) s) as G.
    destruct (ask w (RNode (16 + q_siz (getq w s)))) as [wa ok]. cbn [fst] in K, G.
    apply keeps_card in K; [|exact I]. clear I.
    destruct ok; [|injection H; intros; subst; exact K].
    injection H as <- <-. destruct K as (I1 & I2 & I3 & I4 & I5).
    set (n := w_fresh wa) in *.
    assert (Hnl : ~ live (w_h wa) n) by (intros L; apply I4 in L; lia).
    assert (Hnz : n <> 0) by lia.
    unfold card_inv. rewrite w_h_setq, w_fresh_setq. cbn [w_h w_fresh].
    split; [|split; [|split; [|split]]].
    + rewrite card_dset_new by assumption. rewrite I1.
      match goal with |- context [held (setq ?W s ?Q)] => pose proof (held_setq W s Q) as Hh;
        assert (E1 : getq W s = getq wa s) by (destruct s; reflexivity);
        assert (E2 : held W = held wa) by reflexivity end.
      rewrite E1, E2, G in Hh. unfold hq in Hh. cbn [q_num q_pool] in Hh. rewrite Hp in Hh. cbn [length] in Hh. lia.
    + apply live_dset; auto.
    + apply live_dset; auto.
    + intros x Hx. apply live_dset in Hx; [|exact Hnz]. destruct Hx as [->|Hx]; [lia|]. apply I4 in Hx. lia.
    + lia.
  - destruct (N.ltb _ _); [discriminate|]. injection H as <- <-.
    eapply keeps_card; [|exact I]. apply keeps_setq. unfold hq. cbn [q_num q_pool]. rewrite Hp. cbn [length]. lia.
Qed.

(* ---- a_que_die_ ---- *)
Lemma die_keeps w s n w1 rc : q_die_ w s n = Ok (w1, rc) -> 1 <= q_num (getq w s) -> keeps w w1.
Proof.
  unfold q_die_. intros H Hn.
  destruct (N.eqb n 0); [injection H; intros; subst; apply keeps_refl|].
  destruct (N.leb _ _).
  - match type of H with context [ask w ?mk] =>
      pose proof (keeps_ask w mk) as K; pose proof (getq_ask w mk s) as G; destruct (ask w mk) as [wa ok] end.
    cbn [fst] in K, G.
    destruct ok; [|injection H; intros; subst; exact K].
    destruct (N.ltb _ _); [|discriminate]. injection H as <- <-.
    eapply keeps_trans; [exact K|]. apply keeps_setq. rewrite G. unfold hq. cbn [q_num q_pool length]. lia.
  - injection H as <- <-. apply keeps_setq. unfold hq. cbn [q_num q_pool length]. lia.
Qed.

Lemma getq_seth w h s : getq (seth w h) s = getq w s. Proof. destruct s; reflexivity. Qed.

Lemma take_rc_keeps w s n w1 rc : q_take_rc w s n = Ok (w1, rc) -> 1 <= q_num (getq w s) -> keeps w w1.
Proof.
  unfold q_take_rc. intros H Hn. repeat out_step H.
  - eapply keeps_trans; [eapply die_keeps; eauto|]. apply keeps_seth.
    match goal with H : l_del_node _ _ = Some _ |- _ => apply l_del_node_dom in H end. to_dom. dom_close.
  - eapply die_keeps; eauto.
Qed.

Lemma take_keeps w s n w1 r : q_take w s n = Ok (w1, r) -> 1 <= q_num (getq w s) -> keeps w w1.
Proof.
  unfold q_take. intros H Hn. repeat out_step H.
  match goal with E : q_take_rc _ _ _ = Ok ?x |- _ => destruct x as [w2 rc]; cbn [fst]; eapply take_rc_keeps; eauto end.
Qed.
Ltac to_dom2 :=
  repeat match goal with
  | H : wr_next _ _ _ = Some _ |- _ => apply wr_next_dom in H
  | H : wr_prev _ _ _ = Some _ |- _ => apply wr_prev_dom in H
  | H : l_init _ _ = Some _ |- _ => apply l_init_dom in H
  | H : l_link _ _ _ = Some _ |- _ => apply l_link_dom in H
  | H : l_add_next _ _ _ = Some _ |- _ => apply l_add_next_dom in H
  | H : l_add_prev _ _ _ = Some _ |- _ => apply l_add_prev_dom in H
  | H : l_del_node _ _ = Some _ |- _ => apply l_del_node_dom in H
  | H : l_swap_node _ _ _ = Some _ |- _ => apply l_swap_node_dom in H
  end.

Ltac keeps_heap_tac := apply keeps_heap; [cbn [w_h seth setv]; to_dom2; dom_close|reflexivity..].

Lemma push_card fore w s v w' r : q_push fore w s v = Ok (w', r) -> card_inv w -> card_inv w'.
Proof.
  unfold q_push. intros H I. repeat out_step H.
  - eapply new_card; eauto.
  - eapply keeps_card; [|eapply new_card; eauto]. destruct fore; keeps_heap_tac.
Qed.

Lemma num_pos_fore w X s n : QInv w X -> rd_next (w_h w) (qaddr s) = Some n -> N.eqb n (qaddr s) = false ->
  1 <= q_num (getq w s).
Proof.
  intros I E Hn. pose proof (qi_ring _ _ I s) as R.
  rewrite (Ring_next _ [] (qaddr s) (sel s X) R) in E. cbn [hd] in E. rewrite (qi_num _ _ I s).
  destruct (sel s X); cbn [hd length] in *; [|lia]. injection E as <-. rewrite N.eqb_refl in Hn. discriminate.
Qed.
Lemma num_pos_back w X s n : QInv w X -> rd_prev (w_h w) (qaddr s) = Some n -> N.eqb n (qaddr s) = false ->
  1 <= q_num (getq w s).
Proof.
  intros I E Hn. pose proof (qi_ring _ _ I s) as R.
  rewrite (Ring_prev _ [] (qaddr s) (sel s X) R) in E. cbn [last] in E. rewrite (qi_num _ _ I s).
  destruct (sel s X); cbn [length] in *; [|lia]. cbn [last] in E. injection E as <-. rewrite N.eqb_refl in Hn. discriminate.
Qed.

Lemma pull_keeps fore w X s w' r : QInv w X -> q_pull fore w s = Ok (w', r) -> keeps w w'.
Proof.
  unfold q_pull. intros I H. repeat out_step H.
  - apply keeps_refl.
  - eapply take_keeps; eauto. destruct fore; [eapply num_pos_fore|eapply num_pos_back]; eauto.
Qed.

Lemma insert_card w s idx v w' r : q_insert w s idx v = Ok (w', r) -> card_inv w -> card_inv w'.
Proof.
  unfold q_insert. intros H I. destruct (N.ltb idx _); [|eapply push_card; eauto].
  repeat out_step H.
  - eapply new_card; eauto.
  - eapply keeps_card; [|eapply new_card; eauto]. apply keeps_setv.
  - eapply keeps_card; [|eapply new_card; eauto]. keeps_heap_tac.
Qed.

Lemma remove_keeps w X s idx w' r : QInv w X -> q_remove w s idx = Ok (w', r) -> keeps w w'.
Proof.
  unfold q_remove. intros I H. destruct (N.ltb idx _) eqn:Hlt; [|eapply pull_keeps; eauto].
  repeat out_step H. eapply take_keeps; eauto. apply N.ltb_lt in Hlt. lia.
Qed.

Lemma sort_fore_keeps cmp w s w' : q_sort_fore cmp w s = Ok w' -> keeps w w'.
Proof.
  unfold q_sort_fore. intros H. repeat out_step H; try apply keeps_refl. keeps_heap_tac.
Qed.
Lemma sort_back_keeps cmp w s w' : q_sort_back cmp w s = Ok w' -> keeps w w'.
Proof.
  unfold q_sort_back. intros H. repeat out_step H; try apply keeps_refl. keeps_heap_tac.
Qed.
Lemma push_sort_card cmp w s key w' r : q_push_sort cmp w s key = Ok (w', r) -> card_inv w -> card_inv w'.
Proof.
  unfold q_push_sort. intros H I. repeat out_step H.
  - eapply new_card; eauto.
  - eapply keeps_card; [|eapply new_card; eauto]. keeps_heap_tac.
Qed.
Lemma swap_elem_keeps w l r w' : q_swap_elem w l r = Ok w' -> keeps w w'.
Proof.
  unfold q_swap_elem. intros H. repeat out_step H; keeps_heap_tac.
Qed.

Lemma move_dom h a b h' : q_move_ h a b = Ok h' -> same_dom h h'.
Proof.
  unfold q_move_. intros H. repeat out_step H; to_dom2; dom_close.
Qed.

Lemma struct_swap_keeps w w' : q_struct_swap w = Ok w' -> keeps w w'.
Proof.
  unfold q_struct_swap. intros H.
  destruct (dget (w_h w) 1) as [na|] eqn:E1; cbn [lift] in H; [|discriminate].
  destruct (dget (w_h w) 2) as [nb|] eqn:E2; cbn [lift] in H; [|discriminate].
  injection H as <-.
  split; [|split; [reflexivity|unfold held; cbn [w_qa w_qb]; lia]].
  change (same_dom (w_h w) (dset (dset (w_h w) 1 nb) 2 na)).
  eapply same_dom_trans; [apply (dset_live_dom (w_h w) 1 nb); eexists; eauto|].
  apply dset_live_dom. apply live_dset; [lia|]. right. eexists; eauto.
Qed.

Lemma swap_keeps w s1 s2 w' : q_swap w s1 s2 = Ok w' -> keeps w w'.
Proof.
  unfold q_swap. intros H. repeat out_step H; [apply keeps_refl|].
  eapply keeps_trans; [eapply struct_swap_keeps; eauto|]. apply keeps_seth.
  repeat match goal with H : q_move_ _ _ _ = Ok _ |- _ => apply move_dom in H end. dom_close.
Qed.
(* ---- releasing nodes ---- *)
Lemma card_inv_free w ns w' :
  card_inv w -> NoDup ns -> (forall x, In x ns -> live (w_h w) x /\ 3 <= x) ->
  same_dom (fold_left ddel ns (w_h w)) (w_h w') -> w_fresh w' = w_fresh w ->
  (held w' + length ns = held w)%nat -> card_inv w'.
Proof.
  intros (I1 & I2 & I3 & I4 & I5) ND L [D1 D2] F Hh.
  destruct (card_free ns (w_h w) ND (fun x Hx => proj1 (L x Hx))) as [C1 C2].
  assert (Hs : forall a, live (w_h w) a -> a < 3 -> live (w_h w') a).
  { intros a La Ha. apply D2, C2. split; [exact La|]. intros Hin. apply L in Hin. lia. }
  unfold card_inv. rewrite F. split; [lia|]. split; [apply Hs; [exact I2|lia]|]. split; [apply Hs; [exact I3|lia]|].
  split; [|exact I5]. intros x Hx. apply I4. apply D2, C2 in Hx. tauto.
Qed.

Lemma nodup_app_intro {A} (l1 l2 : list A) :
  NoDup l1 -> NoDup l2 -> (forall x, In x l1 -> ~ In x l2) -> NoDup (l1 ++ l2).
Proof.
  induction l1 as [|a l1 IH]; intros N1 N2 D; [exact N2|]. cbn [app]. inversion N1; subst. constructor.
  - intros H. apply in_app_or in H. destruct H as [H|H]; [contradiction|]. apply (D a); [left; reflexivity|exact H].
  - apply IH; auto. intros x Hx. apply D. right. exact Hx.
Qed.

Lemma QInv_pool_NoDup w X s : QInv w X -> NoDup (q_pool (getq w s)).
Proof.
  intros I. pose proof (qi_nodup _ _ I) as N. unfold allnodes, pools in N.
  apply NoDup_app_r, NoDup_app_r in N. destruct s; [eapply NoDup_app_r|eapply NoDup_app_l]; exact N.
Qed.

Lemma QInv_pool_sel_disj w X s x : QInv w X -> In x (q_pool (getq w s)) -> ~ In x (sel s X).
Proof.
  intros I Hp Hs. pose proof (qi_nodup _ _ I) as N. unfold allnodes, pools in N.
  destruct s; cbn [getq sel] in *.
  - apply NoDup_app_r in N. eapply (NoDup_app_disj _ _ x N); [exact Hs|]. apply in_or_app. right. exact Hp.
  - eapply (NoDup_app_disj _ _ x N); [exact Hs|]. apply in_or_app. right. apply in_or_app. left. exact Hp.
Qed.

Lemma getq_free w ns s : getq (free_nodes w ns) s = getq w s. Proof. destruct s; reflexivity. Qed.

Lemma reset_card w X s size w' : QInv w X -> card_inv w -> q_reset w s size = Ok w' -> card_inv w'.
Proof.
  intros I C H. unfold q_reset in H. rewrite (ring_of_spec w X s I) in H. unfold q_ctor in H.
  set (ns := q_pool (getq w s) ++ sel s X) in *.
  destruct (l_init (w_h (free_nodes w ns)) (qaddr s)) as [h'|] eqn:E; cbn [lift] in H; [|discriminate].
  injection H as <-. apply l_init_dom in E.
  apply (card_inv_free w ns); [exact C| | | | |].
  - apply nodup_app_intro; [eapply QInv_pool_NoDup; eauto|eapply QInv_sel_NoDup; eauto|].
    intros x. apply QInv_pool_sel_disj. exact I.
  - intros x Hx. assert (Hin : In x (allnodes w X)).
    { apply in_app_or in Hx. destruct Hx; [eapply allnodes_pool|eapply allnodes_sel]; eauto. }
    destruct (qi_node _ _ I x Hin) as (B & L & _). split; [exact L|lia].
  - rewrite w_h_setq. exact E.
  - rewrite w_fresh_setq. reflexivity.
  - match goal with |- context [held (setq ?W s ?Q)] => pose proof (held_setq W s Q) as Hh;
      assert (E1 : getq W s = getq w s) by (destruct s; reflexivity);
      assert (E2 : held W = held w) by reflexivity end.
    rewrite E1, E2 in Hh. unfold hq in Hh. cbn [q_num q_pool length] in Hh.
    assert (Hl : length ns = (length (q_pool (getq w s)) + length (sel s X))%nat) by (unfold ns; apply app_length).
    pose proof (qi_num _ _ I s). lia.
Qed.

Lemma reset_getq w s size w' : q_reset w s size = Ok w' ->
  getq w' s = mkQ [] (if N.eqb size 0 then 1 else size) 0 0 /\ getq w' (negb s) = getq w (negb s).
Proof.
  unfold q_reset, q_ctor. destruct (ring_of _ _ _) as [xs|]; [|discriminate].
  destruct (l_init _ _) as [h'|]; cbn [lift]; [|discriminate]. intros H. injection H as <-.
  rewrite getq_setq_same, getq_setq_other. split; [reflexivity|]. destruct s; reflexivity.
Qed.

(* ---- the reservation of the repaired a_que_drop ---- *)
Lemma QInv_mem_grow w w1 X :
  w_h w1 = w_h w -> w_val w1 = w_val w -> w_fresh w1 = w_fresh w ->
  (forall t, q_pool (getq w1 t) = q_pool (getq w t) /\ q_num (getq w1 t) = q_num (getq w t) /\
             q_mem (getq w t) <= q_mem (getq w1 t)) ->
  QInv w X -> QInv w1 X.
Proof.
  intros Hh Hv Hf Hq I.
  assert (Hall : allnodes w1 X = allnodes w X).
  { unfold allnodes, pools. f_equal. f_equal. f_equal; [apply (Hq false)|apply (Hq true)]. }
  destruct I. constructor; rewrite ?Hall, ?Hh, ?Hv, ?Hf; auto; intros t; destruct (Hq t) as (E1 & E2 & E3);
    rewrite ?E1, ?E2; auto. specialize (qi_mem t). lia.
Qed.

Lemma reserve_spec w s w1 ok : q_reserve w s = (w1, ok) -> keeps w w1 /\ forall X, QInv w X -> QInv w1 X.
Proof.
  unfold q_reserve. destruct (N.ltb _ _) eqn:Hlt.
  2:{ intros H. injection H as <- <-. split; [apply keeps_refl|auto]. }
  apply N.ltb_lt in Hlt.
  match goal with |- context [ask w ?mk] =>
    pose proof (keeps_ask w mk) as K; pose proof (getq_ask w mk) as G; pose proof (ask_spec w mk) as A;
    destruct (ask w mk) as [wa ok'] end.
  cbn [fst] in K, G. destruct A as (Hh & Hv & Hf & Ha & Hb & _).
  destruct ok'; intros H; injection H as <- <-.
  - split.
    + eapply keeps_trans; [exact K|]. apply keeps_setq. rewrite G. reflexivity.
    + intros X I. eapply QInv_mem_grow; [| | | |exact I]; rewrite ?w_h_setq, ?w_fresh_setq; auto.
      * destruct s; cbn [setq w_val]; exact Hv.
      * intros t. rewrite getq_setq, G. destruct (Bool.eqb s t) eqn:Est.
        -- apply Bool.eqb_prop in Est. subst t. cbn [q_pool q_num q_mem]. split; [reflexivity|]. split; [reflexivity|].
           match goal with |- _ <= size_up8 ?n => pose proof (size_up8_ge n) end. lia.
        -- split; [reflexivity|]. split; [reflexivity|]. lia.
  - split; [exact K|]. intros X I. eapply same_core_QInv; [|exact I]. unfold same_core. auto.
Qed.

Lemma drop_loop_keeps s fuel : forall w X w' rc,
  QInv w X -> q_drop_loop w s fuel = Ok (w', rc) -> keeps w w' /\ exists X', QInv w' X'.
Proof.
  induction fuel as [|fuel IH]; intros w X w' rc I H; [discriminate|].
  cbn [q_drop_loop] in H.
  destruct (rd_next (w_h w) (qaddr s)) as [node|] eqn:E; cbn [lift] in H; [|discriminate].
  destruct (N.eqb node (qaddr s)) eqn:Hn.
  { injection H as <- <-. split; [apply keeps_refl|exists X; exact I]. }
  pose proof (num_pos_fore w X s node I E Hn) as Hpos.
  pose proof (qi_ring _ _ I s) as R.
  rewrite (Ring_next _ [] (qaddr s) (sel s X) R) in E. cbn [hd] in E.
  destruct (sel s X) as [|n t] eqn:Hsel; cbn [hd] in E; injection E as <-.
  { rewrite N.eqb_refl in Hn. discriminate. }
  destruct (take_rc_ok w X s [] n t I Hsel) as (w1 & rc1 & E1 & _ & C). rewrite E1 in H. cbn [fst snd] in H.
  pose proof (take_rc_keeps w s n w1 rc1 E1 Hpos) as K1.
  destruct C as [(Hrc & I1 & _)|(Hrc & I1 & _)].
  - replace (Z.eqb rc1 0) with false in H by (symmetry; apply Z.eqb_neq; exact Hrc).
    injection H as <- <-. split; [exact K1|exists X; exact I1].
  - subst rc1. cbn [Z.eqb] in H. destruct (IH _ _ _ _ I1 H) as [K2 HX]. split; [eapply keeps_trans; eauto|exact HX].
Qed.

Lemma drop_fix_keeps w X s w' rc :
  QInv w X -> q_drop_fix w s = Ok (w', rc) -> keeps w w' /\ exists X', QInv w' X'.
Proof.
  intros I. unfold q_drop_fix.
  match goal with |- context [match ?e with pair _ _ => _ end] => change e with (q_reserve w s) end.
  destruct (q_reserve w s) as [w1 ok] eqn:E.
  destruct (reserve_spec w s w1 ok E) as [K Q]. specialize (Q X I). destruct ok.
  - intros H. destruct (drop_loop_keeps s _ w1 X w' rc Q H) as [K2 HX]. split; [eapply keeps_trans; eauto|exact HX].
  - intros H. injection H as <- <-. split; [exact K|exists X; exact Q].
Qed.

Lemma setz_fix_card w X s siz w' rc :
  QInv w X -> card_inv w -> q_setz_fix w s siz = Ok (w', rc) -> card_inv w'.
Proof.
  intros I C. unfold q_setz_fix. destruct (q_drop_fix w s) as [[w1 rc1]| |] eqn:E; try discriminate.
  destruct (drop_fix_keeps w X s w1 rc1 I E) as [K [X1 I1]]. apply (keeps_card _ _ K) in C.
  destruct (Z.eqb rc1 0); [|intros H; injection H as <- <-; exact C].
  destruct (N.ltb _ _); intros H; injection H as <- <-.
  - apply (card_inv_free w1 (q_pool (getq w1 s))); [exact C| | | | |].
    + eapply QInv_pool_NoDup; eauto.
    + intros x Hx. assert (Hin : In x (allnodes w1 X1)) by (eapply allnodes_pool; eauto).
      destruct (qi_node _ _ I1 x Hin) as (B & L & _). split; [exact L|lia].
    + rewrite w_h_setq. apply same_dom_refl.
    + rewrite w_fresh_setq. reflexivity.
    + match goal with |- context [held (setq ?W s ?Q)] => pose proof (held_setq W s Q) as Hh;
        assert (E1 : getq W s = getq w1 s) by (destruct s; reflexivity);
        assert (E2 : held W = held w1) by reflexivity end.
      rewrite E1, E2 in Hh. unfold hq in Hh. cbn [q_num q_pool length] in Hh. lia.
  - eapply keeps_card; [|exact C]. apply keeps_setq. reflexivity.
Qed.
(* ================================================================== the theorems *)
Ltac res_inv H :=
  unfold ptr_res, unit_res, look_res in H; repeat out_step H;
  repeat match goal with x : (qworld * _)%type |- _ => destruct x end; cbn [fst snd] in *.

Theorem qf_step_card : forall w X o w' r,
  QInv w X -> card_inv w -> qf_step w o = Ok (w', r) -> card_inv w'.
Proof.
  intros w0 X o w' r I0 C0 H.
  assert (I : QInv (clear_trace w0) X) by (eapply same_core_QInv; [apply clear_trace_core|exact I0]).
  assert (C : card_inv (clear_trace w0)) by (eapply keeps_card; [apply keeps_clear|exact C0]).
  destruct o; cbn [qf_step q_step] in H.
  - (* QSched *) injection H as <- <-. eapply keeps_card; [apply keeps_sched|exact C].
  - (* QReset *) res_inv H. eapply reset_card; eauto.
  - (* QPushFore *) res_inv H. eapply push_card; eauto.
  - (* QPushBack *) res_inv H. eapply push_card; eauto.
  - (* QPullFore *) res_inv H. eapply keeps_card; [eapply pull_keeps; eauto|exact C].
  - (* QPullBack *) res_inv H. eapply keeps_card; [eapply pull_keeps; eauto|exact C].
  - (* QInsert *) res_inv H. eapply insert_card; eauto.
  - (* QRemove *) res_inv H. eapply keeps_card; [eapply remove_keeps; eauto|exact C].
  - (* QAt *) res_inv H. exact C.
  - (* QFore *) res_inv H. exact C.
  - (* QBack *) res_inv H. exact C.
  - (* QSortFore *) res_inv H. eapply keeps_card; [eapply sort_fore_keeps; eauto|exact C].
  - (* QSortBack *) res_inv H. eapply keeps_card; [eapply sort_back_keeps; eauto|exact C].
  - (* QPushSort *) res_inv H. eapply push_sort_card; eauto.
  - (* QSwapElem *) res_inv H. eapply keeps_card; [eapply swap_elem_keeps; eauto|exact C].
  - (* QSwap *) res_inv H. eapply keeps_card; [eapply swap_keeps; eauto|exact C].
  - (* QDrop *) destruct (drop_fix_keeps _ X _ _ _ I H) as [K _]. eapply keeps_card; eauto.
  - (* QSetz *) eapply setz_fix_card; eauto.
Qed.

(* a heap of two addresses, both sentinels: nothing else is there *)
Lemma two_only h : PositiveMap.cardinal h = 2%nat -> live h 1 -> live h 2 ->
  forall x, live h x -> x = 1 \/ x = 2.
Proof.
  intros Hc L1 L2 x Lx.
  destruct (N.eq_dec x 1) as [|N1]; [auto|]. destruct (N.eq_dec x 2) as [|N2]; [auto|]. exfalso.
  pose proof (card_ddel_live h x Lx) as C1.
  assert (L1' : live (ddel h x) 1) by (apply live_ddel; split; [congruence|exact L1]).
  pose proof (card_ddel_live _ 1 L1') as C2.
  assert (L2' : live (ddel (ddel h x) 1) 2).
  { apply live_ddel. split; [lia|]. apply live_ddel. split; [congruence|exact L2]. }
  pose proof (card_ddel_live _ 2 L2') as C3. lia.
Qed.

Theorem q_destroy_card : forall w X, QInv w X -> card_inv w ->
  exists w', q_destroy w = Ok w' /\ node_blocks w' = 0%nat /\ pool_arrays w' = 0%nat /\
             live_blocks w' = 0%nat /\ (forall x, live (w_h w') x -> x = 1 \/ x = 2).
Proof.
  intros w0 X I0 C0.
  assert (I : QInv (clear_trace w0) X) by (eapply same_core_QInv; [apply clear_trace_core|exact I0]).
  assert (C : card_inv (clear_trace w0)) by (eapply keeps_card; [apply keeps_clear|exact C0]).
  unfold q_destroy.
  destruct (reset_ok _ X false 8 I) as (w1 & E1 & _ & I1 & _). rewrite E1.
  pose proof (reset_card _ _ _ _ _ I C E1) as C1.
  destruct (reset_ok _ _ true 8 I1) as (w2 & E2 & _ & I2 & _). rewrite E2.
  pose proof (reset_card _ _ _ _ _ I1 C1 E2) as C2.
  destruct (reset_getq _ _ _ _ E1) as [G1 _]. destruct (reset_getq _ _ _ _ E2) as [G2 G2'].
  cbn [negb] in G2'. rewrite G1 in G2'. cbn [N.eqb] in G1, G2, G2'.
  change (getq w2 true) with (w_qb w2) in G2. change (getq w2 false) with (w_qa w2) in G2'.
  assert (Hh : held w2 = 0%nat) by (unfold held; rewrite G2, G2'; reflexivity).
  destruct C2 as (K1 & K2 & K3 & _). rewrite Hh in K1.
  assert (Hn : node_blocks w2 = 0%nat) by (unfold node_blocks; rewrite K1; reflexivity).
  assert (Hp : pool_arrays w2 = 0%nat) by (unfold pool_arrays; rewrite G2, G2'; reflexivity).
  exists w2. split; [reflexivity|]. split; [exact Hn|]. split; [exact Hp|].
  split; [unfold live_blocks; rewrite Hn, Hp; reflexivity|]. apply two_only; assumption.
Qed.

Lemma card_inv_world0 : card_inv q_world0.
Proof.
  assert (Hc : PositiveMap.cardinal (w_h q_world0) = 2%nat) by reflexivity.
  assert (L1 : live (w_h q_world0) 1) by (eexists; reflexivity).
  assert (L2 : live (w_h q_world0) 2) by (eexists; reflexivity).
  split; [exact Hc|]. split; [exact L1|]. split; [exact L2|]. split.
  - intros x Hx. destruct (two_only _ Hc L1 L2 x Hx) as [-> | ->]; reflexivity.
  - cbn [w_fresh q_world0]. lia.
Qed.

(* ---- non-vacuity: a concrete history with a refused push, a drop and a growing setz ---- *)
Definition card_hist1 : list qop :=
  [QPushBack false 1; QPushBack false 2; QPushFore false 3; QPushBack true 4]%Z.
Definition card_hist2 : list qop := [QPushBack false 5]%Z.        (* run under the schedule [false] *)
Definition card_hist3 : list qop := [QPullFore false; QDrop true; QSetz false 16].

Definition card_check : bool :=
  match qf_run q_world0 card_hist1 with
  | Ok (w1, r1) =>
      match qf_run (set_sched w1 [false]) card_hist2 with
      | Ok (w2, r2) =>
          match qf_run w2 card_hist3 with
          | Ok (w3, r3) =>
              match q_destroy w3 with
              | Ok w4 =>
                  (* the four pushes gave nodes 3,4,5,6 *)
                  (match r1 with [3; 4; 5; 6]%Z => true | _ => false end) &&
                  (* the refused push returned NULL, the heap kept its 2 + 4 addresses, request logged as refused *)
                  (match r2 with [0%Z] => true | _ => false end) && QueSpec.failed w2 &&
                  Nat.eqb (PositiveMap.cardinal (w_h w2)) 6 && Nat.eqb (held w2) 4 &&
                  (* the pull gave node 5, drop and setz succeeded; setz released the three recycled nodes of A *)
                  (match r3 with [5; 0; 0]%Z => true | _ => false end) &&
                  Nat.eqb (PositiveMap.cardinal (w_h w3)) 3 && Nat.eqb (held w3) 1 &&
                  N.eqb (q_siz (w_qa w3)) 16 &&
                  (* one node block (recycled in B) and two pool arrays are still held ... *)
                  Nat.eqb (live_blocks w3) 3 &&
                  (* ... and nothing after the destruction *)
                  Nat.eqb (live_blocks w4) 0 && Nat.eqb (PositiveMap.cardinal (w_h w4)) 2
              | _ => false
              end
          | _ => false
          end
      | _ => false
      end
  | _ => false
  end.

Example que_card_example : card_check = true.
Proof. vm_compute. reflexivity. Qed.

(* under the invariant the node blocks of the ledger are exactly the counted nodes *)
Corollary card_inv_blocks w : card_inv w -> node_blocks w = held w.
Proof. intros (H & _). unfold node_blocks. rewrite H. lia. Qed.
