(* C07 (queue part) -- allocation failure and the ledger of heap blocks for liba's a_que.
   Definitions only (no proofs).

   Built on the C05 model coq/C05/QueDefs.v: every a_alloc request with a non-zero size consumes
   one boolean of [w_sched] and is logged in [w_trace]; [q_step] clears the trace first, so after a
   step [w_trace] holds the requests of that operation ([QueSpec.failed] = one of them was
   refused).  Element nodes are the addresses >= 3 of the heap [w_h]; the pool array of a queue
   object is not an address of the model: it exists exactly when [q_mem] > 0.

   a_que_drop and a_que_setz as found were NOT all-or-nothing ([q_drop_orig] / [q_setz_orig] below:
   the nodes are moved to the pool one by one and a later growth of the pool array, or a later
   resize of a pooled node, can be refused after earlier elements have gone).  [q_drop_fix] /
   [q_setz_fix] model them as repaired (proposed_fixes/C07-que-1.diff = commit 2e456ba: a_que_drop
   reserves the pool array for cur_ + num_ entries before it moves anything; C07-que-2.diff =
   commit 8678f0c: a_que_setz releases the recycled nodes that are too small instead of resizing
   them one by one; releasing cannot fail).  Every other operation is C05's [q_step].  Of C05's
   drop/setz definitions only the loop [q_drop_loop] is used here. *)
From Coq Require Import NArith ZArith List Bool FMapPositive.
From LibaV Require Import C05.DListDefs C05.QueDefs C05.QueSpec.
Import ListNotations.
Local Open Scope N_scope.

(* if (need > mem_) { mem = a_size_up(8, need); ptr = a_alloc(ptr_, 8 * mem); if (!ptr) return A_OMEMORY; ... }
   with need = cur_ + num_ *)
Definition q_reserve (w : qworld) (s : bool) : qworld * bool :=
  let q := getq w s in
  let need := N.of_nat (length (q_pool q)) + q_num q in
  if N.ltb (q_mem q) need then
    let mem := size_up8 need in
    let '(w1, ok) := ask w (RPool (8 * mem)) in
    if ok then (setq w1 s (mkQ (q_pool q) (q_siz q) (q_num q) mem), true) else (w1, false)
  else (w, true).

(* a_que_drop (dtor = NULL) as repaired: reserve, then the loop of the code as found
   (C05's [q_drop_loop]: a_que_die_, a_list_del_node, a_list_dtor per node) *)
Definition q_drop_fix (w : qworld) (s : bool) : outcome (qworld * Z) :=
  let '(w1, ok) := q_reserve w s in
  if ok then q_drop_loop w1 s (fuel_of w1) else Ok (w1, 4%Z).

(* a_que_setz (dtor = NULL) as repaired: drop; when the element size grows the recycled nodes
   are released (the next push allocates a node of the new size) *)
Definition q_setz_fix (w : qworld) (s : bool) (siz : N) : outcome (qworld * Z) :=
  doo r <- q_drop_fix w s ;
  let '(w1, rc) := r in
  if Z.eqb rc 0 then
    let siz := if N.eqb siz 0 then 1 else siz in
    let q := getq w1 s in
    if N.ltb (q_siz q) siz then
      Ok (setq (free_nodes w1 (q_pool q)) s (mkQ [] siz (q_num q) (q_mem q)), 0%Z)
    else Ok (setq w1 s (mkQ (q_pool q) siz (q_num q) (q_mem q)), 0%Z)
  else Ok (w1, rc).

(* one operation of the repaired library *)
Definition qf_step (w0 : qworld) (o : qop) : outcome (qworld * Z) :=
  match o with
  | QDrop s => q_drop_fix (clear_trace w0) s
  | QSetz s siz => q_setz_fix (clear_trace w0) s siz
  | _ => q_step w0 o
  end.

Fixpoint qf_run (w : qworld) (os : list qop) : outcome (qworld * list Z) :=
  match os with
  | [] => Ok (w, [])
  | o :: r => doo x <- qf_step w o ; doo y <- qf_run (fst x) r ; Ok (fst y, snd x :: snd y)
  end.

(* the value by which an operation reports a refused request: a null element pointer, or
   A_OMEMORY from a_que_drop / a_que_setz *)
Definition q_fail_ret (o : qop) : option Z :=
  match o with
  | QPushFore _ _ | QPushBack _ _ | QPullFore _ | QPullBack _ | QInsert _ _ _ | QRemove _ _
  | QPushSort _ _ _ => Some 0%Z
  | QDrop _ | QSetz _ _ => Some 4%Z
  | _ => None
  end.

(* everything but the pending schedule and the trace of the last operation *)
Definition q_same (w w1 : qworld) : Prop :=
  w_h w1 = w_h w /\ w_val w1 = w_val w /\ w_fresh w1 = w_fresh w /\ w_qa w1 = w_qa w /\ w_qb w1 = w_qb w.

(* ---- the ledger view ---- *)
(* heap blocks that are live: the element nodes (every address of the heap but the two
   sentinels) and one pool array per queue object whose capacity is not 0 *)
Definition pool_arrays (w : qworld) : nat :=
  ((if N.ltb 0 (q_mem (w_qa w)) then 1 else 0) + (if N.ltb 0 (q_mem (w_qb w)) then 1 else 0))%nat.
Definition node_blocks (w : qworld) : nat := (PositiveMap.cardinal (w_h w) - 2)%nat.
Definition live_blocks (w : qworld) : nat := (node_blocks w + pool_arrays w)%nat.

(* the nodes the two queue objects account for: enqueued + recycled *)
Definition held (w : qworld) : nat :=
  (N.to_nat (q_num (w_qa w)) + N.to_nat (q_num (w_qb w)) +
   length (q_pool (w_qa w)) + length (q_pool (w_qb w)))%nat.

(* "by the time the container is destroyed": a_que_dtor on both objects (followed by a_que_ctor,
   which allocates nothing) *)
Definition q_destroy (w : qworld) : outcome qworld :=
  doo w1 <- q_reset (clear_trace w) false 8 ; q_reset w1 true 8.

(* ---- the code AS FOUND (before fix: commits 2e456ba / 8678f0c), kept for the refutations and so
   that the check recognises a tree that has it ---- *)
(* a_que_drop: the loop alone; the pool array grows inside a_que_die_, node by node *)
Definition q_drop_orig (w : qworld) (s : bool) : outcome (qworld * Z) := q_drop_loop w s (fuel_of w).

(* the realloc loop of a_que_setz over ptr_[0..cur_): one request per pooled node, stops at the
   first refusal *)
Fixpoint q_resize_orig (w : qworld) (nodes : list id) (size : N) : qworld * bool :=
  match nodes with
  | [] => (w, true)
  | _ :: r => let '(w1, ok) := ask w (RResize size) in
              if ok then q_resize_orig w1 r size else (w1, false)
  end.

Definition q_setz_orig (w : qworld) (s : bool) (siz : N) : outcome (qworld * Z) :=
  doo r <- q_drop_orig w s ;
  let '(w1, rc) := r in
  if Z.eqb rc 0 then
    let siz := if N.eqb siz 0 then 1 else siz in
    let q := getq w1 s in
    if N.ltb (q_siz q) siz then
      let '(w2, ok) := q_resize_orig w1 (rev (q_pool q)) (16 + siz) in
      if ok then
        let q2 := getq w2 s in
        Ok (setq w2 s (mkQ (q_pool q2) siz (q_num q2) (q_mem q2)), 0%Z)
      else Ok (w2, 4%Z)
    else Ok (setq w1 s (mkQ (q_pool q) siz (q_num q) (q_mem q)), 0%Z)
  else Ok (w1, rc).

Definition qo_step (w0 : qworld) (o : qop) : outcome (qworld * Z) :=
  match o with
  | QDrop s => q_drop_orig (clear_trace w0) s
  | QSetz s siz => q_setz_orig (clear_trace w0) s siz
  | _ => q_step w0 o
  end.

(* nine elements: the second growth of the pool array falls inside a_que_drop *)
Definition nine_pushes : list qop :=
  [QPushBack false 1; QPushBack false 2; QPushBack false 3; QPushBack false 4; QPushBack false 5;
   QPushBack false 6; QPushBack false 7; QPushBack false 8; QPushBack false 9]%Z.
