(* C07 (string part): extraction of the ledger machine (ExtrOcamlBasic only). *)
Require Extraction.
Require Import ExtrOcamlBasic.
From LibaV Require Import C06.StrDefs C07.StrFaultDefs.
Extraction "C07/extracted/strfault.ml" fstep f_init frun destroy live_list slot_of sel set_sch catv_orig.
