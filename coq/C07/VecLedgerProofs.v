(* C07 (vector and buffer part) -- clause "ledger_balanced": over every admissible history of the
   C04 world machine [wstep] (two a_vec handles, one a_buf handle, allocator with a fault schedule)
   the ledger of live heap blocks [h_live] holds exactly the blocks the handles own, once each;
   no release / resize ever names a block that is not live ([EvBad] never logged, failed requests
   included); and after the destructors ([destroy_ops]) nothing is live.

   Main results: [wstep_led] (one step), [run_led] (histories from any consistent world),
   [vec_ledger_balanced_all] (the clause), [vec_ledger_example] (non-vacuity).
   Every statement in this file is proved completely; nothing is assumed. *)
From Coq Require Import NArith ZArith List Bool Lia ZifyBool ZifyNat ZifyN Permutation.
From LibaV Require Import C04.VecDefs C04.VecSpec C04.ArrProofs C04.VecProofs C07.VecFaultDefs.
Import ListNotations.
Local Open Scope N_scope.

Local Ltac Zify.zify_post_hook ::= Z.to_euclidean_division_equations.

(* ------------------------------------------------------------------ the ledger invariant *)
(* the ledger of [h] holds exactly the blocks [own], once each, and every live id is below the
   next fresh id *)
Definition led_ok (h : heap) (own : list N) : Prop :=
  NoDup (map fst (h_live h)) /\ NoDup own /\
  (forall i, In i (map fst (h_live h)) <-> In i own) /\
  (forall i, In i (map fst (h_live h)) -> i < h_next h).

Lemma led_ok_perm h own own' : Permutation own own' -> led_ok h own -> led_ok h own'.
Proof.
  intros P (A & B & C & D). split; [exact A|]. split; [eapply Permutation_NoDup; eassumption|].
  split; [|exact D]. intros i. rewrite C. split; intro H.
  - eapply Permutation_in; eassumption.
  - eapply Permutation_in; [apply Permutation_sym|]; eassumption.
Qed.

Lemma is_live_in h id : is_live h id = true <-> In id (map fst (h_live h)).
Proof.
  unfold is_live. rewrite existsb_exists, in_map_iff. split.
  - intros (p & Hin & E). apply N.eqb_eq in E. exists p. split; auto.
  - intros (p & E & Hin). exists p. split; auto. apply N.eqb_eq. exact E.
Qed.

Lemma in_filter_ne (l : list (N * N)) id i :
  In i (map fst (filter (fun p => negb (fst p =? id)) l)) <-> In i (map fst l) /\ i <> id.
Proof.
  rewrite !in_map_iff. split.
  - intros (p & E & Hin). apply filter_In in Hin. destruct Hin as [Hin Hb].
    apply negb_true_iff, N.eqb_neq in Hb. split; [exists p; auto|congruence].
  - intros ((p & E & Hin) & Hne). exists p. split; auto. apply filter_In. split; auto.
    apply negb_true_iff, N.eqb_neq. congruence.
Qed.

Lemma nodup_filter_ne (l : list (N * N)) id :
  NoDup (map fst l) -> NoDup (map fst (filter (fun p => negb (fst p =? id)) l)).
Proof.
  induction l as [|p l IH]; cbn [map filter]; intros H; [constructor|].
  inversion H as [|? ? H1 H2]; subst.
  destruct (negb (fst p =? id)); cbn [map].
  - constructor; [|apply IH; assumption]. intros Hin. apply H1. apply in_filter_ne in Hin. tauto.
  - apply IH; assumption.
Qed.

Lemma map_fst_set l id sz : map fst (ledger_set l id sz) = map fst l.
Proof.
  unfold ledger_set. rewrite map_map. apply map_ext_in. intros p _.
  destruct (N.eqb_spec (fst p) id) as [e|e]; cbn [fst]; congruence.
Qed.

(* releasing a block the handles own *)
Lemma alloc_free h own own' id :
  led_ok h own -> Permutation own (id :: own') ->
  exists h', a_alloc h (Some id) 0 = (None, h', [EvFree]) /\ led_ok h' own'.
Proof.
  intros (A & B & C & D) P.
  assert (Hin : In id own) by (eapply Permutation_in; [apply Permutation_sym; exact P|now left]).
  assert (Hl : is_live h id = true) by (apply is_live_in, C, Hin).
  assert (Nd : NoDup (id :: own')) by (eapply Permutation_NoDup; eassumption).
  inversion Nd as [|? ? N1 N2]; subst.
  unfold a_alloc. cbn [N.eqb]. rewrite Hl. eexists. split; [reflexivity|].
  unfold led_ok, ledger_del. cbn [h_live h_next].
  split; [apply nodup_filter_ne; exact A|]. split; [exact N2|]. split.
  - intros i. rewrite in_filter_ne, C. split.
    + intros [Hi Hne]. apply (Permutation_in _ P) in Hi. destruct Hi as [Hi|Hi]; [congruence|exact Hi].
    + intros Hi. split; [eapply Permutation_in; [apply Permutation_sym; exact P|now right]|].
      intros ->. contradiction.
  - intros i Hi. apply in_filter_ne in Hi. apply D. tauto.
Qed.

(* a request of non-zero size: malloc (addr = None) or realloc of an owned block *)
Lemma alloc_nz h own addr size p h' ev :
  size <> 0 -> led_ok h own ->
  match addr with Some q => In q own | None => True end ->
  a_alloc h addr size = (p, h', ev) ->
  existsb ev_bad ev = false /\
  match addr, p with
  | None, Some id => led_ok h' (id :: own)
  | Some q, Some id => id = q /\ led_ok h' own
  | _, None => led_ok h' own
  end.
Proof.
  intros Hs (A & B & C & D) Ha E. unfold a_alloc in E.
  apply N.eqb_neq in Hs. rewrite Hs in E.
  assert (K : forall sc, led_ok (mkHeap sc (h_live h) (h_next h) (h_limit h)) own).
  { intros sc. unfold led_ok. cbn [h_live h_next]. auto. }
  destruct addr as [q|].
  - assert (Hl : is_live h q = true) by (apply is_live_in, C, Ha). rewrite Hl in E. cbn [negb] in E.
    destruct (_ && _) in E; injection E as <- <- <-; (split; [reflexivity|]); [|apply K].
    split; [reflexivity|]. unfold led_ok. cbn [h_live h_next]. rewrite map_fst_set. auto.
  - destruct (_ && _) in E; injection E as <- <- <-; (split; [reflexivity|]); [|apply K].
    unfold led_ok. cbn [h_live h_next map fst].
    assert (F : ~ In (h_next h) (map fst (h_live h))) by (intros Hi; apply D in Hi; lia).
    split; [constructor; assumption|]. split; [constructor; [rewrite <- C|]; assumption|]. split.
    + intros i. cbn [In]. rewrite C. tauto.
    + intros i [<-|Hi]; [lia|]. apply D in Hi. lia.
Qed.

(* ------------------------------------------------------------------ what one operation does *)
Definition optl (o : option N) : list N := match o with Some p => [p] | None => [] end.

(* either the heap is untouched and the handle keeps its block, or exactly one request of
   non-zero size was made for the handle's block, and the handle holds what it returned (the old
   block if the request was refused) *)
Definition alloc_post (h : heap) (ptr : option N) (h' : heap) (ptr' : option N) (ev : list event) : Prop :=
  (h' = h /\ ptr' = ptr /\ ev = []) \/
  exists bytes p, bytes <> 0 /\ a_alloc h ptr bytes = (p, h', ev) /\
                  ptr' = match p with Some id => Some id | None => ptr end.

Lemma alloc_post_led h ptr h' ptr' ev own0 :
  alloc_post h ptr h' ptr' ev -> led_ok h (optl ptr ++ own0) ->
  led_ok h' (optl ptr' ++ own0) /\ existsb ev_bad ev = false.
Proof.
  intros [(-> & -> & ->)|(bytes & p & Hb & E & ->)] L; [split; [exact L|reflexivity]|].
  assert (Ha : match ptr with Some q => In q (optl ptr ++ own0) | None => True end).
  { destruct ptr; [now left|exact I]. }
  destruct (alloc_nz _ _ _ _ _ _ _ Hb L Ha E) as [B R]. split; [|exact B].
  destruct ptr as [q|], p as [id|]; cbn [optl app] in *; try exact R.
  destruct R as [-> R]. exact R.
Qed.

(* a_vec_setm: the request it makes is never of size zero (size zero would release the block) *)
Lemma vec_setm_led h v mem : vec_inv v ->
  match vec_setm h v mem with
  | Ok (h', v', rc, ev) => alloc_post h (v_ptr v) h' (v_ptr v') ev
  | Err _ => True
  end.
Proof.
  intros [Ia Hp]. set (a := v_arr v) in *.
  pose proof (inv_siz a Ia) as Hs. pose proof (inv_num a Ia) as Hn.
  pose proof (inv_bytes a Ia) as Hb. pose proof HALF_lt_W as HW.
  pose proof (mem_lt_half a Ia) as Hm.
  unfold vec_setm. fold a.
  destruct (N.ltb_spec (a_mem a) mem) as [Hgrow|Hok].
  2:{ left. auto. }
  set (mx := size_down8 ((HALF - 1) / a_siz a)).
  destruct (size_down8_spec ((HALF - 1) / a_siz a)) as [D1 [D2 D3]]. fold mx in D1, D2, D3.
  assert (Hmx : a_siz a * mx < HALF).
  { assert (a_siz a * ((HALF - 1) / a_siz a) <= HALF - 1) by (apply N.mul_div_le; lia).
    pose proof (mul_le_l (a_siz a) mx _ D1). rewrite HALF_val in *. lia. }
  assert (Hmx2 : mx < HALF).
  { assert (1 * mx <= a_siz a * mx) by (apply N.mul_le_mono_r; lia). lia. }
  destruct (N.ltb_spec mx mem) as [Hbig|Hfit].
  { left. auto. }
  destruct (grow_loop_spec mem 128 (a_mem a)) as [m [Eg [G1 G2]]]; [exact Hgrow|lia| |].
  { pose proof pow_fuel. change (N.of_nat 128) with 128.
    assert (mem * 2 ^ 128 <= HALF * 2 ^ 128) by (apply N.mul_le_mono_r; lia).
    assert (1 * 3 ^ 128 <= (a_mem a + 1) * 3 ^ 128) by (apply N.mul_le_mono_r; lia). lia. }
  rewrite Eg. cbn [bind]. cbv zeta.
  assert (G3 : m + 7 < W).
  { clear - Eg Hgrow Hfit Hmx2 HW G1. rewrite HALF_val, W_val in *.
    assert (forall fuel m0 m1, m0 < mem -> grow_loop fuel m0 mem = Ok m1 -> m1 <= mem + mem / 2 + 1) as Hup.
    { induction fuel as [|f IH]; intros m0 m1 H0 E; [discriminate|].
      cbn [grow_loop] in E. cbv zeta in E.
      assert (E' : wadd m0 (wadd (m0 / 2) 1) = m0 + m0 / 2 + 1).
      { rewrite (wadd_eq (m0 / 2) 1) by (rewrite W_val; lia). rewrite wadd_eq by (rewrite W_val; lia). lia. }
      rewrite E' in E. destruct (N.ltb_spec (m0 + m0 / 2 + 1) mem) as [Hlt|Hge].
      - apply (IH _ _ Hlt E).
      - injection E as <-. lia. }
    pose proof (Hup _ _ _ Hgrow Eg). lia. }
  destruct (size_up8_spec m G3) as [U1 [U2 U3]].
  set (mem1 := size_up8 m) in *.
  set (mem2 := if mx <? mem1 then mx else mem1).
  assert (M2 : mem <= mem2 /\ mem2 <= mx).
  { unfold mem2. destruct (N.ltb_spec mx mem1); lia. }
  assert (Eb : wmul (a_siz a) mem2 = a_siz a * mem2).
  { apply wmul_eq. pose proof (mul_le_l (a_siz a) mem2 mx). lia. }
  assert (Hne : wmul (a_siz a) mem2 <> 0).
  { rewrite Eb. assert (1 * 1 <= a_siz a * mem2) by (apply N.mul_le_mono; lia). lia. }
  destruct (a_alloc h (v_ptr v) (wmul (a_siz a) mem2)) as [[p h'] ev] eqn:EA.
  destruct p as [id|]; right; eexists; eexists; (split; [exact Hne|]); (split; [exact EA|]); reflexivity.
Qed.

Lemma buf_bytes_nz s m : BUF_HDR + s * m < HALF -> wadd BUF_HDR (wmul s m) <> 0.
Proof.
  intros H. pose proof HALF_lt_W as HW. rewrite buf_hdr_val in *.
  rewrite wmul_eq by lia. rewrite wadd_eq by lia. lia.
Qed.

Lemma buf_setm_led h b mem : BUF_HDR + a_siz (b_arr b) * mem < HALF ->
  let '(h1, b1, ok, ev) := buf_setm h b mem in alloc_post h (Some (b_blk b)) h1 (Some (b_blk b1)) ev.
Proof.
  intros H. apply buf_bytes_nz in H. unfold buf_setm.
  destruct (a_alloc h (Some (b_blk b)) _) as [[p h1] ev] eqn:EA.
  destruct p as [id|]; right; eexists; eexists; (split; [exact H|]); (split; [exact EA|]); reflexivity.
Qed.

Lemma buf_new_led h siz num : BUF_HDR + (if siz =? 0 then 1 else siz) * num < HALF ->
  let '(h1, x, ev) := buf_new h siz num in alloc_post h None h1 (option_map b_blk x) ev.
Proof.
  intros H. apply buf_bytes_nz in H. unfold buf_new.
  destruct (a_alloc h None _) as [[p h1] ev] eqn:EA.
  destruct p as [id|]; right; eexists; eexists; (split; [exact H|]); (split; [exact EA|]); reflexivity.
Qed.

Ltac break_all :=
  repeat (cbv beta iota zeta;
          match goal with |- context [match ?x with _ => _ end] =>
            lazymatch x with
            | context [match _ with _ => _ end] => fail
            | _ => destruct x
            end
          end).

Section Ledger.
  Variable cmp : elem -> elem -> comparison.

  (* every vector operation: the heap is touched by a_vec_setm only *)
  Lemma vec_step_led h v o : vec_inv v ->
    match vec_step cmp h v o with
    | Ok (h', v', r) => alloc_post h (v_ptr v) h' (v_ptr v') (o_ev r)
    | Err _ => True
    end.
  Proof.
    intros Iv.
    destruct o; cbn [vec_step]; unfold bind;
      try (match goal with |- context [vec_setm ?hh ?vv ?mm] =>
             generalize (vec_setm_led hh vv mm Iv);
             destruct (vec_setm hh vv mm) as [[[[h1 v1] rc] ev]|e]; [intros S|intros _; exact I]
           end);
      break_all; try exact I; cbn [o_ev with_arr v_ptr];
      first [exact S | left; repeat split; reflexivity].
  Qed.

  Lemma buf_step_led h b o : op_pre KBuf (a_siz (b_arr b)) o ->
    match buf_step cmp h b o with
    | Ok (h', b', r) => alloc_post h (Some (b_blk b)) h' (Some (b_blk b')) (o_ev r)
    | Err _ => True
    end.
  Proof.
    intros Hpre.
    destruct o; cbn [buf_step]; unfold bind;
      try (match goal with |- context [buf_setm ?hh ?bb ?mm] =>
             generalize (buf_setm_led hh bb mm Hpre);
             destruct (buf_setm hh bb mm) as [[[h1 b1] ok] ev]; intros S
           end);
      break_all; try exact I; cbn [o_ev bwith b_blk];
      first [exact S | left; repeat split; reflexivity].
  Qed.

  (* ---------------------------------------------------------------- worlds *)
  Definition linv (w : world) : Prop := led_ok (w_heap w) (owned w).

  Definition rest (w : world) (which : bool) : list N :=
    vec_blocks (get_v w (negb which)) ++ buf_blocks (w_b w).
  Definition brest (w : world) : list N := vec_blocks (w_v0 w) ++ vec_blocks (w_v1 w).

  Lemma owned_get w which : Permutation (owned w) (vec_blocks (get_v w which) ++ rest w which).
  Proof.
    destruct which; unfold owned, rest; cbn [get_v negb]; [apply Permutation_app_swap_app|reflexivity].
  Qed.
  Lemma owned_set w which h x :
    Permutation (owned (set_v w which h x)) (vec_blocks x ++ rest w which).
  Proof.
    destruct which; unfold owned, rest, set_v; cbn [get_v negb w_v0 w_v1 w_b];
      [apply Permutation_app_swap_app|reflexivity].
  Qed.
  Lemma owned_b w : Permutation (owned w) (buf_blocks (w_b w) ++ brest w).
  Proof. unfold owned, brest. rewrite app_assoc. apply Permutation_app_comm. Qed.
  Lemma w_heap_set w which h x : w_heap (set_v w which h x) = h.
  Proof. destruct which; reflexivity. Qed.
  Lemma vec_blocks_some id v : vec_blocks (Some (id, v)) = id :: optl (v_ptr v).
  Proof. reflexivity. Qed.

  Lemma inv_get w which : world_inv w -> ovec_inv (get_v w which).
  Proof. intros (I0 & I1 & Ib). destruct which; assumption. Qed.

  Lemma perm_swap2 (i0 i1 : N) a b c :
    Permutation ((i0 :: a) ++ (i1 :: b) ++ c) ((i0 :: b) ++ (i1 :: a) ++ c).
  Proof.
    cbn [app]. apply perm_skip.
    transitivity (i1 :: a ++ b ++ c); [apply Permutation_sym, Permutation_middle|].
    transitivity (i1 :: b ++ a ++ c); [|apply Permutation_middle].
    apply perm_skip, Permutation_app_swap_app.
  Qed.

  (* one step of the world machine keeps the ledger and the handles in agreement and never names
     a block that is not live *)
  Theorem wstep_led w o : world_inv w -> wop_pre w o -> linv w ->
    linv (fst (wstep cmp w o)) /\ bad (snd (wstep cmp w o)) = false.
  Proof.
    intros Iw Hpre L. unfold linv in *.
    destruct o as [which siz|which dt| |which o|siz num|dt|o]; cbn [wstep].
    - (* a_vec_new *)
      destruct (get_v w which) as [[id v]|] eqn:G; cbn [fst snd]; [split; [exact L|reflexivity]|].
      pose proof (led_ok_perm _ _ _ (owned_get w which) L) as L1. rewrite G in L1.
      cbn [vec_blocks app] in L1.
      unfold vec_new. destruct (a_alloc (w_heap w) None 32) as [[p h1] ev] eqn:EA.
      assert (H32 : 32 <> 0) by discriminate.
      destruct (alloc_nz _ _ None 32 _ _ _ H32 L1 I EA) as [B R].
      destruct p as [id|]; cbn [fst snd]; (split; [|exact B]); rewrite w_heap_set;
        (eapply led_ok_perm; [apply Permutation_sym, owned_set|]); exact R.
    - (* a_vec_die *)
      destruct (get_v w which) as [[id v]|] eqn:G; cbn [fst snd]; [|split; [exact L|reflexivity]].
      pose proof (led_ok_perm _ _ _ (owned_get w which) L) as L1. rewrite G, vec_blocks_some in L1.
      unfold vec_die. destruct (arr_dtor_down (v_arr v) 0 dt) as [d|e]; cbn [bind fst snd];
        [|split; [exact L|reflexivity]].
      destruct (v_ptr v) as [p|]; cbn [optl app] in L1.
      + destruct (alloc_free _ _ (id :: rest w which) p L1 (perm_swap _ _ _)) as (h1 & E1 & L2).
        rewrite E1.
        destruct (alloc_free _ _ (rest w which) id L2 (Permutation_refl _)) as (h2 & E2 & L3).
        rewrite E2. cbn [fst snd]. split; [|reflexivity]. rewrite w_heap_set.
        eapply led_ok_perm; [apply Permutation_sym, owned_set|]. exact L3.
      + destruct (alloc_free _ _ (rest w which) id L1 (Permutation_refl _)) as (h2 & E2 & L3).
        rewrite E2. cbn [fst snd]. split; [|reflexivity]. rewrite w_heap_set.
        eapply led_ok_perm; [apply Permutation_sym, owned_set|]. exact L3.
    - (* a_vec_swap *)
      destruct (w_v0 w) as [[i0 x0]|] eqn:G0; [destruct (w_v1 w) as [[i1 x1]|] eqn:G1|];
        cbn [fst snd]; try (split; [exact L|reflexivity]).
      split; [|reflexivity]. cbn [w_heap]. eapply led_ok_perm; [|exact L].
      unfold owned. rewrite G0, G1. cbn [w_v0 w_v1 w_b]. rewrite !vec_blocks_some.
      apply perm_swap2.
    - (* a vector operation *)
      destruct (get_v w which) as [[id v]|] eqn:G; cbn [fst snd]; [|split; [exact L|reflexivity]].
      pose proof (inv_get w which Iw) as Iv. rewrite G in Iv. cbn [ovec_inv] in Iv.
      pose proof (vec_step_led (w_heap w) v o Iv) as S.
      destruct (vec_step cmp (w_heap w) v o) as [[[h1 v1] r]|e]; cbn [fst snd];
        [|split; [exact L|reflexivity]].
      pose proof (led_ok_perm _ _ _ (owned_get w which) L) as L1. rewrite G, vec_blocks_some in L1.
      assert (L2 : led_ok (w_heap w) (optl (v_ptr v) ++ id :: rest w which)).
      { eapply led_ok_perm; [|exact L1]. apply (Permutation_middle (optl (v_ptr v)) (rest w which) id). }
      destruct (alloc_post_led _ _ _ _ _ _ S L2) as [L3 B]. split; [|exact B].
      rewrite w_heap_set. eapply led_ok_perm; [apply Permutation_sym, owned_set|].
      rewrite vec_blocks_some. eapply led_ok_perm; [|exact L3].
      apply Permutation_sym, (Permutation_middle (optl (v_ptr v1)) (rest w which) id).
    - (* a_buf_new *)
      destruct (w_b w) as [b|] eqn:G; cbn [fst snd]; [split; [exact L|reflexivity]|].
      cbn [wop_pre] in Hpre. pose proof (buf_new_led (w_heap w) siz num Hpre) as S.
      destruct (buf_new (w_heap w) siz num) as [[h1 x] ev]. cbn [fst snd].
      pose proof (led_ok_perm _ _ _ (owned_b w) L) as L1. rewrite G in L1.
      destruct (alloc_post_led _ _ _ _ _ (brest w) S L1) as [L3 B]. split; [|exact B].
      cbn [w_heap]. eapply led_ok_perm; [apply Permutation_sym, owned_b|].
      cbn [w_b]. destruct x as [b|]; exact L3.
    - (* a_buf_die *)
      destruct (w_b w) as [b|] eqn:G; cbn [fst snd]; [|split; [exact L|reflexivity]].
      pose proof (led_ok_perm _ _ _ (owned_b w) L) as L1. rewrite G in L1. cbn [buf_blocks app] in L1.
      unfold buf_die. destruct (arr_dtor_down (b_arr b) 0 dt) as [d|e]; cbn [bind fst snd];
        [|split; [exact L|reflexivity]].
      destruct (alloc_free _ _ (brest w) (b_blk b) L1 (Permutation_refl _)) as (h2 & E2 & L3).
      rewrite E2. cbn [fst snd]. split; [|reflexivity].
      cbn [w_heap]. eapply led_ok_perm; [apply Permutation_sym, owned_b|]. exact L3.
    - (* a buffer operation *)
      destruct (w_b w) as [b|] eqn:G; cbn [fst snd]; [|split; [exact L|reflexivity]].
      cbn [wop_pre] in Hpre. rewrite G in Hpre.
      pose proof (buf_step_led (w_heap w) b o Hpre) as S.
      destruct (buf_step cmp (w_heap w) b o) as [[[h1 b1] r]|e]; cbn [fst snd];
        [|split; [exact L|reflexivity]].
      pose proof (led_ok_perm _ _ _ (owned_b w) L) as L1. rewrite G in L1.
      destruct (alloc_post_led _ _ _ _ _ (brest w) S L1) as [L3 B]. split; [|exact B].
      cbn [w_heap]. eapply led_ok_perm; [apply Permutation_sym, owned_b|]. exact L3.
  Qed.

  (* ---------------------------------------------------------------- histories *)
  Notation le := (VecSpec.le cmp).
  Hypothesis le_trans : forall a b c, le a b -> le b c -> le a c.
  Hypothesis le_total : forall a b, le a b \/ le b a.

  Lemma run_cons w o ops :
    run cmp w (o :: ops) =
    (fst (run cmp (fst (wstep cmp w o)) ops), snd (wstep cmp w o) :: snd (run cmp (fst (wstep cmp w o)) ops)).
  Proof. cbn [run]. destruct (wstep cmp w o) as [w1 r]. cbn [fst snd]. destruct (run cmp w1 ops). reflexivity. Qed.

  (* along every admissible history, from every consistent world *)
  Theorem run_led : forall ops w, world_inv w -> linv w -> hist_pre cmp w ops ->
    linv (fst (run cmp w ops)) /\ world_inv (fst (run cmp w ops)) /\
    Forall (fun r => bad r = false) (snd (run cmp w ops)) /\
    Forall (fun r => o_err r = None) (snd (run cmp w ops)).
  Proof.
    induction ops as [|o ops IH]; intros w Iw L Hpre; [cbn [run fst snd]; auto|].
    cbn [hist_pre] in Hpre. destruct Hpre as [Hp Hrest].
    destruct (wstep_ok cmp le_trans le_total w o Iw Hp) as [Iw' [Er _]].
    destruct (wstep_led w o Iw Hp L) as [L' B].
    destruct (IH _ Iw' L' Hrest) as (L2 & I2 & B2 & E2).
    rewrite run_cons. cbn [fst snd]. split; [exact L2|]. split; [exact I2|]. split; constructor; assumption.
  Qed.

  Lemma init_linv sched limit : linv (init_world sched limit).
  Proof.
    unfold linv, led_ok, init_world, owned. cbn. repeat split; try constructor; try tauto; contradiction.
  Qed.

  Lemma destroy_pre w : hist_pre cmp w destroy_ops.
  Proof. unfold destroy_ops. cbn [hist_pre wop_pre]. tauto. Qed.

  (* after the three destructors no handle is left *)
  Lemma destroy_owned w : world_inv w -> owned (fst (run cmp w destroy_ops)) = [].
  Proof.
    intros Iw. pose proof (history_ok cmp le_trans le_total destroy_ops w Iw (destroy_pre w)) as H.
    unfold destroy_ops in *. cbn [hist_post] in H.
    rewrite !run_cons. cbn [fst snd run].
    set (w1 := fst (wstep cmp w (WVDie false false))) in *.
    set (w2 := fst (wstep cmp w1 (WVDie true false))) in *.
    set (w3 := fst (wstep cmp w2 (WBDie false))) in *.
    destruct H as (_ & P1 & _ & P2 & _ & P3 & _).
    destruct P1 as (_ & _ & _ & P1 & _). destruct P2 as (_ & P2a & _ & P2 & _).
    destruct P3 as (_ & P3a & P3b & P3 & _). cbn [get_v negb] in *.
    unfold owned. rewrite P3, P3a, P3b, P2, P2a, P1. reflexivity.
  Qed.

  (** C07 "ledger_balanced", vector and buffer: for every total preorder comparator, schedule,
      limit and admissible history *)
  Theorem vec_ledger_balanced_all : forall sched limit ops,
    hist_pre cmp (init_world sched limit) ops ->
    let w := fst (run cmp (init_world sched limit) ops) in
    let outs := snd (run cmp (init_world sched limit) ops) in
    Forall (fun r => bad r = false) outs /\
    (NoDup (map fst (h_live (w_heap w))) /\ NoDup (owned w) /\
     (forall i, In i (map fst (h_live (w_heap w))) <-> In i (owned w))) /\
    (let (w2, outs2) := run cmp w destroy_ops in
     h_live (w_heap w2) = [] /\ Forall (fun r => bad r = false) outs2 /\
     Forall (fun r => o_err r = None) outs2).
  Proof.
    intros sched limit ops Hpre w outs.
    destruct (run_led ops _ (init_world_inv sched limit) (init_linv sched limit) Hpre)
      as (L & Iw & B & _).
    fold w in L, Iw. fold outs in B.
    split; [exact B|]. split; [destruct L as (A1 & A2 & A3 & _); auto|].
    destruct (run_led destroy_ops w Iw L (destroy_pre w)) as (L2 & _ & B2 & E2).
    pose proof (destroy_owned w Iw) as O.
    destruct (run cmp w destroy_ops) as [w2 outs2]. cbn [fst snd] in *.
    split; [|split; assumption].
    destruct L2 as (_ & _ & C & _). rewrite O in C.
    destruct (h_live (w_heap w2)) as [|p l]; [reflexivity|].
    exfalso. apply (C (fst p)). now left.
  Qed.
End Ledger.

(* ------------------------------------------------------------------ non-vacuity *)
(** a concrete history under the harness comparator: two vectors, a growth that the allocator
    refuses (the fourth answer of the schedule is [false]), a successful retry, a vector swap, a
    buffer and its resize.  Before the destructors five blocks are live (two vector structures, two
    storages, the buffer) and they are exactly the blocks the handles own; after them none is. *)
Definition led_sched : list bool := [true; true; true; false; true; true; true].
Definition led_hist : list wop :=
  [ WVNew false 4; WVNew true 2;
    WV false (OPushBack [1; 2; 3; 4]);
    WV true (OPushBack [7; 7]);            (* refused: A_OMEMORY, nothing allocated *)
    WV true (OPushBack [8; 8]);            (* retry succeeds *)
    WVSwap;
    WV false (OSetm 40);                   (* realloc of the storage that was swapped in *)
    WBNew 2 4; WB (OPushBack [5; 5]); WB (OSetm 9);
    WV true (OStore 0 [[9; 9; 9; 9]; [6; 6; 6; 6]]) ].

Example vec_ledger_example :
  hist_pre lex_cmp (init_world led_sched 65536) led_hist /\
  let w := fst (run_lex (init_world led_sched 65536) led_hist) in
  let outs := snd (run_lex (init_world led_sched 65536) led_hist) in
  existsb refused outs = true /\
  forallb (fun r => negb (bad r)) outs = true /\
  map fst (h_live (w_heap w)) = [5; 4; 3; 2; 1] /\
  owned w = [1; 4; 2; 3; 5] /\
  let w2 := fst (run_lex w destroy_ops) in
  let outs2 := snd (run_lex w destroy_ops) in
  h_live (w_heap w2) = [] /\ owned w2 = [] /\
  forallb (fun r => negb (bad r)) outs2 = true /\
  map o_err outs2 = [None; None; None] /\
  map o_ev outs2 = [[EvFree; EvFree]; [EvFree; EvFree]; [EvFree]].
Proof. vm_compute. repeat split. Qed.
