(* C05 - a small decision tactic for Permutation goals over lists of addresses built from
   ++, ::, [], concat and flat_map of explicit conses: both sides are compared by counting
   occurrences (Permutation_count_occ), which turns the goal into linear arithmetic. *)
From Coq Require Import NArith List Permutation Lia.
From LibaV Require Import C05.DListDefs.
Import ListNotations.

Definition c1 (y x : id) : nat := if N.eq_dec y x then 1 else 0.

Lemma count_cons1 (y : id) (l : list id) (x : id) :
  count_occ N.eq_dec (y :: l) x = c1 y x + count_occ N.eq_dec l x.
Proof. unfold c1. cbn [count_occ]. destruct (N.eq_dec y x); reflexivity. Qed.

Lemma count_nil (x : id) : count_occ N.eq_dec (@nil id) x = 0.
Proof. reflexivity. Qed.

Lemma count_rev (l : list id) (x : id) : count_occ N.eq_dec (rev l) x = count_occ N.eq_dec l x.
Proof. apply (Permutation_count_occ N.eq_dec). apply Permutation_sym, Permutation_rev. Qed.

(* hypotheses of the form Permutation a b may be used: they are turned into counting equations *)
Ltac perm_count :=
  repeat match goal with
         | H : Permutation _ _ |- _ =>
             let H' := fresh "Hc" in
             pose proof (proj1 (Permutation_count_occ N.eq_dec _ _) H) as H'; clear H
         end;
  apply (Permutation_count_occ N.eq_dec);
  let x := fresh "x" in
  intros x;
  repeat match goal with
         | H : forall y : _, count_occ N.eq_dec _ y = count_occ N.eq_dec _ y |- _ => specialize (H x)
         end;
  cbn [concat flat_map map fst snd] in *;
  unfold DListDefs.id in *;
  repeat (rewrite ?count_occ_app, ?count_cons1, ?count_nil, ?count_rev in * );
  lia.
