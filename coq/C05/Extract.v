(* C05 - extraction of the executable models for the correspondence driver (ExtrOcamlBasic only). *)
From LibaV Require Import C05.DListDefs C05.SListDefs C05.QueDefs C05.AccDefs.
Require Extraction.
Require Import ExtrOcamlBasic.
Extraction "C05/extracted/c05model.ml"
  dget rd_next rd_prev l_step l_world walk_next walk_prev ring_of ring_of_back
  s_rd t_rd s_step s_world s_rot_orig s_list_of
  vget getq qaddr fuel_of q_step q_world0 q_swap_orig q_swap_elem_orig
  w_h w_val w_fresh w_trace w_sched q_pool q_siz q_num q_mem
  lx_step l_each_next l_each_prev sx_step s_each q_fore_ q_back_ q_ends q_each q_each_rev q_die_new.
