(* C05 - the abstract double-ended sequence the queue is proved to refine, and the representation
   invariant that ties it to the pointer-level state.  Definitions only. *)
From Coq Require Import NArith ZArith List Bool FMapPositive.
From LibaV Require Import C05.DListDefs C05.DListProofs C05.QueDefs.
Import ListNotations.
Local Open Scope N_scope.

Definition sel {A} (s : bool) (p : A * A) : A := if s then snd p else fst p.
Definition upd {A} (s : bool) (v : A) (p : A * A) : A * A := if s then (fst p, v) else (v, snd p).

(* an element is an address together with the value stored at that address *)
Definition elem := (id * Z)%type.
Definition astate := (list elem * list elem)%type.
Definition addrs (a : astate) : list id := map fst (fst a) ++ map fst (snd a).

Definition val (w : qworld) (x : id) : Z := match vget (w_val w) x with Some v => v | None => 0%Z end.
Definition pairs (w : qworld) (l : list id) : list elem := map (fun x => (x, val w x)) l.
Definition abs (w : qworld) (X : list id * list id) : astate := (pairs w (fst X), pairs w (snd X)).

(* some allocation request of the last operation was refused *)
Definition refused (r : areq) : bool :=
  match r with RNode _ ok => negb ok | RPool _ ok => negb ok | RResize _ ok => negb ok end.
Definition failed (w : qworld) : bool := existsb refused (w_trace w).

(* ---- list-level specifications of the positional and sorting operations ---- *)
Fixpoint span {A} (p : A -> bool) (l : list A) : list A * list A :=
  match l with
  | [] => ([], [])
  | x :: t => if p x then let '(a, b) := span p t in (x :: a, b) else ([], l)
  end.

Definition insert_at {A} (k : nat) (x : A) (l : list A) : list A := firstn k l ++ x :: skipn k l.
Definition remove_at {A} (k : nat) (l : list A) : list A := firstn k l ++ skipn (S k) l.

Section Cmp.
Variable cmp : Z -> Z -> Z.
(* the front element sinks behind the longest run of elements it compares greater than *)
Definition sort_fore_spec (l : list elem) : list elem :=
  match l with
  | [] => []
  | x :: rest => let '(lo, hi) := span (fun y => Z.ltb 0 (cmp (snd x) (snd y))) rest in lo ++ x :: hi
  end.
(* x is put in front of the longest trailing run of elements that compare greater than x *)
Definition ins_back (x : elem) (l : list elem) : list elem :=
  let '(hi_r, lo_r) := span (fun y => Z.ltb 0 (cmp (snd y) (snd x))) (rev l) in rev lo_r ++ x :: rev hi_r.
Definition sort_back_spec (l : list elem) : list elem :=
  match rev l with
  | [] => []
  | x :: r => ins_back x (rev r)
  end.
End Cmp.

Definition swap_pairs (pl pr : elem) (l : list elem) : list elem :=
  map (fun p => if N.eqb (fst p) (fst pl) then pr else if N.eqb (fst p) (fst pr) then pl else p) l.

Definition ptr (n : id) : Z := Z.of_N n.

(* result of a_que_at on the abstract sequence *)
Definition at_spec (l : list elem) (idx : Z) : id :=
  if Z.leb 0 idx then nth (Z.to_nat idx) (map fst l) 0
  else nth (Z.to_nat (- idx - 1)) (rev (map fst l)) 0.

(* One step of the abstract machine: A --o / r--> A'.  f says whether an allocation request was
   refused during the operation; an operation may only fail in that case. *)
Definition dq_step (o : qop) (A : astate) (r : Z) (f : bool) (A' : astate) : Prop :=
  let fail := r = 0%Z /\ f = true /\ A' = A in
  match o with
  | QSched _ => r = 0%Z /\ A' = A
  | QReset s _ => r = 0%Z /\ A' = upd s [] A
  | QPushFore s v =>
      fail \/ exists n, r = ptr n /\ n <> 0 /\ ~ In n (addrs A) /\ A' = upd s ((n, v) :: sel s A) A
  | QPushBack s v =>
      fail \/ exists n, r = ptr n /\ n <> 0 /\ ~ In n (addrs A) /\ A' = upd s (sel s A ++ [(n, v)]) A
  | QPullFore s =>
      match sel s A with
      | [] => r = 0%Z /\ A' = A
      | (n, _) :: t => fail \/ (r = ptr n /\ A' = upd s t A)
      end
  | QPullBack s =>
      match rev (sel s A) with
      | [] => r = 0%Z /\ A' = A
      | (n, _) :: t => fail \/ (r = ptr n /\ A' = upd s (rev t) A)
      end
  | QInsert s idx v =>
      fail \/ exists n, r = ptr n /\ n <> 0 /\ ~ In n (addrs A) /\
        A' = upd s (if N.ltb idx (N.of_nat (length (sel s A)))
                    then insert_at (N.to_nat idx) (n, v) (sel s A) else sel s A ++ [(n, v)]) A
  | QRemove s idx =>
      let l := sel s A in
      if N.ltb idx (N.of_nat (length l)) then
        fail \/ (r = ptr (nth (N.to_nat idx) (map fst l) 0) /\ A' = upd s (remove_at (N.to_nat idx) l) A)
      else
        match rev l with
        | [] => r = 0%Z /\ A' = A
        | (n, _) :: t => fail \/ (r = ptr n /\ A' = upd s (rev t) A)
        end
  | QAt s idx => r = ptr (at_spec (sel s A) idx) /\ A' = A
  | QFore s => r = ptr (hd 0 (map fst (sel s A))) /\ A' = A
  | QBack s => r = ptr (last (map fst (sel s A)) 0) /\ A' = A
  | QSortFore s asc => r = 0%Z /\ A' = upd s (sort_fore_spec (cmpf asc) (sel s A)) A
  | QSortBack s asc => r = 0%Z /\ A' = upd s (sort_back_spec (cmpf asc) (sel s A)) A
  | QPushSort s asc key =>
      fail \/ exists n, r = ptr n /\ n <> 0 /\ ~ In n (addrs A) /\
        A' = upd s (ins_back (cmpf asc) (n, key) (sel s A)) A
  | QSwapElem l r' =>
      r = 0%Z /\ exists pl pr, In pl (fst A ++ snd A) /\ In pr (fst A ++ snd A) /\ fst pl = l /\ fst pr = r' /\
        A' = (swap_pairs pl pr (fst A), swap_pairs pl pr (snd A))
  | QSwap s1 s2 => r = 0%Z /\ A' = if Bool.eqb s1 s2 then A else (snd A, fst A)
  | QDrop s | QSetz s _ =>
      (r = 0%Z /\ A' = upd s [] A) \/
      (r <> 0%Z /\ f = true /\ exists k, A' = upd s (skipn k (sel s A)) A)
  end.

(* precondition of an operation (what the caller must guarantee) *)
Definition dq_pre (o : qop) (A : astate) : Prop :=
  match o with
  | QSwapElem l r => In l (addrs A) /\ In r (addrs A)
  | _ => True
  end.

(* ---- representation invariant ---- *)
Definition pools (w : qworld) : list id := q_pool (w_qa w) ++ q_pool (w_qb w).
Definition allnodes (w : qworld) (X : list id * list id) : list id := fst X ++ snd X ++ pools w.

Record QInv (w : qworld) (X : list id * list id) : Prop := {
  qi_ring : forall s, Ring (w_h w) (qaddr s :: sel s X);
  qi_nodup : NoDup (allnodes w X);        (* in particular: a pooled node is never also enqueued *)
  qi_node : forall x, In x (allnodes w X) ->
              3 <= x < w_fresh w /\ live (w_h w) x /\ vget (w_val w) x <> None;
  qi_num : forall s, q_num (getq w s) = N.of_nat (length (sel s X));
  qi_mem : forall s, N.of_nat (length (q_pool (getq w s))) <= q_mem (getq w s);
  qi_fresh : N.of_nat (length (allnodes w X)) + 3 <= w_fresh w }.
