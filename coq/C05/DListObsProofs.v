(* C05 - what an observer of a list sees when the invariant DInv holds: walking next from any node c
   of a ring written c :: xs visits exactly xs and comes back to c; walking prev visits xs in
   reverse; no node is met twice; every node's next and its successor's prev agree. *)
From Coq Require Import NArith ZArith List Bool FMapPositive Lia Permutation.
From LibaV Require Import C05.DListDefs C05.DListProofs C05.DListSpec C05.DListRunProofs C05.QueDefs C05.QueSpec C05.QueProofs.
Import ListNotations.
Local Open Scope N_scope.

Theorem Ring_observed h c xs fuel :
  Ring h (c :: xs) -> (length xs < fuel)%nat ->
  ring_of h c fuel = Some xs /\ ring_of_back h c fuel = Some (rev xs) /\ NoDup (c :: xs) /\
  (forall x, In x (c :: xs) -> exists y, In y (c :: xs) /\ rd_next h x = Some y /\ rd_prev h y = Some x).
Proof.
  intros R Hf. split; [|split; [|split]].
  - unfold ring_of. rewrite (Ring_next h [] c xs R). cbn [hd]. apply (walk_next_spec h c [] xs fuel R Hf).
  - unfold ring_of_back. rewrite (Ring_prev h [] c xs R). cbn [last].
    apply (walk_prev_spec h c xs [] fuel); [rewrite app_nil_r; exact R|exact Hf].
  - apply (Ring_NoDup _ _ R).
  - intros x Hx. apply (Ring_links h (c :: xs) x R Hx).
Qed.

Theorem DInv_observed h a c xs fuel :
  DInv h a -> In (c :: xs) (fst a) -> (length xs < fuel)%nat ->
  ring_of h c fuel = Some xs /\ ring_of_back h c fuel = Some (rev xs) /\ NoDup (c :: xs) /\
  (forall x, In x (c :: xs) -> exists y, In y (c :: xs) /\ rd_next h x = Some y /\ rd_prev h y = Some x).
Proof.
  intros I Hin Hf. apply Ring_observed; [|exact Hf].
  pose proof (di_rings _ _ I) as F. rewrite Forall_forall in F. apply F. exact Hin.
Qed.
