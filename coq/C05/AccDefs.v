(* C05 - the accessors, alias entry points and iteration macros of include/a/list.h,
   include/a/slist.h and include/a/que.h that are not operations of the histories of
   DListDefs.v / SListDefs.v / QueDefs.v.  Executable definitions only, NO proofs in this file
   (what each one returns under the representation invariants is stated in AccProofs.v).

   The correspondence drivers (harness/C05/drv.c, harness/C05/mdrv.ml) evaluate them after every
   operation: the model driver prints the values defined here, the C driver prints what the C
   functions / macros return.  Addresses are node addresses, as everywhere in the C05 models: the
   element pointer the C hands out is node + 1 and the C driver maps it back to the node. *)
From Coq Require Import NArith ZArith List FMapPositive.
From LibaV Require Import C05.DListDefs C05.SListDefs C05.QueDefs.
Import ListNotations.
Local Open Scope N_scope.

(* ------------------------------------------------------------------ include/a/list.h *)
(* a_list_ctor, a_list_init and a_list_dtor have the same body:  ctx->prev = ctx->next = ctx; *)
Definition l_ctor (h : dheap) (c : id) : option dheap := l_init h c.
Definition l_dtor (h : dheap) (c : id) : option dheap := l_init h c.

(* a_list_foreach_next / A_LIST_FOREACH_NEXT / a_list_forsafe_next / A_LIST_FORSAFE_NEXT:
     for (it = ctx->next; it != ctx; it = it->next)        -- the nodes the body is run on, in order.
   The forsafe variants read it->next before the body runs; without a body that changes the list
   they visit the same nodes.  None: the walk does not come back to ctx within the bound. *)
Definition l_each_next (h : dheap) (c : id) (fuel : nat) : option (list id) := ring_of h c fuel.
(* a_list_foreach_prev / A_LIST_FOREACH_PREV / a_list_forsafe_prev / A_LIST_FORSAFE_PREV *)
Definition l_each_prev (h : dheap) (c : id) (fuel : nat) : option (list id) := ring_of_back h c fuel.

(* ------------------------------------------------------------------ include/a/slist.h *)
(* a_slist_ctor, a_slist_init and a_slist_dtor have the same body:
     ctx->head.next = NULL; ctx->tail = &ctx->head; *)
Definition s_init (w : sworld) (l : id) : option sworld := s_ctor w l.
Definition s_dtor (w : sworld) (l : id) : option sworld := s_ctor w l.

(* a_slist_link:  head->next = tail;   (one checked field write, nothing else) *)
Definition s_link (w : sworld) (a b : id) : option sworld := s_wr w a b.

(* a_slist_foreach / A_SLIST_FOREACH / a_slist_forsafe / A_SLIST_FORSAFE:
     for (it = ctx->head.next; it; it = it->next) *)
Definition s_each (w : sworld) (l : id) (fuel : nat) : option (list id) := s_list_of w l fuel.

(* the operations of the slist histories plus the alias entry points and the bare link *)
Inductive sxop := SOp (o : sop) | SInit (l : id) | SDtor (l : id) | SLink (a b : id).
Definition sx_step (w : sworld) (o : sxop) : option sworld :=
  match o with
  | SOp o => s_step w o | SInit l => s_init w l | SDtor l => s_dtor w l | SLink a b => s_link w a b
  end.

(* the operations of the dlist histories plus the two alias entry points *)
Inductive lxop := LOp (o : lop) | LCtor (c : id) | LDtor (c : id).
Definition lx_step (h : dheap) (o : lxop) : option dheap :=
  match o with LOp o => l_step h o | LCtor c => l_ctor h c | LDtor c => l_dtor h c end.

(* ------------------------------------------------------------------ include/a/que.h *)
(* a_que_fore_:  return ctx->head_.next + 1;   no emptiness test: on an empty queue the result is
   the address behind the sentinel (here: the sentinel's own address), which is why the caller
   "should check if queue is empty". *)
Definition q_fore_ (w : qworld) (s : bool) : outcome id := lift (rd_next (w_h w) (qaddr s)).
(* a_que_back_:  return ctx->head_.prev + 1; *)
Definition q_back_ (w : qworld) (s : bool) : outcome id := lift (rd_prev (w_h w) (qaddr s)).

(* a_que_foreach / A_QUE_FOREACH:  it = head_.next; while (it != &head_) { body(it + 1); it = saved next }
   a_que_foreach_reverse / A_QUE_FOREACH_REVERSE: the same along prev. *)
Definition q_each (w : qworld) (s : bool) : option (list id) := ring_of (w_h w) (qaddr s) (fuel_of w).
Definition q_each_rev (w : qworld) (s : bool) : option (list id) :=
  ring_of_back (w_h w) (qaddr s) (fuel_of w).

(* a_que_die(ctx, NULL) followed by ctx = a_que_new(size):  die = dtor + release of the structure,
   new = allocation of the structure + ctor.  The model has two queue objects at the fixed addresses
   1 and 2 (the structure block itself is outside the model; the C driver answers that one request
   itself), so the pair is the model's q_reset, exactly as a_que_dtor followed by a_que_ctor. *)
Definition q_die_new (w : qworld) (s : bool) (size : N) : outcome qworld := q_reset w s size.

(* what the drivers print for one queue as  e=<fore_>/<back_>  : the unchecked end accessors where
   their precondition (queue not empty) holds, None (printed '-') otherwise *)
Definition q_ends (w : qworld) (s : bool) : outcome (option id * option id) :=
  doo f <- q_fore_ w s ;
  doo b <- q_back_ w s ;
  Ok (if N.eqb f (qaddr s) then None else Some f, if N.eqb b (qaddr s) then None else Some b).
