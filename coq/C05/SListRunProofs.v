(* C05 - every history of the abstract singly-linked-list machine (SListSpec.v) is followed by the
   pointer-level model of include/a/slist.h: the invariant SInv (in particular: tail designates the
   last node of every constructed list) holds after every operation of every history. *)
From Coq Require Import NArith List FMapPositive Lia Permutation.
From LibaV Require Import C05.DListDefs C05.DListProofs C05.SListDefs C05.SListProofs C05.SListSpec C05.PermProofs.
Import ListNotations.
Local Open Scope N_scope.

(* ------------------------------------------------------------------ no operation creates or destroys a field *)
Definition dom_eq (w w' : sworld) : Prop :=
  (forall x, s_rd w' x <> None <-> s_rd w x <> None) /\ (forall l, t_rd w' l <> None <-> t_rd w l <> None).

Lemma dom_refl w : dom_eq w w.
Proof. split; intros; reflexivity. Qed.

Lemma dom_trans w1 w2 w3 : dom_eq w1 w2 -> dom_eq w2 w3 -> dom_eq w1 w3.
Proof. intros [A B] [C D]. split; intros x; [rewrite C; apply A|rewrite D; apply B]. Qed.

Lemma s_rd_nz w a : s_rd w a <> None -> a <> 0.
Proof. intros H ->. apply H. reflexivity. Qed.

Lemma s_wr_dom w a v w' : s_wr w a v = Some w' -> dom_eq w w'.
Proof.
  intros H. assert (Ha : s_rd w a <> None).
  { unfold s_wr in H. unfold s_rd. destruct (pget (s_next w) a); [discriminate|discriminate]. }
  destruct (s_wr_spec w a v Ha) as (w1 & E & N1 & O1 & T1). rewrite E in H. inversion H; subst w1; clear H.
  split.
  - intros x. destruct (N.eq_dec x a) as [->|Hn]; [|rewrite O1 by exact Hn; reflexivity].
    rewrite N1. split; [intros _; exact Ha|discriminate].
  - intros l. rewrite T1. reflexivity.
Qed.

Lemma t_wr_dom w l v w' : t_wr w l v = Some w' -> dom_eq w w'.
Proof.
  intros H. assert (Ha : t_rd w l <> None).
  { unfold t_wr in H. unfold t_rd. destruct (pget (s_tail w) l); [discriminate|discriminate]. }
  destruct (t_wr_spec w l v Ha) as (w1 & E & T1 & O1 & N1). rewrite E in H. inversion H; subst w1; clear H.
  split.
  - intros x. rewrite N1. reflexivity.
  - intros x. destruct (N.eq_dec x l) as [->|Hn]; [|rewrite O1 by exact Hn; reflexivity].
    rewrite T1. split; [intros _; exact Ha|discriminate].
Qed.

Ltac dom_crush :=
  repeat match goal with
         | H : Some _ = Some _ |- _ => inversion H; subst; clear H
         | H : None = Some _ |- _ => discriminate H
         | H : match ?e with _ => _ end = Some _ |- _ => let E := fresh "E" in destruct e eqn:E
         end.
Ltac dom_fwd :=
  repeat match goal with
         | H : s_wr _ _ _ = Some _ |- _ => apply s_wr_dom in H
         | H : t_wr _ _ _ = Some _ |- _ => apply t_wr_dom in H
         end.
Ltac dom_chain :=
  solve [ apply dom_refl
        | assumption
        | match goal with H : dom_eq ?a ?b |- dom_eq ?a _ => apply (dom_trans _ _ _ H); dom_chain end ].

Theorem s_step_dom w o w' : s_step w o = Some w' -> dom_eq w w'.
Proof.
  destruct o; cbn [s_step];
    unfold s_ctor, s_add_head, s_add, s_add_tail, s_del, s_del_head, s_mov, s_rot, s_rot_body;
    intros H; dom_crush; dom_fwd; dom_chain.
Qed.

(* ------------------------------------------------------------------ the invariant and permutations *)
Lemma sa_all_perm a b : sa_equiv a b -> Permutation (sa_all a) (sa_all b).
Proof.
  intros (A & B & C). unfold sa_all. apply Permutation_app; [|apply Permutation_app; assumption].
  apply Permutation_flat_map. exact A.
Qed.

Lemma sa_heads_perm a b : sa_equiv a b -> Permutation (sa_heads a) (sa_heads b).
Proof.
  intros (A & B & C). unfold sa_heads. apply Permutation_app; [|assumption]. apply Permutation_map. exact A.
Qed.

Lemma sa_equiv_sym a b : sa_equiv a b -> sa_equiv b a.
Proof. intros (A & B & C). repeat split; apply Permutation_sym; assumption. Qed.

Lemma SInv_equiv w a b : sa_equiv a b -> SInv w a -> SInv w b.
Proof.
  intros E [A1 A2 A3 A4]. pose proof (sa_all_perm _ _ E) as P. pose proof (sa_heads_perm _ _ E) as Ph.
  constructor.
  - eapply Permutation_Forall; [apply E|exact A1].
  - eapply Permutation_NoDup; eauto.
  - intros x Hx. apply A3. eapply Permutation_in; [apply Permutation_sym; exact P|exact Hx].
  - intros l Hl. apply A4. eapply Permutation_in; [apply Permutation_sym; exact Ph|exact Hl].
Qed.

(* after an operation on the lists ls_old (now ls_new) the lists ls it did not touch are still there *)
Lemma SInv_rebuild w w' ls_old ls_new ls ob ob' fr fr' :
  SInv w (mkSA (ls_old ++ ls) ob fr) ->
  dom_eq w w' ->
  Permutation (flat_map nodes_of ls_new ++ ob' ++ fr') (flat_map nodes_of ls_old ++ ob ++ fr) ->
  Permutation (map fst ls_new ++ ob') (map fst ls_old ++ ob) ->
  Forall (fun p => Slist w' (fst p) (snd p)) ls_new ->
  (forall x, In x (flat_map nodes_of ls) -> s_rd w' x = s_rd w x) ->
  (forall l, In l (map fst ls) -> t_rd w' l = t_rd w l) ->
  SInv w' (mkSA (ls_new ++ ls) ob' fr').
Proof.
  intros [A1 A2 A3 A4] [D1 D2] P Ph Fn Fs Ft.
  unfold sa_all, sa_heads in *. cbn [sa_lists sa_objs sa_free] in *.
  assert (Pall : Permutation (flat_map nodes_of (ls_new ++ ls) ++ ob' ++ fr')
                             (flat_map nodes_of (ls_old ++ ls) ++ ob ++ fr)).
  { rewrite !flat_map_app. perm_count. }
  assert (Phd : Permutation (map fst (ls_new ++ ls) ++ ob') (map fst (ls_old ++ ls) ++ ob)).
  { rewrite !map_app. perm_count. }
  constructor; cbn [sa_lists sa_objs sa_free]; unfold sa_all, sa_heads; cbn [sa_lists sa_objs sa_free].
  - apply Forall_app. split; [exact Fn|].
    apply Forall_app in A1. destruct A1 as [_ A1].
    rewrite Forall_forall in *. intros p Hp. apply (Slist_frame w w' _ _ (A1 p Hp)).
    + intros x Hx. apply Fs. apply in_flat_map. exists p. split; [exact Hp|exact Hx].
    + apply Ft. apply in_map. exact Hp.
  - eapply Permutation_NoDup; [apply Permutation_sym; exact Pall|exact A2].
  - intros x Hx. apply D1. apply A3. eapply Permutation_in; [exact Pall|exact Hx].
  - intros l Hl. apply D2. apply A4. eapply Permutation_in; [exact Phd|exact Hl].
Qed.

(* nodes of the untouched lists are different from everything else *)
Lemma SInv_rest_disj w ls_old ls ob fr x :
  SInv w (mkSA (ls_old ++ ls) ob fr) -> In x (flat_map nodes_of ls) ->
  ~ In x (flat_map nodes_of ls_old ++ ob ++ fr).
Proof.
  intros I Hx Hin. pose proof (si_nodup _ _ I) as ND. unfold sa_all in ND. cbn [sa_lists sa_objs sa_free] in ND.
  rewrite flat_map_app, <- app_assoc in ND.
  assert (P : Permutation (flat_map nodes_of ls_old ++ flat_map nodes_of ls ++ ob ++ fr)
                          (flat_map nodes_of ls ++ flat_map nodes_of ls_old ++ ob ++ fr)) by perm_count.
  eapply Permutation_NoDup in ND; [|exact P]. eapply NoDup_app_disj; eauto.
Qed.

Lemma in_heads_nodes (ls : list (id * list id)) l : In l (map fst ls) -> In l (flat_map nodes_of ls).
Proof.
  intros H. apply in_map_iff in H. destruct H as (p & <- & Hp). apply in_flat_map. exists p. split; [exact Hp|left; reflexivity].
Qed.

(* ------------------------------------------------------------------ one step, operation by operation *)
Ltac front_list I SL :=
  pose proof (Forall_inv (si_lists _ _ I)) as SL; cbn [fst snd] in SL.

Lemma in_sa_free w ls ob fr n : SInv w (mkSA ls ob fr) -> In n fr -> s_rd w n <> None.
Proof.
  intros I H. apply (si_rd _ _ I). unfold sa_all. cbn [sa_lists sa_objs sa_free].
  apply in_or_app. right. apply in_or_app. right. exact H.
Qed.

Lemma free_not_on_front w L xs ls ob fr n :
  SInv w (mkSA ((L, xs) :: ls) ob fr) -> In n fr -> ~ In n (L :: xs).
Proof.
  intros I Hn Hc. pose proof (si_nodup _ _ I) as ND. unfold sa_all in ND.
  cbn [sa_lists sa_objs sa_free flat_map nodes_of fst snd] in ND. rewrite <- app_assoc in ND.
  apply (NoDup_app_disj (L :: xs) (flat_map nodes_of ls ++ ob ++ fr) n ND Hc).
  apply in_or_app. right. apply in_or_app. right. exact Hn.
Qed.

Lemma ref_ctor_new w L ls ob fr :
  SInv w (mkSA ls (L :: ob) fr) ->
  exists w', s_step w (SCtor L) = Some w' /\ SInv w' (mkSA ((L, []) :: ls) ob fr).
Proof.
  intros I.
  assert (Hs : s_rd w L <> None).
  { apply (si_rd _ _ I). unfold sa_all. cbn [sa_lists sa_objs sa_free]. apply in_or_app. right. left. reflexivity. }
  assert (Ht : t_rd w L <> None).
  { apply (si_td _ _ I). unfold sa_heads. cbn [sa_lists sa_objs]. apply in_or_app. right. left. reflexivity. }
  destruct (ctor_spec w L Hs Ht) as (w' & E & SL' & Fs & Ft). exists w'. split; [exact E|].
  apply (SInv_rebuild w w' [] [(L, [])] ls (L :: ob) ob fr fr I);
    [apply (s_step_dom w (SCtor L)); exact E|cbn; perm_count|cbn; perm_count|apply Forall_cons; [cbn [fst snd]; assumption|apply Forall_nil]| |].
  - intros x Hx. apply Fs. intros ->. apply (SInv_rest_disj w [] ls (L :: ob) fr L I Hx). cbn. auto.
  - intros l Hl. apply Ft. intros ->.
    apply (SInv_rest_disj w [] ls (L :: ob) fr L I (in_heads_nodes _ _ Hl)). cbn. auto.
Qed.

Lemma ref_ctor_again w L xs ls ob fr :
  SInv w (mkSA ((L, xs) :: ls) ob fr) ->
  exists w', s_step w (SCtor L) = Some w' /\ SInv w' (mkSA ((L, []) :: ls) ob (xs ++ fr)).
Proof.
  intros I. front_list I SL.
  assert (Hs : s_rd w L <> None) by (eapply Slist_rd; eauto; left; reflexivity).
  assert (Ht : t_rd w L <> None) by (rewrite (sl_tail _ _ _ SL); discriminate).
  destruct (ctor_spec w L Hs Ht) as (w' & E & SL' & Fs & Ft). exists w'. split; [exact E|].
  apply (SInv_rebuild w w' [(L, xs)] [(L, [])] ls ob ob fr (xs ++ fr) I);
    [apply (s_step_dom w (SCtor L)); exact E|cbn; perm_count|cbn; perm_count|apply Forall_cons; [cbn [fst snd]; assumption|apply Forall_nil]| |].
  - intros x Hx. apply Fs. intros ->. apply (SInv_rest_disj w [(L, xs)] ls ob fr L I Hx). cbn. auto.
  - intros l Hl. apply Ft. intros ->.
    apply (SInv_rest_disj w [(L, xs)] ls ob fr L I (in_heads_nodes _ _ Hl)). cbn. auto.
Qed.

Lemma front_in_old (L : id) (l1 rest : list id) : In (last l1 L) (flat_map nodes_of [(L, l1 ++ rest)]).
Proof.
  cbn [flat_map nodes_of fst snd]. rewrite app_nil_r.
  pose proof (in_last_cons l1 L) as [H0|H0]; [left; exact H0|right; apply in_or_app; left; exact H0].
Qed.

Lemma ref_add w L l1 l2 n ls ob fr :
  SInv w (mkSA ((L, l1 ++ l2) :: ls) ob (n :: fr)) ->
  exists w', s_step w (SAdd L (last l1 L) n) = Some w' /\ SInv w' (mkSA ((L, l1 ++ n :: l2) :: ls) ob fr).
Proof.
  intros I. front_list I SL.
  assert (Hn : s_rd w n <> None) by (eapply in_sa_free; eauto; left; reflexivity).
  assert (Hnot : ~ In n (L :: l1 ++ l2)) by (eapply free_not_on_front; eauto; left; reflexivity).
  destruct (add_spec w L l1 l2 n SL Hn (s_rd_nz _ _ Hn) Hnot) as (w' & E & SL' & Fs & Ft).
  exists w'. split; [exact E|].
  apply (SInv_rebuild w w' [(L, l1 ++ l2)] [(L, l1 ++ n :: l2)] ls ob ob (n :: fr) fr I);
    [apply (s_step_dom w (SAdd L (last l1 L) n)); exact E|cbn; perm_count|cbn; perm_count|apply Forall_cons; [cbn [fst snd]; assumption|apply Forall_nil]| |].
  - intros x Hx. pose proof (SInv_rest_disj w [(L, l1 ++ l2)] ls ob (n :: fr) x I Hx) as D.
    apply Fs.
    + intros ->. apply D. apply in_or_app. right. apply in_or_app. right. left. reflexivity.
    + intros ->. apply D. apply in_or_app. left. apply front_in_old.
  - intros l Hl. apply Ft. intros ->.
    apply (SInv_rest_disj w [(L, l1 ++ l2)] ls ob (n :: fr) L I (in_heads_nodes _ _ Hl)). cbn. auto.
Qed.

Lemma ref_add_tail w L xs n ls ob fr :
  SInv w (mkSA ((L, xs) :: ls) ob (n :: fr)) ->
  exists w', s_step w (SAddTail L n) = Some w' /\ SInv w' (mkSA ((L, xs ++ [n]) :: ls) ob fr).
Proof.
  intros I. front_list I SL.
  assert (Hn : s_rd w n <> None) by (eapply in_sa_free; eauto; left; reflexivity).
  assert (Hnot : ~ In n (L :: xs)) by (eapply free_not_on_front; eauto; left; reflexivity).
  destruct (add_tail_spec w L xs n SL Hn (s_rd_nz _ _ Hn) Hnot) as (w' & E & SL' & Fs & Ft).
  exists w'. split; [exact E|].
  apply (SInv_rebuild w w' [(L, xs)] [(L, xs ++ [n])] ls ob ob (n :: fr) fr I);
    [apply (s_step_dom w (SAddTail L n)); exact E|cbn; perm_count|cbn; perm_count|apply Forall_cons; [cbn [fst snd]; assumption|apply Forall_nil]| |].
  - intros x Hx. pose proof (SInv_rest_disj w [(L, xs)] ls ob (n :: fr) x I Hx) as D.
    apply Fs.
    + intros ->. apply D. apply in_or_app. right. apply in_or_app. right. left. reflexivity.
    + intros ->. apply D. apply in_or_app. left. pose proof (front_in_old L xs []) as H0. rewrite app_nil_r in H0. exact H0.
  - intros l Hl. apply Ft. intros ->.
    apply (SInv_rest_disj w [(L, xs)] ls ob (n :: fr) L I (in_heads_nodes _ _ Hl)). cbn. auto.
Qed.

Lemma ref_del w L l1 n l2 ls ob fr :
  SInv w (mkSA ((L, l1 ++ n :: l2) :: ls) ob fr) ->
  exists w', s_step w (SDel L (last l1 L)) = Some w' /\ SInv w' (mkSA ((L, l1 ++ l2) :: ls) ob (n :: fr)).
Proof.
  intros I. front_list I SL.
  destruct (del_spec w L l1 n l2 SL) as (w' & E & SL' & Fs & Ft).
  exists w'. split; [exact E|].
  apply (SInv_rebuild w w' [(L, l1 ++ n :: l2)] [(L, l1 ++ l2)] ls ob ob fr (n :: fr) I);
    [apply (s_step_dom w (SDel L (last l1 L))); exact E|cbn; perm_count|cbn; perm_count|apply Forall_cons; [cbn [fst snd]; assumption|apply Forall_nil]| |].
  - intros x Hx. pose proof (SInv_rest_disj w [(L, l1 ++ n :: l2)] ls ob fr x I Hx) as D.
    apply Fs. intros ->. apply D. apply in_or_app. left. apply front_in_old.
  - intros l Hl. apply Ft. intros ->.
    apply (SInv_rest_disj w [(L, l1 ++ n :: l2)] ls ob fr L I (in_heads_nodes _ _ Hl)). cbn. auto.
Qed.

Lemma ref_mov w L xs T l1 l2 ls ob fr :
  xs <> [] ->
  SInv w (mkSA ((L, xs) :: (T, l1 ++ l2) :: ls) ob fr) ->
  exists w', s_step w (SMov L T (last l1 T)) = Some w' /\
             SInv w' (mkSA ((T, l1 ++ xs ++ l2) :: ls) (L :: ob) fr).
Proof.
  intros Hxs I. front_list I SL.
  pose proof (Forall_inv (Forall_inv_tail (si_lists _ _ I))) as ST. cbn [fst snd] in ST.
  pose proof (si_nodup _ _ I) as ND. unfold sa_all in ND.
  cbn [sa_lists sa_objs sa_free flat_map nodes_of fst snd] in ND.
  assert (D : forall x, In x (L :: xs) -> ~ In x (T :: l1 ++ l2)).
  { intros x H1 H2. rewrite <- app_assoc in ND.
    apply (NoDup_app_disj (L :: xs) (((T :: l1 ++ l2) ++ flat_map nodes_of ls) ++ ob ++ fr) x ND H1).
    apply in_or_app. left. apply in_or_app. left. exact H2. }
  destruct (mov_spec w L xs T l1 l2 SL ST Hxs D) as (w' & E & ST' & Fs & Ft).
  exists w'. split; [exact E|].
  apply (SInv_rebuild w w' [(L, xs); (T, l1 ++ l2)] [(T, l1 ++ xs ++ l2)] ls ob (L :: ob) fr fr I);
    [apply (s_step_dom w (SMov L T (last l1 T))); exact E|cbn; perm_count|cbn; perm_count
    |apply Forall_cons; [cbn [fst snd]; assumption|apply Forall_nil]| |].
  - intros x Hx. pose proof (SInv_rest_disj w [(L, xs); (T, l1 ++ l2)] ls ob fr x I Hx) as D'.
    apply Fs.
    + intros ->. apply D'. apply in_or_app. left. cbn [flat_map]. apply in_or_app. right. apply front_in_old.
    + intros ->. apply D'. apply in_or_app. left. cbn [flat_map nodes_of fst snd]. apply in_or_app. left.
      apply in_last_cons.
  - intros l Hl. apply Ft. intros ->.
    apply (SInv_rest_disj w [(L, xs); (T, l1 ++ l2)] ls ob fr T I (in_heads_nodes _ _ Hl)).
    apply in_or_app. left. cbn [flat_map nodes_of fst snd]. apply in_or_app. right. left. reflexivity.
Qed.

Lemma ref_rot w L a b t ls ob fr :
  SInv w (mkSA ((L, a :: b :: t) :: ls) ob fr) ->
  exists w', s_step w (SRot L) = Some w' /\ SInv w' (mkSA ((L, b :: t ++ [a]) :: ls) ob fr).
Proof.
  intros I. front_list I SL.
  destruct (rot_spec w L a b t SL) as (w' & E & SL' & Fs & Ft).
  exists w'. split; [exact E|].
  apply (SInv_rebuild w w' [(L, a :: b :: t)] [(L, b :: t ++ [a])] ls ob ob fr fr I);
    [apply (s_step_dom w (SRot L)); exact E|cbn; perm_count|cbn; perm_count|apply Forall_cons; [cbn [fst snd]; assumption|apply Forall_nil]| |].
  - intros x Hx. pose proof (SInv_rest_disj w [(L, a :: b :: t)] ls ob fr x I Hx) as D.
    apply Fs. intros Hc. apply D. apply in_or_app. left. cbn [flat_map nodes_of fst snd]. rewrite app_nil_r. exact Hc.
  - intros l Hl. apply Ft. intros ->.
    apply (SInv_rest_disj w [(L, a :: b :: t)] ls ob fr L I (in_heads_nodes _ _ Hl)). cbn. auto.
Qed.

(* ------------------------------------------------------------------ one step of the abstract machine *)
Theorem sl_step_refines o a a' :
  sl_step o a a' -> forall w, SInv w a -> exists w', s_step w o = Some w' /\ SInv w' a'.
Proof.
  induction 1; intros w I.
  - apply ref_ctor_new; exact I.
  - apply ref_ctor_again; exact I.
  - apply ref_add; exact I.
  - apply (ref_add w L [] xs n ls ob fr I).
  - apply ref_add_tail; exact I.
  - apply ref_del; exact I.
  - exists w. split; [|exact I]. front_list I SL. apply (del_last_spec w L xs SL).
  - apply (ref_del w L [] n xs ls ob fr I).
  - exists w. split; [|exact I]. front_list I SL. apply (del_head_empty w L SL).
  - apply ref_mov; assumption.
  - exists w. split; [|exact I]. front_list I SL. apply (mov_empty_spec w L T pos SL).
  - apply ref_rot; exact I.
  - exists w. split; [|exact I]. front_list I SL. apply (rot_small_spec w L xs SL); assumption.
  - destruct (IHsl_step w (SInv_equiv _ _ _ H I)) as (w' & E & I'). exists w'. split; [exact E|].
    eapply SInv_equiv; eauto.
Qed.

(* ------------------------------------------------------------------ histories *)
Theorem sl_run_refines os a a' :
  sl_run os a a' -> forall w, SInv w a -> exists w', s_run w os = Some w' /\ SInv w' a'.
Proof.
  induction 1; intros w I.
  - exists w. split; [reflexivity|exact I].
  - destruct (sl_step_refines _ _ _ H w I) as (w1 & E1 & I1).
    destruct (IHsl_run w1 I1) as (w2 & E2 & I2). exists w2. cbn [s_run]. rewrite E1. split; [exact E2|exact I2].
Qed.

(* what the invariant says about what an observer sees: walking next from the head of a constructed
   list yields exactly the abstract sequence and then NULL; the tail field designates the last
   node of the sequence (the head itself when the list is empty) *)
Theorem SInv_observed w a L xs fuel :
  SInv w a -> In (L, xs) (sa_lists a) -> (length xs < fuel)%nat ->
  s_list_of w L fuel = Some xs /\ t_rd w L = Some (last xs L) /\ s_rd w (last xs L) = Some 0 /\ NoDup (L :: xs).
Proof.
  intros I Hin Hf. pose proof (si_lists _ _ I) as F. rewrite Forall_forall in F. specialize (F _ Hin).
  cbn [fst snd] in F. split; [apply s_list_of_spec; assumption|].
  split; [apply (sl_tail _ _ _ F)|]. split; [apply (sl_end _ _ _ F)|apply (sl_nodup _ _ _ F)].
Qed.

(* ------------------------------------------------------------------ the initial world; non-vacuity *)
Lemma s_nodes_rd n m x :
  pget (s_nodes n m) x = if existsb (N.eqb x) (s_free_nodes n) then Some 0 else pget m x.
Proof.
  induction n as [|k IH]; [reflexivity|]. cbn [s_nodes s_free_nodes existsb].
  destruct (N.eqb x (N.of_nat (S k) + 2)) eqn:E.
  - apply N.eqb_eq in E. subst x. cbn [orb]. apply pget_pset_same. lia.
  - cbn [orb]. apply N.eqb_neq in E. rewrite pget_pset_other by congruence. exact IH.
Qed.

Lemma s_free_nodes_in n x : In x (s_free_nodes n) <-> 3 <= x <= N.of_nat n + 2.
Proof.
  induction n as [|k IH]; cbn [s_free_nodes In]; [lia|]. rewrite IH. lia.
Qed.

Lemma s_free_nodes_nodup n : NoDup (s_free_nodes n).
Proof.
  induction n as [|k IH]; cbn [s_free_nodes]; constructor; [|exact IH]. rewrite s_free_nodes_in. lia.
Qed.

Theorem s_world_inv n : SInv (s_world n) (s_abs0 n).
Proof.
  assert (R : forall x, s_rd (s_world n) x =
                        if existsb (N.eqb x) (s_free_nodes n) then Some 0
                        else if N.eqb x 1 then Some 0 else if N.eqb x 2 then Some 0 else None).
  { intros x. unfold s_rd, s_world. cbn [s_next]. rewrite s_nodes_rd.
    destruct (existsb (N.eqb x) (s_free_nodes n)); [reflexivity|].
    destruct (N.eqb x 2) eqn:E2.
    - apply N.eqb_eq in E2. subst x. reflexivity.
    - apply N.eqb_neq in E2. rewrite pget_pset_other by congruence.
      destruct (N.eqb x 1) eqn:E1; [apply N.eqb_eq in E1; subst x; reflexivity|].
      apply N.eqb_neq in E1. rewrite pget_pset_other by congruence.
      destruct x as [|p]; [reflexivity|apply PositiveMap.gempty]. }
  assert (R1 : s_rd (s_world n) 1 = Some 0).
  { rewrite R. destruct (existsb (N.eqb 1) (s_free_nodes n)); reflexivity. }
  assert (R2 : s_rd (s_world n) 2 = Some 0).
  { rewrite R. destruct (existsb (N.eqb 2) (s_free_nodes n)); reflexivity. }
  constructor; unfold s_abs0, sa_all, sa_heads; cbn [sa_lists sa_objs sa_free flat_map nodes_of fst snd map app].
  - repeat constructor; cbn [fst snd last]; try (simpl; intuition discriminate); assumption.
  - constructor; [|constructor].
    + intros [H|H]; [discriminate|]. apply s_free_nodes_in in H. lia.
    + intros H. apply s_free_nodes_in in H. lia.
    + apply s_free_nodes_nodup.
  - intros x [<-|[<-|H]]; [rewrite R1; discriminate|rewrite R2; discriminate|].
    rewrite R. replace (existsb (N.eqb x) (s_free_nodes n)) with true; [discriminate|].
    symmetry. apply existsb_exists. exists x. split; [exact H|apply N.eqb_refl].
  - intros l [<-|[<-|[]]]; discriminate.
Qed.

(* a concrete history of the abstract machine (so the hypotheses of sl_run_refines can be met):
   add_tail 3, add_head 4, add 5 behind 4, rot, del behind the head, mov everything to list 2 *)
Example sl_run_example :
  sl_run [SAddTail 1 3; SAddHead 1 4; SAdd 1 4 5; SRot 1; SDel 1 1; SMov 1 2 2]
         (s_abs0 3) (mkSA [(2, [3; 4])] [1] [5]).
Proof.
  unfold s_abs0. cbn [s_free_nodes N.of_nat Pos.of_succ_nat Pos.succ N.add Pos.add].
  eapply sr_cons.
  { eapply (ss_equiv _ _ (mkSA [(1, []); (2, [])] [] [3; 5; 4]));
      [repeat split; cbn [sa_lists sa_objs sa_free]; try reflexivity; perm_count
      |apply ss_add_tail|repeat split; reflexivity]. }
  eapply sr_cons.
  { eapply (ss_equiv _ _ (mkSA [(1, [3]); (2, [])] [] [4; 5]));
      [repeat split; cbn [sa_lists sa_objs sa_free app]; try reflexivity; perm_count
      |apply ss_add_head|repeat split; reflexivity]. }
  eapply sr_cons.
  { apply (ss_add 1 [4] [3] 5). }
  eapply sr_cons.
  { apply (ss_rot 1 4 5 [3]). }
  eapply sr_cons.
  { apply (ss_del 1 [] 5 [3; 4]). }
  eapply sr_cons.
  { apply (ss_mov 1 [3; 4] 2 [] []). discriminate. }
  apply sr_nil.
Qed.
