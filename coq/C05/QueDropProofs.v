(* C05 - a_que_drop and a_que_setz as they are in /repo now are all-or-nothing: the only allocator
   request of a_que_drop is the up-front reservation; once it has been granted the loop has room for
   every node and asks for nothing; a_que_setz adds no request of its own.  So a refused request
   leaves both abstract sequences exactly as they were (the statement dq_step of QueSpec.v, kept for
   the bodies as found too, only promises that a suffix remains). *)
From Coq Require Import NArith ZArith List Bool FMapPositive Lia Permutation.
From LibaV Require Import C05.DListDefs C05.DListProofs C05.QueDefs C05.QueSpec C05.QueProofs.
Import ListNotations.
Local Open Scope N_scope.

(* a_que_die_ with room in the pool array: no request, success *)
Lemma die_room w s n :
  n <> 0 -> N.of_nat (length (q_pool (getq w s))) < q_mem (getq w s) ->
  q_die_ w s n = Ok (setq w s (mkQ (n :: q_pool (getq w s)) (q_siz (getq w s)) (q_num (getq w s) - 1)
                                   (q_mem (getq w s))), 0%Z).
Proof.
  intros Hn Hroom. unfold q_die_. rewrite (neqb_false _ _ Hn).
  replace (N.leb (q_mem (getq w s)) (N.of_nat (length (q_pool (getq w s))))) with false
    by (symmetry; apply N.leb_gt; exact Hroom).
  reflexivity.
Qed.

Lemma take_rc_room w s n w1 rc :
  n <> 0 -> N.of_nat (length (q_pool (getq w s))) < q_mem (getq w s) ->
  q_take_rc w s n = Ok (w1, rc) ->
  rc = 0%Z /\ w_trace w1 = w_trace w /\ w_sched w1 = w_sched w /\
  getq w1 s = mkQ (n :: q_pool (getq w s)) (q_siz (getq w s)) (q_num (getq w s) - 1) (q_mem (getq w s)).
Proof.
  intros Hn Hroom. unfold q_take_rc. rewrite (die_room w s n Hn Hroom). cbn [Z.eqb].
  set (w0 := setq w s _).
  destruct (l_del_node (w_h w0) n) as [h1|]; cbn [lift]; [|discriminate].
  destruct (l_init h1 n) as [h2|]; cbn [lift]; [|discriminate].
  intros E. inversion E; subst w1 rc; clear E. split; [reflexivity|].
  unfold w0. destruct s; cbn; auto.
Qed.

Lemma drop_loop_room s fuel : forall w X w' rc,
  QInv w X -> (length (sel s X) < fuel)%nat ->
  N.of_nat (length (q_pool (getq w s))) + q_num (getq w s) <= q_mem (getq w s) ->
  q_drop_loop w s fuel = Ok (w', rc) ->
  rc = 0%Z /\ w_trace w' = w_trace w /\ w_sched w' = w_sched w.
Proof.
  induction fuel as [|fuel IH]; intros w X w' rc I Hf Hroom; [lia|].
  cbn [q_drop_loop]. pose proof (qi_ring _ _ I s) as R.
  rewrite (Ring_next _ [] (qaddr s) (sel s X) R). cbn [lift hd].
  destruct (sel s X) as [|n t] eqn:Hsel.
  - cbn [hd]. rewrite N.eqb_refl. intros E. inversion E; subst. auto.
  - cbn [hd]. rewrite neqb_false.
    2:{ intros ->. apply (QInv_head_notin w X s I). rewrite Hsel. left. reflexivity. }
    assert (Hn : n <> 0).
    { assert (3 <= n); [|lia]. eapply QInv_node_ge3; eauto. eapply allnodes_sel. rewrite Hsel. left. reflexivity. }
    assert (Hnum : q_num (getq w s) = N.of_nat (S (length t))) by (rewrite (qi_num _ _ I s), Hsel; reflexivity).
    assert (Hlt : N.of_nat (length (q_pool (getq w s))) < q_mem (getq w s)) by lia.
    destruct (take_rc_ok w X s [] n t I Hsel) as (w1 & rc1 & E & T & C). rewrite E. cbn [fst snd].
    destruct (take_rc_room w s n w1 rc1 Hn Hlt E) as (-> & Ht & Hs & Hq). cbn [Z.eqb].
    destruct C as [(Hrc & _)|(_ & I1 & _)]; [congruence|]. cbn [app] in I1.
    intros E2. destruct (IH w1 (upd s t X) w' rc I1) as (Hr & Ht2 & Hs2).
    + rewrite sel_upd_same. simpl in Hf. lia.
    + rewrite Hq. cbn [q_pool q_num q_mem length]. lia.
    + exact E2.
    + split; [exact Hr|]. split; congruence.
Qed.

(* a_que_drop: either everything is dropped, or the reservation was refused and nothing changed *)
Theorem drop_all_or_nothing w X s :
  QInv w X ->
  exists w' rc, q_drop w s = Ok (w', rc) /\ trace_ok w w' /\
    ((rc = 0%Z /\ QInv w' (upd s [] X) /\ abs w' (upd s [] X) = upd s [] (abs w X)) \/
     (rc = 4%Z /\ failed w' = true /\ QInv w' X /\ abs w' X = abs w X)).
Proof.
  intros I. unfold q_drop.
  destruct (reserve_ok w X s I) as (w1 & ok & E & T & I1 & A1 & F1 & Room). rewrite E.
  destruct ok.
  - destruct (drop_loop_ok s (fuel_of w1) w1 X I1 (QInv_fuel w1 X s I1)) as (w' & rc & k & E2 & T2 & I2 & A2 & C2).
    destruct (drop_loop_room s (fuel_of w1) w1 X w' rc I1 (QInv_fuel w1 X s I1) (Room eq_refl) E2) as (-> & _).
    exists w', 0%Z. split; [exact E2|]. split; [eapply trace_ok_trans; eauto|]. left. split; [reflexivity|].
    destruct C2 as [(_ & Hnil)|(Hc & _)]; [|congruence].
    rewrite Hnil in I2, A2. split; [exact I2|]. rewrite A2, A1. f_equal.
    rewrite sel_abs, skipn_pairs, Hnil. reflexivity.
  - exists w1, 4%Z. split; [reflexivity|]. split; [exact T|]. right. split; [reflexivity|].
    split; [apply F1; reflexivity|]. split; [exact I1|exact A1].
Qed.

(* a_que_setz: the same (releasing the recycled nodes cannot fail) *)
Theorem setz_all_or_nothing w X s siz :
  QInv w X ->
  exists w' rc, q_setz w s siz = Ok (w', rc) /\ trace_ok w w' /\
    ((rc = 0%Z /\ QInv w' (upd s [] X) /\ abs w' (upd s [] X) = upd s [] (abs w X) /\
      q_siz (getq w' s) = (if N.eqb siz 0 then 1 else siz)) \/
     (rc = 4%Z /\ failed w' = true /\ QInv w' X /\ abs w' X = abs w X)).
Proof.
  intros I. unfold q_setz.
  destruct (drop_all_or_nothing w X s I) as (w1 & rc & E & T & [(-> & I1 & A1)|(-> & F & I1 & A1)]); rewrite E.
  - cbn [Z.eqb]. set (z := if N.eqb siz 0 then 1 else siz).
    destruct (N.ltb (q_siz (getq w1 s)) z).
    + destruct (free_pool_ok w1 _ s z I1) as (w2 & -> & T2 & I2 & A2).
      eexists _, 0%Z. split; [reflexivity|]. split; [eapply trace_ok_trans; eauto|]. left.
      split; [reflexivity|]. split; [exact I2|]. split; [rewrite A2; exact A1|].
      rewrite getq_setq_same. reflexivity.
    + eexists _, 0%Z. split; [reflexivity|].
      pose proof (setq_siz_core w1 s z) as C3.
      split; [|left; split; [reflexivity|split; [eapply core_eq_QInv; eauto|split]]].
      * eapply trace_ok_trans; [exact T|]. intros H. split; [destruct s; exact H|destruct s; reflexivity].
      * rewrite (core_eq_abs _ _ _ C3). exact A1.
      * rewrite getq_setq_same. reflexivity.
  - cbn [Z.eqb]. exists w1, 4%Z. split; [reflexivity|]. split; [exact T|]. right. auto.
Qed.
