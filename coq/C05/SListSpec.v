(* C05 - the abstract machine the singly linked lists of include/a/slist.h are proved to follow over
   whole histories, and the representation invariant.  Definitions only.

   Abstract state
     sa_lists : the constructed list objects, each with the sequence of nodes it holds
     sa_objs  : list objects that are not (or no longer) constructed: never constructed, or left
                stale by a_slist_mov (the header says nothing about the source afterwards, the
                code leaves its head and tail pointing into the target)
     sa_free  : plain nodes that are on no list
   A step is enabled exactly when the documented precondition of the C function holds
   (the node to add is on no list, `prev`/`at` designates the head or a node of that list, the two
   lists of a_slist_mov are different objects). *)
From Coq Require Import NArith List Permutation.
From LibaV Require Import C05.DListDefs C05.SListDefs C05.SListProofs.
Import ListNotations.
Local Open Scope N_scope.

Record sabs := mkSA { sa_lists : list (id * list id); sa_objs : list id; sa_free : list id }.

Definition nodes_of (p : id * list id) : list id := fst p :: snd p.
Definition sa_heads (a : sabs) : list id := map fst (sa_lists a) ++ sa_objs a.
Definition sa_all (a : sabs) : list id := flat_map nodes_of (sa_lists a) ++ sa_objs a ++ sa_free a.

(* representation invariant: every constructed list satisfies Slist (chain from the head visits
   exactly xs and ends in NULL, tail = last node or the head), all objects and nodes are distinct,
   every one of them exists, every list object has a tail field *)
Record SInv (w : sworld) (a : sabs) : Prop := {
  si_lists : Forall (fun p => Slist w (fst p) (snd p)) (sa_lists a);
  si_nodup : NoDup (sa_all a);
  si_rd : forall x, In x (sa_all a) -> s_rd w x <> None;
  si_td : forall l, In l (sa_heads a) -> t_rd w l <> None }.

Definition sa_equiv (a b : sabs) : Prop :=
  Permutation (sa_lists a) (sa_lists b) /\ Permutation (sa_objs a) (sa_objs b) /\
  Permutation (sa_free a) (sa_free b).

(* the node in front of position |l1| of the list L is  last l1 L  (the head itself for l1 = []) *)
Inductive sl_step : sop -> sabs -> sabs -> Prop :=
| ss_ctor_new L ls ob fr :
    sl_step (SCtor L) (mkSA ls (L :: ob) fr) (mkSA ((L, []) :: ls) ob fr)
| ss_ctor_again L xs ls ob fr :
    sl_step (SCtor L) (mkSA ((L, xs) :: ls) ob fr) (mkSA ((L, []) :: ls) ob (xs ++ fr))
| ss_add L l1 l2 n ls ob fr :
    sl_step (SAdd L (last l1 L) n) (mkSA ((L, l1 ++ l2) :: ls) ob (n :: fr))
                                   (mkSA ((L, l1 ++ n :: l2) :: ls) ob fr)
| ss_add_head L xs n ls ob fr :
    sl_step (SAddHead L n) (mkSA ((L, xs) :: ls) ob (n :: fr)) (mkSA ((L, n :: xs) :: ls) ob fr)
| ss_add_tail L xs n ls ob fr :
    sl_step (SAddTail L n) (mkSA ((L, xs) :: ls) ob (n :: fr)) (mkSA ((L, xs ++ [n]) :: ls) ob fr)
| ss_del L l1 n l2 ls ob fr :
    sl_step (SDel L (last l1 L)) (mkSA ((L, l1 ++ n :: l2) :: ls) ob fr)
                                 (mkSA ((L, l1 ++ l2) :: ls) ob (n :: fr))
| ss_del_none L xs ls ob fr :
    sl_step (SDel L (last xs L)) (mkSA ((L, xs) :: ls) ob fr) (mkSA ((L, xs) :: ls) ob fr)
| ss_del_head L n xs ls ob fr :
    sl_step (SDelHead L) (mkSA ((L, n :: xs) :: ls) ob fr) (mkSA ((L, xs) :: ls) ob (n :: fr))
| ss_del_head_empty L ls ob fr :
    sl_step (SDelHead L) (mkSA ((L, []) :: ls) ob fr) (mkSA ((L, []) :: ls) ob fr)
| ss_mov L xs T l1 l2 ls ob fr :
    xs <> [] ->
    sl_step (SMov L T (last l1 T)) (mkSA ((L, xs) :: (T, l1 ++ l2) :: ls) ob fr)
                                   (mkSA ((T, l1 ++ xs ++ l2) :: ls) (L :: ob) fr)
| ss_mov_empty L T pos ls ob fr :
    sl_step (SMov L T pos) (mkSA ((L, []) :: ls) ob fr) (mkSA ((L, []) :: ls) ob fr)
| ss_rot L a b t ls ob fr :
    sl_step (SRot L) (mkSA ((L, a :: b :: t) :: ls) ob fr) (mkSA ((L, b :: t ++ [a]) :: ls) ob fr)
| ss_rot_small L xs ls ob fr :
    (length xs <= 1)%nat ->
    sl_step (SRot L) (mkSA ((L, xs) :: ls) ob fr) (mkSA ((L, xs) :: ls) ob fr)
| ss_equiv o a a' b' b :
    sa_equiv a a' -> sl_step o a' b' -> sa_equiv b' b -> sl_step o a b.

Inductive sl_run : list sop -> sabs -> sabs -> Prop :=
| sr_nil a : sl_run [] a a
| sr_cons o os a a1 a2 : sl_step o a a1 -> sl_run os a1 a2 -> sl_run (o :: os) a a2.

(* the world the drivers start from: list objects 1 and 2 constructed and empty, nodes 3..n+2 free *)
Fixpoint s_free_nodes (n : nat) : list id :=
  match n with O => [] | S k => (N.of_nat n + 2) :: s_free_nodes k end.
Definition s_abs0 (n : nat) : sabs := mkSA [(1, []); (2, [])] [] (s_free_nodes n).
