(* C05 - every history of the abstract list machine (DListSpec.v) is followed by the pointer-level
   model of include/a/list.h: the invariant DInv (every ring is a ring of the heap with next and prev
   mutually consistent, detached sections keep their inner links, no node is shared) holds after
   every operation of every history. *)
From Coq Require Import NArith List FMapPositive Lia Permutation.
From LibaV Require Import C05.DListDefs C05.DListProofs C05.DListSpec C05.PermProofs.
Import ListNotations.
Local Open Scope N_scope.

(* ------------------------------------------------------------------ small facts *)
Lemma Ring_Piece h l : Ring h l -> Piece h l.
Proof. intros R. apply Ring_Soup in R. destruct R as [_ F]. apply (Forall_inv F). Qed.

Lemma Piece_Frame h h' S l : Piece h l -> Frame h h' S -> (forall x, In x l -> ~ In x S) -> Piece h' l.
Proof.
  intros [Sg L] F D.
  assert (Same : forall x, In x l -> dget h' x = dget h x) by (intros x Hx; apply F; apply D; exact Hx).
  split; [eapply Seg_same; eauto|].
  rewrite Forall_forall in *. intros x Hx. unfold live. rewrite Same by exact Hx. apply L. exact Hx.
Qed.

Lemma hd_in_cons {A} (c : A) xs : In (hd c xs) (c :: xs).
Proof. destruct xs; simpl; auto. Qed.
Lemma last_in_cons {A} (c : A) xs : In (last xs c) (c :: xs).
Proof. rewrite <- last_cons_default with (d := c). apply in_last. discriminate. Qed.

Ltac in_solve :=
  cbn [concat app] in *; rewrite ?app_nil_r in *;
  repeat (rewrite ?in_app_iff in *; cbn [In] in * );
  solve [tauto | intuition auto].
Ltac incl_tac :=
  let x := fresh "x" in let Hx := fresh "Hx" in
  intros x Hx; cbn [In] in Hx;
  repeat match goal with
         | H : _ \/ _ |- _ => destruct H
         | H : False |- _ => destruct H
         end; subst; in_solve.

(* ------------------------------------------------------------------ re-reading a state *)
Lemma DInv_weak h a b : dweak a b -> DInv h a -> DInv h b.
Proof.
  induction 1; intros [A1 A2 A3]; unfold d_all in *; cbn [fst snd] in *.
  - constructor; unfold d_all; cbn [fst snd].
    + refine (Permutation_NoDup _ A1). apply Permutation_app; apply Permutation_concat; assumption.
    + eapply Permutation_Forall; eauto.
    + eapply Permutation_Forall; eauto.
  - constructor; unfold d_all; cbn [fst snd].
    + refine (Permutation_NoDup _ A1). cbn [concat]. perm_count.
    + inversion A2; subst. constructor; [apply Ring_rot; assumption|assumption].
    + exact A3.
  - constructor; unfold d_all; cbn [fst snd].
    + refine (Permutation_NoDup _ A1). cbn [concat]. perm_count.
    + inversion A2; subst. assumption.
    + inversion A2; subst. constructor; [apply Ring_Piece; assumption|assumption].
  - constructor; unfold d_all; cbn [fst snd].
    + refine (Permutation_NoDup _ A1). cbn [concat]. perm_count.
    + exact A2.
    + inversion A3; subst. destruct (Piece_app_inv _ _ _ H1) as [P1 P2].
      apply Forall_cons; [exact P1|apply Forall_cons; [exact P2|assumption]].
  - apply IHdweak2, IHdweak1. constructor; assumption.
Qed.

(* ------------------------------------------------------------------ touched and untouched parts *)
Lemma DInv_soup h ro po rs ps : DInv h (ro ++ rs, po ++ ps) -> Soup h (ro ++ po).
Proof.
  intros [A1 A2 A3]. unfold d_all in A1. cbn [fst snd] in *. split.
  - rewrite !concat_app in *.
    assert (P : Permutation ((concat ro ++ concat rs) ++ concat po ++ concat ps)
                            ((concat ro ++ concat po) ++ concat rs ++ concat ps)) by perm_count.
    eapply Permutation_NoDup in A1; [|exact P]. eapply NoDup_app_l; eauto.
  - apply Forall_app. apply Forall_app in A2. apply Forall_app in A3. split; [|tauto].
    destruct A2 as [A2 _]. rewrite Forall_forall in *. intros l Hl. apply Ring_Piece. auto.
Qed.

Lemma DInv_rebuild h h' ro po rn pn rs ps S :
  DInv h (ro ++ rs, po ++ ps) ->
  Frame h h' S -> (forall x, In x S -> In x (concat ro ++ concat po)) ->
  Permutation (concat rn ++ concat pn) (concat ro ++ concat po) ->
  Forall (Ring h') rn -> Forall (Piece h') pn ->
  DInv h' (rn ++ rs, pn ++ ps).
Proof.
  intros [A1 A2 A3] F HS P Rn Pn. unfold d_all in A1. cbn [fst snd] in *. rewrite !concat_app in A1.
  assert (P0 : Permutation ((concat ro ++ concat rs) ++ concat po ++ concat ps)
                           ((concat ro ++ concat po) ++ concat rs ++ concat ps)) by perm_count.
  pose proof (Permutation_NoDup P0 A1) as ND.
  assert (D : forall x, In x (concat rs ++ concat ps) -> ~ In x S).
  { intros x Hx Hs. eapply NoDup_app_disj; [exact ND|apply HS; exact Hs|exact Hx]. }
  constructor; unfold d_all; cbn [fst snd].
  - rewrite !concat_app. eapply Permutation_NoDup; [|exact ND]. perm_count.
  - apply Forall_app. split; [exact Rn|]. apply Forall_app in A2. destruct A2 as [_ A2].
    rewrite Forall_forall in *. intros l Hl. eapply Ring_Frame; eauto.
    intros x Hx. apply D. apply in_or_app. left. apply in_concat. eauto.
  - apply Forall_app. split; [exact Pn|]. apply Forall_app in A3. destruct A3 as [_ A3].
    rewrite Forall_forall in *. intros l Hl. eapply Piece_Frame; eauto.
    intros x Hx. apply D. apply in_or_app. right. apply in_concat. eauto.
Qed.

Lemma ring1 h l rs ps : DInv h (l :: rs, ps) -> Ring h l.
Proof. intros I. apply (Forall_inv (di_rings _ _ I)). Qed.
Lemma ring2 h l1 l2 rs ps : DInv h (l1 :: l2 :: rs, ps) -> Ring h l2.
Proof. intros I. apply (Forall_inv (Forall_inv_tail (di_rings _ _ I))). Qed.

Lemma Soup_disj2 h p q r x : Soup h (p :: q :: r) -> In x p -> In x q -> False.
Proof.
  intros [ND _] H1 H2. cbn [concat] in ND. rewrite app_assoc in ND. apply NoDup_app_l in ND.
  eapply NoDup_app_disj; eauto.
Qed.

Ltac one_ring R' := apply Forall_cons; [exact R'|apply Forall_nil].
Ltac piece1 Lv h n :=
  apply Forall_cons; [apply Piece_single; apply Lv|apply Forall_nil].

(* ------------------------------------------------------------------ one step, operation by operation *)
Lemma ref_init h c rs ps :
  DInv h (rs, [c] :: ps) -> exists h', l_step h (LInit c) = Some h' /\ DInv h' ([c] :: rs, ps).
Proof.
  intros I. pose proof (DInv_soup h [] [[c]] rs ps I) as Sp. cbn [app] in Sp.
  assert (Lc : live h c) by (eapply Soup_live; [exact Sp|left; reflexivity|left; reflexivity]).
  destruct (init_ring h c Lc) as (h' & E & R' & F & Lv). exists h'. split; [exact E|].
  apply (DInv_rebuild h h' [] [[c]] [[c]] [] rs ps [c] I F); [incl_tac|cbn; perm_count|one_ring R'|apply Forall_nil].
Qed.

Lemma ref_add_ h l1 l2 rs ps :
  l1 <> [] -> l2 <> [] -> DInv h (rs, l1 :: l2 :: ps) ->
  exists h', l_step h (LAdd_ (hd0 l1) (last l1 0) (hd0 l2) (last l2 0)) = Some h' /\ DInv h' ((l1 ++ l2) :: rs, ps).
Proof.
  intros H1 H2 I. pose proof (DInv_soup h [] [l1; l2] rs ps I) as Sp. cbn [app] in Sp.
  destruct (add__ring h l1 l2 Sp H1 H2) as (h' & E & R' & F & Lv). exists h'. split; [exact E|].
  pose proof (in_last l1 0 H1). pose proof (in_last l2 0 H2). pose proof (in_hd l1 0 H1). pose proof (in_hd l2 0 H2).
  apply (DInv_rebuild h h' [] [l1; l2] [l1 ++ l2] [] rs ps _ I F); [incl_tac|cbn; perm_count|one_ring R'|apply Forall_nil].
Qed.

Lemma ref_add_next h c xs n rs ps :
  DInv h ((c :: xs) :: rs, [n] :: ps) ->
  exists h', l_step h (LAddNext c n) = Some h' /\ DInv h' ((c :: n :: xs) :: rs, ps).
Proof.
  intros I. pose proof (DInv_soup h [c :: xs] [[n]] rs ps I) as Sp. cbn [app] in Sp.
  assert (Ln : live h n) by (eapply Soup_live; [exact Sp|right; left; reflexivity|left; reflexivity]).
  assert (Hn : ~ In n (c :: xs)) by (intros Hc; eapply (Soup_disj2 h (c :: xs) [n] [] n Sp Hc); left; reflexivity).
  destruct (add_next_spec h c xs n (ring1 _ _ _ _ I) Ln Hn) as (h' & E & R' & F & Lv). exists h'. split; [exact E|].
  pose proof (hd_in_cons c xs).
  apply (DInv_rebuild h h' [c :: xs] [[n]] [c :: n :: xs] [] rs ps _ I F); [incl_tac|cbn; perm_count|one_ring R'|apply Forall_nil].
Qed.

Lemma ref_add_prev h c xs n rs ps :
  DInv h ((c :: xs) :: rs, [n] :: ps) ->
  exists h', l_step h (LAddPrev c n) = Some h' /\ DInv h' ((c :: xs ++ [n]) :: rs, ps).
Proof.
  intros I. pose proof (DInv_soup h [c :: xs] [[n]] rs ps I) as Sp. cbn [app] in Sp.
  assert (Ln : live h n) by (eapply Soup_live; [exact Sp|right; left; reflexivity|left; reflexivity]).
  assert (Hn : ~ In n (c :: xs)) by (intros Hc; eapply (Soup_disj2 h (c :: xs) [n] [] n Sp Hc); left; reflexivity).
  destruct (add_prev_spec h c xs n (ring1 _ _ _ _ I) Ln Hn) as (h' & E & R' & F & Lv). exists h'. split; [exact E|].
  pose proof (last_in_cons c xs).
  apply (DInv_rebuild h h' [c :: xs] [[n]] [c :: xs ++ [n]] [] rs ps _ I F); [incl_tac|cbn; perm_count|one_ring R'|apply Forall_nil].
Qed.

Lemma ref_del_ h s rest rs ps :
  s <> [] -> rest <> [] -> DInv h ((s ++ rest) :: rs, ps) ->
  exists h', l_step h (LDel_ (hd0 s) (last s 0)) = Some h' /\ DInv h' (rest :: rs, s :: ps).
Proof.
  intros H1 H2 I.
  destruct (del__spec h s rest (ring1 _ _ _ _ I) H1 H2) as (h' & E & R' & Sp' & F & Lv). exists h'. split; [exact E|].
  pose proof (in_last rest 0 H2). pose proof (in_hd rest 0 H2).
  apply (DInv_rebuild h h' [s ++ rest] [] [rest] [s] rs ps _ I F); [incl_tac|cbn; perm_count|one_ring R'|].
  destruct Sp' as [_ Fp]. apply Forall_cons; [exact (Forall_inv (Forall_inv_tail Fp))|apply Forall_nil].
Qed.

Lemma ref_del_whole h s rs ps :
  DInv h (s :: rs, ps) ->
  exists h', l_step h (LDel_ (hd0 s) (last s 0)) = Some h' /\ DInv h' (s :: rs, ps).
Proof.
  intros I. pose proof (ring1 _ _ _ _ I) as R. pose proof (Ring_nonnil _ _ R) as Hs.
  destruct (del__whole h s R) as (h' & E & R' & F & Lv). exists h'. split; [exact E|].
  pose proof (in_last s 0 Hs). pose proof (in_hd s 0 Hs).
  apply (DInv_rebuild h h' [s] [] [s] [] rs ps _ I F); [incl_tac|cbn; perm_count|one_ring R'|apply Forall_nil].
Qed.

Lemma ref_del_node h n l rs ps :
  l <> [] -> DInv h ((n :: l) :: rs, ps) ->
  exists h', l_step h (LDelNode n) = Some h' /\ DInv h' (l :: rs, [n] :: ps).
Proof.
  intros Hl I. pose proof (ring1 _ _ _ _ I) as R.
  destruct (del_node_spec h [] n l R Hl) as (h' & E & R' & Dn & F & Lv). exists h'. split; [exact E|].
  cbn [app] in *.
  apply (DInv_rebuild h h' [n :: l] [] [l] [[n]] rs ps _ I F); [incl_tac|cbn; perm_count|one_ring R'|].
  apply Forall_cons; [|apply Forall_nil]. apply Piece_single. apply Lv. eapply Ring_live; [exact R|left; reflexivity].
Qed.

Lemma ref_del_next h c n xs rs ps :
  DInv h ((c :: n :: xs) :: rs, ps) ->
  exists h', l_step h (LDelNext c) = Some h' /\ DInv h' ((c :: xs) :: rs, [n] :: ps).
Proof.
  intros I. pose proof (ring1 _ _ _ _ I) as R.
  destruct (del_next_spec h c n xs R) as (h' & E & R' & Dn & F & Lv). exists h'. split; [exact E|].
  apply (DInv_rebuild h h' [c :: n :: xs] [] [c :: xs] [[n]] rs ps _ I F); [incl_tac|cbn; perm_count|one_ring R'|].
  apply Forall_cons; [|apply Forall_nil]. apply Piece_single. apply Lv. eapply Ring_live; [exact R|right; left; reflexivity].
Qed.

Lemma ref_del_prev h c xs n rs ps :
  DInv h ((c :: xs ++ [n]) :: rs, ps) ->
  exists h', l_step h (LDelPrev c) = Some h' /\ DInv h' ((c :: xs) :: rs, [n] :: ps).
Proof.
  intros I. pose proof (ring1 _ _ _ _ I) as R.
  destruct (del_prev_spec h c xs n R) as (h' & E & R' & Dn & F & Lv). exists h'. split; [exact E|].
  apply (DInv_rebuild h h' [c :: xs ++ [n]] [] [c :: xs] [[n]] rs ps _ I F); [incl_tac|cbn; perm_count|one_ring R'|].
  apply Forall_cons; [|apply Forall_nil]. apply Piece_single. apply Lv. eapply Ring_live; [exact R|].
  right. apply in_or_app. right. left. reflexivity.
Qed.

(* on a ring of one node  c->next = c->prev = c : del_next / del_prev delete c itself *)
Lemma ref_del_next_single h c rs ps :
  DInv h ([c] :: rs, ps) -> exists h', l_step h (LDelNext c) = Some h' /\ DInv h' ([c] :: rs, ps).
Proof.
  intros I. pose proof (ring1 _ _ _ _ I) as R. cbn [l_step]. unfold l_del_next.
  rewrite (Ring_next h [] c [] R). cbn [hd]. apply (ref_del_whole h [c] rs ps I).
Qed.
Lemma ref_del_prev_single h c rs ps :
  DInv h ([c] :: rs, ps) -> exists h', l_step h (LDelPrev c) = Some h' /\ DInv h' ([c] :: rs, ps).
Proof.
  intros I. pose proof (ring1 _ _ _ _ I) as R. cbn [l_step]. unfold l_del_prev.
  rewrite (Ring_prev h [] c [] R). cbn [last]. apply (ref_del_whole h [c] rs ps I).
Qed.

Lemma ref_set_ h s1 rest l2 rs ps :
  s1 <> [] -> rest <> [] -> l2 <> [] -> DInv h ((s1 ++ rest) :: rs, l2 :: ps) ->
  exists h', l_step h (LSet_ (hd0 s1) (last s1 0) (hd0 l2) (last l2 0)) = Some h' /\
             DInv h' ((l2 ++ rest) :: rs, s1 :: ps).
Proof.
  intros H1 H2 H3 I. pose proof (DInv_soup h [s1 ++ rest] [l2] rs ps I) as Sp. cbn [app] in Sp.
  destruct (set__spec h s1 rest l2 (ring1 _ _ _ _ I) Sp H1 H2 H3) as (h' & E & R' & Sp' & F & Lv).
  exists h'. split; [exact E|].
  apply (DInv_rebuild h h' [s1 ++ rest] [l2] [l2 ++ rest] [s1] rs ps _ I F); [incl_tac|cbn; perm_count|one_ring R'|].
  destruct Sp' as [_ Fp]. apply Forall_cons; [exact (Forall_inv (Forall_inv_tail Fp))|apply Forall_nil].
Qed.

Lemma ref_set_node h c rest r rs ps :
  rest <> [] -> DInv h ((c :: rest) :: rs, [r] :: ps) ->
  exists h', l_step h (LSetNode c r) = Some h' /\ DInv h' ((r :: rest) :: rs, [c] :: ps).
Proof.
  intros H1 I. pose proof (DInv_soup h [c :: rest] [[r]] rs ps I) as Sp. cbn [app] in Sp.
  pose proof (ring1 _ _ _ _ I) as R.
  assert (Lr : live h r) by (eapply Soup_live; [exact Sp|right; left; reflexivity|left; reflexivity]).
  assert (Hr : ~ In r (c :: rest)) by (intros Hc; eapply (Soup_disj2 h (c :: rest) [r] [] r Sp Hc); left; reflexivity).
  destruct (set_node_spec h c rest r R Lr Hr H1) as (h' & E & R' & Dc & F & Lv). exists h'. split; [exact E|].
  apply (DInv_rebuild h h' [c :: rest] [[r]] [r :: rest] [[c]] rs ps _ I F); [incl_tac|cbn; perm_count|one_ring R'|].
  apply Forall_cons; [|apply Forall_nil]. apply Piece_single. apply Lv. eapply Ring_live; [exact R|left; reflexivity].
Qed.

Lemma ref_mov_next h c xs r ys rs ps :
  ys <> [] -> DInv h ((c :: xs) :: (r :: ys) :: rs, ps) ->
  exists h', l_step h (LMovNext c r) = Some h' /\ DInv h' ((c :: ys ++ xs) :: rs, [r] :: ps).
Proof.
  intros H1 I. pose proof (DInv_soup h [c :: xs; r :: ys] [] rs ps I) as Sp. cbn [app] in Sp.
  pose proof (ring2 _ _ _ _ _ I) as R2.
  destruct (mov_next_spec h c xs r ys (ring1 _ _ _ _ I) R2 Sp H1) as (h' & E & R' & Dr & F & Lv).
  exists h'. split; [exact E|].
  apply (DInv_rebuild h h' [c :: xs; r :: ys] [] [c :: ys ++ xs] [[r]] rs ps _ I F); [incl_tac|cbn; perm_count|one_ring R'|].
  apply Forall_cons; [|apply Forall_nil]. apply Piece_single. apply Lv. eapply Ring_live; [exact R2|left; reflexivity].
Qed.

Lemma ref_mov_prev h c xs r ys rs ps :
  ys <> [] -> DInv h ((c :: xs) :: (r :: ys) :: rs, ps) ->
  exists h', l_step h (LMovPrev c r) = Some h' /\ DInv h' ((c :: xs ++ ys) :: rs, [r] :: ps).
Proof.
  intros H1 I. pose proof (DInv_soup h [c :: xs; r :: ys] [] rs ps I) as Sp. cbn [app] in Sp.
  pose proof (ring2 _ _ _ _ _ I) as R2.
  destruct (mov_prev_spec h c xs r ys (ring1 _ _ _ _ I) R2 Sp H1) as (h' & E & R' & Dr & F & Lv).
  exists h'. split; [exact E|].
  apply (DInv_rebuild h h' [c :: xs; r :: ys] [] [c :: xs ++ ys] [[r]] rs ps _ I F); [incl_tac|cbn; perm_count|one_ring R'|].
  apply Forall_cons; [|apply Forall_nil]. apply Piece_single. apply Lv. eapply Ring_live; [exact R2|left; reflexivity].
Qed.

Lemma ref_mov_next_empty h c xs r rs ps :
  DInv h ((c :: xs) :: [r] :: rs, ps) ->
  exists h', l_step h (LMovNext c r) = Some h' /\ DInv h' ((c :: r :: xs) :: rs, ps).
Proof.
  intros I. pose proof (DInv_soup h [c :: xs; [r]] [] rs ps I) as Sp. cbn [app] in Sp.
  assert (Hr : ~ In r (c :: xs)) by (intros Hc; eapply (Soup_disj2 h (c :: xs) [r] [] r Sp Hc); left; reflexivity).
  destruct (mov_next_empty h c xs r (ring1 _ _ _ _ I) (ring2 _ _ _ _ _ I) Hr) as (h' & E & R' & F & Lv).
  exists h'. split; [exact E|]. pose proof (hd_in_cons c xs).
  apply (DInv_rebuild h h' [c :: xs; [r]] [] [c :: r :: xs] [] rs ps _ I F); [incl_tac|cbn; perm_count|one_ring R'|apply Forall_nil].
Qed.

Lemma ref_mov_prev_empty h c xs r rs ps :
  DInv h ((c :: xs) :: [r] :: rs, ps) ->
  exists h', l_step h (LMovPrev c r) = Some h' /\ DInv h' ((c :: xs ++ [r]) :: rs, ps).
Proof.
  intros I. pose proof (DInv_soup h [c :: xs; [r]] [] rs ps I) as Sp. cbn [app] in Sp.
  assert (Hr : ~ In r (c :: xs)) by (intros Hc; eapply (Soup_disj2 h (c :: xs) [r] [] r Sp Hc); left; reflexivity).
  destruct (mov_prev_empty h c xs r (ring1 _ _ _ _ I) (ring2 _ _ _ _ _ I) Hr) as (h' & E & R' & F & Lv).
  exists h'. split; [exact E|]. pose proof (last_in_cons c xs).
  apply (DInv_rebuild h h' [c :: xs; [r]] [] [c :: xs ++ [r]] [] rs ps _ I F); [incl_tac|cbn; perm_count|one_ring R'|apply Forall_nil].
Qed.

Lemma ref_rot_next h c xs n rs ps :
  DInv h ((c :: xs ++ [n]) :: rs, ps) ->
  exists h', l_step h (LRotNext c) = Some h' /\ DInv h' ((c :: n :: xs) :: rs, ps).
Proof.
  intros I. destruct (rot_next_spec h c xs n (ring1 _ _ _ _ I)) as (h' & E & R' & F & Lv).
  exists h'. split; [exact E|].
  apply (DInv_rebuild h h' [c :: xs ++ [n]] [] [c :: n :: xs] [] rs ps _ I F); [incl_tac|cbn; perm_count|one_ring R'|apply Forall_nil].
Qed.

Lemma ref_rot_prev h c n xs rs ps :
  DInv h ((c :: n :: xs) :: rs, ps) ->
  exists h', l_step h (LRotPrev c) = Some h' /\ DInv h' ((c :: xs ++ [n]) :: rs, ps).
Proof.
  intros I. destruct (rot_prev_spec h c n xs (ring1 _ _ _ _ I)) as (h' & E & R' & F & Lv).
  exists h'. split; [exact E|].
  apply (DInv_rebuild h h' [c :: n :: xs] [] [c :: xs ++ [n]] [] rs ps _ I F); [incl_tac|cbn; perm_count|one_ring R'|apply Forall_nil].
Qed.

Lemma ref_rot_single h c rs ps :
  DInv h ([c] :: rs, ps) ->
  (exists h', l_step h (LRotNext c) = Some h' /\ DInv h' ([c] :: rs, ps)) /\
  (exists h', l_step h (LRotPrev c) = Some h' /\ DInv h' ([c] :: rs, ps)).
Proof.
  intros I. destruct (rot_single h c (ring1 _ _ _ _ I)) as [(h1 & E1 & R1 & F1) (h2 & E2 & R2 & F2)]. split.
  - exists h1. split; [exact E1|].
    apply (DInv_rebuild h h1 [[c]] [] [[c]] [] rs ps _ I F1); [incl_tac|cbn; perm_count|one_ring R1|apply Forall_nil].
  - exists h2. split; [exact E2|].
    apply (DInv_rebuild h h2 [[c]] [] [[c]] [] rs ps _ I F2); [incl_tac|cbn; perm_count|one_ring R2|apply Forall_nil].
Qed.

Lemma ref_swap_same h s1 a s2 b rs ps :
  s1 <> [] -> a <> [] -> s2 <> [] -> b <> [] -> DInv h ((s1 ++ a ++ s2 ++ b) :: rs, ps) ->
  exists h', l_step h (LSwap_ (hd0 s1) (last s1 0) (hd0 s2) (last s2 0)) = Some h' /\
             DInv h' ((s2 ++ a ++ s1 ++ b) :: rs, ps).
Proof.
  intros H1 H2 H3 H4 I.
  destruct (swap__same_ring h s1 a s2 b (ring1 _ _ _ _ I) H1 H2 H3 H4) as (h' & E & R' & F & Lv).
  exists h'. split; [exact E|].
  apply (DInv_rebuild h h' [s1 ++ a ++ s2 ++ b] [] [s2 ++ a ++ s1 ++ b] [] rs ps _ I F);
    [incl_tac|cbn; perm_count|one_ring R'|apply Forall_nil].
Qed.

Lemma ref_swap_two h s1 a s2 b rs ps :
  s1 <> [] -> a <> [] -> s2 <> [] -> b <> [] -> DInv h ((s1 ++ a) :: (s2 ++ b) :: rs, ps) ->
  exists h', l_step h (LSwap_ (hd0 s1) (last s1 0) (hd0 s2) (last s2 0)) = Some h' /\
             DInv h' ((s2 ++ a) :: (s1 ++ b) :: rs, ps).
Proof.
  intros H1 H2 H3 H4 I. pose proof (DInv_soup h [s1 ++ a; s2 ++ b] [] rs ps I) as Sp. cbn [app] in Sp.
  destruct (swap__two_rings h s1 a s2 b (ring1 _ _ _ _ I) (ring2 _ _ _ _ _ I) Sp H1 H2 H3 H4) as (h' & E & Ra & Rb & F & Lv).
  exists h'. split; [exact E|].
  apply (DInv_rebuild h h' [s1 ++ a; s2 ++ b] [] [s2 ++ a; s1 ++ b] [] rs ps _ I F);
    [incl_tac|cbn; perm_count|apply Forall_cons; [exact Ra|one_ring Rb]|apply Forall_nil].
Qed.

Lemma ref_swap_node_same h l a r b rs ps :
  a <> [] -> b <> [] -> DInv h ((l :: a ++ r :: b) :: rs, ps) ->
  exists h', l_step h (LSwapNode l r) = Some h' /\ DInv h' ((r :: a ++ l :: b) :: rs, ps).
Proof.
  intros H1 H2 I.
  destruct (swap_node_same_ring h l a r b (ring1 _ _ _ _ I) H1 H2) as (h' & E & R' & F & Lv).
  exists h'. split; [exact E|].
  apply (DInv_rebuild h h' [l :: a ++ r :: b] [] [r :: a ++ l :: b] [] rs ps _ I F);
    [incl_tac|cbn; perm_count|one_ring R'|apply Forall_nil].
Qed.

Lemma ref_swap_node_two h l a r b rs ps :
  a <> [] -> b <> [] -> DInv h ((l :: a) :: (r :: b) :: rs, ps) ->
  exists h', l_step h (LSwapNode l r) = Some h' /\ DInv h' ((r :: a) :: (l :: b) :: rs, ps).
Proof.
  intros H1 H2 I. pose proof (DInv_soup h [l :: a; r :: b] [] rs ps I) as Sp. cbn [app] in Sp.
  destruct (swap_node_two_rings h l a r b (ring1 _ _ _ _ I) (ring2 _ _ _ _ _ I) Sp H1 H2) as (h' & E & Ra & Rb & F & Lv).
  exists h'. split; [exact E|].
  apply (DInv_rebuild h h' [l :: a; r :: b] [] [r :: a; l :: b] [] rs ps _ I F);
    [incl_tac|cbn; perm_count|apply Forall_cons; [exact Ra|one_ring Rb]|apply Forall_nil].
Qed.

Lemma ref_swap_node_self h l xs rs ps :
  DInv h ((l :: xs) :: rs, ps) ->
  exists h', l_step h (LSwapNode l l) = Some h' /\ DInv h' ((l :: xs) :: rs, ps).
Proof.
  intros I. destruct (swap_node_self h l xs (ring1 _ _ _ _ I)) as (h' & E & R' & F & Lv).
  exists h'. split; [exact E|].
  apply (DInv_rebuild h h' [l :: xs] [] [l :: xs] [] rs ps _ I F); [incl_tac|cbn; perm_count|one_ring R'|apply Forall_nil].
Qed.

(* ------------------------------------------------------------------ one step of the abstract machine *)
Theorem dl_step_refines o a a' :
  dl_step o a a' -> forall h, DInv h a -> exists h', l_step h o = Some h' /\ DInv h' a'.
Proof.
  induction 1; intros h I.
  - apply ref_init; exact I.
  - apply ref_add_; assumption.
  - apply (ref_add_ h l1 [n] rs ps); [assumption|discriminate|exact I].
  - apply ref_add_next; exact I.
  - apply ref_add_prev; exact I.
  - apply ref_del_; assumption.
  - apply ref_del_whole; exact I.
  - apply ref_del_node; assumption.
  - apply (ref_del_whole h [n] rs ps I).
  - apply ref_del_next; exact I.
  - apply ref_del_next_single; exact I.
  - apply ref_del_prev; exact I.
  - apply ref_del_prev_single; exact I.
  - apply ref_set_; assumption.
  - apply ref_set_node; assumption.
  - apply ref_mov_next; assumption.
  - apply ref_mov_next_empty; exact I.
  - apply ref_mov_prev; assumption.
  - apply ref_mov_prev_empty; exact I.
  - apply ref_rot_next; exact I.
  - apply (proj1 (ref_rot_single h c rs ps I)).
  - apply ref_rot_prev; exact I.
  - apply (proj2 (ref_rot_single h c rs ps I)).
  - apply ref_swap_same; assumption.
  - apply ref_swap_two; assumption.
  - apply ref_swap_node_same; assumption.
  - apply ref_swap_node_two; assumption.
  - apply ref_swap_node_self; exact I.
  - destruct (IHdl_step h (DInv_weak _ _ _ H I)) as (h' & E & I'). exists h'. split; [exact E|].
    eapply DInv_weak; eauto.
Qed.

(* ------------------------------------------------------------------ histories *)
Theorem dl_run_refines os a a' :
  dl_run os a a' -> forall h, DInv h a -> exists h', l_run h os = Some h' /\ DInv h' a'.
Proof.
  induction 1; intros h I.
  - exists h. split; [reflexivity|exact I].
  - destruct (dl_step_refines _ _ _ H h I) as (h1 & E1 & I1).
    destruct (IHdl_run h1 I1) as (h2 & E2 & I2). exists h2. cbn [l_run]. rewrite E1. split; [exact E2|exact I2].
Qed.

(* every node of a ring has a successor in the ring, and the two links between them agree *)
Lemma Ring_links h l x : Ring h l -> In x l -> exists y, In y l /\ rd_next h x = Some y /\ rd_prev h y = Some x.
Proof.
  intros R Hx. apply in_split in Hx. destruct Hx as (l1 & l2 & ->).
  pose proof (Ring_rot h l1 (x :: l2) R) as R1. cbn [app] in R1.
  destruct (l2 ++ l1) as [|y t] eqn:Et.
  - exists x. split; [apply in_or_app; right; left; reflexivity|]. destruct R1 as [_ [E1 E2]]. cbn [last] in *. auto.
  - exists y. split.
    + assert (Hy : In y (l2 ++ l1)) by (rewrite Et; left; reflexivity).
      apply in_app_or in Hy. apply in_or_app. destruct Hy; [right; right|left]; assumption.
    + apply (Ring_edge_mid h [] x y t R1).
Qed.

(* ------------------------------------------------------------------ the initial world; non-vacuity *)
Lemma l_ids_in n x : In x (l_ids n) <-> 1 <= x <= N.of_nat n.
Proof. induction n as [|k IH]; cbn [l_ids In]; [lia|]. rewrite IH. lia. Qed.

Lemma concat_singletons (l : list id) : concat (map (fun a => [a]) l) = l.
Proof. induction l as [|a l IH]; [reflexivity|]. cbn [map concat app]. rewrite IH. reflexivity. Qed.

Theorem l_world_inv n : DInv (l_world n) (d_abs0 n).
Proof.
  induction n as [|k IH].
  - constructor; cbn; constructor.
  - destruct IH as [A1 A2 A3]. unfold d_abs0, d_all in *. cbn [fst snd l_ids map concat] in *.
    rewrite app_nil_r in *. rewrite concat_singletons in *.
    set (a := N.of_nat (S k)) in *. assert (Ha : a <> 0) by (unfold a; lia).
    assert (Fr : Frame (l_world k) (l_world (S k)) [a]).
    { intros x Hx. cbn [l_world]. fold a. apply dget_dset_other. intros ->. apply Hx. left. reflexivity. }
    constructor; cbn [fst snd].
    + unfold d_all. cbn [fst snd concat]. rewrite app_nil_r. cbn [app]. rewrite concat_singletons.
      constructor; [|exact A1]. rewrite l_ids_in. unfold a. lia.
    + constructor.
      * apply Ring_single.
        -- exists (mkD a a). cbn [l_world]. fold a. apply dget_dset_same. exact Ha.
        -- cbn [l_world]. fold a. unfold edge, rd_next, rd_prev. rewrite dget_dset_same by exact Ha. split; reflexivity.
      * rewrite Forall_forall in *. intros l Hl. eapply Ring_Frame; [apply A2; exact Hl|exact Fr|].
        apply in_map_iff in Hl. destruct Hl as (b & <- & Hb). intros x [<-|[]] [E|[]].
        apply l_ids_in in Hb. unfold a in E. lia.
    + constructor.
Qed.

(* a concrete history of the abstract machine (so the hypotheses of dl_run_refines can be met):
   1 becomes the head of 2,3,4; nodes 1 and 3 are exchanged; 3 is deleted *)
Example dl_run_example :
  dl_run [LAddNext 1 2; LAddPrev 1 3; LAddPrev 1 4; LSwapNode 1 3; LDelNode 3]
         ([[1]; [2]; [3]; [4]], []) ([[2; 1; 4]], [[3]]).
Proof.
  eapply dr_cons.
  { eapply (d_weak _ _ ([[1]; [3]; [4]], [[2]])); [|apply d_add_next|apply dw_perm; reflexivity].
    eapply dw_trans; [apply (dw_perm _ [[2]; [1]; [3]; [4]] _ []); [apply perm_swap|reflexivity]|apply dw_open]. }
  eapply dr_cons.
  { eapply (d_weak _ _ ([[1; 2]; [4]], [[3]])); [|apply d_add_prev|apply dw_perm; reflexivity].
    eapply dw_trans; [apply (dw_perm _ [[3]; [1; 2]; [4]] _ []); [apply perm_swap|reflexivity]|apply dw_open]. }
  eapply dr_cons.
  { eapply (d_weak _ _ ([[1; 2; 3]], [[4]])); [|apply d_add_prev|apply dw_perm; reflexivity].
    eapply dw_trans; [apply (dw_perm _ [[4]; [1; 2; 3]] _ []); [apply perm_swap|reflexivity]|apply dw_open]. }
  eapply dr_cons.
  { apply (d_swap_node_same 1 [2] 3 [4]); discriminate. }
  eapply dr_cons.
  { apply (d_del_node 3 [2; 1; 4]). discriminate. }
  apply dr_nil.
Qed.

Example dl_world4_inv : DInv (l_world 4) ([[1]; [2]; [3]; [4]], []).
Proof.
  eapply DInv_weak; [|apply (l_world_inv 4)]. apply dw_perm; [|reflexivity].
  unfold d_abs0. cbn [l_ids map N.of_nat Pos.of_succ_nat Pos.succ fst]. apply (Permutation_rev [[4]; [3]; [2]; [1]]).
Qed.
