(* C05 - the queue of src/que.c refines a double-ended sequence (see QueSpec.v). *)
From Coq Require Import NArith ZArith List Bool FMapPositive Lia Permutation.
From LibaV Require Import C05.DListDefs C05.DListProofs C05.QueDefs C05.QueSpec.
Import ListNotations.
Local Open Scope N_scope.

(* ------------------------------------------------------------------ sel / upd *)
Lemma sel_upd_same {A} s (v : A) p : sel s (upd s v p) = v.
Proof. destruct s; reflexivity. Qed.
Lemma sel_upd_other {A} s (v : A) p : sel (negb s) (upd s v p) = sel (negb s) p.
Proof. destruct s; reflexivity. Qed.
Lemma upd_sel {A} s (p : A * A) : upd s (sel s p) p = p.
Proof. destruct s, p; reflexivity. Qed.
Lemma getq_setq_same w s q : getq (setq w s q) s = q.
Proof. destruct s; reflexivity. Qed.
Lemma getq_setq_other w s q : getq (setq w s q) (negb s) = getq w (negb s).
Proof. destruct s; reflexivity. Qed.
Lemma qaddr_neq s : qaddr s <> qaddr (negb s).
Proof. destruct s; discriminate. Qed.

Lemma bool_cases (s t : bool) : t = s \/ t = negb s.
Proof. destruct s, t; auto. Qed.

(* ------------------------------------------------------------------ permutations of app/cons lists *)
Ltac perm_app :=
  cbn [app]; rewrite <- ?app_assoc; cbn [app];
  repeat rewrite <- Permutation_middle;
  try reflexivity; try (apply perm_skip; reflexivity).

(* ------------------------------------------------------------------ facts from the invariant *)
Lemma allnodes_sel w X s x : In x (sel s X) -> In x (allnodes w X).
Proof.
  unfold allnodes. destruct s; simpl; intros H; apply in_or_app; [right; apply in_or_app|]; auto.
Qed.

Lemma allnodes_pool w X s x : In x (q_pool (getq w s)) -> In x (allnodes w X).
Proof.
  unfold allnodes, pools. destruct s; simpl; intros H; apply in_or_app; right; apply in_or_app; right;
    apply in_or_app; auto.
Qed.

Lemma QInv_node_ge3 w X x : QInv w X -> In x (allnodes w X) -> 3 <= x.
Proof. intros I H. apply (qi_node _ _ I x H). Qed.

Lemma QInv_sentinel_notin w X s : QInv w X -> ~ In (qaddr s) (allnodes w X).
Proof. intros I H. apply (QInv_node_ge3 _ _ _ I) in H. destruct s; simpl in H; lia. Qed.

(* the two rings are disjoint *)
Lemma QInv_rings_disj w X s x : QInv w X -> In x (qaddr s :: sel s X) -> ~ In x (qaddr (negb s) :: sel (negb s) X).
Proof.
  intros I [<-|H] [E|H'].
  - destruct s; discriminate.
  - eapply QInv_sentinel_notin; eauto. eapply allnodes_sel; eauto.
  - subst. eapply QInv_sentinel_notin; eauto. eapply allnodes_sel; eauto.
  - pose proof (qi_nodup _ _ I) as N. unfold allnodes in N. rewrite app_assoc in N. apply NoDup_app_l in N.
    destruct s; simpl in *; eapply NoDup_app_disj; eauto.
Qed.

Lemma QInv_live_sentinel w X s : QInv w X -> live (w_h w) (qaddr s).
Proof. intros I. eapply Ring_live; [apply (qi_ring _ _ I s)|left; reflexivity]. Qed.

(* ------------------------------------------------------------------ values *)
Lemma vget_vset_same m a v : a <> 0 -> vget (vset m a v) a = Some v.
Proof. destruct a; [congruence|]. intros _. apply PositiveMap.gss. Qed.
Lemma vget_vset_other m a b v : a <> b -> vget (vset m a v) b = vget m b.
Proof. destruct a, b; simpl; intros; try reflexivity; try congruence. apply PositiveMap.gso. congruence. Qed.

Lemma pairs_ext w w' l : (forall x, In x l -> val w' x = val w x) -> pairs w' l = pairs w l.
Proof. intros H. unfold pairs. apply map_ext_in. intros x Hx. rewrite H; auto. Qed.

Lemma pairs_app w l1 l2 : pairs w (l1 ++ l2) = pairs w l1 ++ pairs w l2.
Proof. apply map_app. Qed.

Lemma map_fst_pairs w l : map fst (pairs w l) = l.
Proof. unfold pairs. rewrite map_map. simpl. apply map_id. Qed.

Lemma addrs_abs w X : addrs (abs w X) = fst X ++ snd X.
Proof. unfold addrs, abs. simpl. rewrite !map_fst_pairs. reflexivity. Qed.

(* ------------------------------------------------------------------ the allocator *)
Lemma ask_spec w mk : 
  let '(w1, ok) := ask w mk in
  w_h w1 = w_h w /\ w_val w1 = w_val w /\ w_fresh w1 = w_fresh w /\ w_qa w1 = w_qa w /\ w_qb w1 = w_qb w /\
  w_trace w1 = mk ok :: w_trace w /\ (w_sched w = [] -> ok = true /\ w_sched w1 = []).
Proof.
  unfold ask. destruct (w_sched w) as [|b r]; simpl; repeat split; auto; discriminate.
Qed.

(* everything but the schedule and the trace is the same *)
Definition same_core (w w1 : qworld) : Prop :=
  w_h w1 = w_h w /\ w_val w1 = w_val w /\ w_fresh w1 = w_fresh w /\ w_qa w1 = w_qa w /\ w_qb w1 = w_qb w.

Lemma same_core_QInv w w1 X : same_core w w1 -> QInv w X -> QInv w1 X.
Proof.
  intros (Hh & Hv & Hf & Ha & Hb) I.
  assert (Hq : forall s, getq w1 s = getq w s) by (intros []; unfold getq; congruence).
  assert (Hall : allnodes w1 X = allnodes w X) by (unfold allnodes, pools; congruence).
  destruct I. constructor; rewrite ?Hall, ?Hh, ?Hv, ?Hf; auto; intros s; rewrite Hq; auto.
Qed.

Lemma same_core_abs w w1 X : same_core w w1 -> abs w1 X = abs w X.
Proof.
  intros (Hh & Hv & Hf & Ha & Hb). unfold abs. f_equal; apply pairs_ext; intros x _; unfold val; rewrite Hv; reflexivity.
Qed.

(* the schedule [] never refuses *)
Definition no_fault (w : qworld) : Prop := w_sched w = [].

(* ------------------------------------------------------------------ a_que_new_ *)
Record QMidNew (w1 : qworld) (X : list id * list id) (s : bool) (n : id) : Prop := {
  mn_ring : forall t, Ring (w_h w1) (qaddr t :: sel t X);
  mn_nodup : NoDup (n :: allnodes w1 X);
  mn_node : forall x, In x (n :: allnodes w1 X) ->
              3 <= x < w_fresh w1 /\ live (w_h w1) x /\ vget (w_val w1) x <> None;
  mn_num_s : q_num (getq w1 s) = N.of_nat (length (sel s X)) + 1;
  mn_num_o : q_num (getq w1 (negb s)) = N.of_nat (length (sel (negb s) X));
  mn_mem : forall t, N.of_nat (length (q_pool (getq w1 t))) <= q_mem (getq w1 t);
  mn_fresh : N.of_nat (length (n :: allnodes w1 X)) + 3 <= w_fresh w1 }.

Lemma getq_sel w s : getq w s = sel s (w_qa w, w_qb w).
Proof. destruct s; reflexivity. Qed.

Lemma pools_setq w s q : pools (setq w s q) = sel s (q_pool q ++ q_pool (w_qb w), q_pool (w_qa w) ++ q_pool q).
Proof. destruct s; reflexivity. Qed.

Lemma new_spec w X s :
  QInv w X ->
  exists w1 n, q_new_ w s = Ok (w1, n) /\
    ((n = 0 /\ same_core w w1 /\ failed w1 = true /\ w_sched w <> []) \/
     (n <> 0 /\ QMidNew w1 X s n /\ (forall x, x <> n -> val w1 x = val w x) /\
      (failed w1 = failed w) /\ (no_fault w -> no_fault w1))).
Proof.
  intros I. unfold q_new_.
  destruct (q_pool (getq w s)) as [|n rest] eqn:Hp.
  - (* nothing to recycle: ask the allocator *)
    pose proof (ask_spec w (RNode (16 + q_siz (getq w s)))) as A.
    destruct (ask w (RNode (16 + q_siz (getq w s)))) as [w1 ok].
    destruct A as (Hh & Hv & Hf & Ha & Hb & Ht & Hs).
    destruct ok.
    + match goal with |- context [Ok (?W, _)] => set (w2 := W) end.
      set (n := w_fresh w1) in *.
      assert (Hn3 : 3 <= n) by (rewrite Hf; pose proof (qi_fresh _ _ I); lia).
      assert (Hnz : n <> 0) by lia.
      assert (H2h : w_h w2 = dset (w_h w) n (mkD 0 0)) by (unfold w2; destruct s; simpl; rewrite Hh; reflexivity).
      assert (H2v : w_val w2 = vset (w_val w) n 0%Z) by (unfold w2; destruct s; simpl; rewrite Hv; reflexivity).
      assert (H2f : w_fresh w2 = n + 1) by (unfold w2; destruct s; reflexivity).
      assert (H2t : w_trace w2 = w_trace w1) by (unfold w2; destruct s; reflexivity).
      assert (H2s : w_sched w2 = w_sched w1) by (unfold w2; destruct s; reflexivity).
      assert (H2q : getq w2 s = mkQ [] (q_siz (getq w s)) (q_num (getq w s) + 1) (q_mem (getq w s)))
        by (unfold w2; apply getq_setq_same).
      assert (H2o : getq w2 (negb s) = getq w (negb s)).
      { unfold w2. rewrite getq_setq_other. destruct s; simpl; unfold getq; simpl; congruence. }
      assert (H2p : pools w2 = pools w).
      { unfold w2. rewrite pools_setq. unfold pools. destruct s; simpl in *; unfold getq in Hp; simpl in Hp;
          rewrite ?Ha, ?Hb, ?Hp; reflexivity. }
      clearbody w2.
      assert (Hall : allnodes w2 X = allnodes w X) by (unfold allnodes; rewrite H2p; reflexivity).
      assert (Hnew : forall x, In x (allnodes w X) -> x <> n).
      { intros x Hx. pose proof (qi_node _ _ I x Hx) as (B & _). rewrite Hf. lia. }
      exists w2, n. split; [reflexivity|]. right.
      split; [exact Hnz|]. split; [|split; [|split]].
      * constructor; rewrite ?Hall, ?H2h, ?H2v, ?H2f.
        -- intros t. eapply (Ring_Frame _ _ [n]); [apply (qi_ring _ _ I t)| |].
           ++ intros x Hx. apply dget_dset_other. intros E. apply Hx. left. exact E.
           ++ intros x Hx [E|[]]. subst x. destruct Hx as [E|Hx].
              ** destruct t; simpl in E; lia.
              ** apply (Hnew n); auto. eapply allnodes_sel; eauto.
        -- constructor; [|apply (qi_nodup _ _ I)]. intros H. apply (Hnew n H). reflexivity.
        -- intros x [<-|Hx].
           ++ split; [lia|]. split.
              ** exists (mkD 0 0). apply dget_dset_same. exact Hnz.
              ** rewrite vget_vset_same by exact Hnz. discriminate.
           ++ pose proof (qi_node _ _ I x Hx) as (B & L & V). pose proof (Hnew x Hx) as Hne.
              split; [lia|]. split.
              ** destruct L as [d Hd]. exists d. rewrite dget_dset_other by congruence. exact Hd.
              ** rewrite vget_vset_other by congruence. exact V.
        -- rewrite H2q. simpl. rewrite (qi_num _ _ I s). reflexivity.
        -- rewrite H2o. apply (qi_num _ _ I).
        -- intros t. destruct (bool_cases s t) as [->| ->].
           ++ rewrite H2q. simpl. lia.
           ++ rewrite H2o. apply (qi_mem _ _ I).
        -- pose proof (qi_fresh _ _ I). rewrite Hf. simpl length. lia.
      * intros x Hx. unfold val. rewrite H2v, vget_vset_other by congruence. reflexivity.
      * unfold failed. rewrite H2t, Ht. reflexivity.
      * unfold no_fault. intros Hs0. rewrite H2s. apply (Hs Hs0).
    + exists w1, 0. split; [reflexivity|]. left. split; [reflexivity|]. split; [|split].
      * unfold same_core. auto.
      * unfold failed. rewrite Ht. reflexivity.
      * intros Hs0. destruct (Hs Hs0). discriminate.
  - (* recycle the top of the pool *)
    pose proof (qi_mem _ _ I s) as M. rewrite Hp in M.
    replace (N.ltb (q_mem (getq w s)) (N.of_nat (length (n :: rest)))) with false
      by (symmetry; apply N.ltb_ge; exact M).
    eexists _, _. split; [reflexivity|]. right.
    assert (Hn : In n (allnodes w X)) by (eapply allnodes_pool; rewrite Hp; left; reflexivity).
    pose proof (qi_node _ _ I n Hn) as (Bn & Ln & Vn).
    assert (Hnz : n <> 0) by lia.
    set (w1 := setq w s (mkQ rest (q_siz (getq w s)) (q_num (getq w s) + 1) (q_mem (getq w s)))).
    assert (Hh : w_h w1 = w_h w) by (destruct s; reflexivity).
    assert (Hv : w_val w1 = w_val w) by (destruct s; reflexivity).
    assert (Hf : w_fresh w1 = w_fresh w) by (destruct s; reflexivity).
    assert (Hperm : Permutation (n :: allnodes w1 X) (allnodes w X)).
    { unfold allnodes. unfold w1. rewrite pools_setq. unfold pools.
      destruct s; simpl in *; unfold getq in Hp; simpl in Hp; rewrite Hp; perm_app. }
    split; [exact Hnz|]. split; [|split; [|split]].
    + constructor; rewrite ?Hh, ?Hv, ?Hf.
      * apply (qi_ring _ _ I).
      * eapply Permutation_NoDup; [symmetry; exact Hperm|apply (qi_nodup _ _ I)].
      * intros x Hx. apply (qi_node _ _ I). eapply Permutation_in; eauto.
      * unfold w1. rewrite getq_setq_same. simpl. rewrite (qi_num _ _ I s). reflexivity.
      * unfold w1. rewrite getq_setq_other. apply (qi_num _ _ I).
      * intros t. destruct (bool_cases s t) as [->| ->]; unfold w1.
        -- rewrite getq_setq_same. simpl. simpl in M. lia.
        -- rewrite getq_setq_other. apply (qi_mem _ _ I).
      * rewrite (Permutation_length Hperm). apply (qi_fresh _ _ I).
    + intros x _. unfold val. rewrite Hv. reflexivity.
    + unfold failed, w1. destruct s; reflexivity.
    + unfold no_fault, w1. destruct s; simpl; auto.
Qed.

(* ------------------------------------------------------------------ shared bookkeeping *)
Lemma rings_disj_gen (all : list id) (X : list id * list id) s x :
  (forall y, In y (fst X ++ snd X) -> 3 <= y) -> NoDup (fst X ++ snd X) ->
  In x (qaddr s :: sel s X) -> ~ In x (qaddr (negb s) :: sel (negb s) X).
Proof.
  intros B N [<-|H] [E|H'].
  - destruct s; discriminate.
  - assert (3 <= qaddr s) by (apply B; destruct s; simpl in *; apply in_or_app; auto). destruct s; simpl in *; lia.
  - subst. assert (3 <= qaddr (negb s)) by (apply B; destruct s; simpl in *; apply in_or_app; auto).
    destruct s; simpl in *; lia.
  - destruct s; simpl in *; eapply NoDup_app_disj; eauto.
Qed.

Lemma sel_abs w X s : sel s (abs w X) = pairs w (sel s X).
Proof. destruct s; reflexivity. Qed.
Lemma abs_upd w X s l : abs w (upd s l X) = upd s (pairs w l) (abs w X).
Proof. destruct s; reflexivity. Qed.

Lemma allnodes_upd_perm w X s l l' :
  Permutation l' l -> Permutation (allnodes w (upd s l' X)) (allnodes w (upd s l X)).
Proof.
  intros P. unfold allnodes. destruct s; simpl.
  - apply Permutation_app_head. apply Permutation_app_tail. exact P.
  - apply Permutation_app_tail. exact P.
Qed.

Lemma allnodes_upd_cons w X s n :
  Permutation (allnodes w (upd s (n :: sel s X) X)) (n :: allnodes w X).
Proof. unfold allnodes. destruct s, X as [xa xb]; simpl; perm_app. Qed.

Lemma in_allnodes_split w X x : In x (allnodes w X) <-> In x (fst X ++ snd X) \/ In x (pools w).
Proof. unfold allnodes. rewrite app_assoc, in_app_iff. reflexivity. Qed.

(* ------------------------------------------------------------------ a new node is linked in *)
Lemma insert_master w X s w1 n h' l1 l2 v :
  QMidNew w1 X s n -> (forall x, x <> n -> val w1 x = val w x) ->
  sel s X = l1 ++ l2 -> Ring h' (qaddr s :: l1 ++ n :: l2) ->
  Frame (w_h w1) h' (n :: qaddr s :: sel s X) -> (forall x, live h' x <-> live (w_h w1) x) ->
  QInv (setv (seth w1 h') n v) (upd s (l1 ++ n :: l2) X) /\
  abs (setv (seth w1 h') n v) (upd s (l1 ++ n :: l2) X) = upd s (pairs w l1 ++ (n, v) :: pairs w l2) (abs w X) /\
  ~ In n (addrs (abs w X)).
Proof.
  intros M Hval Hsel R F Lv.
  set (w' := setv (seth w1 h') n v).
  assert (Hh : w_h w' = h') by reflexivity.
  assert (Hv : w_val w' = vset (w_val w1) n v) by reflexivity.
  assert (Hf : w_fresh w' = w_fresh w1) by reflexivity.
  assert (Hq : forall t, getq w' t = getq w1 t) by (intros []; reflexivity).
  assert (Hp : pools w' = pools w1) by reflexivity.
  pose proof (mn_nodup _ _ _ _ M) as ND. destruct (proj1 (NoDup_cons_iff _ _) ND) as [Hnotin ND'].
  assert (Hn : 3 <= n < w_fresh w1 /\ live (w_h w1) n /\ vget (w_val w1) n <> None)
    by (apply (mn_node _ _ _ _ M); left; reflexivity).
  assert (Hnz : n <> 0) by lia.
  assert (HnX : ~ In n (fst X ++ snd X)).
  { intros H. apply Hnotin. apply in_allnodes_split. auto. }
  assert (Hperm : Permutation (allnodes w' (upd s (l1 ++ n :: l2) X)) (n :: allnodes w1 X)).
  { eapply perm_trans; [|apply (allnodes_upd_cons w1 X s n)].
    unfold allnodes. rewrite Hp. change (pools w1) with (pools w1).
    apply (allnodes_upd_perm w1 X s (n :: sel s X) (l1 ++ n :: l2)).
    rewrite Hsel. symmetry. apply Permutation_middle. }
  split; [|split].
  - constructor; rewrite ?Hh, ?Hv, ?Hf.
    + intros t. destruct (bool_cases s t) as [->| ->].
      * rewrite sel_upd_same. exact R.
      * rewrite sel_upd_other. eapply Ring_Frame; [apply (mn_ring _ _ _ _ M)|exact F|].
        intros x Hx [E|Hin].
        -- subst x. destruct Hx as [E|Hx]; [destruct s; simpl in E; lia|].
           apply HnX. destruct s; simpl in *; apply in_or_app; auto.
        -- revert Hin. change (~ In x (qaddr s :: sel s X)).
           replace s with (negb (negb s)) by apply negb_involutive.
           apply (rings_disj_gen (allnodes w1 X)); auto.
           ++ intros y Hy. apply (mn_node _ _ _ _ M). right. apply in_allnodes_split. auto.
           ++ unfold allnodes in ND'. rewrite app_assoc in ND'. eapply NoDup_app_l; eauto.
    + eapply Permutation_NoDup; [symmetry; exact Hperm|exact ND].
    + intros x Hx. eapply Permutation_in in Hx; [|exact Hperm].
      pose proof (mn_node _ _ _ _ M x Hx) as (B & L & V). split; [exact B|]. split; [apply Lv; exact L|].
      destruct (N.eq_dec x n) as [->|Hne].
      * rewrite vget_vset_same by exact Hnz. discriminate.
      * rewrite vget_vset_other by congruence. exact V.
    + intros t. rewrite Hq. destruct (bool_cases s t) as [->| ->].
      * rewrite sel_upd_same, (mn_num_s _ _ _ _ M), Hsel, !app_length. simpl. lia.
      * rewrite sel_upd_other. apply (mn_num_o _ _ _ _ M).
    + intros t. rewrite Hq. apply (mn_mem _ _ _ _ M).
    + rewrite (Permutation_length Hperm). apply (mn_fresh _ _ _ _ M).
  - rewrite abs_upd. 
    assert (Hvn : val w' n = v) by (unfold val; rewrite Hv, vget_vset_same by exact Hnz; reflexivity).
    assert (Hvo : forall x, x <> n -> val w' x = val w x).
    { intros x Hx. rewrite <- Hval by exact Hx. unfold val. rewrite Hv, vget_vset_other by congruence. reflexivity. }
    assert (Hl : ~ In n (l1 ++ l2)).
    { rewrite <- Hsel. intros H. apply HnX. destruct s; simpl in *; apply in_or_app; auto. }
    assert (Habs : abs w' X = abs w X).
    { unfold abs. f_equal; apply pairs_ext; intros x Hx; apply Hvo; intros ->; apply HnX; apply in_or_app; auto. }
    rewrite pairs_app. simpl. rewrite Hvn.
    rewrite (pairs_ext w w' l1), (pairs_ext w w' l2).
    + unfold abs at 1. unfold abs in Habs. destruct s; simpl; inversion Habs as [[Ha Hb]]; rewrite ?Ha, ?Hb; reflexivity.
    + intros x Hx. apply Hvo. intros ->. apply Hl. apply in_or_app. auto.
    + intros x Hx. apply Hvo. intros ->. apply Hl. apply in_or_app. auto.
  - rewrite addrs_abs. exact HnX.
Qed.

Definition trace_ok (w w' : qworld) : Prop := no_fault w -> no_fault w' /\ failed w' = failed w.

Lemma trace_ok_refl w : trace_ok w w.
Proof. intros H. auto. Qed.

Lemma trace_ok_trans w w1 w2 : trace_ok w w1 -> trace_ok w1 w2 -> trace_ok w w2.
Proof. intros A B H. destruct (A H) as [H1 E1]. destruct (B H1) as [H2 E2]. split; congruence. Qed.

Lemma QMidNew_notin w1 X s n : QMidNew w1 X s n -> ~ In n (qaddr s :: sel s X).
Proof.
  intros M [E|H].
  - assert (3 <= n) by (apply (mn_node _ _ _ _ M); left; reflexivity). destruct s; simpl in E; lia.
  - pose proof (mn_nodup _ _ _ _ M) as ND. apply NoDup_cons_iff in ND. apply (proj1 ND).
    eapply allnodes_sel; eauto.
Qed.

(* ------------------------------------------------------------------ push_fore / push_back *)
Lemma push_ok fore w X s v :
  QInv w X ->
  exists w' n, q_push fore w s v = Ok (w', n) /\ trace_ok w w' /\
    ((n = 0 /\ QInv w' X /\ abs w' X = abs w X /\ failed w' = true) \/
     (n <> 0 /\ ~ In n (addrs (abs w X)) /\
      let X' := upd s (if fore then n :: sel s X else sel s X ++ [n]) X in
      QInv w' X' /\
      abs w' X' = upd s (if fore then (n, v) :: sel s (abs w X) else sel s (abs w X) ++ [(n, v)]) (abs w X))).
Proof.
  intros I. unfold q_push.
  destruct (new_spec w X s I) as (w1 & n & E & [(Hn & Hc & Hf & Hs)|(Hn & M & Hval & Hf & Hs)]); rewrite E.
  - subst n. cbn [N.eqb]. exists w1, 0. split; [reflexivity|]. split; [intros H; contradiction|].
    left. split; [reflexivity|]. split; [eapply same_core_QInv; eauto|]. split; [apply same_core_abs; auto|auto].
  - replace (N.eqb n 0) with false by (symmetry; apply N.eqb_neq; exact Hn).
    pose proof (QMidNew_notin _ _ _ _ M) as Hnot.
    assert (Ln : live (w_h w1) n) by (apply (mn_node _ _ _ _ M); left; reflexivity).
    destruct fore.
    + destruct (add_next_spec (w_h w1) (qaddr s) (sel s X) n (mn_ring _ _ _ _ M s) Ln Hnot)
        as (h' & Eh & R' & F & Lv).
      rewrite Eh. cbn [lift]. eexists _, n. split; [reflexivity|].
      destruct (insert_master w X s w1 n h' [] (sel s X) v M Hval eq_refl R') as (I' & A' & Nn); auto.
      { eapply Frame_incl; eauto. intros x [<-|[<-|[<-|[]]]]; simpl; auto.
        destruct (sel s X); simpl; auto. }
      split; [|right; split; [exact Hn|split; [exact Nn|split; [exact I'|]]]].
      * intros H. split; [apply Hs; exact H|exact Hf].
      * cbn [app] in A'. unfold pairs at 1 2 in A'. cbn [map app] in A'. rewrite sel_abs. exact A'.
    + destruct (add_prev_spec (w_h w1) (qaddr s) (sel s X) n (mn_ring _ _ _ _ M s) Ln Hnot)
        as (h' & Eh & R' & F & Lv).
      rewrite Eh. cbn [lift]. eexists _, n. split; [reflexivity|].
      destruct (insert_master w X s w1 n h' (sel s X) [] v M Hval (eq_sym (app_nil_r _)) R') as (I' & A' & Nn); auto.
      { eapply Frame_incl; eauto. intros x [<-|[<-|[<-|[]]]]; simpl; auto.
        destruct (snoc_cases (sel s X)) as [->|(m & z & ->)]; simpl; auto.
        rewrite last_last. right. right. apply in_or_app. right. left. reflexivity. }
      split; [|right; split; [exact Hn|split; [exact Nn|split; [exact I'|]]]].
      * intros H. split; [apply Hs; exact H|exact Hf].
      * cbn [app] in A'. unfold pairs at 1 2 in A'. cbn [map app] in A'. rewrite sel_abs. exact A'.
Qed.

(* ------------------------------------------------------------------ a_que_die_ *)
Lemma size_up8_ge n : n <= size_up8 n.
Proof.
  unfold size_up8. pose proof (N.div_mod (n + 7) 8 ltac:(lia)) as H.
  pose proof (N.mod_lt (n + 7) 8 ltac:(lia)). lia.
Qed.

Lemma die_spec w X s n :
  QInv w X -> In n (sel s X) ->
  exists w1 rc, q_die_ w s n = Ok (w1, rc) /\ trace_ok w w1 /\
    ((rc = 4%Z /\ same_core w w1 /\ failed w1 = true) \/
     (rc = 0%Z /\ w_h w1 = w_h w /\ w_val w1 = w_val w /\ w_fresh w1 = w_fresh w /\
      getq w1 (negb s) = getq w (negb s) /\ q_pool (getq w1 s) = n :: q_pool (getq w s) /\
      q_num (getq w1 s) = q_num (getq w s) - 1 /\
      N.of_nat (length (n :: q_pool (getq w s))) <= q_mem (getq w1 s))).
Proof.
  intros I Hin. unfold q_die_.
  assert (Hn3 : 3 <= n) by (eapply QInv_node_ge3; eauto; eapply allnodes_sel; eauto).
  replace (N.eqb n 0) with false by (symmetry; apply N.eqb_neq; lia).
  pose proof (qi_mem _ _ I s) as M.
  destruct (N.leb (q_mem (getq w s)) (N.of_nat (length (q_pool (getq w s))))) eqn:Hle.
  - apply N.leb_le in Hle.
    set (mem := size_up8 (q_mem (getq w s) + N.div2 (q_mem (getq w s)) + 1)).
    assert (Hmem : N.of_nat (length (q_pool (getq w s))) < mem).
    { pose proof (size_up8_ge (q_mem (getq w s) + N.div2 (q_mem (getq w s)) + 1)) as H. fold mem in H.
      clearbody mem. set (d := N.div2 (q_mem (getq w s))) in *. clearbody d. lia. }
    pose proof (ask_spec w (RPool (8 * mem))) as A.
    destruct (ask w (RPool (8 * mem))) as [w1 ok].
    destruct A as (Hh & Hv & Hf & Ha & Hb & Ht & Hs).
    destruct ok.
    + replace (N.ltb (N.of_nat (length (q_pool (getq w s)))) mem) with true by (symmetry; apply N.ltb_lt; exact Hmem).
      eexists _, _. split; [reflexivity|]. split.
      * intros H. destruct (Hs H) as [_ H1]. split.
        -- unfold no_fault. destruct s; simpl; exact H1.
        -- unfold failed. destruct s; simpl; rewrite Ht; reflexivity.
      * right. split; [reflexivity|]. rewrite getq_setq_same, getq_setq_other. cbn [q_pool q_num q_mem].
        split; [destruct s; simpl; congruence|]. split; [destruct s; simpl; congruence|].
        split; [destruct s; simpl; congruence|].
        split; [destruct s; simpl; unfold getq; simpl; congruence|].
        split; [reflexivity|]. split; [reflexivity|]. simpl length. lia.
    + exists w1, 4%Z. split; [reflexivity|]. split.
      * intros H. destruct (Hs H). discriminate.
      * left. split; [reflexivity|]. split; [unfold same_core; auto|]. unfold failed. rewrite Ht. reflexivity.
  - apply N.leb_gt in Hle.
    eexists _, _. split; [reflexivity|]. split.
    + intros H. split; [unfold no_fault; destruct s; simpl; exact H|unfold failed; destruct s; reflexivity].
    + right. split; [reflexivity|]. rewrite getq_setq_same, getq_setq_other. cbn [q_pool q_num q_mem].
      split; [destruct s; reflexivity|]. split; [destruct s; reflexivity|].
      split; [destruct s; reflexivity|]. split; [reflexivity|].
      split; [reflexivity|]. split; [reflexivity|]. simpl length. lia.
Qed.

(* ------------------------------------------------------------------ a node is taken out *)
Lemma remove_master w X s w1 n h' l1 l2 :
  QInv w X -> sel s X = l1 ++ n :: l2 ->
  w_h w1 = w_h w -> w_val w1 = w_val w -> w_fresh w1 = w_fresh w ->
  getq w1 (negb s) = getq w (negb s) -> q_pool (getq w1 s) = n :: q_pool (getq w s) ->
  q_num (getq w1 s) = q_num (getq w s) - 1 ->
  N.of_nat (length (n :: q_pool (getq w s))) <= q_mem (getq w1 s) ->
  Ring h' (qaddr s :: l1 ++ l2) -> Frame (w_h w) h' (qaddr s :: sel s X) -> (forall x, live h' x <-> live (w_h w) x) ->
  QInv (seth w1 h') (upd s (l1 ++ l2) X) /\
  abs (seth w1 h') (upd s (l1 ++ l2) X) = upd s (pairs w l1 ++ pairs w l2) (abs w X).
Proof.
  intros I Hsel Hh Hv Hf Hqo Hpool Hnum Hmem R F Lv.
  set (w' := seth w1 h').
  assert (Hh' : w_h w' = h') by reflexivity.
  assert (Hv' : w_val w' = w_val w) by (unfold w'; simpl; exact Hv).
  assert (Hf' : w_fresh w' = w_fresh w) by (unfold w'; simpl; exact Hf).
  assert (Hq : forall t, getq w' t = getq w1 t) by (intros []; reflexivity).
  assert (Hperm : Permutation (allnodes w' (upd s (l1 ++ l2) X)) (allnodes w X)).
  { unfold allnodes, pools.
    assert (Ea : w_qa w' = w_qa w1) by reflexivity. assert (Eb : w_qb w' = w_qb w1) by reflexivity.
    rewrite Ea, Eb. destruct s; simpl in *; unfold getq in *; simpl in *; rewrite ?Hqo, ?Hpool, ?Hsel; perm_app. }
  split.
  - constructor; rewrite ?Hh', ?Hv', ?Hf'.
    + intros t. destruct (bool_cases s t) as [->| ->].
      * rewrite sel_upd_same. exact R.
      * rewrite sel_upd_other. eapply Ring_Frame; [apply (qi_ring _ _ I)|exact F|].
        intros x Hx Hin. revert Hx. replace s with (negb (negb s)) in Hin by apply negb_involutive.
        intros Hx. eapply QInv_rings_disj; eauto.
    + eapply Permutation_NoDup; [symmetry; exact Hperm|apply (qi_nodup _ _ I)].
    + intros x Hx. eapply Permutation_in in Hx; [|exact Hperm].
      pose proof (qi_node _ _ I x Hx) as (B & L & V). split; [exact B|]. split; [apply Lv; exact L|exact V].
    + intros t. rewrite Hq. destruct (bool_cases s t) as [->| ->].
      * rewrite sel_upd_same, Hnum, (qi_num _ _ I s), Hsel, !app_length. simpl. lia.
      * rewrite sel_upd_other, Hqo. apply (qi_num _ _ I).
    + intros t. rewrite Hq. destruct (bool_cases s t) as [->| ->].
      * rewrite Hpool. exact Hmem.
      * rewrite Hqo. apply (qi_mem _ _ I).
    + rewrite (Permutation_length Hperm). apply (qi_fresh _ _ I).
  - rewrite abs_upd, pairs_app.
    assert (Hval : forall x, val w' x = val w x) by (intros x; unfold val; rewrite Hv'; reflexivity).
    rewrite (pairs_ext w w' l1), (pairs_ext w w' l2) by (intros; apply Hval).
    assert (Habs : abs w' X = abs w X) by (unfold abs; f_equal; apply pairs_ext; intros; apply Hval).
    rewrite Habs. reflexivity.
Qed.

(* a_que_die_ then a_list_del_node then a_list_dtor, on the node at position |l1| *)
Lemma take_ok w X s l1 n l2 :
  QInv w X -> sel s X = l1 ++ n :: l2 ->
  exists w' r, q_take w s n = Ok (w', r) /\ trace_ok w w' /\
    ((r = 0 /\ QInv w' X /\ abs w' X = abs w X /\ failed w' = true) \/
     (r = n /\ QInv w' (upd s (l1 ++ l2) X) /\
      abs w' (upd s (l1 ++ l2) X) = upd s (pairs w l1 ++ pairs w l2) (abs w X))).
Proof.
  intros I Hsel. unfold q_take.
  assert (Hin : In n (sel s X)) by (rewrite Hsel; apply in_or_app; right; left; reflexivity).
  destruct (die_spec w X s n I Hin) as (w1 & rc & E & T & [(Hrc & Hc & Hf)|(Hrc & Hh & Hv & Hf & Hqo & Hp & Hnum & Hmem)]);
    rewrite E; subst rc; cbn [Z.eqb].
  - exists w1, 0. split; [reflexivity|]. split; [exact T|]. left.
    split; [reflexivity|]. split; [eapply same_core_QInv; eauto|]. split; [apply same_core_abs; auto|exact Hf].
  - pose proof (qi_ring _ _ I s) as R. rewrite Hsel in R.
    destruct (del_node_spec (w_h w) (qaddr s :: l1) n l2 R) as (h1 & E1 & R1 & D1 & F1 & L1); [discriminate|].
    rewrite Hh, E1. cbn [lift].
    assert (Ln : live h1 n) by (apply L1; eapply Ring_live; eauto; right; apply in_or_app; right; left; reflexivity).
    destruct (init_ring h1 n Ln) as (h2 & E2 & R2 & F2 & L2). rewrite E2. cbn [lift].
    exists (seth w1 h2), n. split; [reflexivity|]. split.
    + intros H. destruct (T H) as [H1 H2]. split; [exact H1|exact H2].
    + right. split; [reflexivity|].
      assert (Hnn : ~ In n ((qaddr s :: l1) ++ l2)).
      { apply Ring_NoDup in R. change (qaddr s :: l1 ++ n :: l2) with ((qaddr s :: l1) ++ n :: l2) in R.
        apply NoDup_remove_2 in R. exact R. }
      apply (remove_master w X s w1 n h2 l1 l2); auto.
      * eapply Ring_Frame; [exact R1|exact F2|]. intros x Hx [<-|[]]. exact (Hnn Hx).
      * eapply Frame_incl; [eapply Frame_trans; eauto|]. rewrite Hsel.
        intros x Hx. apply in_app_or in Hx. destruct Hx as [Hx|[<-|[]]].
        -- change (qaddr s :: l1 ++ n :: l2) with ((qaddr s :: l1) ++ n :: l2).
           apply in_app_or in Hx. apply in_or_app. simpl. tauto.
        -- right. apply in_or_app. right. left. reflexivity.
      * intros x. rewrite L2. apply L1.
Qed.

(* ------------------------------------------------------------------ pull_fore / pull_back *)
Lemma QInv_head_notin w X s : QInv w X -> ~ In (qaddr s) (sel s X).
Proof. intros I H. eapply QInv_sentinel_notin; eauto. eapply allnodes_sel; eauto. Qed.

Lemma pull_ok fore w X s :
  QInv w X ->
  exists w' r, q_pull fore w s = Ok (w', r) /\ trace_ok w w' /\
    match (if fore then sel s X else rev (sel s X)) with
    | [] => r = 0 /\ w' = w
    | n :: t =>
        (r = 0 /\ QInv w' X /\ abs w' X = abs w X /\ failed w' = true) \/
        (r = n /\ let X' := upd s (if fore then t else rev t) X in
         QInv w' X' /\ abs w' X' = upd s (pairs w (if fore then t else rev t)) (abs w X))
    end.
Proof.
  intros I. unfold q_pull. pose proof (qi_ring _ _ I s) as R.
  destruct fore.
  - rewrite (Ring_next _ [] (qaddr s) (sel s X) R). cbn [lift hd].
    destruct (sel s X) as [|n t] eqn:Hsel.
    + cbn [hd]. rewrite N.eqb_refl. exists w, 0. split; [reflexivity|]. split; [apply trace_ok_refl|auto].
    + cbn [hd]. replace (N.eqb n (qaddr s)) with false.
      2:{ symmetry. apply N.eqb_neq. intros ->. apply (QInv_head_notin w X s I). rewrite Hsel. left. reflexivity. }
      destruct (take_ok w X s [] n t I Hsel) as (w' & r & E & T & C). exists w', r.
      split; [exact E|]. split; [exact T|]. exact C.
  - rewrite (Ring_prev _ [] (qaddr s) (sel s X) R). cbn [lift last].
    destruct (snoc_cases (sel s X)) as [Hsel|(m & n & Hsel)]; rewrite Hsel.
    + cbn [last rev]. rewrite N.eqb_refl. exists w, 0. split; [reflexivity|]. split; [apply trace_ok_refl|auto].
    + rewrite last_last, rev_app_distr. cbn [rev app].
      replace (N.eqb n (qaddr s)) with false.
      2:{ symmetry. apply N.eqb_neq. intros ->. apply (QInv_head_notin w X s I). rewrite Hsel.
          apply in_or_app. right. left. reflexivity. }
      destruct (take_ok w X s m n [] I Hsel) as (w' & r & E & T & C). exists w', r.
      split; [exact E|]. split; [exact T|]. rewrite rev_involutive.
      rewrite !app_nil_r in C. unfold pairs at 2 in C. cbn [map] in C. rewrite app_nil_r in C. exact C.
Qed.

(* ------------------------------------------------------------------ walking to a position *)
Lemma seek_fwd_spec h c pre l k fuel :
  Ring h (c :: pre ++ l) -> (length l < fuel)%nat ->
  seek true h c (hd c l) k fuel = Ok (nth (N.to_nat k) l 0).
Proof.
  revert pre k fuel. induction l as [|a l IH]; intros pre k fuel R Hf.
  - destruct fuel; [lia|]. simpl. rewrite N.eqb_refl. destruct (N.to_nat k); reflexivity.
  - destruct fuel; [simpl in Hf; lia|]. cbn [seek hd].
    assert (Hac : a <> c).
    { apply Ring_NoDup in R. inversion R; subst. intros ->. apply H1. apply in_or_app. right. left. reflexivity. }
    replace (N.eqb a c) with false by (symmetry; apply N.eqb_neq; exact Hac).
    destruct (N.eqb k 0) eqn:Hk.
    + apply N.eqb_eq in Hk. subst k. reflexivity.
    + apply N.eqb_neq in Hk.
      change (c :: pre ++ a :: l) with ((c :: pre) ++ a :: l) in R.
      rewrite (Ring_next h (c :: pre) a l R). cbn [lift hd].
      replace (N.to_nat k) with (S (N.to_nat (k - 1))) by lia. cbn [nth].
      apply (IH (pre ++ [a])).
      * rewrite <- app_assoc. exact R.
      * simpl in Hf. lia.
Qed.

Lemma seek_bwd_spec h c l post k fuel :
  Ring h (c :: l ++ post) -> (length l < fuel)%nat ->
  seek false h c (last l c) k fuel = Ok (nth (N.to_nat k) (rev l) 0).
Proof.
  revert post k fuel. induction l as [|a l IH] using rev_ind; intros post k fuel R Hf.
  - destruct fuel; [lia|]. simpl. rewrite N.eqb_refl. destruct (N.to_nat k); reflexivity.
  - rewrite app_length in Hf. simpl in Hf. destruct fuel; [lia|]. rewrite last_last, rev_app_distr. cbn [seek rev app].
    assert (Hac : a <> c).
    { apply Ring_NoDup in R. inversion R; subst. intros ->. apply H1. apply in_or_app. left. apply in_or_app.
      right. left. reflexivity. }
    replace (N.eqb a c) with false by (symmetry; apply N.eqb_neq; exact Hac).
    destruct (N.eqb k 0) eqn:Hk.
    + apply N.eqb_eq in Hk. subst k. reflexivity.
    + apply N.eqb_neq in Hk.
      rewrite <- app_assoc in R. cbn [app] in R.
      change (c :: l ++ a :: post) with ((c :: l) ++ a :: post) in R.
      rewrite (Ring_prev h (c :: l) a post R). cbn [lift].
      replace (N.to_nat k) with (S (N.to_nat (k - 1))) by lia. cbn [nth].
      rewrite last_cons_default.
      apply (IH (a :: post)).
      * exact R.
      * lia.
Qed.

Lemma QInv_fuel w X s : QInv w X -> (length (sel s X) < fuel_of w)%nat.
Proof.
  intros I. pose proof (qi_fresh _ _ I) as F. unfold fuel_of.
  assert (length (sel s X) <= length (allnodes w X))%nat.
  { unfold allnodes. rewrite !app_length. destruct s; simpl; lia. }
  lia.
Qed.

(* ------------------------------------------------------------------ at / fore / back *)
Lemma at_ok w X s idx : QInv w X -> q_at w s idx = Ok (at_spec (sel s (abs w X)) idx).
Proof.
  intros I. unfold q_at, at_spec. rewrite sel_abs, map_fst_pairs.
  pose proof (qi_ring _ _ I s) as R. pose proof (QInv_fuel w X s I) as Hf.
  destruct (Z.leb 0 idx) eqn:Hi.
  - rewrite (Ring_next _ [] (qaddr s) (sel s X) R). cbn [lift hd].
    rewrite (seek_fwd_spec (w_h w) (qaddr s) [] (sel s X)); auto.
    rewrite Z_N_nat. reflexivity.
  - rewrite (Ring_prev _ [] (qaddr s) (sel s X) R). cbn [lift last].
    rewrite (seek_bwd_spec (w_h w) (qaddr s) (sel s X) []); auto.
    + rewrite Z_N_nat. reflexivity.
    + rewrite app_nil_r. exact R.
Qed.

Lemma fore_ok w X s : QInv w X -> q_fore w s = Ok (hd 0 (map fst (sel s (abs w X)))).
Proof.
  intros I. unfold q_fore. rewrite sel_abs, map_fst_pairs. pose proof (qi_ring _ _ I s) as R.
  rewrite (Ring_next _ [] (qaddr s) (sel s X) R). cbn [lift hd].
  destruct (sel s X) as [|n t] eqn:Hsel; cbn [hd].
  - rewrite N.eqb_refl. reflexivity.
  - replace (N.eqb n (qaddr s)) with false; [reflexivity|].
    symmetry. apply N.eqb_neq. intros ->. apply (QInv_head_notin w X s I). rewrite Hsel. left. reflexivity.
Qed.

Lemma back_ok w X s : QInv w X -> q_back w s = Ok (last (map fst (sel s (abs w X))) 0).
Proof.
  intros I. unfold q_back. rewrite sel_abs, map_fst_pairs. pose proof (qi_ring _ _ I s) as R.
  rewrite (Ring_prev _ [] (qaddr s) (sel s X) R). cbn [lift last].
  destruct (snoc_cases (sel s X)) as [Hsel|(m & n & Hsel)]; rewrite Hsel.
  - cbn [last]. rewrite N.eqb_refl. reflexivity.
  - rewrite !last_last. replace (N.eqb n (qaddr s)) with false; [reflexivity|].
    symmetry. apply N.eqb_neq. intros ->. apply (QInv_head_notin w X s I). rewrite Hsel.
    apply in_or_app. right. left. reflexivity.
Qed.
