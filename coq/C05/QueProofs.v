(* C05 - the queue of src/que.c refines a double-ended sequence (see QueSpec.v). *)
From Coq Require Import NArith ZArith List Bool FMapPositive Lia Permutation.
From LibaV Require Import C05.DListDefs C05.DListProofs C05.QueDefs C05.QueSpec.
Import ListNotations.
Local Open Scope N_scope.

(* ------------------------------------------------------------------ sel / upd *)
Lemma sel_upd_same {A} s (v : A) p : sel s (upd s v p) = v.
Proof. destruct s; reflexivity. Qed.
Lemma sel_upd_other {A} s (v : A) p : sel (negb s) (upd s v p) = sel (negb s) p.
Proof. destruct s; reflexivity. Qed.
Lemma upd_sel {A} s (p : A * A) : upd s (sel s p) p = p.
Proof. destruct s, p; reflexivity. Qed.
Lemma getq_setq_same w s q : getq (setq w s q) s = q.
Proof. destruct s; reflexivity. Qed.
Lemma getq_setq_other w s q : getq (setq w s q) (negb s) = getq w (negb s).
Proof. destruct s; reflexivity. Qed.
Lemma qaddr_neq s : qaddr s <> qaddr (negb s).
Proof. destruct s; discriminate. Qed.

Lemma bool_cases (s t : bool) : t = s \/ t = negb s.
Proof. destruct s, t; auto. Qed.

(* ------------------------------------------------------------------ permutations of app/cons lists *)
Ltac perm_app :=
  cbn [app]; rewrite <- ?app_assoc; cbn [app];
  repeat rewrite <- Permutation_middle;
  try reflexivity; try (apply perm_skip; reflexivity).

Ltac pieces l :=
  lazymatch l with
  | ?a ++ ?b => let pa := pieces a in let pb := pieces b in constr:(pa ++ pb)
  | @nil ?T => constr:(@nil (list T))
  | ?x :: ?t => let pt := pieces t in constr:([x] :: pt)
  | ?v => constr:([v])
  end.

(* permutations of lists built from the same blocks with ++ *)
Ltac perm_blocks :=
  lazymatch goal with
  | |- Permutation ?L ?R =>
      let pl := pieces L in let pr := pieces R in
      let pl' := eval cbn [app] in pl in
      let pr' := eval cbn [app] in pr in
      replace L with (concat pl') by (cbn [concat app]; rewrite ?app_nil_r, <- ?app_assoc; reflexivity);
      replace R with (concat pr') by (cbn [concat app]; rewrite ?app_nil_r, <- ?app_assoc; reflexivity);
      apply Permutation_concat; perm_tac
  end.

(* ------------------------------------------------------------------ facts from the invariant *)
Lemma allnodes_sel w X s x : In x (sel s X) -> In x (allnodes w X).
Proof.
  unfold allnodes. destruct s; simpl; intros H; apply in_or_app; [right; apply in_or_app|]; auto.
Qed.

Lemma allnodes_pool w X s x : In x (q_pool (getq w s)) -> In x (allnodes w X).
Proof.
  unfold allnodes, pools. destruct s; simpl; intros H; apply in_or_app; right; apply in_or_app; right;
    apply in_or_app; auto.
Qed.

Lemma QInv_node_ge3 w X x : QInv w X -> In x (allnodes w X) -> 3 <= x.
Proof. intros I H. apply (qi_node _ _ I x H). Qed.

Lemma QInv_sentinel_notin w X s : QInv w X -> ~ In (qaddr s) (allnodes w X).
Proof. intros I H. apply (QInv_node_ge3 _ _ _ I) in H. destruct s; simpl in H; lia. Qed.

(* the two rings are disjoint *)
Lemma QInv_rings_disj w X s x : QInv w X -> In x (qaddr s :: sel s X) -> ~ In x (qaddr (negb s) :: sel (negb s) X).
Proof.
  intros I [<-|H] [E|H'].
  - destruct s; discriminate.
  - eapply QInv_sentinel_notin; eauto. eapply allnodes_sel; eauto.
  - subst. eapply QInv_sentinel_notin; eauto. eapply allnodes_sel; eauto.
  - pose proof (qi_nodup _ _ I) as N. unfold allnodes in N. rewrite app_assoc in N. apply NoDup_app_l in N.
    destruct s; simpl in *; eapply NoDup_app_disj; eauto.
Qed.

Lemma QInv_rings_disj' w X s x : QInv w X -> In x (qaddr (negb s) :: sel (negb s) X) -> ~ In x (qaddr s :: sel s X).
Proof. intros I H H'. exact (QInv_rings_disj w X s x I H' H). Qed.

Lemma QInv_live_sentinel w X s : QInv w X -> live (w_h w) (qaddr s).
Proof. intros I. eapply Ring_live; [apply (qi_ring _ _ I s)|left; reflexivity]. Qed.

(* ------------------------------------------------------------------ values *)
Lemma vget_vset_same m a v : a <> 0 -> vget (vset m a v) a = Some v.
Proof. destruct a; [congruence|]. intros _. apply PositiveMap.gss. Qed.
Lemma vget_vset_other m a b v : a <> b -> vget (vset m a v) b = vget m b.
Proof. destruct a, b; simpl; intros; try reflexivity; try congruence. apply PositiveMap.gso. congruence. Qed.

Lemma pairs_ext w w' l : (forall x, In x l -> val w' x = val w x) -> pairs w' l = pairs w l.
Proof. intros H. unfold pairs. apply map_ext_in. intros x Hx. rewrite H; auto. Qed.

Lemma pairs_app w l1 l2 : pairs w (l1 ++ l2) = pairs w l1 ++ pairs w l2.
Proof. apply map_app. Qed.

Lemma map_fst_pairs w l : map fst (pairs w l) = l.
Proof. unfold pairs. rewrite map_map. simpl. apply map_id. Qed.

Lemma addrs_abs w X : addrs (abs w X) = fst X ++ snd X.
Proof. unfold addrs, abs. simpl. rewrite !map_fst_pairs. reflexivity. Qed.

(* ------------------------------------------------------------------ the allocator *)
Lemma ask_spec w mk : 
  let '(w1, ok) := ask w mk in
  w_h w1 = w_h w /\ w_val w1 = w_val w /\ w_fresh w1 = w_fresh w /\ w_qa w1 = w_qa w /\ w_qb w1 = w_qb w /\
  w_trace w1 = mk ok :: w_trace w /\ (w_sched w = [] -> ok = true /\ w_sched w1 = []).
Proof.
  unfold ask. destruct (w_sched w) as [|b r]; simpl; repeat split; auto; discriminate.
Qed.

(* everything but the schedule and the trace is the same *)
Definition same_core (w w1 : qworld) : Prop :=
  w_h w1 = w_h w /\ w_val w1 = w_val w /\ w_fresh w1 = w_fresh w /\ w_qa w1 = w_qa w /\ w_qb w1 = w_qb w.

Lemma same_core_QInv w w1 X : same_core w w1 -> QInv w X -> QInv w1 X.
Proof.
  intros (Hh & Hv & Hf & Ha & Hb) I.
  assert (Hq : forall s, getq w1 s = getq w s) by (intros []; unfold getq; congruence).
  assert (Hall : allnodes w1 X = allnodes w X) by (unfold allnodes, pools; congruence).
  destruct I. constructor; rewrite ?Hall, ?Hh, ?Hv, ?Hf; auto; intros s; rewrite Hq; auto.
Qed.

Lemma same_core_abs w w1 X : same_core w w1 -> abs w1 X = abs w X.
Proof.
  intros (Hh & Hv & Hf & Ha & Hb). unfold abs. f_equal; apply pairs_ext; intros x _; unfold val; rewrite Hv; reflexivity.
Qed.

(* the schedule [] never refuses *)
Definition no_fault (w : qworld) : Prop := w_sched w = [].

(* ------------------------------------------------------------------ a_que_new_ *)
Record QMidNew (w1 : qworld) (X : list id * list id) (s : bool) (n : id) : Prop := {
  mn_ring : forall t, Ring (w_h w1) (qaddr t :: sel t X);
  mn_nodup : NoDup (n :: allnodes w1 X);
  mn_node : forall x, In x (n :: allnodes w1 X) ->
              3 <= x < w_fresh w1 /\ live (w_h w1) x /\ vget (w_val w1) x <> None;
  mn_num_s : q_num (getq w1 s) = N.of_nat (length (sel s X)) + 1;
  mn_num_o : q_num (getq w1 (negb s)) = N.of_nat (length (sel (negb s) X));
  mn_mem : forall t, N.of_nat (length (q_pool (getq w1 t))) <= q_mem (getq w1 t);
  mn_fresh : N.of_nat (length (n :: allnodes w1 X)) + 3 <= w_fresh w1 }.

Lemma getq_sel w s : getq w s = sel s (w_qa w, w_qb w).
Proof. destruct s; reflexivity. Qed.

Lemma pools_setq w s q : pools (setq w s q) = sel s (q_pool q ++ q_pool (w_qb w), q_pool (w_qa w) ++ q_pool q).
Proof. destruct s; reflexivity. Qed.

Lemma new_spec w X s :
  QInv w X ->
  exists w1 n, q_new_ w s = Ok (w1, n) /\
    ((n = 0 /\ same_core w w1 /\ failed w1 = true /\ w_sched w <> []) \/
     (n <> 0 /\ QMidNew w1 X s n /\ (forall x, x <> n -> val w1 x = val w x) /\
      (failed w1 = failed w) /\ (no_fault w -> no_fault w1))).
Proof.
  intros I. unfold q_new_.
  destruct (q_pool (getq w s)) as [|n rest] eqn:Hp.
  - (* nothing to recycle: ask the allocator *)
    pose proof (ask_spec w (RNode (16 + q_siz (getq w s)))) as A.
    destruct (ask w (RNode (16 + q_siz (getq w s)))) as [w1 ok].
    destruct A as (Hh & Hv & Hf & Ha & Hb & Ht & Hs).
    destruct ok.
    + match goal with |- context [Ok (?W, _)] => set (w2 := W) end.
      set (n := w_fresh w1) in *.
      assert (Hn3 : 3 <= n) by (rewrite Hf; pose proof (qi_fresh _ _ I); lia).
      assert (Hnz : n <> 0) by lia.
      assert (H2h : w_h w2 = dset (w_h w) n (mkD 0 0)) by (unfold w2; destruct s; simpl; rewrite Hh; reflexivity).
      assert (H2v : w_val w2 = vset (w_val w) n 0%Z) by (unfold w2; destruct s; simpl; rewrite Hv; reflexivity).
      assert (H2f : w_fresh w2 = n + 1) by (unfold w2; destruct s; reflexivity).
      assert (H2t : w_trace w2 = w_trace w1) by (unfold w2; destruct s; reflexivity).
      assert (H2s : w_sched w2 = w_sched w1) by (unfold w2; destruct s; reflexivity).
      assert (H2q : getq w2 s = mkQ [] (q_siz (getq w s)) (q_num (getq w s) + 1) (q_mem (getq w s)))
        by (unfold w2; apply getq_setq_same).
      assert (H2o : getq w2 (negb s) = getq w (negb s)).
      { unfold w2. rewrite getq_setq_other. destruct s; simpl; unfold getq; simpl; congruence. }
      assert (H2p : pools w2 = pools w).
      { unfold w2. rewrite pools_setq. unfold pools. destruct s; simpl in *; unfold getq in Hp; simpl in Hp;
          rewrite ?Ha, ?Hb, ?Hp; reflexivity. }
      clearbody w2.
      assert (Hall : allnodes w2 X = allnodes w X) by (unfold allnodes; rewrite H2p; reflexivity).
      assert (Hnew : forall x, In x (allnodes w X) -> x <> n).
      { intros x Hx. pose proof (qi_node _ _ I x Hx) as (B & _). rewrite Hf. lia. }
      exists w2, n. split; [reflexivity|]. right.
      split; [exact Hnz|]. split; [|split; [|split]].
      * constructor; rewrite ?Hall, ?H2h, ?H2v, ?H2f.
        -- intros t. eapply (Ring_Frame _ _ [n]); [apply (qi_ring _ _ I t)| |].
           ++ intros x Hx. apply dget_dset_other. intros E. apply Hx. left. exact E.
           ++ intros x Hx [E|[]]. subst x. destruct Hx as [E|Hx].
              ** destruct t; simpl in E; lia.
              ** apply (Hnew n); auto. eapply allnodes_sel; eauto.
        -- constructor; [|apply (qi_nodup _ _ I)]. intros H. apply (Hnew n H). reflexivity.
        -- intros x [<-|Hx].
           ++ split; [lia|]. split.
              ** exists (mkD 0 0). apply dget_dset_same. exact Hnz.
              ** rewrite vget_vset_same by exact Hnz. discriminate.
           ++ pose proof (qi_node _ _ I x Hx) as (B & L & V). pose proof (Hnew x Hx) as Hne.
              split; [lia|]. split.
              ** destruct L as [d Hd]. exists d. rewrite dget_dset_other by congruence. exact Hd.
              ** rewrite vget_vset_other by congruence. exact V.
        -- rewrite H2q. simpl. rewrite (qi_num _ _ I s). reflexivity.
        -- rewrite H2o. apply (qi_num _ _ I).
        -- intros t. destruct (bool_cases s t) as [->| ->].
           ++ rewrite H2q. simpl. lia.
           ++ rewrite H2o. apply (qi_mem _ _ I).
        -- pose proof (qi_fresh _ _ I). rewrite Hf. simpl length. lia.
      * intros x Hx. unfold val. rewrite H2v, vget_vset_other by congruence. reflexivity.
      * unfold failed. rewrite H2t, Ht. reflexivity.
      * unfold no_fault. intros Hs0. rewrite H2s. apply (Hs Hs0).
    + exists w1, 0. split; [reflexivity|]. left. split; [reflexivity|]. split; [|split].
      * unfold same_core. auto.
      * unfold failed. rewrite Ht. reflexivity.
      * intros Hs0. destruct (Hs Hs0). discriminate.
  - (* recycle the top of the pool *)
    pose proof (qi_mem _ _ I s) as M. rewrite Hp in M.
    replace (N.ltb (q_mem (getq w s)) (N.of_nat (length (n :: rest)))) with false
      by (symmetry; apply N.ltb_ge; exact M).
    eexists _, _. split; [reflexivity|]. right.
    assert (Hn : In n (allnodes w X)) by (eapply allnodes_pool; rewrite Hp; left; reflexivity).
    pose proof (qi_node _ _ I n Hn) as (Bn & Ln & Vn).
    assert (Hnz : n <> 0) by lia.
    set (w1 := setq w s (mkQ rest (q_siz (getq w s)) (q_num (getq w s) + 1) (q_mem (getq w s)))).
    assert (Hh : w_h w1 = w_h w) by (destruct s; reflexivity).
    assert (Hv : w_val w1 = w_val w) by (destruct s; reflexivity).
    assert (Hf : w_fresh w1 = w_fresh w) by (destruct s; reflexivity).
    assert (Hperm : Permutation (n :: allnodes w1 X) (allnodes w X)).
    { unfold allnodes. unfold w1. rewrite pools_setq. unfold pools.
      destruct s; simpl in *; unfold getq in Hp; simpl in Hp; rewrite Hp; perm_app. }
    split; [exact Hnz|]. split; [|split; [|split]].
    + constructor; rewrite ?Hh, ?Hv, ?Hf.
      * apply (qi_ring _ _ I).
      * eapply Permutation_NoDup; [symmetry; exact Hperm|apply (qi_nodup _ _ I)].
      * intros x Hx. apply (qi_node _ _ I). eapply Permutation_in; eauto.
      * unfold w1. rewrite getq_setq_same. simpl. rewrite (qi_num _ _ I s). reflexivity.
      * unfold w1. rewrite getq_setq_other. apply (qi_num _ _ I).
      * intros t. destruct (bool_cases s t) as [->| ->]; unfold w1.
        -- rewrite getq_setq_same. simpl. simpl in M. lia.
        -- rewrite getq_setq_other. apply (qi_mem _ _ I).
      * rewrite (Permutation_length Hperm). apply (qi_fresh _ _ I).
    + intros x _. unfold val. rewrite Hv. reflexivity.
    + unfold failed, w1. destruct s; reflexivity.
    + unfold no_fault, w1. destruct s; simpl; auto.
Qed.

(* ------------------------------------------------------------------ shared bookkeeping *)
Lemma rings_disj_gen (all : list id) (X : list id * list id) s x :
  (forall y, In y (fst X ++ snd X) -> 3 <= y) -> NoDup (fst X ++ snd X) ->
  In x (qaddr s :: sel s X) -> ~ In x (qaddr (negb s) :: sel (negb s) X).
Proof.
  intros B N [<-|H] [E|H'].
  - destruct s; discriminate.
  - assert (3 <= qaddr s) by (apply B; destruct s; simpl in *; apply in_or_app; auto). destruct s; simpl in *; lia.
  - subst. assert (3 <= qaddr (negb s)) by (apply B; destruct s; simpl in *; apply in_or_app; auto).
    destruct s; simpl in *; lia.
  - destruct s; simpl in *; eapply NoDup_app_disj; eauto.
Qed.

Lemma sel_abs w X s : sel s (abs w X) = pairs w (sel s X).
Proof. destruct s; reflexivity. Qed.
Lemma abs_upd w X s l : abs w (upd s l X) = upd s (pairs w l) (abs w X).
Proof. destruct s; reflexivity. Qed.

Lemma allnodes_upd_perm w X s l l' :
  Permutation l' l -> Permutation (allnodes w (upd s l' X)) (allnodes w (upd s l X)).
Proof.
  intros P. unfold allnodes. destruct s; simpl.
  - apply Permutation_app_head. apply Permutation_app_tail. exact P.
  - apply Permutation_app_tail. exact P.
Qed.

Lemma allnodes_upd_cons w X s n :
  Permutation (allnodes w (upd s (n :: sel s X) X)) (n :: allnodes w X).
Proof. unfold allnodes. destruct s, X as [xa xb]; simpl; perm_app. Qed.

Lemma in_allnodes_split w X x : In x (allnodes w X) <-> In x (fst X ++ snd X) \/ In x (pools w).
Proof. unfold allnodes. rewrite app_assoc, in_app_iff. reflexivity. Qed.

(* ------------------------------------------------------------------ a new node is linked in *)
Lemma insert_master w X s w1 n h' l1 l2 v :
  QMidNew w1 X s n -> (forall x, x <> n -> val w1 x = val w x) ->
  sel s X = l1 ++ l2 -> Ring h' (qaddr s :: l1 ++ n :: l2) ->
  Frame (w_h w1) h' (n :: qaddr s :: sel s X) -> (forall x, live h' x <-> live (w_h w1) x) ->
  QInv (setv (seth w1 h') n v) (upd s (l1 ++ n :: l2) X) /\
  abs (setv (seth w1 h') n v) (upd s (l1 ++ n :: l2) X) = upd s (pairs w l1 ++ (n, v) :: pairs w l2) (abs w X) /\
  ~ In n (addrs (abs w X)).
Proof.
  intros M Hval Hsel R F Lv.
  set (w' := setv (seth w1 h') n v).
  assert (Hh : w_h w' = h') by reflexivity.
  assert (Hv : w_val w' = vset (w_val w1) n v) by reflexivity.
  assert (Hf : w_fresh w' = w_fresh w1) by reflexivity.
  assert (Hq : forall t, getq w' t = getq w1 t) by (intros []; reflexivity).
  assert (Hp : pools w' = pools w1) by reflexivity.
  pose proof (mn_nodup _ _ _ _ M) as ND. destruct (proj1 (NoDup_cons_iff _ _) ND) as [Hnotin ND'].
  assert (Hn : 3 <= n < w_fresh w1 /\ live (w_h w1) n /\ vget (w_val w1) n <> None)
    by (apply (mn_node _ _ _ _ M); left; reflexivity).
  assert (Hnz : n <> 0) by lia.
  assert (HnX : ~ In n (fst X ++ snd X)).
  { intros H. apply Hnotin. apply in_allnodes_split. auto. }
  assert (Hperm : Permutation (allnodes w' (upd s (l1 ++ n :: l2) X)) (n :: allnodes w1 X)).
  { eapply perm_trans; [|apply (allnodes_upd_cons w1 X s n)].
    unfold allnodes. rewrite Hp. change (pools w1) with (pools w1).
    apply (allnodes_upd_perm w1 X s (n :: sel s X) (l1 ++ n :: l2)).
    rewrite Hsel. symmetry. apply Permutation_middle. }
  split; [|split].
  - constructor; rewrite ?Hh, ?Hv, ?Hf.
    + intros t. destruct (bool_cases s t) as [->| ->].
      * rewrite sel_upd_same. exact R.
      * rewrite sel_upd_other. eapply Ring_Frame; [apply (mn_ring _ _ _ _ M)|exact F|].
        intros x Hx [E|Hin].
        -- subst x. destruct Hx as [E|Hx]; [destruct s; simpl in E; lia|].
           apply HnX. destruct s; simpl in *; apply in_or_app; auto.
        -- revert Hin. change (~ In x (qaddr s :: sel s X)).
           replace s with (negb (negb s)) by apply negb_involutive.
           apply (rings_disj_gen (allnodes w1 X)); auto.
           ++ intros y Hy. apply (mn_node _ _ _ _ M). right. apply in_allnodes_split. auto.
           ++ unfold allnodes in ND'. rewrite app_assoc in ND'. eapply NoDup_app_l; eauto.
    + eapply Permutation_NoDup; [symmetry; exact Hperm|exact ND].
    + intros x Hx. eapply Permutation_in in Hx; [|exact Hperm].
      pose proof (mn_node _ _ _ _ M x Hx) as (B & L & V). split; [exact B|]. split; [apply Lv; exact L|].
      destruct (N.eq_dec x n) as [->|Hne].
      * rewrite vget_vset_same by exact Hnz. discriminate.
      * rewrite vget_vset_other by congruence. exact V.
    + intros t. rewrite Hq. destruct (bool_cases s t) as [->| ->].
      * rewrite sel_upd_same, (mn_num_s _ _ _ _ M), Hsel, !app_length. simpl. lia.
      * rewrite sel_upd_other. apply (mn_num_o _ _ _ _ M).
    + intros t. rewrite Hq. apply (mn_mem _ _ _ _ M).
    + rewrite (Permutation_length Hperm). apply (mn_fresh _ _ _ _ M).
  - rewrite abs_upd. 
    assert (Hvn : val w' n = v) by (unfold val; rewrite Hv, vget_vset_same by exact Hnz; reflexivity).
    assert (Hvo : forall x, x <> n -> val w' x = val w x).
    { intros x Hx. rewrite <- Hval by exact Hx. unfold val. rewrite Hv, vget_vset_other by congruence. reflexivity. }
    assert (Hl : ~ In n (l1 ++ l2)).
    { rewrite <- Hsel. intros H. apply HnX. destruct s; simpl in *; apply in_or_app; auto. }
    assert (Habs : abs w' X = abs w X).
    { unfold abs. f_equal; apply pairs_ext; intros x Hx; apply Hvo; intros ->; apply HnX; apply in_or_app; auto. }
    rewrite pairs_app. simpl. rewrite Hvn.
    rewrite (pairs_ext w w' l1), (pairs_ext w w' l2).
    + unfold abs at 1. unfold abs in Habs. destruct s; simpl; inversion Habs as [[Ha Hb]]; rewrite ?Ha, ?Hb; reflexivity.
    + intros x Hx. apply Hvo. intros ->. apply Hl. apply in_or_app. auto.
    + intros x Hx. apply Hvo. intros ->. apply Hl. apply in_or_app. auto.
  - rewrite addrs_abs. exact HnX.
Qed.

Definition trace_ok (w w' : qworld) : Prop := no_fault w -> no_fault w' /\ failed w' = failed w.

Lemma trace_ok_refl w : trace_ok w w.
Proof. intros H. auto. Qed.

Lemma trace_ok_trans w w1 w2 : trace_ok w w1 -> trace_ok w1 w2 -> trace_ok w w2.
Proof. intros A B H. destruct (A H) as [H1 E1]. destruct (B H1) as [H2 E2]. split; congruence. Qed.

Lemma QMidNew_notin w1 X s n : QMidNew w1 X s n -> ~ In n (qaddr s :: sel s X).
Proof.
  intros M [E|H].
  - assert (3 <= n) by (apply (mn_node _ _ _ _ M); left; reflexivity). destruct s; simpl in E; lia.
  - pose proof (mn_nodup _ _ _ _ M) as ND. apply NoDup_cons_iff in ND. apply (proj1 ND).
    eapply allnodes_sel; eauto.
Qed.

(* ------------------------------------------------------------------ push_fore / push_back *)
Lemma push_ok fore w X s v :
  QInv w X ->
  exists w' n, q_push fore w s v = Ok (w', n) /\ trace_ok w w' /\
    ((n = 0 /\ QInv w' X /\ abs w' X = abs w X /\ failed w' = true) \/
     (n <> 0 /\ ~ In n (addrs (abs w X)) /\
      let X' := upd s (if fore then n :: sel s X else sel s X ++ [n]) X in
      QInv w' X' /\
      abs w' X' = upd s (if fore then (n, v) :: sel s (abs w X) else sel s (abs w X) ++ [(n, v)]) (abs w X))).
Proof.
  intros I. unfold q_push.
  destruct (new_spec w X s I) as (w1 & n & E & [(Hn & Hc & Hf & Hs)|(Hn & M & Hval & Hf & Hs)]); rewrite E.
  - subst n. cbn [N.eqb]. exists w1, 0. split; [reflexivity|]. split; [intros H; contradiction|].
    left. split; [reflexivity|]. split; [eapply same_core_QInv; eauto|]. split; [apply same_core_abs; auto|auto].
  - replace (N.eqb n 0) with false by (symmetry; apply N.eqb_neq; exact Hn).
    pose proof (QMidNew_notin _ _ _ _ M) as Hnot.
    assert (Ln : live (w_h w1) n) by (apply (mn_node _ _ _ _ M); left; reflexivity).
    destruct fore.
    + destruct (add_next_spec (w_h w1) (qaddr s) (sel s X) n (mn_ring _ _ _ _ M s) Ln Hnot)
        as (h' & Eh & R' & F & Lv).
      rewrite Eh. cbn [lift]. eexists _, n. split; [reflexivity|].
      destruct (insert_master w X s w1 n h' [] (sel s X) v M Hval eq_refl R') as (I' & A' & Nn); auto.
      { eapply Frame_incl; eauto. intros x [<-|[<-|[<-|[]]]]; simpl; auto.
        destruct (sel s X); simpl; auto. }
      split; [|right; split; [exact Hn|split; [exact Nn|split; [exact I'|]]]].
      * intros H. split; [apply Hs; exact H|exact Hf].
      * cbn [app] in A'. unfold pairs at 1 2 in A'. cbn [map app] in A'. rewrite sel_abs. exact A'.
    + destruct (add_prev_spec (w_h w1) (qaddr s) (sel s X) n (mn_ring _ _ _ _ M s) Ln Hnot)
        as (h' & Eh & R' & F & Lv).
      rewrite Eh. cbn [lift]. eexists _, n. split; [reflexivity|].
      destruct (insert_master w X s w1 n h' (sel s X) [] v M Hval (eq_sym (app_nil_r _)) R') as (I' & A' & Nn); auto.
      { eapply Frame_incl; eauto. intros x [<-|[<-|[<-|[]]]]; simpl; auto.
        destruct (snoc_cases (sel s X)) as [->|(m & z & ->)]; simpl; auto.
        rewrite last_last. right. right. apply in_or_app. right. left. reflexivity. }
      split; [|right; split; [exact Hn|split; [exact Nn|split; [exact I'|]]]].
      * intros H. split; [apply Hs; exact H|exact Hf].
      * cbn [app] in A'. unfold pairs at 1 2 in A'. cbn [map app] in A'. rewrite sel_abs. exact A'.
Qed.

(* ------------------------------------------------------------------ a_que_die_ *)
Lemma size_up8_ge n : n <= size_up8 n.
Proof.
  unfold size_up8. pose proof (N.div_mod (n + 7) 8 ltac:(lia)) as H.
  pose proof (N.mod_lt (n + 7) 8 ltac:(lia)). lia.
Qed.

Lemma die_spec w X s n :
  QInv w X -> In n (sel s X) ->
  exists w1 rc, q_die_ w s n = Ok (w1, rc) /\ trace_ok w w1 /\
    ((rc = 4%Z /\ same_core w w1 /\ failed w1 = true) \/
     (rc = 0%Z /\ w_h w1 = w_h w /\ w_val w1 = w_val w /\ w_fresh w1 = w_fresh w /\
      getq w1 (negb s) = getq w (negb s) /\ q_pool (getq w1 s) = n :: q_pool (getq w s) /\
      q_num (getq w1 s) = q_num (getq w s) - 1 /\
      N.of_nat (length (n :: q_pool (getq w s))) <= q_mem (getq w1 s))).
Proof.
  intros I Hin. unfold q_die_.
  assert (Hn3 : 3 <= n) by (eapply QInv_node_ge3; eauto; eapply allnodes_sel; eauto).
  replace (N.eqb n 0) with false by (symmetry; apply N.eqb_neq; lia).
  pose proof (qi_mem _ _ I s) as M.
  destruct (N.leb (q_mem (getq w s)) (N.of_nat (length (q_pool (getq w s))))) eqn:Hle.
  - apply N.leb_le in Hle.
    set (mem := size_up8 (q_mem (getq w s) + N.div2 (q_mem (getq w s)) + 1)).
    assert (Hmem : N.of_nat (length (q_pool (getq w s))) < mem).
    { pose proof (size_up8_ge (q_mem (getq w s) + N.div2 (q_mem (getq w s)) + 1)) as H. fold mem in H.
      clearbody mem. set (d := N.div2 (q_mem (getq w s))) in *. clearbody d. lia. }
    pose proof (ask_spec w (RPool (8 * mem))) as A.
    destruct (ask w (RPool (8 * mem))) as [w1 ok].
    destruct A as (Hh & Hv & Hf & Ha & Hb & Ht & Hs).
    destruct ok.
    + replace (N.ltb (N.of_nat (length (q_pool (getq w s)))) mem) with true by (symmetry; apply N.ltb_lt; exact Hmem).
      eexists _, _. split; [reflexivity|]. split.
      * intros H. destruct (Hs H) as [_ H1]. split.
        -- unfold no_fault. destruct s; simpl; exact H1.
        -- unfold failed. destruct s; simpl; rewrite Ht; reflexivity.
      * right. split; [reflexivity|]. rewrite getq_setq_same, getq_setq_other. cbn [q_pool q_num q_mem].
        split; [destruct s; simpl; congruence|]. split; [destruct s; simpl; congruence|].
        split; [destruct s; simpl; congruence|].
        split; [destruct s; simpl; unfold getq; simpl; congruence|].
        split; [reflexivity|]. split; [reflexivity|]. simpl length. lia.
    + exists w1, 4%Z. split; [reflexivity|]. split.
      * intros H. destruct (Hs H). discriminate.
      * left. split; [reflexivity|]. split; [unfold same_core; auto|]. unfold failed. rewrite Ht. reflexivity.
  - apply N.leb_gt in Hle.
    eexists _, _. split; [reflexivity|]. split.
    + intros H. split; [unfold no_fault; destruct s; simpl; exact H|unfold failed; destruct s; reflexivity].
    + right. split; [reflexivity|]. rewrite getq_setq_same, getq_setq_other. cbn [q_pool q_num q_mem].
      split; [destruct s; reflexivity|]. split; [destruct s; reflexivity|].
      split; [destruct s; reflexivity|]. split; [reflexivity|].
      split; [reflexivity|]. split; [reflexivity|]. simpl length. lia.
Qed.

(* ------------------------------------------------------------------ a node is taken out *)
Lemma remove_master w X s w1 n h' l1 l2 :
  QInv w X -> sel s X = l1 ++ n :: l2 ->
  w_h w1 = w_h w -> w_val w1 = w_val w -> w_fresh w1 = w_fresh w ->
  getq w1 (negb s) = getq w (negb s) -> q_pool (getq w1 s) = n :: q_pool (getq w s) ->
  q_num (getq w1 s) = q_num (getq w s) - 1 ->
  N.of_nat (length (n :: q_pool (getq w s))) <= q_mem (getq w1 s) ->
  Ring h' (qaddr s :: l1 ++ l2) -> Frame (w_h w) h' (qaddr s :: sel s X) -> (forall x, live h' x <-> live (w_h w) x) ->
  QInv (seth w1 h') (upd s (l1 ++ l2) X) /\
  abs (seth w1 h') (upd s (l1 ++ l2) X) = upd s (pairs w l1 ++ pairs w l2) (abs w X).
Proof.
  intros I Hsel Hh Hv Hf Hqo Hpool Hnum Hmem R F Lv.
  set (w' := seth w1 h').
  assert (Hh' : w_h w' = h') by reflexivity.
  assert (Hv' : w_val w' = w_val w) by (unfold w'; simpl; exact Hv).
  assert (Hf' : w_fresh w' = w_fresh w) by (unfold w'; simpl; exact Hf).
  assert (Hq : forall t, getq w' t = getq w1 t) by (intros []; reflexivity).
  assert (Hperm : Permutation (allnodes w' (upd s (l1 ++ l2) X)) (allnodes w X)).
  { unfold allnodes, pools.
    assert (Ea : w_qa w' = w_qa w1) by reflexivity. assert (Eb : w_qb w' = w_qb w1) by reflexivity.
    rewrite Ea, Eb. destruct s; simpl in *; unfold getq in *; simpl in *; rewrite ?Hqo, ?Hpool, ?Hsel; perm_app. }
  split.
  - constructor; rewrite ?Hh', ?Hv', ?Hf'.
    + intros t. destruct (bool_cases s t) as [->| ->].
      * rewrite sel_upd_same. exact R.
      * rewrite sel_upd_other. eapply Ring_Frame; [apply (qi_ring _ _ I)|exact F|].
        intros x Hx. eapply QInv_rings_disj'; eauto.
    + eapply Permutation_NoDup; [symmetry; exact Hperm|apply (qi_nodup _ _ I)].
    + intros x Hx. eapply Permutation_in in Hx; [|exact Hperm].
      pose proof (qi_node _ _ I x Hx) as (B & L & V). split; [exact B|]. split; [apply Lv; exact L|exact V].
    + intros t. rewrite Hq. destruct (bool_cases s t) as [->| ->].
      * rewrite sel_upd_same, Hnum, (qi_num _ _ I s), Hsel, !app_length. simpl. lia.
      * rewrite sel_upd_other, Hqo. apply (qi_num _ _ I).
    + intros t. rewrite Hq. destruct (bool_cases s t) as [->| ->].
      * rewrite Hpool. exact Hmem.
      * rewrite Hqo. apply (qi_mem _ _ I).
    + rewrite (Permutation_length Hperm). apply (qi_fresh _ _ I).
  - rewrite abs_upd, pairs_app.
    assert (Hval : forall x, val w' x = val w x) by (intros x; unfold val; rewrite Hv'; reflexivity).
    rewrite (pairs_ext w w' l1), (pairs_ext w w' l2) by (intros; apply Hval).
    assert (Habs : abs w' X = abs w X) by (unfold abs; f_equal; apply pairs_ext; intros; apply Hval).
    rewrite Habs. reflexivity.
Qed.

(* a_que_die_ then a_list_del_node then a_list_dtor, on the node at position |l1| *)
Lemma take_rc_ok w X s l1 n l2 :
  QInv w X -> sel s X = l1 ++ n :: l2 ->
  exists w' rc, q_take_rc w s n = Ok (w', rc) /\ trace_ok w w' /\
    ((rc <> 0%Z /\ QInv w' X /\ abs w' X = abs w X /\ failed w' = true) \/
     (rc = 0%Z /\ QInv w' (upd s (l1 ++ l2) X) /\
      abs w' (upd s (l1 ++ l2) X) = upd s (pairs w l1 ++ pairs w l2) (abs w X))).
Proof.
  intros I Hsel. unfold q_take_rc.
  assert (Hin : In n (sel s X)) by (rewrite Hsel; apply in_or_app; right; left; reflexivity).
  destruct (die_spec w X s n I Hin) as (w1 & rc & E & T & [(Hrc & Hc & Hf)|(Hrc & Hh & Hv & Hf & Hqo & Hp & Hnum & Hmem)]);
    rewrite E; subst rc; cbn [Z.eqb].
  - exists w1, 4%Z. split; [reflexivity|]. split; [exact T|]. left.
    split; [discriminate|]. split; [eapply same_core_QInv; eauto|]. split; [apply same_core_abs; auto|exact Hf].
  - pose proof (qi_ring _ _ I s) as R. rewrite Hsel in R.
    destruct (del_node_spec (w_h w) (qaddr s :: l1) n l2 R) as (h1 & E1 & R1 & D1 & F1 & L1); [discriminate|].
    rewrite Hh, E1. cbn [lift].
    assert (Ln : live h1 n) by (apply L1; eapply Ring_live; eauto; right; apply in_or_app; right; left; reflexivity).
    destruct (init_ring h1 n Ln) as (h2 & E2 & R2 & F2 & L2). rewrite E2. cbn [lift].
    exists (seth w1 h2), 0%Z. split; [reflexivity|]. split.
    + intros H. destruct (T H) as [H1 H2]. split; [exact H1|exact H2].
    + right. split; [reflexivity|].
      assert (Hnn : ~ In n ((qaddr s :: l1) ++ l2)).
      { apply Ring_NoDup in R. change (qaddr s :: l1 ++ n :: l2) with ((qaddr s :: l1) ++ n :: l2) in R.
        apply NoDup_remove_2 in R. exact R. }
      apply (remove_master w X s w1 n h2 l1 l2); auto.
      * eapply Ring_Frame; [exact R1|exact F2|]. intros x Hx [<-|[]]. exact (Hnn Hx).
      * eapply Frame_incl; [eapply Frame_trans; eauto|]. rewrite Hsel.
        intros x Hx. apply in_app_or in Hx. destruct Hx as [Hx|[<-|[]]].
        -- change (qaddr s :: l1 ++ n :: l2) with ((qaddr s :: l1) ++ n :: l2).
           apply in_app_or in Hx. apply in_or_app. simpl. tauto.
        -- right. apply in_or_app. right. left. reflexivity.
      * intros x. rewrite L2. apply L1.
Qed.

Lemma take_ok w X s l1 n l2 :
  QInv w X -> sel s X = l1 ++ n :: l2 ->
  exists w' r, q_take w s n = Ok (w', r) /\ trace_ok w w' /\
    ((r = 0 /\ QInv w' X /\ abs w' X = abs w X /\ failed w' = true) \/
     (r = n /\ QInv w' (upd s (l1 ++ l2) X) /\
      abs w' (upd s (l1 ++ l2) X) = upd s (pairs w l1 ++ pairs w l2) (abs w X))).
Proof.
  intros I Hsel. unfold q_take.
  destruct (take_rc_ok w X s l1 n l2 I Hsel) as (w' & rc & E & T & [(Hrc & C)|(Hrc & C)]); rewrite E; cbn [fst snd].
  - replace (Z.eqb rc 0) with false by (symmetry; apply Z.eqb_neq; exact Hrc).
    exists w', 0. split; [reflexivity|]. split; [exact T|]. left. split; [reflexivity|exact C].
  - subst rc. cbn [Z.eqb]. exists w', n. split; [reflexivity|]. split; [exact T|]. right. split; [reflexivity|exact C].
Qed.

(* ------------------------------------------------------------------ pull_fore / pull_back *)
Lemma QInv_head_notin w X s : QInv w X -> ~ In (qaddr s) (sel s X).
Proof. intros I H. eapply QInv_sentinel_notin; eauto. eapply allnodes_sel; eauto. Qed.

Lemma pull_ok fore w X s :
  QInv w X ->
  exists w' r, q_pull fore w s = Ok (w', r) /\ trace_ok w w' /\
    match (if fore then sel s X else rev (sel s X)) with
    | [] => r = 0 /\ w' = w
    | n :: t =>
        (r = 0 /\ QInv w' X /\ abs w' X = abs w X /\ failed w' = true) \/
        (r = n /\ let X' := upd s (if fore then t else rev t) X in
         QInv w' X' /\ abs w' X' = upd s (pairs w (if fore then t else rev t)) (abs w X))
    end.
Proof.
  intros I. unfold q_pull. pose proof (qi_ring _ _ I s) as R.
  destruct fore.
  - rewrite (Ring_next _ [] (qaddr s) (sel s X) R). cbn [lift hd].
    destruct (sel s X) as [|n t] eqn:Hsel.
    + cbn [hd]. rewrite N.eqb_refl. exists w, 0. split; [reflexivity|]. split; [apply trace_ok_refl|auto].
    + cbn [hd]. replace (N.eqb n (qaddr s)) with false.
      2:{ symmetry. apply N.eqb_neq. intros ->. apply (QInv_head_notin w X s I). rewrite Hsel. left. reflexivity. }
      destruct (take_ok w X s [] n t I Hsel) as (w' & r & E & T & C). exists w', r.
      split; [exact E|]. split; [exact T|]. exact C.
  - rewrite (Ring_prev _ [] (qaddr s) (sel s X) R). cbn [lift last].
    destruct (snoc_cases (sel s X)) as [Hsel|(m & n & Hsel)]; rewrite Hsel.
    + cbn [last rev]. rewrite N.eqb_refl. exists w, 0. split; [reflexivity|]. split; [apply trace_ok_refl|auto].
    + rewrite last_last, rev_app_distr. cbn [rev app].
      replace (N.eqb n (qaddr s)) with false.
      2:{ symmetry. apply N.eqb_neq. intros ->. apply (QInv_head_notin w X s I). rewrite Hsel.
          apply in_or_app. right. left. reflexivity. }
      destruct (take_ok w X s m n [] I Hsel) as (w' & r & E & T & C). exists w', r.
      split; [exact E|]. split; [exact T|]. rewrite rev_involutive.
      rewrite !app_nil_r in C. exact C.
Qed.

(* ------------------------------------------------------------------ walking to a position *)
Lemma seek_fwd_spec h c pre l k fuel :
  Ring h (c :: pre ++ l) -> (length l < fuel)%nat ->
  seek true h c (hd c l) k fuel = Ok (nth (N.to_nat k) l 0).
Proof.
  revert pre k fuel. induction l as [|a l IH]; intros pre k fuel R Hf.
  - destruct fuel; [lia|]. simpl. rewrite N.eqb_refl. destruct (N.to_nat k); reflexivity.
  - destruct fuel; [simpl in Hf; lia|]. cbn [seek hd].
    assert (Hac : a <> c).
    { apply Ring_NoDup in R. inversion R; subst. intros ->. apply H1. apply in_or_app. right. left. reflexivity. }
    replace (N.eqb a c) with false by (symmetry; apply N.eqb_neq; exact Hac).
    destruct (N.eqb k 0) eqn:Hk.
    + apply N.eqb_eq in Hk. subst k. reflexivity.
    + apply N.eqb_neq in Hk.
      change (c :: pre ++ a :: l) with ((c :: pre) ++ a :: l) in R.
      rewrite (Ring_next h (c :: pre) a l R). cbn [lift hd].
      replace (N.to_nat k) with (S (N.to_nat (k - 1))) by lia. cbn [nth].
      apply (IH (pre ++ [a])).
      * rewrite <- app_assoc. exact R.
      * simpl in Hf. lia.
Qed.

Lemma seek_bwd_spec h c l post k fuel :
  Ring h (c :: l ++ post) -> (length l < fuel)%nat ->
  seek false h c (last l c) k fuel = Ok (nth (N.to_nat k) (rev l) 0).
Proof.
  revert post k fuel. induction l as [|a l IH] using rev_ind; intros post k fuel R Hf.
  - destruct fuel; [lia|]. simpl. rewrite N.eqb_refl. destruct (N.to_nat k); reflexivity.
  - rewrite app_length in Hf. simpl in Hf. destruct fuel; [lia|]. rewrite last_last, rev_app_distr. cbn [seek rev app].
    assert (Hac : a <> c).
    { apply Ring_NoDup in R. inversion R; subst. intros ->. apply H1. apply in_or_app. left. apply in_or_app.
      right. left. reflexivity. }
    replace (N.eqb a c) with false by (symmetry; apply N.eqb_neq; exact Hac).
    destruct (N.eqb k 0) eqn:Hk.
    + apply N.eqb_eq in Hk. subst k. reflexivity.
    + apply N.eqb_neq in Hk.
      rewrite <- app_assoc in R. cbn [app] in R.
      change (c :: l ++ a :: post) with ((c :: l) ++ a :: post) in R.
      rewrite (Ring_prev h (c :: l) a post R). cbn [lift].
      replace (N.to_nat k) with (S (N.to_nat (k - 1))) by lia. cbn [nth].
      rewrite last_cons_default.
      apply (IH (a :: post)).
      * exact R.
      * lia.
Qed.

Lemma QInv_fuel w X s : QInv w X -> (length (sel s X) < fuel_of w)%nat.
Proof.
  intros I. pose proof (qi_fresh _ _ I) as F. unfold fuel_of.
  assert (length (sel s X) <= length (allnodes w X))%nat.
  { unfold allnodes. rewrite !app_length. destruct s; simpl; lia. }
  lia.
Qed.

(* ------------------------------------------------------------------ at / fore / back *)
Lemma at_ok w X s idx : QInv w X -> q_at w s idx = Ok (at_spec (sel s (abs w X)) idx).
Proof.
  intros I. unfold q_at, at_spec. rewrite sel_abs, map_fst_pairs.
  pose proof (qi_ring _ _ I s) as R. pose proof (QInv_fuel w X s I) as Hf.
  destruct (Z.leb 0 idx) eqn:Hi.
  - rewrite (Ring_next _ [] (qaddr s) (sel s X) R). cbn [lift hd].
    rewrite (seek_fwd_spec (w_h w) (qaddr s) [] (sel s X)); auto.
    rewrite Z_N_nat. reflexivity.
  - rewrite (Ring_prev _ [] (qaddr s) (sel s X) R). cbn [lift last].
    rewrite (seek_bwd_spec (w_h w) (qaddr s) (sel s X) []); auto.
    + rewrite Z_N_nat. reflexivity.
    + rewrite app_nil_r. exact R.
Qed.

Lemma fore_ok w X s : QInv w X -> q_fore w s = Ok (hd 0 (map fst (sel s (abs w X)))).
Proof.
  intros I. unfold q_fore. rewrite sel_abs, map_fst_pairs. pose proof (qi_ring _ _ I s) as R.
  rewrite (Ring_next _ [] (qaddr s) (sel s X) R). cbn [lift hd].
  destruct (sel s X) as [|n t] eqn:Hsel; cbn [hd].
  - rewrite N.eqb_refl. reflexivity.
  - replace (N.eqb n (qaddr s)) with false; [reflexivity|].
    symmetry. apply N.eqb_neq. intros ->. apply (QInv_head_notin w X s I). rewrite Hsel. left. reflexivity.
Qed.

Lemma back_ok w X s : QInv w X -> q_back w s = Ok (last (map fst (sel s (abs w X))) 0).
Proof.
  intros I. unfold q_back. rewrite sel_abs, map_fst_pairs. pose proof (qi_ring _ _ I s) as R.
  rewrite (Ring_prev _ [] (qaddr s) (sel s X) R). cbn [lift last].
  destruct (snoc_cases (sel s X)) as [Hsel|(m & n & Hsel)]; rewrite Hsel.
  - cbn [last]. rewrite N.eqb_refl. reflexivity.
  - rewrite !last_last. replace (N.eqb n (qaddr s)) with false; [reflexivity|].
    symmetry. apply N.eqb_neq. intros ->. apply (QInv_head_notin w X s I). rewrite Hsel.
    apply in_or_app. right. left. reflexivity.
Qed.

(* ------------------------------------------------------------------ insert / remove *)
Lemma nth_split_firstn_skipn {A} (l : list A) k d :
  (k < length l)%nat -> l = firstn k l ++ nth k l d :: skipn (S k) l /\ skipn k l = nth k l d :: skipn (S k) l.
Proof.
  revert k. induction l as [|a l IH]; intros k Hk; [simpl in Hk; lia|].
  destruct k as [|k]; [simpl; auto|]. simpl in Hk. destruct (IH k ltac:(lia)) as [E1 E2].
  split.
  - cbn [firstn nth skipn app]. f_equal. exact E1.
  - cbn [nth]. change (skipn (S k) (a :: l)) with (skipn k l). rewrite E2. reflexivity.
Qed.

Lemma insert_before h c l1 it l2 n :
  Ring h (c :: l1 ++ it :: l2) -> live h n -> ~ In n (c :: l1 ++ it :: l2) ->
  exists h', l_add_prev h it n = Some h' /\ Ring h' (c :: l1 ++ n :: it :: l2) /\
    Frame h h' (n :: c :: l1 ++ it :: l2) /\ (forall x, live h' x <-> live h x).
Proof.
  intros R L Hn.
  apply (Ring_rot h (c :: l1) (it :: l2)) in R. cbn [app] in R.
  assert (Hn' : ~ In n (it :: l2 ++ c :: l1)).
  { intros H. apply Hn. change (it :: l2 ++ c :: l1) with ((it :: l2) ++ (c :: l1)) in H.
    apply in_app_or in H. change (c :: l1 ++ it :: l2) with ((c :: l1) ++ (it :: l2)). apply in_or_app. tauto. }
  destruct (add_prev_spec h it (l2 ++ c :: l1) n R L Hn') as (h' & E & R' & F & Lv).
  exists h'. split; [exact E|]. split; [|split; [|exact Lv]].
  - change (it :: (l2 ++ c :: l1) ++ [n]) with ((it :: l2 ++ c :: l1) ++ [n]) in R'.
    replace ((it :: l2 ++ c :: l1) ++ [n]) with ((it :: l2) ++ ((c :: l1) ++ [n])) in R'
      by (cbn [app]; rewrite <- !app_assoc; reflexivity).
    apply Ring_rot in R'. rewrite <- app_assoc in R'. exact R'.
  - eapply Frame_incl; eauto. intros x Hx.
    assert (Hl : In (last (l2 ++ c :: l1) it) (l2 ++ c :: l1)) by (apply in_last; destruct l2; discriminate).
    destruct Hx as [Hx|[Hx|[Hx|[]]]]; subst x.
    + right. right. apply in_or_app. right. left. reflexivity.
    + left. reflexivity.
    + right. apply in_app_or in Hl. change (c :: l1 ++ it :: l2) with ((c :: l1) ++ it :: l2). apply in_or_app.
      destruct Hl; [right; right; auto|left; auto].
Qed.

Lemma insert_ok w X s idx v :
  QInv w X ->
  exists w' n, q_insert w s idx v = Ok (w', n) /\ trace_ok w w' /\
    ((n = 0 /\ QInv w' X /\ abs w' X = abs w X /\ failed w' = true) \/
     (n <> 0 /\ ~ In n (addrs (abs w X)) /\
      let xs' := if N.ltb idx (N.of_nat (length (sel s X)))
                 then insert_at (N.to_nat idx) n (sel s X) else sel s X ++ [n] in
      QInv w' (upd s xs' X) /\
      abs w' (upd s xs' X) =
        upd s (if N.ltb idx (N.of_nat (length (sel s (abs w X))))
               then insert_at (N.to_nat idx) (n, v) (sel s (abs w X)) else sel s (abs w X) ++ [(n, v)]) (abs w X))).
Proof.
  intros I. unfold q_insert. rewrite (qi_num _ _ I s), sel_abs.
  assert (Hlen : length (pairs w (sel s X)) = length (sel s X)) by apply map_length. rewrite Hlen.
  destruct (N.ltb idx (N.of_nat (length (sel s X)))) eqn:Hidx.
  - apply N.ltb_lt in Hidx.
    destruct (new_spec w X s I) as (w1 & n & E & [(Hn & Hc & Hf & Hs)|(Hn & M & Hval & Hf & Hs)]); rewrite E.
    + subst n. cbn [N.eqb]. exists w1, 0. split; [reflexivity|]. split; [intros H; contradiction|].
      left. split; [reflexivity|]. split; [eapply same_core_QInv; eauto|]. split; [apply same_core_abs; auto|auto].
    + replace (N.eqb n 0) with false by (symmetry; apply N.eqb_neq; exact Hn).
      pose proof (mn_ring _ _ _ _ M s) as R.
      rewrite (Ring_next _ [] (qaddr s) (sel s X) R). cbn [lift hd].
      assert (Hfuel : (length (sel s X) < fuel_of w1)%nat).
      { pose proof (mn_fresh _ _ _ _ M) as F. unfold fuel_of.
        assert (length (sel s X) <= length (allnodes w1 X))%nat.
        { unfold allnodes. rewrite !app_length. destruct s; simpl; lia. }
        simpl length in F. lia. }
      rewrite (seek_fwd_spec (w_h w1) (qaddr s) [] (sel s X)); auto.
      set (k := N.to_nat idx). assert (Hk : (k < length (sel s X))%nat) by (unfold k; lia).
      destruct (nth_split_firstn_skipn (sel s X) k 0 Hk) as [Esplit Eskip].
      set (it := nth k (sel s X) 0) in *.
      assert (Hit : In it (sel s X)) by (apply nth_In; exact Hk).
      assert (Hitnz : it <> 0).
      { assert (3 <= it). { apply (mn_node _ _ _ _ M). right. eapply allnodes_sel; eauto. } lia. }
      replace (N.eqb it 0) with false by (symmetry; apply N.eqb_neq; exact Hitnz).
      pose proof (QMidNew_notin _ _ _ _ M) as Hnot.
      assert (Ln : live (w_h w1) n) by (apply (mn_node _ _ _ _ M); left; reflexivity).
      rewrite Esplit in R, Hnot.
      destruct (insert_before (w_h w1) (qaddr s) (firstn k (sel s X)) it (skipn (S k) (sel s X)) n R Ln Hnot)
        as (h' & Eh & R' & F & Lv).
      rewrite Eh. cbn [lift]. eexists _, n. split; [reflexivity|].
      assert (Esel : sel s X = firstn k (sel s X) ++ skipn k (sel s X)) by (symmetry; apply firstn_skipn).
      rewrite <- Eskip in R'.
      destruct (insert_master w X s w1 n h' (firstn k (sel s X)) (skipn k (sel s X)) v M Hval Esel R')
        as (I' & A' & Nn); auto.
      { rewrite <- Esplit in F. exact F. }
      split; [|right; split; [exact Hn|split; [exact Nn|split; [exact I'|]]]].
      * intros H. split; [apply Hs; exact H|exact Hf].
      * unfold insert_at at 1. fold k. rewrite A'. unfold insert_at, pairs. fold k. rewrite firstn_map, skipn_map. reflexivity.
  - destruct (push_ok false w X s v I) as (w' & n & E & T & C). exists w', n.
    split; [exact E|]. split; [exact T|]. rewrite sel_abs in C. exact C.
Qed.

Lemma remove_ok w X s idx :
  QInv w X ->
  exists w' r, q_remove w s idx = Ok (w', r) /\ trace_ok w w' /\
    if N.ltb idx (N.of_nat (length (sel s X))) then
      (r = 0 /\ QInv w' X /\ abs w' X = abs w X /\ failed w' = true) \/
      (r = nth (N.to_nat idx) (sel s X) 0 /\
       QInv w' (upd s (remove_at (N.to_nat idx) (sel s X)) X) /\
       abs w' (upd s (remove_at (N.to_nat idx) (sel s X)) X) =
         upd s (remove_at (N.to_nat idx) (sel s (abs w X))) (abs w X))
    else
      match rev (sel s X) with
      | [] => r = 0 /\ w' = w
      | n :: t =>
          (r = 0 /\ QInv w' X /\ abs w' X = abs w X /\ failed w' = true) \/
          (r = n /\ QInv w' (upd s (rev t) X) /\ abs w' (upd s (rev t) X) = upd s (pairs w (rev t)) (abs w X))
      end.
Proof.
  intros I. unfold q_remove. rewrite (qi_num _ _ I s).
  destruct (N.ltb idx (N.of_nat (length (sel s X)))) eqn:Hidx.
  - apply N.ltb_lt in Hidx. pose proof (qi_ring _ _ I s) as R.
    rewrite (Ring_next _ [] (qaddr s) (sel s X) R). cbn [lift hd].
    rewrite (seek_fwd_spec (w_h w) (qaddr s) [] (sel s X)); auto using QInv_fuel.
    set (k := N.to_nat idx). assert (Hk : (k < length (sel s X))%nat) by (unfold k; lia).
    destruct (nth_split_firstn_skipn (sel s X) k 0 Hk) as [Esplit _].
    destruct (take_ok w X s _ _ _ I Esplit) as (w' & r & E & T & C).
    exists w', r. split; [exact E|]. split; [exact T|].
    destruct C as [C|(Hr & I' & A')]; [left; exact C|right].
    split; [exact Hr|]. split; [exact I'|]. unfold remove_at at 1. fold k. rewrite A', sel_abs. unfold remove_at, pairs.
    fold k. rewrite firstn_map, skipn_map. reflexivity.
  - destruct (pull_ok false w X s I) as (w' & r & E & T & C). exists w', r. split; [exact E|]. split; [exact T|].
    exact C.
Qed.

(* ------------------------------------------------------------------ span *)
Lemma span_app {A} (p : A -> bool) l : fst (span p l) ++ snd (span p l) = l.
Proof.
  induction l as [|x t IH]; [reflexivity|]. simpl. destruct (p x); [|reflexivity].
  destruct (span p t) as [a b]. simpl in *. congruence.
Qed.

Lemma span_map {A B} (f : A -> B) (p : B -> bool) l :
  span p (map f l) = (map f (fst (span (fun x => p (f x)) l)), map f (snd (span (fun x => p (f x)) l))).
Proof.
  induction l as [|x t IH]; [reflexivity|]. simpl. destruct (p (f x)); [|reflexivity].
  rewrite IH. destruct (span (fun x0 => p (f x0)) t). reflexivity.
Qed.

Lemma span_ext_in {A} (p q : A -> bool) l : (forall x, In x l -> p x = q x) -> span p l = span q l.
Proof.
  induction l as [|x t IH]; intros H; [reflexivity|]. simpl. rewrite (H x) by (left; reflexivity).
  rewrite IH by (intros y Hy; apply H; right; exact Hy). reflexivity.
Qed.

Lemma span_fst_nil_hd {A} (p : A -> bool) x t : fst (span p (x :: t)) = [] -> snd (span p (x :: t)) = x :: t.
Proof. simpl. destruct (p x); [destruct (span p t); discriminate|reflexivity]. Qed.

(* ------------------------------------------------------------------ the scans of the sorting functions *)
Section Scan.
Variable cmp : Z -> Z -> Z.

Lemma scan_fore_spec h vs c itv pre l fuel (valf : id -> Z) :
  Ring h (c :: pre ++ l) -> l <> [] -> (forall y, In y l -> vget vs y = Some (valf y)) ->
  (length l < fuel)%nat ->
  scan_fore cmp h vs c itv (hd c l) fuel =
    Ok (hd c (snd (span (fun y => Z.ltb 0 (cmp itv (valf y))) l))).
Proof.
  revert pre fuel. induction l as [|a l IH]; intros pre fuel R Hne Hv Hf; [congruence|].
  destruct fuel; [simpl in Hf; lia|]. cbn [scan_fore hd].
  rewrite (Hv a) by (left; reflexivity). cbn [lift].
  cbn [span]. rewrite Z.ltb_antisym.
  destruct (Z.leb (cmp itv (valf a)) 0); cbn [negb]; [reflexivity|].
  change (c :: pre ++ a :: l) with ((c :: pre) ++ a :: l) in R.
  rewrite (Ring_next h (c :: pre) a l R). cbn [lift hd].
  destruct l as [|b l].
  - cbn [hd span snd]. rewrite N.eqb_refl. reflexivity.
  - cbn [hd].
    assert (Hbc : b <> c).
    { apply Ring_NoDup in R. inversion R; subst. intros ->. apply H1. apply in_or_app. right. right. left. reflexivity. }
    replace (N.eqb b c) with false by (symmetry; apply N.eqb_neq; exact Hbc).
    specialize (IH (pre ++ [a]) fuel). rewrite <- app_assoc in IH. cbn [app hd] in IH.
    rewrite IH; auto.
    + destruct (span (fun y => Z.ltb 0 (cmp itv (valf y))) (b :: l)). reflexivity.
    + discriminate.
    + intros y Hy. apply Hv. right. exact Hy.
    + simpl in Hf. simpl. lia.
Qed.

Lemma scan_back_spec h vs c itv l post fuel (valf : id -> Z) :
  Ring h (c :: l ++ post) -> l <> [] -> (forall y, In y l -> vget vs y = Some (valf y)) ->
  (length l < fuel)%nat ->
  scan_back cmp h vs c itv (last l c) fuel =
    Ok (hd c (snd (span (fun y => Z.ltb 0 (cmp (valf y) itv)) (rev l)))).
Proof.
  revert post fuel. induction l as [|a l IH] using rev_ind; intros post fuel R Hne Hv Hf; [congruence|].
  rewrite app_length in Hf. simpl in Hf. destruct fuel; [lia|].
  rewrite last_last, rev_app_distr. cbn [scan_back rev app].
  rewrite (Hv a) by (apply in_or_app; right; left; reflexivity). cbn [lift].
  cbn [span]. rewrite Z.ltb_antisym.
  destruct (Z.leb (cmp (valf a) itv) 0); cbn [negb]; [reflexivity|].
  rewrite <- app_assoc in R. cbn [app] in R.
  change (c :: l ++ a :: post) with ((c :: l) ++ a :: post) in R.
  rewrite (Ring_prev h (c :: l) a post R). cbn [lift]. rewrite last_cons_default.
  destruct (snoc_cases l) as [->|(m & b & ->)].
  - cbn [last rev span snd hd]. rewrite N.eqb_refl. reflexivity.
  - rewrite last_last.
    assert (Hbc : b <> c).
    { apply Ring_NoDup in R. inversion R; subst. intros ->. apply H1. apply in_or_app. left. apply in_or_app.
      right. left. reflexivity. }
    replace (N.eqb b c) with false by (symmetry; apply N.eqb_neq; exact Hbc).
    specialize (IH (a :: post) fuel). rewrite last_last in IH.
    rewrite IH; auto.
    + destruct (span (fun y => Z.ltb 0 (cmp (valf y) itv)) (rev (m ++ [b]))). reflexivity.
    + destruct m; discriminate.
    + intros y Hy. apply Hv. apply in_or_app. left. exact Hy.
    + rewrite app_length. simpl. rewrite app_length in Hf. simpl in Hf. lia.
Qed.
End Scan.

(* ------------------------------------------------------------------ the nodes of one ring are rearranged *)
Lemma permute_master w X s h' xs' :
  QInv w X -> Permutation xs' (sel s X) -> Ring h' (qaddr s :: xs') ->
  Frame (w_h w) h' (qaddr s :: sel s X) -> (forall x, live h' x <-> live (w_h w) x) ->
  QInv (seth w h') (upd s xs' X) /\ abs (seth w h') (upd s xs' X) = upd s (pairs w xs') (abs w X).
Proof.
  intros I P R F Lv. set (w' := seth w h').
  assert (Hq : forall t, getq w' t = getq w t) by (intros []; reflexivity).
  assert (Hperm : Permutation (allnodes w' (upd s xs' X)) (allnodes w X)).
  { change (allnodes w' (upd s xs' X)) with (allnodes w (upd s xs' X)).
    rewrite <- (upd_sel s X) at 2. apply allnodes_upd_perm. exact P. }
  split.
  - constructor.
    + intros t. destruct (bool_cases s t) as [->| ->].
      * rewrite sel_upd_same. exact R.
      * rewrite sel_upd_other. eapply Ring_Frame; [apply (qi_ring _ _ I)|exact F|].
        intros x Hx. eapply QInv_rings_disj'; eauto.
    + eapply Permutation_NoDup; [symmetry; exact Hperm|apply (qi_nodup _ _ I)].
    + intros x Hx. eapply Permutation_in in Hx; [|exact Hperm].
      pose proof (qi_node _ _ I x Hx) as (B & L & V). split; [exact B|]. split; [apply Lv; exact L|exact V].
    + intros t. rewrite Hq. destruct (bool_cases s t) as [->| ->].
      * rewrite sel_upd_same, (qi_num _ _ I s), (Permutation_length P). reflexivity.
      * rewrite sel_upd_other. apply (qi_num _ _ I).
    + intros t. rewrite Hq. apply (qi_mem _ _ I).
    + rewrite (Permutation_length Hperm). apply (qi_fresh _ _ I).
  - rewrite abs_upd. reflexivity.
Qed.

Lemma QInv_vget w X x : QInv w X -> In x (allnodes w X) -> vget (w_val w) x = Some (val w x).
Proof.
  intros I H. destruct (qi_node _ _ I x H) as (_ & _ & V). unfold val. destruct (vget (w_val w) x); congruence.
Qed.

(* ------------------------------------------------------------------ a_que_sort_fore *)
Lemma sort_fore_ok cmp w X s :
  QInv w X ->
  exists w' xs', q_sort_fore cmp w s = Ok w' /\ trace_ok w w' /\ QInv w' (upd s xs' X) /\
    abs w' (upd s xs' X) = upd s (sort_fore_spec cmp (sel s (abs w X))) (abs w X).
Proof.
  intros I. unfold q_sort_fore. rewrite (qi_num _ _ I s), sel_abs.
  assert (Hid : QInv w (upd s (sel s X) X) /\ abs w (upd s (sel s X) X) = abs w X)
    by (rewrite upd_sel; auto).
  destruct (sel s X) as [|it rest] eqn:Hsel.
  { cbn [length N.of_nat N.ltb N.compare]. exists w, []. split; [reflexivity|]. split; [apply trace_ok_refl|].
    destruct Hid as [I' A']. split; [exact I'|]. rewrite abs_upd. reflexivity. }
  destruct rest as [|r0 rest'] eqn:Hrest.
  { cbn. exists w, [it]. split; [reflexivity|]. split; [apply trace_ok_refl|].
    destruct Hid as [I' A']. split; [exact I'|]. rewrite abs_upd. reflexivity. }
  rewrite <- Hrest in *. assert (Hrne : rest <> []) by (rewrite Hrest; discriminate). clear Hrest r0 rest'.
  replace (N.ltb 1 (N.of_nat (length (it :: rest)))) with true.
  2:{ symmetry. apply N.ltb_lt. destruct rest; [congruence|]. simpl length. lia. }
  pose proof (qi_ring _ _ I s) as R. rewrite Hsel in R.
  set (c := qaddr s) in *. set (h := w_h w) in *.
  rewrite (Ring_next h [] c (it :: rest) R). cbn [lift hd].
  rewrite (Ring_next h [c] it rest R). cbn [lift hd].
  assert (Hit : In it (allnodes w X)) by (eapply allnodes_sel; rewrite Hsel; left; reflexivity).
  rewrite (QInv_vget w X it I Hit). cbn [lift].
  assert (Hfuel : (length rest < fuel_of w)%nat).
  { pose proof (QInv_fuel w X s I) as Hf. rewrite Hsel in Hf. simpl in Hf. lia. }
  rewrite (scan_fore_spec cmp h (w_val w) c (val w it) [it] rest (fuel_of w) (val w) R Hrne); auto.
  2:{ intros y Hy. apply (QInv_vget w X y I). eapply allnodes_sel. rewrite Hsel. right. exact Hy. }
  set (p := fun y => Z.ltb 0 (cmp (val w it) (val w y))).
  pose proof (span_app p rest) as Happ.
  destruct (span p rest) as [lo hi] eqn:Hspan. cbn [fst snd] in *.
  (* the abstract result *)
  assert (Hspec : sort_fore_spec cmp (pairs w (it :: rest)) = pairs w (lo ++ it :: hi)).
  { unfold sort_fore_spec, pairs. cbn [map snd]. rewrite span_map. cbn [snd]. fold p. rewrite Hspan.
    cbn [fst snd]. rewrite map_app. reflexivity. }
  rewrite Hspec.
  destruct lo as [|a lo'] eqn:Hlo.
  - (* already in place *)
    cbn [app] in Happ. subst hi. rewrite N.eqb_refl.
    exists w, (it :: rest). split; [reflexivity|]. split; [apply trace_ok_refl|].
    destruct Hid as [I' A']. split; [exact I'|]. rewrite abs_upd. reflexivity.
  - rewrite <- Hlo in *. assert (Hlone : lo <> []) by (rewrite Hlo; discriminate). clear Hlo a lo'.
    subst rest.
    (* view the ring from it:  it :: lo ++ (hi ++ [c]) *)
    set (H2 := hi ++ [c]).
    assert (H2ne : H2 <> []) by (unfold H2; destruct hi; discriminate).
    assert (R' : Ring h ([it] ++ lo ++ H2 ++ [])).
    { apply (Ring_rot h [c] (it :: lo ++ hi)) in R. unfold H2. rewrite app_nil_r. cbn [app] in *.
      rewrite <- app_assoc in R. exact R. }
    assert (Hhd2 : hd0 H2 = hd c hi) by (unfold H2; apply hd_snoc).
    assert (Hl2 : last H2 0 = c) by (unfold H2; apply last_last).
    assert (ND : NoDup (it :: lo ++ H2)).
    { apply Ring_NoDup in R'. rewrite app_nil_r in R'. exact R'. }
    (* the loop stopped somewhere behind lo *)
    assert (Hne : hd c hi <> hd c (lo ++ hi)).
    { rewrite <- Hhd2. destruct lo as [|a lo']; [congruence|]. cbn [app hd]. intros E.
      pose proof ND as ND0. apply NoDup_cons_iff in ND0. destruct ND0 as [_ ND2]. cbn [app] in ND2.
      apply NoDup_cons_iff in ND2. destruct ND2 as [Hn _].
      apply Hn. apply in_or_app. right. rewrite <- E. apply in_hd. exact H2ne. }
    replace (N.eqb (hd c hi) (hd c (lo ++ hi))) with false by (symmetry; apply N.eqb_neq; exact Hne).
    pose proof (Ring_seam h [it] lo H2 [] R' Hlone H2ne) as [En_lo Ep_h2].
    assert (Ep_it : rd_prev h it = Some c).
    { pose proof (Ring_seam_wrap h [it] lo H2) as W. rewrite app_nil_r in R'.
      destruct (W R') as [_ Ep]; [discriminate|exact H2ne|]. rewrite Hl2 in Ep. exact Ep. }
    assert (En_it : rd_next h it = Some (hd0 lo)).
    { apply (Ring_seam h [] [it] lo (H2 ++ [])); auto. discriminate. }
    rewrite <- Hhd2, Ep_h2. cbn [lift]. rewrite Ep_it. cbn [lift].
    assert (Ehd : hd c (lo ++ hi) = hd0 lo) by (destruct lo; [congruence|reflexivity]). rewrite Ehd.
    (* three links *)
    assert (S0 : Soup h [H2; lo; [it]]).
    { pose proof (Ring_Soup _ _ R') as S. rewrite app_nil_r in S. apply Soup_split in S.
      apply (Soup_perm h _ [lo ++ H2; [it]]) in S; [|perm_tac]. apply Soup_split in S.
      apply (Soup_perm h _ [H2; lo; [it]]) in S; [|perm_tac]. exact S. }
    destruct (Soup_join_exec h H2 lo [[it]] S0 H2ne Hlone) as (h1 & L1 & S1 & P1). rewrite Hl2 in L1, P1.
    rewrite L1. cbn [lift].
    assert (Hlast_c : last lo 0 <> c).
    { intros E. apply NoDup_cons_iff in ND. destruct ND as [_ ND]. eapply (NoDup_app_disj lo H2 c); eauto.
      - rewrite <- E. apply in_last; auto.
      - unfold H2. apply in_or_app. right. left. reflexivity. }
    rewrite (lp_next_other _ _ _ _ P1) by exact Hlast_c. rewrite En_lo. cbn [lift].
    assert (S1' : Soup h1 [[it]; H2 ++ lo]) by (apply (Soup_perm h1 [H2 ++ lo; [it]]); [perm_tac|exact S1]).
    assert (H2lo : H2 ++ lo <> []) by (destruct H2; [congruence|discriminate]).
    destruct (Soup_join_exec h1 [it] (H2 ++ lo) [] S1' ltac:(discriminate) H2lo) as (h2 & L2 & S2 & P2).
    rewrite hd_app_nonnil in L2, P2 by exact H2ne. cbn [last] in L2, P2.
    rewrite L2. cbn [lift].
    destruct (Soup_close_exec h2 ([it] ++ H2 ++ lo) [] S2 ltac:(discriminate)) as (h3 & L3 & S3 & Ed3 & P3).
    rewrite !app_assoc, last_app_nonnil in L3, P3, Ed3 by exact Hlone. cbn [app hd] in L3, P3, Ed3.
    rewrite L3. cbn [lift].
    assert (R3 : Ring h3 (c :: lo ++ it :: hi)).
    { assert (R3' : Ring h3 ((it :: H2) ++ lo)).
      { apply (Ring_intro _ _ 0); auto; [discriminate|]. rewrite last_app_nonnil by exact Hlone. exact Ed3. }
      unfold H2 in R3'.
      replace ((it :: hi ++ [c]) ++ lo) with ((it :: hi) ++ (c :: lo)) in R3'
        by (cbn [app]; rewrite <- app_assoc; reflexivity).
      apply Ring_rot in R3'. exact R3'. }
    assert (F : Frame h h3 (c :: it :: lo ++ hi)).
    { assert (Ic : In c (c :: it :: lo ++ hi)) by (left; reflexivity).
      assert (Iit : In it (c :: it :: lo ++ hi)) by (right; left; reflexivity).
      assert (Ihl : In (hd0 lo) (c :: it :: lo ++ hi)) by (right; right; apply in_hd_app_l; auto).
      assert (Ill : In (last lo 0) (c :: it :: lo ++ hi)) by (right; right; apply in_last_app_l; auto).
      assert (Ih2 : In (hd0 H2) (c :: it :: lo ++ hi)).
      { rewrite Hhd2. destruct hi; [left; reflexivity|]. right. right. apply in_or_app. right. left. reflexivity. }
      intros x Hx.
      rewrite (LinkPost_Frame_in _ _ _ _ _ P3 Ill Iit x Hx), (LinkPost_Frame_in _ _ _ _ _ P2 Iit Ih2 x Hx),
              (LinkPost_Frame_in _ _ _ _ _ P1 Ic Ihl x Hx). reflexivity. }
    assert (Lv : forall x, live h3 x <-> live h x).
    { intros x. rewrite (lp_live _ _ _ _ P3), (lp_live _ _ _ _ P2). apply (lp_live _ _ _ _ P1). }
    destruct (permute_master w X s h3 (lo ++ it :: hi) I) as [I' A']; auto.
    { rewrite Hsel. symmetry. apply Permutation_middle. }
    { rewrite Hsel. exact F. }
    exists (seth w h3), (lo ++ it :: hi). split; [reflexivity|]. split; [intros Hnf; split; [exact Hnf|reflexivity]|].
    split; [exact I'|exact A'].
Qed.

(* ------------------------------------------------------------------ a_que_sort_back / a_que_push_sort *)
Lemma hd_rev {A} (l : list A) d : hd d (rev l) = last l d.
Proof.
  destruct (snoc_cases l) as [->|(m & z & ->)]; [reflexivity|]. rewrite rev_app_distr, last_last. reflexivity.
Qed.

Lemma pairs_rev w l : rev (pairs w l) = pairs w (rev l).
Proof. unfold pairs. symmetry. apply map_rev. Qed.

(* ins_back on the abstract side = cutting the address list at the place the backward scan finds *)
Lemma ins_back_pairs cmp w x xv l :
  let sp := span (fun y => Z.ltb 0 (cmp (val w y) xv)) (rev l) in
  ins_back cmp (x, xv) (pairs w l) = pairs w (rev (snd sp)) ++ (x, xv) :: pairs w (rev (fst sp)) /\
  l = rev (snd sp) ++ rev (fst sp).
Proof.
  intros sp. split.
  - unfold ins_back. rewrite pairs_rev. unfold pairs at 1. rewrite span_map. cbn [snd].
    fold sp. destruct sp as [a b]. cbn [fst snd]. rewrite <- !map_rev. reflexivity.
  - pose proof (span_app (fun y => Z.ltb 0 (cmp (val w y) xv)) (rev l)) as H. fold sp in H.
    rewrite <- rev_app_distr, H, rev_involutive. reflexivity.
Qed.

(* link(n, first L); link(last L, n): n becomes the predecessor of the first node of the ring L *)
Lemma insert_after h L n :
  Ring h L -> live h n -> ~ In n L ->
  exists h1 h2, l_link h n (hd0 L) = Some h1 /\ l_link h1 (last L 0) n = Some h2 /\ Ring h2 (n :: L) /\
    rd_next h1 (last L 0) = rd_next h (last L 0) /\
    Frame h h2 (n :: L) /\ (forall x, live h2 x <-> live h x).
Proof.
  intros R Ln Hn. pose proof (Ring_nonnil _ _ R) as HL.
  assert (S0 : Soup h [[n]; L]).
  { apply (Soup_perm h [L; [n]]); [perm_tac|]. apply Soup_ring_and_node; auto. }
  destruct (Soup_join_exec h [n] L [] S0 ltac:(discriminate) HL) as (h1 & L1 & S1 & P1). cbn [last] in L1, P1.
  destruct (Soup_close_exec h1 ([n] ++ L) [] S1 ltac:(discriminate)) as (h2 & L2 & S2 & Ed & P2).
  rewrite last_app_nonnil in L2, P2, Ed by exact HL. cbn [app hd] in L2, P2, Ed.
  exists h1, h2. split; [exact L1|]. split; [exact L2|]. split; [|split; [|split]].
  - apply (Ring_intro _ _ 0); auto; [discriminate|].
    change (n :: L) with ([n] ++ L). rewrite last_app_nonnil by exact HL. exact Ed.
  - apply (lp_next_other _ _ _ _ P1). intros E. apply Hn. rewrite <- E. apply in_last. exact HL.
  - assert (I1 : In n (n :: L)) by (left; reflexivity).
    assert (I2 : In (hd0 L) (n :: L)) by (right; apply in_hd; exact HL).
    assert (I3 : In (last L 0) (n :: L)) by (right; apply in_last; exact HL).
    intros x Hx. rewrite (LinkPost_Frame_in _ _ _ _ _ P2 I3 I1 x Hx), (LinkPost_Frame_in _ _ _ _ _ P1 I1 I2 x Hx).
    reflexivity.
  - intros x. rewrite (lp_live _ _ _ _ P2). apply (lp_live _ _ _ _ P1).
Qed.

Lemma sort_back_ok cmp w X s :
  QInv w X ->
  exists w' xs', q_sort_back cmp w s = Ok w' /\ trace_ok w w' /\ QInv w' (upd s xs' X) /\
    abs w' (upd s xs' X) = upd s (sort_back_spec cmp (sel s (abs w X))) (abs w X).
Proof.
  intros I. unfold q_sort_back. rewrite (qi_num _ _ I s), sel_abs.
  assert (Hid : QInv w (upd s (sel s X) X)) by (rewrite upd_sel; auto).
  destruct (snoc_cases (sel s X)) as [Hsel|(rest & it & Hsel)]; rewrite Hsel in *.
  { cbn [length N.of_nat N.ltb N.compare]. exists w, []. split; [reflexivity|]. split; [apply trace_ok_refl|].
    split; [exact Hid|]. rewrite abs_upd. reflexivity. }
  destruct rest as [|r0 rest'] eqn:Hrest.
  { cbn. exists w, [it]. split; [reflexivity|]. split; [apply trace_ok_refl|].
    split; [exact Hid|]. rewrite abs_upd. reflexivity. }
  rewrite <- Hrest in *. assert (Hrne : rest <> []) by (rewrite Hrest; discriminate). clear Hrest r0 rest'.
  replace (N.ltb 1 (N.of_nat (length (rest ++ [it])))) with true.
  2:{ symmetry. apply N.ltb_lt. rewrite app_length. destruct rest; [congruence|]. simpl length. lia. }
  pose proof (qi_ring _ _ I s) as R. rewrite Hsel in R.
  set (c := qaddr s) in *. set (h := w_h w) in *.
  rewrite (Ring_prev h [] c (rest ++ [it]) R). cbn [lift last]. rewrite last_last.
  assert (R1 : Ring h ((c :: rest) ++ it :: [])) by exact R.
  rewrite (Ring_prev h (c :: rest) it [] R1). cbn [lift]. rewrite last_cons_default.
  assert (Hit : In it (allnodes w X)).
  { eapply allnodes_sel; rewrite Hsel; apply in_or_app; right; left; reflexivity. }
  rewrite (QInv_vget w X it I Hit). cbn [lift].
  assert (Hfuel : (length rest < fuel_of w)%nat).
  { pose proof (QInv_fuel w X s I) as Hf. rewrite Hsel, app_length in Hf. simpl in Hf. lia. }
  rewrite (scan_back_spec cmp h (w_val w) c (val w it) rest [it] (fuel_of w) (val w) R Hrne); auto.
  2:{ intros y Hy. apply (QInv_vget w X y I). eapply allnodes_sel. rewrite Hsel. apply in_or_app. left. exact Hy. }
  (* the abstract result *)
  destruct (ins_back_pairs cmp w it (val w it) rest) as [Hspec Hcut].
  set (sp := span (fun y => Z.ltb 0 (cmp (val w y) (val w it))) (rev rest)) in *.
  set (lo := rev (snd sp)) in *. set (hi := rev (fst sp)) in *.
  assert (Hspec' : sort_back_spec cmp (pairs w (rest ++ [it])) = pairs w (lo ++ it :: hi)).
  { unfold sort_back_spec. rewrite pairs_rev, rev_app_distr. cbn [rev app pairs map].
    fold (pairs w (rev rest)). rewrite <- pairs_rev, rev_involutive, Hspec, pairs_app. reflexivity. }
  rewrite Hspec'.
  assert (Hat1 : hd c (snd sp) = last lo c) by (unfold lo; rewrite <- hd_rev, rev_involutive; reflexivity).
  rewrite Hat1.
  clearbody lo hi. clear Hspec.
  destruct hi as [|b0 hr] eqn:Hhi.
  - (* already in place *)
    rewrite app_nil_r in Hcut. rewrite <- Hcut, N.eqb_refl.
    exists w, (rest ++ [it]). split; [reflexivity|]. split; [apply trace_ok_refl|].
    split; [exact Hid|]. rewrite abs_upd. reflexivity.
  - rewrite <- Hhi in *. assert (Hhine : hi <> []) by (rewrite Hhi; discriminate).
    clear Hhi b0 hr. rewrite Hcut in R, R1, Hsel |- *.
    assert (R' : Ring h ([] ++ (c :: lo) ++ hi ++ [it])).
    { cbn [app]. rewrite <- app_assoc in R. exact R. }
    assert (ND : NoDup ((c :: lo) ++ hi ++ [it])) by (apply Ring_NoDup in R'; exact R').
    pose proof (Ring_seam h [] (c :: lo) hi [it] R' ltac:(discriminate) Hhine) as [En_at1 Ep_at2].
    assert (R'' : Ring h ((c :: lo) ++ hi ++ [it] ++ [])) by (rewrite app_nil_r; exact R').
    pose proof (Ring_seam h (c :: lo) hi [it] [] R'' Hhine ltac:(discriminate)) as [En_itp Ep_it].
    cbn [hd] in En_itp, Ep_it.
    rewrite last_cons_default in En_at1, Ep_at2.
    assert (Hlast : last (lo ++ hi) c = last hi 0).
    { rewrite last_app_nonnil by exact Hhine. destruct (snoc_cases hi) as [->|(m & z & ->)]; [congruence|].
      rewrite !last_last. reflexivity. }
    rewrite Hlast.
    assert (Hne : last lo c <> last hi 0).
    { intros E. apply (NoDup_app_disj (c :: lo) (hi ++ [it]) (last hi 0)); auto.
      - rewrite <- E. rewrite <- last_cons_default with (d := 0). apply in_last. discriminate.
      - apply in_last_app_l. exact Hhine. }
    replace (N.eqb (last lo c) (last hi 0)) with false by (symmetry; apply N.eqb_neq; exact Hne).
    rewrite En_at1. cbn [lift].
    assert (En_it : rd_next h it = Some c).
    { exact (Ring_next h (c :: lo ++ hi) it [] R1). }
    rewrite En_it. cbn [lift].
    (* three links *)
    assert (S0 : Soup h [hi; c :: lo; [it]]).
    { pose proof (Ring_Soup _ _ R') as S. cbn [app] in S.
      change (c :: lo ++ hi ++ [it]) with ((c :: lo) ++ hi ++ [it]) in S. apply Soup_split in S.
      apply (Soup_perm h _ [hi ++ [it]; c :: lo]) in S; [|perm_tac]. apply Soup_split in S.
      apply (Soup_perm h _ [hi; c :: lo; [it]]) in S; [|perm_tac]. exact S. }
    destruct (Soup_join_exec h hi (c :: lo) [[it]] S0 Hhine ltac:(discriminate)) as (h1 & L1 & S1 & P1).
    cbn [hd] in L1, P1. rewrite L1. cbn [lift].
    assert (Hhd_c : hd0 hi <> c).
    { intros E. apply (NoDup_app_disj (c :: lo) (hi ++ [it]) c); auto; [left; reflexivity|].
      rewrite <- E. apply in_hd_app_l. exact Hhine. }
    rewrite (lp_prev_other _ _ _ _ P1) by exact Hhd_c. rewrite Ep_at2. cbn [lift].
    assert (Hne1 : hi ++ c :: lo <> []) by (destruct hi; discriminate).
    destruct (Soup_join_exec h1 (hi ++ c :: lo) [it] [] S1 Hne1 ltac:(discriminate)) as (h2 & L2 & S2 & P2).
    rewrite last_app_nonnil, last_cons_default in L2, P2 by discriminate. cbn [hd] in L2, P2.
    rewrite L2. cbn [lift].
    destruct (Soup_close_exec h2 ((hi ++ c :: lo) ++ [it]) [] S2) as (h3 & L3 & S3 & Ed3 & P3).
    { destruct hi; discriminate. }
    rewrite last_last in L3, P3, Ed3. rewrite <- app_assoc, hd_app_nonnil in L3, P3, Ed3 by exact Hhine.
    rewrite L3. cbn [lift].
    assert (R3 : Ring h3 (c :: lo ++ it :: hi)).
    { assert (R3' : Ring h3 (hi ++ (c :: lo) ++ [it])).
      { apply (Ring_intro _ _ 0); auto.
        - rewrite <- app_assoc in S3. exact S3.
        - destruct hi; discriminate.
        - rewrite app_assoc, last_last. rewrite <- app_assoc, hd_app_nonnil by exact Hhine. exact Ed3. }
      apply Ring_rot in R3'. rewrite <- app_assoc in R3'. exact R3'. }
    assert (F : Frame h h3 (c :: lo ++ hi ++ [it])).
    { assert (Ic : In c (c :: lo ++ hi ++ [it])) by (left; reflexivity).
      assert (Iit : In it (c :: lo ++ hi ++ [it])).
      { right. apply in_or_app. right. apply in_or_app. right. left. reflexivity. }
      assert (Ihh : In (hd0 hi) (c :: lo ++ hi ++ [it])).
      { right. apply in_or_app. right. apply in_hd_app_l. exact Hhine. }
      assert (Ilh : In (last hi 0) (c :: lo ++ hi ++ [it])).
      { right. apply in_or_app. right. apply in_last_app_l. exact Hhine. }
      assert (Ill : In (last lo c) (c :: lo ++ hi ++ [it])).
      { rewrite <- last_cons_default with (d := 0). change (c :: lo ++ hi ++ [it]) with ((c :: lo) ++ hi ++ [it]).
        apply in_last_app_l. discriminate. }
      intros x Hx.
      rewrite (LinkPost_Frame_in _ _ _ _ _ P3 Iit Ihh x Hx), (LinkPost_Frame_in _ _ _ _ _ P2 Ill Iit x Hx),
              (LinkPost_Frame_in _ _ _ _ _ P1 Ilh Ic x Hx). reflexivity. }
    assert (Lv : forall x, live h3 x <-> live h x).
    { intros x. rewrite (lp_live _ _ _ _ P3), (lp_live _ _ _ _ P2). apply (lp_live _ _ _ _ P1). }
    destruct (permute_master w X s h3 (lo ++ it :: hi) I) as [I' A']; auto.
    { rewrite Hsel. rewrite <- app_assoc. apply Permutation_app_head.
      apply (Permutation_cons_append hi it). }
    { rewrite Hsel. rewrite <- app_assoc. exact F. }
    exists (seth w h3), (lo ++ it :: hi). split; [reflexivity|]. split; [intros Hnf; split; [exact Hnf|reflexivity]|].
    split; [exact I'|exact A'].
Qed.

Lemma push_sort_ok cmp w X s key :
  QInv w X ->
  exists w' n, q_push_sort cmp w s key = Ok (w', n) /\ trace_ok w w' /\
    ((n = 0 /\ QInv w' X /\ abs w' X = abs w X /\ failed w' = true) \/
     (n <> 0 /\ ~ In n (addrs (abs w X)) /\ exists xs',
      QInv w' (upd s xs' X) /\
      abs w' (upd s xs' X) = upd s (ins_back cmp (n, key) (sel s (abs w X))) (abs w X))).
Proof.
  intros I. unfold q_push_sort. pose proof (qi_ring _ _ I s) as R0.
  rewrite (Ring_prev _ [] (qaddr s) (sel s X) R0). cbn [lift last].
  destruct (new_spec w X s I) as (w1 & n & E & [(Hn & Hc & Hf & Hs)|(Hn & M & Hval & Hf & Hs)]); rewrite E.
  { subst n. cbn [N.eqb]. exists w1, 0. split; [reflexivity|]. split; [intros H; contradiction|].
    left. split; [reflexivity|]. split; [eapply same_core_QInv; eauto|]. split; [apply same_core_abs; auto|auto]. }
  replace (N.eqb n 0) with false by (symmetry; apply N.eqb_neq; exact Hn).
  rewrite (mn_num_s _ _ _ _ M).
  pose proof (mn_ring _ _ _ _ M s) as R. set (c := qaddr s) in *. set (h := w_h w1) in *.
  pose proof (QMidNew_notin _ _ _ _ M) as Hnot. fold c in Hnot.
  assert (Ln : live h n) by (apply (mn_node _ _ _ _ M); left; reflexivity).
  destruct (ins_back_pairs cmp w n key (sel s X)) as [Hspec Hcut].
  set (sp := span (fun y => Z.ltb 0 (cmp (val w y) key)) (rev (sel s X))) in *.
  set (lo := rev (snd sp)) in *. set (hi := rev (fst sp)) in *.
  assert (Hat : hd c (snd sp) = last lo c) by (unfold lo; rewrite <- hd_rev, rev_involutive; reflexivity).
  (* where the scan stops *)
  assert (Escan : (if N.ltb 1 (N.of_nat (length (sel s X)) + 1)
                   then scan_back cmp h (w_val w1) c key (last (sel s X) c) (fuel_of w1)
                   else Ok (last (sel s X) c)) = Ok (last lo c)).
  { assert (Hc' : sel s X = [] \/ sel s X <> []) by (destruct (sel s X); [left; reflexivity|right; discriminate]).
    destruct Hc' as [Hnil|Hxne].
    - unfold lo, sp. rewrite Hnil. cbn. reflexivity.
    - replace (N.ltb 1 (N.of_nat (length (sel s X)) + 1)) with true.
      2:{ symmetry. apply N.ltb_lt. destruct (sel s X); [congruence|]. simpl length. lia. }
      assert (Hfuel : (length (sel s X) < fuel_of w1)%nat).
      { pose proof (mn_fresh _ _ _ _ M) as F. unfold fuel_of.
        assert (length (sel s X) <= length (allnodes w1 X))%nat.
        { unfold allnodes. rewrite !app_length. destruct s; simpl; lia. }
        simpl length in F. lia. }
      assert (R1 : Ring h (c :: sel s X ++ [])) by (rewrite app_nil_r; exact R).
      rewrite (scan_back_spec cmp h (w_val w1) c key (sel s X) [] (fuel_of w1) (val w1) R1 Hxne); auto.
      + rewrite (span_ext_in _ (fun y => Z.ltb 0 (cmp (val w y) key))).
        * fold sp. rewrite Hat. reflexivity.
        * intros y Hy. rewrite Hval; [reflexivity|]. intros ->. apply Hnot. right. apply in_rev. exact Hy.
      + intros y Hy. assert (V : vget (w_val w1) y <> None).
        { apply (mn_node _ _ _ _ M). right. eapply allnodes_sel; eauto. }
        unfold val. destruct (vget (w_val w1) y); congruence. }
  rewrite Escan. clearbody lo hi. clear Escan Hat.
  (* the ring seen from the first node behind the insertion point *)
  set (L := hi ++ c :: lo).
  assert (RL : Ring h L).
  { unfold L. rewrite Hcut in R. apply (Ring_rot h (c :: lo) hi). exact R. }
  assert (HlastL : last L 0 = last lo c).
  { unfold L. rewrite last_app_nonnil by discriminate. apply last_cons_default. }
  assert (HnL : ~ In n L).
  { unfold L. intros H. apply Hnot. rewrite Hcut. apply in_app_or in H.
    change (c :: lo ++ hi) with ((c :: lo) ++ hi). apply in_or_app. tauto. }
  destruct (insert_after h L n RL Ln HnL) as (h1 & h2 & L1 & L2 & R2 & En1 & F & Lv).
  pose proof (Ring_wrap _ _ 0 RL) as [Enx _]. rewrite HlastL in *.
  rewrite Enx. cbn [lift]. rewrite L1. cbn [lift]. rewrite L2. cbn [lift].
  eexists _, n. split; [reflexivity|].
  assert (R2' : Ring h2 (c :: lo ++ n :: hi)).
  { unfold L in R2. change (n :: hi ++ c :: lo) with ((n :: hi) ++ (c :: lo)) in R2.
    apply Ring_rot in R2. exact R2. }
  destruct (insert_master w X s w1 n h2 lo hi key M Hval Hcut R2') as (I' & A' & Nn); auto.
  { eapply Frame_incl; eauto. fold c. rewrite Hcut. unfold L. intros x [<-|Hx]; [left; reflexivity|].
    right. apply in_app_or in Hx. change (c :: lo ++ hi) with ((c :: lo) ++ hi). apply in_or_app. tauto. }
  split; [|right; split; [exact Hn|split; [exact Nn|exists (lo ++ n :: hi); split; [exact I'|rewrite sel_abs, Hspec; exact A']]]].
  intros H. split; [apply Hs; exact H|exact Hf].
Qed.

(* ------------------------------------------------------------------ a_que_swap_ (repaired): heap level *)
Definition swap_fix (h : dheap) (l r : id) : option dheap :=
  do ln <- rd_next h l;
  if N.eqb ln r then (do h1 <- l_del_node h l; l_add_next h1 r l)
  else do rn <- rd_next h r;
       if N.eqb rn l then (do h1 <- l_del_node h r; l_add_next h1 l r) else l_swap_node h l r.

Lemma q_swap_elem_eq w l r :
  q_swap_elem w l r = match swap_fix (w_h w) l r with Some h' => Ok (seth w h') | None => Fault end.
Proof.
  unfold q_swap_elem, swap_fix. destruct (rd_next (w_h w) l) as [ln|]; cbn [lift]; [|reflexivity].
  destruct (N.eqb ln r).
  - destruct (l_del_node (w_h w) l) as [h1|]; cbn [lift]; [|reflexivity].
    destruct (l_add_next h1 r l); reflexivity.
  - destruct (rd_next (w_h w) r) as [rn|]; cbn [lift]; [|reflexivity].
    destruct (N.eqb rn l).
    + destruct (l_del_node (w_h w) r) as [h1|]; cbn [lift]; [|reflexivity].
      destruct (l_add_next h1 l r); reflexivity.
    + destruct (l_swap_node (w_h w) l r); reflexivity.
Qed.

Lemma neqb_false a b : a <> b -> N.eqb a b = false.
Proof. intros H. apply N.eqb_neq. exact H. Qed.

(* both nodes in one ring, seen from l:  l :: a ++ r :: b  becomes  r :: a ++ l :: b *)
Lemma swap_in_ring h l a r b :
  Ring h (l :: a ++ r :: b) -> a ++ b <> [] ->
  exists h', swap_fix h l r = Some h' /\ Ring h' (r :: a ++ l :: b) /\
    Frame h h' (l :: a ++ r :: b) /\ (forall x, live h' x <-> live h x).
Proof.
  intros R Hab. pose proof (Ring_NoDup _ _ R) as ND. unfold swap_fix.
  destruct a as [|a0 a'].
  - (* l -> r adjacent *)
    cbn [app] in *. assert (Hb : b <> []) by exact Hab.
    rewrite (Ring_next h [] l (r :: b) R). cbn [hd]. rewrite N.eqb_refl.
    destruct (del_node_spec h [] l (r :: b) R) as (h1 & E1 & R1 & D1 & F1 & L1); [discriminate|].
    cbn [app] in *. rewrite E1.
    assert (Ll : live h1 l) by (apply L1; eapply Ring_live; eauto; left; reflexivity).
    assert (Hl : ~ In l (r :: b)) by (apply NoDup_cons_iff in ND; tauto).
    destruct (add_next_spec h1 r b l R1 Ll Hl) as (h2 & E2 & R2 & F2 & L2).
    exists h2. split; [exact E2|]. split; [exact R2|]. split.
    + eapply Frame_incl; [eapply Frame_trans; eauto|]. intros x Hx. apply in_app_or in Hx.
      destruct Hx as [Hx|[<-|[<-|[<-|[]]]]]; simpl; auto. destruct b; simpl; auto.
    + intros x. rewrite L2. apply L1.
  - set (a := a0 :: a') in *. assert (Ha : a <> []) by discriminate.
    assert (Hln : rd_next h l = Some (hd0 a)) by (apply (Ring_next h [] l (a ++ r :: b) R)).
    rewrite Hln. 
    assert (Hne1 : hd0 a <> r).
    { intros E. apply NoDup_cons_iff in ND. destruct ND as [_ ND]. apply NoDup_remove_2 in ND. apply ND.
      apply in_or_app. left. rewrite <- E. apply in_hd. exact Ha. }
    rewrite (neqb_false _ _ Hne1).
    destruct b as [|b0 b'].
    + (* r -> l adjacent (through the end of the list) *)
      assert (R0 : Ring h ((l :: a) ++ r :: [])) by exact R.
      rewrite (Ring_next h (l :: a) r [] R0). cbn [hd]. rewrite N.eqb_refl.
      destruct (del_node_spec h (l :: a) r [] R0) as (h1 & E1 & R1 & D1 & F1 & L1); [discriminate|].
      rewrite app_nil_r in *. rewrite E1.
      assert (Lr : live h1 r).
      { apply L1. eapply Ring_live; eauto. right. apply in_or_app. right. left. reflexivity. }
      assert (Hr : ~ In r (l :: a)).
      { change (l :: a ++ [r]) with ((l :: a) ++ [r]) in ND. intros H. eapply NoDup_app_disj; eauto. left; reflexivity. }
      destruct (add_next_spec h1 l a r R1 Lr Hr) as (h2 & E2 & R2 & F2 & L2).
      exists h2. split; [exact E2|]. split; [|split].
      * apply (Ring_rot h2 [l] (r :: a)) in R2. exact R2.
      * eapply Frame_incl; [eapply Frame_trans; eauto|]. intros x Hx. apply in_app_or in Hx.
        change (l :: a ++ [r]) with ((l :: a) ++ [r]). apply in_or_app.
        destruct Hx as [Hx|[<-|[<-|[<-|[]]]]]; simpl; auto.
      * intros x. rewrite L2. apply L1.
    + set (b := b0 :: b') in *. assert (Hb : b <> []) by discriminate.
      assert (R0 : Ring h ((l :: a) ++ r :: b)) by exact R.
      rewrite (Ring_next h (l :: a) r b R0).
      assert (Hne2 : hd (hd r (l :: a)) b <> l).
      { unfold b. cbn [hd]. intros E. apply NoDup_cons_iff in ND. destruct ND as [ND _]. apply ND.
        apply in_or_app. right. right. left. exact E. }
      rewrite (neqb_false _ _ Hne2).
      apply (swap_node_same_ring h l a r b R Ha Hb).
Qed.

Lemma swap_two h l A r B :
  Ring h (l :: A) -> Ring h (r :: B) -> Soup h [l :: A; r :: B] -> A <> [] -> B <> [] ->
  exists h', swap_fix h l r = Some h' /\ Ring h' (r :: A) /\ Ring h' (l :: B) /\
    Frame h h' ((l :: A) ++ r :: B) /\ (forall x, live h' x <-> live h x).
Proof.
  intros Ra Rb S HA HB. unfold swap_fix.
  rewrite (Ring_next h [] l A Ra). cbn [hd].
  assert (Hne1 : hd l A <> r).
  { intros E. apply (concat_disj [l :: A; r :: B] 0%nat 1%nat (l :: A) (r :: B) r (Soup_NoDup _ _ S)); auto.
    - right. rewrite <- E. destruct A; [congruence|left; reflexivity].
    - left; reflexivity. }
  rewrite (neqb_false _ _ Hne1). rewrite (Ring_next h [] r B Rb). cbn [hd].
  assert (Hne2 : hd r B <> l).
  { intros E. apply (concat_disj [l :: A; r :: B] 0%nat 1%nat (l :: A) (r :: B) l (Soup_NoDup _ _ S)); auto.
    - left; reflexivity.
    - right. rewrite <- E. destruct B; [congruence|left; reflexivity]. }
  rewrite (neqb_false _ _ Hne2).
  apply (swap_node_two_rings h l A r B Ra Rb S HA HB).
Qed.

Lemma swap_same h l A :
  Ring h (l :: A) -> A <> [] ->
  exists h', swap_fix h l l = Some h' /\ Ring h' (l :: A) /\ Frame h h' (l :: A) /\ (forall x, live h' x <-> live h x).
Proof.
  intros R HA. unfold swap_fix. rewrite (Ring_next h [] l A R). cbn [hd].
  assert (Hne : hd l A <> l).
  { intros E. apply Ring_NoDup in R. apply NoDup_cons_iff in R. apply (proj1 R). rewrite <- E.
    destruct A; [congruence|left; reflexivity]. }
  rewrite (neqb_false _ _ Hne). apply (swap_node_self h l A R).
Qed.

(* ------------------------------------------------------------------ exchanging two addresses in lists *)
Definition swap_ids (l r : id) (xs : list id) : list id :=
  map (fun x => if N.eqb x l then r else if N.eqb x r then l else x) xs.

Lemma swap_ids_notin l r xs : ~ In l xs -> ~ In r xs -> swap_ids l r xs = xs.
Proof.
  intros Hl Hr. unfold swap_ids. rewrite <- (map_id xs) at 2. apply map_ext_in. intros x Hx.
  rewrite neqb_false by (intros ->; auto). rewrite neqb_false by (intros ->; auto). reflexivity.
Qed.

Lemma swap_ids_app l r xs ys : swap_ids l r (xs ++ ys) = swap_ids l r xs ++ swap_ids l r ys.
Proof. apply map_app. Qed.

Lemma swap_ids_lr l r p m q :
  NoDup (p ++ l :: m ++ r :: q) -> swap_ids l r (p ++ l :: m ++ r :: q) = p ++ r :: m ++ l :: q.
Proof.
  intros ND.
  assert (Hlr : l <> r).
  { intros ->. apply NoDup_remove_2 in ND. apply ND. apply in_or_app. right. apply in_or_app. right. left. reflexivity. }
  assert (Hl : forall x, In x (p ++ m ++ q) -> x <> l).
  { intros x Hx ->. apply NoDup_remove_2 in ND. apply ND. apply in_app_or in Hx. apply in_or_app.
    destruct Hx as [Hx|Hx]; [left; exact Hx|right]. apply in_app_or in Hx. apply in_or_app.
    destruct Hx; [left|right; right]; assumption. }
  assert (Hr : forall x, In x (p ++ m ++ q) -> x <> r).
  { intros x Hx ->. rewrite app_comm_cons, app_assoc in ND. apply NoDup_remove_2 in ND. apply ND.
    apply in_app_or in Hx. apply in_or_app. destruct Hx as [Hx|Hx].
    - left. apply in_or_app. left. exact Hx.
    - apply in_app_or in Hx. destruct Hx; [left; apply in_or_app; right; right; assumption|right; assumption]. }
  rewrite swap_ids_app. cbn [swap_ids map]. fold (swap_ids l r (m ++ r :: q)). fold (swap_ids l r p).
  rewrite swap_ids_app. cbn [swap_ids map]. fold (swap_ids l r q). fold (swap_ids l r m).
  rewrite N.eqb_refl, (neqb_false r l) by congruence. rewrite N.eqb_refl.
  rewrite !swap_ids_notin; auto; intros H.
  - apply (Hl l); auto. apply in_or_app. right. apply in_or_app. right. exact H.
  - apply (Hr r); auto. apply in_or_app. right. apply in_or_app. right. exact H.
  - apply (Hl l); auto. apply in_or_app. right. apply in_or_app. left. exact H.
  - apply (Hr r); auto. apply in_or_app. right. apply in_or_app. left. exact H.
  - apply (Hl l); auto. apply in_or_app. left. exact H.
  - apply (Hr r); auto. apply in_or_app. left. exact H.
Qed.

Lemma swap_ids_comm l r xs : swap_ids l r xs = swap_ids r l xs.
Proof.
  unfold swap_ids. apply map_ext. intros x.
  destruct (N.eqb_spec x l), (N.eqb_spec x r); congruence.
Qed.

Lemma swap_ids_self l xs : swap_ids l l xs = xs.
Proof.
  unfold swap_ids. rewrite <- (map_id xs) at 2. apply map_ext. intros x.
  destruct (N.eqb_spec x l); congruence.
Qed.

Lemma pairs_swap_ids w l r xs :
  pairs w (swap_ids l r xs) = swap_pairs (l, val w l) (r, val w r) (pairs w xs).
Proof.
  unfold pairs, swap_ids, swap_pairs. rewrite !map_map. apply map_ext. intros x. cbn [fst].
  destruct (N.eqb_spec x l); [reflexivity|]. destruct (N.eqb_spec x r); [reflexivity|reflexivity].
Qed.

(* two different members of a list without repetition: one comes first *)
Lemma two_in_split (l r : id) xs :
  In l xs -> In r xs -> l <> r ->
  (exists p m q, xs = p ++ l :: m ++ r :: q) \/ (exists p m q, xs = p ++ r :: m ++ l :: q).
Proof.
  intros Hl Hr Hne. apply in_split in Hl. destruct Hl as (p & t & ->).
  apply in_app_or in Hr. destruct Hr as [Hr|[Hr|Hr]]; [|congruence|].
  - right. apply in_split in Hr. destruct Hr as (p1 & p2 & ->). exists p1, p2, t.
    rewrite <- app_assoc. reflexivity.
  - left. apply in_split in Hr. destruct Hr as (t1 & t2 & ->). exists p, t1, t2. reflexivity.
Qed.

(* ------------------------------------------------------------------ both rings may change *)
Lemma rings_master w X h' X' :
  QInv w X -> (forall s, Ring h' (qaddr s :: sel s X')) ->
  Permutation (fst X' ++ snd X') (fst X ++ snd X) -> (forall s, length (sel s X') = length (sel s X)) ->
  (forall x, live h' x <-> live (w_h w) x) ->
  QInv (seth w h') X'.
Proof.
  intros I R P Hlen Lv.
  assert (Hperm : Permutation (allnodes (seth w h') X') (allnodes w X)).
  { unfold allnodes. change (pools (seth w h')) with (pools w). rewrite !app_assoc.
    apply Permutation_app_tail. exact P. }
  constructor.
  - exact R.
  - eapply Permutation_NoDup; [symmetry; exact Hperm|apply (qi_nodup _ _ I)].
  - intros x Hx. eapply Permutation_in in Hx; [|exact Hperm].
    pose proof (qi_node _ _ I x Hx) as (B & L & V). split; [exact B|]. split; [apply Lv; exact L|exact V].
  - intros t. change (getq (seth w h') t) with (getq w t). rewrite Hlen. apply (qi_num _ _ I).
  - intros t. apply (qi_mem _ _ I).
  - rewrite (Permutation_length Hperm). apply (qi_fresh _ _ I).
Qed.

Lemma Soup_two_rings h l1 l2 : Ring h l1 -> Ring h l2 -> (forall x, In x l1 -> ~ In x l2) -> Soup h [l1; l2].
Proof.
  intros R1 R2 D. apply (Soup_app h [l1] [l2]); auto using Ring_Soup.
  simpl. intros x. rewrite !app_nil_r. apply D.
Qed.

Lemma swap_ids_one l r p q :
  NoDup (p ++ l :: q) -> ~ In r (p ++ l :: q) -> swap_ids l r (p ++ l :: q) = p ++ r :: q.
Proof.
  intros ND Hr. rewrite swap_ids_app. cbn [swap_ids map]. fold (swap_ids l r q). fold (swap_ids l r p).
  rewrite N.eqb_refl. pose proof (NoDup_remove_2 _ _ _ ND) as Hl.
  rewrite !swap_ids_notin; auto; intros H.
  - apply Hl. apply in_or_app. right. exact H.
  - apply Hr. apply in_or_app. right. right. exact H.
  - apply Hl. apply in_or_app. left. exact H.
  - apply Hr. apply in_or_app. left. exact H.
Qed.

Lemma in_fst_snd_sel {A} (X : list A * list A) x : In x (fst X ++ snd X) -> exists s, In x (sel s X).
Proof. intros H. apply in_app_or in H. destruct H; [exists false|exists true]; assumption. Qed.

Lemma QInv_sel_disj w X s x : QInv w X -> In x (sel s X) -> ~ In x (sel (negb s) X).
Proof.
  intros I H H'. eapply (QInv_rings_disj w X s x I); right; eauto.
Qed.

Lemma QInv_sel_NoDup w X s : QInv w X -> NoDup (sel s X).
Proof.
  intros I. pose proof (Ring_NoDup _ _ (qi_ring _ _ I s)) as N. apply NoDup_cons_iff in N. tauto.
Qed.

Lemma swap_elem_heap w X l r :
  QInv w X -> In l (fst X ++ snd X) -> In r (fst X ++ snd X) ->
  exists h', swap_fix (w_h w) l r = Some h' /\
    (forall t, Ring h' (qaddr t :: swap_ids l r (sel t X))) /\ (forall x, live h' x <-> live (w_h w) x).
Proof.
  intros I Hl Hr. destruct (in_fst_snd_sel X l Hl) as [s Hls].
  pose proof (qi_ring _ _ I s) as Rs. pose proof (qi_ring _ _ I (negb s)) as Ro.
  set (c := qaddr s) in *. set (c' := qaddr (negb s)) in *. set (h := w_h w) in *.
  assert (Hother : forall h' S, Frame h h' S -> (forall x, In x S -> In x (c :: sel s X)) ->
                   Ring h' (c' :: sel (negb s) X)).
  { intros h' S F Hin. eapply Ring_Frame; eauto. intros x Hx HS. apply Hin in HS.
    eapply (QInv_rings_disj' w X s x I); eauto. }
  destruct (N.eq_dec l r) as [<-|Hlr].
  - (* the same element twice *)
    apply in_split in Hls. destruct Hls as (p & q & Hsel). rewrite Hsel in Rs.
    assert (R1 : Ring h (l :: q ++ c :: p)) by (apply (Ring_rot h (c :: p) (l :: q)); exact Rs).
    destruct (swap_same h l (q ++ c :: p) R1) as (h' & E & R' & F & Lv); [destruct q; discriminate|].
    exists h'. split; [exact E|]. split; [|exact Lv].
    intros t. rewrite swap_ids_self. destruct (bool_cases s t) as [->| ->].
    + fold c. rewrite Hsel. apply (Ring_rot h' (l :: q) (c :: p)). exact R'.
    + eapply Hother; eauto. intros x Hx. rewrite Hsel.
      change (l :: q ++ c :: p) with ((l :: q) ++ (c :: p)) in Hx. apply in_app_or in Hx.
      change (c :: p ++ l :: q) with ((c :: p) ++ (l :: q)). apply in_or_app. tauto.
  - destruct (in_fst_snd_sel X r Hr) as [s' Hrs]. destruct (bool_cases s s') as [->| ->].
    + (* both in queue s *)
      pose proof (QInv_sel_NoDup w X s I) as NDs.
      assert (Hno_l : ~ In l (sel (negb s) X)) by (eapply QInv_sel_disj; eauto).
      assert (Hno_r : ~ In r (sel (negb s) X)) by (eapply QInv_sel_disj; eauto).
      destruct (two_in_split l r (sel s X) Hls Hrs Hlr) as [(p & m & q & Hsel)|(p & m & q & Hsel)];
        rewrite Hsel in Rs, NDs.
      * assert (R1 : Ring h (l :: m ++ r :: (q ++ c :: p))).
        { apply (Ring_rot h (c :: p) (l :: m ++ r :: q)) in Rs. cbn [app] in Rs. rewrite <- app_assoc in Rs. exact Rs. }
        destruct (swap_in_ring h l m r (q ++ c :: p) R1) as (h' & E & R' & F & Lv).
        { destruct m; [destruct q|]; discriminate. }
        exists h'. split; [exact E|]. split; [|exact Lv].
        intros t. destruct (bool_cases s t) as [->| ->].
        -- fold c. rewrite Hsel, swap_ids_lr by exact NDs.
           replace (r :: m ++ l :: q ++ c :: p) with ((r :: m ++ l :: q) ++ (c :: p)) in R'
             by (cbn [app]; rewrite <- app_assoc; reflexivity).
           apply Ring_rot in R'. exact R'.
        -- rewrite swap_ids_notin by assumption. eapply Hother; eauto. intros x Hx. rewrite Hsel.
           replace (l :: m ++ r :: q ++ c :: p) with ((l :: m ++ r :: q) ++ (c :: p)) in Hx
             by (cbn [app]; rewrite <- app_assoc; reflexivity).
           apply in_app_or in Hx. change (c :: p ++ l :: m ++ r :: q) with ((c :: p) ++ (l :: m ++ r :: q)).
           apply in_or_app. tauto.
      * assert (R1 : Ring h (l :: (q ++ c :: p) ++ r :: m)).
        { replace (c :: p ++ r :: m ++ l :: q) with ((c :: p ++ r :: m) ++ (l :: q)) in Rs
            by (cbn [app]; rewrite <- app_assoc; reflexivity).
          apply Ring_rot in Rs. cbn [app] in Rs. rewrite <- app_assoc. exact Rs. }
        destruct (swap_in_ring h l (q ++ c :: p) r m R1) as (h' & E & R' & F & Lv).
        { destruct q; discriminate. }
        exists h'. split; [exact E|]. split; [|exact Lv].
        intros t. destruct (bool_cases s t) as [->| ->].
        -- fold c. rewrite Hsel, swap_ids_comm, swap_ids_lr by exact NDs.
           replace (r :: (q ++ c :: p) ++ l :: m) with ((r :: q) ++ (c :: p ++ l :: m)) in R'
             by (cbn [app]; rewrite <- app_assoc; reflexivity).
           apply Ring_rot in R'. cbn [app] in R'. rewrite <- app_assoc in R'. exact R'.
        -- rewrite swap_ids_notin by assumption. eapply Hother; eauto. intros x Hx. rewrite Hsel.
           replace (l :: (q ++ c :: p) ++ r :: m) with ((l :: q) ++ (c :: p ++ r :: m)) in Hx
             by (cbn [app]; rewrite <- app_assoc; reflexivity).
           apply in_app_or in Hx.
           replace (c :: p ++ r :: m ++ l :: q) with ((c :: p ++ r :: m) ++ (l :: q))
             by (cbn [app]; rewrite <- app_assoc; reflexivity).
           apply in_or_app. tauto.
    + (* l in queue s, r in the other queue *)
      pose proof (QInv_sel_NoDup w X s I) as NDs. pose proof (QInv_sel_NoDup w X (negb s) I) as NDo.
      assert (Hno_r : ~ In r (sel s X)).
      { intros H. eapply (QInv_sel_disj w X s r); eauto. }
      assert (Hno_l : ~ In l (sel (negb s) X)) by (eapply QInv_sel_disj; eauto).
      apply in_split in Hls. destruct Hls as (p & q & Hsel).
      apply in_split in Hrs. destruct Hrs as (p' & q' & Hsel').
      rewrite Hsel in Rs, NDs, Hno_r. rewrite Hsel' in Ro, NDo, Hno_l.
      assert (R1 : Ring h (l :: q ++ c :: p)) by (apply (Ring_rot h (c :: p) (l :: q)); exact Rs).
      assert (R2 : Ring h (r :: q' ++ c' :: p')) by (apply (Ring_rot h (c' :: p') (r :: q')); exact Ro).
      assert (S : Soup h [l :: q ++ c :: p; r :: q' ++ c' :: p']).
      { apply Soup_two_rings; auto. intros x Hx Hx'.
        apply (QInv_rings_disj w X s x I).
        - fold c. rewrite Hsel. change (l :: q ++ c :: p) with ((l :: q) ++ (c :: p)) in Hx.
          apply in_app_or in Hx. change (c :: p ++ l :: q) with ((c :: p) ++ (l :: q)). apply in_or_app. tauto.
        - fold c'. rewrite Hsel'. change (r :: q' ++ c' :: p') with ((r :: q') ++ (c' :: p')) in Hx'.
          apply in_app_or in Hx'. change (c' :: p' ++ r :: q') with ((c' :: p') ++ (r :: q')). apply in_or_app. tauto. }
      destruct (swap_two h l (q ++ c :: p) r (q' ++ c' :: p') R1 R2 S) as (h' & E & Ra & Rb & F & Lv).
      { destruct q; discriminate. } { destruct q'; discriminate. }
      exists h'. split; [exact E|]. split; [|exact Lv].
      intros t. destruct (bool_cases s t) as [->| ->].
      * fold c. rewrite Hsel, swap_ids_one by assumption.
        apply (Ring_rot h' (r :: q) (c :: p)). exact Ra.
      * fold c'. rewrite Hsel', swap_ids_comm, swap_ids_one by assumption.
        apply (Ring_rot h' (l :: q') (c' :: p')). exact Rb.
Qed.

Lemma swap_ids_perm l r xs :
  NoDup xs -> In l xs -> In r xs -> Permutation (swap_ids l r xs) xs.
Proof.
  intros ND Hl Hr. destruct (N.eq_dec l r) as [<-|Hne]; [rewrite swap_ids_self; reflexivity|].
  destruct (two_in_split l r xs Hl Hr Hne) as [(p & m & q & ->)|(p & m & q & ->)].
  - rewrite swap_ids_lr by exact ND. perm_app. apply perm_swap.
  - rewrite swap_ids_comm, swap_ids_lr by exact ND. perm_app. apply perm_swap.
Qed.

Lemma swap_elem_ok w X l r :
  QInv w X -> In l (fst X ++ snd X) -> In r (fst X ++ snd X) ->
  exists w', q_swap_elem w l r = Ok w' /\ trace_ok w w' /\
    let X' := (swap_ids l r (fst X), swap_ids l r (snd X)) in
    QInv w' X' /\
    abs w' X' = (swap_pairs (l, val w l) (r, val w r) (fst (abs w X)),
                 swap_pairs (l, val w l) (r, val w r) (snd (abs w X))).
Proof.
  intros I Hl Hr. destruct (swap_elem_heap w X l r I Hl Hr) as (h' & E & R & Lv).
  rewrite q_swap_elem_eq, E. exists (seth w h'). split; [reflexivity|].
  split; [intros H; split; [exact H|reflexivity]|]. split.
  - apply (rings_master w X h'); auto.
    + intros t. destruct t; apply R.
    + cbn [fst snd]. rewrite <- swap_ids_app. apply swap_ids_perm; auto.
      pose proof (qi_nodup _ _ I) as N. unfold allnodes in N. rewrite app_assoc in N. eapply NoDup_app_l; eauto.
    + intros t. destruct t; cbn [sel fst snd]; apply map_length.
  - unfold abs. cbn [fst snd]. rewrite !pairs_swap_ids. reflexivity.
Qed.

(* ------------------------------------------------------------------ a_que_swap (repaired) *)
Lemma Seg_fields h h' l :
  Seg h l -> (forall x, In x (removelast l) -> rd_next h' x = rd_next h x) ->
  (forall y, In y (tl l) -> rd_prev h' y = rd_prev h y) -> Seg h' l.
Proof.
  induction l as [|a l IH]; intros S Hn Hp; [exact I|]. destruct l as [|b l]; [exact I|].
  destruct S as [[E1 E2] S]. split.
  - split; [rewrite Hn; [exact E1|left; reflexivity]|rewrite Hp; [exact E2|left; reflexivity]].
  - apply IH; auto.
    + intros x Hx. apply Hn. right. exact Hx.
    + intros y Hy. apply Hp. right. exact Hy.
Qed.

(* a_que_move_: the sentinel [self] holds a copy of the fields of [from]; re-attach the ring *)
Lemma move_spec h0 self from ys :
  Piece h0 ys -> NoDup (self :: ys) -> live h0 self -> from <> self -> ~ In from ys ->
  rd_next h0 self = Some (hd from ys) -> rd_prev h0 self = Some (last ys from) ->
  exists h1, q_move_ h0 self from = Ok h1 /\ Ring h1 (self :: ys) /\
    Frame h0 h1 (self :: ys) /\ (forall x, live h1 x <-> live h0 x).
Proof.
  intros [Sg Lv] ND Ls Hfs Hfy En Ep. unfold q_move_. rewrite En. cbn [lift].
  destruct ys as [|y t].
  - cbn [hd]. rewrite N.eqb_refl. destruct (init_ring h0 self Ls) as (h1 & E & R & F & L).
    rewrite E. exists h1. cbn [lift]. auto.
  - cbn [hd]. assert (Hyf : y <> from) by (intros ->; apply Hfy; left; reflexivity).
    rewrite (neqb_false _ _ Hyf).
    assert (Ly : live h0 y) by (inversion Lv; auto).
    destruct (wr_prev_spec h0 y self Ly) as (h1 & E1 & P1 & N1 & O1 & L1). rewrite E1. cbn [lift].
    assert (Hsy : self <> y) by (apply NoDup_cons_iff in ND; intros ->; apply (proj1 ND); left; reflexivity).
    rewrite (rd_prev_dget h0 h1 self) by (apply O1; exact Hsy). rewrite Ep. cbn [lift].
    set (z := last (y :: t) from).
    assert (Hz : In z (y :: t)).
    { unfold z. rewrite <- last_cons_default with (d := 0). rewrite last_cons_default.
      destruct (snoc_cases (y :: t)) as [H|(m & u & H)]; [discriminate|]. rewrite H, last_last.
      apply in_or_app. right. left. reflexivity. }
    assert (Lz : live h1 z) by (apply L1; rewrite Forall_forall in Lv; auto).
    destruct (wr_next_spec h1 z self Lz) as (h2 & E2 & N2 & P2 & O2 & L2). rewrite E2. cbn [lift].
    assert (Hsz : self <> z) by (apply NoDup_cons_iff in ND; intros E; apply (proj1 ND); rewrite E; exact Hz).
    exists h2. split; [reflexivity|]. split; [|split].
    + apply Ring_iff_Seg. split; [exact ND|]. split.
      * rewrite Forall_forall. intros x Hx. apply L2, L1. destruct Hx as [<-|Hx]; [exact Ls|].
        rewrite Forall_forall in Lv. auto.
      * assert (ND' : NoDup (y :: t)) by (apply NoDup_cons_iff in ND; tauto).
        change (self :: (y :: t) ++ [self]) with ([self] ++ (y :: t) ++ [self]).
        assert (Sg2 : Seg h2 (y :: t)).
        { apply (Seg_fields h0); auto.
          - intros x Hx. destruct (N.eq_dec x z) as [->|Hxz].
            + exfalso. unfold z in Hx. 
              destruct (snoc_cases (y :: t)) as [H|(m & u & H)]; [discriminate|].
              rewrite H in Hx, ND'. rewrite removelast_last in Hx.
              rewrite <- last_cons_default with (d := 0) in Hx. rewrite last_cons_default in Hx.
              rewrite <- H in Hx. fold z in Hx.
              assert (z = u) by (unfold z; rewrite H; apply last_last). subst u.
              eapply NoDup_app_disj; eauto. left; reflexivity.
            + rewrite (rd_next_dget h1 h2 x) by (apply O2; exact Hxz).
              destruct (N.eq_dec x y) as [->|Hxy]; [exact N1|]. apply rd_next_dget, O1. exact Hxy.
          - intros x Hx. cbn [tl] in Hx.
            assert (Hxy : x <> y) by (intros ->; apply NoDup_cons_iff in ND'; tauto).
            destruct (N.eq_dec x z) as [->|Hxz].
            + rewrite P2. apply rd_prev_dget, O1. exact Hxy.
            + rewrite (rd_prev_dget h1 h2 x) by (apply O2; exact Hxz). apply rd_prev_dget, O1. exact Hxy. }
        cbn [app]. split.
        -- split.
           ++ rewrite (rd_next_dget h1 h2 self) by (apply O2; exact Hsz).
              rewrite (rd_next_dget h0 h1 self) by (apply O1; exact Hsy). exact En.
           ++ destruct (N.eq_dec y z) as [Eyz|Hyz].
              ** rewrite Eyz, P2, <- Eyz. exact P1.
              ** rewrite (rd_prev_dget h1 h2 y) by (apply O2; exact Hyz). exact P1.
        -- change (y :: t ++ [self]) with ((y :: t) ++ [self]).
           destruct (snoc_cases (y :: t)) as [H|(m & u & H)]; [discriminate|].
           assert (Hzu : z = u) by (unfold z; rewrite H; apply last_last).
           rewrite H in *. rewrite <- app_assoc. cbn [app]. apply Seg_app_iff. split; [exact Sg2|].
           cbn [Seg]. split; [|exact I]. rewrite <- Hzu. split; [exact N2|].
           rewrite (rd_prev_dget h1 h2 self) by (apply O2; exact Hsz).
           rewrite (rd_prev_dget h0 h1 self) by (apply O1; exact Hsy). rewrite Ep, last_last, Hzu. reflexivity.
    + intros x Hx. rewrite O2, O1; auto.
      * intros ->. apply Hx. right. left. reflexivity.
      * intros ->. apply Hx. right. exact Hz.
    + intros x. rewrite L2. apply L1.
Qed.

Lemma rd_next_dget2 h h' x y : dget h' x = dget h y -> rd_next h' x = rd_next h y.
Proof. unfold rd_next. intros ->. reflexivity. Qed.
Lemma rd_prev_dget2 h h' x y : dget h' x = dget h y -> rd_prev h' x = rd_prev h y.
Proof. unfold rd_prev. intros ->. reflexivity. Qed.

Lemma sel_swap {A} (X : A * A) t : sel t (snd X, fst X) = sel (negb t) X.
Proof. destruct t; reflexivity. Qed.

Lemma swap_ok w X s1 s2 :
  QInv w X ->
  exists w', q_swap w s1 s2 = Ok w' /\ trace_ok w w' /\
    let X' := if Bool.eqb s1 s2 then X else (snd X, fst X) in
    QInv w' X' /\ abs w' X' = (if Bool.eqb s1 s2 then abs w X else (snd (abs w X), fst (abs w X))).
Proof.
  intros I. unfold q_swap. destruct (Bool.eqb s1 s2) eqn:Heq.
  { exists w. split; [reflexivity|]. split; [apply trace_ok_refl|]. auto. }
  assert (Hs2 : s2 = negb s1) by (destruct s1, s2; simpl in Heq; try discriminate; reflexivity). subst s2. clear Heq.
  set (h := w_h w).
  destruct (QInv_live_sentinel w X false I) as [na Hna]. destruct (QInv_live_sentinel w X true I) as [nb Hnb].
  cbn [qaddr] in Hna, Hnb. unfold q_struct_swap. fold h in Hna, Hnb |- *. rewrite Hna, Hnb. cbn [lift].
  set (h0 := dset (dset h 1 nb) 2 na).
  set (w1 := mkW h0 (w_val w) (w_fresh w) (w_qb w) (w_qa w) (w_sched w) (w_trace w)).
  set (a := qaddr s1). set (b := qaddr (negb s1)).
  assert (Hab : a <> b) by (unfold a, b; destruct s1; discriminate).
  assert (Ha0 : dget h0 a = dget h b).
  { unfold h0, a, b. destruct s1; cbn [qaddr negb].
    - rewrite dget_dset_same by discriminate. symmetry. exact Hna.
    - rewrite dget_dset_other, dget_dset_same by discriminate. symmetry. exact Hnb. }
  assert (Hb0 : dget h0 b = dget h a).
  { unfold h0, a, b. destruct s1; cbn [qaddr negb].
    - rewrite dget_dset_other, dget_dset_same by discriminate. symmetry. exact Hnb.
    - rewrite dget_dset_same by discriminate. symmetry. exact Hna. }
  assert (Hx0 : forall x, x <> 1 -> x <> 2 -> dget h0 x = dget h x).
  { intros x H1 H2. unfold h0. rewrite !dget_dset_other by congruence. reflexivity. }
  assert (Hnode : forall x, In x (allnodes w X) -> dget h0 x = dget h x).
  { intros x Hx. pose proof (QInv_node_ge3 w X x I Hx). apply Hx0; lia. }
  assert (Lv0 : forall x, live h0 x <-> live h x).
  { intros x. unfold live. destruct (N.eq_dec x a) as [->|Hxa]; [rewrite Ha0|].
    - split; intros _.
      + apply (QInv_live_sentinel w X s1 I).
      + apply (QInv_live_sentinel w X (negb s1) I).
    - destruct (N.eq_dec x b) as [->|Hxb]; [rewrite Hb0|].
      + split; intros _.
        * apply (QInv_live_sentinel w X (negb s1) I).
        * apply (QInv_live_sentinel w X s1 I).
      + rewrite Hx0; [reflexivity| |]; unfold a, b in *; destruct s1; cbn [qaddr negb] in *; congruence. }
  pose proof (qi_ring _ _ I s1) as Ra. pose proof (qi_ring _ _ I (negb s1)) as Rb. fold h a in Ra. fold h b in Rb.
  set (xa := sel s1 X) in *. set (xb := sel (negb s1) X) in *.
  assert (Pa : forall hh, (forall x, In x xa -> dget hh x = dget h x) -> Piece hh xa).
  { intros hh Hs. apply Ring_Soup in Ra. destruct Ra as [_ F]. inversion F as [|? ? P _]; subst.
    change (a :: xa) with ([a] ++ xa) in P. apply Piece_app_inv in P. destruct P as [_ [Sg L]]. split.
    - eapply Seg_same; eauto.
    - rewrite Forall_forall in *. intros x Hx. unfold live. rewrite Hs by exact Hx. apply L. exact Hx. }
  assert (Pb : forall hh, (forall x, In x xb -> dget hh x = dget h x) -> Piece hh xb).
  { intros hh Hs. apply Ring_Soup in Rb. destruct Rb as [_ F]. inversion F as [|? ? P _]; subst.
    change (b :: xb) with ([b] ++ xb) in P. apply Piece_app_inv in P. destruct P as [_ [Sg L]]. split.
    - eapply Seg_same; eauto.
    - rewrite Forall_forall in *. intros x Hx. unfold live. rewrite Hs by exact Hx. apply L. exact Hx. }
  assert (Hina : forall x, In x xa -> In x (allnodes w X)) by (intros x Hx; eapply allnodes_sel; eauto).
  assert (Hinb : forall x, In x xb -> In x (allnodes w X)) by (intros x Hx; eapply allnodes_sel; eauto).
  assert (Hnota : forall x, In x xa -> x <> a /\ x <> b).
  { intros x Hx. pose proof (QInv_node_ge3 w X x I (Hina x Hx)). unfold a, b. destruct s1; cbn; lia. }
  assert (Hnotb : forall x, In x xb -> x <> a /\ x <> b).
  { intros x Hx. pose proof (QInv_node_ge3 w X x I (Hinb x Hx)). unfold a, b. destruct s1; cbn; lia. }
  (* first move: a takes over the ring of b *)
  destruct (move_spec h0 a b xb) as (h1 & E1 & R1 & F1 & L1).
  { apply Pb. intros x Hx. apply Hnode, Hinb, Hx. }
  { constructor; [intros H; exact (proj1 (Hnotb a H) eq_refl)|]. apply Ring_NoDup in Rb. apply NoDup_cons_iff in Rb. tauto. }
  { apply Lv0. apply (QInv_live_sentinel w X s1 I). }
  { congruence. }
  { intros H. exact (proj2 (Hnotb b H) eq_refl). }
  { rewrite (rd_next_dget2 h h0 a b Ha0). apply (Ring_next h [] b xb Rb). }
  { rewrite (rd_prev_dget2 h h0 a b Ha0). apply (Ring_prev h [] b xb Rb). }
  change (w_h w1) with h0. rewrite E1.
  (* second move: b takes over the ring of a *)
  assert (Hdisj : forall x, In x xa -> ~ In x (a :: xb)).
  { intros x Hx [E|H]; [exact (proj1 (Hnota x Hx) (eq_sym E))|]. eapply (QInv_sel_disj w X s1 x I); eauto. }
  destruct (move_spec h1 b a xa) as (h2 & E2 & R2 & F2 & L2).
  { apply Pa. intros x Hx. rewrite F1 by (apply Hdisj; exact Hx). apply Hnode, Hina, Hx. }
  { constructor; [intros H; exact (proj2 (Hnota b H) eq_refl)|]. apply Ring_NoDup in Ra. apply NoDup_cons_iff in Ra. tauto. }
  { apply L1, Lv0. apply (QInv_live_sentinel w X (negb s1) I). }
  { exact Hab. }
  { intros H. exact (proj1 (Hnota a H) eq_refl). }
  { rewrite (rd_next_dget h0 h1) by (apply F1; intros [E|H]; [congruence|exact (proj2 (Hnotb b H) eq_refl)]).
    rewrite (rd_next_dget2 h h0 b a Hb0). apply (Ring_next h [] a xa Ra). }
  { rewrite (rd_prev_dget h0 h1) by (apply F1; intros [E|H]; [congruence|exact (proj2 (Hnotb b H) eq_refl)]).
    rewrite (rd_prev_dget2 h h0 b a Hb0). apply (Ring_prev h [] a xa Ra). }
  rewrite E2. exists (seth w1 h2). split; [reflexivity|]. split; [intros H; split; [exact H|reflexivity]|].
  assert (R1' : Ring h2 (a :: xb)).
  { eapply Ring_Frame; eauto. intros x [<-|Hx] [E|H]; try congruence.
    - exact (proj1 (Hnota a H) eq_refl).
    - exact (proj2 (Hnotb x Hx) (eq_sym E)).
    - eapply (QInv_sel_disj w X s1 x I); eauto. }
  assert (Hperm : Permutation (allnodes (seth w1 h2) (snd X, fst X)) (allnodes w X)).
  { unfold allnodes, pools. cbn [fst snd w_qa w_qb seth w1].
    eapply perm_trans; [apply Permutation_app_swap_app|]. do 2 apply Permutation_app_head.
    apply Permutation_app_comm. }
  split.
  - constructor.
    + intros t. rewrite sel_swap. cbn [w_h seth].
      destruct (bool_cases s1 t) as [->| ->]; [exact R1'|]. rewrite negb_involutive. exact R2.
    + eapply Permutation_NoDup; [symmetry; exact Hperm|apply (qi_nodup _ _ I)].
    + intros x Hx. eapply Permutation_in in Hx; [|exact Hperm].
      pose proof (qi_node _ _ I x Hx) as (B & L & V). split; [exact B|]. split; [|exact V].
      cbn [w_h seth]. apply L2, L1, Lv0. exact L.
    + intros t. rewrite sel_swap. replace (getq (seth w1 h2) t) with (getq w (negb t)) by (destruct t; reflexivity).
      apply (qi_num _ _ I).
    + intros t. replace (getq (seth w1 h2) t) with (getq w (negb t)) by (destruct t; reflexivity).
      apply (qi_mem _ _ I).
    + rewrite (Permutation_length Hperm). apply (qi_fresh _ _ I).
  - reflexivity.
Qed.

(* ------------------------------------------------------------------ drop *)
Lemma skipn_pairs w k l : skipn k (pairs w l) = pairs w (skipn k l).
Proof. unfold pairs. apply skipn_map. Qed.

Lemma upd_upd {A} s (a b : A) p : upd s a (upd s b p) = upd s a p.
Proof. destruct s; reflexivity. Qed.

Lemma drop_loop_ok s fuel : forall w X,
  QInv w X -> (length (sel s X) < fuel)%nat ->
  exists w' rc k, q_drop_loop w s fuel = Ok (w', rc) /\ trace_ok w w' /\
    QInv w' (upd s (skipn k (sel s X)) X) /\
    abs w' (upd s (skipn k (sel s X)) X) = upd s (skipn k (sel s (abs w X))) (abs w X) /\
    ((rc = 0%Z /\ skipn k (sel s X) = []) \/ (rc <> 0%Z /\ failed w' = true)).
Proof.
  induction fuel as [|fuel IH]; intros w X I Hf; [lia|].
  cbn [q_drop_loop]. pose proof (qi_ring _ _ I s) as R.
  rewrite (Ring_next _ [] (qaddr s) (sel s X) R). cbn [lift hd].
  destruct (sel s X) as [|n t] eqn:Hsel.
  - cbn [hd]. rewrite N.eqb_refl. exists w, 0%Z, 0%nat. split; [reflexivity|]. split; [apply trace_ok_refl|].
    cbn [skipn]. assert (HX : upd s [] X = X) by (rewrite <- Hsel; apply upd_sel). rewrite HX, upd_sel.
    split; [exact I|]. split; [reflexivity|]. left. split; reflexivity.
  - cbn [hd]. rewrite neqb_false.
    2:{ intros ->. apply (QInv_head_notin w X s I). rewrite Hsel. left. reflexivity. }
    destruct (take_rc_ok w X s [] n t I Hsel) as (w1 & rc & E & T & [(Hrc & I1 & A1 & F1)|(Hrc & I1 & A1)]);
      rewrite E; cbn [fst snd].
    + replace (Z.eqb rc 0) with false by (symmetry; apply Z.eqb_neq; exact Hrc).
      exists w1, rc, 0%nat. split; [reflexivity|]. split; [exact T|]. cbn [skipn].
      assert (HX : upd s (n :: t) X = X) by (rewrite <- Hsel; apply upd_sel). rewrite HX, upd_sel.
      split; [exact I1|]. split; [exact A1|]. right. auto.
    + subst rc. cbn [Z.eqb app] in *.
      destruct (IH w1 (upd s t X) I1) as (w2 & rc & k & E2 & T2 & I2 & A2 & C2).
      { rewrite sel_upd_same. simpl in Hf. lia. }
      rewrite E2. exists w2, rc, (S k). split; [reflexivity|]. split; [eapply trace_ok_trans; eauto|].
      rewrite sel_upd_same in I2, A2, C2. rewrite upd_upd in I2, A2. cbn [skipn].
      split; [exact I2|]. split; [|exact C2].
      rewrite A2, A1, sel_upd_same, upd_upd, sel_abs, Hsel. cbn [pairs map skipn]. reflexivity.
Qed.

(* two worlds that differ only in schedule, trace, element sizes and (larger) pool capacities *)
Definition mem_ge (w w1 : qworld) : Prop :=
  w_h w1 = w_h w /\ w_val w1 = w_val w /\ w_fresh w1 = w_fresh w /\
  forall t, q_pool (getq w1 t) = q_pool (getq w t) /\ q_num (getq w1 t) = q_num (getq w t) /\
            q_mem (getq w t) <= q_mem (getq w1 t).

Lemma mem_ge_QInv w w1 X : mem_ge w w1 -> QInv w X -> QInv w1 X.
Proof.
  intros (Hh & Hv & Hf & Hq) I.
  assert (Hall : allnodes w1 X = allnodes w X).
  { unfold allnodes, pools. f_equal. f_equal. f_equal; [apply (Hq false)|apply (Hq true)]. }
  constructor; rewrite ?Hall, ?Hh, ?Hv, ?Hf.
  - apply (qi_ring _ _ I).
  - apply (qi_nodup _ _ I).
  - apply (qi_node _ _ I).
  - intros t. destruct (Hq t) as (E1 & E2 & E3). rewrite E2. apply (qi_num _ _ I).
  - intros t. destruct (Hq t) as (E1 & E2 & E3). rewrite E1. pose proof (qi_mem _ _ I t). lia.
  - apply (qi_fresh _ _ I).
Qed.

Lemma mem_ge_abs w w1 X : mem_ge w w1 -> abs w1 X = abs w X.
Proof.
  intros (Hh & Hv & _). unfold abs. f_equal; apply pairs_ext; intros x _; unfold val; rewrite Hv; reflexivity.
Qed.

(* the reservation at the head of a_que_drop: one request at most; nothing but the capacity changes *)
Lemma reserve_ok w X s :
  QInv w X ->
  exists w1 ok, q_reserve w s = (w1, ok) /\ trace_ok w w1 /\ QInv w1 X /\ abs w1 X = abs w X /\
    (ok = false -> failed w1 = true) /\
    (ok = true -> N.of_nat (length (q_pool (getq w1 s))) + q_num (getq w1 s) <= q_mem (getq w1 s)).
Proof.
  intros I. unfold q_reserve.
  set (need := N.of_nat (length (q_pool (getq w s))) + q_num (getq w s)).
  destruct (N.ltb (q_mem (getq w s)) need) eqn:Hlt.
  - pose proof (ask_spec w (RPool (8 * size_up8 need))) as A.
    destruct (ask w (RPool (8 * size_up8 need))) as [w1 ok].
    destruct A as (Hh & Hv & Hf & Ha & Hb & Ht & Hs).
    assert (C1 : same_core w w1) by (unfold same_core; auto).
    destruct ok.
    + eexists _, true. split; [reflexivity|].
      assert (Hq1 : forall t, getq w1 t = getq w t) by (intros []; unfold getq; congruence).
      assert (G : mem_ge w (setq w1 s (mkQ (q_pool (getq w s)) (q_siz (getq w s)) (q_num (getq w s)) (size_up8 need)))).
      { unfold mem_ge. split; [destruct s; simpl; congruence|]. split; [destruct s; simpl; congruence|].
        split; [destruct s; simpl; congruence|]. intros t. destruct (bool_cases s t) as [->| ->].
        - rewrite getq_setq_same. cbn [q_pool q_num q_mem]. split; [reflexivity|]. split; [reflexivity|].
          apply N.ltb_lt in Hlt. pose proof (size_up8_ge need). lia.
        - rewrite getq_setq_other, Hq1. split; [reflexivity|]. split; [reflexivity|]. lia. }
      split; [|split; [eapply mem_ge_QInv; eauto|split; [apply (mem_ge_abs _ _ _ G)|split; [discriminate|]]]].
      * intros H. destruct (Hs H) as [_ H1]. split.
        -- unfold no_fault. destruct s; simpl; exact H1.
        -- unfold failed. destruct s; simpl; rewrite Ht; reflexivity.
      * intros _. rewrite getq_setq_same. cbn [q_pool q_num q_mem]. fold need. apply size_up8_ge.
    + exists w1, false. split; [reflexivity|]. split.
      * intros H. destruct (Hs H). discriminate.
      * split; [eapply same_core_QInv; eauto|]. split; [apply same_core_abs; exact C1|].
        split; [|discriminate]. intros _. unfold failed. rewrite Ht. reflexivity.
  - exists w, true. split; [reflexivity|]. split; [apply trace_ok_refl|]. split; [exact I|]. split; [reflexivity|].
    split; [discriminate|]. intros _. apply N.ltb_ge in Hlt. exact Hlt.
Qed.

(* a_que_drop as it is now: reservation, then the loop *)
Lemma drop_ok w X s :
  QInv w X ->
  exists w' rc k, q_drop w s = Ok (w', rc) /\ trace_ok w w' /\
    QInv w' (upd s (skipn k (sel s X)) X) /\
    abs w' (upd s (skipn k (sel s X)) X) = upd s (skipn k (sel s (abs w X))) (abs w X) /\
    ((rc = 0%Z /\ skipn k (sel s X) = []) \/ (rc <> 0%Z /\ failed w' = true)).
Proof.
  intros I. unfold q_drop. destruct (reserve_ok w X s I) as (w1 & ok & E & T & I1 & A1 & F1 & _). rewrite E.
  destruct ok.
  - destruct (drop_loop_ok s (fuel_of w1) w1 X I1 (QInv_fuel w1 X s I1)) as (w' & rc & k & E2 & T2 & I2 & A2 & C2).
    exists w', rc, k. split; [exact E2|]. split; [eapply trace_ok_trans; eauto|]. split; [exact I2|].
    split; [rewrite A2, A1; reflexivity|exact C2].
  - exists w1, 4%Z, 0%nat. split; [reflexivity|]. split; [exact T|]. cbn [skipn]. rewrite !upd_sel.
    split; [exact I1|]. split; [exact A1|]. right. split; [discriminate|apply F1; reflexivity].
Qed.

(* the body as found (no reservation) satisfies the same weak statement *)
Lemma drop_orig_ok w X s :
  QInv w X ->
  exists w' rc k, q_drop_orig w s = Ok (w', rc) /\ trace_ok w w' /\
    QInv w' (upd s (skipn k (sel s X)) X) /\
    abs w' (upd s (skipn k (sel s X)) X) = upd s (skipn k (sel s (abs w X))) (abs w X) /\
    ((rc = 0%Z /\ skipn k (sel s X) = []) \/ (rc <> 0%Z /\ failed w' = true)).
Proof. intros I. apply drop_loop_ok; auto using QInv_fuel. Qed.

(* ------------------------------------------------------------------ setz *)
(* two worlds that differ only in element sizes, schedule and trace *)
Definition core_eq (w w1 : qworld) : Prop :=
  w_h w1 = w_h w /\ w_val w1 = w_val w /\ w_fresh w1 = w_fresh w /\
  forall t, q_pool (getq w1 t) = q_pool (getq w t) /\ q_num (getq w1 t) = q_num (getq w t) /\
            q_mem (getq w1 t) = q_mem (getq w t).

Lemma core_eq_QInv w w1 X : core_eq w w1 -> QInv w X -> QInv w1 X.
Proof.
  intros (Hh & Hv & Hf & Hq) I.
  assert (Hall : allnodes w1 X = allnodes w X).
  { unfold allnodes, pools. f_equal. f_equal. f_equal; [apply (Hq false)|apply (Hq true)]. }
  destruct I. constructor; rewrite ?Hall, ?Hh, ?Hv, ?Hf; auto; intros t; destruct (Hq t) as (E1 & E2 & E3);
    rewrite ?E1, ?E2, ?E3; auto.
Qed.

Lemma core_eq_abs w w1 X : core_eq w w1 -> abs w1 X = abs w X.
Proof.
  intros (Hh & Hv & _). unfold abs. f_equal; apply pairs_ext; intros x _; unfold val; rewrite Hv; reflexivity.
Qed.

Lemma core_eq_refl w : core_eq w w.
Proof. unfold core_eq. repeat split; reflexivity. Qed.

Lemma core_eq_trans w w1 w2 : core_eq w w1 -> core_eq w1 w2 -> core_eq w w2.
Proof.
  intros (A1 & A2 & A3 & A4) (B1 & B2 & B3 & B4). unfold core_eq. repeat split; try congruence;
    destruct (A4 t) as (? & ? & ?), (B4 t) as (? & ? & ?); congruence.
Qed.

Lemma resize_all_ok nodes size : forall w,
  let '(w2, ok) := q_resize_all w nodes size in
  core_eq w w2 /\ trace_ok w w2 /\ (ok = false -> failed w2 = true).
Proof.
  induction nodes as [|n r IH]; intros w; cbn [q_resize_all].
  - split; [apply core_eq_refl|]. split; [apply trace_ok_refl|discriminate].
  - pose proof (ask_spec w (RResize size)) as A. destruct (ask w (RResize size)) as [w1 ok].
    destruct A as (Hh & Hv & Hf & Ha & Hb & Ht & Hs).
    assert (C1 : core_eq w w1).
    { unfold core_eq. repeat split; auto; destruct t; unfold getq; congruence. }
    destruct ok.
    + specialize (IH w1). destruct (q_resize_all w1 r size) as [w2 ok2]. destruct IH as (C2 & T2 & F2).
      split; [eapply core_eq_trans; eauto|]. split; [|exact F2].
      eapply trace_ok_trans; [|exact T2]. intros H. destruct (Hs H) as [_ H1]. split; [exact H1|].
      unfold failed. rewrite Ht. reflexivity.
    + split; [exact C1|]. split.
      * intros H. destruct (Hs H). discriminate.
      * intros _. unfold failed. rewrite Ht. reflexivity.
Qed.

Lemma setq_siz_core w s z :
  core_eq w (setq w s (mkQ (q_pool (getq w s)) z (q_num (getq w s)) (q_mem (getq w s)))).
Proof. unfold core_eq. destruct s; simpl; repeat split; destruct t; reflexivity. Qed.

(* ------------------------------------------------------------------ reset (a_que_dtor + a_que_ctor) *)
Lemma walk_next_spec h c pre l fuel :
  Ring h (c :: pre ++ l) -> (length l < fuel)%nat -> walk_next h c (hd c l) fuel = Some l.
Proof.
  revert pre fuel. induction l as [|a l IH]; intros pre fuel R Hf.
  - destruct fuel; [lia|]. simpl. rewrite N.eqb_refl. reflexivity.
  - destruct fuel; [simpl in Hf; lia|]. cbn [walk_next hd].
    assert (Hac : a <> c).
    { apply Ring_NoDup in R. inversion R; subst. intros ->. apply H1. apply in_or_app. right. left. reflexivity. }
    rewrite (neqb_false _ _ Hac).
    change (c :: pre ++ a :: l) with ((c :: pre) ++ a :: l) in R.
    rewrite (Ring_next h (c :: pre) a l R). cbn [hd].
    rewrite (IH (pre ++ [a])); [reflexivity| |simpl in Hf; lia].
    rewrite <- app_assoc. exact R.
Qed.

Lemma walk_prev_spec h c l post fuel :
  Ring h (c :: l ++ post) -> (length l < fuel)%nat -> walk_prev h c (last l c) fuel = Some (rev l).
Proof.
  revert post fuel. induction l as [|a l IH] using rev_ind; intros post fuel R Hf.
  - destruct fuel; [lia|]. simpl. rewrite N.eqb_refl. reflexivity.
  - rewrite app_length in Hf. simpl in Hf. destruct fuel; [lia|]. rewrite last_last, rev_app_distr.
    cbn [walk_prev rev app].
    assert (Hac : a <> c).
    { apply Ring_NoDup in R. inversion R; subst. intros ->. apply H1. apply in_or_app. left. apply in_or_app.
      right. left. reflexivity. }
    rewrite (neqb_false _ _ Hac).
    rewrite <- app_assoc in R. cbn [app] in R.
    change (c :: l ++ a :: post) with ((c :: l) ++ a :: post) in R.
    rewrite (Ring_prev h (c :: l) a post R). rewrite last_cons_default.
    rewrite (IH (a :: post)); [reflexivity|exact R|lia].
Qed.

(* what the drivers print is the abstract sequence, forwards and backwards *)
Lemma ring_of_spec w X s : QInv w X -> ring_of (w_h w) (qaddr s) (fuel_of w) = Some (sel s X).
Proof.
  intros I. unfold ring_of. pose proof (qi_ring _ _ I s) as R.
  rewrite (Ring_next _ [] (qaddr s) (sel s X) R). cbn [hd].
  apply (walk_next_spec (w_h w) (qaddr s) [] (sel s X)); auto using QInv_fuel.
Qed.

Lemma ring_of_back_spec w X s : QInv w X -> ring_of_back (w_h w) (qaddr s) (fuel_of w) = Some (rev (sel s X)).
Proof.
  intros I. unfold ring_of_back. pose proof (qi_ring _ _ I s) as R.
  rewrite (Ring_prev _ [] (qaddr s) (sel s X) R). cbn [last].
  apply (walk_prev_spec (w_h w) (qaddr s) (sel s X) []); auto using QInv_fuel.
  rewrite app_nil_r. exact R.
Qed.

Lemma dget_ddel_other h a x : x <> a -> dget (ddel h a) x = dget h x.
Proof.
  destruct a, x; simpl; intros; try reflexivity; try congruence. apply PositiveMap.gro. congruence.
Qed.

Lemma dget_free h ns x : ~ In x ns -> dget (fold_left ddel ns h) x = dget h x.
Proof.
  revert h. induction ns as [|a ns IH]; intros h Hx; [reflexivity|]. cbn [fold_left].
  rewrite IH by (intros H; apply Hx; right; exact H). apply dget_ddel_other. intros ->. apply Hx. left. reflexivity.
Qed.

Lemma vget_vdel_other m a x : x <> a -> vget (vdel m a) x = vget m x.
Proof.
  destruct a, x; simpl; intros; try reflexivity; try congruence. apply PositiveMap.gro. congruence.
Qed.

Lemma vget_free m ns x : ~ In x ns -> vget (fold_left vdel ns m) x = vget m x.
Proof.
  revert m. induction ns as [|a ns IH]; intros m Hx; [reflexivity|]. cbn [fold_left].
  rewrite IH by (intros H; apply Hx; right; exact H). apply vget_vdel_other. intros ->. apply Hx. left. reflexivity.
Qed.

Lemma reset_ok w X s size :
  QInv w X ->
  exists w', q_reset w s size = Ok w' /\ trace_ok w w' /\
    QInv w' (upd s [] X) /\ abs w' (upd s [] X) = upd s [] (abs w X).
Proof.
  intros I. unfold q_reset. rewrite (ring_of_spec w X s I).
  set (ns := q_pool (getq w s) ++ sel s X). set (w0 := free_nodes w ns).
  set (c := qaddr s).
  assert (Hns : forall x, In x ns -> In x (allnodes w X)).
  { intros x Hx. unfold ns in Hx. apply in_app_or in Hx. destruct Hx; [eapply allnodes_pool|eapply allnodes_sel]; eauto. }
  assert (Hc : ~ In c ns) by (intros H; apply (QInv_sentinel_notin w X s I); auto).
  assert (Hh0 : forall x, ~ In x ns -> dget (w_h w0) x = dget (w_h w) x) by (intros x Hx; apply dget_free; exact Hx).
  assert (Lc : live (w_h w0) c).
  { unfold live. rewrite Hh0 by exact Hc. apply (QInv_live_sentinel w X s I). }
  unfold q_ctor. destruct (init_ring (w_h w0) c Lc) as (h' & E & R' & F & Lv). fold c. rewrite E. cbn [lift].
  set (z := if N.eqb size 0 then 1 else size).
  set (w' := setq (seth w0 h') s (mkQ [] z 0 0)).
  exists w'. split; [reflexivity|]. split.
  { intros H. split; [unfold no_fault, w', w0; destruct s; exact H|unfold failed, w', w0; destruct s; reflexivity]. }
  assert (Hh' : w_h w' = h') by (unfold w'; destruct s; reflexivity).
  assert (Hv' : w_val w' = fold_left vdel ns (w_val w)) by (unfold w'; destruct s; reflexivity).
  assert (Hf' : w_fresh w' = w_fresh w) by (unfold w'; destruct s; reflexivity).
  assert (Hqs : getq w' s = mkQ [] z 0 0) by (unfold w'; apply getq_setq_same).
  assert (Hqo : getq w' (negb s) = getq w (negb s)) by (unfold w'; rewrite getq_setq_other; destruct s; reflexivity).
  assert (Hperm : Permutation (allnodes w X) (ns ++ allnodes w' (upd s [] X))).
  { unfold allnodes, pools, ns. change (w_qa w') with (getq w' false). change (w_qb w') with (getq w' true).
    destruct s; cbn [negb] in Hqo; rewrite Hqs, Hqo; cbn [sel upd fst snd q_pool getq]; perm_blocks. }
  assert (ND : NoDup (ns ++ allnodes w' (upd s [] X))) by (eapply Permutation_NoDup; [exact Hperm|apply (qi_nodup _ _ I)]).
  assert (Hkeep : forall x, In x (allnodes w' (upd s [] X)) -> In x (allnodes w X) /\ ~ In x ns).
  { intros x Hx. split.
    - eapply Permutation_in; [symmetry; exact Hperm|]. apply in_or_app. right. exact Hx.
    - intros H. eapply NoDup_app_disj; eauto. }
  split.
  - constructor; rewrite ?Hh', ?Hv', ?Hf'.
    + intros t. destruct (bool_cases s t) as [->| ->].
      * rewrite sel_upd_same. exact R'.
      * rewrite sel_upd_other. eapply Ring_Frame; [|exact F|].
        -- eapply (Ring_Frame _ _ ns); [apply (qi_ring _ _ I (negb s))| |].
           ++ intros x Hx. apply Hh0. exact Hx.
           ++ intros x Hx Hin. destruct Hx as [<-|Hx].
              ** apply Hns in Hin. eapply QInv_sentinel_notin; eauto.
              ** assert (H : In x (allnodes w' (upd s [] X))).
                 { unfold allnodes. rewrite <- (sel_upd_other s [] X) in Hx.
                   destruct s; cbn [negb sel upd fst snd] in *; apply in_or_app; [left|right; apply in_or_app; left]; exact Hx. }
                 eapply NoDup_app_disj; eauto.
        -- intros x Hx [<-|[]]. eapply (QInv_rings_disj' w X s c I); eauto. left. reflexivity.
    + eapply NoDup_app_r; eauto.
    + intros x Hx. destruct (Hkeep x Hx) as [Hin Hnot].
      pose proof (qi_node _ _ I x Hin) as (B & L & V). split; [exact B|]. split.
      * apply Lv. unfold live. rewrite Hh0 by exact Hnot. exact L.
      * rewrite vget_free by exact Hnot. exact V.
    + intros t. destruct (bool_cases s t) as [->| ->].
      * rewrite Hqs, sel_upd_same. reflexivity.
      * rewrite Hqo, sel_upd_other. apply (qi_num _ _ I).
    + intros t. destruct (bool_cases s t) as [->| ->].
      * rewrite Hqs. cbn. lia.
      * rewrite Hqo. apply (qi_mem _ _ I).
    + pose proof (qi_fresh _ _ I) as Fr. rewrite (Permutation_length Hperm), app_length in Fr. lia.
  - rewrite abs_upd. cbn [pairs map].
    assert (Habs : abs w' (upd s [] X) = abs w (upd s [] X)).
    { unfold abs. f_equal; apply pairs_ext; intros x Hx; unfold val; rewrite Hv'; rewrite vget_free; auto;
        apply Hkeep; unfold allnodes; apply in_or_app; [left|right; apply in_or_app; left]; exact Hx. }
    rewrite !abs_upd in Habs. exact Habs.
Qed.

(* ------------------------------------------------------------------ setz *)
(* the recycled nodes of one queue are released (a_que_setz with a larger element size) *)
Lemma free_pool_ok w X s z :
  QInv w X ->
  exists w', w' = setq (free_nodes w (q_pool (getq w s))) s (mkQ [] z (q_num (getq w s)) (q_mem (getq w s))) /\
    trace_ok w w' /\ QInv w' X /\ abs w' X = abs w X.
Proof.
  intros I. set (ns := q_pool (getq w s)). set (w0 := free_nodes w ns).
  set (w' := setq w0 s (mkQ [] z (q_num (getq w s)) (q_mem (getq w s)))).
  exists w'. split; [reflexivity|].
  assert (Hns : forall x, In x ns -> In x (allnodes w X)) by (intros x Hx; eapply allnodes_pool; eauto).
  assert (Hh' : w_h w' = fold_left ddel ns (w_h w)) by (unfold w', w0; destruct s; reflexivity).
  assert (Hv' : w_val w' = fold_left vdel ns (w_val w)) by (unfold w', w0; destruct s; reflexivity).
  assert (Hf' : w_fresh w' = w_fresh w) by (unfold w', w0; destruct s; reflexivity).
  assert (Hqs : getq w' s = mkQ [] z (q_num (getq w s)) (q_mem (getq w s))) by (unfold w'; apply getq_setq_same).
  assert (Hqo : getq w' (negb s) = getq w (negb s)) by (unfold w'; rewrite getq_setq_other; destruct s; reflexivity).
  assert (Hperm : Permutation (allnodes w X) (ns ++ allnodes w' X)).
  { unfold allnodes, pools, ns. change (w_qa w') with (getq w' false). change (w_qb w') with (getq w' true).
    destruct s; cbn [negb] in Hqo; rewrite Hqs, Hqo; cbn [q_pool getq]; perm_blocks. }
  assert (ND : NoDup (ns ++ allnodes w' X)) by (eapply Permutation_NoDup; [exact Hperm|apply (qi_nodup _ _ I)]).
  assert (Hkeep : forall x, In x (allnodes w' X) -> In x (allnodes w X) /\ ~ In x ns).
  { intros x Hx. split.
    - eapply Permutation_in; [symmetry; exact Hperm|]. apply in_or_app. right. exact Hx.
    - intros H. eapply NoDup_app_disj; eauto. }
  assert (Fr : Frame (w_h w) (w_h w') ns) by (intros x Hx; rewrite Hh'; apply dget_free; exact Hx).
  split; [|split].
  - intros H. split; [unfold no_fault, w', w0; destruct s; exact H|unfold failed, w', w0; destruct s; reflexivity].
  - constructor; rewrite ?Hv', ?Hf'.
    + intros t. eapply Ring_Frame; [apply (qi_ring _ _ I t)|exact Fr|].
      intros x [<-|Hx] Hin.
      * apply Hns in Hin. eapply QInv_sentinel_notin; eauto.
      * assert (H : In x (allnodes w' X)) by (eapply allnodes_sel; eauto).
        eapply NoDup_app_disj; eauto.
    + eapply NoDup_app_r; eauto.
    + intros x Hx. destruct (Hkeep x Hx) as [Hin Hnot].
      pose proof (qi_node _ _ I x Hin) as (B & L & V). split; [exact B|]. split.
      * unfold live. rewrite (Fr x Hnot). exact L.
      * rewrite vget_free by exact Hnot. exact V.
    + intros t. destruct (bool_cases s t) as [->| ->].
      * rewrite Hqs. cbn [q_num]. apply (qi_num _ _ I).
      * rewrite Hqo. apply (qi_num _ _ I).
    + intros t. destruct (bool_cases s t) as [->| ->].
      * rewrite Hqs. cbn. lia.
      * rewrite Hqo. apply (qi_mem _ _ I).
    + pose proof (qi_fresh _ _ I) as F0. rewrite (Permutation_length Hperm), app_length in F0. lia.
  - unfold abs. f_equal; apply pairs_ext; intros x Hx; unfold val; rewrite Hv'; rewrite vget_free; auto;
      apply Hkeep; unfold allnodes; apply in_or_app; [left|right; apply in_or_app; left]; exact Hx.
Qed.

(* a_que_setz as it is now: drop, then either release the recycled nodes or keep them *)
Lemma setz_ok w X s siz :
  QInv w X ->
  exists w' rc k, q_setz w s siz = Ok (w', rc) /\ trace_ok w w' /\
    QInv w' (upd s (skipn k (sel s X)) X) /\
    abs w' (upd s (skipn k (sel s X)) X) = upd s (skipn k (sel s (abs w X))) (abs w X) /\
    ((rc = 0%Z /\ skipn k (sel s X) = []) \/ (rc <> 0%Z /\ failed w' = true)).
Proof.
  intros I. unfold q_setz.
  destruct (drop_ok w X s I) as (w1 & rc & k & E & T & I1 & A1 & C1). rewrite E.
  destruct C1 as [(Hrc & Hnil)|(Hrc & Hf)].
  - subst rc. cbn [Z.eqb].
    set (z := if N.eqb siz 0 then 1 else siz).
    destruct (N.ltb (q_siz (getq w1 s)) z).
    + destruct (free_pool_ok w1 _ s z I1) as (w2 & -> & T2 & I2 & A2).
      eexists _, 0%Z, k. split; [reflexivity|]. split; [eapply trace_ok_trans; eauto|].
      split; [exact I2|]. split; [rewrite A2; exact A1|]. left. auto.
    + eexists _, 0%Z, k. split; [reflexivity|].
      pose proof (setq_siz_core w1 s z) as C3.
      split; [|split; [|split]].
      * eapply trace_ok_trans; [exact T|]. intros H. split; [destruct s; exact H|destruct s; reflexivity].
      * eapply core_eq_QInv; eauto.
      * rewrite (core_eq_abs _ _ _ C3). exact A1.
      * left. auto.
  - replace (Z.eqb rc 0) with false by (symmetry; apply Z.eqb_neq; exact Hrc).
    exists w1, rc, k. split; [reflexivity|]. split; [exact T|]. split; [exact I1|]. split; [exact A1|]. right. auto.
Qed.

(* ================================================================== one operation refines the deque *)
Lemma clear_trace_core w : same_core w (clear_trace w).
Proof. unfold same_core. auto. Qed.

Definition not_sched (o : qop) : Prop := match o with QSched _ => False | _ => True end.

Lemma length_pairs w l : length (pairs w l) = length l.
Proof. apply map_length. Qed.

Theorem step_refines w0 X o :
  QInv w0 X -> dq_pre o (abs w0 X) ->
  exists w' r X', q_step w0 o = Ok (w', r) /\ QInv w' X' /\
    dq_step o (abs w0 X) r (failed w') (abs w' X') /\
    (not_sched o -> no_fault w0 -> no_fault w' /\ failed w' = false).
Proof.
  intros I0 Hpre. unfold q_step. set (w := clear_trace w0).
  assert (I : QInv w X) by (eapply same_core_QInv; [apply clear_trace_core|exact I0]).
  assert (HA : abs w0 X = abs w X) by (symmetry; apply same_core_abs, clear_trace_core).
  rewrite HA in *.
  assert (Hnf : forall w', trace_ok w w' -> no_fault w0 -> no_fault w' /\ failed w' = false).
  { intros w' T H. destruct (T H) as [H1 H2]. split; [exact H1|]. rewrite H2. reflexivity. }
  destruct o.
  - (* sched *) exists (set_sched w l), 0%Z, X. split; [reflexivity|].
    assert (C : same_core w (set_sched w l)) by (unfold same_core; auto).
    split; [eapply same_core_QInv; eauto|]. split; [|intros []].
    cbn [dq_step]. split; [reflexivity|apply same_core_abs; exact C].
  - (* reset *) destruct (reset_ok w X s size I) as (w' & E & T & I' & A'). rewrite E.
    exists w', 0%Z, (upd s [] X). split; [reflexivity|]. split; [exact I'|]. split; [|intros _; apply Hnf; exact T].
    cbn [dq_step]. auto.
  - (* push_fore *) destruct (push_ok true w X s v I) as (w' & n & E & T & C). rewrite E.
    cbn [ptr_res fst snd]. destruct C as [(Hn & I' & A' & F)|(Hn & Nn & I' & A')].
    + subst n. exists w', 0%Z, X. split; [reflexivity|]. split; [exact I'|]. split; [|intros _; apply Hnf; exact T].
      cbn [dq_step]. left. auto.
    + eexists w', (Z.of_N n), _. split; [reflexivity|]. split; [exact I'|]. split; [|intros _; apply Hnf; exact T].
      cbn [dq_step]. right. exists n. auto.
  - (* push_back *) destruct (push_ok false w X s v I) as (w' & n & E & T & C). rewrite E.
    cbn [ptr_res fst snd]. destruct C as [(Hn & I' & A' & F)|(Hn & Nn & I' & A')].
    + subst n. exists w', 0%Z, X. split; [reflexivity|]. split; [exact I'|]. split; [|intros _; apply Hnf; exact T].
      cbn [dq_step]. left. auto.
    + eexists w', (Z.of_N n), _. split; [reflexivity|]. split; [exact I'|]. split; [|intros _; apply Hnf; exact T].
      cbn [dq_step]. right. exists n. auto.
  - (* pull_fore *) destruct (pull_ok true w X s I) as (w' & r & E & T & C). rewrite E. cbn [ptr_res fst snd].
    cbn [dq_step]. rewrite sel_abs. destruct (sel s X) as [|n t] eqn:Hsel; cbn [pairs map].
    + destruct C as [-> ->]. exists w, 0%Z, X. split; [reflexivity|]. split; [exact I|].
      split; [auto|intros _; apply Hnf; exact T].
    + destruct C as [(Hr & I' & A' & F)|(Hr & I' & A')]; subst r.
      * exists w', 0%Z, X. split; [reflexivity|]. split; [exact I'|]. split; [left; auto|intros _; apply Hnf; exact T].
      * eexists w', _, _. split; [reflexivity|]. split; [exact I'|]. split; [right; split; [reflexivity|exact A']|].
        intros _; apply Hnf; exact T.
  - (* pull_back *) destruct (pull_ok false w X s I) as (w' & r & E & T & C). rewrite E. cbn [ptr_res fst snd].
    cbn [dq_step]. rewrite sel_abs, pairs_rev. destruct (rev (sel s X)) as [|n t] eqn:Hsel; cbn [pairs map].
    + destruct C as [-> ->]. exists w, 0%Z, X. split; [reflexivity|]. split; [exact I|].
      split; [auto|intros _; apply Hnf; exact T].
    + destruct C as [(Hr & I' & A' & F)|(Hr & I' & A')]; subst r.
      * exists w', 0%Z, X. split; [reflexivity|]. split; [exact I'|]. split; [left; auto|intros _; apply Hnf; exact T].
      * eexists w', _, _. split; [reflexivity|]. split; [exact I'|]. split; [|intros _; apply Hnf; exact T].
        right. split; [reflexivity|]. fold (pairs w t). rewrite pairs_rev. exact A'.
  - (* insert *) destruct (insert_ok w X s idx v I) as (w' & n & E & T & C). rewrite E.
    cbn [ptr_res fst snd]. destruct C as [(Hn & I' & A' & F)|(Hn & Nn & I' & A')].
    + subst n. exists w', 0%Z, X. split; [reflexivity|]. split; [exact I'|]. split; [|intros _; apply Hnf; exact T].
      cbn [dq_step]. left. auto.
    + eexists w', (Z.of_N n), _. split; [reflexivity|]. split; [exact I'|]. split; [|intros _; apply Hnf; exact T].
      cbn [dq_step]. right. exists n. auto.
  - (* remove *) destruct (remove_ok w X s idx I) as (w' & r & E & T & C). rewrite E. cbn [ptr_res fst snd].
    cbn [dq_step]. rewrite sel_abs, length_pairs, map_fst_pairs.
    destruct (N.ltb idx (N.of_nat (length (sel s X)))).
    + destruct C as [(Hr & I' & A' & F)|(Hr & I' & A')]; subst r.
      * exists w', 0%Z, X. split; [reflexivity|]. split; [exact I'|]. split; [left; auto|intros _; apply Hnf; exact T].
      * eexists w', _, _. split; [reflexivity|]. split; [exact I'|]. split; [|intros _; apply Hnf; exact T].
        right. split; [reflexivity|]. rewrite <- sel_abs. exact A'.
    + rewrite pairs_rev. destruct (rev (sel s X)) as [|n t] eqn:Hsel; cbn [pairs map].
      * destruct C as [-> ->]. exists w, 0%Z, X. split; [reflexivity|]. split; [exact I|].
        split; [auto|intros _; apply Hnf; exact T].
      * destruct C as [(Hr & I' & A' & F)|(Hr & I' & A')]; subst r.
        -- exists w', 0%Z, X. split; [reflexivity|]. split; [exact I'|]. split; [left; auto|intros _; apply Hnf; exact T].
        -- eexists w', _, _. split; [reflexivity|]. split; [exact I'|]. split; [|intros _; apply Hnf; exact T].
           right. split; [reflexivity|]. fold (pairs w t). rewrite pairs_rev. exact A'.
  - (* at *) rewrite (at_ok w X s idx I). cbn [look_res]. eexists w, _, X. split; [reflexivity|]. split; [exact I|].
    split; [cbn [dq_step]; auto|intros _; apply Hnf; apply trace_ok_refl].
  - (* fore *) rewrite (fore_ok w X s I). cbn [look_res]. eexists w, _, X. split; [reflexivity|]. split; [exact I|].
    split; [cbn [dq_step]; auto|intros _; apply Hnf; apply trace_ok_refl].
  - (* back *) rewrite (back_ok w X s I). cbn [look_res]. eexists w, _, X. split; [reflexivity|]. split; [exact I|].
    split; [cbn [dq_step]; auto|intros _; apply Hnf; apply trace_ok_refl].
  - (* sort_fore *) destruct (sort_fore_ok (cmpf asc) w X s I) as (w' & xs' & E & T & I' & A'). rewrite E.
    cbn [unit_res]. exists w', 0%Z, (upd s xs' X). split; [reflexivity|]. split; [exact I'|].
    split; [cbn [dq_step]; auto|intros _; apply Hnf; exact T].
  - (* sort_back *) destruct (sort_back_ok (cmpf asc) w X s I) as (w' & xs' & E & T & I' & A'). rewrite E.
    cbn [unit_res]. exists w', 0%Z, (upd s xs' X). split; [reflexivity|]. split; [exact I'|].
    split; [cbn [dq_step]; auto|intros _; apply Hnf; exact T].
  - (* push_sort *) destruct (push_sort_ok (cmpf asc) w X s key I) as (w' & n & E & T & C). rewrite E.
    cbn [ptr_res fst snd]. destruct C as [(Hn & I' & A' & F)|(Hn & Nn & xs' & I' & A')].
    + subst n. exists w', 0%Z, X. split; [reflexivity|]. split; [exact I'|]. split; [|intros _; apply Hnf; exact T].
      cbn [dq_step]. left. auto.
    + exists w', (Z.of_N n), (upd s xs' X). split; [reflexivity|]. split; [exact I'|]. split; [|intros _; apply Hnf; exact T].
      cbn [dq_step]. right. exists n. auto.
  - (* swap_e *) cbn [dq_pre] in Hpre. rewrite addrs_abs in Hpre. destruct Hpre as [Hl Hr].
    destruct (swap_elem_ok w X l r I Hl Hr) as (w' & E & T & I' & A'). rewrite E. cbn [unit_res].
    eexists w', 0%Z, _. split; [reflexivity|]. split; [exact I'|]. split; [|intros _; apply Hnf; exact T].
    cbn [dq_step]. split; [reflexivity|]. exists (l, val w l), (r, val w r).
    assert (Hin : forall x, In x (fst X ++ snd X) -> In (x, val w x) (fst (abs w X) ++ snd (abs w X))).
    { intros x Hx. unfold abs. cbn [fst snd]. rewrite <- pairs_app. unfold pairs. apply (in_map (fun y => (y, val w y))). exact Hx. }
    split; [apply Hin; exact Hl|]. split; [apply Hin; exact Hr|]. split; [reflexivity|]. split; [reflexivity|exact A'].
  - (* swap *) destruct (swap_ok w X s1 s2 I) as (w' & E & T & I' & A'). rewrite E. cbn [unit_res].
    eexists w', 0%Z, _. split; [reflexivity|]. split; [exact I'|]. split; [|intros _; apply Hnf; exact T].
    cbn [dq_step]. split; [reflexivity|exact A'].
  - (* drop *) destruct (drop_ok w X s I) as (w' & rc & k & E & T & I' & A' & C). rewrite E.
    eexists w', rc, _. split; [reflexivity|]. split; [exact I'|]. split; [|intros _; apply Hnf; exact T].
    cbn [dq_step]. destruct C as [(Hrc & Hnil)|(Hrc & F)].
    + left. split; [exact Hrc|]. rewrite A'. rewrite sel_abs, skipn_pairs, Hnil. reflexivity.
    + right. split; [exact Hrc|]. split; [exact F|]. exists k. exact A'.
  - (* setz *) destruct (setz_ok w X s siz I) as (w' & rc & k & E & T & I' & A' & C). rewrite E.
    eexists w', rc, _. split; [reflexivity|]. split; [exact I'|]. split; [|intros _; apply Hnf; exact T].
    cbn [dq_step]. destruct C as [(Hrc & Hnil)|(Hrc & F)].
    + left. split; [exact Hrc|]. rewrite A'. rewrite sel_abs, skipn_pairs, Hnil. reflexivity.
    + right. split; [exact Hrc|]. split; [exact F|]. exists k. exact A'.
Qed.

(* ================================================================== histories *)
(* the abstract machine run on a whole history; the concrete results r and the "an allocation was
   refused" flags f are existentially threaded *)
Inductive dq_run : list qop -> astate -> list Z -> astate -> Prop :=
| dq_nil A : dq_run [] A [] A
| dq_cons o os A r f A1 rs A2 :
    dq_pre o A -> dq_step o A r f A1 -> dq_run os A1 rs A2 -> dq_run (o :: os) A (r :: rs) A2.

(* the addresses currently enqueued, read off the heap by walking both rings *)
Definition enq (w : qworld) : list id :=
  match ring_of (w_h w) 1 (fuel_of w), ring_of (w_h w) 2 (fuel_of w) with
  | Some a, Some b => a ++ b
  | _, _ => []
  end.

Definition op_pre (w : qworld) (o : qop) : Prop :=
  match o with QSwapElem l r => In l (enq w) /\ In r (enq w) | _ => True end.

(* every element swap of the history is applied to two enqueued elements *)
Fixpoint hist_pre (w : qworld) (os : list qop) : Prop :=
  match os with
  | [] => True
  | o :: r => op_pre w o /\ match q_step w o with Ok (w1, _) => hist_pre w1 r | _ => True end
  end.

Lemma enq_spec w X : QInv w X -> enq w = fst X ++ snd X.
Proof.
  intros I. unfold enq. pose proof (ring_of_spec w X false I) as Ha. pose proof (ring_of_spec w X true I) as Hb.
  cbn [qaddr] in Ha, Hb. rewrite Ha, Hb. reflexivity.
Qed.

Lemma op_pre_dq w X o : QInv w X -> op_pre w o -> dq_pre o (abs w X).
Proof.
  intros I. destruct o; cbn [op_pre dq_pre]; auto. rewrite addrs_abs, (enq_spec w X I). auto.
Qed.

Theorem run_refines os : forall w X,
  QInv w X -> hist_pre w os ->
  exists w' rs X', q_run w os = Ok (w', rs) /\ QInv w' X' /\ dq_run os (abs w X) rs (abs w' X').
Proof.
  induction os as [|o os IH]; intros w X I Hp.
  - exists w, [], X. split; [reflexivity|]. split; [exact I|constructor].
  - cbn [hist_pre] in Hp. destruct Hp as [Hpo Hpr].
    pose proof (op_pre_dq w X o I Hpo) as Hdq.
    destruct (step_refines w X o I Hdq) as (w1 & r & X1 & E & I1 & S & _).
    rewrite E in Hpr. destruct (IH w1 X1 I1 Hpr) as (w2 & rs & X2 & E2 & I2 & Rn).
    exists w2, (r :: rs), X2. cbn [q_run]. rewrite E. cbn [fst snd]. rewrite E2. cbn [fst snd].
    split; [reflexivity|]. split; [exact I2|]. econstructor; eauto.
Qed.

(* without allocation faults nothing ever fails *)
Theorem run_no_fault os : forall w X,
  QInv w X -> hist_pre w os -> no_fault w -> Forall not_sched os ->
  exists w' rs X', q_run w os = Ok (w', rs) /\ QInv w' X' /\ no_fault w' /\
    (os <> [] -> failed w' = false).
Proof.
  induction os as [|o os IH]; intros w X I Hp Hnf Hns.
  - exists w, [], X. split; [reflexivity|]. split; [exact I|]. split; [exact Hnf|congruence].
  - cbn [hist_pre] in Hp. destruct Hp as [Hpo Hpr]. inversion Hns as [|? ? Ho Hos]; subst.
    pose proof (op_pre_dq w X o I Hpo) as Hdq.
    destruct (step_refines w X o I Hdq) as (w1 & r & X1 & E & I1 & S & NF).
    destruct (NF Ho Hnf) as [Hnf1 Hf1].
    rewrite E in Hpr. destruct (IH w1 X1 I1 Hpr Hnf1 Hos) as (w2 & rs & X2 & E2 & I2 & Hnf2 & Hf2).
    exists w2, (r :: rs), X2. cbn [q_run]. rewrite E. cbn [fst snd]. rewrite E2. cbn [fst snd].
    split; [reflexivity|]. split; [exact I2|]. split; [exact Hnf2|]. intros _.
    destruct os as [|o' os']; [|apply Hf2; discriminate].
    cbn in E2. inversion E2; subst. exact Hf1.
Qed.

(* the two freshly constructed queues *)
Lemma world0_inv : QInv q_world0 ([], []).
Proof.
  assert (L1 : live (w_h q_world0) 1) by (exists (mkD 1 1); reflexivity).
  assert (L2 : live (w_h q_world0) 2) by (exists (mkD 2 2); reflexivity).
  constructor.
  - intros [|]; cbn [sel fst snd qaddr]; apply Ring_single; auto; split; reflexivity.
  - constructor.
  - intros x [].
  - intros [|]; reflexivity.
  - intros [|]; cbn; lia.
  - cbn. lia.
Qed.

(* what the invariant says in plain words *)
Theorem inv_facts w X :
  QInv w X ->
  (forall s, ring_of (w_h w) (qaddr s) (fuel_of w) = Some (sel s X)) /\
  (forall s, ring_of_back (w_h w) (qaddr s) (fuel_of w) = Some (rev (sel s X))) /\
  (forall s, q_num (getq w s) = N.of_nat (length (sel s X))) /\
  NoDup (fst X ++ snd X ++ pools w) /\
  (forall s x, In x (q_pool (getq w s)) -> ~ In x (fst X ++ snd X)).
Proof.
  intros I. split; [intros s; apply ring_of_spec; exact I|]. split; [intros s; apply ring_of_back_spec; exact I|].
  split; [apply (qi_num _ _ I)|]. split; [apply (qi_nodup _ _ I)|].
  intros s x Hx Hin. pose proof (qi_nodup _ _ I) as N. unfold allnodes in N. rewrite app_assoc in N.
  eapply NoDup_app_disj; eauto. unfold pools. destruct s; apply in_or_app; auto.
Qed.

(* ================================================================== the bodies as found are refuted *)
Definition world3 : qworld :=
  match q_run q_world0 [QPushBack false 1%Z; QPushBack false 2%Z; QPushBack false 3%Z] with
  | Ok (w, _) => w | _ => q_world0 end.

Lemma world3_inv : QInv world3 ([3; 4; 5], []).
Proof.
  destruct (run_refines [QPushBack false 1%Z; QPushBack false 2%Z; QPushBack false 3%Z] q_world0 ([], []) world0_inv)
    as (w' & rs & X' & E & I' & _).
  { vm_compute. auto. }
  assert (Hw : w' = world3) by (unfold world3; rewrite E; reflexivity). subst w'.
  pose proof (ring_of_spec _ _ false I') as Ha. pose proof (ring_of_spec _ _ true I') as Hb.
  vm_compute in Ha. vm_compute in Hb. destruct X' as [xa xb]. cbn [sel] in Ha, Hb.
  inversion Ha; inversion Hb; subst. exact I'.
Qed.

(* a_que_swap_ as found (a_list_swap_node) on two adjacent elements: the walk from the head never returns *)
Theorem swap_elem_orig_refuted :
  exists w X l r, QInv w X /\ In l (fst X) /\ In r (fst X) /\
    exists w', q_swap_elem_orig w l r = Ok w' /\ ring_of (w_h w') 1 (fuel_of w') = None /\
               forall X', ~ QInv w' X'.
Proof.
  exists world3, ([3; 4; 5], []), 3, 4. split; [exact world3_inv|]. split; [cbn; auto|]. split; [cbn; auto|].
  destruct (q_swap_elem_orig world3 3 4) as [w'| |] eqn:E; try (vm_compute in E; discriminate).
  exists w'. split; [reflexivity|].
  assert (Hr : ring_of (w_h w') 1 (fuel_of w') = None).
  { vm_compute in E. inversion E; subst. vm_compute. reflexivity. }
  split; [exact Hr|]. intros X' I'. pose proof (ring_of_spec w' X' false I') as Hs. cbn [qaddr] in Hs.
  rewrite Hs in Hr. discriminate.
Qed.

(* a_que_swap as found (structure copy): the walk from A's head meets B's sentinel as if it were an element *)
Theorem swap_orig_refuted :
  exists w X, QInv w X /\
    exists w', q_swap_orig w false true = Ok w' /\ ring_of (w_h w') 1 (fuel_of w') = Some [2] /\
               forall X', ~ QInv w' X'.
Proof.
  exists q_world0, ([], []). split; [exact world0_inv|].
  destruct (q_swap_orig q_world0 false true) as [w'| |] eqn:E; try (vm_compute in E; discriminate).
  exists w'. split; [reflexivity|].
  assert (Hr : ring_of (w_h w') 1 (fuel_of w') = Some [2]).
  { vm_compute in E. inversion E; subst. vm_compute. reflexivity. }
  split; [exact Hr|]. intros X' I'. pose proof (ring_of_spec w' X' false I') as Hs0. cbn [qaddr] in Hs0.
  rewrite Hs0 in Hr. inversion Hr as [Hs]. assert (3 <= 2).
  { eapply (QInv_node_ge3 w' X' 2 I'). eapply (allnodes_sel w' X' false). cbn [sel]. rewrite Hs. left. reflexivity. }
  lia.
Qed.
