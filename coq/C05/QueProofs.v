(* C05 - the queue of src/que.c refines a double-ended sequence (see QueSpec.v). *)
From Coq Require Import NArith ZArith List Bool FMapPositive Lia Permutation.
From LibaV Require Import C05.DListDefs C05.DListProofs C05.QueDefs C05.QueSpec.
Import ListNotations.
Local Open Scope N_scope.

(* ------------------------------------------------------------------ sel / upd *)
Lemma sel_upd_same {A} s (v : A) p : sel s (upd s v p) = v.
Proof. destruct s; reflexivity. Qed.
Lemma sel_upd_other {A} s (v : A) p : sel (negb s) (upd s v p) = sel (negb s) p.
Proof. destruct s; reflexivity. Qed.
Lemma upd_sel {A} s (p : A * A) : upd s (sel s p) p = p.
Proof. destruct s, p; reflexivity. Qed.
Lemma getq_setq_same w s q : getq (setq w s q) s = q.
Proof. destruct s; reflexivity. Qed.
Lemma getq_setq_other w s q : getq (setq w s q) (negb s) = getq w (negb s).
Proof. destruct s; reflexivity. Qed.
Lemma qaddr_neq s : qaddr s <> qaddr (negb s).
Proof. destruct s; discriminate. Qed.

Lemma bool_cases (s t : bool) : t = s \/ t = negb s.
Proof. destruct s, t; auto. Qed.

(* ------------------------------------------------------------------ permutations of app/cons lists *)
Ltac perm_app :=
  cbn [app]; rewrite <- ?app_assoc; cbn [app];
  repeat rewrite <- Permutation_middle;
  try reflexivity; try (apply perm_skip; reflexivity).

(* ------------------------------------------------------------------ facts from the invariant *)
Lemma allnodes_sel w X s x : In x (sel s X) -> In x (allnodes w X).
Proof.
  unfold allnodes. destruct s; simpl; intros H; apply in_or_app; [right; apply in_or_app|]; auto.
Qed.

Lemma allnodes_pool w X s x : In x (q_pool (getq w s)) -> In x (allnodes w X).
Proof.
  unfold allnodes, pools. destruct s; simpl; intros H; apply in_or_app; right; apply in_or_app; right;
    apply in_or_app; auto.
Qed.

Lemma QInv_node_ge3 w X x : QInv w X -> In x (allnodes w X) -> 3 <= x.
Proof. intros I H. apply (qi_node _ _ I x H). Qed.

Lemma QInv_sentinel_notin w X s : QInv w X -> ~ In (qaddr s) (allnodes w X).
Proof. intros I H. apply (QInv_node_ge3 _ _ _ I) in H. destruct s; simpl in H; lia. Qed.

(* the two rings are disjoint *)
Lemma QInv_rings_disj w X s x : QInv w X -> In x (qaddr s :: sel s X) -> ~ In x (qaddr (negb s) :: sel (negb s) X).
Proof.
  intros I [<-|H] [E|H'].
  - destruct s; discriminate.
  - eapply QInv_sentinel_notin; eauto. eapply allnodes_sel; eauto.
  - subst. eapply QInv_sentinel_notin; eauto. eapply allnodes_sel; eauto.
  - pose proof (qi_nodup _ _ I) as N. unfold allnodes in N. rewrite app_assoc in N. apply NoDup_app_l in N.
    destruct s; simpl in *; eapply NoDup_app_disj; eauto.
Qed.

Lemma QInv_live_sentinel w X s : QInv w X -> live (w_h w) (qaddr s).
Proof. intros I. eapply Ring_live; [apply (qi_ring _ _ I s)|left; reflexivity]. Qed.
