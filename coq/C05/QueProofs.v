(* C05 - the queue of src/que.c refines a double-ended sequence (see QueSpec.v). *)
From Coq Require Import NArith ZArith List Bool FMapPositive Lia Permutation.
From LibaV Require Import C05.DListDefs C05.DListProofs C05.QueDefs C05.QueSpec.
Import ListNotations.
Local Open Scope N_scope.

(* ------------------------------------------------------------------ sel / upd *)
Lemma sel_upd_same {A} s (v : A) p : sel s (upd s v p) = v.
Proof. destruct s; reflexivity. Qed.
Lemma sel_upd_other {A} s (v : A) p : sel (negb s) (upd s v p) = sel (negb s) p.
Proof. destruct s; reflexivity. Qed.
Lemma upd_sel {A} s (p : A * A) : upd s (sel s p) p = p.
Proof. destruct s, p; reflexivity. Qed.
Lemma getq_setq_same w s q : getq (setq w s q) s = q.
Proof. destruct s; reflexivity. Qed.
Lemma getq_setq_other w s q : getq (setq w s q) (negb s) = getq w (negb s).
Proof. destruct s; reflexivity. Qed.
Lemma qaddr_neq s : qaddr s <> qaddr (negb s).
Proof. destruct s; discriminate. Qed.

Lemma bool_cases (s t : bool) : t = s \/ t = negb s.
Proof. destruct s, t; auto. Qed.

(* ------------------------------------------------------------------ permutations of app/cons lists *)
Ltac perm_app :=
  cbn [app]; rewrite <- ?app_assoc; cbn [app];
  repeat rewrite <- Permutation_middle;
  try reflexivity; try (apply perm_skip; reflexivity).

(* ------------------------------------------------------------------ facts from the invariant *)
Lemma allnodes_sel w X s x : In x (sel s X) -> In x (allnodes w X).
Proof.
  unfold allnodes. destruct s; simpl; intros H; apply in_or_app; [right; apply in_or_app|]; auto.
Qed.

Lemma allnodes_pool w X s x : In x (q_pool (getq w s)) -> In x (allnodes w X).
Proof.
  unfold allnodes, pools. destruct s; simpl; intros H; apply in_or_app; right; apply in_or_app; right;
    apply in_or_app; auto.
Qed.

Lemma QInv_node_ge3 w X x : QInv w X -> In x (allnodes w X) -> 3 <= x.
Proof. intros I H. apply (qi_node _ _ I x H). Qed.

Lemma QInv_sentinel_notin w X s : QInv w X -> ~ In (qaddr s) (allnodes w X).
Proof. intros I H. apply (QInv_node_ge3 _ _ _ I) in H. destruct s; simpl in H; lia. Qed.

(* the two rings are disjoint *)
Lemma QInv_rings_disj w X s x : QInv w X -> In x (qaddr s :: sel s X) -> ~ In x (qaddr (negb s) :: sel (negb s) X).
Proof.
  intros I [<-|H] [E|H'].
  - destruct s; discriminate.
  - eapply QInv_sentinel_notin; eauto. eapply allnodes_sel; eauto.
  - subst. eapply QInv_sentinel_notin; eauto. eapply allnodes_sel; eauto.
  - pose proof (qi_nodup _ _ I) as N. unfold allnodes in N. rewrite app_assoc in N. apply NoDup_app_l in N.
    destruct s; simpl in *; eapply NoDup_app_disj; eauto.
Qed.

Lemma QInv_live_sentinel w X s : QInv w X -> live (w_h w) (qaddr s).
Proof. intros I. eapply Ring_live; [apply (qi_ring _ _ I s)|left; reflexivity]. Qed.

(* ------------------------------------------------------------------ values *)
Lemma vget_vset_same m a v : a <> 0 -> vget (vset m a v) a = Some v.
Proof. destruct a; [congruence|]. intros _. apply PositiveMap.gss. Qed.
Lemma vget_vset_other m a b v : a <> b -> vget (vset m a v) b = vget m b.
Proof. destruct a, b; simpl; intros; try reflexivity; try congruence. apply PositiveMap.gso. congruence. Qed.

Lemma pairs_ext w w' l : (forall x, In x l -> val w' x = val w x) -> pairs w' l = pairs w l.
Proof. intros H. unfold pairs. apply map_ext_in. intros x Hx. rewrite H; auto. Qed.

Lemma pairs_app w l1 l2 : pairs w (l1 ++ l2) = pairs w l1 ++ pairs w l2.
Proof. apply map_app. Qed.

Lemma map_fst_pairs w l : map fst (pairs w l) = l.
Proof. unfold pairs. rewrite map_map. simpl. apply map_id. Qed.

Lemma addrs_abs w X : addrs (abs w X) = fst X ++ snd X.
Proof. unfold addrs, abs. simpl. rewrite !map_fst_pairs. reflexivity. Qed.

(* ------------------------------------------------------------------ the allocator *)
Lemma ask_spec w mk : 
  let '(w1, ok) := ask w mk in
  w_h w1 = w_h w /\ w_val w1 = w_val w /\ w_fresh w1 = w_fresh w /\ w_qa w1 = w_qa w /\ w_qb w1 = w_qb w /\
  w_trace w1 = mk ok :: w_trace w /\ (w_sched w = [] -> ok = true /\ w_sched w1 = []).
Proof.
  unfold ask. destruct (w_sched w) as [|b r]; simpl; repeat split; auto; discriminate.
Qed.

(* everything but the schedule and the trace is the same *)
Definition same_core (w w1 : qworld) : Prop :=
  w_h w1 = w_h w /\ w_val w1 = w_val w /\ w_fresh w1 = w_fresh w /\ w_qa w1 = w_qa w /\ w_qb w1 = w_qb w.

Lemma same_core_QInv w w1 X : same_core w w1 -> QInv w X -> QInv w1 X.
Proof.
  intros (Hh & Hv & Hf & Ha & Hb) I.
  assert (Hq : forall s, getq w1 s = getq w s) by (intros []; unfold getq; congruence).
  assert (Hall : allnodes w1 X = allnodes w X) by (unfold allnodes, pools; congruence).
  destruct I. constructor; rewrite ?Hall, ?Hh, ?Hv, ?Hf; auto; intros s; rewrite Hq; auto.
Qed.

Lemma same_core_abs w w1 X : same_core w w1 -> abs w1 X = abs w X.
Proof.
  intros (Hh & Hv & Hf & Ha & Hb). unfold abs. f_equal; apply pairs_ext; intros x _; unfold val; rewrite Hv; reflexivity.
Qed.

(* the schedule [] never refuses *)
Definition no_fault (w : qworld) : Prop := w_sched w = [].

(* ------------------------------------------------------------------ a_que_new_ *)
Record QMidNew (w1 : qworld) (X : list id * list id) (s : bool) (n : id) : Prop := {
  mn_ring : forall t, Ring (w_h w1) (qaddr t :: sel t X);
  mn_nodup : NoDup (n :: allnodes w1 X);
  mn_node : forall x, In x (n :: allnodes w1 X) ->
              3 <= x < w_fresh w1 /\ live (w_h w1) x /\ vget (w_val w1) x <> None;
  mn_num_s : q_num (getq w1 s) = N.of_nat (length (sel s X)) + 1;
  mn_num_o : q_num (getq w1 (negb s)) = N.of_nat (length (sel (negb s) X));
  mn_mem : forall t, N.of_nat (length (q_pool (getq w1 t))) <= q_mem (getq w1 t);
  mn_fresh : N.of_nat (length (n :: allnodes w1 X)) + 3 <= w_fresh w1 }.

Lemma getq_sel w s : getq w s = sel s (w_qa w, w_qb w).
Proof. destruct s; reflexivity. Qed.

Lemma pools_setq w s q : pools (setq w s q) = sel s (q_pool q ++ q_pool (w_qb w), q_pool (w_qa w) ++ q_pool q).
Proof. destruct s; reflexivity. Qed.

Lemma new_spec w X s :
  QInv w X ->
  exists w1 n, q_new_ w s = Ok (w1, n) /\
    ((n = 0 /\ same_core w w1 /\ failed w1 = true /\ w_sched w <> []) \/
     (n <> 0 /\ QMidNew w1 X s n /\ (forall x, x <> n -> val w1 x = val w x) /\
      (failed w1 = failed w) /\ (no_fault w -> no_fault w1))).
Proof.
  intros I. unfold q_new_.
  destruct (q_pool (getq w s)) as [|n rest] eqn:Hp.
  - (* nothing to recycle: ask the allocator *)
    pose proof (ask_spec w (RNode (16 + q_siz (getq w s)))) as A.
    destruct (ask w (RNode (16 + q_siz (getq w s)))) as [w1 ok].
    destruct A as (Hh & Hv & Hf & Ha & Hb & Ht & Hs).
    destruct ok.
    + eexists _, _. split; [reflexivity|]. right.
      set (n := w_fresh w1).
      assert (Hn3 : 3 <= n).
      { unfold n. rewrite Hf. pose proof (qi_fresh _ _ I). lia. }
      assert (Hnz : n <> 0) by lia.
      assert (Hq : forall t, q_pool (getq (setq (mkW (dset (w_h w1) n (mkD 0 0)) (vset (w_val w1) n 0%Z) (n + 1)
                     (w_qa w1) (w_qb w1) (w_sched w1) (w_trace w1)) s
                     (mkQ [] (q_siz (getq w s)) (q_num (getq w s) + 1) (q_mem (getq w s)))) t)
                   = q_pool (getq w t)).
      { intros t. destruct s, t; simpl; unfold getq in *; rewrite ?Ha, ?Hb; auto. }
      assert (Hall : forall Y, allnodes (setq (mkW (dset (w_h w1) n (mkD 0 0)) (vset (w_val w1) n 0%Z) (n + 1)
                     (w_qa w1) (w_qb w1) (w_sched w1) (w_trace w1)) s
                     (mkQ [] (q_siz (getq w s)) (q_num (getq w s) + 1) (q_mem (getq w s)))) Y = allnodes w Y).
      { intros Y. unfold allnodes, pools. f_equal. f_equal.
        destruct s; simpl; unfold getq in *; rewrite ?Ha, ?Hb; simpl in *; rewrite ?Hp; auto. }
      assert (Hnew : forall x, In x (allnodes w X) -> x <> n).
      { intros x Hx. pose proof (qi_node _ _ I x Hx) as (B & _). unfold n. rewrite Hf. lia. }
      split; [exact Hnz|]. split; [|split; [|split]].
      * constructor; rewrite ?Hall.
        -- intros t. destruct s; simpl; rewrite Hh.
           ++ eapply Ring_Frame; [apply (qi_ring _ _ I t)| |].
              ** intros x Hx. apply dget_dset_other. intros E. apply Hx. left. exact E.
              ** intros x Hx [E|[]]. subst x. destruct Hx as [E|Hx].
                 --- destruct t; simpl in E; lia.
                 --- apply (Hnew n); auto. eapply allnodes_sel; eauto.
           ++ eapply Ring_Frame; [apply (qi_ring _ _ I t)| |].
              ** intros x Hx. apply dget_dset_other. intros E. apply Hx. left. exact E.
              ** intros x Hx [E|[]]. subst x. destruct Hx as [E|Hx].
                 --- destruct t; simpl in E; lia.
                 --- apply (Hnew n); auto. eapply allnodes_sel; eauto.
        -- constructor; [|apply (qi_nodup _ _ I)]. intros H. apply (Hnew n H). reflexivity.
        -- intros x Hx.
           assert (Hfr : w_fresh (setq (mkW (dset (w_h w1) n (mkD 0 0)) (vset (w_val w1) n 0%Z) (n + 1)
                     (w_qa w1) (w_qb w1) (w_sched w1) (w_trace w1)) s
                     (mkQ [] (q_siz (getq w s)) (q_num (getq w s) + 1) (q_mem (getq w s)))) = n + 1)
             by (destruct s; reflexivity).
           assert (Hhp : w_h (setq (mkW (dset (w_h w1) n (mkD 0 0)) (vset (w_val w1) n 0%Z) (n + 1)
                     (w_qa w1) (w_qb w1) (w_sched w1) (w_trace w1)) s
                     (mkQ [] (q_siz (getq w s)) (q_num (getq w s) + 1) (q_mem (getq w s)))) = dset (w_h w1) n (mkD 0 0))
             by (destruct s; reflexivity).
           assert (Hvl : w_val (setq (mkW (dset (w_h w1) n (mkD 0 0)) (vset (w_val w1) n 0%Z) (n + 1)
                     (w_qa w1) (w_qb w1) (w_sched w1) (w_trace w1)) s
                     (mkQ [] (q_siz (getq w s)) (q_num (getq w s) + 1) (q_mem (getq w s)))) = vset (w_val w1) n 0%Z)
             by (destruct s; reflexivity).
           rewrite Hfr, Hhp, Hvl. destruct Hx as [<-|Hx].
           ++ split; [lia|]. split.
              ** exists (mkD 0 0). apply dget_dset_same. exact Hnz.
              ** rewrite vget_vset_same by exact Hnz. discriminate.
           ++ pose proof (qi_node _ _ I x Hx) as (B & L & V). pose proof (Hnew x Hx) as Hne.
              split; [unfold n in *; rewrite Hf in *; lia|]. split.
              ** destruct L as [d Hd]. exists d. rewrite dget_dset_other by congruence. rewrite Hh. exact Hd.
              ** rewrite vget_vset_other by congruence. rewrite Hv. exact V.
        -- rewrite getq_setq_same. simpl. rewrite (qi_num _ _ I s). reflexivity.
        -- rewrite getq_setq_other. rewrite <- (qi_num _ _ I (negb s)).
           destruct s; simpl; unfold getq; simpl; congruence.
        -- intros t. destruct (bool_cases s t) as [->| ->].
           ++ rewrite getq_setq_same. simpl. lia.
           ++ rewrite getq_setq_other. pose proof (qi_mem _ _ I (negb s)) as M.
              destruct s; simpl in *; unfold getq in *; simpl in *; rewrite ?Ha, ?Hb; exact M.
        -- assert (Hfr : w_fresh (setq (mkW (dset (w_h w1) n (mkD 0 0)) (vset (w_val w1) n 0%Z) (n + 1)
                     (w_qa w1) (w_qb w1) (w_sched w1) (w_trace w1)) s
                     (mkQ [] (q_siz (getq w s)) (q_num (getq w s) + 1) (q_mem (getq w s)))) = n + 1)
             by (destruct s; reflexivity).
           rewrite Hfr. pose proof (qi_fresh _ _ I). unfold n. rewrite Hf. simpl length. lia.
      * intros x Hx. unfold val.
        assert (Hvl : w_val (setq (mkW (dset (w_h w1) n (mkD 0 0)) (vset (w_val w1) n 0%Z) (n + 1)
                     (w_qa w1) (w_qb w1) (w_sched w1) (w_trace w1)) s
                     (mkQ [] (q_siz (getq w s)) (q_num (getq w s) + 1) (q_mem (getq w s)))) = vset (w_val w1) n 0%Z)
             by (destruct s; reflexivity).
        rewrite Hvl, vget_vset_other by congruence. rewrite Hv. reflexivity.
      * unfold failed. destruct s; simpl; rewrite Ht; reflexivity.
      * unfold no_fault. intros Hs0. destruct (Hs Hs0) as [_ Hs1]. destruct s; simpl; exact Hs1.
    + eexists _, _. split; [reflexivity|]. left. split; [reflexivity|]. split; [|split].
      * unfold same_core. auto.
      * unfold failed. rewrite Ht. reflexivity.
      * intros Hs0. destruct (Hs Hs0). discriminate.
  - (* recycle the top of the pool *)
    pose proof (qi_mem _ _ I s) as M. rewrite Hp in M.
    replace (N.ltb (q_mem (getq w s)) (N.of_nat (length (n :: rest)))) with false
      by (symmetry; apply N.ltb_ge; exact M).
    eexists _, _. split; [reflexivity|]. right.
    assert (Hn : In n (allnodes w X)) by (eapply allnodes_pool; rewrite Hp; left; reflexivity).
    pose proof (qi_node _ _ I n Hn) as (Bn & Ln & Vn).
    assert (Hnz : n <> 0) by lia.
    set (w1 := setq w s (mkQ rest (q_siz (getq w s)) (q_num (getq w s) + 1) (q_mem (getq w s)))).
    assert (Hh : w_h w1 = w_h w) by (destruct s; reflexivity).
    assert (Hv : w_val w1 = w_val w) by (destruct s; reflexivity).
    assert (Hf : w_fresh w1 = w_fresh w) by (destruct s; reflexivity).
    assert (Hperm : Permutation (n :: allnodes w1 X) (allnodes w X)).
    { unfold allnodes. unfold w1. rewrite pools_setq. unfold pools.
      destruct s; simpl in *; unfold getq in Hp; simpl in Hp; rewrite Hp; perm_app. }
    split; [exact Hnz|]. split; [|split; [|split]].
    + constructor; rewrite ?Hh, ?Hv, ?Hf.
      * apply (qi_ring _ _ I).
      * eapply Permutation_NoDup; [symmetry; exact Hperm|apply (qi_nodup _ _ I)].
      * intros x Hx. apply (qi_node _ _ I). eapply Permutation_in; eauto.
      * unfold w1. rewrite getq_setq_same. simpl. rewrite (qi_num _ _ I s). reflexivity.
      * unfold w1. rewrite getq_setq_other. apply (qi_num _ _ I).
      * intros t. destruct (bool_cases s t) as [->| ->]; unfold w1.
        -- rewrite getq_setq_same. simpl. simpl in M. lia.
        -- rewrite getq_setq_other. apply (qi_mem _ _ I).
      * rewrite (Permutation_length Hperm). apply (qi_fresh _ _ I).
    + intros x _. unfold val. rewrite Hv. reflexivity.
    + unfold failed, w1. destruct s; reflexivity.
    + unfold no_fault, w1. destruct s; simpl; auto.
Qed.
