(* C05 - the abstract machine the circular doubly linked lists of include/a/list.h are proved to
   follow over whole histories, and the representation invariant.  Definitions only.

   Abstract state: (rings, pieces)
     a ring   is a cyclic sequence of nodes, written as a list starting at any of its nodes
              (a list head with its elements, or a lone constructed node [c]);
     a piece  is a detached chain: a section taken out of a ring by a_list_del_ / a_list_set_ /
              a deleted or replaced node, or a node that was never linked.  Its inner links are
              intact, its two outer links are unspecified ([n] = a node about which nothing is assumed).
   A step is enabled exactly when the documented precondition of the C function holds: sections are
   given by their first and last node in ring order, the two sections of a_list_swap_ are disjoint
   and not adjacent (a, b <> []), a_list_mov_* takes the elements of another ring, the node handed to
   a_list_add_* is not on a ring.  [dweak] says how one state may be read as another: rings and
   pieces are unordered, a ring may be written from any of its nodes, a ring may be regarded as the
   chain obtained by opening it between its last and first node, a chain may be regarded as two. *)
From Coq Require Import NArith List Permutation.
From LibaV Require Import C05.DListDefs C05.DListProofs.
Import ListNotations.
Local Open Scope N_scope.

Definition dabs := (list (list id) * list (list id))%type.
Definition d_all (a : dabs) : list id := concat (fst a) ++ concat (snd a).

(* representation invariant: no node occurs twice anywhere; every ring is a Ring of the heap
   (consecutive nodes linked both ways: x->next = y and y->prev = x, last linked to first);
   every piece is a Piece (the same for its inner links; all nodes exist) *)
Record DInv (h : dheap) (a : dabs) : Prop := {
  di_nodup : NoDup (d_all a);
  di_rings : Forall (Ring h) (fst a);
  di_pieces : Forall (Piece h) (snd a) }.

Inductive dweak : dabs -> dabs -> Prop :=
| dw_perm rs rs' ps ps' : Permutation rs rs' -> Permutation ps ps' -> dweak (rs, ps) (rs', ps')
| dw_rot l1 l2 rs ps : dweak ((l1 ++ l2) :: rs, ps) ((l2 ++ l1) :: rs, ps)
| dw_open l rs ps : dweak (l :: rs, ps) (rs, l :: ps)
| dw_split p q rs ps : dweak (rs, (p ++ q) :: ps) (rs, p :: q :: ps)
| dw_trans a b c : dweak a b -> dweak b c -> dweak a c.

Inductive dl_step : lop -> dabs -> dabs -> Prop :=
(* a_list_ctor / a_list_init / a_list_dtor on a node that is on no ring *)
| d_init c rs ps :
    dl_step (LInit c) (rs, [c] :: ps) ([c] :: rs, ps)
(* a_list_add_(head1, tail1, head2, tail2): two chains are closed into one ring *)
| d_add_ l1 l2 rs ps :
    l1 <> [] -> l2 <> [] ->
    dl_step (LAdd_ (hd0 l1) (last l1 0) (hd0 l2) (last l2 0)) (rs, l1 :: l2 :: ps) ((l1 ++ l2) :: rs, ps)
| d_add_node l1 n rs ps :
    l1 <> [] ->
    dl_step (LAddNode (hd0 l1) (last l1 0) n) (rs, l1 :: [n] :: ps) ((l1 ++ [n]) :: rs, ps)
| d_add_next c xs n rs ps :
    dl_step (LAddNext c n) ((c :: xs) :: rs, [n] :: ps) ((c :: n :: xs) :: rs, ps)
| d_add_prev c xs n rs ps :
    dl_step (LAddPrev c n) ((c :: xs) :: rs, [n] :: ps) ((c :: xs ++ [n]) :: rs, ps)
(* a_list_del_(head, tail): the section s leaves its ring and stays a chain *)
| d_del_ s rest rs ps :
    s <> [] -> rest <> [] ->
    dl_step (LDel_ (hd0 s) (last s 0)) ((s ++ rest) :: rs, ps) (rest :: rs, s :: ps)
| d_del_whole s rs ps :
    dl_step (LDel_ (hd0 s) (last s 0)) (s :: rs, ps) (s :: rs, ps)
| d_del_node n l rs ps :
    l <> [] ->
    dl_step (LDelNode n) ((n :: l) :: rs, ps) (l :: rs, [n] :: ps)
| d_del_node_whole n rs ps :
    dl_step (LDelNode n) ([n] :: rs, ps) ([n] :: rs, ps)
| d_del_next c n xs rs ps :
    dl_step (LDelNext c) ((c :: n :: xs) :: rs, ps) ((c :: xs) :: rs, [n] :: ps)
| d_del_next_single c rs ps :
    dl_step (LDelNext c) ([c] :: rs, ps) ([c] :: rs, ps)
| d_del_prev c xs n rs ps :
    dl_step (LDelPrev c) ((c :: xs ++ [n]) :: rs, ps) ((c :: xs) :: rs, [n] :: ps)
| d_del_prev_single c rs ps :
    dl_step (LDelPrev c) ([c] :: rs, ps) ([c] :: rs, ps)
(* a_list_set_ / a_list_set_node: the section s1 of a ring is replaced by the chain l2 *)
| d_set_ s1 rest l2 rs ps :
    s1 <> [] -> rest <> [] -> l2 <> [] ->
    dl_step (LSet_ (hd0 s1) (last s1 0) (hd0 l2) (last l2 0))
            ((s1 ++ rest) :: rs, l2 :: ps) ((l2 ++ rest) :: rs, s1 :: ps)
| d_set_node c rest r rs ps :
    rest <> [] ->
    dl_step (LSetNode c r) ((c :: rest) :: rs, [r] :: ps) ((r :: rest) :: rs, [c] :: ps)
(* a_list_mov_next / a_list_mov_prev: the elements ys of the ring headed by r go to the ring of c;
   r itself is left with stale links (a chain of one node) *)
| d_mov_next c xs r ys rs ps :
    ys <> [] ->
    dl_step (LMovNext c r) ((c :: xs) :: (r :: ys) :: rs, ps) ((c :: ys ++ xs) :: rs, [r] :: ps)
| d_mov_next_empty c xs r rs ps :
    dl_step (LMovNext c r) ((c :: xs) :: [r] :: rs, ps) ((c :: r :: xs) :: rs, ps)
| d_mov_prev c xs r ys rs ps :
    ys <> [] ->
    dl_step (LMovPrev c r) ((c :: xs) :: (r :: ys) :: rs, ps) ((c :: xs ++ ys) :: rs, [r] :: ps)
| d_mov_prev_empty c xs r rs ps :
    dl_step (LMovPrev c r) ((c :: xs) :: [r] :: rs, ps) ((c :: xs ++ [r]) :: rs, ps)
(* a_list_rot_next / a_list_rot_prev *)
| d_rot_next c xs n rs ps :
    dl_step (LRotNext c) ((c :: xs ++ [n]) :: rs, ps) ((c :: n :: xs) :: rs, ps)
| d_rot_next_single c rs ps :
    dl_step (LRotNext c) ([c] :: rs, ps) ([c] :: rs, ps)
| d_rot_prev c n xs rs ps :
    dl_step (LRotPrev c) ((c :: n :: xs) :: rs, ps) ((c :: xs ++ [n]) :: rs, ps)
| d_rot_prev_single c rs ps :
    dl_step (LRotPrev c) ([c] :: rs, ps) ([c] :: rs, ps)
(* a_list_swap_ / a_list_swap_node: two disjoint, non-adjacent sections of one ring or of two rings *)
| d_swap_same s1 a s2 b rs ps :
    s1 <> [] -> a <> [] -> s2 <> [] -> b <> [] ->
    dl_step (LSwap_ (hd0 s1) (last s1 0) (hd0 s2) (last s2 0))
            ((s1 ++ a ++ s2 ++ b) :: rs, ps) ((s2 ++ a ++ s1 ++ b) :: rs, ps)
| d_swap_two s1 a s2 b rs ps :
    s1 <> [] -> a <> [] -> s2 <> [] -> b <> [] ->
    dl_step (LSwap_ (hd0 s1) (last s1 0) (hd0 s2) (last s2 0))
            ((s1 ++ a) :: (s2 ++ b) :: rs, ps) ((s2 ++ a) :: (s1 ++ b) :: rs, ps)
| d_swap_node_same l a r b rs ps :
    a <> [] -> b <> [] ->
    dl_step (LSwapNode l r) ((l :: a ++ r :: b) :: rs, ps) ((r :: a ++ l :: b) :: rs, ps)
| d_swap_node_two l a r b rs ps :
    a <> [] -> b <> [] ->
    dl_step (LSwapNode l r) ((l :: a) :: (r :: b) :: rs, ps) ((r :: a) :: (l :: b) :: rs, ps)
| d_swap_node_self l xs rs ps :
    dl_step (LSwapNode l l) ((l :: xs) :: rs, ps) ((l :: xs) :: rs, ps)
(* the state may be re-read before and after *)
| d_weak o a a' b' b :
    dweak a a' -> dl_step o a' b' -> dweak b' b -> dl_step o a b.

Inductive dl_run : list lop -> dabs -> dabs -> Prop :=
| dr_nil a : dl_run [] a a
| dr_cons o os a a1 a2 : dl_step o a a1 -> dl_run os a1 a2 -> dl_run (o :: os) a a2.

(* the world the drivers start from: nodes 1..n, each constructed (a ring of its own) *)
Fixpoint l_ids (n : nat) : list id :=
  match n with O => [] | S k => N.of_nat n :: l_ids k end.
Definition d_abs0 (n : nat) : dabs := (map (fun a => [a]) (l_ids n), []).
