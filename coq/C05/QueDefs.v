(* C05 - executable pointer-level model of src/que.c + include/a/que.h (the queue on a_list).
   NO proofs in this file.

   Two queue objects exist, at addresses 1 (A) and 2 (B); the address of a queue object is the
   address of its embedded ring sentinel head_.  Element nodes get addresses 3,4,5,... in the
   order in which a_alloc hands them out (an address is never reused in the model: the C driver
   names blocks the same way).  The value stored in an element (first payload byte) lives in a
   separate map, so "element addresses stay fixed" is visible: no operation moves a value.

   Allocation is explicit: every a_alloc request with a non-zero size (new node, growth of the
   pool array, resize of a pooled node in a_que_setz) consumes one boolean of the fault schedule
   w_sched (true = the request succeeds); an exhausted schedule answers true, so [] is the
   normal, fault-free allocator.  Every request is logged in w_trace (kind, size, answer).

   The model follows /repo as it is now: a_que_swap and a_que_swap_ with the repairs C05-2 / C05-3
   (bodies as found kept as q_swap_orig / q_swap_elem_orig), a_que_drop with the up-front
   reservation and a_que_setz releasing the recycled nodes (fix commits 2e456ba, 8678f0c; bodies as
   found kept as q_drop_orig / q_setz_orig).

   num_, mem_ and the counters are unbounded N here (no mod 2^64): every element occupies at
   least 17 bytes of address space, so the C counters cannot wrap.  Indices passed by the caller
   (a_size idx, a_diff idx) are arbitrary N / Z. *)
From Coq Require Import NArith ZArith List FMapPositive.
From LibaV Require Import C05.DListDefs.
Import ListNotations.
Local Open Scope N_scope.

Inductive outcome (A : Type) : Type := Ok (a : A) | Fault | NoFuel.
Arguments Ok {A} a. Arguments Fault {A}. Arguments NoFuel {A}.

Notation "'doo' x <- e ; f" := (match e with Ok x => f | Fault => Fault | NoFuel => NoFuel end)
  (at level 200, x name, e at level 100, f at level 200, right associativity).
Definition lift {A} (o : option A) : outcome A := match o with Some a => Ok a | None => Fault end.

Inductive areq := RNode (size : N) (ok : bool)      (* a_alloc(NULL, sizeof(a_list)+siz_) in a_que_new_ *)
                | RPool (size : N) (ok : bool)      (* a_alloc(ptr_, 8*mem) in a_que_die_ *)
                | RResize (size : N) (ok : bool).   (* a_alloc(node, sizeof(a_list)+siz) in a_que_setz *)

Record que := mkQ { q_pool : list id;   (* ptr_[cur_-1] first ... ptr_[0] last: the stack, top first *)
                    q_siz : N; q_num : N; q_mem : N }.

Record qworld := mkW { w_h : dheap;                (* next/prev of both sentinels and of every live node *)
                       w_val : PositiveMap.t Z;    (* payload of every live node *)
                       w_fresh : N;                (* next address a_alloc will hand out *)
                       w_qa : que; w_qb : que;
                       w_sched : list bool; w_trace : list areq }.

Definition qaddr (s : bool) : id := if s then 2 else 1.
Definition getq (w : qworld) (s : bool) : que := if s then w_qb w else w_qa w.
Definition setq (w : qworld) (s : bool) (q : que) : qworld :=
  if s then mkW (w_h w) (w_val w) (w_fresh w) (w_qa w) q (w_sched w) (w_trace w)
  else mkW (w_h w) (w_val w) (w_fresh w) q (w_qb w) (w_sched w) (w_trace w).
Definition seth (w : qworld) (h : dheap) : qworld :=
  mkW h (w_val w) (w_fresh w) (w_qa w) (w_qb w) (w_sched w) (w_trace w).
Definition vget (m : PositiveMap.t Z) (a : id) : option Z :=
  match a with 0 => None | Npos p => PositiveMap.find p m end.
Definition vset (m : PositiveMap.t Z) (a : id) (v : Z) : PositiveMap.t Z :=
  match a with 0 => m | Npos p => PositiveMap.add p v m end.
Definition vdel (m : PositiveMap.t Z) (a : id) : PositiveMap.t Z :=
  match a with 0 => m | Npos p => PositiveMap.remove p m end.
Definition setv (w : qworld) (a : id) (v : Z) : qworld :=
  mkW (w_h w) (vset (w_val w) a v) (w_fresh w) (w_qa w) (w_qb w) (w_sched w) (w_trace w).

(* one a_alloc request: consume an answer, log the request *)
Definition ask (w : qworld) (mk : bool -> areq) : qworld * bool :=
  let '(ok, sch) := match w_sched w with [] => (true, []) | b :: r => (b, r) end in
  (mkW (w_h w) (w_val w) (w_fresh w) (w_qa w) (w_qb w) sch (mk ok :: w_trace w), ok).

(* a_size_up(sizeof(void ptr), n): round up to a multiple of 8 *)
Definition size_up8 (n : N) : N := ((n + 7) / 8) * 8.

(* a_que_ctor *)
Definition q_ctor (w : qworld) (s : bool) (size : N) : outcome qworld :=
  doo h <- lift (l_init (w_h w) (qaddr s)) ;
  Ok (setq (seth w h) s (mkQ [] (if N.eqb size 0 then 1 else size) 0 0)).

(* a_que_new_: returns the node (0 = allocation failed).  The pop  ptr_[--cur_]  is bounds-checked
   against the capacity mem_ of the pool array. *)
Definition q_new_ (w : qworld) (s : bool) : outcome (qworld * id) :=
  let q := getq w s in
  match q_pool q with
  | [] =>
      let '(w1, ok) := ask w (RNode (16 + q_siz q)) in
      if ok then
        let n := w_fresh w1 in
        let w2 := mkW (dset (w_h w1) n (mkD 0 0)) (vset (w_val w1) n 0%Z) (n + 1)
                      (w_qa w1) (w_qb w1) (w_sched w1) (w_trace w1) in
        Ok (setq w2 s (mkQ [] (q_siz q) (q_num q + 1) (q_mem q)), n)
      else Ok (w1, 0)
  | n :: rest =>
      if N.ltb (q_mem q) (N.of_nat (length (q_pool q))) then Fault
      else Ok (setq w s (mkQ rest (q_siz q) (q_num q + 1) (q_mem q)), n)
  end.

(* a_que_die_: returns the error code (0 success, 2 A_INVALID, 4 A_OMEMORY).  The push
   ptr_[cur_++] = node  is bounds-checked against the (possibly just grown) capacity. *)
Definition q_die_ (w : qworld) (s : bool) (node : id) : outcome (qworld * Z) :=
  if N.eqb node 0 then Ok (w, 2%Z)
  else
    let q := getq w s in
    let cur := N.of_nat (length (q_pool q)) in
    if N.leb (q_mem q) cur then
      let mem := size_up8 (q_mem q + N.div2 (q_mem q) + 1) in
      let '(w1, ok) := ask w (RPool (8 * mem)) in
      if ok then
        if N.ltb cur mem
        then Ok (setq w1 s (mkQ (node :: q_pool q) (q_siz q) (q_num q - 1) mem), 0%Z)
        else Fault
      else Ok (w1, 4%Z)
    else Ok (setq w s (mkQ (node :: q_pool q) (q_siz q) (q_num q - 1) (q_mem q)), 0%Z).

(* the k-th node (0-based) met from [it] following next (fwd=true) or prev until [head];
   0 when the head is reached first *)
Fixpoint seek (fwd : bool) (h : dheap) (head it : id) (k : N) (fuel : nat) : outcome id :=
  match fuel with
  | O => NoFuel
  | S f =>
      if N.eqb it head then Ok 0
      else if N.eqb k 0 then Ok it
      else doo n <- lift (if fwd then rd_next h it else rd_prev h it) ; seek fwd h head n (k - 1) f
  end.

Definition fuel_of (w : qworld) : nat := S (N.to_nat (w_fresh w)).

(* a_que_at: idx >= 0 counts from the front (cur++ == idx), idx < 0 from the back (--cur == idx) *)
Definition q_at (w : qworld) (s : bool) (idx : Z) : outcome id :=
  let head := qaddr s in
  if Z.leb 0 idx then
    doo n <- lift (rd_next (w_h w) head) ; seek true (w_h w) head n (Z.to_N idx) (fuel_of w)
  else
    doo n <- lift (rd_prev (w_h w) head) ; seek false (w_h w) head n (Z.to_N (- idx - 1)) (fuel_of w).

(* a_que_fore / a_que_back *)
Definition q_fore (w : qworld) (s : bool) : outcome id :=
  doo n <- lift (rd_next (w_h w) (qaddr s)) ; Ok (if N.eqb n (qaddr s) then 0 else n).
Definition q_back (w : qworld) (s : bool) : outcome id :=
  doo n <- lift (rd_prev (w_h w) (qaddr s)) ; Ok (if N.eqb n (qaddr s) then 0 else n).

(* a_que_push_fore / push_back; the caller then stores v through the returned pointer *)
Definition q_push (fore : bool) (w : qworld) (s : bool) (v : Z) : outcome (qworld * id) :=
  doo xn <- q_new_ w s ;
  let '(w1, node) := xn in
  if N.eqb node 0 then Ok (w1, 0)
  else
    doo h <- lift (if fore then l_add_next (w_h w1) (qaddr s) node
                else l_add_prev (w_h w1) (qaddr s) node) ;
    Ok (setv (seth w1 h) node v, node).

(* common tail of pull_fore / pull_back / remove / drop:
     rc = a_que_die_(ctx, node);  if (rc == 0) { a_list_del_node(node); a_list_dtor(node); }   *)
Definition q_take_rc (w : qworld) (s : bool) (node : id) : outcome (qworld * Z) :=
  doo xd <- q_die_ w s node ;
  let '(w1, rc) := xd in
  if Z.eqb rc 0 then
    doo h1 <- lift (l_del_node (w_h w1) node) ;
    doo h2 <- lift (l_init h1 node) ;
    Ok (seth w1 h2, 0%Z)
  else Ok (w1, rc).

(* ... return node + 1 on success, NULL otherwise *)
Definition q_take (w : qworld) (s : bool) (node : id) : outcome (qworld * id) :=
  doo x <- q_take_rc w s node ;
  Ok (fst x, if Z.eqb (snd x) 0 then node else 0).

Definition q_pull (fore : bool) (w : qworld) (s : bool) : outcome (qworld * id) :=
  let head := qaddr s in
  doo n <- lift (if fore then rd_next (w_h w) head else rd_prev (w_h w) head) ;
  if N.eqb n head then Ok (w, 0) else q_take w s n.

(* a_que_insert *)
Definition q_insert (w : qworld) (s : bool) (idx : N) (v : Z) : outcome (qworld * id) :=
  if N.ltb idx (q_num (getq w s)) then
    doo xn <- q_new_ w s ;
  let '(w1, node) := xn in
    if N.eqb node 0 then Ok (w1, 0)
    else
      let head := qaddr s in
      doo n <- lift (rd_next (w_h w1) head) ;
      doo it <- seek true (w_h w1) head n idx (fuel_of w1) ;
      if N.eqb it 0 then Ok (setv w1 node v, node)       (* loop ran off the ring: nothing linked *)
      else
        doo h <- lift (l_add_prev (w_h w1) it node) ;
        Ok (setv (seth w1 h) node v, node)
  else q_push false w s v.

(* a_que_remove *)
Definition q_remove (w : qworld) (s : bool) (idx : N) : outcome (qworld * id) :=
  if N.ltb idx (q_num (getq w s)) then
    let head := qaddr s in
    doo n <- lift (rd_next (w_h w) head) ;
    doo node <- seek true (w_h w) head n idx (fuel_of w) ;
    q_take w s node
  else q_pull false w s.

Section Cmp.
Variable cmp : Z -> Z -> Z.

(* the do-while of a_que_sort_fore:  do { if (cmp(it,at) <= 0) break; at = at->next; } while (at != head) *)
Fixpoint scan_fore (h : dheap) (vs : PositiveMap.t Z) (head : id) (itv : Z) (at_ : id) (fuel : nat)
  : outcome id :=
  match fuel with
  | O => NoFuel
  | S f =>
      doo v <- lift (vget vs at_) ;
      if Z.leb (cmp itv v) 0 then Ok at_
      else doo n <- lift (rd_next h at_) ;
           if N.eqb n head then Ok n else scan_fore h vs head itv n f
  end.

(* a_que_sort_fore *)
Definition q_sort_fore (w : qworld) (s : bool) : outcome qworld :=
  if N.ltb 1 (q_num (getq w s)) then
    let head := qaddr s in let h := w_h w in
    doo it <- lift (rd_next h head) ;
    doo at0 <- lift (rd_next h it) ;
    doo itv <- lift (vget (w_val w) it) ;
    doo at1 <- scan_fore h (w_val w) head itv at0 (fuel_of w) ;
    doo itn <- lift (rd_next h it) ;
    if N.eqb at1 itn then Ok w
    else
      doo at2 <- lift (rd_prev h at1) ;
      doo itp <- lift (rd_prev h it) ;
      doo h1 <- lift (l_link h itp itn) ;
      doo a2n <- lift (rd_next h1 at2) ;
      doo h2 <- lift (l_link h1 it a2n) ;
      doo h3 <- lift (l_link h2 at2 it) ;
      Ok (seth w h3)
  else Ok w.

(* the do-while of a_que_sort_back:  do { if (cmp(at,it) <= 0) break; at = at->prev; } while (at != head) *)
Fixpoint scan_back (h : dheap) (vs : PositiveMap.t Z) (head : id) (itv : Z) (at_ : id) (fuel : nat)
  : outcome id :=
  match fuel with
  | O => NoFuel
  | S f =>
      doo v <- lift (vget vs at_) ;
      if Z.leb (cmp v itv) 0 then Ok at_
      else doo n <- lift (rd_prev h at_) ;
           if N.eqb n head then Ok n else scan_back h vs head itv n f
  end.

(* a_que_sort_back *)
Definition q_sort_back (w : qworld) (s : bool) : outcome qworld :=
  if N.ltb 1 (q_num (getq w s)) then
    let head := qaddr s in let h := w_h w in
    doo it <- lift (rd_prev h head) ;
    doo at0 <- lift (rd_prev h it) ;
    doo itv <- lift (vget (w_val w) it) ;
    doo at1 <- scan_back h (w_val w) head itv at0 (fuel_of w) ;
    doo itp <- lift (rd_prev h it) ;
    if N.eqb at1 itp then Ok w
    else
      doo at2 <- lift (rd_next h at1) ;
      doo itn <- lift (rd_next h it) ;
      doo h1 <- lift (l_link h itp itn) ;
      doo a2p <- lift (rd_prev h1 at2) ;
      doo h2 <- lift (l_link h1 a2p it) ;
      doo h3 <- lift (l_link h2 it at2) ;
      Ok (seth w h3)
  else Ok w.

(* a_que_push_sort; the caller then stores the key through the returned pointer *)
Definition q_push_sort (w : qworld) (s : bool) (key : Z) : outcome (qworld * id) :=
  let head := qaddr s in
  doo it0 <- lift (rd_prev (w_h w) head) ;
  doo xn <- q_new_ w s ;
  let '(w1, node) := xn in
  if N.eqb node 0 then Ok (w1, 0)
  else
    doo it <- (if N.ltb 1 (q_num (getq w1 s))
            then scan_back (w_h w1) (w_val w1) head key it0 (fuel_of w1) else Ok it0) ;
    doo itn <- lift (rd_next (w_h w1) it) ;
    doo h1 <- lift (l_link (w_h w1) node itn) ;
    doo h2 <- lift (l_link h1 it node) ;
    Ok (setv (seth w1 h2) node key, node).
End Cmp.

(* a_que_swap_ as repaired (C05-3): adjacent elements are moved, others go through a_list_swap_node *)
Definition q_swap_elem (w : qworld) (l r : id) : outcome qworld :=
  let h := w_h w in
  doo ln <- lift (rd_next h l) ;
  if N.eqb ln r then
    doo h1 <- lift (l_del_node h l) ; doo h2 <- lift (l_add_next h1 r l) ; Ok (seth w h2)
  else
    doo rn <- lift (rd_next h r) ;
    if N.eqb rn l then
      doo h1 <- lift (l_del_node h r) ; doo h2 <- lift (l_add_next h1 l r) ; Ok (seth w h2)
    else
      doo h1 <- lift (l_swap_node h l r) ; Ok (seth w h1).

(* a_que_swap_ as found in the pinned tree *)
Definition q_swap_elem_orig (w : qworld) (l r : id) : outcome qworld :=
  doo h1 <- lift (l_swap_node (w_h w) l r) ; Ok (seth w h1).

(* the structure copy  swap = *lhs; *lhs = *rhs; *rhs = swap;  (sentinels are copied by value) *)
Definition q_struct_swap (w : qworld) : outcome qworld :=
  doo na <- lift (dget (w_h w) 1) ;
  doo nb <- lift (dget (w_h w) 2) ;
  Ok (mkW (dset (dset (w_h w) 1 nb) 2 na) (w_val w) (w_fresh w) (w_qb w) (w_qa w)
          (w_sched w) (w_trace w)).

(* a_que_move_ of the repair: re-attach the copied ring to its new owner *)
Definition q_move_ (h : dheap) (self from : id) : outcome dheap :=
  doo n <- lift (rd_next h self) ;
  if N.eqb n from then lift (l_init h self)
  else
    doo h1 <- lift (wr_prev h n self) ;
    doo p <- lift (rd_prev h1 self) ;
    lift (wr_next h1 p self).

(* a_que_swap as repaired (C05-2) *)
Definition q_swap (w : qworld) (s1 s2 : bool) : outcome qworld :=
  if Bool.eqb s1 s2 then Ok w
  else
    doo w1 <- q_struct_swap w ;
    doo h1 <- q_move_ (w_h w1) (qaddr s1) (qaddr s2) ;
    doo h2 <- q_move_ h1 (qaddr s2) (qaddr s1) ;
    Ok (seth w1 h2).

(* a_que_swap as found in the pinned tree *)
Definition q_swap_orig (w : qworld) (s1 s2 : bool) : outcome qworld :=
  if Bool.eqb s1 s2 then Ok w else q_struct_swap w.

(* the loop of a_que_drop:  for (node = head->next; node != head; node = head->next)
     { rc = a_que_die_(ctx, node); if (rc == 0) { del_node; dtor } else return rc; }  *)
Fixpoint q_drop_loop (w : qworld) (s : bool) (fuel : nat) : outcome (qworld * Z) :=
  match fuel with
  | O => NoFuel
  | S f =>
      let head := qaddr s in
      doo node <- lift (rd_next (w_h w) head) ;
      if N.eqb node head then Ok (w, 0%Z)
      else
        doo x <- q_take_rc w s node ;
        if Z.eqb (snd x) 0 then q_drop_loop (fst x) s f else Ok x
  end.

(* the reservation at the head of a_que_drop (fix commit 2e456ba):
     need = cur_ + num_;
     if (need > mem_) { mem = a_size_up(8, need); ptr = a_alloc(ptr_, 8 * mem);
                        if (!ptr) return A_OMEMORY; ptr_ = ptr; mem_ = mem; }            *)
Definition q_reserve (w : qworld) (s : bool) : qworld * bool :=
  let q := getq w s in
  let need := N.of_nat (length (q_pool q)) + q_num q in
  if N.ltb (q_mem q) need then
    let mem := size_up8 need in
    let '(w1, ok) := ask w (RPool (8 * mem)) in
    if ok then (setq w1 s (mkQ (q_pool q) (q_siz q) (q_num q) mem), true) else (w1, false)
  else (w, true).

(* a_que_drop (dtor = NULL) as it is in /repo now: reserve, then the loop; returns the error code *)
Definition q_drop (w : qworld) (s : bool) : outcome (qworld * Z) :=
  let '(w1, ok) := q_reserve w s in
  if ok then q_drop_loop w1 s (fuel_of w1) else Ok (w1, 4%Z).

(* a_que_drop as found in the pinned tree: the loop only (the pool array grew one step at a time) *)
Definition q_drop_orig (w : qworld) (s : bool) : outcome (qworld * Z) := q_drop_loop w s (fuel_of w).

(* the realloc loop of a_que_setz as found in the pinned tree, over ptr_[0..cur_): one request per
   pooled node; stops at the first refusal *)
Fixpoint q_resize_all (w : qworld) (nodes : list id) (size : N) : qworld * bool :=
  match nodes with
  | [] => (w, true)
  | _ :: r => let '(w1, ok) := ask w (RResize size) in
              if ok then q_resize_all w1 r size else (w1, false)
  end.

(* a_que_dtor(ctx, NULL) followed by a_que_ctor(ctx, size): every node of the pool and of the ring
   is given back to the allocator (removed from the heap), then the object is constructed again *)
Definition free_nodes (w : qworld) (ns : list id) : qworld :=
  mkW (fold_left ddel ns (w_h w)) (fold_left vdel ns (w_val w)) (w_fresh w) (w_qa w) (w_qb w)
      (w_sched w) (w_trace w).
(* a_que_setz (dtor = NULL) as it is in /repo now (fix commit 8678f0c): drop; when the element size
   grows the recycled nodes are released  (while (cur_) a_alloc(ptr_[--cur_], 0);  this cannot fail,
   the next push allocates a node of the new size) *)
Definition q_setz (w : qworld) (s : bool) (siz : N) : outcome (qworld * Z) :=
  doo r <- q_drop w s ;
  let '(w1, rc) := r in
  if Z.eqb rc 0 then
    let siz := if N.eqb siz 0 then 1 else siz in
    let q := getq w1 s in
    if N.ltb (q_siz q) siz then
      Ok (setq (free_nodes w1 (q_pool q)) s (mkQ [] siz (q_num q) (q_mem q)), 0%Z)
    else Ok (setq w1 s (mkQ (q_pool q) siz (q_num q) (q_mem q)), 0%Z)
  else Ok (w1, rc).

(* a_que_setz as found in the pinned tree: the recycled nodes were resized one by one *)
Definition q_setz_orig (w : qworld) (s : bool) (siz : N) : outcome (qworld * Z) :=
  doo r <- q_drop_orig w s ;
  let '(w1, rc) := r in
  if Z.eqb rc 0 then
    let siz := if N.eqb siz 0 then 1 else siz in
    let q := getq w1 s in
    if N.ltb (q_siz q) siz then
      let '(w2, ok) := q_resize_all w1 (rev (q_pool q)) (16 + siz) in
      if ok then
        let q2 := getq w2 s in
        Ok (setq w2 s (mkQ (q_pool q2) siz (q_num q2) (q_mem q2)), 0%Z)
      else Ok (w2, 4%Z)
    else Ok (setq w1 s (mkQ (q_pool q) siz (q_num q) (q_mem q)), 0%Z)
  else Ok (w1, rc).

Definition q_reset (w : qworld) (s : bool) (size : N) : outcome qworld :=
  match ring_of (w_h w) (qaddr s) (fuel_of w) with
  | None => Fault
  | Some xs => q_ctor (free_nodes w (q_pool (getq w s) ++ xs)) s size
  end.

Definition cmp_small (a b : Z) : Z := ((if Z.ltb b a then 1 else 0) - (if Z.ltb a b then 1 else 0))%Z.
Definition cmp_large (a b : Z) : Z := ((if Z.ltb a b then 1 else 0) - (if Z.ltb b a then 1 else 0))%Z.
Definition cmpf (asc : bool) : Z -> Z -> Z := if asc then cmp_small else cmp_large.

Inductive qop :=
| QSched (l : list bool)                  (* replace the pending fault schedule *)
| QReset (s : bool) (size : N)
| QPushFore (s : bool) (v : Z) | QPushBack (s : bool) (v : Z)
| QPullFore (s : bool) | QPullBack (s : bool)
| QInsert (s : bool) (idx : N) (v : Z) | QRemove (s : bool) (idx : N)
| QAt (s : bool) (idx : Z) | QFore (s : bool) | QBack (s : bool)
| QSortFore (s : bool) (asc : bool) | QSortBack (s : bool) (asc : bool)
| QPushSort (s : bool) (asc : bool) (key : Z)
| QSwapElem (l r : id) | QSwap (s1 s2 : bool)
| QDrop (s : bool) | QSetz (s : bool) (siz : N).

Definition clear_trace (w : qworld) : qworld :=
  mkW (w_h w) (w_val w) (w_fresh w) (w_qa w) (w_qb w) (w_sched w) [].
Definition set_sched (w : qworld) (l : list bool) : qworld :=
  mkW (w_h w) (w_val w) (w_fresh w) (w_qa w) (w_qb w) l (w_trace w).

Definition ptr_res (r : outcome (qworld * id)) : outcome (qworld * Z) :=
  doo x <- r ; Ok (fst x, Z.of_N (snd x)).
Definition unit_res (r : outcome qworld) : outcome (qworld * Z) := doo x <- r ; Ok (x, 0%Z).
Definition look_res (w : qworld) (r : outcome id) : outcome (qworld * Z) := doo x <- r ; Ok (w, Z.of_N x).

(* one operation; the result is the returned pointer (as an address, 0 = NULL) or error code *)
Definition q_step (w0 : qworld) (o : qop) : outcome (qworld * Z) :=
  let w := clear_trace w0 in
  match o with
  | QSched l => Ok (set_sched w l, 0%Z)
  | QReset s size => unit_res (q_reset w s size)
  | QPushFore s v => ptr_res (q_push true w s v)
  | QPushBack s v => ptr_res (q_push false w s v)
  | QPullFore s => ptr_res (q_pull true w s)
  | QPullBack s => ptr_res (q_pull false w s)
  | QInsert s idx v => ptr_res (q_insert w s idx v)
  | QRemove s idx => ptr_res (q_remove w s idx)
  | QAt s idx => look_res w (q_at w s idx)
  | QFore s => look_res w (q_fore w s)
  | QBack s => look_res w (q_back w s)
  | QSortFore s asc => unit_res (q_sort_fore (cmpf asc) w s)
  | QSortBack s asc => unit_res (q_sort_back (cmpf asc) w s)
  | QPushSort s asc key => ptr_res (q_push_sort (cmpf asc) w s key)
  | QSwapElem l r => unit_res (q_swap_elem w l r)
  | QSwap s1 s2 => unit_res (q_swap w s1 s2)
  | QDrop s => q_drop w s
  | QSetz s siz => q_setz w s siz
  end.

Fixpoint q_run (w : qworld) (os : list qop) : outcome (qworld * list Z) :=
  match os with
  | [] => Ok (w, [])
  | o :: r => doo x <- q_step w o ; doo y <- q_run (fst x) r ; Ok (fst y, snd x :: snd y)
  end.

(* both queue objects constructed with element size 8, no node allocated yet *)
Definition q_world0 : qworld :=
  mkW (dset (dset (PositiveMap.empty dnode) 1 (mkD 1 1)) 2 (mkD 2 2)) (PositiveMap.empty Z) 3
      (mkQ [] 8 0 0) (mkQ [] 8 0 0) [] [].
