(* C05 - proofs about the pointer-level model of include/a/list.h.

   Vocabulary
     edge h a b     : a->next = b and b->prev = a           (the two links agree)
     Seg h l        : every two consecutive nodes of l form an edge
     Piece h l      : Seg h l and every node of l exists    (a detached section: inner links intact)
     Soup h ps      : the pieces ps are pairwise disjoint, without repetition, each a Piece
     Ring h l       : l is a Piece, without repetition, and  last l -> first l  is an edge too
   Every a_list_* function is a sequence of a_list_link calls; a link whose source is the last node of
   a piece and whose target is the first node of a piece cannot destroy an inner edge of any piece of a
   soup (Soup_join / Soup_close / Soup_link), which is what makes the operations compositional. *)
From Coq Require Import NArith List FMapPositive Lia Permutation.
From LibaV Require Import C05.DListDefs.
Import ListNotations.
Local Open Scope N_scope.
Notation hd0 := (@hd id 0%N).

(* ------------------------------------------------------------------ list helpers *)
Lemma NoDup_app_l {A} (l1 l2 : list A) : NoDup (l1 ++ l2) -> NoDup l1.
Proof.
  induction l1 as [|a l1 IH]; simpl; intros N; [constructor|].
  inversion N; subst. constructor; auto. intros H. apply H1. apply in_or_app. auto.
Qed.

Lemma NoDup_app_r {A} (l1 l2 : list A) : NoDup (l1 ++ l2) -> NoDup l2.
Proof. induction l1 as [|a l1 IH]; simpl; intros N; auto. inversion N; auto. Qed.

Lemma Perm_Forall {A} (P : A -> Prop) l l' : Permutation l l' -> Forall P l -> Forall P l'.
Proof.
  intros Pm F. rewrite Forall_forall in *. intros x Hx. apply F.
  eapply Permutation_in; [symmetry; exact Pm|exact Hx].
Qed.

(* ------------------------------------------------------------------ heap *)
Lemma dget_dset_same h a n : a <> 0 -> dget (dset h a n) a = Some n.
Proof. destruct a; [congruence|]; intros _; apply PositiveMap.gss. Qed.

Lemma dget_dset_other h a b n : a <> b -> dget (dset h a n) b = dget h b.
Proof.
  destruct a, b; simpl; intros; try reflexivity; try congruence.
  apply PositiveMap.gso. congruence.
Qed.

Definition live (h : dheap) (a : id) : Prop := exists n, dget h a = Some n.

Lemma live_nz h a : live h a -> a <> 0.
Proof. intros [n H] ->. discriminate. Qed.

Lemma rd_next_live h a b : rd_next h a = Some b -> live h a.
Proof. unfold rd_next, live. destruct (dget h a); [eauto|discriminate]. Qed.
Lemma rd_prev_live h a b : rd_prev h a = Some b -> live h a.
Proof. unfold rd_prev, live. destruct (dget h a); [eauto|discriminate]. Qed.

(* a node is determined by its two fields *)
Lemma dget_ext h h' x :
  rd_next h' x = rd_next h x -> rd_prev h' x = rd_prev h x -> dget h' x = dget h x.
Proof.
  unfold rd_next, rd_prev. destruct (dget h' x) as [[a b]|], (dget h x) as [[c d]|]; simpl; congruence.
Qed.

Record WrPost (h : dheap) (h' : dheap) : Prop := { wp_live : forall x, live h' x <-> live h x }.

Lemma wr_next_spec h a v : live h a ->
  exists h', wr_next h a v = Some h' /\ rd_next h' a = Some v /\ rd_prev h' a = rd_prev h a /\
             (forall x, x <> a -> dget h' x = dget h x) /\ (forall x, live h' x <-> live h x).
Proof.
  intros L. pose proof (live_nz _ _ L) as NZ. destruct L as [n Hn].
  unfold wr_next. rewrite Hn. eexists; split; [reflexivity|].
  unfold rd_next, rd_prev, live. rewrite dget_dset_same, Hn by assumption. simpl.
  repeat split; try reflexivity.
  - intros x Hx. apply dget_dset_other. congruence.
  - destruct (N.eq_dec x a) as [->|Hx].
    + rewrite dget_dset_same by assumption. eauto.
    + rewrite dget_dset_other by congruence. auto.
  - destruct (N.eq_dec x a) as [->|Hx].
    + rewrite dget_dset_same by assumption. eauto.
    + rewrite dget_dset_other by congruence. auto.
Qed.

Lemma wr_prev_spec h a v : live h a ->
  exists h', wr_prev h a v = Some h' /\ rd_prev h' a = Some v /\ rd_next h' a = rd_next h a /\
             (forall x, x <> a -> dget h' x = dget h x) /\ (forall x, live h' x <-> live h x).
Proof.
  intros L. pose proof (live_nz _ _ L) as NZ. destruct L as [n Hn].
  unfold wr_prev. rewrite Hn. eexists; split; [reflexivity|].
  unfold rd_next, rd_prev, live. rewrite dget_dset_same, Hn by assumption. simpl.
  repeat split; try reflexivity.
  - intros x Hx. apply dget_dset_other. congruence.
  - destruct (N.eq_dec x a) as [->|Hx].
    + rewrite dget_dset_same by assumption. eauto.
    + rewrite dget_dset_other by congruence. auto.
  - destruct (N.eq_dec x a) as [->|Hx].
    + rewrite dget_dset_same by assumption. eauto.
    + rewrite dget_dset_other by congruence. auto.
Qed.

(* what a_list_link(a, b) leaves behind *)
Record LinkPost (h : dheap) (a b : id) (h' : dheap) : Prop := {
  lp_next : rd_next h' a = Some b;
  lp_prev : rd_prev h' b = Some a;
  lp_next_other : forall x, x <> a -> rd_next h' x = rd_next h x;
  lp_prev_other : forall y, y <> b -> rd_prev h' y = rd_prev h y;
  lp_live : forall x, live h' x <-> live h x }.

Lemma rd_next_dget h h' x : dget h' x = dget h x -> rd_next h' x = rd_next h x.
Proof. unfold rd_next. intros ->. reflexivity. Qed.
Lemma rd_prev_dget h h' x : dget h' x = dget h x -> rd_prev h' x = rd_prev h x.
Proof. unfold rd_prev. intros ->. reflexivity. Qed.

Lemma link_spec h a b : live h a -> live h b ->
  exists h', l_link h a b = Some h' /\ LinkPost h a b h'.
Proof.
  intros La Lb. unfold l_link.
  destruct (wr_next_spec h a b La) as (h1 & E1 & N1 & P1 & O1 & L1). rewrite E1.
  assert (Lb1 : live h1 b) by (apply L1; exact Lb).
  destruct (wr_prev_spec h1 b a Lb1) as (h2 & E2 & P2 & N2 & O2 & L2). rewrite E2.
  eexists; split; [reflexivity|]. constructor.
  - destruct (N.eq_dec a b) as [->|Hab]; [rewrite N2; exact N1|].
    rewrite (rd_next_dget h1 h2) by (apply O2; congruence). exact N1.
  - exact P2.
  - intros x Hx. destruct (N.eq_dec x b) as [->|Hxb].
    + rewrite N2. apply rd_next_dget, O1. exact Hx.
    + rewrite (rd_next_dget h1 h2) by (apply O2; exact Hxb). apply rd_next_dget, O1. exact Hx.
  - intros y Hy. rewrite (rd_prev_dget h1 h2) by (apply O2; exact Hy).
    destruct (N.eq_dec y a) as [->|Hya]; [exact P1|]. apply rd_prev_dget, O1. exact Hya.
  - intros x. rewrite L2. apply L1.
Qed.

(* a_list_init(c): c becomes a ring of its own *)
Lemma init_spec h c : live h c ->
  exists h', l_init h c = Some h' /\ LinkPost h c c h'.
Proof.
  intros Lc. unfold l_init.
  destruct (wr_next_spec h c c Lc) as (h1 & E1 & N1 & P1 & O1 & L1). rewrite E1.
  assert (Lc1 : live h1 c) by (apply L1; exact Lc).
  destruct (wr_prev_spec h1 c c Lc1) as (h2 & E2 & P2 & N2 & O2 & L2). rewrite E2.
  eexists; split; [reflexivity|]. constructor.
  - rewrite N2. exact N1.
  - exact P2.
  - intros x Hx. rewrite (rd_next_dget h1 h2) by (apply O2; exact Hx). apply rd_next_dget, O1, Hx.
  - intros x Hx. rewrite (rd_prev_dget h1 h2) by (apply O2; exact Hx). apply rd_prev_dget, O1, Hx.
  - intros x. rewrite L2. apply L1.
Qed.

(* ------------------------------------------------------------------ edges, segments *)
Definition edge (h : dheap) (a b : id) : Prop := rd_next h a = Some b /\ rd_prev h b = Some a.

Fixpoint Seg (h : dheap) (l : list id) : Prop :=
  match l with
  | a :: (b :: _) as t => edge h a b /\ Seg h t
  | _ => True
  end.

Lemma edge_live_l h a b : edge h a b -> live h a.
Proof. intros [H _]. eapply rd_next_live; eauto. Qed.
Lemma edge_live_r h a b : edge h a b -> live h b.
Proof. intros [_ H]. eapply rd_prev_live; eauto. Qed.

Lemma edge_new h a b h' : LinkPost h a b h' -> edge h' a b.
Proof. intros P. split; [apply (lp_next _ _ _ _ P)|apply (lp_prev _ _ _ _ P)]. Qed.

Lemma edge_old h a b h' x y : LinkPost h a b h' -> x <> a -> y <> b -> edge h x y -> edge h' x y.
Proof.
  intros P Hx Hy [E1 E2]. split.
  - rewrite (lp_next_other _ _ _ _ P) by exact Hx. exact E1.
  - rewrite (lp_prev_other _ _ _ _ P) by exact Hy. exact E2.
Qed.

Lemma Seg_cons_inv h a l : Seg h (a :: l) -> Seg h l.
Proof. destruct l; simpl; tauto. Qed.

Lemma Seg_app_iff h l1 x l2 : Seg h (l1 ++ x :: l2) <-> Seg h (l1 ++ [x]) /\ Seg h (x :: l2).
Proof.
  induction l1 as [|a l1 IH]; simpl.
  - tauto.
  - destruct l1 as [|b l1]; simpl in *.
    + tauto.
    + rewrite IH. tauto.
Qed.

Lemma Seg_app_l h l1 l2 : Seg h (l1 ++ l2) -> Seg h l1.
Proof.
  destruct l2 as [|x l2]; [rewrite app_nil_r; auto|].
  rewrite Seg_app_iff. intros [H _]. clear l2.
  induction l1 as [|a l1 IH]; simpl in *; auto.
  destruct l1 as [|b l1]; simpl in *; auto. tauto.
Qed.

Lemma Seg_app_r h l1 l2 : Seg h (l1 ++ l2) -> Seg h l2.
Proof. induction l1; simpl; auto. intros H. apply IHl1. eapply Seg_cons_inv; eauto. Qed.

(* the edge across the seam of l1 ++ [a] ++ b :: l2 *)
Lemma Seg_mid_edge h l1 a b l2 : Seg h (l1 ++ a :: b :: l2) -> edge h a b.
Proof. intros H. apply Seg_app_r in H. simpl in H. tauto. Qed.

Lemma Seg_link_old h a b h' l :
  LinkPost h a b h' -> Seg h l -> ~ In a (removelast l) -> ~ In b (tl l) -> Seg h' l.
Proof.
  intros P. induction l as [|x l IH]; simpl; auto.
  destruct l as [|y l]; auto.
  intros [E S] Ha Hb. split.
  - apply (edge_old _ _ _ _ _ _ P); auto.
    + intros ->. apply Ha. left. reflexivity.
    + intros ->. apply Hb. left. reflexivity.
  - apply IH; auto.
    + intros H. apply Ha. right. exact H.
    + intros H. apply Hb. right. simpl in H. exact H.
Qed.

(* ------------------------------------------------------------------ pieces and soups *)
Definition Piece (h : dheap) (l : list id) : Prop := Seg h l /\ Forall (live h) l.
Definition Soup (h : dheap) (ps : list (list id)) : Prop := NoDup (concat ps) /\ Forall (Piece h) ps.

Lemma Piece_nil h : Piece h [].
Proof. split; simpl; auto. Qed.

Lemma Piece_single h a : live h a -> Piece h [a].
Proof. split; simpl; auto. Qed.

Lemma Piece_app_inv h l1 l2 : Piece h (l1 ++ l2) -> Piece h l1 /\ Piece h l2.
Proof.
  intros [S F]. apply Forall_app in F. destruct F.
  repeat split; eauto using Seg_app_l, Seg_app_r.
Qed.

Lemma Permutation_concat {A} (l l' : list (list A)) :
  Permutation l l' -> Permutation (concat l) (concat l').
Proof.
  induction 1; simpl; auto.
  - apply Permutation_app_head. assumption.
  - rewrite !app_assoc. apply Permutation_app_tail. apply Permutation_app_comm.
  - eapply perm_trans; eauto.
Qed.

Lemma Soup_perm h ps ps' : Permutation ps ps' -> Soup h ps -> Soup h ps'.
Proof.
  intros P [N F]. split.
  - eapply Permutation_NoDup; [apply Permutation_concat; exact P|exact N].
  - eapply Perm_Forall; eauto.
Qed.

Lemma Soup_split h p1 p2 r : Soup h ((p1 ++ p2) :: r) -> Soup h (p1 :: p2 :: r).
Proof.
  intros [N F]. split.
  - simpl in *. rewrite app_assoc. exact N.
  - inversion F; subst. destruct (Piece_app_inv _ _ _ H1). auto.
Qed.

Lemma Soup_drop h p r : Soup h (p :: r) -> Soup h r.
Proof.
  intros [N F]. split.
  - simpl in N. apply NoDup_app_r in N. exact N.
  - inversion F; auto.
Qed.

Lemma Soup_nil_add h r : Soup h r -> Soup h ([] :: r).
Proof. intros [N F]. split; simpl; auto using Piece_nil. Qed.

Lemma NoDup_app_disj {A} (l1 l2 : list A) x : NoDup (l1 ++ l2) -> In x l1 -> In x l2 -> False.
Proof.
  induction l1 as [|a l1 IH]; simpl; intros N H1 H2; [tauto|].
  inversion N; subst. destruct H1 as [->|H1].
  - apply H3. apply in_or_app. right. exact H2.
  - eauto.
Qed.

Lemma in_removelast {A} (l : list A) x : In x (removelast l) -> In x l.
Proof.
  induction l as [|a l IH]; simpl; auto. destruct l; simpl in *; [tauto|].
  intros [->|H]; auto.
Qed.

Lemma in_tl {A} (l : list A) x : In x (tl l) -> In x l.
Proof. destruct l; simpl; auto. Qed.

Lemma NoDup_last_not_removelast {A} (l : list A) a : NoDup (l ++ [a]) -> ~ In a (removelast (l ++ [a])).
Proof.
  rewrite removelast_last. intros N H. eapply NoDup_app_disj; eauto. left. reflexivity.
Qed.

Lemma NoDup_concat_in {A} (ps : list (list A)) p : NoDup (concat ps) -> In p ps -> NoDup p.
Proof.
  induction ps as [|q ps IH]; simpl; [tauto|].
  intros N [->|H].
  - eapply NoDup_app_l; eauto.
  - apply IH; auto. eapply NoDup_app_r; eauto.
Qed.

(* two different positions of a soup never share a node *)
Lemma NoDup_concat_disj {A} (ps1 ps2 : list (list A)) p q x :
  NoDup (concat (ps1 ++ p :: ps2)) -> In q (ps1 ++ ps2) -> In x p -> In x q -> False.
Proof.
  intros N Hq Hp Hxq.
  assert (P : Permutation (ps1 ++ p :: ps2) (p :: ps1 ++ ps2)) by (symmetry; apply Permutation_middle).
  apply Permutation_concat in P. eapply Permutation_NoDup in N; [|exact P]. simpl in N.
  eapply NoDup_app_disj; eauto. apply in_concat. eauto.
Qed.

(* A link from the last node of the first piece to the first node of the second piece: every piece of
   the soup survives (no inner edge has that source or that target). *)
Lemma Soup_link h h' pa a b qb r :
  Soup h ((pa ++ [a]) :: (b :: qb) :: r) -> LinkPost h a b h' -> Soup h' ((pa ++ [a]) :: (b :: qb) :: r).
Proof.
  intros [N F] P. split; [exact N|].
  assert (Hsrc : forall p, In p ((pa ++ [a]) :: (b :: qb) :: r) -> ~ In a (removelast p)).
  { intros p Hp Ha. destruct Hp as [<-|Hp].
    - revert Ha. apply NoDup_last_not_removelast. eapply NoDup_concat_in; eauto. left; reflexivity.
    - apply in_removelast in Ha.
      eapply (NoDup_concat_disj [] ((b :: qb) :: r) (pa ++ [a]) p a); eauto.
      apply in_or_app. right. left. reflexivity. }
  assert (Htgt : forall p, In p ((pa ++ [a]) :: (b :: qb) :: r) -> ~ In b (tl p)).
  { intros p Hp Hb. destruct Hp as [<-|[<-|Hp]].
    - apply in_tl in Hb.
      eapply (NoDup_concat_disj [] ((b :: qb) :: r) (pa ++ [a]) (b :: qb) b); eauto; simpl; auto.
    - simpl in Hb. assert (ND : NoDup (b :: qb)) by (eapply NoDup_concat_in; eauto; simpl; auto).
      inversion ND; auto.
    - apply in_tl in Hb.
      eapply (NoDup_concat_disj [pa ++ [a]] r (b :: qb) p b); eauto; simpl; auto. }
  rewrite Forall_forall in *. intros p Hp. destruct (F p Hp) as [S L]. split.
  - eapply Seg_link_old; eauto.
  - rewrite Forall_forall in *. intros x Hx. apply (lp_live _ _ _ _ P). auto.
Qed.

(* ... and the two pieces are now one *)
Lemma Soup_join h h' pa a b qb r :
  Soup h ((pa ++ [a]) :: (b :: qb) :: r) -> LinkPost h a b h' -> Soup h' ((pa ++ a :: b :: qb) :: r).
Proof.
  intros S P. pose proof (Soup_link _ _ _ _ _ _ _ S P) as [N F]. split.
  - simpl in *. rewrite <- app_assoc in N. simpl in N. rewrite <- app_assoc. exact N.
  - inversion F as [|? ? [S1 L1] F1]; subst. inversion F1 as [|? ? [S2 L2] F2]; subst.
    constructor; auto. split.
    + apply Seg_app_iff. split; auto. simpl. split; auto. eapply edge_new; eauto.
    + apply Forall_app in L1. destruct L1 as [L1 La]. apply Forall_app. split; auto.
      inversion La; subst. constructor; auto.
Qed.

(* A link from the last node of a piece to its own first node *)
Lemma Soup_close h h' a p b r :
  Soup h ((a :: p ++ [b]) :: r) -> LinkPost h b a h' -> Soup h' ((a :: p ++ [b]) :: r).
Proof.
  intros [N F] P. split; [exact N|].
  assert (ND : NoDup (a :: p ++ [b])) by (eapply NoDup_concat_in; eauto; simpl; auto).
  rewrite Forall_forall in *. intros q Hq. destruct (F q Hq) as [S L]. split.
  - eapply Seg_link_old; eauto.
    + intros Hb. destruct Hq as [<-|Hq].
      * revert Hb. change (a :: p ++ [b]) with ((a :: p) ++ [b]).
        apply NoDup_last_not_removelast. exact ND.
      * apply in_removelast in Hb.
        eapply (NoDup_concat_disj [] r (a :: p ++ [b]) q b); eauto.
        change (a :: p ++ [b]) with ((a :: p) ++ [b]). apply in_or_app. right. left. reflexivity.
    + intros Ha. destruct Hq as [<-|Hq].
      * simpl in Ha. inversion ND; auto.
      * apply in_tl in Ha. eapply (NoDup_concat_disj [] r (a :: p ++ [b]) q a); eauto. left; reflexivity.
  - rewrite Forall_forall in *. intros x Hx. apply (lp_live _ _ _ _ P). auto.
Qed.

(* the same for a one-node piece: link(a,a) *)
Lemma Soup_close1 h h' a r :
  Soup h ([a] :: r) -> LinkPost h a a h' -> Soup h' ([a] :: r).
Proof.
  intros [N F] P. split; [exact N|].
  rewrite Forall_forall in *. intros q Hq. destruct (F q Hq) as [S L]. split.
  - eapply Seg_link_old; eauto.
    + intros Hb. destruct Hq as [<-|Hq]; [simpl in Hb; tauto|].
      apply in_removelast in Hb. eapply (NoDup_concat_disj [] r [a] q a); eauto. left; reflexivity.
    + intros Ha. destruct Hq as [<-|Hq]; [simpl in Ha; tauto|].
      apply in_tl in Ha. eapply (NoDup_concat_disj [] r [a] q a); eauto. left; reflexivity.
  - rewrite Forall_forall in *. intros x Hx. apply (lp_live _ _ _ _ P). auto.
Qed.

(* an edge between two nodes that are neither the source nor the target of the link survives *)
Lemma Soup_frame h h' ps : Soup h ps ->
  (forall x, rd_next h' x = rd_next h x) -> (forall x, rd_prev h' x = rd_prev h x) -> Soup h' ps.
Proof.
  intros [N F] Hn Hp. split; auto. rewrite Forall_forall in *. intros p Hp'. destruct (F p Hp') as [S L].
  split.
  - clear L Hp' F N. induction p as [|a p IH]; simpl in *; auto. destruct p as [|b p]; auto.
    destruct S as [[E1 E2] S]. split; [split; [rewrite Hn|rewrite Hp]; auto|auto].
  - rewrite Forall_forall in *. intros x Hx. destruct (L x Hx) as [n Hn'].
    unfold live. rewrite (dget_ext h h' x); eauto.
Qed.

(* ------------------------------------------------------------------ rings *)
(* a :: l is a ring: no repetition, consecutive nodes linked both ways, and last -> first too *)
Definition Ring (h : dheap) (l : list id) : Prop :=
  match l with
  | [] => False
  | a :: t => Soup h [l] /\ edge h (last t a) a
  end.

Lemma Ring_NoDup h l : Ring h l -> NoDup l.
Proof. destruct l; simpl; [tauto|]. intros [[N _] _]. simpl in N. rewrite app_nil_r in N. exact N. Qed.

Lemma Ring_Soup h l : Ring h l -> Soup h [l].
Proof. destruct l; simpl; tauto. Qed.

Lemma Ring_live h l x : Ring h l -> In x l -> live h x.
Proof.
  intros R Hx. apply Ring_Soup in R. destruct R as [_ F]. inversion F; subst.
  destruct H1 as [_ L]. rewrite Forall_forall in L. auto.
Qed.

Lemma Ring_single h a : live h a -> edge h a a -> Ring h [a].
Proof.
  intros L E. simpl. split; auto. split; simpl; [repeat constructor; simpl; tauto|].
  constructor; auto. apply Piece_single; auto.
Qed.

Lemma last_app_single {A} (l : list A) a d : last (l ++ [a]) d = a.
Proof. apply last_last. Qed.

Lemma Ring_snoc_form h a p b : Ring h (a :: p ++ [b]) <-> Soup h [a :: p ++ [b]] /\ edge h b a.
Proof. simpl. rewrite last_last. tauto. Qed.

Lemma Ring_single_form h a : Ring h [a] <-> Soup h [[a]] /\ edge h a a.
Proof. simpl. tauto. Qed.


(* ------------------------------------------------------------------ hd / last forms *)
Lemma snoc_cases {A} (l : list A) : l = [] \/ exists m z, l = m ++ [z].
Proof.
  induction l as [|a l IH]; [left; reflexivity|right].
  destruct IH as [->|(m & z & ->)].
  - exists [], a. reflexivity.
  - exists (a :: m), z. reflexivity.
Qed.

Lemma hd_app_nonnil {A} (l1 l2 : list A) d : l1 <> [] -> hd d (l1 ++ l2) = hd d l1.
Proof. destruct l1; simpl; congruence. Qed.

Lemma last_app_nonnil {A} (l1 l2 : list A) d : l2 <> [] -> last (l1 ++ l2) d = last l2 d.
Proof.
  intros H. destruct (snoc_cases l2) as [->|(m & z & ->)]; [congruence|].
  rewrite app_assoc, !last_last. reflexivity.
Qed.

Lemma last_cons_default {A} (l : list A) a d : last (a :: l) d = last l a.
Proof.
  revert a d. induction l as [|b l IH]; intros a d; [reflexivity|].
  change (last (a :: b :: l) d) with (last (b :: l) d). rewrite (IH b d), (IH b a). reflexivity.
Qed.

Lemma in_last {A} (l : list A) d : l <> [] -> In (last l d) l.
Proof.
  intros H. destruct (snoc_cases l) as [->|(m & z & ->)]; [congruence|].
  rewrite last_last. apply in_or_app. right. left. reflexivity.
Qed.

Lemma in_hd {A} (l : list A) d : l <> [] -> In (hd d l) l.
Proof. destruct l; simpl; [congruence|auto]. Qed.

Lemma Soup_live h ps p x : Soup h ps -> In p ps -> In x p -> live h x.
Proof.
  intros [_ F] Hp Hx. rewrite Forall_forall in F. destruct (F p Hp) as [_ L].
  rewrite Forall_forall in L. auto.
Qed.

Lemma Soup_join' h h' p q r d :
  Soup h (p :: q :: r) -> p <> [] -> q <> [] ->
  LinkPost h (last p d) (hd d q) h' -> Soup h' ((p ++ q) :: r).
Proof.
  intros S Hp Hq P.
  destruct (snoc_cases p) as [->|(m & z & ->)]; [congruence|].
  destruct q as [|b q]; [congruence|].
  rewrite last_last in P. simpl in P. rewrite <- app_assoc. simpl.
  eapply Soup_join; eauto.
Qed.

Lemma Soup_close' h h' p r d :
  Soup h (p :: r) -> p <> [] -> LinkPost h (last p d) (hd d p) h' -> Soup h' (p :: r).
Proof.
  intros S Hp P. destruct p as [|a p]; [congruence|].
  destruct (snoc_cases p) as [->|(m & z & ->)].
  - simpl in P. eapply Soup_close1; eauto.
  - simpl hd in P. change (a :: m ++ [z]) with ((a :: m) ++ [z]) in P. rewrite last_last in P.
    eapply Soup_close; eauto.
Qed.

(* a link between the end of one piece and the start of another leaves the whole soup intact *)
Lemma Soup_link' h h' p q r d :
  Soup h (p :: q :: r) -> p <> [] -> q <> [] ->
  LinkPost h (last p d) (hd d q) h' -> Soup h' (p :: q :: r).
Proof.
  intros S Hp Hq P.
  destruct (snoc_cases p) as [->|(m & z & ->)]; [congruence|].
  destruct q as [|b q]; [congruence|].
  rewrite last_last in P. simpl in P. eapply Soup_link; eauto.
Qed.

(* ------------------------------------------------------------------ more on rings *)
Lemma Ring_nonnil h l : Ring h l -> l <> [].
Proof. destruct l; simpl; [tauto|congruence]. Qed.

Lemma Ring_intro h l d : Soup h [l] -> l <> [] -> edge h (last l d) (hd d l) -> Ring h l.
Proof.
  intros S Hl E. destruct l as [|a t]; [congruence|]. simpl. split; auto.
  rewrite last_cons_default in E. exact E.
Qed.

Lemma Ring_wrap h l d : Ring h l -> edge h (last l d) (hd d l).
Proof.
  destruct l as [|a t]; simpl; [tauto|]. intros [_ E].
  destruct t as [|b t]; [exact E|]. 
  change (last (a :: b :: t) d) with (last (b :: t) d).
  rewrite last_cons_default. rewrite last_cons_default in E. exact E.
Qed.

Lemma Ring_Seg h l : Ring h l -> Seg h l.
Proof. intros R. apply Ring_Soup in R. destruct R as [_ F]. inversion F; subst. apply H1. Qed.

Lemma Ring_iff_Seg h a t :
  Ring h (a :: t) <-> NoDup (a :: t) /\ Forall (live h) (a :: t) /\ Seg h (a :: t ++ [a]).
Proof.
  split.
  - intros R. pose proof (Ring_NoDup _ _ R). pose proof (Ring_Seg _ _ R) as S.
    pose proof (Ring_wrap _ _ a R) as E. simpl hd in E. rewrite last_cons_default in E.
    repeat split; auto.
    + rewrite Forall_forall. intros x Hx. eapply Ring_live; eauto.
    + destruct (snoc_cases t) as [->|(m & z & ->)].
      * simpl in *. tauto.
      * rewrite last_last in E. rewrite <- app_assoc. cbn [app].
        change (a :: m ++ [z; a]) with ((a :: m) ++ z :: [a]). apply Seg_app_iff. split; auto.
        simpl. tauto.
  - intros (N & L & S). simpl. split.
    + split; [simpl; rewrite app_nil_r; exact N|]. constructor; auto. split; auto.
      change (a :: t ++ [a]) with ((a :: t) ++ [a]) in S. eapply Seg_app_l; eauto.
    + destruct (snoc_cases t) as [->|(m & z & ->)].
      * simpl in *. tauto.
      * rewrite last_last. rewrite <- app_assoc in S. cbn [app] in S.
        change (a :: m ++ [z; a]) with ((a :: m) ++ z :: [a]) in S. apply Seg_app_iff in S.
        simpl in S. tauto.
Qed.

Lemma Ring_rot1 h a t : Ring h (a :: t) -> Ring h (t ++ [a]).
Proof.
  intros R. destruct t as [|b t]; [exact R|].
  apply Ring_iff_Seg in R. destruct R as (N & L & S).
  simpl app. apply Ring_iff_Seg. repeat split.
  - change (b :: t ++ [a]) with ((b :: t) ++ [a]).
    eapply Permutation_NoDup; [|exact N]. 
    change (a :: b :: t) with ([a] ++ (b :: t)). apply Permutation_app_comm.
  - change (b :: t ++ [a]) with ((b :: t) ++ [a]). apply Forall_app. inversion L; subst. auto.
  - simpl in S. destruct S as [E S].
    replace (b :: (t ++ [a]) ++ [b]) with ((b :: t) ++ a :: [b])
      by (cbn [app]; rewrite <- app_assoc; reflexivity).
    apply Seg_app_iff. split; [exact S|]. simpl. tauto.
Qed.

Lemma Ring_rot h l1 l2 : Ring h (l1 ++ l2) -> Ring h (l2 ++ l1).
Proof.
  revert l2. induction l1 as [|a l1 IH]; intros l2 R.
  - rewrite app_nil_r. exact R.
  - simpl in R. apply Ring_rot1 in R. rewrite <- app_assoc in R. apply IH in R.
    rewrite <- app_assoc in R. exact R.
Qed.

(* reading the fields of a node of a ring *)
Lemma Ring_edge_mid h l1 a b l2 : Ring h (l1 ++ a :: b :: l2) -> edge h a b.
Proof. intros R. apply Ring_Seg in R. eapply Seg_mid_edge; eauto. Qed.

Lemma Ring_next h l1 a l2 : Ring h (l1 ++ a :: l2) -> rd_next h a = Some (hd (hd a l1) l2).
Proof.
  intros R. destruct l2 as [|b l2].
  - simpl. apply (Ring_rot h l1 [a]) in R. simpl in R.
    destruct l1 as [|c l1]; simpl.
    + apply Ring_single_form in R. apply R.
    + apply (Ring_edge_mid h [] a c l1) in R. apply R.
  - simpl. apply Ring_edge_mid in R. apply R.
Qed.

Lemma Ring_prev h l1 a l2 : Ring h (l1 ++ a :: l2) -> rd_prev h a = Some (last l1 (last l2 a)).
Proof.
  intros R. destruct (snoc_cases l1) as [->|(m & z & ->)].
  - simpl. pose proof (Ring_wrap _ _ a R) as E. simpl in E.
    destruct l2 as [|b l2]; [apply E|].
    rewrite last_cons_default. change (last (a :: b :: l2) a) with (last (b :: l2) a) in E.
    rewrite last_cons_default in E. apply E.
  - rewrite last_last. rewrite <- app_assoc in R. simpl in R. apply Ring_edge_mid in R. apply R.
Qed.

(* ------------------------------------------------------------------ frames *)
Definition Frame (h h' : dheap) (S : list id) : Prop := forall x, ~ In x S -> dget h' x = dget h x.

Lemma LinkPost_frame h a b h' : LinkPost h a b h' -> Frame h h' [a; b].
Proof.
  intros P x Hx. apply dget_ext.
  - apply (lp_next_other _ _ _ _ P). intros ->. apply Hx. simpl; auto.
  - apply (lp_prev_other _ _ _ _ P). intros ->. apply Hx. simpl; auto.
Qed.

Lemma Frame_refl h S : Frame h h S.
Proof. intros x _. reflexivity. Qed.

Lemma Frame_trans h h1 h2 S1 S2 : Frame h h1 S1 -> Frame h1 h2 S2 -> Frame h h2 (S1 ++ S2).
Proof.
  intros F1 F2 x Hx. rewrite F2, F1; auto; intros H; apply Hx; apply in_or_app; auto.
Qed.

Lemma Frame_incl h h' S S' : Frame h h' S -> incl S S' -> Frame h h' S'.
Proof. intros F I x Hx. apply F. intros H. apply Hx. apply I. exact H. Qed.

Lemma Seg_same h h' l : (forall x, In x l -> dget h' x = dget h x) -> Seg h l -> Seg h' l.
Proof.
  induction l as [|a l IH]; intros Same Sg; [exact I|].
  destruct l as [|b l]; [exact I|]. destruct Sg as [[E1 E2] Sg]. split.
  - split.
    + rewrite (rd_next_dget h h'); [exact E1|]. apply Same. left; reflexivity.
    + rewrite (rd_prev_dget h h'); [exact E2|]. apply Same. right; left; reflexivity.
  - apply IH; [|exact Sg]. intros x Hx. apply Same. right. exact Hx.
Qed.

Lemma Soup_Frame h h' S ps :
  Soup h ps -> Frame h h' S -> (forall x, In x (concat ps) -> ~ In x S) -> Soup h' ps.
Proof.
  intros [N F] Fr D. split; auto. rewrite Forall_forall in *. intros p Hp.
  destruct (F p Hp) as [Sg L].
  assert (Same : forall x, In x p -> dget h' x = dget h x).
  { intros x Hx. apply Fr. apply D. apply in_concat. eauto. }
  split.
  - eapply Seg_same; eauto.
  - rewrite Forall_forall in *. intros x Hx. unfold live. rewrite Same; auto. apply L; auto.
Qed.

Lemma edge_Frame h h' S a b : edge h a b -> Frame h h' S -> ~ In a S -> ~ In b S -> edge h' a b.
Proof.
  intros [E1 E2] F Ha Hb. split.
  - rewrite (rd_next_dget h h'); auto.
  - rewrite (rd_prev_dget h h'); auto.
Qed.

(* a ring none of whose nodes is in the footprint of an operation is untouched *)
Lemma Ring_Frame h h' S l : Ring h l -> Frame h h' S -> (forall x, In x l -> ~ In x S) -> Ring h' l.
Proof.
  intros R F D. destruct l as [|a t]; [exact R|]. destruct R as [Sp E]. split.
  - eapply Soup_Frame; eauto. simpl. intros x. rewrite app_nil_r. apply D.
  - eapply edge_Frame; eauto; apply D.
    + destruct t; [left; reflexivity|]. right. apply in_last. congruence.
    + left; reflexivity.
Qed.

(* ------------------------------------------------------------------ small tools *)
Ltac perm_tac :=
  cbn [app];
  lazymatch goal with
  | |- Permutation nil nil => apply perm_nil
  | |- Permutation (?a :: ?l) ?r =>
      let T := type of a in
      let rec go pre post :=
        lazymatch post with
        | a :: ?post' => change r with (pre ++ a :: post'); apply Permutation_cons_app; perm_tac
        | ?x :: ?post' => go (pre ++ [x]) post'
        end in
      go (@nil T) r
  end.

Lemma hd_snoc {A} (l : list A) c d : hd d (l ++ [c]) = hd c l.
Proof. destruct l; reflexivity. Qed.

Lemma Soup_cons h p ps :
  Soup h ps -> Piece h p -> NoDup p -> (forall x, In x p -> ~ In x (concat ps)) -> Soup h (p :: ps).
Proof.
  intros [N F] Pp Np D. split; [|constructor; auto].
  simpl. clear F Pp. induction p as [|a p IH]; simpl; auto.
  inversion Np; subst. constructor.
  - intros H. apply in_app_or in H. destruct H as [H|H]; [auto|]. apply (D a); simpl; auto.
  - apply IH; auto. intros x Hx. apply D. right. exact Hx.
Qed.

Lemma Soup_app h ps qs :
  Soup h ps -> Soup h qs -> (forall x, In x (concat ps) -> ~ In x (concat qs)) -> Soup h (ps ++ qs).
Proof.
  intros [N1 F1] [N2 F2] D. split; [|apply Forall_app; auto].
  rewrite concat_app. clear F1 F2. induction (concat ps) as [|a l IH]; simpl; auto.
  inversion N1; subst. constructor.
  - intros H. apply in_app_or in H. destruct H as [H|H]; [auto|]. apply (D a); simpl; auto.
  - apply IH; auto. intros x Hx. apply D. right. exact Hx.
Qed.

Lemma Soup_single_ring h l : Ring h l -> Soup h [l].
Proof. apply Ring_Soup. Qed.

Lemma Soup_NoDup h ps : Soup h ps -> NoDup (concat ps).
Proof. intros [N _]; exact N. Qed.

Lemma Soup_pick h ps p : Soup h ps -> In p ps -> Soup h [p].
Proof.
  intros [N F] Hp. split.
  - simpl. rewrite app_nil_r. eapply NoDup_concat_in; eauto.
  - rewrite Forall_forall in F. constructor; auto.
Qed.

(* ------------------------------------------------------------------ a_list_add_ and friends *)
(* the general fact: two detached pieces (whole chains) are closed into one ring *)
Lemma add__soup h l1 l2 r :
  Soup h (l1 :: l2 :: r) -> l1 <> [] -> l2 <> [] ->
  exists h', l_add_ h (hd0 l1) (last l1 0) (hd0 l2) (last l2 0) = Some h' /\
    Soup h' ((l1 ++ l2) :: r) /\ edge h' (last l2 0) (hd0 l1) /\
    Frame h h' [last l1 0; hd0 l2; last l2 0; hd0 l1] /\ (forall x, live h' x <-> live h x).
Proof.
  intros S H1 H2. unfold l_add_.
  assert (La : live h (last l1 0)) by (eapply Soup_live; eauto; [left; reflexivity|apply in_last; auto]).
  assert (Lb : live h (hd0 l2)) by (eapply Soup_live; eauto; [right; left; reflexivity|apply in_hd; auto]).
  destruct (link_spec h _ _ La Lb) as (h1 & E1 & P1). rewrite E1.
  pose proof (Soup_join' _ _ _ _ _ _ S H1 H2 P1) as S1.
  assert (Lc : live h1 (last l2 0)).
  { apply (lp_live _ _ _ _ P1). eapply Soup_live; eauto; [right; left; reflexivity|apply in_last; auto]. }
  assert (Ld : live h1 (hd0 l1)).
  { apply (lp_live _ _ _ _ P1). eapply Soup_live; eauto; [left; reflexivity|apply in_hd; auto]. }
  destruct (link_spec h1 _ _ Lc Ld) as (h2 & E2 & P2). rewrite E2.
  exists h2. split; [reflexivity|].
  assert (Hne : l1 ++ l2 <> []) by (destruct l1; simpl; congruence).
  split; [|split; [|split]].
  - eapply (Soup_close' _ _ _ _ 0); eauto.
    rewrite last_app_nonnil, hd_app_nonnil by assumption. exact P2.
  - eapply edge_new; eauto.
  - eapply Frame_incl; [eapply Frame_trans; eapply LinkPost_frame; eauto|].
    intros x Hx; simpl in *; tauto.
  - intros x. rewrite (lp_live _ _ _ _ P2). apply (lp_live _ _ _ _ P1).
Qed.

Lemma add__ring h l1 l2 :
  Soup h [l1; l2] -> l1 <> [] -> l2 <> [] ->
  exists h', l_add_ h (hd0 l1) (last l1 0) (hd0 l2) (last l2 0) = Some h' /\
    Ring h' (l1 ++ l2) /\
    Frame h h' [last l1 0; hd0 l2; last l2 0; hd0 l1] /\ (forall x, live h' x <-> live h x).
Proof.
  intros S H1 H2. destruct (add__soup _ _ _ _ S H1 H2) as (h' & E & S' & Ed & F & L).
  exists h'. split; [exact E|]. split; [|split; assumption].
  apply (Ring_intro _ _ 0); auto.
  - destruct l1; simpl; congruence.
  - rewrite last_app_nonnil, hd_app_nonnil by assumption. exact Ed.
Qed.

Lemma Soup_ring_and_node h l n : Ring h l -> live h n -> ~ In n l -> Soup h [l; [n]].
Proof.
  intros R L Hn. apply (Soup_perm h [[n]; l]); [perm_tac|].
  apply Soup_cons; [apply Ring_Soup; exact R|apply Piece_single; exact L|repeat constructor; simpl; tauto|].
  intros x [<-|[]]. simpl. rewrite app_nil_r. exact Hn.
Qed.

(* a_list_add_next(c, n): n is inserted right after c *)
Lemma add_next_spec h c xs n :
  Ring h (c :: xs) -> live h n -> ~ In n (c :: xs) ->
  exists h', l_add_next h c n = Some h' /\ Ring h' (c :: n :: xs) /\
    Frame h h' [c; n; hd c xs] /\ (forall x, live h' x <-> live h x).
Proof.
  intros R L Hn. unfold l_add_next.
  rewrite (Ring_next h [] c xs R). cbn [hd].
  pose proof (Ring_rot1 _ _ _ R) as R1.
  assert (S : Soup h [xs ++ [c]; [n]]).
  { apply Soup_ring_and_node; auto. intros H. apply Hn. apply in_app_or in H. simpl in *. tauto. }
  destruct (add__ring h (xs ++ [c]) [n] S) as (h' & E & R' & F & Lv).
  { destruct xs; simpl; congruence. } { congruence. }
  rewrite hd_snoc, last_last in E. cbn [hd last] in E.
  exists h'. split; [exact E|]. split; [|split; [|exact Lv]].
  - rewrite <- app_assoc in R'. apply (Ring_rot h' xs [c; n]) in R'. exact R'.
  - eapply Frame_incl; eauto. rewrite hd_snoc, last_last. intros x Hx; simpl in *; tauto.
Qed.

(* a_list_add_prev(c, n): n is inserted right before c, i.e. at the end of c :: xs *)
Lemma add_prev_spec h c xs n :
  Ring h (c :: xs) -> live h n -> ~ In n (c :: xs) ->
  exists h', l_add_prev h c n = Some h' /\ Ring h' (c :: xs ++ [n]) /\
    Frame h h' [c; n; last xs c] /\ (forall x, live h' x <-> live h x).
Proof.
  intros R L Hn. unfold l_add_prev.
  rewrite (Ring_prev h [] c xs R). cbn [last].
  assert (S : Soup h [c :: xs; [n]]) by (apply Soup_ring_and_node; auto).
  destruct (add__ring h (c :: xs) [n] S) as (h' & E & R' & F & Lv); try congruence.
  rewrite last_cons_default in E. cbn [hd last] in E.
  exists h'. split; [exact E|]. split; [|split; [|exact Lv]].
  - exact R'.
  - eapply Frame_incl; eauto. rewrite last_cons_default. intros x Hx; simpl in *; tauto.
Qed.

(* a_list_add_node(hd, tl, n) on a ring opened between tl and hd *)
Lemma add_node_spec h c xs n :
  Ring h (c :: xs) -> live h n -> ~ In n (c :: xs) ->
  exists h', l_add_node h c (last xs c) n = Some h' /\ Ring h' (c :: xs ++ [n]) /\
    Frame h h' [c; n; last xs c] /\ (forall x, live h' x <-> live h x).
Proof.
  intros R L Hn. unfold l_add_node.
  assert (S : Soup h [c :: xs; [n]]) by (apply Soup_ring_and_node; auto).
  destruct (add__ring h (c :: xs) [n] S) as (h' & E & R' & F & Lv); try congruence.
  rewrite last_cons_default in E. cbn [hd last] in E.
  exists h'. split; [exact E|]. split; [|split; [|exact Lv]].
  - exact R'.
  - eapply Frame_incl; eauto. rewrite last_cons_default. intros x Hx; simpl in *; tauto.
Qed.

(* ------------------------------------------------------------------ a_list_del_ and friends *)
(* a section s of the ring s ++ rest is taken out; it stays a piece with its inner links intact *)
Lemma del__spec h s rest :
  Ring h (s ++ rest) -> s <> [] -> rest <> [] ->
  exists h', l_del_ h (hd0 s) (last s 0) = Some h' /\ Ring h' rest /\ Soup h' [rest; s] /\
    Frame h h' [last rest 0; hd0 rest] /\ (forall x, live h' x <-> live h x).
Proof.
  intros R Hs Hr. unfold l_del_.
  assert (Ep : rd_prev h (hd0 s) = Some (last rest 0)).
  { destruct s as [|a s]; [congruence|]. simpl in R. cbn [hd]. rewrite (Ring_prev h [] a (s ++ rest) R).
    cbn [last]. rewrite last_app_nonnil by assumption.
    destruct (snoc_cases rest) as [->|(m & z & ->)]; [congruence|]. rewrite !last_last. reflexivity. }
  assert (En : rd_next h (last s 0) = Some (hd0 rest)).
  { destruct (snoc_cases s) as [->|(m & z & ->)]; [congruence|]. rewrite last_last.
    rewrite <- app_assoc in R. simpl in R. rewrite (Ring_next h m z rest R).
    destruct rest; [congruence|reflexivity]. }
  rewrite Ep, En.
  apply Ring_rot in R. pose proof (Soup_split _ _ _ _ (Ring_Soup _ _ R)) as S.
  assert (La : live h (last rest 0)) by (eapply Soup_live; eauto; [left; reflexivity|apply in_last; auto]).
  assert (Lb : live h (hd0 rest)) by (eapply Soup_live; eauto; [left; reflexivity|apply in_hd; auto]).
  destruct (link_spec h _ _ La Lb) as (h' & E & P). rewrite E.
  exists h'. split; [reflexivity|].
  pose proof (Soup_close' _ _ _ _ 0 S Hr P) as S'.
  split; [|split; [exact S'|split; [|apply (lp_live _ _ _ _ P)]]].
  - apply (Ring_intro _ _ 0); auto.
    + assert (S2 : Soup h' [s; rest]) by (apply (Soup_perm h' [rest; s]); [perm_tac|exact S']).
      eapply Soup_drop; exact S2.
    + eapply edge_new; eauto.
  - apply LinkPost_frame; auto.
Qed.

(* ------------------------------------------------------------------ executing links on a soup *)
Lemma Soup_join_exec h p q r :
  Soup h (p :: q :: r) -> p <> [] -> q <> [] ->
  exists h', l_link h (last p 0) (hd0 q) = Some h' /\ Soup h' ((p ++ q) :: r) /\
             LinkPost h (last p 0) (hd0 q) h'.
Proof.
  intros S Hp Hq.
  assert (La : live h (last p 0)) by (eapply Soup_live; eauto; [left; reflexivity|apply in_last; auto]).
  assert (Lb : live h (hd0 q)) by (eapply Soup_live; eauto; [right; left; reflexivity|apply in_hd; auto]).
  destruct (link_spec h _ _ La Lb) as (h' & E & P). exists h'. split; [exact E|]. split; [|exact P].
  eapply Soup_join'; eauto.
Qed.

Lemma Soup_close_exec h p r :
  Soup h (p :: r) -> p <> [] ->
  exists h', l_link h (last p 0) (hd0 p) = Some h' /\ Soup h' (p :: r) /\ edge h' (last p 0) (hd0 p) /\
             LinkPost h (last p 0) (hd0 p) h'.
Proof.
  intros S Hp.
  assert (La : live h (last p 0)) by (eapply Soup_live; eauto; [left; reflexivity|apply in_last; auto]).
  assert (Lb : live h (hd0 p)) by (eapply Soup_live; eauto; [left; reflexivity|apply in_hd; auto]).
  destruct (link_spec h _ _ La Lb) as (h' & E & P). exists h'. split; [exact E|].
  split; [|split; [eapply edge_new; eauto|exact P]].
  eapply Soup_close'; eauto.
Qed.

(* the edge across a seam inside a ring, and the wrap-around edge *)
Lemma Ring_seam h l1 p q l2 :
  Ring h (l1 ++ p ++ q ++ l2) -> p <> [] -> q <> [] -> edge h (last p 0) (hd0 q).
Proof.
  intros R Hp Hq. destruct (snoc_cases p) as [->|(m & z & ->)]; [congruence|].
  destruct q as [|y q]; [congruence|]. rewrite last_last. cbn [hd].
  apply (Ring_edge_mid h (l1 ++ m) z y (q ++ l2)).
  rewrite <- !app_assoc in *. cbn [app] in *. exact R.
Qed.

Lemma Ring_seam_wrap h p mid q :
  Ring h (p ++ mid ++ q) -> p <> [] -> q <> [] -> edge h (last q 0) (hd0 p).
Proof.
  intros R Hp Hq. pose proof (Ring_wrap _ _ 0 R) as E.
  rewrite hd_app_nonnil in E by assumption.
  rewrite app_assoc, last_app_nonnil in E by assumption. exact E.
Qed.

Lemma LinkPost_Frame_in h a b h' S : LinkPost h a b h' -> In a S -> In b S -> Frame h h' S.
Proof.
  intros P Ha Hb. eapply Frame_incl; [eapply LinkPost_frame; eauto|].
  intros x [<-|[<-|[]]]; auto.
Qed.

(* ------------------------------------------------------------------ del: remaining cases *)
Lemma del__whole h s :
  Ring h s ->
  exists h', l_del_ h (hd0 s) (last s 0) = Some h' /\ Ring h' s /\
    Frame h h' [last s 0; hd0 s] /\ (forall x, live h' x <-> live h x).
Proof.
  intros R. pose proof (Ring_nonnil _ _ R) as Hs. pose proof (Ring_wrap _ _ 0 R) as [En Ep].
  destruct (Soup_close_exec h s [] (Ring_Soup _ _ R) Hs) as (h' & E & S' & Ed & P).
  exists h'. split. unfold l_del_; rewrite Ep, En; exact E.
  split; [|split; [|apply (lp_live _ _ _ _ P)]].
  - eapply Ring_intro; eauto.
  - apply LinkPost_frame; auto.
Qed.

(* a_list_del_node(n): n leaves the ring; its own two fields are not touched *)
Lemma del_node_spec h l1 n l2 :
  Ring h (l1 ++ n :: l2) -> l1 ++ l2 <> [] ->
  exists h', l_del_node h n = Some h' /\ Ring h' (l1 ++ l2) /\ dget h' n = dget h n /\
    Frame h h' (l1 ++ l2) /\ (forall x, live h' x <-> live h x).
Proof.
  intros R Hne. pose proof (Ring_NoDup _ _ R) as ND.
  apply (Ring_rot h l1 (n :: l2)) in R. cbn [app] in R.
  assert (Hne' : l2 ++ l1 <> []) by (destruct l1, l2; simpl in *; congruence).
  destruct (del__spec h [n] (l2 ++ l1) R) as (h' & E & R' & S' & F & Lv); try congruence.
  unfold l_del_node. cbn [hd last] in E. exists h'. split; [exact E|].
  assert (Hin : forall x, In x [last (l2 ++ l1) 0; hd0 (l2 ++ l1)] -> In x (l1 ++ l2)).
  { intros x [<-|[<-|[]]].
    - pose proof (in_last (l2 ++ l1) 0 Hne') as H. apply in_app_or in H. apply in_or_app. tauto.
    - pose proof (in_hd (l2 ++ l1) 0 Hne') as H. apply in_app_or in H. apply in_or_app. tauto. }
  split; [|split; [|split; [|exact Lv]]].
  - apply Ring_rot. exact R'.
  - apply F. intros H. apply Hin in H. apply NoDup_remove_2 in ND. contradiction.
  - eapply Frame_incl; eauto.
Qed.

(* a_list_init on a node that exists *)
Lemma init_ring h c :
  live h c ->
  exists h', l_init h c = Some h' /\ Ring h' [c] /\ Frame h h' [c] /\ (forall x, live h' x <-> live h x).
Proof.
  intros L. destruct (init_spec h c L) as (h' & E & P). exists h'. split; [exact E|].
  split; [|split; [|apply (lp_live _ _ _ _ P)]].
  - apply Ring_single; [apply (lp_live _ _ _ _ P); exact L|eapply edge_new; eauto].
  - eapply LinkPost_Frame_in; eauto; left; reflexivity.
Qed.

(* ------------------------------------------------------------------ del_next / del_prev *)
Lemma del_next_spec h c n xs :
  Ring h (c :: n :: xs) ->
  exists h', l_del_next h c = Some h' /\ Ring h' (c :: xs) /\ dget h' n = dget h n /\
    Frame h h' (c :: xs) /\ (forall x, live h' x <-> live h x).
Proof.
  intros R. unfold l_del_next. rewrite (Ring_next h [] c (n :: xs) R). cbn [hd].
  apply (del_node_spec h [c] n xs R). discriminate.
Qed.

Lemma del_prev_spec h c xs n :
  Ring h (c :: xs ++ [n]) ->
  exists h', l_del_prev h c = Some h' /\ Ring h' (c :: xs) /\ dget h' n = dget h n /\
    Frame h h' (c :: xs) /\ (forall x, live h' x <-> live h x).
Proof.
  intros R. unfold l_del_prev. rewrite (Ring_prev h [] c (xs ++ [n]) R). cbn [last]. rewrite last_last.
  destruct (del_node_spec h (c :: xs) n [] R) as (h' & E & R' & D & F & Lv); [discriminate|].
  rewrite app_nil_r in *. exists h'. auto.
Qed.

(* ------------------------------------------------------------------ set_ / set_node *)
(* the section s1 of the ring s1 ++ rest is replaced by the whole chain l2 *)
Lemma set__spec h s1 rest l2 :
  Ring h (s1 ++ rest) -> Soup h [s1 ++ rest; l2] -> s1 <> [] -> rest <> [] -> l2 <> [] ->
  exists h', l_set_ h (hd0 s1) (last s1 0) (hd0 l2) (last l2 0) = Some h' /\
    Ring h' (l2 ++ rest) /\ Soup h' [l2 ++ rest; s1] /\
    Frame h h' (rest ++ l2) /\ (forall x, live h' x <-> live h x).
Proof.
  intros R S H1 Hr H2.
  assert (Ea : rd_next h (last s1 0) = Some (hd0 rest)).
  { apply (Ring_seam h [] s1 rest []); auto. rewrite app_nil_r. exact R. }
  assert (Eb : rd_prev h (hd0 s1) = Some (last rest 0)).
  { apply (Ring_seam_wrap h s1 [] rest); auto. }
  assert (S3 : Soup h [rest; l2; s1]).
  { apply Soup_split in S. apply (Soup_perm h [s1; rest; l2]); [perm_tac|exact S]. }
  destruct (add__soup h rest l2 [s1] S3 Hr H2) as (h' & E & S' & Ed & F & Lv).
  exists h'. split; [unfold l_set_; rewrite Ea, Eb; exact E|].
  assert (R' : Ring h' (rest ++ l2)).
  { apply (Ring_intro _ _ 0).
    - eapply Soup_pick; [exact S'|left; reflexivity].
    - destruct rest; simpl; congruence.
    - rewrite last_app_nonnil, hd_app_nonnil by assumption. exact Ed. }
  split; [apply Ring_rot; exact R'|]. split; [|split; [|exact Lv]].
  - destruct S' as [N Fp]. split.
    + simpl in *. rewrite app_nil_r in *. rewrite <- !app_assoc in *.
      eapply Permutation_NoDup; [|exact N].
      rewrite !app_assoc. apply Permutation_app_tail. apply Permutation_app_comm.
    + inversion Fp; subst. constructor; auto. destruct H3 as [Sg Lf]. split.
      * apply Ring_Seg. apply Ring_rot. exact R'.
      * apply Forall_app in Lf. apply Forall_app. tauto.
  - eapply Frame_incl; eauto. intros x Hx. apply in_or_app.
    destruct Hx as [<-|[<-|[<-|[<-|[]]]]].
    + left. apply in_last; auto.
    + right. apply in_hd; auto.
    + right. apply in_last; auto.
    + left. apply in_hd; auto.
Qed.

Lemma set_node_spec h c rest r :
  Ring h (c :: rest) -> live h r -> ~ In r (c :: rest) -> rest <> [] ->
  exists h', l_set_node h c r = Some h' /\ Ring h' (r :: rest) /\ dget h' c = dget h c /\
    Frame h h' (r :: rest) /\ (forall x, live h' x <-> live h x).
Proof.
  intros R L Hr Hne.
  pose proof (Soup_ring_and_node h (c :: rest) r R L Hr) as S.
  destruct (set__spec h [c] rest [r] R S) as (h' & E & R' & S' & F & Lv); try congruence.
  exists h'. split; [exact E|]. split; [exact R'|]. split; [|split; [|exact Lv]].
  - apply F. intros H. apply Hr. apply in_app_or in H. destruct H as [H|[<-|[]]].
    + apply Ring_NoDup in R. inversion R; subst. contradiction.
    + left; reflexivity.
  - eapply Frame_incl; eauto. intros x Hx. apply in_app_or in Hx. simpl in *. tauto.
Qed.

(* ------------------------------------------------------------------ mov_next / mov_prev *)
Lemma mov_next_spec h c xs r ys :
  Ring h (c :: xs) -> Ring h (r :: ys) -> Soup h [c :: xs; r :: ys] -> ys <> [] ->
  exists h', l_mov_next h c r = Some h' /\ Ring h' (c :: ys ++ xs) /\ dget h' r = dget h r /\
    Frame h h' (c :: xs ++ ys) /\ (forall x, live h' x <-> live h x).
Proof.
  intros R1 R2 S Hy.
  assert (Ea : rd_next h c = Some (hd0 (xs ++ [c]))) by (rewrite hd_snoc; apply (Ring_next h [] c xs R1)).
  assert (Eb : rd_next h r = Some (hd0 ys)).
  { rewrite (Ring_next h [] r ys R2). destruct ys; [congruence|reflexivity]. }
  assert (Ed : rd_prev h r = Some (last ys 0)).
  { rewrite (Ring_prev h [] r ys R2). cbn [last]. destruct (snoc_cases ys) as [->|(m & z & ->)]; [congruence|].
    rewrite !last_last. reflexivity. }
  assert (S3 : Soup h [xs ++ [c]; ys; [r]]).
  { destruct S as [N Fp]. inversion Fp as [|? ? P1 Fp1]; subst. inversion Fp1 as [|? ? P2 _]; subst.
    split.
    - eapply Permutation_NoDup; [|exact N]. simpl. rewrite !app_nil_r.
      change (c :: xs ++ r :: ys) with ((c :: xs) ++ [r] ++ ys).
      rewrite <- !app_assoc. 
      eapply perm_trans; [apply Permutation_app; [apply (Permutation_app_comm [c] xs)|apply (Permutation_app_comm [r] ys)]|].
      rewrite <- !app_assoc. reflexivity.
    - pose proof (Ring_rot1 _ _ _ R1) as R1'. apply Ring_Soup in R1'. destruct R1' as [_ F1].
      inversion F1; subst. constructor; auto.
      change (r :: ys) with ([r] ++ ys) in P2. apply Piece_app_inv in P2. destruct P2. auto. }
  assert (Hx : xs ++ [c] <> []) by (destruct xs; simpl; congruence).
  destruct (add__soup h (xs ++ [c]) ys [[r]] S3 Hx Hy) as (h' & E & S' & Ee & F & Lv).
  rewrite last_last in *.
  exists h'. split; [unfold l_mov_next; rewrite Ea, Eb, Ed; exact E|].
  split; [|split; [|split; [|exact Lv]]].
  - assert (R' : Ring h' ((xs ++ [c]) ++ ys)).
    { apply (Ring_intro _ _ 0).
      - eapply Soup_pick; [exact S'|left; reflexivity].
      - destruct xs; simpl; congruence.
      - rewrite last_app_nonnil, hd_app_nonnil by assumption. exact Ee. }
    rewrite <- app_assoc in R'. apply (Ring_rot h' xs ([c] ++ ys)) in R'. exact R'.
  - apply F. destruct S3 as [N _]. simpl in N.
    intros H. assert (In r ((xs ++ [c]) ++ ys)).
    { apply in_or_app. destruct H as [<-|[<-|[<-|[<-|[]]]]].
      - left. apply in_or_app. right. left. reflexivity.
      - right. apply in_hd; auto.
      - right. apply in_last; auto.
      - left. apply in_hd; auto. }
    rewrite app_assoc in N. eapply NoDup_app_disj; eauto. left; reflexivity.
  - eapply Frame_incl; eauto. intros x Hx'.
    destruct Hx' as [<-|[<-|[<-|[<-|[]]]]].
    + left; reflexivity.
    + right. apply in_or_app. right. apply in_hd; auto.
    + right. apply in_or_app. right. apply in_last; auto.
    + rewrite hd_snoc. destruct xs; simpl; auto.
Qed.

Lemma mov_prev_spec h c xs r ys :
  Ring h (c :: xs) -> Ring h (r :: ys) -> Soup h [c :: xs; r :: ys] -> ys <> [] ->
  exists h', l_mov_prev h c r = Some h' /\ Ring h' (c :: xs ++ ys) /\ dget h' r = dget h r /\
    Frame h h' (c :: xs ++ ys) /\ (forall x, live h' x <-> live h x).
Proof.
  intros R1 R2 S Hy.
  assert (Ea : rd_prev h c = Some (last (c :: xs) 0)).
  { rewrite last_cons_default. apply (Ring_prev h [] c xs R1). }
  assert (Eb : rd_next h r = Some (hd0 ys)).
  { rewrite (Ring_next h [] r ys R2). destruct ys; [congruence|reflexivity]. }
  assert (Ed : rd_prev h r = Some (last ys 0)).
  { rewrite (Ring_prev h [] r ys R2). cbn [last]. destruct (snoc_cases ys) as [->|(m & z & ->)]; [congruence|].
    rewrite !last_last. reflexivity. }
  assert (S3 : Soup h [c :: xs; ys; [r]]).
  { apply (Soup_perm h [[r]; ys; c :: xs]); [perm_tac|]. apply (Soup_split h [r] ys).
    apply (Soup_perm h [c :: xs; r :: ys]); [perm_tac|exact S]. }
  destruct (add__soup h (c :: xs) ys [[r]] S3) as (h' & E & S' & Ee & F & Lv); [congruence|exact Hy|].
  exists h'. split; [unfold l_mov_prev; rewrite Ea, Eb, Ed; exact E|].
  split; [|split; [|split; [|exact Lv]]].
  - apply (Ring_intro _ _ 0).
    + eapply Soup_pick; [exact S'|left; reflexivity].
    + discriminate.
    + change (c :: xs ++ ys) with ((c :: xs) ++ ys). rewrite last_app_nonnil by assumption. exact Ee.
  - apply F. destruct S3 as [N _]. simpl in N.
    intros H. assert (In r ((c :: xs) ++ ys)).
    { apply in_or_app. destruct H as [<-|[<-|[<-|[<-|[]]]]].
      - left. apply in_last. discriminate.
      - right. apply in_hd; auto.
      - right. apply in_last; auto.
      - left. left. reflexivity. }
    change (c :: xs ++ ys ++ [r]) with ((c :: xs) ++ ys ++ [r]) in N. rewrite app_assoc in N.
    eapply NoDup_app_disj; eauto. left; reflexivity.
  - eapply Frame_incl; eauto. intros x Hx'.
    change (c :: xs ++ ys) with ((c :: xs) ++ ys). apply in_or_app.
    destruct Hx' as [<-|[<-|[<-|[<-|[]]]]].
    + left. apply in_last. discriminate.
    + right. apply in_hd; auto.
    + right. apply in_last; auto.
    + left. left. reflexivity.
Qed.

(* moving an empty list: the source sentinel itself is spliced in (this is what the code does) *)
Lemma mov_next_empty h c xs r :
  Ring h (c :: xs) -> Ring h [r] -> ~ In r (c :: xs) ->
  exists h', l_mov_next h c r = Some h' /\ Ring h' (c :: r :: xs) /\
    Frame h h' [c; r; hd c xs] /\ (forall x, live h' x <-> live h x).
Proof.
  intros R1 R2 Hr.
  assert (L : live h r) by (eapply Ring_live; eauto; left; reflexivity).
  destruct (add_next_spec h c xs r R1 L Hr) as (h' & E & R' & F & Lv).
  exists h'. split; [|auto]. unfold l_mov_next, l_add_next in *.
  rewrite (Ring_next h [] r [] R2), (Ring_prev h [] r [] R2). cbn [hd last]. exact E.
Qed.

Lemma mov_prev_empty h c xs r :
  Ring h (c :: xs) -> Ring h [r] -> ~ In r (c :: xs) ->
  exists h', l_mov_prev h c r = Some h' /\ Ring h' (c :: xs ++ [r]) /\
    Frame h h' [c; r; last xs c] /\ (forall x, live h' x <-> live h x).
Proof.
  intros R1 R2 Hr.
  assert (L : live h r) by (eapply Ring_live; eauto; left; reflexivity).
  destruct (add_prev_spec h c xs r R1 L Hr) as (h' & E & R' & F & Lv).
  exists h'. split; [|auto]. unfold l_mov_prev, l_add_prev in *.
  rewrite (Ring_next h [] r [] R2), (Ring_prev h [] r [] R2). cbn [hd last]. exact E.
Qed.

(* ------------------------------------------------------------------ rot_next / rot_prev *)
Lemma Frame_live h h' S x : Frame h h' S -> ~ In x S -> live h x -> live h' x.
Proof. intros F Hx [n Hn]. exists n. rewrite F; auto. Qed.

Lemma rot_next_spec h c xs n :
  Ring h (c :: xs ++ [n]) ->
  exists h', l_rot_next h c = Some h' /\ Ring h' (c :: n :: xs) /\
    Frame h h' (c :: xs ++ [n]) /\ (forall x, live h' x <-> live h x).
Proof.
  intros R. pose proof (Ring_NoDup _ _ R) as ND.
  assert (Ep : rd_prev h c = Some n).
  { rewrite (Ring_prev h [] c (xs ++ [n]) R). cbn [last]. rewrite last_last. reflexivity. }
  destruct (del_node_spec h (c :: xs) n [] R) as (h1 & E1 & R1 & D1 & F1 & L1); [discriminate|].
  rewrite app_nil_r in *.
  assert (Hn : ~ In n (c :: xs)).
  { change (c :: xs ++ [n]) with ((c :: xs) ++ [n]) in ND. intros H.
    eapply NoDup_app_disj; eauto. left; reflexivity. }
  assert (Ln : live h1 n).
  { apply L1. eapply Ring_live; eauto. right. apply in_or_app. right. left. reflexivity. }
  destruct (add_next_spec h1 c xs n R1 Ln Hn) as (h2 & E2 & R2 & F2 & L2).
  exists h2. split; [|split; [exact R2|split]].
  - unfold l_rot_next. rewrite Ep. unfold l_del_node in E1. rewrite E1. exact E2.
  - eapply Frame_incl; [eapply Frame_trans; eauto|].
    intros x Hx. apply in_app_or in Hx. destruct Hx as [Hx|Hx].
    + change (c :: xs ++ [n]) with ((c :: xs) ++ [n]). apply in_or_app. auto.
    + destruct Hx as [<-|[<-|[<-|[]]]].
      * left; reflexivity.
      * right. apply in_or_app. right. left. reflexivity.
      * destruct xs; simpl; auto.
  - intros x. rewrite L2. apply L1.
Qed.

Lemma rot_prev_spec h c n xs :
  Ring h (c :: n :: xs) ->
  exists h', l_rot_prev h c = Some h' /\ Ring h' (c :: xs ++ [n]) /\
    Frame h h' (c :: n :: xs) /\ (forall x, live h' x <-> live h x).
Proof.
  intros R. pose proof (Ring_NoDup _ _ R) as ND.
  assert (En : rd_next h c = Some n) by (apply (Ring_next h [] c (n :: xs) R)).
  destruct (del_node_spec h [c] n xs R) as (h1 & E1 & R1 & D1 & F1 & L1); [discriminate|].
  cbn [app] in *.
  assert (Hn : ~ In n (c :: xs)).
  { inversion ND as [|? ? H1 H2]; subst. inversion H2; subst. simpl in *. intros [->|H]; tauto. }
  assert (Ln : live h1 n).
  { apply L1. eapply Ring_live; eauto. right. left. reflexivity. }
  destruct (add_prev_spec h1 c xs n R1 Ln Hn) as (h2 & E2 & R2 & F2 & L2).
  exists h2. split; [|split; [exact R2|split]].
  - unfold l_rot_prev. rewrite En. unfold l_del_node in E1. rewrite E1. exact E2.
  - eapply Frame_incl; [eapply Frame_trans; eauto|].
    intros x Hx. apply in_app_or in Hx. destruct Hx as [Hx|Hx].
    + simpl in *. tauto.
    + destruct Hx as [<-|[<-|[<-|[]]]].
      * left; reflexivity.
      * right. left. reflexivity.
      * destruct (snoc_cases xs) as [->|(m & z & ->)]; [left; reflexivity|].
        rewrite last_last. right. right. apply in_or_app. right. left. reflexivity.
  - intros x. rewrite L2. apply L1.
Qed.

(* on a ring of one node both rotations rewrite the same two pointers with the same values *)
Lemma link_self h c : Ring h [c] -> exists h', l_link h c c = Some h' /\ Ring h' [c] /\ Frame h h' [c].
Proof.
  intros R. destruct (Soup_close_exec h [c] [] (Ring_Soup _ _ R)) as (h' & E & S' & Ed & P); [discriminate|].
  cbn [hd last] in *. exists h'. split; [exact E|]. split.
  - apply (Ring_intro _ _ 0); auto. discriminate.
  - eapply LinkPost_Frame_in; eauto; left; reflexivity.
Qed.

Lemma rot_single h c :
  Ring h [c] ->
  (exists h', l_rot_next h c = Some h' /\ Ring h' [c] /\ Frame h h' [c]) /\
  (exists h', l_rot_prev h c = Some h' /\ Ring h' [c] /\ Frame h h' [c]).
Proof.
  intros R.
  pose proof (Ring_next h [] c [] R) as En. pose proof (Ring_prev h [] c [] R) as Ep. cbn [hd last] in *.
  destruct (link_self h c R) as (h1 & E1 & R1 & F1).
  pose proof (Ring_next h1 [] c [] R1) as En1. pose proof (Ring_prev h1 [] c [] R1) as Ep1. cbn [hd last] in *.
  destruct (link_self h1 c R1) as (h2 & E2 & R2 & F2).
  destruct (link_self h2 c R2) as (h3 & E3 & R3 & F3).
  assert (F : Frame h h3 [c]).
  { eapply Frame_incl; [eapply Frame_trans; [eapply Frame_trans|]; eauto|]. intros x Hx; simpl in *; tauto. }
  split; exists h3.
  - split; [|auto]. unfold l_rot_next, l_del_, l_add_.
    repeat (first [rewrite Ep|rewrite En|rewrite E1|rewrite En1|rewrite Ep1|rewrite E2]; cbn beta iota).
    exact E3.
  - split; [|auto]. unfold l_rot_prev, l_del_, l_add_.
    repeat (first [rewrite Ep|rewrite En|rewrite E1|rewrite En1|rewrite Ep1|rewrite E2]; cbn beta iota).
    exact E3.
Qed.

(* ------------------------------------------------------------------ swap_ / swap_node *)
Lemma in_hd_app_l {A} (l1 l2 : list A) d : l1 <> [] -> In (hd d l1) (l1 ++ l2).
Proof. intros H. apply in_or_app. left. apply in_hd; auto. Qed.
Lemma in_last_app_l {A} (l1 l2 : list A) d : l1 <> [] -> In (last l1 d) (l1 ++ l2).
Proof. intros H. apply in_or_app. left. apply in_last; auto. Qed.

(* two disjoint, non adjacent sections s1, s2 of one ring  s1 ++ a ++ s2 ++ b  (a, b non empty) *)
Lemma swap__same_ring h s1 a s2 b :
  Ring h (s1 ++ a ++ s2 ++ b) -> s1 <> [] -> a <> [] -> s2 <> [] -> b <> [] ->
  exists h', l_swap_ h (hd0 s1) (last s1 0) (hd0 s2) (last s2 0) = Some h' /\
    Ring h' (s2 ++ a ++ s1 ++ b) /\
    Frame h h' (s1 ++ a ++ s2 ++ b) /\ (forall x, live h' x <-> live h x).
Proof.
  intros R H1 Ha H2 Hb.
  (* the four reads *)
  assert (E1 : rd_next h (last s2 0) = Some (hd0 b)).
  { apply (Ring_seam h (s1 ++ a) s2 b []); auto. rewrite app_nil_r, <- app_assoc. exact R. }
  assert (E2 : rd_prev h (hd0 s2) = Some (last a 0)).
  { apply (Ring_seam h s1 a s2 b); auto. }
  assert (E3 : rd_next h (last s1 0) = Some (hd0 a)).
  { apply (Ring_seam h [] s1 a (s2 ++ b)); auto. }
  assert (E4 : rd_prev h (hd0 s1) = Some (last b 0)).
  { apply (Ring_seam_wrap h s1 (a ++ s2) b); auto. rewrite <- app_assoc. exact R. }
  (* the four pieces *)
  assert (S0 : Soup h [b; s2; a; s1]).
  { pose proof (Ring_Soup _ _ R) as S. apply Soup_split in S.
    apply (Soup_perm h _ [a ++ s2 ++ b; s1]) in S; [|perm_tac]. apply Soup_split in S.
    apply (Soup_perm h _ [s2 ++ b; a; s1]) in S; [|perm_tac]. apply Soup_split in S.
    apply (Soup_perm h _ [b; s2; a; s1]) in S; [|perm_tac]. exact S. }
  destruct (Soup_join_exec h b s2 [a; s1] S0 Hb H2) as (h1 & L1 & S1 & P1).
  assert (Hbs : b ++ s2 <> []) by (destruct b; simpl; congruence).
  destruct (Soup_join_exec h1 (b ++ s2) a [s1] S1 Hbs Ha) as (h2 & L2 & S2 & P2).
  rewrite last_app_nonnil in L2, P2 by assumption.
  assert (Hbsa : (b ++ s2) ++ a <> []) by (destruct b; simpl; congruence).
  destruct (Soup_join_exec h2 ((b ++ s2) ++ a) s1 [] S2 Hbsa H1) as (h3 & L3 & S3 & P3).
  rewrite last_app_nonnil in L3, P3 by assumption.
  assert (Hall : ((b ++ s2) ++ a) ++ s1 <> []) by (destruct b; simpl; congruence).
  destruct (Soup_close_exec h3 (((b ++ s2) ++ a) ++ s1) [] S3 Hall) as (h4 & L4 & S4 & Ed & P4).
  rewrite last_app_nonnil in L4, P4, Ed by assumption.
  rewrite !hd_app_nonnil in L4, P4, Ed by assumption.
  exists h4. split; [|split; [|split]].
  - unfold l_swap_, l_add_. rewrite E1, E2, E3, E4, L1. cbn beta iota. rewrite L2. cbn beta iota.
    rewrite L3. exact L4.
  - assert (R' : Ring h4 (((b ++ s2) ++ a) ++ s1)).
    { apply (Ring_intro _ _ 0); auto.
      rewrite last_app_nonnil by assumption. rewrite !hd_app_nonnil by assumption. exact Ed. }
    rewrite <- !app_assoc in R'. apply (Ring_rot h4 b (s2 ++ a ++ s1)) in R'.
    rewrite <- !app_assoc in R'. exact R'.
  - assert (I1 : In (hd0 s1) (s1 ++ a ++ s2 ++ b)) by (apply in_hd_app_l; auto).
    assert (I2 : In (last s1 0) (s1 ++ a ++ s2 ++ b)) by (apply in_last_app_l; auto).
    assert (I3 : In (hd0 a) (s1 ++ a ++ s2 ++ b)) by (apply in_or_app; right; apply in_hd_app_l; auto).
    assert (I4 : In (last a 0) (s1 ++ a ++ s2 ++ b)) by (apply in_or_app; right; apply in_last_app_l; auto).
    assert (I5 : In (hd0 s2) (s1 ++ a ++ s2 ++ b))
      by (apply in_or_app; right; apply in_or_app; right; apply in_hd_app_l; auto).
    assert (I6 : In (last s2 0) (s1 ++ a ++ s2 ++ b))
      by (apply in_or_app; right; apply in_or_app; right; apply in_last_app_l; auto).
    assert (I7 : In (hd0 b) (s1 ++ a ++ s2 ++ b))
      by (apply in_or_app; right; apply in_or_app; right; apply in_or_app; right; apply in_hd; auto).
    assert (I8 : In (last b 0) (s1 ++ a ++ s2 ++ b))
      by (apply in_or_app; right; apply in_or_app; right; apply in_or_app; right; apply in_last; auto).
    intros x Hx.
    rewrite (LinkPost_Frame_in _ _ _ _ _ P4 I2 I7 x Hx), (LinkPost_Frame_in _ _ _ _ _ P3 I4 I1 x Hx),
            (LinkPost_Frame_in _ _ _ _ _ P2 I6 I3 x Hx), (LinkPost_Frame_in _ _ _ _ _ P1 I8 I5 x Hx).
    reflexivity.
  - intros x. rewrite (lp_live _ _ _ _ P4), (lp_live _ _ _ _ P3), (lp_live _ _ _ _ P2). apply (lp_live _ _ _ _ P1).
Qed.

Lemma concat_disj {A} (ps : list (list A)) i j p q x :
  NoDup (concat ps) -> nth_error ps i = Some p -> nth_error ps j = Some q -> i <> j ->
  In x p -> In x q -> False.
Proof.
  revert i j. induction ps as [|r ps IH]; intros i j N Hi Hj Hij Hp Hq.
  - destruct i; discriminate.
  - simpl in N. destruct i as [|i], j as [|j]; simpl in *.
    + congruence.
    + inversion Hi; subst. eapply NoDup_app_disj; eauto. apply in_concat. exists q. split; auto.
      eapply nth_error_In; eauto.
    + inversion Hj; subst. eapply NoDup_app_disj; eauto. apply in_concat. exists p. split; auto.
      eapply nth_error_In; eauto.
    + eapply (IH i j); eauto. eapply NoDup_app_r; eauto.
Qed.

(* nodes taken from two different pieces of a soup are different *)
Lemma Soup_neq h ps i j p q x y :
  Soup h ps -> nth_error ps i = Some p -> nth_error ps j = Some q -> i <> j ->
  In x p -> In y q -> x <> y.
Proof. intros [N _] Hi Hj Hij Hx Hy E. subst. exact (concat_disj ps i j p q y N Hi Hj Hij Hx Hy). Qed.

Lemma Ring_link_other h x y h' l : Ring h l -> LinkPost h x y h' -> ~ In x l -> ~ In y l -> Ring h' l.
Proof.
  intros R P Hx Hy. eapply Ring_Frame; eauto using LinkPost_frame.
  intros z Hz [<-|[<-|[]]]; auto.
Qed.

(* a section of one ring against a section of another ring *)
Lemma swap__two_rings h s1 a s2 b :
  Ring h (s1 ++ a) -> Ring h (s2 ++ b) -> Soup h [s1 ++ a; s2 ++ b] ->
  s1 <> [] -> a <> [] -> s2 <> [] -> b <> [] ->
  exists h', l_swap_ h (hd0 s1) (last s1 0) (hd0 s2) (last s2 0) = Some h' /\
    Ring h' (s2 ++ a) /\ Ring h' (s1 ++ b) /\
    Frame h h' ((s1 ++ a) ++ s2 ++ b) /\ (forall x, live h' x <-> live h x).
Proof.
  intros Ra Rb S H1 Ha H2 Hb.
  assert (E1 : rd_next h (last s2 0) = Some (hd0 b)).
  { apply (Ring_seam h [] s2 b []); auto. rewrite app_nil_r. exact Rb. }
  assert (E2 : rd_prev h (hd0 s2) = Some (last b 0)).
  { apply (Ring_seam_wrap h s2 [] b); auto. }
  assert (E3 : rd_next h (last s1 0) = Some (hd0 a)).
  { apply (Ring_seam h [] s1 a []); auto. rewrite app_nil_r. exact Ra. }
  assert (E4 : rd_prev h (hd0 s1) = Some (last a 0)).
  { apply (Ring_seam_wrap h s1 [] a); auto. }
  assert (S0 : Soup h [a; s2; b; s1]).
  { apply Soup_split in S. apply (Soup_perm h _ [s2 ++ b; s1; a]) in S; [|perm_tac].
    apply Soup_split in S. apply (Soup_perm h _ [a; s2; b; s1]) in S; [|perm_tac]. exact S. }
  destruct (Soup_join_exec h a s2 [b; s1] S0 Ha H2) as (h1 & L1 & S1 & P1).
  assert (Has : a ++ s2 <> []) by (destruct a; simpl; congruence).
  destruct (Soup_close_exec h1 (a ++ s2) [b; s1] S1 Has) as (h2 & L2 & S2 & Ed2 & P2).
  assert (R2 : Ring h2 (a ++ s2)).
  { apply (Ring_intro _ _ 0); auto. eapply Soup_pick; [exact S2|left; reflexivity]. }
  rewrite last_app_nonnil in L2, P2 by assumption.
  rewrite hd_app_nonnil in L2, P2 by assumption.
  assert (S2' : Soup h2 [b; s1; a ++ s2]) by (apply (Soup_perm h2 [a ++ s2; b; s1]); [perm_tac|exact S2]).
  destruct (Soup_join_exec h2 b s1 [a ++ s2] S2' Hb H1) as (h3 & L3 & S3 & P3).
  assert (Hbs : b ++ s1 <> []) by (destruct b; simpl; congruence).
  destruct (Soup_close_exec h3 (b ++ s1) [a ++ s2] S3 Hbs) as (h4 & L4 & S4 & Ed4 & P4).
  assert (R4 : Ring h4 (b ++ s1)).
  { apply (Ring_intro _ _ 0); auto. eapply Soup_pick; [exact S4|left; reflexivity]. }
  rewrite last_app_nonnil in L4, P4 by assumption.
  rewrite hd_app_nonnil in L4, P4 by assumption.
  assert (NI : forall x, In x (b ++ s1) -> ~ In x (a ++ s2)).
  { intros x Hx Hx'.
    exact (concat_disj [b ++ s1; a ++ s2] 0%nat 1%nat _ _ x (Soup_NoDup _ _ S4) eq_refl eq_refl ltac:(discriminate) Hx Hx'). }
  exists h4. split; [|split; [|split; [|split]]].
  - unfold l_swap_, l_add_. rewrite E1, E2, E3, E4, L1. cbn beta iota. rewrite L2. cbn beta iota.
    rewrite L3. exact L4.
  - apply Ring_rot.
    apply (Ring_link_other h3 (last s1 0) (hd0 b)); auto.
    + apply (Ring_link_other h2 (last b 0) (hd0 s1)); auto.
      * apply NI. apply in_last_app_l; auto.
      * apply NI. apply in_or_app. right. apply in_hd; auto.
    + apply NI. apply in_or_app. right. apply in_last; auto.
    + apply NI. apply in_hd_app_l; auto.
  - apply Ring_rot. exact R4.
  - assert (I1 : In (hd0 s1) ((s1 ++ a) ++ s2 ++ b)) by (apply in_or_app; left; apply in_hd_app_l; auto).
    assert (I2 : In (last s1 0) ((s1 ++ a) ++ s2 ++ b)) by (apply in_or_app; left; apply in_last_app_l; auto).
    assert (I3 : In (hd0 a) ((s1 ++ a) ++ s2 ++ b))
      by (apply in_or_app; left; apply in_or_app; right; apply in_hd; auto).
    assert (I4 : In (last a 0) ((s1 ++ a) ++ s2 ++ b))
      by (apply in_or_app; left; apply in_or_app; right; apply in_last; auto).
    assert (I5 : In (hd0 s2) ((s1 ++ a) ++ s2 ++ b)) by (apply in_or_app; right; apply in_hd_app_l; auto).
    assert (I6 : In (last s2 0) ((s1 ++ a) ++ s2 ++ b)) by (apply in_or_app; right; apply in_last_app_l; auto).
    assert (I7 : In (hd0 b) ((s1 ++ a) ++ s2 ++ b))
      by (apply in_or_app; right; apply in_or_app; right; apply in_hd; auto).
    assert (I8 : In (last b 0) ((s1 ++ a) ++ s2 ++ b))
      by (apply in_or_app; right; apply in_or_app; right; apply in_last; auto).
    intros x Hx.
    rewrite (LinkPost_Frame_in _ _ _ _ _ P4 I2 I7 x Hx), (LinkPost_Frame_in _ _ _ _ _ P3 I8 I1 x Hx),
            (LinkPost_Frame_in _ _ _ _ _ P2 I6 I3 x Hx), (LinkPost_Frame_in _ _ _ _ _ P1 I4 I5 x Hx).
    reflexivity.
  - intros x. rewrite (lp_live _ _ _ _ P4), (lp_live _ _ _ _ P3), (lp_live _ _ _ _ P2). apply (lp_live _ _ _ _ P1).
Qed.

(* a_list_swap_node: the two nodes exchange their places (not adjacent, neither in a ring alone) *)
Lemma swap_node_same_ring h l a r b :
  Ring h (l :: a ++ r :: b) -> a <> [] -> b <> [] ->
  exists h', l_swap_node h l r = Some h' /\ Ring h' (r :: a ++ l :: b) /\
    Frame h h' (l :: a ++ r :: b) /\ (forall x, live h' x <-> live h x).
Proof.
  intros R Ha Hb. apply (swap__same_ring h [l] a [r] b R); auto; discriminate.
Qed.

Lemma swap_node_two_rings h l a r b :
  Ring h (l :: a) -> Ring h (r :: b) -> Soup h [l :: a; r :: b] -> a <> [] -> b <> [] ->
  exists h', l_swap_node h l r = Some h' /\ Ring h' (r :: a) /\ Ring h' (l :: b) /\
    Frame h h' ((l :: a) ++ r :: b) /\ (forall x, live h' x <-> live h x).
Proof.
  intros Ra Rb S Ha Hb. apply (swap__two_rings h [l] a [r] b Ra Rb S); auto; discriminate.
Qed.

(* swapping a node with itself changes nothing that matters *)
Lemma swap_node_self h l xs :
  Ring h (l :: xs) ->
  exists h', l_swap_node h l l = Some h' /\ Ring h' (l :: xs) /\
    Frame h h' (l :: xs) /\ (forall x, live h' x <-> live h x).
Proof.
  intros R. destruct xs as [|x xs].
  - (* ring of one node: four times link(l,l) *)
    pose proof (Ring_next h [] l [] R) as En. pose proof (Ring_prev h [] l [] R) as Ep. cbn [hd last] in *.
    destruct (link_self h l R) as (h1 & E1 & R1 & F1).
    destruct (link_self h1 l R1) as (h2 & E2 & R2 & F2).
    destruct (link_self h2 l R2) as (h3 & E3 & R3 & F3).
    destruct (link_self h3 l R3) as (h4 & E4 & R4 & F4).
    exists h4. split; [|split; [exact R4|split]].
    + unfold l_swap_node, l_swap_, l_add_. rewrite En, Ep, E1. cbn beta iota. rewrite E2. cbn beta iota.
      rewrite E3. exact E4.
    + intros y Hy. rewrite F4, F3, F2, F1; auto.
    + intros y. unfold live. destruct (N.eq_dec y l) as [->|Hn].
      * split; intros _; eapply Ring_live; eauto; left; reflexivity.
      * rewrite F4, F3, F2, F1; simpl; try tauto; intros [H|[]]; congruence.
  - (* a -> l -> c with a = last, c = x: link(a,l); link(l,c) twice: the same values again *)
    assert (En : rd_next h l = Some x) by (apply (Ring_next h [] l (x :: xs) R)).
    assert (Ep : rd_prev h l = Some (last (x :: xs) l)) by (apply (Ring_prev h [] l (x :: xs) R)).
    set (z := last (x :: xs) l) in *.
    (* pieces: [l] and x :: xs, ring order  l :: x :: xs *)
    assert (S0 : Soup h [x :: xs; [l]]).
    { apply (Soup_perm h [[l]; x :: xs]); [perm_tac|]. apply (Soup_split h [l] (x :: xs)). apply Ring_Soup. exact R. }
    assert (Hz : z = last (x :: xs) 0).
    { unfold z. destruct (snoc_cases (x :: xs)) as [H|(m & y & ->)]; [discriminate|]. rewrite !last_last. reflexivity. }
    assert (Hx : x :: xs <> []) by discriminate. assert (Hl : [l] <> []) by discriminate.
    destruct (Soup_join_exec h (x :: xs) [l] [] S0 Hx Hl) as (h1 & L1 & S1 & P1).
    destruct (Soup_close_exec h1 ((x :: xs) ++ [l]) [] S1) as (h2 & L2 & S2 & Ed2 & P2); [discriminate|].
    rewrite last_last in L2, P2, Ed2. cbn [hd app] in L1, L2, P1, P2, Ed2. rewrite <- Hz in L1, P1.
    assert (R2 : Ring h2 ((x :: xs) ++ [l])).
    { apply (Ring_intro _ _ 0); auto; [discriminate|]. rewrite last_last. exact Ed2. }
    (* second round: the ring is already in place *)
    assert (S2' : Soup h2 [x :: xs; [l]]) by (apply (Soup_split h2 (x :: xs) [l]); exact S2).
    destruct (Soup_join_exec h2 (x :: xs) [l] [] S2' Hx Hl) as (h3 & L3 & S3 & P3).
    destruct (Soup_close_exec h3 ((x :: xs) ++ [l]) [] S3) as (h4 & L4 & S4 & Ed4 & P4); [discriminate|].
    rewrite last_last in L4, P4, Ed4. cbn [hd app] in L3, L4, P3, P4, Ed4. rewrite <- Hz in L3, P3.
    exists h4. split; [|split; [|split]].
    + unfold l_swap_node, l_swap_, l_add_. rewrite En, Ep, L1. cbn beta iota. rewrite L2. cbn beta iota.
      rewrite L3. exact L4.
    + apply (Ring_rot h4 (x :: xs) [l]). apply (Ring_intro _ _ 0); auto; [discriminate|].
      rewrite last_last. exact Ed4.
    + assert (Iz : In z (l :: x :: xs)) by (right; rewrite Hz; apply in_last; discriminate).
      assert (Il : In l (l :: x :: xs)) by (left; reflexivity).
      assert (Ix : In x (l :: x :: xs)) by (right; left; reflexivity).
      intros y Hy.
      rewrite (LinkPost_Frame_in _ _ _ _ _ P4 Il Ix y Hy), (LinkPost_Frame_in _ _ _ _ _ P3 Iz Il y Hy),
              (LinkPost_Frame_in _ _ _ _ _ P2 Il Ix y Hy), (LinkPost_Frame_in _ _ _ _ _ P1 Iz Il y Hy).
      reflexivity.
    + intros y. rewrite (lp_live _ _ _ _ P4), (lp_live _ _ _ _ P3), (lp_live _ _ _ _ P2). apply (lp_live _ _ _ _ P1).
Qed.
