(* C05 - proofs about the pointer-level model of include/a/list.h.

   Vocabulary
     edge h a b     : a->next = b and b->prev = a           (the two links agree)
     Seg h l        : every two consecutive nodes of l form an edge
     Piece h l      : Seg h l and every node of l exists    (a detached section: inner links intact)
     Soup h ps      : the pieces ps are pairwise disjoint, without repetition, each a Piece
     Ring h l       : l is a Piece, without repetition, and  last l -> first l  is an edge too
   Every a_list_* function is a sequence of a_list_link calls; a link whose source is the last node of
   a piece and whose target is the first node of a piece cannot destroy an inner edge of any piece of a
   soup (Soup_join / Soup_close / Soup_link), which is what makes the operations compositional. *)
From Coq Require Import NArith List FMapPositive Lia Permutation.
From LibaV Require Import C05.DListDefs.
Import ListNotations.
Local Open Scope N_scope.

(* ------------------------------------------------------------------ list helpers *)
Lemma NoDup_app_l {A} (l1 l2 : list A) : NoDup (l1 ++ l2) -> NoDup l1.
Proof.
  induction l1 as [|a l1 IH]; simpl; intros N; [constructor|].
  inversion N; subst. constructor; auto. intros H. apply H1. apply in_or_app. auto.
Qed.

Lemma NoDup_app_r {A} (l1 l2 : list A) : NoDup (l1 ++ l2) -> NoDup l2.
Proof. induction l1 as [|a l1 IH]; simpl; intros N; auto. inversion N; auto. Qed.

Lemma Perm_Forall {A} (P : A -> Prop) l l' : Permutation l l' -> Forall P l -> Forall P l'.
Proof.
  intros Pm F. rewrite Forall_forall in *. intros x Hx. apply F.
  eapply Permutation_in; [symmetry; exact Pm|exact Hx].
Qed.

(* ------------------------------------------------------------------ heap *)
Lemma dget_dset_same h a n : a <> 0 -> dget (dset h a n) a = Some n.
Proof. destruct a; [congruence|]; intros _; apply PositiveMap.gss. Qed.

Lemma dget_dset_other h a b n : a <> b -> dget (dset h a n) b = dget h b.
Proof.
  destruct a, b; simpl; intros; try reflexivity; try congruence.
  apply PositiveMap.gso. congruence.
Qed.

Definition live (h : dheap) (a : id) : Prop := exists n, dget h a = Some n.

Lemma live_nz h a : live h a -> a <> 0.
Proof. intros [n H] ->. discriminate. Qed.

Lemma rd_next_live h a b : rd_next h a = Some b -> live h a.
Proof. unfold rd_next, live. destruct (dget h a); [eauto|discriminate]. Qed.
Lemma rd_prev_live h a b : rd_prev h a = Some b -> live h a.
Proof. unfold rd_prev, live. destruct (dget h a); [eauto|discriminate]. Qed.

(* a node is determined by its two fields *)
Lemma dget_ext h h' x :
  rd_next h' x = rd_next h x -> rd_prev h' x = rd_prev h x -> dget h' x = dget h x.
Proof.
  unfold rd_next, rd_prev. destruct (dget h' x) as [[a b]|], (dget h x) as [[c d]|]; simpl; congruence.
Qed.

Record WrPost (h : dheap) (h' : dheap) : Prop := { wp_live : forall x, live h' x <-> live h x }.

Lemma wr_next_spec h a v : live h a ->
  exists h', wr_next h a v = Some h' /\ rd_next h' a = Some v /\ rd_prev h' a = rd_prev h a /\
             (forall x, x <> a -> dget h' x = dget h x) /\ (forall x, live h' x <-> live h x).
Proof.
  intros L. pose proof (live_nz _ _ L) as NZ. destruct L as [n Hn].
  unfold wr_next. rewrite Hn. eexists; split; [reflexivity|].
  unfold rd_next, rd_prev, live. rewrite dget_dset_same, Hn by assumption. simpl.
  repeat split; try reflexivity.
  - intros x Hx. apply dget_dset_other. congruence.
  - destruct (N.eq_dec x a) as [->|Hx].
    + rewrite dget_dset_same by assumption. eauto.
    + rewrite dget_dset_other by congruence. auto.
  - destruct (N.eq_dec x a) as [->|Hx].
    + rewrite dget_dset_same by assumption. eauto.
    + rewrite dget_dset_other by congruence. auto.
Qed.

Lemma wr_prev_spec h a v : live h a ->
  exists h', wr_prev h a v = Some h' /\ rd_prev h' a = Some v /\ rd_next h' a = rd_next h a /\
             (forall x, x <> a -> dget h' x = dget h x) /\ (forall x, live h' x <-> live h x).
Proof.
  intros L. pose proof (live_nz _ _ L) as NZ. destruct L as [n Hn].
  unfold wr_prev. rewrite Hn. eexists; split; [reflexivity|].
  unfold rd_next, rd_prev, live. rewrite dget_dset_same, Hn by assumption. simpl.
  repeat split; try reflexivity.
  - intros x Hx. apply dget_dset_other. congruence.
  - destruct (N.eq_dec x a) as [->|Hx].
    + rewrite dget_dset_same by assumption. eauto.
    + rewrite dget_dset_other by congruence. auto.
  - destruct (N.eq_dec x a) as [->|Hx].
    + rewrite dget_dset_same by assumption. eauto.
    + rewrite dget_dset_other by congruence. auto.
Qed.

(* what a_list_link(a, b) leaves behind *)
Record LinkPost (h : dheap) (a b : id) (h' : dheap) : Prop := {
  lp_next : rd_next h' a = Some b;
  lp_prev : rd_prev h' b = Some a;
  lp_next_other : forall x, x <> a -> rd_next h' x = rd_next h x;
  lp_prev_other : forall y, y <> b -> rd_prev h' y = rd_prev h y;
  lp_live : forall x, live h' x <-> live h x }.

Lemma rd_next_dget h h' x : dget h' x = dget h x -> rd_next h' x = rd_next h x.
Proof. unfold rd_next. intros ->. reflexivity. Qed.
Lemma rd_prev_dget h h' x : dget h' x = dget h x -> rd_prev h' x = rd_prev h x.
Proof. unfold rd_prev. intros ->. reflexivity. Qed.

Lemma link_spec h a b : live h a -> live h b ->
  exists h', l_link h a b = Some h' /\ LinkPost h a b h'.
Proof.
  intros La Lb. unfold l_link.
  destruct (wr_next_spec h a b La) as (h1 & E1 & N1 & P1 & O1 & L1). rewrite E1.
  assert (Lb1 : live h1 b) by (apply L1; exact Lb).
  destruct (wr_prev_spec h1 b a Lb1) as (h2 & E2 & P2 & N2 & O2 & L2). rewrite E2.
  eexists; split; [reflexivity|]. constructor.
  - destruct (N.eq_dec a b) as [->|Hab]; [rewrite N2; exact N1|].
    rewrite (rd_next_dget h1 h2) by (apply O2; congruence). exact N1.
  - exact P2.
  - intros x Hx. destruct (N.eq_dec x b) as [->|Hxb].
    + rewrite N2. apply rd_next_dget, O1. exact Hx.
    + rewrite (rd_next_dget h1 h2) by (apply O2; exact Hxb). apply rd_next_dget, O1. exact Hx.
  - intros y Hy. rewrite (rd_prev_dget h1 h2) by (apply O2; exact Hy).
    destruct (N.eq_dec y a) as [->|Hya]; [exact P1|]. apply rd_prev_dget, O1. exact Hya.
  - intros x. rewrite L2. apply L1.
Qed.

(* a_list_init(c): c becomes a ring of its own *)
Lemma init_spec h c : live h c ->
  exists h', l_init h c = Some h' /\ LinkPost h c c h'.
Proof.
  intros Lc. unfold l_init.
  destruct (wr_next_spec h c c Lc) as (h1 & E1 & N1 & P1 & O1 & L1). rewrite E1.
  assert (Lc1 : live h1 c) by (apply L1; exact Lc).
  destruct (wr_prev_spec h1 c c Lc1) as (h2 & E2 & P2 & N2 & O2 & L2). rewrite E2.
  eexists; split; [reflexivity|]. constructor.
  - rewrite N2. exact N1.
  - exact P2.
  - intros x Hx. rewrite (rd_next_dget h1 h2) by (apply O2; exact Hx). apply rd_next_dget, O1, Hx.
  - intros x Hx. rewrite (rd_prev_dget h1 h2) by (apply O2; exact Hx). apply rd_prev_dget, O1, Hx.
  - intros x. rewrite L2. apply L1.
Qed.

(* ------------------------------------------------------------------ edges, segments *)
Definition edge (h : dheap) (a b : id) : Prop := rd_next h a = Some b /\ rd_prev h b = Some a.

Fixpoint Seg (h : dheap) (l : list id) : Prop :=
  match l with
  | a :: (b :: _) as t => edge h a b /\ Seg h t
  | _ => True
  end.

Lemma edge_live_l h a b : edge h a b -> live h a.
Proof. intros [H _]. eapply rd_next_live; eauto. Qed.
Lemma edge_live_r h a b : edge h a b -> live h b.
Proof. intros [_ H]. eapply rd_prev_live; eauto. Qed.

Lemma edge_new h a b h' : LinkPost h a b h' -> edge h' a b.
Proof. intros P. split; [apply (lp_next _ _ _ _ P)|apply (lp_prev _ _ _ _ P)]. Qed.

Lemma edge_old h a b h' x y : LinkPost h a b h' -> x <> a -> y <> b -> edge h x y -> edge h' x y.
Proof.
  intros P Hx Hy [E1 E2]. split.
  - rewrite (lp_next_other _ _ _ _ P) by exact Hx. exact E1.
  - rewrite (lp_prev_other _ _ _ _ P) by exact Hy. exact E2.
Qed.

Lemma Seg_cons_inv h a l : Seg h (a :: l) -> Seg h l.
Proof. destruct l; simpl; tauto. Qed.

Lemma Seg_app_iff h l1 x l2 : Seg h (l1 ++ x :: l2) <-> Seg h (l1 ++ [x]) /\ Seg h (x :: l2).
Proof.
  induction l1 as [|a l1 IH]; simpl.
  - tauto.
  - destruct l1 as [|b l1]; simpl in *.
    + tauto.
    + rewrite IH. tauto.
Qed.

Lemma Seg_app_l h l1 l2 : Seg h (l1 ++ l2) -> Seg h l1.
Proof.
  destruct l2 as [|x l2]; [rewrite app_nil_r; auto|].
  rewrite Seg_app_iff. intros [H _]. clear l2.
  induction l1 as [|a l1 IH]; simpl in *; auto.
  destruct l1 as [|b l1]; simpl in *; auto. tauto.
Qed.

Lemma Seg_app_r h l1 l2 : Seg h (l1 ++ l2) -> Seg h l2.
Proof. induction l1; simpl; auto. intros H. apply IHl1. eapply Seg_cons_inv; eauto. Qed.

(* the edge across the seam of l1 ++ [a] ++ b :: l2 *)
Lemma Seg_mid_edge h l1 a b l2 : Seg h (l1 ++ a :: b :: l2) -> edge h a b.
Proof. intros H. apply Seg_app_r in H. simpl in H. tauto. Qed.

Lemma Seg_link_old h a b h' l :
  LinkPost h a b h' -> Seg h l -> ~ In a (removelast l) -> ~ In b (tl l) -> Seg h' l.
Proof.
  intros P. induction l as [|x l IH]; simpl; auto.
  destruct l as [|y l]; auto.
  intros [E S] Ha Hb. split.
  - apply (edge_old _ _ _ _ _ _ P); auto.
    + intros ->. apply Ha. left. reflexivity.
    + intros ->. apply Hb. left. reflexivity.
  - apply IH; auto.
    + intros H. apply Ha. right. exact H.
    + intros H. apply Hb. right. simpl in H. exact H.
Qed.

(* ------------------------------------------------------------------ pieces and soups *)
Definition Piece (h : dheap) (l : list id) : Prop := Seg h l /\ Forall (live h) l.
Definition Soup (h : dheap) (ps : list (list id)) : Prop := NoDup (concat ps) /\ Forall (Piece h) ps.

Lemma Piece_nil h : Piece h [].
Proof. split; simpl; auto. Qed.

Lemma Piece_single h a : live h a -> Piece h [a].
Proof. split; simpl; auto. Qed.

Lemma Piece_app_inv h l1 l2 : Piece h (l1 ++ l2) -> Piece h l1 /\ Piece h l2.
Proof.
  intros [S F]. apply Forall_app in F. destruct F.
  repeat split; eauto using Seg_app_l, Seg_app_r.
Qed.

Lemma Permutation_concat {A} (l l' : list (list A)) :
  Permutation l l' -> Permutation (concat l) (concat l').
Proof.
  induction 1; simpl; auto.
  - apply Permutation_app_head. assumption.
  - rewrite !app_assoc. apply Permutation_app_tail. apply Permutation_app_comm.
  - eapply perm_trans; eauto.
Qed.

Lemma Soup_perm h ps ps' : Permutation ps ps' -> Soup h ps -> Soup h ps'.
Proof.
  intros P [N F]. split.
  - eapply Permutation_NoDup; [apply Permutation_concat; exact P|exact N].
  - eapply Perm_Forall; eauto.
Qed.

Lemma Soup_split h p1 p2 r : Soup h ((p1 ++ p2) :: r) -> Soup h (p1 :: p2 :: r).
Proof.
  intros [N F]. split.
  - simpl in *. rewrite app_assoc. exact N.
  - inversion F; subst. destruct (Piece_app_inv _ _ _ H1). auto.
Qed.

Lemma Soup_drop h p r : Soup h (p :: r) -> Soup h r.
Proof.
  intros [N F]. split.
  - simpl in N. apply NoDup_app_r in N. exact N.
  - inversion F; auto.
Qed.

Lemma Soup_nil_add h r : Soup h r -> Soup h ([] :: r).
Proof. intros [N F]. split; simpl; auto using Piece_nil. Qed.

Lemma NoDup_app_disj {A} (l1 l2 : list A) x : NoDup (l1 ++ l2) -> In x l1 -> In x l2 -> False.
Proof.
  induction l1 as [|a l1 IH]; simpl; intros N H1 H2; [tauto|].
  inversion N; subst. destruct H1 as [->|H1].
  - apply H3. apply in_or_app. right. exact H2.
  - eauto.
Qed.

Lemma in_removelast {A} (l : list A) x : In x (removelast l) -> In x l.
Proof.
  induction l as [|a l IH]; simpl; auto. destruct l; simpl in *; [tauto|].
  intros [->|H]; auto.
Qed.

Lemma in_tl {A} (l : list A) x : In x (tl l) -> In x l.
Proof. destruct l; simpl; auto. Qed.

Lemma NoDup_last_not_removelast {A} (l : list A) a : NoDup (l ++ [a]) -> ~ In a (removelast (l ++ [a])).
Proof.
  rewrite removelast_last. intros N H. eapply NoDup_app_disj; eauto. left. reflexivity.
Qed.

Lemma NoDup_concat_in {A} (ps : list (list A)) p : NoDup (concat ps) -> In p ps -> NoDup p.
Proof.
  induction ps as [|q ps IH]; simpl; [tauto|].
  intros N [->|H].
  - eapply NoDup_app_l; eauto.
  - apply IH; auto. eapply NoDup_app_r; eauto.
Qed.

(* two different positions of a soup never share a node *)
Lemma NoDup_concat_disj {A} (ps1 ps2 : list (list A)) p q x :
  NoDup (concat (ps1 ++ p :: ps2)) -> In q (ps1 ++ ps2) -> In x p -> In x q -> False.
Proof.
  intros N Hq Hp Hxq.
  assert (P : Permutation (ps1 ++ p :: ps2) (p :: ps1 ++ ps2)) by (symmetry; apply Permutation_middle).
  apply Permutation_concat in P. eapply Permutation_NoDup in N; [|exact P]. simpl in N.
  eapply NoDup_app_disj; eauto. apply in_concat. eauto.
Qed.

(* A link from the last node of the first piece to the first node of the second piece: every piece of
   the soup survives (no inner edge has that source or that target). *)
Lemma Soup_link h h' pa a b qb r :
  Soup h ((pa ++ [a]) :: (b :: qb) :: r) -> LinkPost h a b h' -> Soup h' ((pa ++ [a]) :: (b :: qb) :: r).
Proof.
  intros [N F] P. split; [exact N|].
  assert (Hsrc : forall p, In p ((pa ++ [a]) :: (b :: qb) :: r) -> ~ In a (removelast p)).
  { intros p Hp Ha. destruct Hp as [<-|Hp].
    - revert Ha. apply NoDup_last_not_removelast. eapply NoDup_concat_in; eauto. left; reflexivity.
    - apply in_removelast in Ha.
      eapply (NoDup_concat_disj [] ((b :: qb) :: r) (pa ++ [a]) p a); eauto.
      apply in_or_app. right. left. reflexivity. }
  assert (Htgt : forall p, In p ((pa ++ [a]) :: (b :: qb) :: r) -> ~ In b (tl p)).
  { intros p Hp Hb. destruct Hp as [<-|[<-|Hp]].
    - apply in_tl in Hb.
      eapply (NoDup_concat_disj [] ((b :: qb) :: r) (pa ++ [a]) (b :: qb) b); eauto; simpl; auto.
    - simpl in Hb. assert (ND : NoDup (b :: qb)) by (eapply NoDup_concat_in; eauto; simpl; auto).
      inversion ND; auto.
    - apply in_tl in Hb.
      eapply (NoDup_concat_disj [pa ++ [a]] r (b :: qb) p b); eauto; simpl; auto. }
  rewrite Forall_forall in *. intros p Hp. destruct (F p Hp) as [S L]. split.
  - eapply Seg_link_old; eauto.
  - rewrite Forall_forall in *. intros x Hx. apply (lp_live _ _ _ _ P). auto.
Qed.

(* ... and the two pieces are now one *)
Lemma Soup_join h h' pa a b qb r :
  Soup h ((pa ++ [a]) :: (b :: qb) :: r) -> LinkPost h a b h' -> Soup h' ((pa ++ a :: b :: qb) :: r).
Proof.
  intros S P. pose proof (Soup_link _ _ _ _ _ _ _ S P) as [N F]. split.
  - simpl in *. rewrite <- app_assoc in N. simpl in N. rewrite <- app_assoc. exact N.
  - inversion F as [|? ? [S1 L1] F1]; subst. inversion F1 as [|? ? [S2 L2] F2]; subst.
    constructor; auto. split.
    + apply Seg_app_iff. split; auto. simpl. split; auto. eapply edge_new; eauto.
    + apply Forall_app in L1. destruct L1 as [L1 La]. apply Forall_app. split; auto.
      inversion La; subst. constructor; auto.
Qed.

(* A link from the last node of a piece to its own first node *)
Lemma Soup_close h h' a p b r :
  Soup h ((a :: p ++ [b]) :: r) -> LinkPost h b a h' -> Soup h' ((a :: p ++ [b]) :: r).
Proof.
  intros [N F] P. split; [exact N|].
  assert (ND : NoDup (a :: p ++ [b])) by (eapply NoDup_concat_in; eauto; simpl; auto).
  rewrite Forall_forall in *. intros q Hq. destruct (F q Hq) as [S L]. split.
  - eapply Seg_link_old; eauto.
    + intros Hb. destruct Hq as [<-|Hq].
      * revert Hb. change (a :: p ++ [b]) with ((a :: p) ++ [b]).
        apply NoDup_last_not_removelast. exact ND.
      * apply in_removelast in Hb.
        eapply (NoDup_concat_disj [] r (a :: p ++ [b]) q b); eauto.
        change (a :: p ++ [b]) with ((a :: p) ++ [b]). apply in_or_app. right. left. reflexivity.
    + intros Ha. destruct Hq as [<-|Hq].
      * simpl in Ha. inversion ND; auto.
      * apply in_tl in Ha. eapply (NoDup_concat_disj [] r (a :: p ++ [b]) q a); eauto. left; reflexivity.
  - rewrite Forall_forall in *. intros x Hx. apply (lp_live _ _ _ _ P). auto.
Qed.

(* the same for a one-node piece: link(a,a) *)
Lemma Soup_close1 h h' a r :
  Soup h ([a] :: r) -> LinkPost h a a h' -> Soup h' ([a] :: r).
Proof.
  intros [N F] P. split; [exact N|].
  rewrite Forall_forall in *. intros q Hq. destruct (F q Hq) as [S L]. split.
  - eapply Seg_link_old; eauto.
    + intros Hb. destruct Hq as [<-|Hq]; [simpl in Hb; tauto|].
      apply in_removelast in Hb. eapply (NoDup_concat_disj [] r [a] q a); eauto. left; reflexivity.
    + intros Ha. destruct Hq as [<-|Hq]; [simpl in Ha; tauto|].
      apply in_tl in Ha. eapply (NoDup_concat_disj [] r [a] q a); eauto. left; reflexivity.
  - rewrite Forall_forall in *. intros x Hx. apply (lp_live _ _ _ _ P). auto.
Qed.

(* an edge between two nodes that are neither the source nor the target of the link survives *)
Lemma Soup_frame h h' ps : Soup h ps ->
  (forall x, rd_next h' x = rd_next h x) -> (forall x, rd_prev h' x = rd_prev h x) -> Soup h' ps.
Proof.
  intros [N F] Hn Hp. split; auto. rewrite Forall_forall in *. intros p Hp'. destruct (F p Hp') as [S L].
  split.
  - clear L Hp' F N. induction p as [|a p IH]; simpl in *; auto. destruct p as [|b p]; auto.
    destruct S as [[E1 E2] S]. split; [split; [rewrite Hn|rewrite Hp]; auto|auto].
  - rewrite Forall_forall in *. intros x Hx. destruct (L x Hx) as [n Hn'].
    unfold live. rewrite (dget_ext h h' x); eauto.
Qed.

(* ------------------------------------------------------------------ rings *)
(* a :: l is a ring: no repetition, consecutive nodes linked both ways, and last -> first too *)
Definition Ring (h : dheap) (l : list id) : Prop :=
  match l with
  | [] => False
  | a :: t => Soup h [l] /\ edge h (last t a) a
  end.

Lemma Ring_NoDup h l : Ring h l -> NoDup l.
Proof. destruct l; simpl; [tauto|]. intros [[N _] _]. simpl in N. rewrite app_nil_r in N. exact N. Qed.

Lemma Ring_Soup h l : Ring h l -> Soup h [l].
Proof. destruct l; simpl; tauto. Qed.

Lemma Ring_live h l x : Ring h l -> In x l -> live h x.
Proof.
  intros R Hx. apply Ring_Soup in R. destruct R as [_ F]. inversion F; subst.
  destruct H1 as [_ L]. rewrite Forall_forall in L. auto.
Qed.

Lemma Ring_single h a : live h a -> edge h a a -> Ring h [a].
Proof.
  intros L E. simpl. split; auto. split; simpl; [repeat constructor; simpl; tauto|].
  constructor; auto. apply Piece_single; auto.
Qed.

Lemma last_app_single {A} (l : list A) a d : last (l ++ [a]) d = a.
Proof. apply last_last. Qed.

Lemma Ring_snoc_form h a p b : Ring h (a :: p ++ [b]) <-> Soup h [a :: p ++ [b]] /\ edge h b a.
Proof. simpl. rewrite last_last. tauto. Qed.

Lemma Ring_single_form h a : Ring h [a] <-> Soup h [[a]] /\ edge h a a.
Proof. simpl. tauto. Qed.


(* ------------------------------------------------------------------ hd / last forms *)
Lemma snoc_cases {A} (l : list A) : l = [] \/ exists m z, l = m ++ [z].
Proof.
  induction l as [|a l IH]; [left; reflexivity|right].
  destruct IH as [->|(m & z & ->)].
  - exists [], a. reflexivity.
  - exists (a :: m), z. reflexivity.
Qed.

Lemma hd_app_nonnil {A} (l1 l2 : list A) d : l1 <> [] -> hd d (l1 ++ l2) = hd d l1.
Proof. destruct l1; simpl; congruence. Qed.

Lemma last_app_nonnil {A} (l1 l2 : list A) d : l2 <> [] -> last (l1 ++ l2) d = last l2 d.
Proof.
  intros H. destruct (snoc_cases l2) as [->|(m & z & ->)]; [congruence|].
  rewrite app_assoc, !last_last. reflexivity.
Qed.

Lemma last_cons_default {A} (l : list A) a d : last (a :: l) d = last l a.
Proof.
  revert a d. induction l as [|b l IH]; intros a d; [reflexivity|].
  change (last (a :: b :: l) d) with (last (b :: l) d). rewrite (IH b d), (IH b a). reflexivity.
Qed.

Lemma in_last {A} (l : list A) d : l <> [] -> In (last l d) l.
Proof.
  intros H. destruct (snoc_cases l) as [->|(m & z & ->)]; [congruence|].
  rewrite last_last. apply in_or_app. right. left. reflexivity.
Qed.

Lemma in_hd {A} (l : list A) d : l <> [] -> In (hd d l) l.
Proof. destruct l; simpl; [congruence|auto]. Qed.

Lemma Soup_live h ps p x : Soup h ps -> In p ps -> In x p -> live h x.
Proof.
  intros [_ F] Hp Hx. rewrite Forall_forall in F. destruct (F p Hp) as [_ L].
  rewrite Forall_forall in L. auto.
Qed.

Lemma Soup_join' h h' p q r d :
  Soup h (p :: q :: r) -> p <> [] -> q <> [] ->
  LinkPost h (last p d) (hd d q) h' -> Soup h' ((p ++ q) :: r).
Proof.
  intros S Hp Hq P.
  destruct (snoc_cases p) as [->|(m & z & ->)]; [congruence|].
  destruct q as [|b q]; [congruence|].
  rewrite last_last in P. simpl in P. rewrite <- app_assoc. simpl.
  eapply Soup_join; eauto.
Qed.

Lemma Soup_close' h h' p r d :
  Soup h (p :: r) -> p <> [] -> LinkPost h (last p d) (hd d p) h' -> Soup h' (p :: r).
Proof.
  intros S Hp P. destruct p as [|a p]; [congruence|].
  destruct (snoc_cases p) as [->|(m & z & ->)].
  - simpl in P. eapply Soup_close1; eauto.
  - simpl hd in P. change (a :: m ++ [z]) with ((a :: m) ++ [z]) in P. rewrite last_last in P.
    eapply Soup_close; eauto.
Qed.

(* a link between the end of one piece and the start of another leaves the whole soup intact *)
Lemma Soup_link' h h' p q r d :
  Soup h (p :: q :: r) -> p <> [] -> q <> [] ->
  LinkPost h (last p d) (hd d q) h' -> Soup h' (p :: q :: r).
Proof.
  intros S Hp Hq P.
  destruct (snoc_cases p) as [->|(m & z & ->)]; [congruence|].
  destruct q as [|b q]; [congruence|].
  rewrite last_last in P. simpl in P. eapply Soup_link; eauto.
Qed.

(* ------------------------------------------------------------------ more on rings *)
Lemma Ring_nonnil h l : Ring h l -> l <> [].
Proof. destruct l; simpl; [tauto|congruence]. Qed.

Lemma Ring_intro h l d : Soup h [l] -> l <> [] -> edge h (last l d) (hd d l) -> Ring h l.
Proof.
  intros S Hl E. destruct l as [|a t]; [congruence|]. simpl. split; auto.
  rewrite last_cons_default in E. exact E.
Qed.

Lemma Ring_wrap h l d : Ring h l -> edge h (last l d) (hd d l).
Proof.
  destruct l as [|a t]; simpl; [tauto|]. intros [_ E].
  destruct t as [|b t]; [exact E|]. 
  change (last (a :: b :: t) d) with (last (b :: t) d).
  rewrite last_cons_default. rewrite last_cons_default in E. exact E.
Qed.

Lemma Ring_Seg h l : Ring h l -> Seg h l.
Proof. intros R. apply Ring_Soup in R. destruct R as [_ F]. inversion F; subst. apply H1. Qed.

Lemma Ring_iff_Seg h a t :
  Ring h (a :: t) <-> NoDup (a :: t) /\ Forall (live h) (a :: t) /\ Seg h (a :: t ++ [a]).
Proof.
  split.
  - intros R. pose proof (Ring_NoDup _ _ R). pose proof (Ring_Seg _ _ R) as S.
    pose proof (Ring_wrap _ _ a R) as E. simpl hd in E. rewrite last_cons_default in E.
    repeat split; auto.
    + rewrite Forall_forall. intros x Hx. eapply Ring_live; eauto.
    + destruct (snoc_cases t) as [->|(m & z & ->)].
      * simpl in *. tauto.
      * rewrite last_last in E. rewrite <- app_assoc. cbn [app].
        change (a :: m ++ [z; a]) with ((a :: m) ++ z :: [a]). apply Seg_app_iff. split; auto.
        simpl. tauto.
  - intros (N & L & S). simpl. split.
    + split; [simpl; rewrite app_nil_r; exact N|]. constructor; auto. split; auto.
      change (a :: t ++ [a]) with ((a :: t) ++ [a]) in S. eapply Seg_app_l; eauto.
    + destruct (snoc_cases t) as [->|(m & z & ->)].
      * simpl in *. tauto.
      * rewrite last_last. rewrite <- app_assoc in S. cbn [app] in S.
        change (a :: m ++ [z; a]) with ((a :: m) ++ z :: [a]) in S. apply Seg_app_iff in S.
        simpl in S. tauto.
Qed.

Lemma Ring_rot1 h a t : Ring h (a :: t) -> Ring h (t ++ [a]).
Proof.
  intros R. destruct t as [|b t]; [exact R|].
  apply Ring_iff_Seg in R. destruct R as (N & L & S).
  simpl app. apply Ring_iff_Seg. repeat split.
  - change (b :: t ++ [a]) with ((b :: t) ++ [a]).
    eapply Permutation_NoDup; [|exact N]. 
    change (a :: b :: t) with ([a] ++ (b :: t)). apply Permutation_app_comm.
  - change (b :: t ++ [a]) with ((b :: t) ++ [a]). apply Forall_app. inversion L; subst. auto.
  - simpl in S. destruct S as [E S].
    replace (b :: (t ++ [a]) ++ [b]) with ((b :: t) ++ a :: [b])
      by (cbn [app]; rewrite <- app_assoc; reflexivity).
    apply Seg_app_iff. split; [exact S|]. simpl. tauto.
Qed.

Lemma Ring_rot h l1 l2 : Ring h (l1 ++ l2) -> Ring h (l2 ++ l1).
Proof.
  revert l2. induction l1 as [|a l1 IH]; intros l2 R.
  - rewrite app_nil_r. exact R.
  - simpl in R. apply Ring_rot1 in R. rewrite <- app_assoc in R. apply IH in R.
    rewrite <- app_assoc in R. exact R.
Qed.

(* reading the fields of a node of a ring *)
Lemma Ring_edge_mid h l1 a b l2 : Ring h (l1 ++ a :: b :: l2) -> edge h a b.
Proof. intros R. apply Ring_Seg in R. eapply Seg_mid_edge; eauto. Qed.

Lemma Ring_next h l1 a l2 : Ring h (l1 ++ a :: l2) -> rd_next h a = Some (hd (hd a l1) l2).
Proof.
  intros R. destruct l2 as [|b l2].
  - simpl. apply (Ring_rot h l1 [a]) in R. simpl in R.
    destruct l1 as [|c l1]; simpl.
    + apply Ring_single_form in R. apply R.
    + apply (Ring_edge_mid h [] a c l1) in R. apply R.
  - simpl. apply Ring_edge_mid in R. apply R.
Qed.

Lemma Ring_prev h l1 a l2 : Ring h (l1 ++ a :: l2) -> rd_prev h a = Some (last l1 (last l2 a)).
Proof.
  intros R. destruct (snoc_cases l1) as [->|(m & z & ->)].
  - simpl. pose proof (Ring_wrap _ _ a R) as E. simpl in E.
    destruct l2 as [|b l2]; [apply E|].
    rewrite last_cons_default. change (last (a :: b :: l2) a) with (last (b :: l2) a) in E.
    rewrite last_cons_default in E. apply E.
  - rewrite last_last. rewrite <- app_assoc in R. simpl in R. apply Ring_edge_mid in R. apply R.
Qed.

(* ------------------------------------------------------------------ frames *)
Definition Frame (h h' : dheap) (S : list id) : Prop := forall x, ~ In x S -> dget h' x = dget h x.

Lemma LinkPost_frame h a b h' : LinkPost h a b h' -> Frame h h' [a; b].
Proof.
  intros P x Hx. apply dget_ext.
  - apply (lp_next_other _ _ _ _ P). intros ->. apply Hx. simpl; auto.
  - apply (lp_prev_other _ _ _ _ P). intros ->. apply Hx. simpl; auto.
Qed.

Lemma Frame_refl h S : Frame h h S.
Proof. intros x _. reflexivity. Qed.

Lemma Frame_trans h h1 h2 S1 S2 : Frame h h1 S1 -> Frame h1 h2 S2 -> Frame h h2 (S1 ++ S2).
Proof.
  intros F1 F2 x Hx. rewrite F2, F1; auto; intros H; apply Hx; apply in_or_app; auto.
Qed.

Lemma Frame_incl h h' S S' : Frame h h' S -> incl S S' -> Frame h h' S'.
Proof. intros F I x Hx. apply F. intros H. apply Hx. apply I. exact H. Qed.

Lemma Seg_same h h' l : (forall x, In x l -> dget h' x = dget h x) -> Seg h l -> Seg h' l.
Proof.
  induction l as [|a l IH]; intros Same Sg; [exact I|].
  destruct l as [|b l]; [exact I|]. destruct Sg as [[E1 E2] Sg]. split.
  - split.
    + rewrite (rd_next_dget h h'); [exact E1|]. apply Same. left; reflexivity.
    + rewrite (rd_prev_dget h h'); [exact E2|]. apply Same. right; left; reflexivity.
  - apply IH; [|exact Sg]. intros x Hx. apply Same. right. exact Hx.
Qed.

Lemma Soup_Frame h h' S ps :
  Soup h ps -> Frame h h' S -> (forall x, In x (concat ps) -> ~ In x S) -> Soup h' ps.
Proof.
  intros [N F] Fr D. split; auto. rewrite Forall_forall in *. intros p Hp.
  destruct (F p Hp) as [Sg L].
  assert (Same : forall x, In x p -> dget h' x = dget h x).
  { intros x Hx. apply Fr. apply D. apply in_concat. eauto. }
  split.
  - eapply Seg_same; eauto.
  - rewrite Forall_forall in *. intros x Hx. unfold live. rewrite Same; auto. apply L; auto.
Qed.

Lemma edge_Frame h h' S a b : edge h a b -> Frame h h' S -> ~ In a S -> ~ In b S -> edge h' a b.
Proof.
  intros [E1 E2] F Ha Hb. split.
  - rewrite (rd_next_dget h h'); auto.
  - rewrite (rd_prev_dget h h'); auto.
Qed.

(* a ring none of whose nodes is in the footprint of an operation is untouched *)
Lemma Ring_Frame h h' S l : Ring h l -> Frame h h' S -> (forall x, In x l -> ~ In x S) -> Ring h' l.
Proof.
  intros R F D. destruct l as [|a t]; [exact R|]. destruct R as [Sp E]. split.
  - eapply Soup_Frame; eauto. simpl. intros x. rewrite app_nil_r. apply D.
  - eapply edge_Frame; eauto; apply D.
    + destruct t; [left; reflexivity|]. right. apply in_last. congruence.
    + left; reflexivity.
Qed.
