(* C05 - executable pointer-level model of include/a/slist.h (singly linked list with tail).
   NO proofs in this file.

   A list object lives at an address L: its embedded head node is at the same address (field
   `next` of address L is head.next) and its `tail` field is kept in a second map.  A plain node
   only has a `next` field.  0 is the null pointer; every access is checked (None = fault).

   a_slist_rot is modelled WITH the repair of proposed_fixes/C05-1 (guard `node && node->next`);
   [s_rot_orig] keeps the body as found, for the refutation lemma and the defect replay. *)
From Coq Require Import NArith List FMapPositive.
From LibaV Require Import C05.DListDefs.
Import ListNotations.
Local Open Scope N_scope.

Record sworld := mkS { s_next : PositiveMap.t id;    (* node address (or list address: head) -> next *)
                       s_tail : PositiveMap.t id }.  (* list address -> tail *)

Definition pget (m : PositiveMap.t id) (a : id) : option id :=
  match a with 0 => None | Npos p => PositiveMap.find p m end.
Definition pset (m : PositiveMap.t id) (a v : id) : PositiveMap.t id :=
  match a with 0 => m | Npos p => PositiveMap.add p v m end.

Definition s_rd (w : sworld) (a : id) : option id := pget (s_next w) a.
Definition s_wr (w : sworld) (a v : id) : option sworld :=
  match pget (s_next w) a with
  | Some _ => Some (mkS (pset (s_next w) a v) (s_tail w)) | None => None end.
Definition t_rd (w : sworld) (l : id) : option id := pget (s_tail w) l.
Definition t_wr (w : sworld) (l v : id) : option sworld :=
  match pget (s_tail w) l with
  | Some _ => Some (mkS (s_next w) (pset (s_tail w) l v)) | None => None end.

(* a_slist_ctor / init / dtor:  ctx->head.next = NULL; ctx->tail = &ctx->head; *)
Definition s_ctor (w : sworld) (l : id) : option sworld :=
  do w1 <- s_wr w l 0; t_wr w1 l l.

(* a_slist_add:  if (!prev->next) ctx->tail = node;  link(node, prev->next);  link(prev, node); *)
Definition s_add (w : sworld) (l prev node : id) : option sworld :=
  do pn <- s_rd w prev;
  do w1 <- (if N.eqb pn 0 then t_wr w l node else Some w);
  do pn' <- s_rd w1 prev;
  do w2 <- s_wr w1 node pn';
  s_wr w2 prev node.

(* a_slist_add_head:  add(ctx, &ctx->head, node) *)
Definition s_add_head (w : sworld) (l node : id) : option sworld := s_add w l l node.

(* a_slist_add_tail:  link(ctx->tail, node);  node->next = NULL;  ctx->tail = node; *)
Definition s_add_tail (w : sworld) (l node : id) : option sworld :=
  do t <- t_rd w l;
  do w1 <- s_wr w t node;
  do w2 <- s_wr w1 node 0;
  t_wr w2 l node.

(* a_slist_del:  node = prev->next;  if (node) { link(prev, node->next); if (!node->next) ctx->tail = prev; } *)
Definition s_del (w : sworld) (l prev : id) : option sworld :=
  do node <- s_rd w prev;
  if N.eqb node 0 then Some w
  else
    do nn <- s_rd w node;
    do w1 <- s_wr w prev nn;
    do nn' <- s_rd w1 node;
    if N.eqb nn' 0 then t_wr w1 l prev else Some w1.

(* a_slist_del_head: the same with prev = &ctx->head *)
Definition s_del_head (w : sworld) (l : id) : option sworld :=
  do node <- s_rd w l;
  if N.eqb node 0 then Some w
  else
    do nn <- s_rd w node;
    do w1 <- s_wr w l nn;
    do nn' <- s_rd w1 node;
    if N.eqb nn' 0 then t_wr w1 l l else Some w1.

(* a_slist_mov:  node = ctx->head.next;
     if (node) { if (!at->next) to->tail = ctx->tail;  link(ctx->tail, at->next);  link(at, node); } *)
Definition s_mov (w : sworld) (l to pos : id) : option sworld :=
  do node <- s_rd w l;
  if N.eqb node 0 then Some w
  else
    do an <- s_rd w pos;
    do w1 <- (if N.eqb an 0 then (do t <- t_rd w l; t_wr w to t) else Some w);
    do t <- t_rd w1 l;
    do an' <- s_rd w1 pos;
    do w2 <- s_wr w1 t an';
    s_wr w2 pos node.

(* the four statements of the body of a_slist_rot *)
Definition s_rot_body (w : sworld) (l node : id) : option sworld :=
  do nn <- s_rd w node;
  do w1 <- s_wr w l nn;              (* link(&ctx->head, node->next) *)
  do t <- t_rd w1 l;
  do w2 <- s_wr w1 t node;           (* link(ctx->tail, node) *)
  do w3 <- s_wr w2 node 0;           (* node->next = NULL *)
  t_wr w3 l node.                    (* ctx->tail = node *)

(* a_slist_rot as repaired:  if (node && node->next) { body } *)
Definition s_rot (w : sworld) (l : id) : option sworld :=
  do node <- s_rd w l;
  if N.eqb node 0 then Some w
  else
    do nn <- s_rd w node;
    if N.eqb nn 0 then Some w else s_rot_body w l node.

(* a_slist_rot as found in the pinned tree:  if (node) { body } *)
Definition s_rot_orig (w : sworld) (l : id) : option sworld :=
  do node <- s_rd w l;
  if N.eqb node 0 then Some w else s_rot_body w l node.

Inductive sop :=
| SCtor (l : id) | SAdd (l prev node : id) | SAddHead (l node : id) | SAddTail (l node : id)
| SDel (l prev : id) | SDelHead (l : id) | SMov (l to pos : id) | SRot (l : id).

Definition s_step (w : sworld) (o : sop) : option sworld :=
  match o with
  | SCtor l => s_ctor w l | SAdd l p n => s_add w l p n | SAddHead l n => s_add_head w l n
  | SAddTail l n => s_add_tail w l n | SDel l p => s_del w l p | SDelHead l => s_del_head w l
  | SMov l t a => s_mov w l t a | SRot l => s_rot w l
  end.

Fixpoint s_run (w : sworld) (os : list sop) : option sworld :=
  match os with
  | [] => Some w
  | o :: r => do w1 <- s_step w o; s_run w1 r
  end.

(* two list objects at addresses 1 and 2 (constructed), n plain nodes at 3..n+2 with next = NULL *)
Fixpoint s_nodes (n : nat) (m : PositiveMap.t id) : PositiveMap.t id :=
  match n with
  | O => m
  | S k => pset (s_nodes k m) (N.of_nat n + 2) 0
  end.
Definition s_world (n : nat) : sworld :=
  mkS (s_nodes n (pset (pset (PositiveMap.empty id) 1 0) 2 0))
      (pset (pset (PositiveMap.empty id) 1 1) 2 2).

(* observation: the nodes hanging on a list, by following next until NULL (bounded) *)
Fixpoint s_walk (w : sworld) (cur : id) (fuel : nat) : option (list id) :=
  match fuel with
  | O => None
  | S f => if N.eqb cur 0 then Some []
           else do n <- s_rd w cur; do r <- s_walk w n f; Some (cur :: r)
  end.
Definition s_list_of (w : sworld) (l : id) (fuel : nat) : option (list id) :=
  do n <- s_rd w l; s_walk w n fuel.
