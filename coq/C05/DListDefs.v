(* C05 - executable pointer-level model of include/a/list.h (circular doubly linked list).
   NO proofs in this file.

   Addresses are numbers (N); 0 is the null pointer.  The heap maps the address of every node
   that exists to its two pointer fields.  Every field access is checked: reading or writing a
   field of an address that is not in the heap (null included) makes the operation fail with
   None, it never silently succeeds.  Each a_list_* function is the sequence of field reads and
   writes of the C body, in the C's order. *)
From Coq Require Import NArith List FMapPositive.
Import ListNotations.
Local Open Scope N_scope.

Definition id := N.

Record dnode := mkD { nxt : id; prv : id }.
Definition dheap := PositiveMap.t dnode.

Definition dget (h : dheap) (a : id) : option dnode :=
  match a with 0 => None | Npos p => PositiveMap.find p h end.
Definition dset (h : dheap) (a : id) (n : dnode) : dheap :=
  match a with 0 => h | Npos p => PositiveMap.add p n h end.
Definition ddel (h : dheap) (a : id) : dheap :=
  match a with 0 => h | Npos p => PositiveMap.remove p h end.

Notation "'do' x <- e ; f" := (match e with Some x => f | None => None end)
  (at level 200, x name, e at level 100, f at level 200, right associativity).

Definition rd_next (h : dheap) (a : id) : option id :=
  match dget h a with Some n => Some (nxt n) | None => None end.
Definition rd_prev (h : dheap) (a : id) : option id :=
  match dget h a with Some n => Some (prv n) | None => None end.
Definition wr_next (h : dheap) (a v : id) : option dheap :=
  match dget h a with Some n => Some (dset h a (mkD v (prv n))) | None => None end.
Definition wr_prev (h : dheap) (a v : id) : option dheap :=
  match dget h a with Some n => Some (dset h a (mkD (nxt n) v)) | None => None end.

(* a_list_ctor / a_list_init / a_list_dtor :  ctx->prev = ctx->next = ctx; *)
Definition l_init (h : dheap) (c : id) : option dheap :=
  do h1 <- wr_next h c c; wr_prev h1 c c.

(* a_list_link:  head->next = tail; tail->prev = head; *)
Definition l_link (h : dheap) (a b : id) : option dheap :=
  do h1 <- wr_next h a b; wr_prev h1 b a.

(* a_list_loop:  head->prev = tail; tail->next = head; *)
Definition l_loop (h : dheap) (a b : id) : option dheap :=
  do h1 <- wr_prev h a b; wr_next h1 b a.

(* a_list_add_:  link(tail1, head2); link(tail2, head1); *)
Definition l_add_ (h : dheap) (h1 t1 h2 t2 : id) : option dheap :=
  do x <- l_link h t1 h2; l_link x t2 h1.

Definition l_add_node (h : dheap) (hd tl n : id) : option dheap := l_add_ h hd tl n n.

(* a_list_add_next:  add_(ctx->next, ctx, node, node) *)
Definition l_add_next (h : dheap) (c n : id) : option dheap :=
  do x <- rd_next h c; l_add_ h x c n n.

(* a_list_add_prev:  add_(ctx, ctx->prev, node, node) *)
Definition l_add_prev (h : dheap) (c n : id) : option dheap :=
  do x <- rd_prev h c; l_add_ h c x n n.

(* a_list_del_:  link(head->prev, tail->next) *)
Definition l_del_ (h : dheap) (hd tl : id) : option dheap :=
  do p <- rd_prev h hd; do n <- rd_next h tl; l_link h p n.

Definition l_del_node (h : dheap) (n : id) : option dheap := l_del_ h n n.
Definition l_del_next (h : dheap) (n : id) : option dheap := do x <- rd_next h n; l_del_ h x x.
Definition l_del_prev (h : dheap) (n : id) : option dheap := do x <- rd_prev h n; l_del_ h x x.

(* a_list_set_:  add_(tail1->next, head1->prev, head2, tail2) *)
Definition l_set_ (h : dheap) (h1 t1 h2 t2 : id) : option dheap :=
  do a <- rd_next h t1; do b <- rd_prev h h1; l_add_ h a b h2 t2.

Definition l_set_node (h : dheap) (c r : id) : option dheap :=
  do a <- rd_next h c; do b <- rd_prev h c; l_add_ h a b r r.

(* a_list_mov_next:  add_(ctx->next, ctx, rhs->next, rhs->prev) *)
Definition l_mov_next (h : dheap) (c r : id) : option dheap :=
  do a <- rd_next h c; do b <- rd_next h r; do d <- rd_prev h r; l_add_ h a c b d.

(* a_list_mov_prev:  add_(ctx, ctx->prev, rhs->next, rhs->prev) *)
Definition l_mov_prev (h : dheap) (c r : id) : option dheap :=
  do a <- rd_prev h c; do b <- rd_next h r; do d <- rd_prev h r; l_add_ h c a b d.

(* a_list_rot_next:  node = ctx->prev; del_(node,node); add_(ctx->next, ctx, node, node) *)
Definition l_rot_next (h : dheap) (c : id) : option dheap :=
  do n <- rd_prev h c; do h1 <- l_del_ h n n; do x <- rd_next h1 c; l_add_ h1 x c n n.

(* a_list_rot_prev:  node = ctx->next; del_(node,node); add_(ctx, ctx->prev, node, node) *)
Definition l_rot_prev (h : dheap) (c : id) : option dheap :=
  do n <- rd_next h c; do h1 <- l_del_ h n n; do x <- rd_prev h1 c; l_add_ h1 c x n n.

(* a_list_swap_:  head = tail2->next, tail = head2->prev;
                  add_(tail1->next, head1->prev, head2, tail2); add_(head, tail, head1, tail1) *)
Definition l_swap_ (h : dheap) (h1 t1 h2 t2 : id) : option dheap :=
  do hd <- rd_next h t2; do tl <- rd_prev h h2;
  do a <- rd_next h t1; do b <- rd_prev h h1;
  do x <- l_add_ h a b h2 t2; l_add_ x hd tl h1 t1.

Definition l_swap_node (h : dheap) (l r : id) : option dheap := l_swap_ h l l r r.

(* ---- one operation of a history (what the correspondence drivers execute) ---- *)
Inductive lop :=
| LInit (c : id) | LLink (a b : id) | LLoop (a b : id)
| LAdd_ (h1 t1 h2 t2 : id) | LAddNode (hd tl n : id) | LAddNext (c n : id) | LAddPrev (c n : id)
| LDel_ (hd tl : id) | LDelNode (n : id) | LDelNext (n : id) | LDelPrev (n : id)
| LSet_ (h1 t1 h2 t2 : id) | LSetNode (c r : id)
| LMovNext (c r : id) | LMovPrev (c r : id) | LRotNext (c : id) | LRotPrev (c : id)
| LSwap_ (h1 t1 h2 t2 : id) | LSwapNode (l r : id).

Definition l_step (h : dheap) (o : lop) : option dheap :=
  match o with
  | LInit c => l_init h c | LLink a b => l_link h a b | LLoop a b => l_loop h a b
  | LAdd_ a b c d => l_add_ h a b c d | LAddNode a b c => l_add_node h a b c
  | LAddNext c n => l_add_next h c n | LAddPrev c n => l_add_prev h c n
  | LDel_ a b => l_del_ h a b | LDelNode n => l_del_node h n
  | LDelNext n => l_del_next h n | LDelPrev n => l_del_prev h n
  | LSet_ a b c d => l_set_ h a b c d | LSetNode c r => l_set_node h c r
  | LMovNext c r => l_mov_next h c r | LMovPrev c r => l_mov_prev h c r
  | LRotNext c => l_rot_next h c | LRotPrev c => l_rot_prev h c
  | LSwap_ a b c d => l_swap_ h a b c d | LSwapNode l r => l_swap_node h l r
  end.

Fixpoint l_run (h : dheap) (os : list lop) : option dheap :=
  match os with
  | [] => Some h
  | o :: r => do h1 <- l_step h o; l_run h1 r
  end.

(* n nodes at addresses 1..n, every one constructed (a ring of its own) *)
Fixpoint l_world (n : nat) : dheap :=
  match n with
  | O => PositiveMap.empty dnode
  | S k => let a := N.of_nat n in dset (l_world k) a (mkD a a)
  end.

(* ---- observation: walk a ring from a head (bounded; used for the abstraction and the dumps) ---- *)
(* the nodes met following `next` from [cur] until [stop] is reached; None when a field access
   faults or the bound is exhausted (broken ring) *)
Fixpoint walk_next (h : dheap) (stop cur : id) (fuel : nat) : option (list id) :=
  match fuel with
  | O => None
  | S f => if N.eqb cur stop then Some []
           else do n <- rd_next h cur; do r <- walk_next h stop n f; Some (cur :: r)
  end.
Fixpoint walk_prev (h : dheap) (stop cur : id) (fuel : nat) : option (list id) :=
  match fuel with
  | O => None
  | S f => if N.eqb cur stop then Some []
           else do n <- rd_prev h cur; do r <- walk_prev h stop n f; Some (cur :: r)
  end.

(* the sequence hanging on a head (the head itself excluded), forwards *)
Definition ring_of (h : dheap) (hd : id) (fuel : nat) : option (list id) :=
  do n <- rd_next h hd; walk_next h hd n fuel.
Definition ring_of_back (h : dheap) (hd : id) (fuel : nat) : option (list id) :=
  do n <- rd_prev h hd; walk_prev h hd n fuel.
