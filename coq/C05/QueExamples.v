(* C05 - non-vacuity: a concrete history satisfies the hypotheses of run_refines (QueProofs.v), and
   what the theorem then says about it can be computed. *)
From Coq Require Import NArith ZArith List Bool FMapPositive Lia.
From LibaV Require Import C05.DListDefs C05.DListProofs C05.QueDefs C05.QueSpec C05.QueProofs.
Import ListNotations.
Local Open Scope N_scope.

Definition ex_hist : list qop :=
  [QPushBack false 1%Z; QPushBack false 2%Z; QPushFore true 5%Z; QSwapElem 3 4; QSwap false true;
   QPullFore true; QPushBack true 7%Z; QInsert true 1 9%Z; QAt true (-1)%Z].

Example ex_hist_pre : hist_pre q_world0 ex_hist.
Proof. vm_compute. intuition auto. Qed.

(* the model's run of that history: queue A ends with the single element of B, queue B holds the
   swapped elements; node 4 is handed out again only after it had been pulled *)
Example ex_hist_run :
  exists w', q_run q_world0 ex_hist = Ok (w', [3; 4; 5; 0; 0; 4; 4; 6; 4]%Z) /\
             ring_of (w_h w') 1 (fuel_of w') = Some [5] /\
             ring_of (w_h w') 2 (fuel_of w') = Some [3; 6; 4].
Proof.
  destruct (q_run q_world0 ex_hist) as [[w' rs]| |] eqn:E; try (vm_compute in E; discriminate).
  exists w'. assert (Hrs : rs = [3; 4; 5; 0; 0; 4; 4; 6; 4]%Z) by (vm_compute in E; inversion E; reflexivity).
  subst rs. split; [reflexivity|]. vm_compute in E. inversion E; subst. split; vm_compute; reflexivity.
Qed.
