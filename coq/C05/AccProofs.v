(* C05 - what the accessors, alias entry points and iteration macros of AccDefs.v return when the
   representation invariants hold (these are the values the model driver prints and the C driver
   compares the C functions / macros with after every operation). *)
From Coq Require Import NArith ZArith List Bool FMapPositive Lia.
From LibaV Require Import C05.DListDefs C05.DListProofs C05.DListSpec C05.DListRunProofs C05.DListObsProofs.
From LibaV Require Import C05.SListDefs C05.SListProofs C05.SListSpec C05.SListRunProofs.
From LibaV Require Import C05.QueDefs C05.QueSpec C05.QueProofs C05.AccDefs.
Import ListNotations.
Local Open Scope N_scope.

(* ================================================================== que.h *)
(* a_que_fore_ / a_que_back_ read one field of the sentinel: the first / last node of the ring, the
   sentinel itself when the ring is empty *)
Lemma fore__spec w X s : QInv w X -> q_fore_ w s = Ok (hd (qaddr s) (sel s X)).
Proof.
  intros I. unfold q_fore_. rewrite (Ring_next (w_h w) [] (qaddr s) (sel s X) (qi_ring _ _ I s)). reflexivity.
Qed.

Lemma back__spec w X s : QInv w X -> q_back_ w s = Ok (last (sel s X) (qaddr s)).
Proof.
  intros I. unfold q_back_. rewrite (Ring_prev (w_h w) [] (qaddr s) (sel s X) (qi_ring _ _ I s)). reflexivity.
Qed.

Lemma in_last_cons {A} (t : list A) x : In (last t x) (x :: t).
Proof.
  revert x. induction t as [|a t IH]; intros x; [left; reflexivity|].
  rewrite last_cons_default. right. apply IH.
Qed.

(* non-empty queue (the documented precondition): the unchecked accessors return the first / last
   element of the abstract sequence, they agree with the checked a_que_fore / a_que_back, and the
   drivers' e= token shows both *)
Theorem ends_nonempty w X s x t :
  QInv w X -> sel s X = x :: t ->
  q_fore_ w s = Ok x /\ q_back_ w s = Ok (last t x) /\
  q_fore w s = Ok x /\ q_back w s = Ok (last t x) /\
  q_ends w s = Ok (Some x, Some (last t x)).
Proof.
  intros I E. pose proof (fore__spec w X s I) as F. pose proof (back__spec w X s I) as B.
  rewrite E in F, B. cbn [hd] in F. rewrite last_cons_default in B.
  pose proof (Ring_NoDup _ _ (qi_ring _ _ I s)) as N. rewrite E in N.
  assert (Hx : N.eqb x (qaddr s) = false).
  { apply N.eqb_neq. intros ->. inversion N; subst. apply H1. left. reflexivity. }
  assert (Hl : N.eqb (last t x) (qaddr s) = false).
  { apply N.eqb_neq. intros Hq. inversion N; subst. apply H1. rewrite <- Hq. apply in_last_cons. }
  split; [exact F|]. split; [exact B|].
  unfold q_ends, q_fore, q_back. unfold q_fore_, q_back_ in *.
  destruct (rd_next (w_h w) (qaddr s)) as [n|]; [|discriminate]. cbn [lift] in F. injection F as ->.
  destruct (rd_prev (w_h w) (qaddr s)) as [p|]; [|discriminate]. cbn [lift] in B. injection B as ->.
  cbn [lift]. rewrite Hx, Hl. repeat split; reflexivity.
Qed.

(* empty queue: the checked accessors return NULL, the drivers do not call the unchecked ones *)
Theorem ends_empty w X s :
  QInv w X -> sel s X = [] ->
  q_fore w s = Ok 0 /\ q_back w s = Ok 0 /\ q_ends w s = Ok (None, None).
Proof.
  intros I E. pose proof (fore__spec w X s I) as F. pose proof (back__spec w X s I) as B.
  rewrite E in F, B. cbn [hd last] in F, B.
  unfold q_ends, q_fore, q_back. unfold q_fore_, q_back_ in *.
  destruct (rd_next (w_h w) (qaddr s)) as [n|]; [|discriminate]. cbn [lift] in F. injection F as ->.
  destruct (rd_prev (w_h w) (qaddr s)) as [p|]; [|discriminate]. cbn [lift] in B. injection B as ->.
  cbn [lift]. rewrite N.eqb_refl. repeat split; reflexivity.
Qed.

(* a_que_foreach / A_QUE_FOREACH visit the abstract sequence, the _reverse variants its reverse *)
Theorem que_each_spec w X s :
  QInv w X -> q_each w s = Some (sel s X) /\ q_each_rev w s = Some (rev (sel s X)).
Proof.
  intros I. destruct (inv_facts w X I) as (F & B & _). split; [apply F|apply B].
Qed.

(* a_que_die + a_que_new on a queue object is a_que_dtor + a_que_ctor on it *)
Lemma die_new_is_reset w s size : q_die_new w s size = q_reset w s size.
Proof. reflexivity. Qed.

(* ================================================================== list.h *)
(* the alias entry points make the node a ring of its own and touch nothing else *)
Theorem list_ctor_dtor_ring h c :
  live h c ->
  (exists h', l_ctor h c = Some h' /\ Ring h' [c] /\ Frame h h' [c] /\ (forall x, live h' x <-> live h x)) /\
  (exists h', l_dtor h c = Some h' /\ Ring h' [c] /\ Frame h h' [c] /\ (forall x, live h' x <-> live h x)) /\
  l_ctor h c = l_init h c /\ l_dtor h c = l_init h c.
Proof.
  intros L. split; [exact (init_ring h c L)|]. split; [exact (init_ring h c L)|]. split; reflexivity.
Qed.

(* the four _next iteration macros visit the abstract ring from ctx forwards, the four _prev
   macros backwards; ctx itself is not visited *)
Theorem list_each_spec h a c xs fuel :
  DInv h a -> In (c :: xs) (fst a) -> (length xs < fuel)%nat ->
  l_each_next h c fuel = Some xs /\ l_each_prev h c fuel = Some (rev xs).
Proof.
  intros I Hin Hf. destruct (DInv_observed h a c xs fuel I Hin Hf) as (F & B & _).
  split; [exact F|exact B].
Qed.

(* ================================================================== slist.h *)
Theorem slist_init_dtor_spec w L :
  s_rd w L <> None -> t_rd w L <> None ->
  (exists w', s_init w L = Some w' /\ Slist w' L [] /\
     (forall x, x <> L -> s_rd w' x = s_rd w x) /\ (forall l, l <> L -> t_rd w' l = t_rd w l)) /\
  (exists w', s_dtor w L = Some w' /\ Slist w' L [] /\
     (forall x, x <> L -> s_rd w' x = s_rd w x) /\ (forall l, l <> L -> t_rd w' l = t_rd w l)) /\
  s_init w L = s_ctor w L /\ s_dtor w L = s_ctor w L.
Proof.
  intros Hs Ht. split; [exact (ctor_spec w L Hs Ht)|]. split; [exact (ctor_spec w L Hs Ht)|].
  split; reflexivity.
Qed.

(* a_slist_link writes head->next and nothing else; it faults on a node that does not exist *)
Theorem slist_link_spec w a b :
  s_rd w a <> None ->
  exists w', s_link w a b = Some w' /\ s_rd w' a = Some b /\
    (forall x, x <> a -> s_rd w' x = s_rd w x) /\ (forall l, t_rd w' l = t_rd w l).
Proof. exact (s_wr_spec w a b). Qed.

Lemma slist_link_fault w a b : s_rd w a = None -> s_link w a b = None.
Proof. unfold s_link, s_wr, s_rd. intros ->. reflexivity. Qed.

(* linking a node to the successor it already has changes nothing (the only use of a bare link the
   abstract slist machine accepts; the check's valid histories contain it) *)
Lemma slist_link_noop w a b : s_rd w a = Some b -> a <> 0 -> exists w', s_link w a b = Some w' /\
  (forall x, s_rd w' x = s_rd w x) /\ (forall l, t_rd w' l = t_rd w l).
Proof.
  intros E Ha. destruct (s_wr_spec w a b) as (w' & E' & Na & O & T); [rewrite E; discriminate|].
  exists w'. split; [exact E'|]. split; [|exact T].
  intros x. destruct (N.eq_dec x a) as [->|Hx]; [rewrite Na, E; reflexivity|apply O; exact Hx].
Qed.

(* the four iteration macros visit the abstract sequence *)
Theorem slist_each_spec w a L xs fuel :
  SInv w a -> In (L, xs) (sa_lists a) -> (length xs < fuel)%nat -> s_each w L fuel = Some xs.
Proof. intros I Hin Hf. apply (SInv_observed w a L xs fuel I Hin Hf). Qed.

(* ================================================================== non-vacuity *)
(* world3 of QueProofs.v (three pushes on A) satisfies the hypotheses of ends_nonempty (A) and of
   ends_empty (B); the values are the ones the drivers print:  A: e=3/5   B: e=-/-  *)
Example ends_world3 :
  q_ends world3 false = Ok (Some 3, Some 5) /\ q_ends world3 true = Ok (None, None) /\
  q_each world3 false = Some [3; 4; 5] /\ q_each_rev world3 false = Some [5; 4; 3].
Proof.
  destruct (ends_nonempty world3 ([3; 4; 5], []) false 3 [4; 5] world3_inv eq_refl) as (_ & _ & _ & _ & E).
  destruct (ends_empty world3 ([3; 4; 5], []) true world3_inv eq_refl) as (_ & _ & E').
  destruct (que_each_spec world3 ([3; 4; 5], []) false world3_inv) as (F & B).
  repeat split; assumption.
Qed.
