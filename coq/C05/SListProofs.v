(* C05 - proofs about the pointer-level model of include/a/slist.h.

   Slist w L xs : the list object at address L holds exactly the nodes xs, in this order:
     following next from the embedded head visits xs and ends in NULL, no node is repeated,
     and the tail field designates the last node (the head itself when xs is empty). *)
From Coq Require Import NArith List FMapPositive Lia Permutation.
From LibaV Require Import C05.DListDefs C05.DListProofs C05.SListDefs.
Import ListNotations.
Local Open Scope N_scope.

(* ------------------------------------------------------------------ the two maps *)
Lemma pget_pset_same m a v : a <> 0 -> pget (pset m a v) a = Some v.
Proof. destruct a; [congruence|]. intros _. apply PositiveMap.gss. Qed.
Lemma pget_pset_other m a b v : a <> b -> pget (pset m a v) b = pget m b.
Proof. destruct a, b; simpl; intros; try reflexivity; try congruence. apply PositiveMap.gso. congruence. Qed.

Lemma s_wr_spec w a v : s_rd w a <> None ->
  exists w', s_wr w a v = Some w' /\ s_rd w' a = Some v /\ (forall x, x <> a -> s_rd w' x = s_rd w x) /\
             (forall l, t_rd w' l = t_rd w l).
Proof.
  unfold s_rd, s_wr, t_rd. intros H. destruct (pget (s_next w) a) eqn:E; [|congruence].
  assert (a <> 0) by (intros ->; discriminate).
  eexists; split; [reflexivity|]. cbn [s_next s_tail]. split; [apply pget_pset_same; auto|].
  split; [intros x Hx; apply pget_pset_other; congruence|reflexivity].
Qed.

Lemma t_wr_spec w l v : t_rd w l <> None ->
  exists w', t_wr w l v = Some w' /\ t_rd w' l = Some v /\ (forall x, x <> l -> t_rd w' x = t_rd w x) /\
             (forall x, s_rd w' x = s_rd w x).
Proof.
  unfold s_rd, t_wr, t_rd. intros H. destruct (pget (s_tail w) l) eqn:E; [|congruence].
  assert (l <> 0) by (intros ->; discriminate).
  eexists; split; [reflexivity|]. cbn [s_next s_tail]. split; [apply pget_pset_same; auto|].
  split; [intros x Hx; apply pget_pset_other; congruence|reflexivity].
Qed.

(* ------------------------------------------------------------------ representation *)
Fixpoint SSeg (w : sworld) (l : list id) : Prop :=
  match l with
  | a :: (b :: _) as t => s_rd w a = Some b /\ SSeg w t
  | _ => True
  end.

Record Slist (w : sworld) (L : id) (xs : list id) : Prop := {
  sl_nodup : NoDup (L :: xs);
  sl_nonnull : ~ In 0 (L :: xs);
  sl_seg : SSeg w (L :: xs);
  sl_end : s_rd w (last xs L) = Some 0;
  sl_tail : t_rd w L = Some (last xs L) }.

Lemma SSeg_app_iff w l1 x l2 : SSeg w (l1 ++ x :: l2) <-> SSeg w (l1 ++ [x]) /\ SSeg w (x :: l2).
Proof.
  induction l1 as [|a l1 IH]; simpl; [tauto|]. destruct l1 as [|b l1]; simpl in *; [tauto|]. rewrite IH. tauto.
Qed.

Lemma SSeg_same w w' l : (forall x, In x (removelast l) -> s_rd w' x = s_rd w x) -> SSeg w l -> SSeg w' l.
Proof.
  induction l as [|a l IH]; intros H S; [exact I|]. destruct l as [|b l]; [exact I|]. destruct S as [E S]. split.
  - rewrite H; [exact E|left; reflexivity].
  - apply IH; [|exact S]. intros x Hx. apply H. right. exact Hx.
Qed.

(* every node of the list (and the head) has a next field *)
Lemma Slist_rd w L xs x : Slist w L xs -> In x (L :: xs) -> s_rd w x <> None.
Proof.
  intros S Hx. pose proof (sl_seg _ _ _ S) as Sg. pose proof (sl_end _ _ _ S) as En.
  assert (G : forall l d, SSeg w l -> s_rd w (last l d) = Some 0 -> In x l -> s_rd w x <> None).
  { induction l as [|a l IH]; intros d Sg' En' Hin; [destruct Hin|].
    destruct l as [|b l].
    - destruct Hin as [<-|[]]. simpl in En'. congruence.
    - destruct Sg' as [E Sg']. destruct Hin as [<-|Hin]; [congruence|]. apply (IH d); auto. }
  apply (G (L :: xs) L); auto. rewrite last_cons_default. exact En.
Qed.

Lemma Slist_next_mid w L l1 a b l2 : Slist w L (l1 ++ a :: b :: l2) -> s_rd w a = Some b.
Proof.
  intros S. pose proof (sl_seg _ _ _ S) as Sg. change (L :: l1 ++ a :: b :: l2) with ((L :: l1) ++ a :: b :: l2) in Sg.
  apply SSeg_app_iff in Sg. destruct Sg as [_ Sg]. simpl in Sg. tauto.
Qed.

Lemma Slist_next_head w L xs : Slist w L xs -> s_rd w L = Some (hd 0 xs).
Proof.
  intros S. destruct xs as [|a xs]; [apply (sl_end _ _ _ S)|]. pose proof (sl_seg _ _ _ S) as Sg. simpl in Sg. tauto.
Qed.

(* next of the node in front of position |l1| *)
Lemma Slist_next_at w L l1 l2 : Slist w L (l1 ++ l2) -> s_rd w (last l1 L) = Some (hd 0 l2).
Proof.
  intros S. destruct l2 as [|b l2].
  - rewrite app_nil_r in S. apply (sl_end _ _ _ S).
  - destruct (snoc_cases l1) as [->|(m & z & ->)].
    + apply (Slist_next_head w L (b :: l2) S).
    + rewrite last_last. rewrite <- app_assoc in S. apply (Slist_next_mid w L m z b l2 S).
Qed.

Lemma Slist_frame w w' L xs :
  Slist w L xs -> (forall x, In x (L :: xs) -> s_rd w' x = s_rd w x) -> t_rd w' L = t_rd w L -> Slist w' L xs.
Proof.
  intros S Hs Ht. destruct S as [A1 A2 A3 A4 A5]. constructor.
  - exact A1.
  - exact A2.
  - eapply SSeg_same; [|exact A3]. intros x Hx. apply Hs. apply in_removelast. exact Hx.
  - rewrite Hs; [exact A4|]. rewrite <- last_cons_default with (d := 0). apply in_last. discriminate.
  - rewrite Ht. exact A5.
Qed.

Lemma in_last_cons {A} (l : list A) (a : A) : In (last l a) (a :: l).
Proof. rewrite <- last_cons_default with (d := a). apply in_last. discriminate. Qed.

(* ------------------------------------------------------------------ ctor *)
Lemma ctor_spec w L :
  s_rd w L <> None -> t_rd w L <> None ->
  exists w', s_ctor w L = Some w' /\ Slist w' L [] /\
    (forall x, x <> L -> s_rd w' x = s_rd w x) /\ (forall l, l <> L -> t_rd w' l = t_rd w l).
Proof.
  intros Hs Ht. unfold s_ctor.
  destruct (s_wr_spec w L 0 Hs) as (w1 & E1 & N1 & O1 & T1). rewrite E1.
  assert (Ht1 : t_rd w1 L <> None) by (rewrite T1; exact Ht).
  destruct (t_wr_spec w1 L L Ht1) as (w2 & E2 & T2 & O2 & N2). rewrite E2.
  exists w2. split; [reflexivity|].
  assert (HL : L <> 0) by (intros ->; apply Hs; reflexivity).
  split; [|split].
  - constructor; cbn [last].
    + repeat constructor. simpl. tauto.
    + intros [E|[]]. congruence.
    + exact I.
    + rewrite N2. exact N1.
    + exact T2.
  - intros x Hx. rewrite N2. apply O1. exact Hx.
  - intros l Hl. rewrite O2 by exact Hl. apply T1.
Qed.

(* ------------------------------------------------------------------ add / add_head / add_tail *)
Lemma last_app_cons {A} (l1 : list A) a l2 d : last (l1 ++ a :: l2) d = last l2 a.
Proof. rewrite last_app_nonnil by discriminate. apply last_cons_default. Qed.

(* node is linked in behind the node prev = last (L :: l1) *)
Lemma add_spec w L l1 l2 node :
  Slist w L (l1 ++ l2) -> s_rd w node <> None -> node <> 0 -> ~ In node (L :: l1 ++ l2) ->
  exists w', s_add w L (last l1 L) node = Some w' /\ Slist w' L (l1 ++ node :: l2) /\
    (forall x, x <> node -> x <> last l1 L -> s_rd w' x = s_rd w x) /\ (forall l, l <> L -> t_rd w' l = t_rd w l).
Proof.
  intros S Hn Hnz Hnot. unfold s_add. set (prev := last l1 L).
  pose proof (Slist_next_at w L l1 l2 S) as Epn. fold prev in Epn. rewrite Epn.
  assert (Hprev_in : In prev (L :: l1 ++ l2)).
  { unfold prev. pose proof (in_last_cons l1 L) as H. destruct H as [H|H]; [left; exact H|right; apply in_or_app; left; exact H]. }
  assert (Hpn : prev <> node) by (intros E; apply Hnot; rewrite <- E; exact Hprev_in).
  assert (Ht : t_rd w L <> None) by (rewrite (sl_tail _ _ _ S); discriminate).
  (* the tail is moved exactly when prev is the last node *)
  assert (Htail : exists w1, (if N.eqb (hd 0 l2) 0 then t_wr w L node else Some w) = Some w1 /\
            (forall x, s_rd w1 x = s_rd w x) /\ (forall l, l <> L -> t_rd w1 l = t_rd w l) /\
            t_rd w1 L = Some (if N.eqb (hd 0 l2) 0 then node else last (l1 ++ l2) L)).
  { destruct (N.eqb (hd 0 l2) 0) eqn:E0.
    - destruct (t_wr_spec w L node Ht) as (w1 & E1 & T1 & O1 & N1). exists w1. auto.
    - exists w. split; [reflexivity|]. split; [reflexivity|]. split; [reflexivity|]. apply (sl_tail _ _ _ S). }
  destruct Htail as (w1 & E1 & N1 & O1 & T1). rewrite E1.
  rewrite N1, Epn.
  assert (Hn1 : s_rd w1 node <> None) by (rewrite N1; exact Hn).
  destruct (s_wr_spec w1 node (hd 0 l2) Hn1) as (w2 & E2 & N2 & O2 & T2). rewrite E2.
  assert (Hp2 : s_rd w2 prev <> None).
  { rewrite O2 by exact Hpn. rewrite N1, Epn. discriminate. }
  destruct (s_wr_spec w2 prev node Hp2) as (w3 & E3 & N3 & O3 & T3). rewrite E3.
  exists w3. split; [reflexivity|].
  assert (Hold : forall x, x <> node -> x <> prev -> s_rd w3 x = s_rd w x).
  { intros x H1 H2. rewrite O3, O2, N1; auto. }
  split; [|split; [exact Hold|]].
  - pose proof (sl_nodup _ _ _ S) as ND. pose proof (sl_nonnull _ _ _ S) as NZ.
    constructor.
    + change (L :: l1 ++ node :: l2) with ((L :: l1) ++ node :: l2).
      change (L :: l1 ++ l2) with ((L :: l1) ++ l2) in ND, Hnot.
      eapply Permutation_NoDup; [apply Permutation_middle|]. constructor; assumption.
    + intros H. change (L :: l1 ++ node :: l2) with ((L :: l1) ++ node :: l2) in H. apply in_app_or in H.
      destruct H as [H|[H|H]]; [|congruence|]; apply NZ; change (L :: l1 ++ l2) with ((L :: l1) ++ l2); apply in_or_app; auto.
    + (* the chain *)
      pose proof (sl_seg _ _ _ S) as Sg.
      change (L :: l1 ++ node :: l2) with ((L :: l1) ++ node :: l2).
      assert (Hsplit : exists m, L :: l1 = m ++ [prev]).
      { unfold prev. destruct (snoc_cases l1) as [->|(m & z & ->)]; [exists []; reflexivity|].
        exists (L :: m). rewrite last_last. reflexivity. }
      destruct Hsplit as (m & Hm). rewrite Hm, <- app_assoc. cbn [app].
      change (L :: l1 ++ l2) with ((L :: l1) ++ l2) in Sg, ND, Hnot. rewrite Hm in Sg, ND, Hnot.
      apply SSeg_app_iff. split.
      * (* up to prev: untouched *)
        assert (Sg1 : SSeg w (m ++ [prev])).
        { destruct l2 as [|b l2]; [rewrite app_nil_r in Sg; exact Sg|].
          rewrite <- app_assoc in Sg. cbn [app] in Sg. apply SSeg_app_iff in Sg. tauto. }
        eapply SSeg_same; [|exact Sg1]. intros x Hx. rewrite removelast_last in Hx. apply Hold.
        -- intros ->. apply Hnot. apply in_or_app. left. apply in_or_app. left. exact Hx.
        -- intros ->. apply NoDup_app_l in ND. eapply NoDup_app_disj; eauto. left; reflexivity.
      * cbn [SSeg]. split; [exact N3|]. destruct l2 as [|b l2]; [exact I|].
        split.
        -- rewrite O3 by congruence. exact N2.
        -- assert (Sg2 : SSeg w (b :: l2)).
           { rewrite <- app_assoc in Sg. cbn [app] in Sg. apply SSeg_app_iff in Sg. destruct Sg as [_ Sg].
             simpl in Sg. tauto. }
           eapply SSeg_same; [|exact Sg2]. intros x Hx. apply in_removelast in Hx. apply Hold.
           ++ intros ->. apply Hnot. apply in_or_app. right. exact Hx.
           ++ intros ->. eapply NoDup_app_disj; [exact ND| |exact Hx]. apply in_or_app. right. left. reflexivity.
    + rewrite last_app_cons. destruct l2 as [|b l2].
      * cbn [last]. rewrite O3 by congruence. rewrite N2. reflexivity.
      * pose proof (sl_end _ _ _ S) as En. rewrite last_app_cons in En.
        rewrite last_cons_default.
        assert (Hin : In (last l2 b) (b :: l2)) by apply in_last_cons.
        rewrite Hold; [exact En| |].
        -- intros E. apply Hnot. rewrite <- E. right. apply in_or_app. right. exact Hin.
        -- intros E. change (L :: l1 ++ b :: l2) with ((L :: l1) ++ b :: l2) in ND.
           apply (NoDup_app_disj (L :: l1) (b :: l2) prev ND).
           ++ unfold prev. apply in_last_cons.
           ++ rewrite <- E. exact Hin.
    + rewrite T3, T2, T1, last_app_cons. destruct l2 as [|b l2]; cbn [hd].
      * reflexivity.
      * assert (b <> 0).
        { intros ->. apply NZ. right. apply in_or_app. right. left. reflexivity. }
        replace (N.eqb b 0) with false by (symmetry; apply N.eqb_neq; assumption).
        rewrite last_app_cons, last_cons_default. reflexivity.
  - intros l Hl. rewrite T3, T2. apply O1. exact Hl.
Qed.

Lemma add_head_spec w L xs node :
  Slist w L xs -> s_rd w node <> None -> node <> 0 -> ~ In node (L :: xs) ->
  exists w', s_add_head w L node = Some w' /\ Slist w' L (node :: xs) /\
    (forall x, x <> node -> x <> L -> s_rd w' x = s_rd w x) /\ (forall l, l <> L -> t_rd w' l = t_rd w l).
Proof. intros S Hn Hnz Hnot. apply (add_spec w L [] xs node S Hn Hnz Hnot). Qed.

(* pieces of a chain *)
Lemma SSeg_app_l w l1 l2 : SSeg w (l1 ++ l2) -> SSeg w l1.
Proof.
  destruct l2 as [|x l2]; [rewrite app_nil_r; auto|]. rewrite SSeg_app_iff. intros [H _]. clear l2.
  induction l1 as [|a l1 IH]; simpl in *; auto. destruct l1 as [|b l1]; simpl in *; auto. tauto.
Qed.
Lemma SSeg_app_r w l1 l2 : SSeg w (l1 ++ l2) -> SSeg w l2.
Proof.
  induction l1 as [|a l1 IH]; simpl; auto. intros H. apply IH. destruct (l1 ++ l2); simpl in *; tauto.
Qed.

Lemma add_tail_spec w L xs node :
  Slist w L xs -> s_rd w node <> None -> node <> 0 -> ~ In node (L :: xs) ->
  exists w', s_add_tail w L node = Some w' /\ Slist w' L (xs ++ [node]) /\
    (forall x, x <> node -> x <> last xs L -> s_rd w' x = s_rd w x) /\ (forall l, l <> L -> t_rd w' l = t_rd w l).
Proof.
  intros S Hn Hnz Hnot. unfold s_add_tail. rewrite (sl_tail _ _ _ S). set (t := last xs L).
  assert (Hin : In t (L :: xs)) by apply in_last_cons.
  assert (Htn : t <> node) by (intros E; apply Hnot; rewrite <- E; exact Hin).
  assert (Ht : s_rd w t <> None) by (eapply Slist_rd; eauto).
  destruct (s_wr_spec w t node Ht) as (w1 & E1 & N1 & O1 & T1). rewrite E1.
  assert (Hn1 : s_rd w1 node <> None) by (rewrite O1 by congruence; exact Hn).
  destruct (s_wr_spec w1 node 0 Hn1) as (w2 & E2 & N2 & O2 & T2). rewrite E2.
  assert (HtL : t_rd w2 L <> None) by (rewrite T2, T1, (sl_tail _ _ _ S); discriminate).
  destruct (t_wr_spec w2 L node HtL) as (w3 & E3 & T3 & O3 & N3). rewrite E3.
  exists w3. split; [reflexivity|].
  assert (Hold : forall x, x <> node -> x <> t -> s_rd w3 x = s_rd w x).
  { intros x H1 H2. rewrite N3, O2, O1; auto. }
  pose proof (sl_nodup _ _ _ S) as ND. pose proof (sl_nonnull _ _ _ S) as NZ.
  split; [|split; [exact Hold|]].
  - constructor.
    + change (L :: xs ++ [node]) with ((L :: xs) ++ [node]).
      eapply Permutation_NoDup; [apply Permutation_cons_append|]. constructor; assumption.
    + change (L :: xs ++ [node]) with ((L :: xs) ++ [node]). intros H. apply in_app_or in H.
      destruct H as [H|[H|[]]]; [apply NZ; exact H|congruence].
    + change (L :: xs ++ [node]) with ((L :: xs) ++ [node]).
      assert (Hm : exists m, L :: xs = m ++ [t]).
      { unfold t. destruct (snoc_cases xs) as [->|(m & z & ->)]; [exists []; reflexivity|].
        exists (L :: m). rewrite last_last. reflexivity. }
      destruct Hm as (m & Hm). rewrite Hm, <- app_assoc. cbn [app]. apply SSeg_app_iff. split.
      * pose proof (sl_seg _ _ _ S) as Sg. rewrite Hm in Sg, ND, Hnot.
        eapply SSeg_same; [|exact Sg]. intros x Hx. rewrite removelast_last in Hx. apply Hold.
        -- intros ->. apply Hnot. apply in_or_app. left. exact Hx.
        -- intros ->. eapply NoDup_app_disj; eauto. left; reflexivity.
      * cbn [SSeg]. split; [|exact I]. rewrite N3, O2 by congruence. exact N1.
    + rewrite last_last, N3. exact N2.
    + rewrite last_last. exact T3.
  - intros l Hl. rewrite O3 by exact Hl. rewrite T2. apply T1.
Qed.

(* ------------------------------------------------------------------ del / del_head *)
(* the node behind prev = last (L :: l1) is taken out; its own next field is not changed *)
Lemma del_spec w L l1 n l2 :
  Slist w L (l1 ++ n :: l2) ->
  exists w', s_del w L (last l1 L) = Some w' /\ Slist w' L (l1 ++ l2) /\
    (forall x, x <> last l1 L -> s_rd w' x = s_rd w x) /\ (forall l, l <> L -> t_rd w' l = t_rd w l).
Proof.
  intros S. unfold s_del. set (prev := last l1 L).
  pose proof (Slist_next_at w L l1 (n :: l2) S) as Epn. fold prev in Epn. cbn [hd] in Epn. rewrite Epn.
  pose proof (sl_nodup _ _ _ S) as ND. pose proof (sl_nonnull _ _ _ S) as NZ.
  assert (Hn0 : n <> 0) by (intros ->; apply NZ; right; apply in_or_app; right; left; reflexivity).
  replace (N.eqb n 0) with false by (symmetry; apply N.eqb_neq; exact Hn0).
  assert (Enn : s_rd w n = Some (hd 0 l2)).
  { replace (l1 ++ n :: l2) with ((l1 ++ [n]) ++ l2) in S by (rewrite <- app_assoc; reflexivity).
    pose proof (Slist_next_at w L (l1 ++ [n]) l2 S) as H. rewrite last_last in H. exact H. }
  rewrite Enn.
  assert (Hprev_in : In prev (L :: l1)) by apply in_last_cons.
  assert (Hpn : prev <> n).
  { intros E. change (L :: l1 ++ n :: l2) with ((L :: l1) ++ n :: l2) in ND.
    apply (NoDup_app_disj (L :: l1) (n :: l2) n ND); [rewrite <- E; exact Hprev_in|left; reflexivity]. }
  assert (Hp : s_rd w prev <> None) by (rewrite Epn; discriminate).
  destruct (s_wr_spec w prev (hd 0 l2) Hp) as (w1 & E1 & N1 & O1 & T1). rewrite E1.
  rewrite O1 by congruence. rewrite Enn.
  assert (Hfin : exists w2, (if N.eqb (hd 0 l2) 0 then t_wr w1 L prev else Some w1) = Some w2 /\
            (forall x, s_rd w2 x = s_rd w1 x) /\ (forall l, l <> L -> t_rd w2 l = t_rd w1 l) /\
            t_rd w2 L = Some (if N.eqb (hd 0 l2) 0 then prev else last (l1 ++ n :: l2) L)).
  { destruct (N.eqb (hd 0 l2) 0).
    - assert (Ht : t_rd w1 L <> None) by (rewrite T1, (sl_tail _ _ _ S); discriminate).
      destruct (t_wr_spec w1 L prev Ht) as (w2 & E2 & T2 & O2 & N2). exists w2. auto.
    - exists w1. split; [reflexivity|]. split; [reflexivity|]. split; [reflexivity|]. rewrite T1. apply (sl_tail _ _ _ S). }
  destruct Hfin as (w2 & E2 & N2 & O2 & T2). rewrite E2. exists w2. split; [reflexivity|].
  assert (Hold : forall x, x <> prev -> s_rd w2 x = s_rd w x) by (intros x Hx; rewrite N2; apply O1; exact Hx).
  split; [|split; [exact Hold|]].
  - constructor.
    + change (L :: l1 ++ l2) with ((L :: l1) ++ l2). change (L :: l1 ++ n :: l2) with ((L :: l1) ++ n :: l2) in ND.
      eapply NoDup_remove_1; eauto.
    + intros H. apply NZ. change (L :: l1 ++ l2) with ((L :: l1) ++ l2) in H.
      change (L :: l1 ++ n :: l2) with ((L :: l1) ++ n :: l2). apply in_app_or in H. apply in_or_app.
      destruct H; [left|right; right]; assumption.
    + pose proof (sl_seg _ _ _ S) as Sg.
      change (L :: l1 ++ n :: l2) with ((L :: l1) ++ n :: l2) in Sg, ND. change (L :: l1 ++ l2) with ((L :: l1) ++ l2).
      assert (Hm : exists m, L :: l1 = m ++ [prev]).
      { unfold prev. destruct (snoc_cases l1) as [->|(m & z & ->)]; [exists []; reflexivity|].
        exists (L :: m). rewrite last_last. reflexivity. }
      destruct Hm as (m & Hm). rewrite Hm in *. rewrite <- app_assoc in Sg. cbn [app] in Sg.
      apply SSeg_app_iff in Sg. destruct Sg as [Sg1 Sg2].
      assert (Sg1' : SSeg w2 (m ++ [prev])).
      { eapply SSeg_same; [|exact Sg1]. intros x Hx. rewrite removelast_last in Hx. apply Hold.
        intros ->. apply NoDup_app_l in ND. eapply NoDup_app_disj; eauto. left; reflexivity. }
      destruct l2 as [|b l2]; [rewrite app_nil_r; exact Sg1'|].
      rewrite <- app_assoc. cbn [app]. apply SSeg_app_iff. split; [exact Sg1'|].
      change (SSeg w2 (prev :: b :: l2)) with (s_rd w2 prev = Some b /\ SSeg w2 (b :: l2)).
      split; [rewrite N2; exact N1|].
      assert (Sg3 : SSeg w (b :: l2)) by (apply (SSeg_app_r w [prev; n]); exact Sg2).
      eapply SSeg_same; [|exact Sg3]. intros x Hx. apply in_removelast in Hx. apply Hold.
      intros ->. eapply (NoDup_app_disj (m ++ [prev]) (n :: b :: l2) prev ND).
      * apply in_or_app. right. left. reflexivity.
      * right. exact Hx.
    + destruct l2 as [|b l2].
      * rewrite app_nil_r. fold prev. rewrite N2. exact N1.
      * rewrite last_app_cons. pose proof (sl_end _ _ _ S) as En. rewrite last_app_cons, last_cons_default in En.
        rewrite Hold; [exact En|]. intros E.
        change (L :: l1 ++ n :: b :: l2) with ((L :: l1) ++ n :: b :: l2) in ND.
        apply (NoDup_app_disj (L :: l1) (n :: b :: l2) prev ND); [exact Hprev_in|].
        right. rewrite <- E. apply in_last_cons.
    + rewrite T2. destruct l2 as [|b l2]; cbn [hd].
      * rewrite app_nil_r. reflexivity.
      * assert (b <> 0) by (intros ->; apply NZ; right; apply in_or_app; right; right; left; reflexivity).
        replace (N.eqb b 0) with false by (symmetry; apply N.eqb_neq; assumption).
        rewrite !last_app_cons, last_cons_default. reflexivity.
  - intros l Hl. rewrite O2 by exact Hl. apply T1.
Qed.

(* nothing behind prev: nothing happens *)
Lemma del_last_spec w L xs : Slist w L xs -> s_del w L (last xs L) = Some w.
Proof.
  intros S. unfold s_del. rewrite (sl_end _ _ _ S). reflexivity.
Qed.

Lemma del_head_spec w L n xs :
  Slist w L (n :: xs) ->
  exists w', s_del_head w L = Some w' /\ Slist w' L xs /\
    (forall x, x <> L -> s_rd w' x = s_rd w x) /\ (forall l, l <> L -> t_rd w' l = t_rd w l).
Proof. intros S. apply (del_spec w L [] n xs S). Qed.

Lemma del_head_empty w L : Slist w L [] -> s_del_head w L = Some w.
Proof. intros S. apply (del_last_spec w L [] S). Qed.

(* ------------------------------------------------------------------ rot *)
Lemma SSeg_cons w x b : s_rd w x = Some (hd 0 b) -> SSeg w b -> SSeg w (x :: b).
Proof. destruct b; simpl; auto. Qed.

Lemma SSeg_tl w a l : SSeg w (a :: l) -> SSeg w l.
Proof. destruct l; simpl; tauto. Qed.

Lemma rot_spec w L a b t :
  Slist w L (a :: b :: t) ->
  exists w', s_rot w L = Some w' /\ Slist w' L (b :: t ++ [a]) /\
    (forall x, ~ In x (L :: a :: b :: t) -> s_rd w' x = s_rd w x) /\ (forall l, l <> L -> t_rd w' l = t_rd w l).
Proof.
  intros S. unfold s_rot, s_rot_body.
  pose proof (sl_nodup _ _ _ S) as ND. pose proof (sl_nonnull _ _ _ S) as NZ.
  rewrite (Slist_next_head w L _ S). cbn [hd].
  assert (Ha0 : a <> 0) by (intros ->; apply NZ; right; left; reflexivity).
  assert (Hb0 : b <> 0) by (intros ->; apply NZ; right; right; left; reflexivity).
  replace (N.eqb a 0) with false by (symmetry; apply N.eqb_neq; exact Ha0).
  rewrite (Slist_next_mid w L [] a b t S).
  replace (N.eqb b 0) with false by (symmetry; apply N.eqb_neq; exact Hb0).
  assert (HL : s_rd w L <> None) by (eapply Slist_rd; eauto; left; reflexivity).
  destruct (s_wr_spec w L b HL) as (w1 & E1 & N1 & O1 & T1). rewrite E1.
  rewrite T1, (sl_tail _ _ _ S). set (z := last (a :: b :: t) L).
  assert (Hz : z = last t b) by (unfold z; rewrite !last_cons_default; reflexivity).
  assert (Hzin : In z (b :: t)) by (rewrite Hz; apply in_last_cons).
  assert (HLa : L <> a) by (intros ->; apply NoDup_cons_iff in ND; apply (proj1 ND); left; reflexivity).
  assert (HLz : L <> z) by (intros E; apply NoDup_cons_iff in ND; apply (proj1 ND); right; rewrite E; exact Hzin).
  assert (Haz : a <> z).
  { intros E. apply NoDup_cons_iff in ND. destruct ND as [_ ND]. apply NoDup_cons_iff in ND. apply (proj1 ND).
    rewrite E. exact Hzin. }
  assert (Hz1 : s_rd w1 z <> None).
  { rewrite O1 by congruence. eapply Slist_rd; eauto. right. right. exact Hzin. }
  destruct (s_wr_spec w1 z a Hz1) as (w2 & E2 & N2 & O2 & T2). rewrite E2.
  assert (Ha2 : s_rd w2 a <> None).
  { rewrite O2 by exact Haz. rewrite O1 by (intros E; apply HLa; symmetry; exact E).
    eapply Slist_rd; eauto. right. left. reflexivity. }
  destruct (s_wr_spec w2 a 0 Ha2) as (w3 & E3 & N3 & O3 & T3). rewrite E3.
  assert (HtL : t_rd w3 L <> None) by (rewrite T3, T2, T1, (sl_tail _ _ _ S); discriminate).
  destruct (t_wr_spec w3 L a HtL) as (w4 & E4 & T4 & O4 & N4). rewrite E4.
  exists w4. split; [reflexivity|].
  assert (Hold : forall x, x <> L -> x <> z -> x <> a -> s_rd w4 x = s_rd w x).
  { intros x H1 H2 H3. rewrite N4, O3, O2, O1; auto. }
  assert (Hm : exists p, b :: t = p ++ [z]).
  { rewrite Hz. destruct (snoc_cases t) as [->|(m & u & ->)]; [exists []; reflexivity|].
    exists (b :: m). rewrite last_last. reflexivity. }
  destruct Hm as (p & Hm).
  split; [|split].
  - constructor.
    + change (L :: b :: t ++ [a]) with ((L :: b :: t) ++ [a]).
      eapply Permutation_NoDup; [|exact ND]. change (L :: a :: b :: t) with ([L] ++ a :: (b :: t)).
      rewrite <- Permutation_middle. cbn [app]. rewrite (Permutation_cons_append (L :: b :: t) a). reflexivity.
    + change (L :: b :: t ++ [a]) with ((L :: b :: t) ++ [a]). intros H. apply in_app_or in H.
      destruct H as [[H|H]|[H|[]]]; [apply NZ; left; exact H|apply NZ; right; right; exact H|congruence].
    + change (L :: b :: t ++ [a]) with (L :: (b :: t) ++ [a]). apply SSeg_cons.
      * cbn [app hd]. rewrite N4, O3, O2 by congruence. exact N1.
      * rewrite Hm, <- app_assoc. cbn [app]. apply SSeg_app_iff. split.
        -- pose proof (sl_seg _ _ _ S) as Sg. apply SSeg_tl, SSeg_tl in Sg. rewrite Hm in Sg.
           eapply SSeg_same; [|exact Sg]. intros x Hx. rewrite removelast_last in Hx.
           assert (Hxin : In x (b :: t)) by (rewrite Hm; apply in_or_app; left; exact Hx).
           apply Hold.
           ++ intros ->. apply NoDup_cons_iff in ND. apply (proj1 ND). right. exact Hxin.
           ++ intros ->. assert (NDz : NoDup (p ++ [z])).
              { rewrite <- Hm. apply NoDup_cons_iff in ND. destruct ND as [_ ND]. apply NoDup_cons_iff in ND. tauto. }
              eapply NoDup_app_disj; eauto. left; reflexivity.
           ++ intros ->. apply NoDup_cons_iff in ND. destruct ND as [_ ND]. apply NoDup_cons_iff in ND.
              apply (proj1 ND). exact Hxin.
        -- cbn [SSeg]. split; [|exact I]. rewrite N4, O3 by (intros E; apply Haz; symmetry; exact E). exact N2.
    + change (b :: t ++ [a]) with ((b :: t) ++ [a]). rewrite last_last, N4. exact N3.
    + change (b :: t ++ [a]) with ((b :: t) ++ [a]). rewrite last_last. exact T4.
  - intros x Hx. apply Hold.
    + intros ->. apply Hx. left. reflexivity.
    + intros ->. apply Hx. right. right. exact Hzin.
    + intros ->. apply Hx. right. left. reflexivity.
  - intros l Hl. rewrite O4 by exact Hl. rewrite T3, T2. apply T1.
Qed.

(* with fewer than two nodes the repaired a_slist_rot does nothing *)
Lemma rot_small_spec w L xs : Slist w L xs -> (length xs <= 1)%nat -> s_rot w L = Some w.
Proof.
  intros S Hlen. unfold s_rot. rewrite (Slist_next_head w L _ S).
  destruct xs as [|a [|b t]]; [reflexivity| |simpl in Hlen; lia]. cbn [hd].
  assert (Ha0 : a <> 0) by (intros ->; apply (sl_nonnull _ _ _ S); right; left; reflexivity).
  replace (N.eqb a 0) with false by (symmetry; apply N.eqb_neq; exact Ha0).
  pose proof (sl_end _ _ _ S) as En. cbn [last] in En. rewrite En. reflexivity.
Qed.

(* a_slist_rot as found in the pinned tree loses the only node of a one-element list *)
Definition sw1 : sworld := match s_add_tail (s_world 1) 1 3 with Some w => w | None => s_world 1 end.

Lemma sw1_list : Slist sw1 1 [3].
Proof.
  constructor.
  - repeat constructor; simpl; intuition discriminate.
  - simpl. intuition discriminate.
  - simpl. split; [reflexivity|exact I].
  - reflexivity.
  - reflexivity.
Qed.

Theorem rot_orig_refuted :
  exists w L a, Slist w L [a] /\
    exists w', s_rot_orig w L = Some w' /\ s_rd w' L = Some 0 /\ t_rd w' L = Some a /\
               forall xs, ~ Slist w' L xs.
Proof.
  exists sw1, 1, 3. split; [exact sw1_list|].
  destruct (s_rot_orig sw1 1) as [w'|] eqn:E; [|vm_compute in E; discriminate].
  assert (H1 : s_rd w' 1 = Some 0) by (vm_compute in E; inversion E; subst; reflexivity).
  assert (H2 : t_rd w' 1 = Some 3) by (vm_compute in E; inversion E; subst; reflexivity).
  exists w'. split; [reflexivity|]. split; [exact H1|]. split; [exact H2|].
  intros xs S. pose proof (Slist_next_head w' 1 xs S) as Hh. rewrite H1 in Hh.
  destruct xs as [|x xs].
  - pose proof (sl_tail _ _ _ S) as Ht. cbn [last] in Ht. rewrite H2 in Ht. discriminate.
  - cbn [hd] in Hh. inversion Hh as [Hx]. apply (sl_nonnull _ _ _ S). right. left. symmetry. exact Hx.
Qed.

(* ------------------------------------------------------------------ mov *)
(* the nodes xs of L are spliced into T behind the node at = last (T :: l1); L itself is left stale *)
Lemma mov_spec w L xs T l1 l2 :
  Slist w L xs -> Slist w T (l1 ++ l2) -> xs <> [] ->
  (forall x, In x (L :: xs) -> ~ In x (T :: l1 ++ l2)) ->
  exists w', s_mov w L T (last l1 T) = Some w' /\ Slist w' T (l1 ++ xs ++ l2) /\
    (forall x, x <> last l1 T -> x <> last xs L -> s_rd w' x = s_rd w x) /\
    (forall l, l <> T -> t_rd w' l = t_rd w l).
Proof.
  intros SL ST Hxs D. unfold s_mov. set (pos := last l1 T).
  rewrite (Slist_next_head w L xs SL).
  destruct xs as [|x0 xs']; [congruence|]. cbn [hd]. set (xs := x0 :: xs') in *.
  pose proof (sl_nodup _ _ _ SL) as NDL. pose proof (sl_nonnull _ _ _ SL) as NZL.
  pose proof (sl_nodup _ _ _ ST) as NDT. pose proof (sl_nonnull _ _ _ ST) as NZT.
  assert (Hx0 : x0 <> 0) by (intros E; apply NZL; right; left; exact E).
  replace (N.eqb x0 0) with false by (symmetry; apply N.eqb_neq; exact Hx0).
  pose proof (Slist_next_at w T l1 l2 ST) as Epn. fold pos in Epn. rewrite Epn.
  set (z := last xs L).
  assert (Hzin : In z xs) by (unfold z, xs; rewrite last_cons_default; apply in_last_cons).
  assert (Hpos_in : In pos (T :: l1)) by apply in_last_cons.
  assert (Hpos_in' : In pos (T :: l1 ++ l2)).
  { destruct Hpos_in as [H|H]; [left; exact H|right; apply in_or_app; left; exact H]. }
  assert (Hzpos : z <> pos) by (intros E; apply (D z); [right; exact Hzin|rewrite E; exact Hpos_in']).
  assert (HLT : L <> T) by (intros E; apply (D L); [left; reflexivity|left; symmetry; exact E]).
  assert (HtT : t_rd w T <> None) by (rewrite (sl_tail _ _ _ ST); discriminate).
  assert (Htail : exists w1, (if N.eqb (hd 0 l2) 0 then do t <- t_rd w L; t_wr w T t else Some w) = Some w1 /\
            (forall x, s_rd w1 x = s_rd w x) /\ (forall l, l <> T -> t_rd w1 l = t_rd w l) /\
            t_rd w1 T = Some (if N.eqb (hd 0 l2) 0 then z else last (l1 ++ l2) T)).
  { destruct (N.eqb (hd 0 l2) 0).
    - rewrite (sl_tail _ _ _ SL). destruct (t_wr_spec w T z HtT) as (w1 & E1 & T1 & O1 & N1). exists w1. auto.
    - exists w. split; [reflexivity|]. split; [reflexivity|]. split; [reflexivity|]. apply (sl_tail _ _ _ ST). }
  destruct Htail as (w1 & E1 & N1 & O1 & T1). rewrite E1.
  rewrite O1 by exact HLT. rewrite (sl_tail _ _ _ SL). fold z. rewrite N1, Epn.
  assert (Hz1 : s_rd w1 z <> None) by (rewrite N1; apply (Slist_rd w L xs z SL); right; exact Hzin).
  destruct (s_wr_spec w1 z (hd 0 l2) Hz1) as (w2 & E2 & N2 & O2 & T2). rewrite E2.
  assert (Hp2 : s_rd w2 pos <> None).
  { rewrite O2 by (intros E; apply Hzpos; symmetry; exact E). rewrite N1, Epn. discriminate. }
  destruct (s_wr_spec w2 pos x0 Hp2) as (w3 & E3 & N3 & O3 & T3). rewrite E3.
  exists w3. split; [reflexivity|].
  assert (Hold : forall x, x <> pos -> x <> z -> s_rd w3 x = s_rd w x).
  { intros x H1 H2. rewrite O3, O2, N1; auto. }
  assert (Hmz : exists p, xs = p ++ [z]).
  { unfold z, xs. rewrite last_cons_default. destruct (snoc_cases xs') as [->|(m & u & ->)]; [exists []; reflexivity|].
    exists (x0 :: m). rewrite last_last. reflexivity. }
  destruct Hmz as (p & Hp).
  assert (Hmp : exists m, T :: l1 = m ++ [pos]).
  { unfold pos. destruct (snoc_cases l1) as [->|(m & u & ->)]; [exists []; reflexivity|].
    exists (T :: m). rewrite last_last. reflexivity. }
  destruct Hmp as (m & Hm).
  assert (NDxs : NoDup xs) by (apply NoDup_cons_iff in NDL; tauto).
  split; [|split; [exact Hold|]].
  - constructor.
    + (* no repetition *)
      change (T :: l1 ++ xs ++ l2) with ((T :: l1) ++ xs ++ l2).
      change (T :: l1 ++ l2) with ((T :: l1) ++ l2) in NDT.
      eapply Permutation_NoDup; [apply Permutation_app_swap_app|].
      assert (G : forall ys, NoDup ys -> (forall y, In y ys -> ~ In y ((T :: l1) ++ l2)) -> NoDup (ys ++ (T :: l1) ++ l2)).
      { induction ys as [|y ys IH]; intros Ny Dy; [exact NDT|]. cbn [app]. inversion Ny; subst. constructor.
        - intros H. apply in_app_or in H. destruct H as [H|H]; [contradiction|]. apply (Dy y); [left; reflexivity|exact H].
        - apply IH; auto. intros y' Hy'. apply Dy. right. exact Hy'. }
      apply G; auto. intros y Hy. apply D. right. exact Hy.
    + intros H. change (T :: l1 ++ xs ++ l2) with ((T :: l1) ++ xs ++ l2) in H. apply in_app_or in H.
      destruct H as [H|H].
      * apply NZT. change (T :: l1 ++ l2) with ((T :: l1) ++ l2). apply in_or_app. left. exact H.
      * apply in_app_or in H. destruct H as [H|H]; [apply NZL; right; exact H|].
        apply NZT. right. apply in_or_app. right. exact H.
    + (* the chain *)
      change (T :: l1 ++ xs ++ l2) with ((T :: l1) ++ xs ++ l2). rewrite Hm, <- app_assoc. cbn [app].
      pose proof (sl_seg _ _ _ ST) as SgT. change (T :: l1 ++ l2) with ((T :: l1) ++ l2) in SgT, NDT.
      rewrite Hm in SgT, NDT.
      apply SSeg_app_iff. split.
      * apply SSeg_app_l in SgT. eapply SSeg_same; [|exact SgT]. intros x Hx. rewrite removelast_last in Hx.
        apply Hold.
        -- intros ->. apply NoDup_app_l in NDT. eapply NoDup_app_disj; eauto. left; reflexivity.
        -- intros ->. apply (D z); [right; exact Hzin|].
           change (T :: l1 ++ l2) with ((T :: l1) ++ l2). rewrite Hm. apply in_or_app. left. apply in_or_app. left. exact Hx.
      * apply SSeg_cons.
        -- unfold xs at 1. cbn [app hd]. exact N3.
        -- rewrite Hp, <- app_assoc. cbn [app]. apply SSeg_app_iff. split.
           ++ pose proof (sl_seg _ _ _ SL) as SgL. apply SSeg_tl in SgL. rewrite Hp in SgL.
              eapply SSeg_same; [|exact SgL]. intros x Hx. rewrite removelast_last in Hx. apply Hold.
              ** intros ->. apply (D pos); [right; rewrite Hp; apply in_or_app; left; exact Hx|exact Hpos_in'].
              ** intros ->. rewrite Hp in NDxs. eapply NoDup_app_disj; eauto. left; reflexivity.
           ++ apply SSeg_cons.
              ** rewrite O3 by exact Hzpos. exact N2.
              ** rewrite <- app_assoc in SgT. apply SSeg_app_r in SgT. apply SSeg_tl in SgT.
                 eapply SSeg_same; [|exact SgT]. intros x Hx. apply in_removelast in Hx. apply Hold.
                 --- intros ->. rewrite <- app_assoc in NDT. apply (NoDup_app_disj m (pos :: l2) pos).
                     +++ cbn [app] in NDT. apply NoDup_app_r in NDT. exfalso.
                         apply NoDup_cons_iff in NDT. apply (proj1 NDT). exact Hx.
                     +++ exfalso. cbn [app] in NDT. apply NoDup_app_r in NDT. apply NoDup_cons_iff in NDT.
                         apply (proj1 NDT). exact Hx.
                     +++ left. reflexivity.
                 --- intros ->. apply (D z); [right; exact Hzin|]. right. apply in_or_app. right. exact Hx.
    + (* the end *)
      destruct l2 as [|b l2].
      * rewrite app_nil_r, Hp, app_assoc, last_last. rewrite O3 by exact Hzpos. rewrite N2. reflexivity.
      * rewrite app_assoc, last_app_cons. pose proof (sl_end _ _ _ ST) as En. rewrite last_app_cons in En.
        rewrite Hold; [exact En| |].
        -- intros E. change (T :: l1 ++ b :: l2) with ((T :: l1) ++ b :: l2) in NDT.
           apply (NoDup_app_disj (T :: l1) (b :: l2) pos NDT); [exact Hpos_in|rewrite <- E; apply in_last_cons].
        -- intros E. apply (D z); [right; exact Hzin|]. right. apply in_or_app. right. rewrite <- E. apply in_last_cons.
    + rewrite T3, T2, T1. destruct l2 as [|b l2]; cbn [hd].
      * rewrite !app_nil_r, Hp, app_assoc, last_last. reflexivity.
      * assert (b <> 0) by (intros ->; apply NZT; right; apply in_or_app; right; left; reflexivity).
        replace (N.eqb b 0) with false by (symmetry; apply N.eqb_neq; assumption).
        rewrite app_assoc, !last_app_cons. reflexivity.
  - intros l Hl. rewrite T3, T2. apply O1. exact Hl.
Qed.

(* moving an empty list changes nothing *)
Lemma mov_empty_spec w L T pos : Slist w L [] -> s_mov w L T pos = Some w.
Proof. intros S. unfold s_mov. rewrite (Slist_next_head w L [] S). reflexivity. Qed.

(* what the drivers print: the walk from the head yields exactly the abstract sequence *)
Lemma s_walk_spec w L pre l fuel :
  Slist w L (pre ++ l) -> (length l < fuel)%nat -> s_walk w (hd 0 l) fuel = Some l.
Proof.
  revert pre fuel. induction l as [|a l IH]; intros pre fuel S Hf.
  - destruct fuel; [lia|]. reflexivity.
  - destruct fuel; [simpl in Hf; lia|]. cbn [s_walk hd].
    assert (Ha0 : a <> 0) by (intros ->; apply (sl_nonnull _ _ _ S); right; apply in_or_app; right; left; reflexivity).
    replace (N.eqb a 0) with false by (symmetry; apply N.eqb_neq; exact Ha0).
    replace (pre ++ a :: l) with ((pre ++ [a]) ++ l) in S by (rewrite <- app_assoc; reflexivity).
    pose proof (Slist_next_at w L (pre ++ [a]) l S) as En. rewrite last_last in En. rewrite En.
    rewrite (IH (pre ++ [a])); [reflexivity|exact S|simpl in Hf; lia].
Qed.

Theorem s_list_of_spec w L xs fuel : Slist w L xs -> (length xs < fuel)%nat -> s_list_of w L fuel = Some xs.
Proof.
  intros S Hf. unfold s_list_of. rewrite (Slist_next_head w L xs S). apply (s_walk_spec w L [] xs fuel S Hf).
Qed.
