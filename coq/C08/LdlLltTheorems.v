(* C08: consequences of the a_real_ldl / a_real_llt invariants over R - shape, reconstruction,
   solve, pivots. *)
From Coq Require Import ZArith List Reals Lia Lra Psatz Bool.
From LibaV Require Import C08.NumOps C08.FactorDefs C08.Instances C08.Base C08.PluSteps
  C08.SolveProofs C08.PluTheorems C08.LdlLltProofs.
Import ListNotations.
Local Open Scope R_scope.

(* lower triangle incl. diagonal (Cholesky factor) as a function of the storage *)
Definition Ltf (m : nat -> nat -> R) (r i : nat) : R := if Nat.leb i r then m r i else 0.
(* what the LDL / LLT code reads of its input: the lower triangle, completed symmetrically *)
Definition symc (a : nat -> nat -> R) (r c : nat) : R := if Nat.leb c r then a r c else a c r.

Section Algebra.
Variable n : nat.

Lemma ldl_product m r c :
  (c <= r)%nat -> (r < n)%nat ->
  rsum (fun i => Lf m r i * m i i * Lf m c i) n =
  ldl_dot m r c + (if Nat.eqb r c then m c c else m r c * m c c).
Proof.
  intros Hcr Hr. unfold ldl_dot.
  rewrite (rsum_ext _ (fun i => (if Nat.ltb i c then m r i * m c i * m i i else 0) +
                                (if Nat.eqb i c then (if Nat.eqb r c then m c c else m r c * m c c) else 0))).
  2:{ intros i Hi. unfold Lf. bcase; ring. }
  rewrite rsum_plus. rewrite rsum_ind_lt by lia. rewrite rsum_ind_eq by lia. reflexivity.
Qed.

Lemma ldl_product_sym m r c :
  rsum (fun i => Lf m r i * m i i * Lf m c i) n = rsum (fun i => Lf m c i * m i i * Lf m r i) n.
Proof. apply rsum_ext. intros. ring. Qed.

(* column i of a unit lower triangular matrix against x:  (L^T x)_i *)
Lemma lt_col m x i :
  (i < n)%nat ->
  rsum (fun c => Lf m c i * x c) n = x i + isum (fun c => m c i * x c) (i + 1) n.
Proof.
  intros Hi. unfold isum.
  rewrite (rsum_ext _ (fun c => (if Nat.eqb c i then x c else 0) + (if Nat.leb (i + 1) c then m c i * x c else 0))).
  2:{ intros c Hc. unfold Lf. bcase; lra. }
  rewrite rsum_plus. rewrite rsum_ind_eq by lia. reflexivity.
Qed.

Lemma ldl_solve_algebra m b y x :
  (forall i, (i < n)%nat -> m i i <> 0) ->
  (forall r, (r < n)%nat -> y r = b r - isum (fun c => m r c * y c) 0 r) ->
  (forall c, (c < n)%nat -> x c = y c / m c c - isum (fun r => m r c * x r) (c + 1) n) ->
  forall r, (r < n)%nat ->
    rsum (fun c => rsum (fun i => Lf m r i * m i i * Lf m c i) n * x c) n = b r.
Proof.
  intros Hd Hy Hx r Hr.
  rewrite (rsum_ext _ (fun c => rsum (fun i => Lf m r i * (m i i * (Lf m c i * x c))) n)).
  2:{ intros c Hc. rewrite <- rsum_scal_r. apply rsum_ext. intros; ring. }
  rewrite rsum_swap.
  rewrite (rsum_ext _ (fun i => Lf m r i * y i)).
  2:{ intros i Hi. rewrite rsum_scal. f_equal. rewrite rsum_scal. rewrite lt_col by auto.
      rewrite (Hx i Hi) at 1. field. auto. }
  rewrite l_row by auto. rewrite (Hy r Hr). lra.
Qed.

Lemma llt_product m r c :
  (c <= r)%nat -> (r < n)%nat ->
  rsum (fun i => Ltf m r i * Ltf m c i) n = rsum (fun i => m r i * m c i) (S c).
Proof.
  intros Hcr Hr.
  rewrite (rsum_ext _ (fun i => if Nat.ltb i (S c) then m r i * m c i else 0)).
  2:{ intros i Hi. unfold Ltf. bcase; ring. }
  rewrite rsum_ind_lt by lia. reflexivity.
Qed.

Lemma ltf_row m y r :
  (r < n)%nat -> rsum (fun i => Ltf m r i * y i) n = m r r * y r + isum (fun c => m r c * y c) 0 r.
Proof.
  intros Hr. rewrite isum_0.
  rewrite (rsum_ext _ (fun i => (if Nat.eqb i r then m r i * y i else 0) + (if Nat.ltb i r then m r i * y i else 0))).
  2:{ intros i Hi. unfold Ltf. bcase; lra. }
  rewrite rsum_plus. rewrite rsum_ind_eq by lia. rewrite rsum_ind_lt by lia. reflexivity.
Qed.

Lemma ltf_col m x i :
  (i < n)%nat -> rsum (fun c => Ltf m c i * x c) n = m i i * x i + isum (fun c => m c i * x c) (i + 1) n.
Proof.
  intros Hi. unfold isum.
  rewrite (rsum_ext _ (fun c => (if Nat.eqb c i then m c i * x c else 0) + (if Nat.leb (i + 1) c then m c i * x c else 0))).
  2:{ intros c Hc. unfold Ltf. bcase; lra. }
  rewrite rsum_plus. rewrite rsum_ind_eq by lia. reflexivity.
Qed.

Lemma llt_solve_algebra m b y x :
  (forall i, (i < n)%nat -> m i i <> 0) ->
  (forall r, (r < n)%nat -> y r = (b r - isum (fun c => m r c * y c) 0 r) / m r r) ->
  (forall c, (c < n)%nat -> x c = (y c - isum (fun r => m r c * x r) (c + 1) n) / m c c) ->
  forall r, (r < n)%nat ->
    rsum (fun c => rsum (fun i => Ltf m r i * Ltf m c i) n * x c) n = b r.
Proof.
  intros Hd Hy Hx r Hr.
  rewrite (rsum_ext _ (fun c => rsum (fun i => Ltf m r i * (Ltf m c i * x c)) n)).
  2:{ intros c Hc. rewrite <- rsum_scal_r. apply rsum_ext. intros; ring. }
  rewrite rsum_swap.
  rewrite (rsum_ext _ (fun i => Ltf m r i * y i)).
  2:{ intros i Hi. rewrite rsum_scal. f_equal. rewrite ltf_col by auto.
      rewrite (Hx i Hi) at 1. field. auto. }
  rewrite ltf_row by auto. rewrite (Hy r Hr) at 1. field. auto.
Qed.

(* the transpose of a unit lower triangular matrix is injective *)
Lemma lt_injective m z :
  (forall c, (c < n)%nat -> rsum (fun r => Lf m r c * z r) n = 0) ->
  forall c, (c < n)%nat -> z c = 0.
Proof.
  intros H.
  assert (K : forall k c, (n - k <= c)%nat -> (c < n)%nat -> z c = 0).
  { induction k as [|k IH]; intros c Hc Hcn; [lia|].
    pose proof (H c Hcn) as E. rewrite lt_col in E by auto. unfold isum in E.
    rewrite rsum_zero in E; [lra|].
    intros i Hi. destruct (Nat.leb_spec (c + 1) i); [|reflexivity].
    rewrite (IH i) by lia. lra. }
  intros c Hc. apply (K n c); lia.
Qed.

End Algebra.

(* ================================================================================ LDL *)
Section LdlMain.
Variable tiny : R.
Hypothesis tiny_pos : 0 < tiny.
Let RO := R_ops tiny.
Variable n : nat.
Variable A : list R.
Hypothesis LA : length A = (n * n)%nat.

Lemma ldl_total :
  exists rc M, ldl RO n A = Some (rc, M) /\ (rc = 0%nat \/ rc = 1%nat) /\ length M = (n * n)%nat.
Proof.
  destruct (ldl_spec tiny tiny_pos n A LA) as (rc & M & E & L & [[-> _]|[-> _]]);
    [exists 0%nat, M|exists 1%nat, M]; auto.
Qed.

Lemma ldl_success_inv M : ldl RO n A = Some (0%nat, M) -> LdlInv tiny n (mg n A) n M.
Proof.
  intros H. destruct (ldl_spec tiny tiny_pos n A LA) as (rc & M' & E & L & [[-> I]|[-> _]]);
    unfold RO in H; rewrite E in H.
  - injection H as <-. exact I.
  - discriminate H.
Qed.

Lemma ldl_failure_inv M : ldl RO n A = Some (1%nat, M) -> ldl_failed tiny n A.
Proof.
  intros H. destruct (ldl_spec tiny tiny_pos n A LA) as (rc & M' & E & L & [[-> _]|[-> F]]);
    unfold RO in H; rewrite E in H.
  - discriminate H.
  - exact F.
Qed.

(* A = L D L^T on the lower triangle (all the code reads), pivots bounded away from zero, and each
   pivot is the quantity the textbook recurrence defines from the columns before it *)
Lemma ldl_reconstruct M :
  ldl RO n A = Some (0%nat, M) ->
  (forall r c, (c <= r)%nat -> (r < n)%nat ->
     mg n A r c = rsum (fun i => Lf (mg n M) r i * mg n M i i * Lf (mg n M) c i) n) /\
  (forall c, (c < n)%nat -> tiny <= Rabs (mg n M c c) /\
                            mg n M c c = mg n A c c - ldl_dot (mg n M) c c).
Proof.
  intros H. destruct (ldl_success_inv M H) as (LM & I1 & I2 & I3). split.
  - intros r c Hcr Hr. rewrite ldl_product by auto. apply I1; lia.
  - intros c Hc. split; [apply I2; lia|].
    rewrite (I1 c c) by lia. rewrite Nat.eqb_refl. lra.
Qed.

Lemma ldl_reconstruct_sym M :
  ldl RO n A = Some (0%nat, M) ->
  forall r c, (r < n)%nat -> (c < n)%nat ->
    symc (mg n A) r c = rsum (fun i => Lf (mg n M) r i * mg n M i i * Lf (mg n M) c i) n.
Proof.
  intros H r c Hr Hc. destruct (ldl_reconstruct M H) as [R _]. unfold symc.
  destruct (Nat.leb_spec c r).
  - apply R; auto.
  - rewrite ldl_product_sym. apply R; auto; lia.
Qed.

Lemma ldl_solve_correct M (b : list R) :
  ldl RO n A = Some (0%nat, M) -> length b = n ->
  exists x, ldl_solve RO n M b = Some x /\ length x = n /\
    forall r, (r < n)%nat -> rsum (fun c => symc (mg n A) r c * nth c x 0) n = nth r b 0.
Proof.
  intros H Lb. pose proof (ldl_success_inv M H) as (LM & _ & I2 & _).
  unfold ldl_solve.
  assert (Hinj : forall r r', (r < n)%nat -> (r' < n)%nat -> (fun k : nat => k) r = (fun k : nat => k) r' -> r = r') by auto.
  destruct (lower_gen_spec tiny n (fun k => k) Hinj M b LM) as (y & E1 & Ly & _ & H1).
  { intros r Hr. lia. }
  change (ldl_lower RO n M b) with (lower_gen tiny n (fun k => k) M b). rewrite E1.
  destruct (ldl_upper_gen_spec tiny n (fun k => k) Hinj M y LM) as (x & E2 & Lx & _ & H2).
  { intros r Hr. lia. }
  change (ldl_upper RO n M y) with (ldl_upper_gen tiny n (fun k => k) M y). rewrite E2.
  exists x. split; auto. split; [congruence|].
  unfold vg in H1, H2.
  assert (Hd : forall j, (j < n)%nat -> mg n M j j <> 0).
  { intros j Hj Z. specialize (I2 j Hj Hj). rewrite Z, Rabs_R0 in I2. lra. }
  intros r Hr.
  rewrite (rsum_ext _ (fun c => rsum (fun i => Lf (mg n M) r i * mg n M i i * Lf (mg n M) c i) n * nth c x 0)).
  2:{ intros c Hc. rewrite (ldl_reconstruct_sym M H r c Hr Hc). reflexivity. }
  apply (ldl_solve_algebra n (mg n M) (fun k => nth k b 0) (fun k => nth k y 0) (fun k => nth k x 0)); auto.
Qed.

(* an exactly singular input (its symmetric completion annihilates a non-zero vector) is reported
   as failure *)
Lemma ldl_singular_fails (x : nat -> R) i rc M :
  (i < n)%nat -> x i <> 0 ->
  (forall r, (r < n)%nat -> rsum (fun c => symc (mg n A) r c * x c) n = 0) ->
  ldl RO n A = Some (rc, M) -> rc = 1%nat.
Proof.
  intros Hi Hxi Hker H.
  destruct ldl_total as (rc' & M' & E & [-> | ->] & _); rewrite E in H; [|injection H as <- _; reflexivity].
  injection H as <- _. exfalso.
  pose proof (ldl_success_inv M' E) as (LM & _ & I2 & _).
  set (m := mg n M').
  assert (Hd : forall j, (j < n)%nat -> m j j <> 0).
  { intros j Hj Z. specialize (I2 j Hj Hj). fold m in I2. rewrite Z, Rabs_R0 in I2. lra. }
  (* L (D L^T x) = 0 *)
  assert (H1 : forall k, (k < n)%nat -> m k k * rsum (fun c => Lf m c k * x c) n = 0).
  { apply (l_injective n m). intros r Hr. rewrite <- (Hker r Hr).
    rewrite (rsum_ext (fun c => symc (mg n A) r c * x c)
                      (fun c => rsum (fun k => Lf m r k * (m k k * (Lf m c k * x c))) n)).
    2:{ intros c Hc. rewrite (ldl_reconstruct_sym M' E r c Hr Hc). fold m.
        rewrite <- rsum_scal_r. apply rsum_ext. intros; ring. }
    rewrite rsum_swap. apply rsum_ext. intros k Hk. rewrite !rsum_scal. reflexivity. }
  assert (H2 : forall k, (k < n)%nat -> rsum (fun c => Lf m c k * x c) n = 0).
  { intros k Hk. specialize (H1 k Hk). apply Rmult_integral in H1. destruct H1; auto. exfalso. apply (Hd k); auto. }
  apply Hxi. apply (lt_injective n m x H2 i Hi).
Qed.

End LdlMain.

(* ================================================================================ LLT *)
Section LltMain.
Variable tiny : R.
Hypothesis tiny_pos : 0 < tiny.
Let RO := R_ops tiny.
Variable n : nat.
Variable A : list R.
Hypothesis LA : length A = (n * n)%nat.

Lemma llt_total :
  exists rc M, llt RO n A = Some (rc, M) /\ (rc = 0%nat \/ rc = 1%nat) /\ length M = (n * n)%nat.
Proof.
  destruct (llt_spec tiny tiny_pos n A LA) as (rc & M & E & L & [[-> _]|[-> _]]);
    [exists 0%nat, M|exists 1%nat, M]; auto.
Qed.

Lemma llt_success_inv M : llt RO n A = Some (0%nat, M) -> LltInv tiny n (mg n A) n M.
Proof.
  intros H. destruct (llt_spec tiny tiny_pos n A LA) as (rc & M' & E & L & [[-> I]|[-> _]]);
    unfold RO in H; rewrite E in H.
  - injection H as <-. exact I.
  - discriminate H.
Qed.

Lemma llt_failure_inv M : llt RO n A = Some (1%nat, M) -> llt_failed tiny n A.
Proof.
  intros H. destruct (llt_spec tiny tiny_pos n A LA) as (rc & M' & E & L & [[-> _]|[-> F]]);
    unfold RO in H; rewrite E in H.
  - discriminate H.
  - exact F.
Qed.

(* A = L L^T on the lower triangle, strictly positive diagonal, every pivot >= tiny *)
Lemma llt_reconstruct M :
  llt RO n A = Some (0%nat, M) ->
  (forall r c, (c <= r)%nat -> (r < n)%nat ->
     mg n A r c = rsum (fun i => Ltf (mg n M) r i * Ltf (mg n M) c i) n) /\
  (forall r, (r < n)%nat ->
     0 < mg n M r r /\
     tiny <= mg n A r r - rsum (fun i => mg n M r i * mg n M r i) r /\
     mg n M r r * mg n M r r = mg n A r r - rsum (fun i => mg n M r i * mg n M r i) r).
Proof.
  intros H. destruct (llt_success_inv M H) as (LM & I1 & I2 & I3). split.
  - intros r c Hcr Hr. rewrite llt_product by auto. apply I1; lia.
  - intros r Hr. destruct (I2 r Hr Hr) as [Pos Ge].
    pose proof (I1 r r Hr (le_n r) Hr) as E. rewrite rsum_S in E.
    repeat split; auto; lra.
Qed.

Lemma llt_reconstruct_sym M :
  llt RO n A = Some (0%nat, M) ->
  forall r c, (r < n)%nat -> (c < n)%nat ->
    symc (mg n A) r c = rsum (fun i => Ltf (mg n M) r i * Ltf (mg n M) c i) n.
Proof.
  intros H r c Hr Hc. destruct (llt_reconstruct M H) as [R _]. unfold symc.
  destruct (Nat.leb_spec c r).
  - apply R; auto.
  - rewrite (rsum_ext _ (fun i => Ltf (mg n M) c i * Ltf (mg n M) r i)) by (intros; ring).
    apply R; auto; lia.
Qed.

Lemma llt_solve_correct M (b : list R) :
  llt RO n A = Some (0%nat, M) -> length b = n ->
  exists x, llt_solve RO n M b = Some x /\ length x = n /\
    forall r, (r < n)%nat -> rsum (fun c => symc (mg n A) r c * nth c x 0) n = nth r b 0.
Proof.
  intros H Lb. pose proof (llt_success_inv M H) as (LM & _ & I2 & _).
  unfold llt_solve.
  assert (Hinj : forall r r', (r < n)%nat -> (r' < n)%nat -> (fun k : nat => k) r = (fun k : nat => k) r' -> r = r') by auto.
  destruct (llt_lower_gen_spec tiny n (fun k => k) Hinj M b LM) as (y & E1 & Ly & _ & H1).
  { intros r Hr. lia. }
  change (llt_lower RO n M b) with (llt_lower_gen tiny n (fun k => k) M b). rewrite E1.
  destruct (llt_upper_gen_spec tiny n (fun k => k) Hinj M y LM) as (x & E2 & Lx & _ & H2).
  { intros r Hr. lia. }
  change (llt_upper RO n M y) with (llt_upper_gen tiny n (fun k => k) M y). rewrite E2.
  exists x. split; auto. split; [congruence|].
  unfold vg in H1, H2.
  assert (Hd : forall j, (j < n)%nat -> mg n M j j <> 0).
  { intros j Hj. destruct (I2 j Hj Hj). lra. }
  intros r Hr.
  rewrite (rsum_ext _ (fun c => rsum (fun i => Ltf (mg n M) r i * Ltf (mg n M) c i) n * nth c x 0)).
  2:{ intros c Hc. rewrite (llt_reconstruct_sym M H r c Hr Hc). reflexivity. }
  apply (llt_solve_algebra n (mg n M) (fun k => nth k b 0) (fun k => nth k y 0) (fun k => nth k x 0)); auto.
Qed.

(* a matrix that a_real_llt accepts is positive semidefinite on its symmetric completion:
   x^T A x = |L^T x|^2 >= 0 *)
Lemma llt_success_psd M (x : nat -> R) :
  llt RO n A = Some (0%nat, M) ->
  0 <= rsum (fun r => x r * rsum (fun c => symc (mg n A) r c * x c) n) n.
Proof.
  intros H.
  rewrite (rsum_ext _ (fun r => rsum (fun c => rsum (fun i => (Ltf (mg n M) r i * x r) * (Ltf (mg n M) c i * x c)) n) n)).
  2:{ intros r Hr. rewrite <- rsum_scal. apply rsum_ext. intros c Hc.
      rewrite (llt_reconstruct_sym M H r c Hr Hc). rewrite <- rsum_scal_r, <- rsum_scal.
      apply rsum_ext. intros; ring. }
  (* swap the sums so that i is outermost *)
  rewrite (rsum_ext _ (fun r => rsum (fun i => rsum (fun c => (Ltf (mg n M) r i * x r) * (Ltf (mg n M) c i * x c)) n) n))
    by (intros; apply rsum_swap).
  rewrite rsum_swap.
  apply rsum_nonneg. intros i Hi.
  rewrite (rsum_ext _ (fun r => (Ltf (mg n M) r i * x r) * rsum (fun c => Ltf (mg n M) c i * x c) n))
    by (intros; now rewrite rsum_scal).
  rewrite rsum_scal_r. apply Rle_0_sqr.
Qed.

(* consequently: an input whose quadratic form is negative somewhere, or that has a diagonal entry
   below the threshold (in particular <= 0), is reported as failure *)
Lemma llt_indefinite_fails (x : nat -> R) rc M :
  rsum (fun r => x r * rsum (fun c => symc (mg n A) r c * x c) n) n < 0 ->
  llt RO n A = Some (rc, M) -> rc = 1%nat.
Proof.
  intros Hneg H.
  destruct llt_total as (rc' & M' & E & [-> | ->] & _); rewrite E in H; [|injection H as <- _; reflexivity].
  injection H as <- _. exfalso.
  pose proof (llt_success_psd M' x E). lra.
Qed.

Lemma llt_small_diagonal_fails r rc M :
  (r < n)%nat -> mg n A r r < tiny ->
  llt RO n A = Some (rc, M) -> rc = 1%nat.
Proof.
  intros Hr Hsmall H.
  destruct llt_total as (rc' & M' & E & [-> | ->] & _); rewrite E in H; [|injection H as <- _; reflexivity].
  injection H as <- _. exfalso.
  destruct (llt_reconstruct M' E) as [_ R2]. destruct (R2 r Hr) as (_ & Ge & _).
  assert (0 <= rsum (fun i => mg n M' r i * mg n M' r i) r).
  { apply rsum_nonneg. intros i Hi. apply Rle_0_sqr. }
  lra.
Qed.

End LltMain.
