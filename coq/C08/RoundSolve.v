(* C08: backward error of the triangular solves in the STANDARD MODEL OF FLOATING-POINT ARITHMETIC
   (Common/RoundOps.v:  |rnd x - x| <= eps |x| + eta,  rnd 0 = 0,  0 <= eps < 1/4,  0 <= eta),
   for EVERY order n  (Higham, Accuracy and Stability of Numerical Algorithms, 2nd ed., Thm 8.5).

   The model of FactorDefs.v is instantiated with [Rnd8_ops rnd tiny]: every add/sub/mul/div/sqrt is
   the exact real operation followed by rnd.  Nothing is assumed about rnd in the definition of the
   instance; the theorems assume [std_model rnd eps eta].  Overflow is outside that model.

   What is proved (componentwise residual form, with the gradual-underflow term eta kept explicit;
   a := 1/(1-eps),  GG k := a^k - 1 <= gamma_k = k eps/(1 - k eps),  HH k := (a+1)(1+a+..+a^(k-1))):
     plu_lower/ldl_lower (unit lower, forward):  |b - L y^|_r <= GG r     * (|L||y^|)_r + HH r eta
     plu_upper           (upper, backward, /u_rr): |b - U x^|_r <= GG (n-r) * (|U||x^|)_r + (..) eta
     llt_lower           (lower, forward,  /l_rr): |b - L y^|_r <= GG (r+1) * (|L||y^|)_r + (..) eta
     llt_upper           (L^T, backward,   /l_cc): |b - L^T x^|_c <= GG (n-c) * (|L^T||x^|)_c + (..) eta
     ldl_upper           (D L^T, /d_c first):      |b - D L^T x^|_c <= GG (n-c) * |d_c| (|L^T||x^|)_c + (..) eta
   [theorems ..._residual; the ..._backward_error theorems restate them with gamma_k under n eps < 1], the equivalent
   backward form [theorems ..._perturbed]: y^ is the EXACT solution of (T + dT) y^ = b + db with |dT| <= gamma_k |T|
   componentwise and |db| <= O(n) eta (explicit Oettli-Prager construction, no choice axiom; db = 0 when eta = 0),
   the compositions plu_solve / ldl_solve / llt_solve stage by stage on GIVEN factors, and non-vacuity examples.
   Binary64 instantiation: RoundSolve64.v.
   The factorisations' own backward error (|PA - LU| <= gamma_n |L||U| etc.) is NOT proved here. *)
From Coq Require Import ZArith List Reals Lia Lra Psatz Bool.
From LibaV Require Import Common.RoundOps.
From LibaV Require Import C08.NumOps C08.FactorDefs C08.Instances C08.Base C08.PluSteps.
Import ListNotations.
Local Open Scope R_scope.

(* ------------------------------------------------------------------------------------ the instance
   add/sub/mul/div/sqrt: exact operation, then rnd.  abs: exact (sign bit).  ltb/eqb: comparisons do
   not round, as in R_ops.  zero := 0 (the model has rnd 0 = 0), one := rnd 1 and ofZ z := rnd (IZR z)
   (an int -> double conversion rounds when |z| > 2^53; rounding the constants is the conservative
   choice, it can only add error terms; no theorem below goes through one/ofZ).  ln := rnd o ln says
   "libm log is correctly rounded", which real libms are not: no theorem below goes through ln. *)
Definition Rnd8_ops (rnd : R -> R) (tiny : R) : NumOps R := {|
  zero := 0; one := rnd 1;
  add := fun a b => rnd (a + b); sub := fun a b => rnd (a - b);
  mul := fun a b => rnd (a * b); div := fun a b => rnd (a / b);
  abs := Rabs; sqrt := fun a => rnd (R_sqrt.sqrt a); ln := fun a => rnd (Rpower.ln a);
  ltb := fun a b => if Rlt_dec a b then true else false;
  eqb := fun a b => if Req_EM_T a b then true else false;
  ofZ := fun z => rnd (IZR z);
  tiny := tiny
|}.

(* with the identity rounding it IS the real instance *)
Lemma Rnd8_ops_id tiny : Rnd8_ops (fun x => x) tiny = R_ops tiny.
Proof. reflexivity. Qed.

(* ------------------------------------------------------------------------------------ constants *)
Definition ainv (eps : R) : R := / (1 - eps).
Definition GG (eps : R) (k : nat) : R := ainv eps ^ k - 1.
Definition HH (eps : R) (k : nat) : R := (ainv eps + 1) * geo (ainv eps) k.

(* ------------------------------------------------------------------------------------ sums *)
Lemma isum_first f lo hi : (lo < hi)%nat -> isum f lo hi = f lo + isum f (S lo) hi.
Proof.
  induction hi as [|hi IH]; intros H; [lia|].
  destruct (Nat.eq_dec lo hi) as [->|N].
  - rewrite isum_S by lia. rewrite !isum_empty by lia. lra.
  - rewrite isum_S by lia. rewrite IH by lia. rewrite (isum_S f (S lo)) by lia. lra.
Qed.

Lemma rsum_abs_le f k : Rabs (rsum f k) <= rsum (fun i => Rabs (f i)) k.
Proof.
  induction k as [|k IH]; simpl; [rewrite Rabs_R0; lra|].
  eapply Rle_trans; [apply Rabs_triang|]. lra.
Qed.

Lemma isum_abs_le f lo hi : Rabs (isum f lo hi) <= isum (fun i => Rabs (f i)) lo hi.
Proof.
  unfold isum. eapply Rle_trans; [apply rsum_abs_le|]. apply Req_le. apply rsum_ext.
  intros i _. destruct (Nat.leb lo i); [reflexivity|apply Rabs_R0].
Qed.

Lemma isum_nonneg f lo hi : (forall i, (lo <= i < hi)%nat -> 0 <= f i) -> 0 <= isum f lo hi.
Proof.
  intros H. unfold isum. apply rsum_nonneg. intros i Hi.
  destruct (Nat.leb_spec lo i); [apply H; lia|lra].
Qed.

Lemma rsum_le f g k : (forall i, (i < k)%nat -> f i <= g i) -> rsum f k <= rsum g k.
Proof.
  induction k as [|k IH]; intros H; simpl; [lra|].
  specialize (IH (fun i Hi => H i (Nat.lt_lt_succ_r _ _ Hi))). specialize (H k (Nat.lt_succ_diag_r k)). lra.
Qed.

(* ------------------------------------------------------------------------------------ real arithmetic cores *)
(* one step  s -> rnd (s - rnd p)  seen from the END of the loop *)
Lemma step_arith (a eps eta g h T S1 Sm A Pl Rem R0 : R) :
  0 <= eps -> a * (1 - eps) = 1 -> 1 <= a -> 0 <= eta -> 0 <= g -> 0 <= h -> 0 <= A -> 0 <= Sm -> 0 <= Pl ->
  (1 - eps) * T <= S1 + eta ->
  S1 <= Sm + A + Rem ->
  Rem <= g * (Sm + A) + h * eta ->
  R0 <= (eps * T + eta) + (eps * Pl + eta) + Rem ->
  R0 <= (a * g + (a - 1)) * (Sm + Pl + A) + (a * h + (a + 1)) * eta.
Proof.
  intros He Ha Ha1 Hn Hg Hh HA HSm HPl H1 H2 H3 H4.
  assert (Ea : a - 1 = eps * a) by nra.
  assert (Hea : 0 <= eps * a) by nra.
  assert (E1 : eps * T <= (a - 1) * (S1 + eta)).
  { rewrite Ea. replace (eps * T) with ((eps * a) * ((1 - eps) * T)) by (rewrite <- Rmult_assoc, (Rmult_assoc eps a), Ha; ring).
    apply Rmult_le_compat_l; assumption. }
  assert (E2 : (a - 1) * (S1 + eta) <= (a - 1) * (Sm + A + Rem + eta)).
  { apply Rmult_le_compat_l; lra. }
  assert (E3 : a * Rem <= a * (g * (Sm + A) + h * eta)).
  { apply Rmult_le_compat_l; lra. }
  assert (E4 : eps * Pl <= (a * g + (a - 1)) * Pl).
  { apply Rmult_le_compat_r; [assumption|]. assert (0 <= a * g) by (apply Rmult_le_pos; lra). nra. }
  nra.
Qed.

(* the final division  x = rnd (s / u) *)
Lemma div_arith (a eps eta g h Sm UX A Uu Rem D R0 : R) :
  0 <= eps -> a * (1 - eps) = 1 -> 1 <= a -> 0 <= eta -> 0 <= g -> 0 <= h -> 0 <= A -> 0 <= Sm -> 0 <= UX -> 0 <= Uu ->
  (1 - eps) * Sm <= UX + Uu * eta ->
  D <= eps * Sm + Uu * eta ->
  Rem <= g * (Sm + A) + h * eta ->
  R0 <= Rem + D ->
  R0 <= (a * g + (a - 1)) * (UX + A) + (h + (a * g + a) * Uu) * eta.
Proof.
  intros He Ha Ha1 Hn Hg Hh HA HSm HUX HUu H1 H2 H3 H4.
  assert (Ea : a - 1 = eps * a) by nra.
  assert (E1 : (g + eps) * Sm <= (a * g + (a - 1)) * (UX + Uu * eta)).
  { replace ((g + eps) * Sm) with (((g + eps) * a) * ((1 - eps) * Sm))
      by (rewrite <- Rmult_assoc, (Rmult_assoc (g + eps) a), Ha; ring).
    replace (a * g + (a - 1)) with ((g + eps) * a) by (rewrite Ea; ring).
    apply Rmult_le_compat_l; [|assumption]. apply Rmult_le_pos; lra. }
  assert (E2 : g * A <= (a * g + (a - 1)) * A).
  { apply Rmult_le_compat_r; [assumption|]. nra. }
  nra.
Qed.

(* the initial division  s0 = rnd (b / d)  of ldl_upper *)
Lemma div0_arith (a eps eta g h Bb DS S0 Xh A Dd Rem : R) :
  0 <= eps -> a * (1 - eps) = 1 -> 1 <= a -> 0 <= eta -> 0 <= g -> 0 <= h -> 0 <= A -> 0 <= Xh -> 0 <= Dd ->
  (1 - eps) * Bb <= Dd * S0 + Dd * eta ->
  DS <= eps * Bb + Dd * eta ->
  S0 <= Xh + A + Rem ->
  Rem <= g * (Xh + A) + h * eta ->
  DS + Dd * Rem <= Dd * ((a * g + (a - 1)) * (Xh + A) + (a * h + a) * eta).
Proof.
  intros He Ha Ha1 Hn Hg Hh HA HXh HDd H1 H2 H3 H4.
  assert (Ea : a - 1 = eps * a) by nra.
  assert (Hea : 0 <= eps * a) by nra.
  assert (E1 : eps * Bb <= (a - 1) * (Dd * S0 + Dd * eta)).
  { rewrite Ea. replace (eps * Bb) with ((eps * a) * ((1 - eps) * Bb)) by (rewrite <- Rmult_assoc, (Rmult_assoc eps a), Ha; ring).
    apply Rmult_le_compat_l; assumption. }
  assert (E2 : Dd * S0 <= Dd * (Xh + A + Rem)) by (apply Rmult_le_compat_l; lra).
  assert (E3 : Dd * Rem <= Dd * (g * (Xh + A) + h * eta)) by (apply Rmult_le_compat_l; lra).
  assert (E4 : (a - 1) * (Dd * S0) <= (a - 1) * (Dd * (Xh + A + Rem))) by (apply Rmult_le_compat_l; lra).
  assert (E5 : a * (Dd * Rem) <= a * (Dd * (g * (Xh + A) + h * eta))) by (apply Rmult_le_compat_l; lra).
  nra.
Qed.

(* ------------------------------------------------------------------------------------ the scalar recurrence *)
(* what one row of a substitution computes:  s := rnd (s - rnd (p c))  for c = lo .. lo+cnt-1 *)
Fixpoint rsub (rnd : R -> R) (p : nat -> R) (lo cnt : nat) (s : R) : R :=
  match cnt with
  | O => s
  | S k => rsub rnd p (S lo) k (rnd (s - rnd (p lo)))
  end.

Lemma rsub_ext rnd p p' : forall cnt lo s,
  (forall c, (lo <= c < lo + cnt)%nat -> p c = p' c) -> rsub rnd p lo cnt s = rsub rnd p' lo cnt s.
Proof.
  induction cnt as [|k IH]; intros lo s H; cbn [rsub]; [reflexivity|].
  rewrite (H lo) by lia. apply IH. intros c Hc. apply H. lia.
Qed.

Section Scalar.
Variable rnd : R -> R.
Variables eps eta : R.
Hypothesis M : std_model rnd eps eta.

Let a := ainv eps.

Lemma a_inv : a * (1 - eps) = 1.
Proof. unfold a, ainv. pose proof (eps_lt _ _ _ M). apply Rinv_l. lra. Qed.
Lemma a_ge1 : 1 <= a.
Proof.
  pose proof a_inv as H. pose proof (eps_ge0 _ _ _ M). pose proof (eps_lt _ _ _ M).
  assert (0 < a) by (unfold a, ainv; apply Rinv_0_lt_compat; lra). nra.
Qed.
Lemma a_le : a <= 4 / 3.
Proof. pose proof a_inv as H. pose proof (eps_ge0 _ _ _ M). pose proof (eps_lt _ _ _ M). pose proof a_ge1. nra. Qed.

Lemma GG_0 : GG eps 0 = 0.
Proof. unfold GG. simpl. ring. Qed.
Lemma GG_S k : GG eps (S k) = a * GG eps k + (a - 1).
Proof. unfold GG. fold a. simpl. ring. Qed.
Lemma GG_ge0 k : 0 <= GG eps k.
Proof. unfold GG. fold a. pose proof (pow_R1_Rle a k a_ge1). lra. Qed.
Lemma GG_mono j k : (j <= k)%nat -> GG eps j <= GG eps k.
Proof. intros H. unfold GG. fold a. pose proof (Rle_pow a j k a_ge1 H). lra. Qed.
Lemma GG_pow k : ainv eps ^ k = 1 + GG eps k.
Proof. unfold GG. ring. Qed.
Lemma HH_0 : HH eps 0 = 0.
Proof. unfold HH, geo. simpl. ring. Qed.
Lemma HH_S k : HH eps (S k) = a * HH eps k + (a + 1).
Proof. unfold HH. fold a. rewrite geo_S. ring. Qed.
Lemma HH_ge0 k : 0 <= HH eps k.
Proof. unfold HH. fold a. pose proof a_ge1. apply Rmult_le_pos; [lra|apply geo_nonneg; lra]. Qed.

(* GG k = (1-eps)^-k - 1 <= gamma_k  as soon as k eps < 1 *)
Lemma GG_gamma_aux k : a ^ k * (1 - INR k * eps) <= 1.
Proof.
  pose proof (eps_ge0 _ _ _ M) as He. pose proof a_inv as Ha. pose proof a_ge1 as Ha1.
  induction k as [|k IH]; [simpl; lra|].
  rewrite S_INR. cbn [pow]. pose proof (pos_INR k) as Hk.
  assert (Hp : 0 < a ^ k) by (apply pow_lt; lra).
  eapply Rle_trans; [|exact IH].
  replace (a * a ^ k * (1 - (INR k + 1) * eps)) with (a ^ k * (a * (1 - (INR k + 1) * eps))) by ring.
  apply Rmult_le_compat_l; [lra|].
  (* a (1 - (k+1) eps) <= 1 - k eps  <=  (1 - (k+1) eps) <= (1 - eps)(1 - k eps) *)
  replace (1 - INR k * eps) with (a * ((1 - eps) * (1 - INR k * eps))) by (rewrite <- Rmult_assoc, Ha; ring).
  apply Rmult_le_compat_l; [lra|]. nra.
Qed.
Lemma GG_le_gamma k : INR k * eps < 1 -> GG eps k <= gamma eps k.
Proof.
  intros H. pose proof (GG_gamma_aux k) as A. unfold gamma, GG. fold a.
  assert (P : 0 < 1 - INR k * eps) by lra.
  apply (Rmult_le_reg_r (1 - INR k * eps)); [exact P|].
  unfold Rdiv. rewrite Rmult_assoc, Rinv_l by lra. lra.
Qed.
Lemma gamma_mono j k : (j <= k)%nat -> INR k * eps < 1 -> gamma eps j <= gamma eps k.
Proof.
  intros Hjk H. pose proof (eps_ge0 _ _ _ M) as He. apply le_INR in Hjk. pose proof (pos_INR j) as Hj.
  unfold gamma.
  assert (Pk : 0 < 1 - INR k * eps) by lra.
  assert (Pj : 0 < 1 - INR j * eps) by nra.
  apply (Rmult_le_reg_r ((1 - INR j * eps) * (1 - INR k * eps))); [apply Rmult_lt_0_compat; lra|].
  replace (INR j * eps / (1 - INR j * eps) * ((1 - INR j * eps) * (1 - INR k * eps)))
    with (INR j * eps * (1 - INR k * eps)) by (field; lra).
  replace (INR k * eps / (1 - INR k * eps) * ((1 - INR j * eps) * (1 - INR k * eps)))
    with (INR k * eps * (1 - INR j * eps)) by (field; lra).
  nra.
Qed.
(* 1 + q + .. + q^(m-1) <= m q^m  for q >= 1, hence HH k <= 3 k (1 + GG k) *)
Lemma geo_le q m : 1 <= q -> geo q m <= INR m * q ^ m.
Proof.
  intros Hq. induction m as [|m IH]; [unfold geo; simpl; lra|].
  rewrite geo_S_r, S_INR. cbn [pow]. pose proof (pos_INR m).
  assert (0 < q ^ m) by (apply pow_lt; lra).
  assert (INR m * q ^ m <= INR m * (q * q ^ m)) by (apply Rmult_le_compat_l; nra).
  nra.
Qed.
Lemma HH_le k : HH eps k <= 3 * INR k * (1 + GG eps k).
Proof.
  unfold HH. fold a. rewrite <- GG_pow. fold a. pose proof (geo_le a k a_ge1) as H. pose proof a_le. pose proof a_ge1.
  pose proof (geo_nonneg a k ltac:(lra)). nra.
Qed.

(* ---- the row theorem: b - sum p - s_final  against  |s_final| + sum |p| ---- *)
Lemma rsub_bound p : forall cnt lo s,
  Rabs (s - isum p lo (lo + cnt) - rsub rnd p lo cnt s)
  <= GG eps cnt * (Rabs (rsub rnd p lo cnt s) + isum (fun c => Rabs (p c)) lo (lo + cnt)) + HH eps cnt * eta.
Proof.
  induction cnt as [|k IH]; intros lo s.
  - cbn [rsub]. rewrite Nat.add_0_r, !isum_empty by lia. rewrite GG_0, HH_0.
    replace (s - 0 - s) with 0 by ring. rewrite Rabs_R0. lra.
  - cbn [rsub]. specialize (IH (S lo) (rnd (s - rnd (p lo)))).
    replace (lo + S k)%nat with (S lo + k)%nat by lia.
    rewrite !(isum_first _ lo (S lo + k)) by lia.
    pose proof (rnd_err _ _ _ M (s - rnd (p lo))) as Ht.
    pose proof (rnd_err _ _ _ M (p lo)) as Hq.
    pose proof (isum_abs_le p (S lo) (S lo + k)) as HP.
    assert (HA : 0 <= isum (fun c => Rabs (p c)) (S lo) (S lo + k)) by (apply isum_nonneg; intros; apply Rabs_pos).
    set (q := rnd (p lo)) in *. set (t := s - q) in *. set (s1 := rnd t) in *.
    set (sm := rsub rnd p (S lo) k s1) in *.
    set (P' := isum p (S lo) (S lo + k)) in *. set (A' := isum (fun c => Rabs (p c)) (S lo) (S lo + k)) in *.
    rewrite GG_S, HH_S.
    replace (Rabs sm + (Rabs (p lo) + A')) with (Rabs sm + Rabs (p lo) + A') by ring.
    apply (step_arith a eps eta (GG eps k) (HH eps k) (Rabs t) (Rabs s1) (Rabs sm) A' (Rabs (p lo)) (Rabs (s1 - P' - sm)));
      try (apply Rabs_pos); try assumption.
    + exact (eps_ge0 _ _ _ M).
    + exact a_inv.
    + exact a_ge1.
    + exact (eta_ge0 _ _ _ M).
    + apply GG_ge0.
    + apply HH_ge0.
    + assert (Rabs t <= Rabs (t - s1) + Rabs s1).
      { replace t with ((t - s1) + s1) at 1 by ring. apply Rabs_triang. }
      rewrite (Rabs_minus_sym t s1) in *. lra.
    + replace s1 with ((s1 - P' - sm) + P' + sm) at 1 by ring.
      eapply Rle_trans; [apply Rabs_triang|]. 
      assert (Rabs (s1 - P' - sm + P') <= Rabs (s1 - P' - sm) + Rabs P') by apply Rabs_triang. lra.
    + replace (s - (p lo + P') - sm) with ((t - s1) + (q - p lo) + (s1 - P' - sm)) by (unfold t; ring).
      eapply Rle_trans; [apply Rabs_triang|].
      assert (Rabs (t - s1 + (q - p lo)) <= Rabs (t - s1) + Rabs (q - p lo)) by apply Rabs_triang.
      rewrite (Rabs_minus_sym t s1) in *. lra.
Qed.

(* ---- ... followed by the division by the diagonal ---- *)
Lemma rsub_div_bound p u cnt lo s : u <> 0 ->
  Rabs (s - isum p lo (lo + cnt) - u * rnd (rsub rnd p lo cnt s / u))
  <= GG eps (S cnt) * (Rabs (u * rnd (rsub rnd p lo cnt s / u)) + isum (fun c => Rabs (p c)) lo (lo + cnt))
     + (HH eps cnt + ainv eps ^ S cnt * Rabs u) * eta.
Proof.
  intros Hu. pose proof (rsub_bound p cnt lo s) as HR.
  assert (HA : 0 <= isum (fun c => Rabs (p c)) lo (lo + cnt)) by (apply isum_nonneg; intros; apply Rabs_pos).
  set (sm := rsub rnd p lo cnt s) in *. set (P := isum p lo (lo + cnt)) in *.
  set (A := isum (fun c => Rabs (p c)) lo (lo + cnt)) in *.
  pose proof (rnd_err _ _ _ M (sm / u)) as Hd. set (xh := rnd (sm / u)) in *.
  assert (Hau : 0 < Rabs u) by (apply Rabs_pos_lt; exact Hu).
  assert (HD : Rabs (u * xh - sm) <= eps * Rabs sm + Rabs u * eta).
  { replace (u * xh - sm) with (u * (xh - sm / u)) by (field; exact Hu).
    rewrite Rabs_mult.
    replace (eps * Rabs sm + Rabs u * eta) with (Rabs u * (eps * Rabs (sm / u) + eta)).
    - apply Rmult_le_compat_l; lra.
    - unfold Rdiv. rewrite Rabs_mult, Rabs_inv. field. lra. }
  rewrite GG_S. fold a.
  replace (a ^ S cnt) with (a * GG eps cnt + a) by (unfold GG; fold a; simpl; ring).
  apply (div_arith a eps eta (GG eps cnt) (HH eps cnt) (Rabs sm) (Rabs (u * xh)) A (Rabs u) (Rabs (s - P - sm)) (Rabs (u * xh - sm)));
    try (apply Rabs_pos); try assumption.
  - exact (eps_ge0 _ _ _ M).
  - exact a_inv.
  - exact a_ge1.
  - exact (eta_ge0 _ _ _ M).
  - apply GG_ge0.
  - apply HH_ge0.
  - assert (Rabs sm <= Rabs (sm - u * xh) + Rabs (u * xh)).
    { replace sm with ((sm - u * xh) + u * xh) at 1 by ring. apply Rabs_triang. }
    rewrite (Rabs_minus_sym sm) in *. lra.
  - replace (s - P - u * xh) with ((s - P - sm) + (sm - u * xh)) by ring.
    rewrite (Rabs_minus_sym (u * xh) sm). apply Rabs_triang.
Qed.

(* ---- the order of ldl_upper: divide first, s0 = rnd (b / d), then the subtractions ---- *)
Lemma div_rsub_bound p d cnt lo b : d <> 0 ->
  Rabs (b - d * (isum p lo (lo + cnt) + rsub rnd p lo cnt (rnd (b / d))))
  <= Rabs d * (GG eps (S cnt) * (Rabs (rsub rnd p lo cnt (rnd (b / d))) + isum (fun c => Rabs (p c)) lo (lo + cnt))
               + (ainv eps * HH eps cnt + ainv eps) * eta).
Proof.
  intros Hd0. pose proof (rsub_bound p cnt lo (rnd (b / d))) as HR.
  assert (HA : 0 <= isum (fun c => Rabs (p c)) lo (lo + cnt)) by (apply isum_nonneg; intros; apply Rabs_pos).
  pose proof (isum_abs_le p lo (lo + cnt)) as HP.
  pose proof (rnd_err _ _ _ M (b / d)) as Hd. set (s0 := rnd (b / d)) in *.
  set (xh := rsub rnd p lo cnt s0) in *. set (P := isum p lo (lo + cnt)) in *.
  set (A := isum (fun c => Rabs (p c)) lo (lo + cnt)) in *.
  assert (Had : 0 < Rabs d) by (apply Rabs_pos_lt; exact Hd0).
  assert (HD : Rabs (d * s0 - b) <= eps * Rabs b + Rabs d * eta).
  { replace (d * s0 - b) with (d * (s0 - b / d)) by (field; exact Hd0).
    rewrite Rabs_mult.
    replace (eps * Rabs b + Rabs d * eta) with (Rabs d * (eps * Rabs (b / d) + eta)).
    - apply Rmult_le_compat_l; lra.
    - unfold Rdiv. rewrite Rabs_mult, Rabs_inv. field. lra. }
  rewrite GG_S. fold a.
  eapply Rle_trans; [|apply (div0_arith a eps eta (GG eps cnt) (HH eps cnt) (Rabs b) (Rabs (d * s0 - b)) (Rabs s0) (Rabs xh) A (Rabs d)
                              (Rabs (s0 - P - xh))); try (apply Rabs_pos); try assumption].
  - replace (b - d * (P + xh)) with ((b - d * s0) + d * (s0 - P - xh)) by ring.
    eapply Rle_trans; [apply Rabs_triang|]. rewrite Rabs_mult, (Rabs_minus_sym b). lra.
  - exact (eps_ge0 _ _ _ M).
  - exact a_inv.
  - exact a_ge1.
  - exact (eta_ge0 _ _ _ M).
  - apply GG_ge0.
  - apply HH_ge0.
  - assert (Rabs b <= Rabs (b - d * s0) + Rabs (d * s0)).
    { replace b with ((b - d * s0) + d * s0) at 1 by ring. apply Rabs_triang. }
    rewrite (Rabs_minus_sym b), Rabs_mult in *. lra.
  - replace s0 with ((s0 - P - xh) + P + xh) at 1 by ring.
    eapply Rle_trans; [apply Rabs_triang|].
    assert (Rabs (s0 - P - xh + P) <= Rabs (s0 - P - xh) + Rabs P) by apply Rabs_triang. lra.
Qed.

End Scalar.

(* ------------------------------------------------------------------------------------ the loops of the model *)
Section Arrays.
Variable rnd : R -> R.
Variable tiny : R.
Let QO := Rnd8_ops rnd tiny.
Variable n : nat.

Local Notation vg y r := (nth r y 0).

(* y[r] -= M[coef c] * y[c]  for c = lo .. hi-1  computes the scalar recurrence on y[r] *)
Lemma axpy_round (Mx : list R) (coef : nat -> nat) (cv : nat -> R) r : forall cnt lo (y : list R),
  (forall c, (lo <= c < lo + cnt)%nat -> rd Mx (coef c) = Some (cv c)) ->
  (r < length y)%nat -> (forall c, (lo <= c < lo + cnt)%nat -> (c < length y)%nat /\ c <> r) ->
  exists y',
    forM lo cnt (fun c y => do yr <- rd y r; do l <- rd Mx (coef c); do yc <- rd y c;
                            wr y r (sub QO yr (mul QO l yc))) y = Some y' /\
    length y' = length y /\
    (forall k, k <> r -> vg y' k = vg y k) /\
    vg y' r = rsub rnd (fun c => cv c * vg y c) lo cnt (vg y r).
Proof.
  induction cnt as [|k IH]; intros lo y Hcoef Hr Hc.
  - exists y. cbn [forM rsub]. auto.
  - cbn [forM].
    destruct (Hc lo ltac:(lia)) as [Hlo Nlo].
    rewrite (rd_some 0) by exact Hr. rewrite Hcoef by lia. rewrite (rd_some 0) by exact Hlo.
    rewrite wr_some by exact Hr.
    unfold QO at 1 2. cbn [sub mul Rnd8_ops].
    set (y1 := upd y r (rnd (vg y r - rnd (cv lo * vg y lo)))).
    assert (L1 : length y1 = length y) by (unfold y1; apply upd_length).
    destruct (IH (S lo) y1) as (y' & E & L' & F' & V').
    + intros c Hc'. apply Hcoef. lia.
    + rewrite L1. exact Hr.
    + intros c Hc'. rewrite L1. apply Hc. lia.
    + exists y'. split; [exact E|]. split; [congruence|]. split.
      * intros j Hj. rewrite F' by exact Hj. unfold y1. apply nth_upd_other. exact Hj.
      * rewrite V'. cbn [rsub]. unfold y1 at 2. rewrite nth_upd_same by exact Hr.
        apply rsub_ext. intros c Hc'. f_equal. unfold y1. apply nth_upd_other.
        apply (Hc c). lia.
Qed.

Lemma axpy_range (Mx : list R) (coef : nat -> nat) (cv : nat -> R) r lo hi (y : list R) :
  (forall c, (lo <= c < hi)%nat -> rd Mx (coef c) = Some (cv c)) ->
  (r < length y)%nat -> (forall c, (lo <= c < hi)%nat -> (c < length y)%nat /\ c <> r) ->
  exists y',
    for_range lo hi (fun c y => do yr <- rd y r; do l <- rd Mx (coef c); do yc <- rd y c;
                                wr y r (sub QO yr (mul QO l yc))) y = Some y' /\
    length y' = length y /\
    (forall k, k <> r -> vg y' k = vg y k) /\
    vg y' r = rsub rnd (fun c => cv c * vg y c) lo (hi - lo) (vg y r).
Proof.
  intros Hcoef Hr Hc. unfold for_range. apply axpy_round; auto.
  - intros c Hc'. apply Hcoef. lia.
  - intros c Hc'. apply Hc. lia.
Qed.

(* y[r] /= M[d] *)
Lemma div_round (Mx : list R) (d : nat) (dv : R) r (y : list R) :
  rd Mx d = Some dv -> (r < length y)%nat ->
  exists y',
    (do yr <- rd y r; do l <- rd Mx d; wr y r (div QO yr l)) = Some y' /\
    length y' = length y /\
    (forall k, k <> r -> vg y' k = vg y k) /\
    vg y' r = rnd (vg y r / dv).
Proof.
  intros Hd Hr.
  rewrite (rd_some 0) by exact Hr. rewrite Hd. rewrite wr_some by exact Hr.
  eexists. split; [reflexivity|]. split; [apply upd_length|]. split.
  - intros k Hk. now apply nth_upd_other.
  - rewrite nth_upd_same by exact Hr. reflexivity.
Qed.

Lemma idx_diag' c : ((n + 1) * c = n * c + c)%nat.
Proof. lia. Qed.
Lemma idx_walk' c r : (c <= r)%nat -> ((n + 1) * c + n * (r - c) = n * r + c)%nat.
Proof.
  intros H. rewrite Nat.mul_sub_distr_l.
  assert (n * c <= n * r)%nat by (apply Nat.mul_le_mono_l; auto). lia.
Qed.

(* ---- a_real_plu_lower = a_real_ldl_lower: every component is the scalar recurrence of its row ---- *)
Lemma lower_rec (L y : list R) :
  length L = (n * n)%nat -> length y = n ->
  exists y', plu_lower QO n L y = Some y' /\ length y' = n /\
    forall r, (r < n)%nat -> vg y' r = rsub rnd (fun c => mg n L r c * vg y' c) 0 r (vg y r).
Proof.
  intros LL Ly. unfold plu_lower.
  destruct (for_range_inv
              (fun k (y' : list R) =>
                 length y' = n /\
                 (forall r, (k <= r < n)%nat -> vg y' r = vg y r) /\
                 (forall r, (r < k)%nat -> vg y' r = rsub rnd (fun c => mg n L r c * vg y' c) 0 r (vg y r)))
              0 n
              (fun r y => for_range 0 r (fun c y =>
                 do yr <- rd y r; do l <- rd L (n * r + c); do yc <- rd y c;
                 wr y r (sub QO yr (mul QO l yc))) y) y) as (y' & E & L' & _ & P').
  - lia.
  - repeat split; auto. intros; lia.
  - intros k y1 [_ Hk] (L1 & U1 & D1).
    destruct (axpy_range L (fun c => (n * k + c)%nat) (fun c => mg n L k c) k 0 k y1) as (y2 & E2 & L2 & F2 & V2).
    + intros c Hc. apply (rd_mg n); auto; lia.
    + lia.
    + intros c Hc. lia.
    + exists y2. split; [exact E2|]. split; [congruence|]. split.
      * intros r Hr. rewrite F2 by lia. apply U1. lia.
      * intros r Hr. destruct (Nat.eq_dec r k) as [->|N].
        -- rewrite V2. rewrite U1 by lia. rewrite Nat.sub_0_r. apply rsub_ext.
           intros c Hc. rewrite F2 by lia. reflexivity.
        -- rewrite F2 by lia. rewrite D1 by lia. apply rsub_ext.
           intros c Hc. rewrite F2 by lia. reflexivity.
  - exists y'. split; [exact E|]. split; auto.
Qed.

(* ---- a_real_plu_upper ---- *)
Lemma upper_rec (U x : list R) :
  length U = (n * n)%nat -> length x = n ->
  exists x', plu_upper QO n U x = Some x' /\ length x' = n /\
    forall r, (r < n)%nat ->
      vg x' r = rnd (rsub rnd (fun c => mg n U r c * vg x' c) (r + 1) (n - (r + 1)) (vg x r) / mg n U r r).
Proof.
  intros LU Lx. unfold plu_upper.
  destruct (for_down_inv
              (fun k (x' : list R) =>
                 length x' = n /\
                 (forall r, (r < k)%nat -> vg x' r = vg x r) /\
                 (forall r, (k <= r < n)%nat ->
                    vg x' r = rnd (rsub rnd (fun c => mg n U r c * vg x' c) (r + 1) (n - (r + 1)) (vg x r) / mg n U r r)))
              (fun r x =>
                 do x1 <- for_range (r + 1) n (fun c x =>
                            do xr <- rd x r; do u <- rd U (n * r + c); do xc <- rd x c;
                            wr x r (sub QO xr (mul QO u xc))) x;
                 do xr <- rd x1 r; do u <- rd U (n * r + r);
                 wr x1 r (div QO xr u)) n x) as (x' & E & L' & _ & P').
  - repeat split; auto. intros; lia.
  - intros k x1 Hk (L1 & U1 & D1).
    destruct (axpy_range U (fun c => (n * k + c)%nat) (fun c => mg n U k c) k (k + 1) n x1) as (x2 & E2 & L2 & F2 & V2).
    + intros c Hc. apply (rd_mg n); auto; lia.
    + lia.
    + intros c Hc. lia.
    + rewrite E2.
      destruct (div_round U (n * k + k)%nat (mg n U k k) k x2) as (x3 & E3 & L3 & F3 & V3).
      * apply (rd_mg n); auto.
      * lia.
      * exists x3. split; [exact E3|]. split; [congruence|].
        assert (Hfr : forall c, c <> k -> vg x3 c = vg x1 c).
        { intros c Nc. rewrite F3, F2 by exact Nc. reflexivity. }
        split.
        -- intros r Hr. rewrite Hfr by lia. apply U1. lia.
        -- intros r Hr. destruct (Nat.eq_dec r k) as [->|N].
           ++ rewrite V3, V2. rewrite U1 by lia. f_equal. f_equal. apply rsub_ext.
              intros c Hc. rewrite Hfr by lia. reflexivity.
           ++ rewrite Hfr by lia. rewrite D1 by lia. f_equal. f_equal. apply rsub_ext.
              intros c Hc. rewrite Hfr by lia. reflexivity.
  - exists x'. split; [exact E|]. split; auto. intros r Hr. apply P'. lia.
Qed.

(* ---- a_real_llt_lower ---- *)
Lemma llt_lower_rec (L y : list R) :
  length L = (n * n)%nat -> length y = n ->
  exists y', llt_lower QO n L y = Some y' /\ length y' = n /\
    forall r, (r < n)%nat ->
      vg y' r = rnd (rsub rnd (fun c => mg n L r c * vg y' c) 0 r (vg y r) / mg n L r r).
Proof.
  intros LL Ly. unfold llt_lower.
  destruct (for_range_inv
              (fun k (y' : list R) =>
                 length y' = n /\
                 (forall r, (k <= r < n)%nat -> vg y' r = vg y r) /\
                 (forall r, (r < k)%nat ->
                    vg y' r = rnd (rsub rnd (fun c => mg n L r c * vg y' c) 0 r (vg y r) / mg n L r r)))
              0 n
              (fun r y =>
                 do y1 <- for_range 0 r (fun c y =>
                            do yr <- rd y r; do l <- rd L (n * r + c); do yc <- rd y c;
                            wr y r (sub QO yr (mul QO l yc))) y;
                 do yr <- rd y1 r; do l <- rd L (n * r + r);
                 wr y1 r (div QO yr l)) y) as (y' & E & L' & _ & P').
  - lia.
  - repeat split; auto. intros; lia.
  - intros k y1 [_ Hk] (L1 & U1 & D1).
    destruct (axpy_range L (fun c => (n * k + c)%nat) (fun c => mg n L k c) k 0 k y1) as (y2 & E2 & L2 & F2 & V2).
    + intros c Hc. apply (rd_mg n); auto; lia.
    + lia.
    + intros c Hc. lia.
    + rewrite E2.
      destruct (div_round L (n * k + k)%nat (mg n L k k) k y2) as (y3 & E3 & L3 & F3 & V3).
      * apply (rd_mg n); auto.
      * lia.
      * exists y3. split; [exact E3|]. split; [congruence|].
        assert (Hfr : forall c, c <> k -> vg y3 c = vg y1 c).
        { intros c Nc. rewrite F3, F2 by exact Nc. reflexivity. }
        split.
        -- intros r Hr. rewrite Hfr by lia. apply U1. lia.
        -- intros r Hr. destruct (Nat.eq_dec r k) as [->|N].
           ++ rewrite V3, V2. rewrite U1 by lia. rewrite Nat.sub_0_r. f_equal. f_equal. apply rsub_ext.
              intros c Hc. rewrite Hfr by lia. reflexivity.
           ++ rewrite Hfr by lia. rewrite D1 by lia. f_equal. f_equal. apply rsub_ext.
              intros c Hc. rewrite Hfr by lia. reflexivity.
  - exists y'. split; [exact E|]. split; auto.
Qed.

(* ---- a_real_llt_upper: L^T x = y, the column of L walked with stride n ---- *)
Lemma llt_upper_rec (L x : list R) :
  length L = (n * n)%nat -> length x = n ->
  exists x', llt_upper QO n L x = Some x' /\ length x' = n /\
    forall c, (c < n)%nat ->
      vg x' c = rnd (rsub rnd (fun r => mg n L r c * vg x' r) (c + 1) (n - (c + 1)) (vg x c) / mg n L c c).
Proof.
  intros LL Lx. unfold llt_upper.
  destruct (for_down_inv
              (fun k (x' : list R) =>
                 length x' = n /\
                 (forall c, (c < k)%nat -> vg x' c = vg x c) /\
                 (forall c, (k <= c < n)%nat ->
                    vg x' c = rnd (rsub rnd (fun r => mg n L r c * vg x' r) (c + 1) (n - (c + 1)) (vg x c) / mg n L c c)))
              (fun c x =>
                 do lcc <- rd L ((n + 1) * c);
                 do x1 <- for_range (c + 1) n (fun r x =>
                            do xc <- rd x c; do l <- rd L ((n + 1) * c + n * (r - c)); do xr <- rd x r;
                            wr x c (sub QO xc (mul QO l xr))) x;
                 do xc <- rd x1 c;
                 wr x1 c (div QO xc lcc)) n x) as (x' & E & L' & _ & P').
  - repeat split; auto. intros; lia.
  - intros k x1 Hk (L1 & U1 & D1).
    assert (Hd : rd L ((n + 1) * k) = Some (mg n L k k)) by (rewrite idx_diag'; apply (rd_mg n); auto).
    rewrite Hd.
    destruct (axpy_range L (fun r => ((n + 1) * k + n * (r - k))%nat) (fun r => mg n L r k) k (k + 1) n x1)
      as (x2 & E2 & L2 & F2 & V2).
    + intros r Hr. rewrite idx_walk' by lia. apply (rd_mg n); auto; lia.
    + lia.
    + intros r Hr. lia.
    + rewrite E2.
      rewrite (rd_some 0) by lia. rewrite wr_some by lia.
      unfold QO at 1. cbn [div Rnd8_ops].
      set (x3 := upd x2 k (rnd (vg x2 k / mg n L k k))).
      exists x3. split; [reflexivity|]. split; [unfold x3; rewrite upd_length; congruence|].
      assert (Hfr : forall c, c <> k -> vg x3 c = vg x1 c).
      { intros c Nc. unfold x3. rewrite nth_upd_other by exact Nc. apply F2. exact Nc. }
      split.
      * intros c Hc. rewrite Hfr by lia. apply U1. lia.
      * intros c Hc. destruct (Nat.eq_dec c k) as [->|N].
        -- unfold x3 at 1. rewrite nth_upd_same by lia. rewrite V2. rewrite U1 by lia. f_equal. f_equal.
           apply rsub_ext. intros r Hr. rewrite Hfr by lia. reflexivity.
        -- rewrite Hfr by lia. rewrite D1 by lia. f_equal. f_equal. apply rsub_ext.
           intros r Hr. rewrite Hfr by lia. reflexivity.
  - exists x'. split; [exact E|]. split; auto. intros c Hc. apply P'. lia.
Qed.

(* ---- a_real_ldl_upper: D L^T x = y, x[c] /= d_c FIRST, then the subtractions ---- *)
Lemma ldl_upper_rec (L x : list R) :
  length L = (n * n)%nat -> length x = n ->
  exists x', ldl_upper QO n L x = Some x' /\ length x' = n /\
    forall c, (c < n)%nat ->
      vg x' c = rsub rnd (fun r => mg n L r c * vg x' r) (c + 1) (n - (c + 1)) (rnd (vg x c / mg n L c c)).
Proof.
  intros LL Lx. unfold ldl_upper.
  destruct (for_down_inv
              (fun k (x' : list R) =>
                 length x' = n /\
                 (forall c, (c < k)%nat -> vg x' c = vg x c) /\
                 (forall c, (k <= c < n)%nat ->
                    vg x' c = rsub rnd (fun r => mg n L r c * vg x' r) (c + 1) (n - (c + 1)) (rnd (vg x c / mg n L c c))))
              (fun c x =>
                 do xc <- rd x c; do d <- rd L ((n + 1) * c);
                 do x1 <- wr x c (div QO xc d);
                 for_range (c + 1) n (fun r x =>
                   do xc <- rd x c; do l <- rd L ((n + 1) * c + n * (r - c)); do xr <- rd x r;
                   wr x c (sub QO xc (mul QO l xr))) x1) n x) as (x' & E & L' & _ & P').
  - repeat split; auto. intros; lia.
  - intros k x1 Hk (L1 & U1 & D1).
    assert (Hd : rd L ((n + 1) * k) = Some (mg n L k k)) by (rewrite idx_diag'; apply (rd_mg n); auto).
    rewrite (rd_some 0) by lia. rewrite Hd. rewrite wr_some by lia.
    unfold QO at 1. cbn [div Rnd8_ops].
    set (x2 := upd x1 k (rnd (vg x1 k / mg n L k k))).
    assert (L2 : length x2 = n) by (unfold x2; rewrite upd_length; exact L1).
    destruct (axpy_range L (fun r => ((n + 1) * k + n * (r - k))%nat) (fun r => mg n L r k) k (k + 1) n x2)
      as (x3 & E3 & L3 & F3 & V3).
    + intros r Hr. rewrite idx_walk' by lia. apply (rd_mg n); auto; lia.
    + lia.
    + intros r Hr. lia.
    + exists x3. split; [exact E3|]. split; [congruence|].
      assert (Hfr : forall c, c <> k -> vg x3 c = vg x1 c).
      { intros c Nc. rewrite F3 by exact Nc. unfold x2. apply nth_upd_other. exact Nc. }
      split.
      * intros c Hc. rewrite Hfr by lia. apply U1. lia.
      * intros c Hc. destruct (Nat.eq_dec c k) as [->|N].
        -- rewrite V3. unfold x2 at 2. rewrite nth_upd_same by lia. rewrite U1 by lia.
           apply rsub_ext. intros r Hr. f_equal. rewrite Hfr by lia. unfold x2. apply nth_upd_other. lia.
        -- rewrite Hfr by lia. rewrite D1 by lia. apply rsub_ext.
           intros r Hr. rewrite Hfr by lia. reflexivity.
  - exists x'. split; [exact E|]. split; auto. intros c Hc. apply P'. lia.
Qed.

End Arrays.

(* ------------------------------------------------------------------------------------ the theorems *)
Section Theorems.
Variable rnd : R -> R.
Variables eps eta tiny : R.
Hypothesis M : std_model rnd eps eta.
Let QO := Rnd8_ops rnd tiny.

Local Notation vg y r := (nth r y 0).

Lemma rsum_abs_mult (f g : nat -> R) k :
  rsum (fun c => Rabs (f c * g c)) k = rsum (fun c => Rabs (f c) * Rabs (g c)) k.
Proof. apply rsum_ext. intros. apply Rabs_mult. Qed.
Lemma isum_abs_mult (f g : nat -> R) lo hi :
  isum (fun c => Rabs (f c * g c)) lo hi = isum (fun c => Rabs (f c) * Rabs (g c)) lo hi.
Proof. apply isum_ext. intros. apply Rabs_mult. Qed.

(* from the (1-eps)^-k - 1 form of a bound to its gamma_k form *)
Lemma to_gamma k j E S w :
  INR k * eps < 1 -> (j <= k)%nat -> 0 <= S -> 0 <= w ->
  E <= GG eps k * S + (HH eps j + (1 + GG eps k) * w) * eta ->
  E <= gamma eps k * S + (3 * INR k + w) * (1 + gamma eps k) * eta.
Proof.
  intros Hk Hjk HS Hw HE.
  pose proof (GG_le_gamma _ _ _ M k Hk) as G1. pose proof (GG_ge0 _ _ _ M k) as G0.
  pose proof (GG_mono _ _ _ M j k Hjk) as G2. pose proof (GG_ge0 _ _ _ M j) as G3.
  pose proof (HH_le _ _ _ M j) as H1. pose proof (eta_ge0 _ _ _ M) as Ht.
  pose proof (pos_INR j) as Pj. pose proof (le_INR _ _ Hjk) as Pjk.
  assert (A1 : GG eps k * S <= gamma eps k * S) by (apply Rmult_le_compat_r; lra).
  assert (A2 : 3 * INR j * (1 + GG eps j) <= 3 * INR k * (1 + gamma eps k)).
  { apply Rmult_le_compat; lra. }
  assert (A3 : (1 + GG eps k) * w <= (1 + gamma eps k) * w) by (apply Rmult_le_compat_r; lra).
  assert (A4 : (HH eps j + (1 + GG eps k) * w) * eta <= ((3 * INR k + w) * (1 + gamma eps k)) * eta).
  { apply Rmult_le_compat_r; [exact Ht|]. lra. }
  lra.
Qed.

(* ============================ unit lower triangular, forward: a_real_plu_lower = a_real_ldl_lower *)
Theorem lower_solve_residual n (L b : list R) :
  length L = (n * n)%nat -> length b = n ->
  exists yh, plu_lower QO n L b = Some yh /\ length yh = n /\
    forall r, (r < n)%nat ->
      Rabs (vg b r - (rsum (fun c => mg n L r c * vg yh c) r + vg yh r))
      <= GG eps r * (rsum (fun c => Rabs (mg n L r c) * Rabs (vg yh c)) r + Rabs (vg yh r)) + HH eps r * eta.
Proof.
  intros LL Lb. destruct (lower_rec rnd tiny n L b LL Lb) as (yh & E & Ly & P).
  exists yh. split; [exact E|]. split; [exact Ly|]. intros r Hr.
  pose proof (rsub_bound rnd eps eta M (fun c => mg n L r c * vg yh c) r 0 (vg b r)) as HB.
  rewrite <- (P r Hr) in HB. cbn [Nat.add] in HB. rewrite !isum_0, rsum_abs_mult in HB.
  replace (vg b r - (rsum (fun c => mg n L r c * vg yh c) r + vg yh r))
    with (vg b r - rsum (fun c => mg n L r c * vg yh c) r - vg yh r) by ring.
  rewrite (Rplus_comm (rsum _ r)). exact HB.
Qed.

Theorem lower_solve_backward_error n (L b : list R) :
  length L = (n * n)%nat -> length b = n -> INR n * eps < 1 ->
  exists yh, plu_lower QO n L b = Some yh /\ length yh = n /\
    forall r, (r < n)%nat ->
      Rabs (vg b r - (rsum (fun c => mg n L r c * vg yh c) r + vg yh r))
      <= gamma eps r * (rsum (fun c => Rabs (mg n L r c) * Rabs (vg yh c)) r + Rabs (vg yh r))
         + 3 * INR r * (1 + gamma eps r) * eta.
Proof.
  intros LL Lb Hn. destruct (lower_solve_residual n L b LL Lb) as (yh & E & Ly & P).
  exists yh. split; [exact E|]. split; [exact Ly|]. intros r Hr. specialize (P r Hr).
  assert (Hre : INR r * eps < 1).
  { pose proof (eps_ge0 _ _ _ M). assert (INR r <= INR n) by (apply le_INR; lia). nra. }
  replace (3 * INR r * (1 + gamma eps r) * eta) with ((3 * INR r + 0) * (1 + gamma eps r) * eta) by ring.
  apply (to_gamma r r); auto; try lra.
  apply Rplus_le_le_0_compat; [|apply Rabs_pos].
  apply rsum_nonneg. intros. apply Rmult_le_pos; apply Rabs_pos.
Qed.

(* ============================ upper triangular, backward, division by the diagonal: a_real_plu_upper *)
Theorem upper_solve_residual n (U b : list R) :
  length U = (n * n)%nat -> length b = n -> (forall r, (r < n)%nat -> mg n U r r <> 0) ->
  exists xh, plu_upper QO n U b = Some xh /\ length xh = n /\
    forall r, (r < n)%nat ->
      Rabs (vg b r - isum (fun c => mg n U r c * vg xh c) r n)
      <= GG eps (n - r) * isum (fun c => Rabs (mg n U r c) * Rabs (vg xh c)) r n
         + (HH eps (n - r - 1) + (1 + GG eps (n - r)) * Rabs (mg n U r r)) * eta.
Proof.
  intros LU Lb Hd. destruct (upper_rec rnd tiny n U b LU Lb) as (xh & E & Lx & P).
  exists xh. split; [exact E|]. split; [exact Lx|]. intros r Hr.
  pose proof (rsub_div_bound rnd eps eta M (fun c => mg n U r c * vg xh c) (mg n U r r) (n - (r + 1)) (r + 1) (vg b r) (Hd r Hr)) as HB.
  rewrite <- (P r Hr) in HB.
  replace (r + 1 + (n - (r + 1)))%nat with n in HB by lia.
  replace (S (n - (r + 1))) with (n - r)%nat in HB by lia.
  replace (n - (r + 1))%nat with (n - r - 1)%nat in HB by lia.
  rewrite isum_abs_mult, Rabs_mult, GG_pow in HB.
  rewrite !(isum_first _ r n) by lia. replace (S r) with (r + 1)%nat by lia.
  replace (vg b r - (mg n U r r * vg xh r + isum (fun c => mg n U r c * vg xh c) (r + 1) n))
    with (vg b r - isum (fun c => mg n U r c * vg xh c) (r + 1) n - mg n U r r * vg xh r) by ring.
  exact HB.
Qed.

Theorem upper_solve_backward_error n (U b : list R) :
  length U = (n * n)%nat -> length b = n -> (forall r, (r < n)%nat -> mg n U r r <> 0) -> INR n * eps < 1 ->
  exists xh, plu_upper QO n U b = Some xh /\ length xh = n /\
    forall r, (r < n)%nat ->
      Rabs (vg b r - isum (fun c => mg n U r c * vg xh c) r n)
      <= gamma eps (n - r) * isum (fun c => Rabs (mg n U r c) * Rabs (vg xh c)) r n
         + (3 * INR (n - r) + Rabs (mg n U r r)) * (1 + gamma eps (n - r)) * eta.
Proof.
  intros LU Lb Hd Hn. destruct (upper_solve_residual n U b LU Lb Hd) as (xh & E & Lx & P).
  exists xh. split; [exact E|]. split; [exact Lx|]. intros r Hr. specialize (P r Hr).
  assert (Hre : INR (n - r) * eps < 1).
  { pose proof (eps_ge0 _ _ _ M). assert (INR (n - r) <= INR n) by (apply le_INR; lia). nra. }
  apply (to_gamma (n - r) (n - r - 1)); auto; try lia; try apply Rabs_pos.
  apply isum_nonneg. intros. apply Rmult_le_pos; apply Rabs_pos.
Qed.

(* ============================ lower triangular with diagonal, forward: a_real_llt_lower *)
Theorem llt_lower_solve_residual n (L b : list R) :
  length L = (n * n)%nat -> length b = n -> (forall r, (r < n)%nat -> mg n L r r <> 0) ->
  exists yh, llt_lower QO n L b = Some yh /\ length yh = n /\
    forall r, (r < n)%nat ->
      Rabs (vg b r - rsum (fun c => mg n L r c * vg yh c) (S r))
      <= GG eps (S r) * rsum (fun c => Rabs (mg n L r c) * Rabs (vg yh c)) (S r)
         + (HH eps r + (1 + GG eps (S r)) * Rabs (mg n L r r)) * eta.
Proof.
  intros LL Lb Hd. destruct (llt_lower_rec rnd tiny n L b LL Lb) as (yh & E & Ly & P).
  exists yh. split; [exact E|]. split; [exact Ly|]. intros r Hr.
  pose proof (rsub_div_bound rnd eps eta M (fun c => mg n L r c * vg yh c) (mg n L r r) r 0 (vg b r) (Hd r Hr)) as HB.
  rewrite <- (P r Hr) in HB. cbn [Nat.add] in HB.
  rewrite !isum_0, rsum_abs_mult, Rabs_mult, GG_pow in HB.
  rewrite !rsum_S.
  replace (vg b r - (rsum (fun c => mg n L r c * vg yh c) r + mg n L r r * vg yh r))
    with (vg b r - rsum (fun c => mg n L r c * vg yh c) r - mg n L r r * vg yh r) by ring.
  rewrite (Rplus_comm (rsum _ r)). exact HB.
Qed.

Theorem llt_lower_solve_backward_error n (L b : list R) :
  length L = (n * n)%nat -> length b = n -> (forall r, (r < n)%nat -> mg n L r r <> 0) -> INR n * eps < 1 ->
  exists yh, llt_lower QO n L b = Some yh /\ length yh = n /\
    forall r, (r < n)%nat ->
      Rabs (vg b r - rsum (fun c => mg n L r c * vg yh c) (S r))
      <= gamma eps (S r) * rsum (fun c => Rabs (mg n L r c) * Rabs (vg yh c)) (S r)
         + (3 * INR (S r) + Rabs (mg n L r r)) * (1 + gamma eps (S r)) * eta.
Proof.
  intros LL Lb Hd Hn. destruct (llt_lower_solve_residual n L b LL Lb Hd) as (yh & E & Ly & P).
  exists yh. split; [exact E|]. split; [exact Ly|]. intros r Hr. specialize (P r Hr).
  assert (Hre : INR (S r) * eps < 1).
  { pose proof (eps_ge0 _ _ _ M). assert (INR (S r) <= INR n) by (apply le_INR; lia). nra. }
  apply (to_gamma (S r) r); auto; try lia; try apply Rabs_pos.
  apply rsum_nonneg. intros. apply Rmult_le_pos; apply Rabs_pos.
Qed.

(* ============================ L^T x = y, backward: a_real_llt_upper *)
Theorem llt_upper_solve_residual n (L b : list R) :
  length L = (n * n)%nat -> length b = n -> (forall r, (r < n)%nat -> mg n L r r <> 0) ->
  exists xh, llt_upper QO n L b = Some xh /\ length xh = n /\
    forall c, (c < n)%nat ->
      Rabs (vg b c - isum (fun r => mg n L r c * vg xh r) c n)
      <= GG eps (n - c) * isum (fun r => Rabs (mg n L r c) * Rabs (vg xh r)) c n
         + (HH eps (n - c - 1) + (1 + GG eps (n - c)) * Rabs (mg n L c c)) * eta.
Proof.
  intros LL Lb Hd. destruct (llt_upper_rec rnd tiny n L b LL Lb) as (xh & E & Lx & P).
  exists xh. split; [exact E|]. split; [exact Lx|]. intros c Hc.
  pose proof (rsub_div_bound rnd eps eta M (fun r => mg n L r c * vg xh r) (mg n L c c) (n - (c + 1)) (c + 1) (vg b c) (Hd c Hc)) as HB.
  rewrite <- (P c Hc) in HB.
  replace (c + 1 + (n - (c + 1)))%nat with n in HB by lia.
  replace (S (n - (c + 1))) with (n - c)%nat in HB by lia.
  replace (n - (c + 1))%nat with (n - c - 1)%nat in HB by lia.
  rewrite isum_abs_mult, Rabs_mult, GG_pow in HB.
  rewrite !(isum_first _ c n) by lia. replace (S c) with (c + 1)%nat by lia.
  replace (vg b c - (mg n L c c * vg xh c + isum (fun r => mg n L r c * vg xh r) (c + 1) n))
    with (vg b c - isum (fun r => mg n L r c * vg xh r) (c + 1) n - mg n L c c * vg xh c) by ring.
  exact HB.
Qed.

Theorem llt_upper_solve_backward_error n (L b : list R) :
  length L = (n * n)%nat -> length b = n -> (forall r, (r < n)%nat -> mg n L r r <> 0) -> INR n * eps < 1 ->
  exists xh, llt_upper QO n L b = Some xh /\ length xh = n /\
    forall c, (c < n)%nat ->
      Rabs (vg b c - isum (fun r => mg n L r c * vg xh r) c n)
      <= gamma eps (n - c) * isum (fun r => Rabs (mg n L r c) * Rabs (vg xh r)) c n
         + (3 * INR (n - c) + Rabs (mg n L c c)) * (1 + gamma eps (n - c)) * eta.
Proof.
  intros LL Lb Hd Hn. destruct (llt_upper_solve_residual n L b LL Lb Hd) as (xh & E & Lx & P).
  exists xh. split; [exact E|]. split; [exact Lx|]. intros c Hc. specialize (P c Hc).
  assert (Hre : INR (n - c) * eps < 1).
  { pose proof (eps_ge0 _ _ _ M). assert (INR (n - c) <= INR n) by (apply le_INR; lia). nra. }
  apply (to_gamma (n - c) (n - c - 1)); auto; try lia; try apply Rabs_pos.
  apply isum_nonneg. intros. apply Rmult_le_pos; apply Rabs_pos.
Qed.

(* ============================ D L^T x = y, backward, division FIRST: a_real_ldl_upper *)
Theorem ldl_upper_solve_residual n (L b : list R) :
  length L = (n * n)%nat -> length b = n -> (forall r, (r < n)%nat -> mg n L r r <> 0) ->
  exists xh, ldl_upper QO n L b = Some xh /\ length xh = n /\
    forall c, (c < n)%nat ->
      Rabs (vg b c - mg n L c c * (vg xh c + isum (fun r => mg n L r c * vg xh r) (c + 1) n))
      <= Rabs (mg n L c c) *
         (GG eps (n - c) * (Rabs (vg xh c) + isum (fun r => Rabs (mg n L r c) * Rabs (vg xh r)) (c + 1) n)
          + HH eps (n - c) * eta).
Proof.
  intros LL Lb Hd. destruct (ldl_upper_rec rnd tiny n L b LL Lb) as (xh & E & Lx & P).
  exists xh. split; [exact E|]. split; [exact Lx|]. intros c Hc.
  pose proof (div_rsub_bound rnd eps eta M (fun r => mg n L r c * vg xh r) (mg n L c c) (n - (c + 1)) (c + 1) (vg b c) (Hd c Hc)) as HB.
  rewrite <- (P c Hc) in HB.
  replace (c + 1 + (n - (c + 1)))%nat with n in HB by lia.
  replace (S (n - (c + 1))) with (n - c)%nat in HB by lia.
  rewrite isum_abs_mult in HB.
  rewrite (Rplus_comm (vg xh c)).
  eapply Rle_trans; [exact HB|].
  apply Rmult_le_compat_l; [apply Rabs_pos|].
  apply Rplus_le_compat_l. apply Rmult_le_compat_r; [exact (eta_ge0 _ _ _ M)|].
  replace (n - c)%nat with (S (n - (c + 1))) by lia. rewrite HH_S. lra.
Qed.

Theorem ldl_upper_solve_backward_error n (L b : list R) :
  length L = (n * n)%nat -> length b = n -> (forall r, (r < n)%nat -> mg n L r r <> 0) -> INR n * eps < 1 ->
  exists xh, ldl_upper QO n L b = Some xh /\ length xh = n /\
    forall c, (c < n)%nat ->
      Rabs (vg b c - mg n L c c * (vg xh c + isum (fun r => mg n L r c * vg xh r) (c + 1) n))
      <= Rabs (mg n L c c) *
         (gamma eps (n - c) * (Rabs (vg xh c) + isum (fun r => Rabs (mg n L r c) * Rabs (vg xh r)) (c + 1) n)
          + 3 * INR (n - c) * (1 + gamma eps (n - c)) * eta).
Proof.
  intros LL Lb Hd Hn. destruct (ldl_upper_solve_residual n L b LL Lb Hd) as (xh & E & Lx & P).
  exists xh. split; [exact E|]. split; [exact Lx|]. intros c Hc. specialize (P c Hc).
  assert (Hre : INR (n - c) * eps < 1).
  { pose proof (eps_ge0 _ _ _ M). assert (INR (n - c) <= INR n) by (apply le_INR; lia). nra. }
  eapply Rle_trans; [exact P|]. apply Rmult_le_compat_l; [apply Rabs_pos|].
  replace (3 * INR (n - c) * (1 + gamma eps (n - c)) * eta) with ((3 * INR (n - c) + 0) * (1 + gamma eps (n - c)) * eta) by ring.
  apply (to_gamma (n - c) (n - c)); auto; try lra.
  apply Rplus_le_le_0_compat; [apply Rabs_pos|].
  apply isum_nonneg. intros. apply Rmult_le_pos; apply Rabs_pos.
Qed.

End Theorems.

(* ------------------------------------------------------------------------------------ from the residual to the
   perturbed system (Oettli-Prager, made explicit so that no choice axiom is needed):
   if |b - sum l y| <= g sum |l||y| + t  then  sum (l + d) y = b + db  with |d| <= g |l|, |db| <= t. *)
Definition sg (v : R) : R := if Rle_dec 0 v then 1 else -1.
Lemma sg_mul v : sg v * v = Rabs v.
Proof. unfold sg. destruct (Rle_dec 0 v); [rewrite Rabs_pos_eq by lra|rewrite Rabs_left by lra]; ring. Qed.
Lemma sg_abs v : Rabs (sg v) = 1.
Proof. unfold sg. destruct (Rle_dec 0 v); [apply Rabs_R1|]. replace (-1) with (Ropp 1) by ring. rewrite Rabs_Ropp. apply Rabs_R1. Qed.

Definition clip (x B : R) : R := if Rle_dec x (- B) then - B else if Rle_dec B x then B else x.
Lemma clip_abs x B : 0 <= B -> Rabs (clip x B) <= B.
Proof.
  intros HB. unfold clip. destruct (Rle_dec x (- B)); [rewrite Rabs_Ropp, Rabs_pos_eq; lra|].
  destruct (Rle_dec B x); [rewrite Rabs_pos_eq; lra|]. apply Rabs_le. lra.
Qed.
Lemma clip_rest x B t : 0 <= B -> 0 <= t -> Rabs x <= B + t -> Rabs (clip x B - x) <= t.
Proof.
  intros HB Ht Hx. revert Hx. unfold clip.
  destruct (Rle_dec x (- B)); [|destruct (Rle_dec B x)]; intros Hx.
  - apply Rabs_le. assert (- (B + t) <= x) by (pose proof (Rle_abs (- x)); rewrite Rabs_Ropp in *; lra). lra.
  - apply Rabs_le. pose proof (Rle_abs x). lra.
  - replace (x - x) with 0 by ring. rewrite Rabs_R0. exact Ht.
Qed.

Definition op_res1 (g : R) (m : nat) (l y : nat -> R) (b : R) : R :=
  clip (b - rsum (fun c => l c * y c) m) (g * rsum (fun c => Rabs (l c) * Rabs (y c)) m).
Definition op_d (g : R) (m : nat) (l y : nat -> R) (b : R) (c : nat) : R :=
  if Req_EM_T (rsum (fun c => Rabs (l c) * Rabs (y c)) m) 0 then 0
  else op_res1 g m l y b / rsum (fun c => Rabs (l c) * Rabs (y c)) m * Rabs (l c) * sg (y c).
Definition op_db (g : R) (m : nat) (l y : nat -> R) (b : R) : R :=
  op_res1 g m l y b - (b - rsum (fun c => l c * y c) m).

Lemma op_spec g t m l y b :
  0 <= g -> 0 <= t ->
  Rabs (b - rsum (fun c => l c * y c) m) <= g * rsum (fun c => Rabs (l c) * Rabs (y c)) m + t ->
  (forall c, Rabs (op_d g m l y b c) <= g * Rabs (l c)) /\
  Rabs (op_db g m l y b) <= t /\
  rsum (fun c => (l c + op_d g m l y b c) * y c) m = b + op_db g m l y b.
Proof.
  intros Hg Ht H.
  assert (HS : 0 <= rsum (fun c => Rabs (l c) * Rabs (y c)) m).
  { apply rsum_nonneg. intros. apply Rmult_le_pos; apply Rabs_pos. }
  unfold op_d, op_db, op_res1.
  set (S := rsum (fun c => Rabs (l c) * Rabs (y c)) m) in *.
  set (res := b - rsum (fun c => l c * y c) m) in *.
  assert (HB : 0 <= g * S) by (apply Rmult_le_pos; assumption).
  pose proof (clip_abs res (g * S) HB) as C1.
  pose proof (clip_rest res (g * S) t HB Ht H) as C2.
  set (r1 := clip res (g * S)) in *.
  split; [|split].
  - intros c. destruct (Req_EM_T S 0) as [E0|N0].
    + rewrite Rabs_R0. apply Rmult_le_pos; [exact Hg|apply Rabs_pos].
    + assert (PS : 0 < S) by lra.
      rewrite !Rabs_mult, sg_abs, Rabs_Rabsolu, Rmult_1_r. apply Rmult_le_compat_r; [apply Rabs_pos|].
      unfold Rdiv. rewrite Rabs_mult, Rabs_inv, (Rabs_pos_eq S) by lra.
      apply (Rmult_le_reg_r S); [exact PS|]. rewrite Rmult_assoc, Rinv_l by lra. lra.
  - exact C2.
  - destruct (Req_EM_T S 0) as [E0|N0].
    + rewrite E0, Rmult_0_r in C1. assert (r1 = 0).
      { pose proof (Rabs_pos r1).
        destruct (Req_dec r1 0) as [Z|Z]; [exact Z|]. apply Rabs_pos_lt in Z. lra. }
      rewrite (rsum_ext _ (fun c => l c * y c)) by (intros; ring). unfold res. lra.
    + rewrite (rsum_ext _ (fun c => l c * y c + (r1 / S) * (Rabs (l c) * Rabs (y c)))).
      * rewrite rsum_plus, rsum_scal. fold S. unfold res. field. exact N0.
      * intros c _. rewrite <- (sg_mul (y c)). ring.
Qed.

Definition urow (lo : nat) (l : nat -> R) : nat -> R := fun c => if Nat.leb lo c then l c else 0.

Lemma op_isum g t lo hi l y b :
  0 <= g -> 0 <= t ->
  Rabs (b - isum (fun c => l c * y c) lo hi) <= g * isum (fun c => Rabs (l c) * Rabs (y c)) lo hi + t ->
  (forall c, (lo <= c)%nat -> Rabs (op_d g hi (urow lo l) y b c) <= g * Rabs (l c)) /\
  Rabs (op_db g hi (urow lo l) y b) <= t /\
  isum (fun c => (l c + op_d g hi (urow lo l) y b c) * y c) lo hi = b + op_db g hi (urow lo l) y b.
Proof.
  intros Hg Ht H.
  assert (E1 : rsum (fun c => urow lo l c * y c) hi = isum (fun c => l c * y c) lo hi).
  { unfold isum, urow. apply rsum_ext. intros c _. destruct (Nat.leb lo c); ring. }
  assert (E2 : rsum (fun c => Rabs (urow lo l c) * Rabs (y c)) hi = isum (fun c => Rabs (l c) * Rabs (y c)) lo hi).
  { unfold isum, urow. apply rsum_ext. intros c _. destruct (Nat.leb lo c); [reflexivity|rewrite Rabs_R0; ring]. }
  rewrite <- E1, <- E2 in H.
  destruct (op_spec g t hi (urow lo l) y b Hg Ht H) as (D & B & E).
  split; [|split].
  - intros c Hc. specialize (D c). unfold urow in D at 2. destruct (Nat.leb_spec lo c); [exact D|lia].
  - exact B.
  - rewrite <- E. unfold isum. apply rsum_ext. intros c _. unfold urow at 2.
    destruct (Nat.leb_spec lo c) as [Hc|Hc]; [reflexivity|].
    specialize (D c). unfold urow in D at 2. destruct (Nat.leb_spec lo c); [lia|].
    rewrite Rabs_R0, Rmult_0_r in D.
    assert (Z : op_d g hi (urow lo l) y b c = 0).
    { destruct (Req_dec (op_d g hi (urow lo l) y b c) 0) as [Z|Z]; [exact Z|]. apply Rabs_pos_lt in Z. lra. }
    rewrite Z. ring.
Qed.

Section Perturbed.
Variable rnd : R -> R.
Variables eps eta tiny : R.
Hypothesis M : std_model rnd eps eta.
Let QO := Rnd8_ops rnd tiny.

Local Notation vg y r := (nth r y 0).

Definition lrow (n : nat) (L : list R) (r : nat) : nat -> R := fun c => if Nat.ltb c r then mg n L r c else 1.

Lemma lrow_sum n L r (f : nat -> R -> R) :
  rsum (fun c => f c (lrow n L r c)) (S r) = rsum (fun c => f c (mg n L r c)) r + f r 1.
Proof.
  rewrite rsum_S. f_equal.
  - apply rsum_ext. intros c Hc. unfold lrow. destruct (Nat.ltb_spec c r); [reflexivity|lia].
  - unfold lrow. rewrite Nat.ltb_irrefl. reflexivity.
Qed.

Lemma small_k k n : (k <= n)%nat -> INR n * eps < 1 -> INR k * eps < 1.
Proof. intros H Hn. pose proof (eps_ge0 _ _ _ M). apply le_INR in H. nra. Qed.

(* y^ solves EXACTLY the unit lower triangular system (L + dL) y^ = b + db *)
Theorem lower_solve_perturbed n (L b : list R) :
  length L = (n * n)%nat -> length b = n -> INR n * eps < 1 ->
  exists yh (dL : nat -> nat -> R) (db : nat -> R), plu_lower QO n L b = Some yh /\ length yh = n /\
    forall r, (r < n)%nat ->
      (forall c, (c < r)%nat -> Rabs (dL r c) <= gamma eps r * Rabs (mg n L r c)) /\
      Rabs (dL r r) <= gamma eps r /\
      Rabs (db r) <= 3 * INR r * (1 + gamma eps r) * eta /\
      rsum (fun c => (mg n L r c + dL r c) * vg yh c) r + (1 + dL r r) * vg yh r = vg b r + db r.
Proof.
  intros LL Lb Hn. destruct (lower_solve_backward_error rnd eps eta tiny M n L b LL Lb Hn) as (yh & E & Ly & P).
  exists yh, (fun r => op_d (gamma eps r) (S r) (lrow n L r) (fun c => vg yh c) (vg b r)),
             (fun r => op_db (gamma eps r) (S r) (lrow n L r) (fun c => vg yh c) (vg b r)).
  split; [exact E|]. split; [exact Ly|]. intros r Hr. specialize (P r Hr).
  assert (Hre : INR r * eps < 1) by (apply (small_k r n); [lia|exact Hn]).
  pose proof (gamma_ge0 _ _ _ M r Hre) as Hg.
  assert (Ht : 0 <= 3 * INR r * (1 + gamma eps r) * eta).
  { pose proof (pos_INR r). pose proof (eta_ge0 _ _ _ M). repeat apply Rmult_le_pos; lra. }
  destruct (op_spec (gamma eps r) (3 * INR r * (1 + gamma eps r) * eta) (S r) (lrow n L r) (fun c => vg yh c) (vg b r) Hg Ht)
    as (D & B & Sm).
  - rewrite (lrow_sum n L r (fun c v => v * vg yh c)), (lrow_sum n L r (fun c v => Rabs v * Rabs (vg yh c))).
    rewrite Rabs_R1, !Rmult_1_l. exact P.
  - split; [|split; [|split]].
    + intros c Hc. specialize (D c). unfold lrow in D at 2. destruct (Nat.ltb_spec c r); [exact D|lia].
    + specialize (D r). unfold lrow in D at 2. rewrite Nat.ltb_irrefl, Rabs_R1, Rmult_1_r in D. exact D.
    + exact B.
    + rewrite <- Sm.
      rewrite (lrow_sum n L r (fun c v => (v + op_d (gamma eps r) (S r) (lrow n L r) (fun c0 => vg yh c0) (vg b r) c) * vg yh c)).
      reflexivity.
Qed.

(* x^ solves EXACTLY the upper triangular system (U + dU) x^ = b + db *)
Theorem upper_solve_perturbed n (U b : list R) :
  length U = (n * n)%nat -> length b = n -> (forall r, (r < n)%nat -> mg n U r r <> 0) -> INR n * eps < 1 ->
  exists xh (dU : nat -> nat -> R) (db : nat -> R), plu_upper QO n U b = Some xh /\ length xh = n /\
    forall r, (r < n)%nat ->
      (forall c, (r <= c)%nat -> Rabs (dU r c) <= gamma eps (n - r) * Rabs (mg n U r c)) /\
      Rabs (db r) <= (3 * INR (n - r) + Rabs (mg n U r r)) * (1 + gamma eps (n - r)) * eta /\
      isum (fun c => (mg n U r c + dU r c) * vg xh c) r n = vg b r + db r.
Proof.
  intros LU Lb Hd Hn. destruct (upper_solve_backward_error rnd eps eta tiny M n U b LU Lb Hd Hn) as (xh & E & Lx & P).
  exists xh, (fun r => op_d (gamma eps (n - r)) n (urow r (fun c => mg n U r c)) (fun c => vg xh c) (vg b r)),
             (fun r => op_db (gamma eps (n - r)) n (urow r (fun c => mg n U r c)) (fun c => vg xh c) (vg b r)).
  split; [exact E|]. split; [exact Lx|]. intros r Hr. specialize (P r Hr).
  assert (Hre : INR (n - r) * eps < 1) by (apply (small_k (n - r) n); [lia|exact Hn]).
  pose proof (gamma_ge0 _ _ _ M (n - r) Hre) as Hg.
  assert (Ht : 0 <= (3 * INR (n - r) + Rabs (mg n U r r)) * (1 + gamma eps (n - r)) * eta).
  { pose proof (pos_INR (n - r)). pose proof (eta_ge0 _ _ _ M). pose proof (Rabs_pos (mg n U r r)).
    repeat apply Rmult_le_pos; lra. }
  exact (op_isum _ _ r n (fun c => mg n U r c) (fun c => vg xh c) (vg b r) Hg Ht P).
Qed.

(* the Cholesky solves: (L + dL) y^ = b + db  and  (L + dL)^T x^ = b + db *)
Theorem llt_lower_solve_perturbed n (L b : list R) :
  length L = (n * n)%nat -> length b = n -> (forall r, (r < n)%nat -> mg n L r r <> 0) -> INR n * eps < 1 ->
  exists yh (dL : nat -> nat -> R) (db : nat -> R), llt_lower QO n L b = Some yh /\ length yh = n /\
    forall r, (r < n)%nat ->
      (forall c, Rabs (dL r c) <= gamma eps (S r) * Rabs (mg n L r c)) /\
      Rabs (db r) <= (3 * INR (S r) + Rabs (mg n L r r)) * (1 + gamma eps (S r)) * eta /\
      rsum (fun c => (mg n L r c + dL r c) * vg yh c) (S r) = vg b r + db r.
Proof.
  intros LL Lb Hd Hn. destruct (llt_lower_solve_backward_error rnd eps eta tiny M n L b LL Lb Hd Hn) as (yh & E & Ly & P).
  exists yh, (fun r => op_d (gamma eps (S r)) (S r) (fun c => mg n L r c) (fun c => vg yh c) (vg b r)),
             (fun r => op_db (gamma eps (S r)) (S r) (fun c => mg n L r c) (fun c => vg yh c) (vg b r)).
  split; [exact E|]. split; [exact Ly|]. intros r Hr. specialize (P r Hr).
  assert (Hre : INR (S r) * eps < 1) by (apply (small_k (S r) n); [lia|exact Hn]).
  pose proof (gamma_ge0 _ _ _ M (S r) Hre) as Hg.
  assert (Ht : 0 <= (3 * INR (S r) + Rabs (mg n L r r)) * (1 + gamma eps (S r)) * eta).
  { pose proof (pos_INR (S r)). pose proof (eta_ge0 _ _ _ M). pose proof (Rabs_pos (mg n L r r)).
    repeat apply Rmult_le_pos; lra. }
  exact (op_spec _ _ (S r) (fun c => mg n L r c) (fun c => vg yh c) (vg b r) Hg Ht P).
Qed.

Theorem llt_upper_solve_perturbed n (L b : list R) :
  length L = (n * n)%nat -> length b = n -> (forall r, (r < n)%nat -> mg n L r r <> 0) -> INR n * eps < 1 ->
  exists xh (dL : nat -> nat -> R) (db : nat -> R), llt_upper QO n L b = Some xh /\ length xh = n /\
    forall c, (c < n)%nat ->
      (forall r, (c <= r)%nat -> Rabs (dL r c) <= gamma eps (n - c) * Rabs (mg n L r c)) /\
      Rabs (db c) <= (3 * INR (n - c) + Rabs (mg n L c c)) * (1 + gamma eps (n - c)) * eta /\
      isum (fun r => (mg n L r c + dL r c) * vg xh r) c n = vg b c + db c.
Proof.
  intros LL Lb Hd Hn. destruct (llt_upper_solve_backward_error rnd eps eta tiny M n L b LL Lb Hd Hn) as (xh & E & Lx & P).
  exists xh, (fun r c => op_d (gamma eps (n - c)) n (urow c (fun r => mg n L r c)) (fun r => vg xh r) (vg b c) r),
             (fun c => op_db (gamma eps (n - c)) n (urow c (fun r => mg n L r c)) (fun r => vg xh r) (vg b c)).
  split; [exact E|]. split; [exact Lx|]. intros c Hc. specialize (P c Hc).
  assert (Hre : INR (n - c) * eps < 1) by (apply (small_k (n - c) n); [lia|exact Hn]).
  pose proof (gamma_ge0 _ _ _ M (n - c) Hre) as Hg.
  assert (Ht : 0 <= (3 * INR (n - c) + Rabs (mg n L c c)) * (1 + gamma eps (n - c)) * eta).
  { pose proof (pos_INR (n - c)). pose proof (eta_ge0 _ _ _ M). pose proof (Rabs_pos (mg n L c c)).
    repeat apply Rmult_le_pos; lra. }
  exact (op_isum _ _ c n (fun r => mg n L r c) (fun r => vg xh r) (vg b c) Hg Ht P).
Qed.

(* ============================ the three solve routines: one substitution after the other.
   Each stage has its own backward error; the FACTORS are taken as given (their own backward error is not
   part of these statements). *)
Definition lower_bound (n : nat) (A b yh : list R) : Prop :=
  forall r, (r < n)%nat ->
    Rabs (vg b r - (rsum (fun c => mg n A r c * vg yh c) r + vg yh r))
    <= gamma eps r * (rsum (fun c => Rabs (mg n A r c) * Rabs (vg yh c)) r + Rabs (vg yh r))
       + 3 * INR r * (1 + gamma eps r) * eta.
Definition upper_bound (n : nat) (A y xh : list R) : Prop :=
  forall r, (r < n)%nat ->
    Rabs (vg y r - isum (fun c => mg n A r c * vg xh c) r n)
    <= gamma eps (n - r) * isum (fun c => Rabs (mg n A r c) * Rabs (vg xh c)) r n
       + (3 * INR (n - r) + Rabs (mg n A r r)) * (1 + gamma eps (n - r)) * eta.

(* a_real_plu_solve on the in-place LU storage A: L y^ = P b, U x^ = y^ *)
Theorem plu_solve_backward_error n (A : list R) (p : list nat) (b x0 Pb : list R) :
  length A = (n * n)%nat -> plu_apply n p b x0 = Some Pb -> length Pb = n ->
  (forall r, (r < n)%nat -> mg n A r r <> 0) -> INR n * eps < 1 ->
  exists yh xh, plu_lower QO n A Pb = Some yh /\ plu_solve QO n A p b x0 = Some xh /\ length xh = n /\
    lower_bound n A Pb yh /\ upper_bound n A yh xh.
Proof.
  intros LA Ea LPb Hd Hn. unfold plu_solve. rewrite Ea.
  destruct (lower_solve_backward_error rnd eps eta tiny M n A Pb LA LPb Hn) as (yh & E1 & Ly & P1).
  destruct (upper_solve_backward_error rnd eps eta tiny M n A yh LA Ly Hd Hn) as (xh & E2 & Lx & P2).
  exists yh, xh. fold QO in E1, E2. rewrite E1. auto.
Qed.

(* a_real_ldl_solve on the in-place L D L^T storage A: L y^ = b, D L^T x^ = y^ *)
Theorem ldl_solve_backward_error n (A b : list R) :
  length A = (n * n)%nat -> length b = n -> (forall r, (r < n)%nat -> mg n A r r <> 0) -> INR n * eps < 1 ->
  exists yh xh, ldl_lower QO n A b = Some yh /\ ldl_solve QO n A b = Some xh /\ length xh = n /\
    lower_bound n A b yh /\
    forall c, (c < n)%nat ->
      Rabs (vg yh c - mg n A c c * (vg xh c + isum (fun r => mg n A r c * vg xh r) (c + 1) n))
      <= Rabs (mg n A c c) *
         (gamma eps (n - c) * (Rabs (vg xh c) + isum (fun r => Rabs (mg n A r c) * Rabs (vg xh r)) (c + 1) n)
          + 3 * INR (n - c) * (1 + gamma eps (n - c)) * eta).
Proof.
  intros LA Lb Hd Hn. unfold ldl_solve, ldl_lower.
  destruct (lower_solve_backward_error rnd eps eta tiny M n A b LA Lb Hn) as (yh & E1 & Ly & P1).
  destruct (ldl_upper_solve_backward_error rnd eps eta tiny M n A yh LA Ly Hd Hn) as (xh & E2 & Lx & P2).
  exists yh, xh. fold QO in E1, E2. rewrite E1. auto.
Qed.

(* a_real_llt_solve on the in-place Cholesky storage A: L y^ = b, L^T x^ = y^ *)
Theorem llt_solve_backward_error n (A b : list R) :
  length A = (n * n)%nat -> length b = n -> (forall r, (r < n)%nat -> mg n A r r <> 0) -> INR n * eps < 1 ->
  exists yh xh, llt_lower QO n A b = Some yh /\ llt_solve QO n A b = Some xh /\ length xh = n /\
    (forall r, (r < n)%nat ->
      Rabs (vg b r - rsum (fun c => mg n A r c * vg yh c) (S r))
      <= gamma eps (S r) * rsum (fun c => Rabs (mg n A r c) * Rabs (vg yh c)) (S r)
         + (3 * INR (S r) + Rabs (mg n A r r)) * (1 + gamma eps (S r)) * eta) /\
    (forall c, (c < n)%nat ->
      Rabs (vg yh c - isum (fun r => mg n A r c * vg xh r) c n)
      <= gamma eps (n - c) * isum (fun r => Rabs (mg n A r c) * Rabs (vg xh r)) c n
         + (3 * INR (n - c) + Rabs (mg n A c c)) * (1 + gamma eps (n - c)) * eta).
Proof.
  intros LA Lb Hd Hn. unfold llt_solve.
  destruct (llt_lower_solve_backward_error rnd eps eta tiny M n A b LA Lb Hd Hn) as (yh & E1 & Ly & P1).
  destruct (llt_upper_solve_backward_error rnd eps eta tiny M n A yh LA Ly Hd Hn) as (xh & E2 & Lx & P2).
  exists yh, xh. fold QO in E1, E2. rewrite E1. auto.
Qed.

End Perturbed.

(* ------------------------------------------------------------------------------------ non-vacuity *)
(* (1) the identity is a rounding (std_model_id, eps = eta = 0): the bounds collapse to "residual = 0", i.e. the
   exact-arithmetic theorems of SolveProofs.v are the special case rnd = id of the theorems above *)
Lemma GG_eps0 k : GG 0 k = 0.
Proof. unfold GG, ainv. rewrite Rminus_0_r, Rinv_1, pow1. ring. Qed.

Corollary lower_solve_id_exact tiny n (L b : list R) :
  length L = (n * n)%nat -> length b = n ->
  exists yh, plu_lower (R_ops tiny) n L b = Some yh /\ length yh = n /\
    forall r, (r < n)%nat -> nth r b 0 = rsum (fun c => mg n L r c * nth c yh 0) r + nth r yh 0.
Proof.
  intros LL Lb.
  destruct (lower_solve_residual (fun x => x) 0 0 tiny std_model_id n L b LL Lb) as (yh & E & Ly & P).
  exists yh. split; [exact E|]. split; [exact Ly|]. intros r Hr. specialize (P r Hr).
  rewrite GG_eps0, Rmult_0_l, Rmult_0_r, Rplus_0_r in P.
  pose proof (Rabs_pos (nth r b 0 - (rsum (fun c => mg n L r c * nth c yh 0) r + nth r yh 0))) as P0.
  destruct (Req_dec (nth r b 0 - (rsum (fun c => mg n L r c * nth c yh 0) r + nth r yh 0)) 0) as [Z|Z]; [lra|].
  apply Rabs_pos_lt in Z. lra.
Qed.

Corollary upper_solve_id_exact tiny n (U b : list R) :
  length U = (n * n)%nat -> length b = n -> (forall r, (r < n)%nat -> mg n U r r <> 0) ->
  exists xh, plu_upper (R_ops tiny) n U b = Some xh /\ length xh = n /\
    forall r, (r < n)%nat -> nth r b 0 = isum (fun c => mg n U r c * nth c xh 0) r n.
Proof.
  intros LU Lb Hd.
  destruct (upper_solve_residual (fun x => x) 0 0 tiny std_model_id n U b LU Lb Hd) as (xh & E & Lx & P).
  exists xh. split; [exact E|]. split; [exact Lx|]. intros r Hr. specialize (P r Hr).
  rewrite GG_eps0, Rmult_0_l, Rmult_0_r, Rplus_0_r in P.
  pose proof (Rabs_pos (nth r b 0 - isum (fun c => mg n U r c * nth c xh 0) r n)) as P0.
  destruct (Req_dec (nth r b 0 - isum (fun c => mg n U r c * nth c xh 0) r n) 0) as [Z|Z]; [lra|].
  apply Rabs_pos_lt in Z. lra.
Qed.

(* (2) a rounding that is NOT exact: rnd v = v (1 + 1/8)  (std_model_scale: eps = 1/8, eta = 0).
   L = [1 0; 3 1], b = (1, 1): the computed y^ = (1, -171/64) is not the solution (1, -2); the residual of row 1 is
   43/64, strictly positive, and it is below the bound of lower_solve_backward_error,
   gamma_1 (|3||1| + |y^_1|) = (1/7)(363/64) = 363/448  (43/64 = 301/448). *)
Example lower_2x2_scale :
  exists y1, plu_lower (Rnd8_ops (fun v => v * (1 + / 8)) 1) 2 [1; 0; 3; 1] [1; 1] = Some [1; y1] /\
    y1 = - (171 / 64) /\
    1 - (3 * 1 + y1) = 43 / 64 /\
    gamma (/ 8) 1 = / 7 /\
    43 / 64 <= gamma (/ 8) 1 * (Rabs 3 * Rabs 1 + Rabs y1) + 3 * INR 1 * (1 + gamma (/ 8) 1) * 0.
Proof.
  eexists. split; [cbn; reflexivity|].
  assert (G : gamma (/ 8) 1 = / 7) by (unfold gamma; simpl; field).
  assert (Y : (1 - 3 * 1 * (1 + / 8)) * (1 + / 8) = - (171 / 64)) by field.
  split; [exact Y|]. split; [rewrite Y; field|]. split; [exact G|].
  rewrite Y, G. rewrite Rabs_Ropp, !Rabs_pos_eq by lra. simpl. lra.
Qed.

(* U = [2 1; 0 4], b = (1, 1) with the same rounding: x^_1 = rnd (1/4) = 9/32, x^_0 = rnd (rnd (1 - rnd (9/32)) / 2);
   the residual of row 0 is not zero and obeys the gamma_2 bound of upper_solve_backward_error *)
Example upper_2x2_scale :
  exists x0 x1, plu_upper (Rnd8_ops (fun v => v * (1 + / 8)) 1) 2 [2; 1; 0; 4] [1; 1] = Some [x0; x1] /\
    x1 = 9 / 32 /\ x0 = 14175 / 32768 /\
    1 - (2 * x0 + 1 * x1) = - (2399 / 16384) /\
    Rabs (1 - (2 * x0 + 1 * x1)) <= gamma (/ 8) 2 * (Rabs 2 * Rabs x0 + Rabs 1 * Rabs x1).
Proof.
  eexists. eexists. split; [cbn; reflexivity|].
  assert (G : gamma (/ 8) 2 = / 3) by (unfold gamma; simpl; field).
  assert (X1 : 1 / 4 * (1 + / 8) = 9 / 32) by field.
  assert (X0 : (1 - 1 * (1 / 4 * (1 + / 8)) * (1 + / 8)) * (1 + / 8) / 2 * (1 + / 8) = 14175 / 32768) by field.
  split; [exact X1|]. split; [exact X0|]. rewrite X0, X1, G.
  split; [field|].
  replace (1 - (2 * (14175 / 32768) + 1 * (9 / 32))) with (- (2399 / 16384)) by field.
  rewrite Rabs_Ropp, !Rabs_pos_eq by lra. lra.
Qed.
