(* C08: the backward-error theorems of RoundSolve.v at IEEE binary64 round-to-nearest-even
   (rnd64 of Common/RoundFlocq.v: std_model rnd64 2^-53 2^-1075, proved from Flocq).

   Reading: [Rnd8_ops rnd64 tiny] performs every operation exactly and rounds the result to binary64 with gradual
   underflow and NO overflow threshold (Flocq's FLT format is unbounded above).  Coq's primitive-float operations
   (the F64_ops instance that is compared bit for bit with the C code) return exactly that value as long as the
   rounded result stays below 2^1024 (RoundFlocq.prim_*_rnd64); a run of the C routine in which no intermediate
   overflows or is NaN therefore computes the y^ / x^ of these theorems.  That last step (finite operands and no
   overflow at every operation of a given run) is an assumption here, not a theorem. *)
From Coq Require Import ZArith List Reals Lia Lra.
From LibaV Require Import Common.RoundOps Common.RoundFlocq.
From LibaV Require Import C08.NumOps C08.FactorDefs C08.Instances C08.Base C08.RoundSolve.
Local Open Scope R_scope.

Lemma small_n64 n : (Z.of_nat n < 2 ^ 53)%Z -> INR n * eps64 < 1.
Proof.
  intros H. rewrite INR_IZR_INZ, eps64_val. apply IZR_lt in H.
  change (2 ^ 53)%Z with 9007199254740992%Z in H.
  apply (Rmult_lt_reg_r 9007199254740992); [lra|].
  rewrite Rmult_assoc, Rinv_l by lra. lra.
Qed.

(* u = 2^-53, gamma_k = k u / (1 - k u), eta = 2^-1075 *)
Theorem lower_solve_binary64 tiny n (L b : list R) :
  length L = (n * n)%nat -> length b = n -> (Z.of_nat n < 2 ^ 53)%Z ->
  exists yh, plu_lower (Rnd8_ops rnd64 tiny) n L b = Some yh /\ length yh = n /\
    forall r, (r < n)%nat ->
      Rabs (nth r b 0 - (rsum (fun c => mg n L r c * nth c yh 0) r + nth r yh 0))
      <= gamma eps64 r * (rsum (fun c => Rabs (mg n L r c) * Rabs (nth c yh 0)) r + Rabs (nth r yh 0))
         + 3 * INR r * (1 + gamma eps64 r) * eta64.
Proof.
  intros LL Lb Hn.
  exact (lower_solve_backward_error rnd64 eps64 eta64 tiny std_model_binary64 n L b LL Lb (small_n64 n Hn)).
Qed.

Theorem upper_solve_binary64 tiny n (U b : list R) :
  length U = (n * n)%nat -> length b = n -> (forall r, (r < n)%nat -> mg n U r r <> 0) -> (Z.of_nat n < 2 ^ 53)%Z ->
  exists xh, plu_upper (Rnd8_ops rnd64 tiny) n U b = Some xh /\ length xh = n /\
    forall r, (r < n)%nat ->
      Rabs (nth r b 0 - isum (fun c => mg n U r c * nth c xh 0) r n)
      <= gamma eps64 (n - r) * isum (fun c => Rabs (mg n U r c) * Rabs (nth c xh 0)) r n
         + (3 * INR (n - r) + Rabs (mg n U r r)) * (1 + gamma eps64 (n - r)) * eta64.
Proof.
  intros LU Lb Hd Hn.
  exact (upper_solve_backward_error rnd64 eps64 eta64 tiny std_model_binary64 n U b LU Lb Hd (small_n64 n Hn)).
Qed.

(* backward form: the computed vectors solve nearby triangular systems exactly *)
Theorem lower_solve_perturbed_binary64 tiny n (L b : list R) :
  length L = (n * n)%nat -> length b = n -> (Z.of_nat n < 2 ^ 53)%Z ->
  exists yh (dL : nat -> nat -> R) (db : nat -> R), plu_lower (Rnd8_ops rnd64 tiny) n L b = Some yh /\ length yh = n /\
    forall r, (r < n)%nat ->
      (forall c, (c < r)%nat -> Rabs (dL r c) <= gamma eps64 r * Rabs (mg n L r c)) /\
      Rabs (dL r r) <= gamma eps64 r /\
      Rabs (db r) <= 3 * INR r * (1 + gamma eps64 r) * eta64 /\
      rsum (fun c => (mg n L r c + dL r c) * nth c yh 0) r + (1 + dL r r) * nth r yh 0 = nth r b 0 + db r.
Proof.
  intros LL Lb Hn.
  exact (lower_solve_perturbed rnd64 eps64 eta64 tiny std_model_binary64 n L b LL Lb (small_n64 n Hn)).
Qed.

Theorem upper_solve_perturbed_binary64 tiny n (U b : list R) :
  length U = (n * n)%nat -> length b = n -> (forall r, (r < n)%nat -> mg n U r r <> 0) -> (Z.of_nat n < 2 ^ 53)%Z ->
  exists xh (dU : nat -> nat -> R) (db : nat -> R), plu_upper (Rnd8_ops rnd64 tiny) n U b = Some xh /\ length xh = n /\
    forall r, (r < n)%nat ->
      (forall c, (r <= c)%nat -> Rabs (dU r c) <= gamma eps64 (n - r) * Rabs (mg n U r c)) /\
      Rabs (db r) <= (3 * INR (n - r) + Rabs (mg n U r r)) * (1 + gamma eps64 (n - r)) * eta64 /\
      isum (fun c => (mg n U r c + dU r c) * nth c xh 0) r n = nth r b 0 + db r.
Proof.
  intros LU Lb Hd Hn.
  exact (upper_solve_perturbed rnd64 eps64 eta64 tiny std_model_binary64 n U b LU Lb Hd (small_n64 n Hn)).
Qed.

(* a concrete size: for n = 1000, gamma_n < 1.2e-13 *)
Example gamma64_1000 : gamma eps64 1000 <= 12 / 100000000000000.
Proof.
  unfold gamma. rewrite eps64_val. replace (INR 1000) with 1000 by (rewrite INR_IZR_INZ; reflexivity).
  apply (Rmult_le_reg_r (1 - 1000 * / 9007199254740992)); [lra|].
  unfold Rdiv. rewrite Rmult_assoc, Rinv_l by lra. lra.
Qed.
