(* C08: the inverse routines over R: a_real_plu_inv (column by column through a scratch vector)
   and a_real_plu_inv_ (in place on the columns of the result matrix) return X with A X = I;
   likewise the LDL and LLT inverses on the symmetric completion of the lower triangle. *)
From Coq Require Import ZArith List Reals Lia Lra Psatz Bool Permutation.
From LibaV Require Import C08.NumOps C08.FactorDefs C08.Instances C08.Base C08.PermProofs
  C08.PluSteps C08.PluProofs C08.SolveProofs C08.PluTheorems C08.LdlLltProofs C08.LdlLltTheorems.
Import ListNotations.
Local Open Scope R_scope.

Definition delta (r c : nat) : R := if Nat.eqb r c then 1 else 0.

Section Columns.
Variable n : nat.

(* position of component r of column c inside the row-major array *)
Definition colix (c : nat) : nat -> nat := fun r => (c + n * r)%nat.

Lemma colix_inj c : (c < n)%nat ->
  forall r r', (r < n)%nat -> (r' < n)%nat -> colix c r = colix c r' -> r = r'.
Proof.
  intros Hc r r' Hr Hr' E. unfold colix in E.
  assert (E' : (n * r + c = n * r' + c)%nat) by lia. apply idx_inj in E'; tauto.
Qed.

Lemma colix_ok c (X : list R) : length X = (n * n)%nat -> (c < n)%nat -> vec_ok n (colix c) X.
Proof.
  intros L Hc r Hr. unfold colix. rewrite L. rewrite Nat.add_comm. now apply idx_lt.
Qed.

Lemma vg_colix c X r : vg (colix c) X r = mg n X r c.
Proof. unfold vg, colix, mg. now rewrite Nat.add_comm. Qed.

(* cells of other columns are not components of column c *)
Lemma off_colix c r' c' : (c < n)%nat -> (c' < n)%nat -> c' <> c -> off_vec n (colix c) (n * r' + c')%nat.
Proof.
  intros Hc Hc' N r Hr E. unfold colix in E.
  assert (E' : (n * r' + c' = n * r + c)%nat) by lia. apply idx_inj in E'; auto. tauto.
Qed.

(* b[r] = X[c + n*r]  for all r *)
Lemma col_out c (X b : list R) :
  length X = (n * n)%nat -> length b = n -> (c < n)%nat ->
  exists b', for_range 0 n (fun r b => do v <- rd X (c + n * r); wr b r v) b = Some b' /\ length b' = n /\
    forall r, (r < n)%nat -> nth r b' 0 = mg n X r c.
Proof.
  intros LX Lb Hc.
  destruct (for_range_inv
              (fun k (b' : list R) => length b' = n /\ forall r, (r < k)%nat -> nth r b' 0 = mg n X r c)
              0 n (fun r b => do v <- rd X (c + n * r); wr b r v) b) as (b' & E & P).
  - lia.
  - split; auto. intros; lia.
  - intros k b1 [_ Hk] [L1 P1].
    rewrite (rd_some 0) by (rewrite LX, Nat.add_comm; apply idx_lt; auto).
    rewrite wr_some by lia. eexists. split; [reflexivity|]. split; [now rewrite upd_length|].
    intros r Hr. rewrite nth_upd by lia. destruct (Nat.eqb_spec r k) as [->|].
    + unfold mg. now rewrite Nat.add_comm.
    + apply P1. lia.
  - exists b'. auto.
Qed.

(* X[c + n*r] = b[r]  for all r *)
Lemma col_in c (X b : list R) :
  length X = (n * n)%nat -> length b = n -> (c < n)%nat ->
  exists X', for_range 0 n (fun r X => do v <- rd b r; wr X (c + n * r) v) X = Some X' /\ length X' = (n * n)%nat /\
    forall r c', (r < n)%nat -> (c' < n)%nat -> mg n X' r c' = if Nat.eqb c' c then nth r b 0 else mg n X r c'.
Proof.
  intros LX Lb Hc.
  destruct (for_range_inv
              (fun k (X' : list R) => length X' = (n * n)%nat /\
                 forall r c', (r < n)%nat -> (c' < n)%nat ->
                   mg n X' r c' = if (Nat.eqb c' c && Nat.ltb r k)%bool then nth r b 0 else mg n X r c')
              0 n (fun r X => do v <- rd b r; wr X (c + n * r) v) X) as (X' & E & L' & P).
  - lia.
  - split; auto. intros r c' _ _. now rewrite Bool.andb_false_r.
  - intros k X1 [_ Hk] [L1 P1].
    rewrite (rd_some 0) by lia. rewrite (Nat.add_comm c). rewrite (wr_mg n) by auto.
    eexists. split; [reflexivity|]. split; [now rewrite upd_length|].
    intros r c' Hr Hc'. rewrite mg_upd by auto. rewrite P1 by auto. bcase.
  - exists X'. split; [exact E|]. split; auto.
    intros r c' Hr Hc'. rewrite P by auto. bcase.
Qed.

End Columns.

(* ================================================================================ PLU *)
Section PluInv.
Variable tiny : R.
Hypothesis tiny_pos : 0 < tiny.
Local Notation RO := (R_ops tiny).
Variable n : nat.
Variable A : list R.
Hypothesis LA : length A = (n * n)%nat.
Variable p0 : list nat.
Hypothesis Lp0 : length p0 = n.
Variable st : @plu_st R.
Hypothesis Hok : plu RO n A p0 = Some (0%nat, st).

Let m := mg n (pA st).
Let p := pfun (pp st).

(* one column of the inverse: L U x = P e_k  gives  A x = e_k *)
Lemma plu_column_correct k (y x : nat -> R) :
  (k < n)%nat ->
  (forall r, (r < n)%nat -> y r = Pf p r k - isum (fun c => m r c * y c) 0 r) ->
  (forall r, (r < n)%nat -> x r = (y r - isum (fun c => m r c * x c) (r + 1) n) / m r r) ->
  forall r', (r' < n)%nat -> rsum (fun c => mg n A r' c * x c) n = delta r' k.
Proof.
  intros Hk Hy Hx r' Hr'.
  pose proof (plu_success_inv tiny tiny_pos n A LA p0 Lp0 st Hok) as (L1 & L2 & Pp & _ & _ & _ & Do).
  assert (Hd : forall j, (j < n)%nat -> m j j <> 0).
  { intros j Hj Z. specialize (Do j Hj Hj). fold m in Do. rewrite Z, Rabs_R0 in Do. lra. }
  destruct (perm_nth_surj (pp st) n r' Pp Hr') as (r & Hr & Er).
  rewrite <- Er.
  rewrite (rsum_ext _ (fun c => rsum (fun j => Lf m r j * Uf m j c) n * x c)).
  2:{ intros c Hc. fold (pfun (pp st) r).
      rewrite (plu_reconstruct_fun tiny tiny_pos n A LA p0 Lp0 st Hok r c Hr Hc). reflexivity. }
  rewrite (lu_solve_correct n m (fun r => Pf p r k) y x); auto.
  unfold Pf, delta, p, pfun. now rewrite Nat.eqb_sym.
Qed.

(* a_real_plu_inv *)
Lemma plu_inv_correct (b0 X0 : list R) :
  length b0 = n -> length X0 = (n * n)%nat ->
  exists b X, plu_inv RO n (pA st) (pp st) b0 X0 = Some (b, X) /\ length X = (n * n)%nat /\
    forall r c, (r < n)%nat -> (c < n)%nat -> rsum (fun j => mg n A r j * mg n X j c) n = delta r c.
Proof.
  intros Lb LX.
  pose proof (plu_success_inv tiny tiny_pos n A LA p0 Lp0 st Hok) as (L1 & L2 & Pp & _).
  unfold plu_inv.
  destruct (plu_P_spec tiny n (pp st) X0 L2 LX) as (X1 & E1 & LX1 & HP). rewrite E1.
  assert (Hinj : forall r r', (r < n)%nat -> (r' < n)%nat -> (fun k : nat => k) r = (fun k : nat => k) r' -> r = r') by auto.
  destruct (for_range_inv
              (fun k (s : list R * list R) =>
                 length (fst s) = n /\ length (snd s) = (n * n)%nat /\
                 (forall r c, (r < n)%nat -> (c < n)%nat -> (k <= c)%nat -> mg n (snd s) r c = Pf p r c) /\
                 (forall r c, (r < n)%nat -> (c < k)%nat ->
                    rsum (fun j => mg n A r j * mg n (snd s) j c) n = delta r c))
              0 n
              (fun c (s : list R * list R) =>
                 let '(b, X) := s in
                 do b1 <- for_range 0 n (fun r b => do v <- rd X (c + n * r); wr b r v) b;
                 do b2 <- plu_lower RO n (pA st) b1;
                 do b3 <- plu_upper RO n (pA st) b2;
                 do X2 <- for_range 0 n (fun r X => do v <- rd b3 r; wr X (c + n * r) v) X;
                 Some (b3, X2)) (b0, X1)) as (s & E & Lb' & LX' & _ & P).
  - lia.
  - simpl. repeat split; auto. intros; lia.
  - intros k [b X] [_ Hk] (Lb1 & LX1' & Hcols & Hdone). simpl in *.
    destruct (col_out n k X b LX1' Lb1 Hk) as (b1 & Eb1 & Lb1' & Hb1). rewrite Eb1.
    destruct (lower_gen_spec tiny n (fun j => j) Hinj (pA st) b1 L1) as (b2 & Eb2 & Lb2 & _ & Hb2).
    { intros r Hr. lia. }
    change (plu_lower RO n (pA st) b1) with (lower_gen tiny n (fun j => j) (pA st) b1). rewrite Eb2.
    destruct (upper_gen_spec tiny n (fun j => j) Hinj (pA st) b2 L1) as (b3 & Eb3 & Lb3 & _ & Hb3).
    { intros r Hr. lia. }
    change (plu_upper RO n (pA st) b2) with (upper_gen tiny n (fun j => j) (pA st) b2). rewrite Eb3.
    destruct (col_in n k X b3 LX1') as (X2 & EX2 & LX2 & HX2); auto; try congruence.
    rewrite EX2. eexists. split; [reflexivity|]. simpl.
    split; [congruence|]. split; [exact LX2|]. split.
    + intros r c Hr Hc Hkc. rewrite HX2 by auto. destruct (Nat.eqb_spec c k); [lia|]. apply Hcols; auto; lia.
    + intros r c Hr Hc.
      rewrite (rsum_ext _ (fun j => mg n A r j * (if Nat.eqb c k then nth j b3 0 else mg n X j c)))
        by (intros j Hj; rewrite HX2 by (auto; lia); reflexivity).
      destruct (Nat.eqb_spec c k) as [->|Nc].
      * unfold vg in Hb2, Hb3.
        apply (plu_column_correct k (fun j => nth j b2 0) (fun j => nth j b3 0)); auto.
        intros j Hj. rewrite (Hb2 j Hj). rewrite Hb1 by auto. rewrite Hcols by (auto; lia). reflexivity.
      * apply Hdone; auto; lia.
  - destruct s as [b X]. exists b, X. split; [exact E|]. split; auto.
Qed.

(* a_real_plu_inv_ : the same computation in place on the columns of X *)
Lemma plu_inv__correct (X0 : list R) :
  length X0 = (n * n)%nat ->
  exists X, plu_inv_ RO n (pA st) (pp st) X0 = Some X /\ length X = (n * n)%nat /\
    forall r c, (r < n)%nat -> (c < n)%nat -> rsum (fun j => mg n A r j * mg n X j c) n = delta r c.
Proof.
  intros LX.
  pose proof (plu_success_inv tiny tiny_pos n A LA p0 Lp0 st Hok) as (L1 & L2 & Pp & _).
  unfold plu_inv_.
  destruct (plu_P_spec tiny n (pp st) X0 L2 LX) as (X1 & E1 & LX1 & HP). rewrite E1.
  destruct (for_range_inv
              (fun k (X : list R) =>
                 length X = (n * n)%nat /\
                 (forall r c, (r < n)%nat -> (c < n)%nat -> (k <= c)%nat -> mg n X r c = Pf p r c) /\
                 (forall r c, (r < n)%nat -> (c < k)%nat ->
                    rsum (fun j => mg n A r j * mg n X j c) n = delta r c))
              0 n
              (fun i X => do X2 <- plu_lower_ RO n (pA st) X i; plu_upper_ RO n (pA st) X2 i) X1)
    as (X & E & LX' & _ & P).
  - lia.
  - repeat split; auto. intros; lia.
  - intros k X [_ Hk] (LXk & Hcols & Hdone).
    pose proof (colix_inj n k Hk) as Hinj.
    destruct (lower_gen_spec tiny n (colix n k) Hinj (pA st) X L1) as (X2 & E2 & LX2 & F2 & H2).
    { apply colix_ok; auto. }
    change (plu_lower_ RO n (pA st) X k) with (lower_gen tiny n (colix n k) (pA st) X). rewrite E2.
    destruct (upper_gen_spec tiny n (colix n k) Hinj (pA st) X2 L1) as (X3 & E3 & LX3 & F3 & H3).
    { apply colix_ok; auto. congruence. }
    change (plu_upper_ RO n (pA st) X2 k) with (upper_gen tiny n (colix n k) (pA st) X2). rewrite E3.
    exists X3. split; [reflexivity|]. split; [congruence|].
    assert (Hother : forall r c, (r < n)%nat -> (c < n)%nat -> c <> k -> mg n X3 r c = mg n X r c).
    { intros r c Hr Hc N. unfold mg. rewrite F3, F2 by (apply off_colix; auto). reflexivity. }
    split.
    + intros r c Hr Hc Hkc. rewrite Hother by (auto; lia). apply Hcols; auto; lia.
    + intros r c Hr Hc. destruct (Nat.eq_dec c k) as [->|Nc].
      * apply (plu_column_correct k (fun j => mg n X2 j k) (fun j => mg n X3 j k)); auto.
        -- intros j Hj. rewrite <- !vg_colix. rewrite (H2 j Hj). rewrite vg_colix.
           rewrite Hcols by (auto; lia). f_equal. apply isum_ext. intros c Hc'. now rewrite vg_colix.
        -- intros j Hj. rewrite <- !vg_colix. rewrite (H3 j Hj). f_equal. f_equal.
           apply isum_ext. intros c Hc'. now rewrite vg_colix.
      * rewrite (rsum_ext _ (fun j => mg n A r j * mg n X j c)) by (intros j Hj; rewrite Hother by (auto; lia); reflexivity).
        apply Hdone; auto; lia.
  - exists X. split; [exact E|]. split; auto.
Qed.

End PluInv.

(* ================================================================================ LDL / LLT *)
Section UnitVectors.
Variable n : nat.

(* b[r] = 0 for all r; b[i] = 1 *)
Lemma vec_unit (i : nat) (b : list R) :
  length b = n -> (i < n)%nat ->
  exists b0, for_range 0 n (fun r b => wr b r 0) b = Some b0 /\
    exists b1, wr b0 i 1 = Some b1 /\ length b1 = n /\ forall r, (r < n)%nat -> nth r b1 0 = dlt r i.
Proof.
  intros Lb Hi.
  destruct (for_range_inv
              (fun k (b' : list R) => length b' = n /\ forall r, (r < k)%nat -> nth r b' 0 = 0)
              0 n (fun r b => wr b r 0) b) as (b0 & E & L0 & P0).
  - lia.
  - split; auto. intros; lia.
  - intros k b1 [_ Hk] [L1 P1]. rewrite wr_some by lia. eexists. split; [reflexivity|].
    split; [now rewrite upd_length|]. intros r Hr. rewrite nth_upd by lia.
    destruct (Nat.eqb_spec r k); auto. apply P1. lia.
  - exists b0. split; [exact E|]. rewrite wr_some by lia. eexists. split; [reflexivity|].
    split; [now rewrite upd_length|]. intros r Hr. rewrite nth_upd by lia. unfold dlt.
    destruct (Nat.eqb_spec r i); auto.
Qed.

(* X[i + n*r] = (r == i) for all r *)
Lemma col_unit (i : nat) (X : list R) :
  length X = (n * n)%nat -> (i < n)%nat ->
  exists X0, for_range 0 n (fun r X => wr X (i + n * r) (if Nat.eqb r i then 1 else 0)) X = Some X0 /\
    length X0 = (n * n)%nat /\
    forall r c, (r < n)%nat -> (c < n)%nat -> mg n X0 r c = if Nat.eqb c i then dlt r i else mg n X r c.
Proof.
  intros LX Hi.
  destruct (for_range_inv
              (fun k (X' : list R) => length X' = (n * n)%nat /\
                 forall r c, (r < n)%nat -> (c < n)%nat ->
                   mg n X' r c = if (Nat.eqb c i && Nat.ltb r k)%bool then dlt r i else mg n X r c)
              0 n (fun r X => wr X (i + n * r) (if Nat.eqb r i then 1 else 0)) X) as (X0 & E & L0 & P0).
  - lia.
  - split; auto. intros r c _ _. now rewrite Bool.andb_false_r.
  - intros k X1 [_ Hk] [L1 P1]. rewrite (Nat.add_comm i). rewrite (wr_mg n) by auto.
    eexists. split; [reflexivity|]. split; [now rewrite upd_length|].
    intros r c Hr Hc. rewrite mg_upd by auto. rewrite P1 by auto. unfold dlt. bcase.
  - exists X0. split; [exact E|]. split; auto. intros r c Hr Hc. rewrite P0 by auto. bcase.
Qed.

End UnitVectors.

Section LdlInv.
Variable tiny : R.
Hypothesis tiny_pos : 0 < tiny.
Local Notation RO := (R_ops tiny).
Variable n : nat.
Variable A : list R.
Hypothesis LA : length A = (n * n)%nat.
Variable M : list R.
Hypothesis Hok : ldl RO n A = Some (0%nat, M).

Let m := mg n M.

Lemma ldl_column_correct i (y x : nat -> R) :
  (i < n)%nat ->
  (forall r, (r < n)%nat -> y r = dlt r i - isum (fun c => m r c * y c) 0 r) ->
  (forall c, (c < n)%nat -> x c = y c / m c c - isum (fun r => m r c * x r) (c + 1) n) ->
  forall r, (r < n)%nat -> rsum (fun c => symc (mg n A) r c * x c) n = delta r i.
Proof.
  intros Hi Hy Hx r Hr.
  pose proof (ldl_success_inv tiny tiny_pos n A LA M Hok) as (LM & _ & I2 & _).
  assert (Hd : forall j, (j < n)%nat -> m j j <> 0).
  { intros j Hj Z. specialize (I2 j Hj Hj). fold m in I2. rewrite Z, Rabs_R0 in I2. lra. }
  rewrite (rsum_ext _ (fun c => rsum (fun k => Lf m r k * m k k * Lf m c k) n * x c)).
  2:{ intros c Hc. rewrite (ldl_reconstruct_sym tiny tiny_pos n A LA M Hok r c Hr Hc). reflexivity. }
  apply (ldl_solve_algebra n m (fun r => dlt r i) y x); auto.
Qed.

Lemma ldl_inv_correct (b0 X0 : list R) :
  length b0 = n -> length X0 = (n * n)%nat ->
  exists b X, ldl_inv RO n M b0 X0 = Some (b, X) /\ length X = (n * n)%nat /\
    forall r c, (r < n)%nat -> (c < n)%nat -> rsum (fun j => symc (mg n A) r j * mg n X j c) n = delta r c.
Proof.
  intros Lb LX.
  pose proof (ldl_success_inv tiny tiny_pos n A LA M Hok) as (LM & _).
  unfold ldl_inv.
  assert (Hinj : forall r r', (r < n)%nat -> (r' < n)%nat -> (fun k : nat => k) r = (fun k : nat => k) r' -> r = r') by auto.
  destruct (for_range_inv
              (fun k (s : list R * list R) =>
                 length (fst s) = n /\ length (snd s) = (n * n)%nat /\
                 (forall r c, (r < n)%nat -> (c < k)%nat ->
                    rsum (fun j => symc (mg n A) r j * mg n (snd s) j c) n = delta r c))
              0 n
              (fun i (s : list R * list R) =>
                 let '(b, X) := s in
                 do b0 <- for_range 0 n (fun r b => wr b r (zero RO)) b;
                 do b1 <- wr b0 i (one RO);
                 do b2 <- for_range i n (fun r b =>
                            for_range i r (fun c b =>
                              do br <- rd b r; do a <- rd M (n * r + c); do bc <- rd b c;
                              wr b r (sub RO br (mul RO a bc))) b) b1;
                 do b3 <- ldl_upper RO n M b2;
                 do X2 <- for_range 0 n (fun r X => do v <- rd b3 r; wr X (i + n * r) v) X;
                 Some (b3, X2)) (b0, X0)) as (s & E & Lb' & LX' & P).
  - lia.
  - simpl. repeat split; auto. intros; lia.
  - intros k [b X] [_ Hk] (Lb1 & LX1 & Hdone). simpl in *.
    destruct (vec_unit n k b Lb1 Hk) as (bz & Ez & b1 & E1 & L1 & H1).
    rewrite Ez, E1.
    destruct (fwd_unit_gen_spec tiny n (fun j => j) Hinj k M b1 LM) as (b2 & E2 & L2 & _ & H2); auto.
    { intros r Hr. lia. }
    change (for_range k n _ b1) with (fwd_unit_gen tiny n (fun j => j) k M b1). rewrite E2.
    destruct (ldl_upper_gen_spec tiny n (fun j => j) Hinj M b2 LM) as (b3 & E3 & L3 & _ & H3).
    { intros r Hr. lia. }
    change (ldl_upper RO n M b2) with (ldl_upper_gen tiny n (fun j => j) M b2). rewrite E3.
    destruct (col_in n k X b3 LX1) as (X2 & EX2 & LX2 & HX2); auto; try congruence.
    rewrite EX2. eexists. split; [reflexivity|]. simpl.
    split; [congruence|]. split; [exact LX2|].
    intros r c Hr Hc.
    rewrite (rsum_ext _ (fun j => symc (mg n A) r j * (if Nat.eqb c k then nth j b3 0 else mg n X j c)))
      by (intros j Hj; rewrite HX2 by (auto; lia); reflexivity).
    destruct (Nat.eqb_spec c k) as [->|Nc].
    + unfold vg in H2, H3.
      apply (ldl_column_correct k (fun j => nth j b2 0) (fun j => nth j b3 0)); auto.
    + apply Hdone; auto; lia.
  - destruct s as [b X]. exists b, X. split; [exact E|]. split; auto.
Qed.

Lemma ldl_inv__correct (X0 : list R) :
  length X0 = (n * n)%nat ->
  exists X, ldl_inv_ RO n M X0 = Some X /\ length X = (n * n)%nat /\
    forall r c, (r < n)%nat -> (c < n)%nat -> rsum (fun j => symc (mg n A) r j * mg n X j c) n = delta r c.
Proof.
  intros LX.
  pose proof (ldl_success_inv tiny tiny_pos n A LA M Hok) as (LM & _).
  unfold ldl_inv_.
  destruct (for_range_inv
              (fun k (X : list R) =>
                 length X = (n * n)%nat /\
                 (forall r c, (r < n)%nat -> (c < k)%nat ->
                    rsum (fun j => symc (mg n A) r j * mg n X j c) n = delta r c))
              0 n
              (fun i X =>
                 do X0 <- for_range 0 n (fun r X => wr X (i + n * r) (if Nat.eqb r i then one RO else zero RO)) X;
                 do X1 <- for_range i n (fun r X =>
                            for_range i r (fun c X =>
                              do yr <- rd X (i + n * r); do a <- rd M (n * r + c); do yc <- rd X (i + n * c);
                              wr X (i + n * r) (sub RO yr (mul RO a yc))) X) X0;
                 ldl_upper_ RO n M X1 i) X0) as (X & E & LX' & P).
  - lia.
  - split; auto. intros; lia.
  - intros k X [_ Hk] (LXk & Hdone).
    pose proof (colix_inj n k Hk) as Hinj.
    destruct (col_unit n k X LXk Hk) as (Xa & Ea & La & Ha). cbn [one zero R_ops]. rewrite Ea.
    destruct (fwd_unit_gen_spec tiny n (colix n k) Hinj k M Xa LM) as (Xb & Eb & Lb & Fb & Hb); auto.
    { apply colix_ok; auto. }
    { intros r Hr. rewrite vg_colix. rewrite Ha by auto. now rewrite Nat.eqb_refl. }
    change (for_range k n _ Xa) with (fwd_unit_gen tiny n (colix n k) k M Xa). rewrite Eb.
    destruct (ldl_upper_gen_spec tiny n (colix n k) Hinj M Xb LM) as (Xc & Ec & Lc & Fc & Hc).
    { apply colix_ok; auto. congruence. }
    change (ldl_upper_ RO n M Xb k) with (ldl_upper_gen tiny n (colix n k) M Xb). rewrite Ec.
    exists Xc. split; [reflexivity|]. split; [congruence|].
    assert (Hother : forall r c, (r < n)%nat -> (c < n)%nat -> c <> k -> mg n Xc r c = mg n X r c).
    { intros r c Hr Hc' N. unfold mg at 1. rewrite Fc, Fb by (apply off_colix; auto).
      fold (mg n Xa r c). rewrite Ha by auto. destruct (Nat.eqb_spec c k); [lia|reflexivity]. }
    intros r c Hr Hc'. destruct (Nat.eq_dec c k) as [->|Nc].
    + apply (ldl_column_correct k (fun j => mg n Xb j k) (fun j => mg n Xc j k)); auto.
      * intros j Hj. rewrite <- !vg_colix. rewrite (Hb j Hj). f_equal.
        apply isum_ext. intros c Hc''. now rewrite vg_colix.
      * intros j Hj. rewrite <- !vg_colix. rewrite (Hc j Hj). f_equal.
        apply isum_ext. intros c Hc''. now rewrite vg_colix.
    + rewrite (rsum_ext _ (fun j => symc (mg n A) r j * mg n X j c)) by (intros j Hj; rewrite Hother by (auto; lia); reflexivity).
      apply Hdone; auto; lia.
  - exists X. split; [exact E|]. split; auto.
Qed.

End LdlInv.

Section LltInv.
Variable tiny : R.
Hypothesis tiny_pos : 0 < tiny.
Local Notation RO := (R_ops tiny).
Variable n : nat.
Variable A : list R.
Hypothesis LA : length A = (n * n)%nat.
Variable M : list R.
Hypothesis Hok : llt RO n A = Some (0%nat, M).

Let m := mg n M.

Lemma llt_column_correct i (y x : nat -> R) :
  (i < n)%nat ->
  (forall r, (r < n)%nat -> y r = (dlt r i - isum (fun c => m r c * y c) 0 r) / m r r) ->
  (forall c, (c < n)%nat -> x c = (y c - isum (fun r => m r c * x r) (c + 1) n) / m c c) ->
  forall r, (r < n)%nat -> rsum (fun c => symc (mg n A) r c * x c) n = delta r i.
Proof.
  intros Hi Hy Hx r Hr.
  pose proof (llt_success_inv tiny tiny_pos n A LA M Hok) as (LM & _ & I2 & _).
  assert (Hd : forall j, (j < n)%nat -> m j j <> 0).
  { intros j Hj. destruct (I2 j Hj Hj) as [Pos _]. fold m in Pos. lra. }
  rewrite (rsum_ext _ (fun c => rsum (fun k => Ltf m r k * Ltf m c k) n * x c)).
  2:{ intros c Hc. rewrite (llt_reconstruct_sym tiny tiny_pos n A LA M Hok r c Hr Hc). reflexivity. }
  apply (llt_solve_algebra n m (fun r => dlt r i) y x); auto.
Qed.

Lemma llt_inv_correct (b0 X0 : list R) :
  length b0 = n -> length X0 = (n * n)%nat ->
  exists b X, llt_inv RO n M b0 X0 = Some (b, X) /\ length X = (n * n)%nat /\
    forall r c, (r < n)%nat -> (c < n)%nat -> rsum (fun j => symc (mg n A) r j * mg n X j c) n = delta r c.
Proof.
  intros Lb LX.
  pose proof (llt_success_inv tiny tiny_pos n A LA M Hok) as (LM & _).
  unfold llt_inv.
  assert (Hinj : forall r r', (r < n)%nat -> (r' < n)%nat -> (fun k : nat => k) r = (fun k : nat => k) r' -> r = r') by auto.
  destruct (for_range_inv
              (fun k (s : list R * list R) =>
                 length (fst s) = n /\ length (snd s) = (n * n)%nat /\
                 (forall r c, (r < n)%nat -> (c < k)%nat ->
                    rsum (fun j => symc (mg n A) r j * mg n (snd s) j c) n = delta r c))
              0 n
              (fun i (s : list R * list R) =>
                 let '(b, X) := s in
                 do b0 <- for_range 0 n (fun r b => wr b r (zero RO)) b;
                 do b1 <- wr b0 i (one RO);
                 do b2 <- for_range i n (fun r b =>
                            do b' <- for_range i r (fun c b =>
                                       do br <- rd b r; do a <- rd M (n * r + c); do bc <- rd b c;
                                       wr b r (sub RO br (mul RO a bc))) b;
                            do br <- rd b' r; do a <- rd M (n * r + r);
                            wr b' r (div RO br a)) b1;
                 do b3 <- llt_upper RO n M b2;
                 do X2 <- for_range 0 n (fun r X => do v <- rd b3 r; wr X (i + n * r) v) X;
                 Some (b3, X2)) (b0, X0)) as (s & E & Lb' & LX' & P).
  - lia.
  - simpl. repeat split; auto. intros; lia.
  - intros k [b X] [_ Hk] (Lb1 & LX1 & Hdone). simpl in *.
    destruct (vec_unit n k b Lb1 Hk) as (bz & Ez & b1 & E1 & L1 & H1).
    rewrite Ez, E1.
    destruct (fwd_div_gen_spec tiny n (fun j => j) Hinj k M b1 LM) as (b2 & E2 & L2 & _ & H2); auto.
    { intros r Hr. lia. }
    change (for_range k n _ b1) with (fwd_div_gen tiny n (fun j => j) k M b1). rewrite E2.
    destruct (llt_upper_gen_spec tiny n (fun j => j) Hinj M b2 LM) as (b3 & E3 & L3 & _ & H3).
    { intros r Hr. lia. }
    change (llt_upper RO n M b2) with (llt_upper_gen tiny n (fun j => j) M b2). rewrite E3.
    destruct (col_in n k X b3 LX1) as (X2 & EX2 & LX2 & HX2); auto; try congruence.
    rewrite EX2. eexists. split; [reflexivity|]. simpl.
    split; [congruence|]. split; [exact LX2|].
    intros r c Hr Hc.
    rewrite (rsum_ext _ (fun j => symc (mg n A) r j * (if Nat.eqb c k then nth j b3 0 else mg n X j c)))
      by (intros j Hj; rewrite HX2 by (auto; lia); reflexivity).
    destruct (Nat.eqb_spec c k) as [->|Nc].
    + unfold vg in H2, H3.
      apply (llt_column_correct k (fun j => nth j b2 0) (fun j => nth j b3 0)); auto.
    + apply Hdone; auto; lia.
  - destruct s as [b X]. exists b, X. split; [exact E|]. split; auto.
Qed.

Lemma llt_inv__correct (X0 : list R) :
  length X0 = (n * n)%nat ->
  exists X, llt_inv_ RO n M X0 = Some X /\ length X = (n * n)%nat /\
    forall r c, (r < n)%nat -> (c < n)%nat -> rsum (fun j => symc (mg n A) r j * mg n X j c) n = delta r c.
Proof.
  intros LX.
  pose proof (llt_success_inv tiny tiny_pos n A LA M Hok) as (LM & _).
  unfold llt_inv_.
  destruct (for_range_inv
              (fun k (X : list R) =>
                 length X = (n * n)%nat /\
                 (forall r c, (r < n)%nat -> (c < k)%nat ->
                    rsum (fun j => symc (mg n A) r j * mg n X j c) n = delta r c))
              0 n
              (fun i X =>
                 do X0 <- for_range 0 n (fun r X => wr X (i + n * r) (if Nat.eqb r i then one RO else zero RO)) X;
                 do X1 <- for_range i n (fun r X =>
                            do X' <- for_range i r (fun c X =>
                                       do yr <- rd X (i + n * r); do a <- rd M (n * r + c); do yc <- rd X (i + n * c);
                                       wr X (i + n * r) (sub RO yr (mul RO a yc))) X;
                            do yr <- rd X' (i + n * r); do a <- rd M (n * r + r);
                            wr X' (i + n * r) (div RO yr a)) X0;
                 llt_upper_ RO n M X1 i) X0) as (X & E & LX' & P).
  - lia.
  - split; auto. intros; lia.
  - intros k X [_ Hk] (LXk & Hdone).
    pose proof (colix_inj n k Hk) as Hinj.
    destruct (col_unit n k X LXk Hk) as (Xa & Ea & La & Ha). cbn [one zero R_ops]. rewrite Ea.
    destruct (fwd_div_gen_spec tiny n (colix n k) Hinj k M Xa LM) as (Xb & Eb & Lb & Fb & Hb); auto.
    { apply colix_ok; auto. }
    { intros r Hr. rewrite vg_colix. rewrite Ha by auto. now rewrite Nat.eqb_refl. }
    change (for_range k n _ Xa) with (fwd_div_gen tiny n (colix n k) k M Xa). rewrite Eb.
    destruct (llt_upper_gen_spec tiny n (colix n k) Hinj M Xb LM) as (Xc & Ec & Lc & Fc & Hc).
    { apply colix_ok; auto. congruence. }
    change (llt_upper_ RO n M Xb k) with (llt_upper_gen tiny n (colix n k) M Xb). rewrite Ec.
    exists Xc. split; [reflexivity|]. split; [congruence|].
    assert (Hother : forall r c, (r < n)%nat -> (c < n)%nat -> c <> k -> mg n Xc r c = mg n X r c).
    { intros r c Hr Hc' N. unfold mg at 1. rewrite Fc, Fb by (apply off_colix; auto).
      fold (mg n Xa r c). rewrite Ha by auto. destruct (Nat.eqb_spec c k); [lia|reflexivity]. }
    intros r c Hr Hc'. destruct (Nat.eq_dec c k) as [->|Nc].
    + apply (llt_column_correct k (fun j => mg n Xb j k) (fun j => mg n Xc j k)); auto.
      * intros j Hj. rewrite <- !vg_colix. rewrite (Hb j Hj). f_equal. f_equal.
        apply isum_ext. intros c Hc''. now rewrite vg_colix.
      * intros j Hj. rewrite <- !vg_colix. rewrite (Hc j Hj). f_equal. f_equal.
        apply isum_ext. intros c Hc''. now rewrite vg_colix.
    + rewrite (rsum_ext _ (fun j => symc (mg n A) r j * mg n X j c)) by (intros j Hj; rewrite Hother by (auto; lia); reflexivity).
      apply Hdone; auto; lia.
  - exists X. split; [exact E|]. split; auto.
Qed.

End LltInv.
