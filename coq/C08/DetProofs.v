(* C08: the determinant family (det / lndet / sgndet of PLU, LDL, LLT) over R. *)
From Coq Require Import ZArith List Reals Lia Lra Psatz.
From LibaV Require Import C08.NumOps C08.FactorDefs C08.Instances C08.Base.
Import ListNotations.
Local Open Scope R_scope.

Section Det.
Variable tiny : R.
Let RO := R_ops tiny.

(* sign of a real as an integer *)
Definition sgnZ (x : R) : Z :=
  if Rlt_dec x 0 then (-1)%Z else if Req_EM_T x 0 then 0%Z else 1%Z.

Lemma rd_diag n A i : length A = (n * n)%nat -> (i < n)%nat -> rd A (n * i + i) = Some (mg n A i i).
Proof. intros HL Hi. apply rd_some. rewrite HL. now apply idx_lt. Qed.

Lemma prod_loop n A r0 :
  length A = (n * n)%nat ->
  for_range 0 n (fun i r => do a <- rd A (n * i + i); Some (mul RO r a)) r0
  = Some (r0 * rprod (fun i => mg n A i i) n).
Proof.
  intros HL.
  destruct (for_range_inv (fun k r => r = r0 * rprod (fun i => mg n A i i) k) 0 n
              (fun i r => do a <- rd A (n * i + i); Some (mul RO r a)) r0) as (s & E & P).
  - lia.
  - simpl. lra.
  - intros i s [_ Hi] ->. rewrite rd_diag by auto. eexists. split; [reflexivity|]. simpl. lra.
  - rewrite E, P. reflexivity.
Qed.

(* a_real_plu_det = sign * prod u_ii *)
Lemma plu_det_spec n A sign :
  length A = (n * n)%nat ->
  plu_det RO n A sign = Some (IZR sign * rprod (fun i => mg n A i i) n).
Proof. intros. unfold plu_det. now rewrite prod_loop. Qed.

Lemma ldl_det_spec n A :
  length A = (n * n)%nat ->
  ldl_det RO n A = Some (rprod (fun i => mg n A i i) n).
Proof. intros. unfold ldl_det. rewrite prod_loop by auto. f_equal. simpl. lra. Qed.

Lemma llt_det_spec n A :
  length A = (n * n)%nat ->
  llt_det RO n A = Some ((rprod (fun i => mg n A i i) n) ^ 2).
Proof. intros. unfold llt_det. rewrite prod_loop by auto. f_equal. simpl. lra. Qed.

(* ---- lndet ---- *)
Lemma lnsum_loop n A (g : R -> R) :
  length A = (n * n)%nat ->
  for_range 0 n (fun i r => do a <- rd A (n * i + i); Some (add RO r (g a))) 0
  = Some (rsum (fun i => g (mg n A i i)) n).
Proof.
  intros HL.
  destruct (for_range_inv (fun k r => r = rsum (fun i => g (mg n A i i)) k) 0 n
              (fun i r => do a <- rd A (n * i + i); Some (add RO r (g a))) 0) as (s & E & P).
  - lia.
  - reflexivity.
  - intros i s [_ Hi] ->. rewrite rd_diag by auto. eexists. split; [reflexivity|]. reflexivity.
  - rewrite E, P. reflexivity.
Qed.

Lemma plu_lndet_spec n A :
  length A = (n * n)%nat ->
  plu_lndet RO n A = Some (rsum (fun i => Rpower.ln (Rabs (mg n A i i))) n).
Proof. intros H. unfold plu_lndet. exact (lnsum_loop n A (fun a => Rpower.ln (Rabs a)) H). Qed.

Lemma llt_lndet_spec n A :
  length A = (n * n)%nat ->
  llt_lndet RO n A = Some (rsum (fun i => Rpower.ln (mg n A i i)) n * 2).
Proof.
  intros H. unfold llt_lndet.
  assert (E : for_range 0 n (fun i r => do a <- rd A (n * i + i); Some (add RO r (ln RO a))) (zero RO)
              = Some (rsum (fun i => Rpower.ln (mg n A i i)) n))
    by exact (lnsum_loop n A (fun a => Rpower.ln a) H).
  rewrite E. reflexivity.
Qed.

(* sum of logs = log of the product, when no factor vanishes *)
Lemma ln_rprod f k :
  (forall i, (i < k)%nat -> f i <> 0) ->
  rsum (fun i => Rpower.ln (Rabs (f i))) k = Rpower.ln (Rabs (rprod f k)) /\ rprod f k <> 0.
Proof.
  induction k as [|k IH]; intros H; simpl.
  - rewrite Rabs_R1, ln_1. split; lra.
  - destruct IH as [IH1 IH2]; [intros; apply H; lia|].
    assert (f k <> 0) by (apply H; lia).
    split; [|now apply Rmult_integral_contrapositive].
    rewrite Rabs_mult, ln_mult by (now apply Rabs_pos_lt). now rewrite IH1.
Qed.

(* ---- sgndet ---- *)
Lemma sgnZ_mult x y : sgnZ (x * y) = (sgnZ x * sgnZ y)%Z.
Proof.
  unfold sgnZ.
  destruct (Rlt_dec x 0), (Rlt_dec y 0), (Req_EM_T x 0), (Req_EM_T y 0); subst;
    repeat match goal with
           | |- context [Rlt_dec ?a 0] => destruct (Rlt_dec a 0)
           | |- context [Req_EM_T ?a 0] => destruct (Req_EM_T a 0)
           end; try reflexivity; try lra; exfalso; try nra.
Qed.

Lemma sgnZ_neg x : x < 0 -> sgnZ x = (-1)%Z.
Proof. intros. unfold sgnZ. destruct (Rlt_dec x 0); [reflexivity|contradiction]. Qed.
Lemma sgnZ_0 : sgnZ 0 = 0%Z.
Proof. unfold sgnZ. destruct (Rlt_dec 0 0); [lra|]. destruct (Req_EM_T 0 0); [reflexivity|congruence]. Qed.
Lemma sgnZ_pos x : ~ x < 0 -> x <> 0 -> sgnZ x = 1%Z.
Proof. intros. unfold sgnZ. destruct (Rlt_dec x 0); [contradiction|]. destruct (Req_EM_T x 0); [contradiction|reflexivity]. Qed.

Lemma sgndet_loop_spec n A sign :
  length A = (n * n)%nat ->
  exists s, sgndet_loop RO n A sign = Some s /\
            fst s = (sign * sgnZ (rprod (fun i => mg n A i i) n))%Z.
Proof.
  intros HL.
  destruct (for_range_inv
              (fun k (s : Z * bool) =>
                 fst s = (sign * sgnZ (rprod (fun i => mg n A i i) k))%Z /\
                 (snd s = true -> rprod (fun i => mg n A i i) k = 0))
              0 n
              (fun i (s : Z * bool) =>
                 if snd s then Some s
                 else do x <- rd A (n * i + i);
                      if ltb RO x (zero RO) then Some (Z.opp (fst s), false)
                      else if eqb RO x (zero RO) then Some (0%Z, true) else Some s)
              (sign, false)) as (s & E & P1 & P2).
  - lia.
  - simpl. split; [|discriminate]. rewrite sgnZ_pos by lra. lia.
  - intros i [z b] [_ Hi] [Q1 Q2]. simpl in *.
    destruct b.
    + eexists; split; [reflexivity|]. simpl. rewrite (Q2 eq_refl), Rmult_0_l. split; auto.
      rewrite Q1, (Q2 eq_refl). reflexivity.
    + rewrite rd_diag by auto. rewrite sgnZ_mult.
      destruct (Rlt_dec (mg n A i i) 0) as [L|NL].
      * eexists; split; [reflexivity|]. simpl. split; [|discriminate].
        rewrite Q1, (sgnZ_neg _ L). lia.
      * destruct (Req_EM_T (mg n A i i) 0) as [Z0|NZ].
        -- eexists; split; [reflexivity|]. simpl. split; [|intros _; rewrite Z0; lra].
           rewrite Z0, sgnZ_0. lia.
        -- eexists; split; [reflexivity|]. simpl. split; [|discriminate].
           rewrite Q1, (sgnZ_pos _ NL NZ). lia.
  - exists s. split; auto.
Qed.

Lemma plu_sgndet_spec n A sign :
  length A = (n * n)%nat ->
  plu_sgndet RO n A sign = Some (sign * sgnZ (rprod (fun i => mg n A i i) n))%Z.
Proof.
  intros HL. unfold plu_sgndet.
  destruct (sgndet_loop_spec n A sign HL) as (s & E & P). rewrite E, P. reflexivity.
Qed.

End Det.
