(* C08: non-vacuity - concrete inputs on which the hypotheses of the theorems hold
   (a successful PLU with a row exchange, a successful LDL and LLT, failing inputs). *)
From Coq Require Import ZArith List Reals Lia Lra Psatz Bool.
From LibaV Require Import C08.NumOps C08.FactorDefs C08.Instances C08.Base.
Import ListNotations.
Local Open Scope R_scope.

Ltac rdec :=
  repeat match goal with
         | |- context [Rlt_dec ?a ?b] => destruct (Rlt_dec a b); try lra
         | |- context [Req_EM_T ?a ?b] => destruct (Req_EM_T a b); try lra
         end.

Definition tq : R := 1 / 4.

(* PLU of [[1,2],[3,4]]: the rows are exchanged (|3| > |1|), sign = -1, p = [1;0] *)
Example plu_2x2_swap :
  plu (R_ops tq) 2 [1; 2; 3; 4] [0%nat; 0%nat] =
  Some (0%nat, {| pA := [3; 4; 1 / 3; 2 - 4 * (1 / 3)]; pp := [1%nat; 0%nat]; psign := (-1)%Z |}).
Proof.
  unfold plu, for_range, tq. simpl.
  unfold plu_step, plu_maxstep, for_range. simpl.
  rewrite !Rabs_right by lra. rdec.
  unfold real_swap, plu_elim_row, for_range. simpl.
  rewrite !Rabs_right by lra.
  destruct (Rlt_dec (2 - 4 * (1 / 3)) (1 / 4)); [lra|]. reflexivity.
Qed.

(* LDL of [[4,2],[2,3]]: d = (4, 2), l10 = 1/2 *)
Example ldl_2x2 :
  ldl (R_ops tq) 2 [4; 2; 2; 3] = Some (0%nat, [4; 2; 2 / 4; 3 - 2 / 4 * (2 / 4) * 4]).
Proof.
  unfold ldl, for_range, tq. simpl.
  unfold ldl_step, for_range. simpl.
  rewrite (Rabs_right 4) by lra. rdec.
  unfold ldl_step, for_range. simpl.
  rewrite Rabs_right by lra. rdec. reflexivity.
Qed.

(* LLT of [[4,.],[2,5]]: l00 = sqrt 4, l10 = 2 / sqrt 4, l11 = sqrt (5 - l10^2) *)
Example llt_2x2 :
  llt (R_ops tq) 2 [4; 0; 2; 5] =
  Some (0%nat, [R_sqrt.sqrt 4; 0; 2 / R_sqrt.sqrt 4;
                R_sqrt.sqrt (5 - 2 / R_sqrt.sqrt 4 * (2 / R_sqrt.sqrt 4))]).
Proof.
  assert (S4 : R_sqrt.sqrt 4 = 2) by (replace 4 with (2 * 2) by lra; apply sqrt_square; lra).
  unfold llt, for_range, tq. simpl.
  unfold llt_step, for_range. simpl.
  destruct (Rlt_dec 4 (1 / 4)); [lra|]. simpl.
  unfold llt_step, for_range. simpl.
  destruct (Rlt_dec (5 - 2 / R_sqrt.sqrt 4 * (2 / R_sqrt.sqrt 4)) (1 / 4)) as [L|NL].
  - rewrite S4 in L. lra.
  - reflexivity.
Qed.

(* failures: duplicated rows, zero LDL pivot, non-positive Cholesky pivot *)
Example plu_2x2_duplicate_rows_fails :
  exists st, plu (R_ops tq) 2 [1; 1; 1; 1] [0%nat; 0%nat] = Some (1%nat, st).
Proof.
  eexists. unfold plu, for_range, tq. simpl.
  unfold plu_step, plu_maxstep, for_range. simpl.
  rewrite !Rabs_right by lra. rdec.
  unfold plu_elim_row, for_range. simpl.
  destruct (Rlt_dec (Rabs (1 - 1 * (1 / 1))) (1 / 4)) as [L|NL]; [reflexivity|].
  exfalso. apply NL. replace (1 - 1 * (1 / 1)) with 0 by field. rewrite Rabs_R0. lra.
Qed.

Example ldl_2x2_zero_pivot_fails :
  exists M, ldl (R_ops tq) 2 [1; 1; 1; 1] = Some (1%nat, M).
Proof.
  eexists. unfold ldl, for_range, tq. simpl.
  unfold ldl_step, for_range. simpl.
  rewrite Rabs_R1. rdec.
  unfold ldl_step, for_range. simpl.
  destruct (Rlt_dec (Rabs (1 - 1 / 1 * (1 / 1) * 1)) (1 / 4)) as [L|NL]; [reflexivity|].
  exfalso. apply NL. replace (1 - 1 / 1 * (1 / 1) * 1) with 0 by field. rewrite Rabs_R0. lra.
Qed.

Example llt_1x1_nonpositive_fails :
  exists M, llt (R_ops tq) 1 [-2] = Some (1%nat, M).
Proof.
  eexists. unfold llt, for_range, tq. simpl.
  unfold llt_step, for_range. simpl. rdec. reflexivity.
Qed.
