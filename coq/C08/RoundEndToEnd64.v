(* C08: the factorisation + solve theorems of RoundEndToEnd.v at IEEE binary64 round-to-nearest-even
   (rnd64 of Common/RoundFlocq.v: std_model rnd64 2^-53 2^-1075, proved from Flocq), every order n with 3 n < 2^53.

   Reading (as in RoundSolve64.v / RoundFactor64.v): [Rnd8_ops rnd64 tiny] performs every operation exactly and rounds the
   result to binary64 with gradual underflow and NO overflow threshold.  Coq's primitive-float operations return exactly
   that value as long as the rounded result stays below 2^1024 (RoundFlocq.prim_*_rnd64); a run of the C routines in
   which no intermediate overflows or is NaN therefore computes the factors and the solution of these theorems.  That
   last step is an assumption here, not a theorem.  tiny is A_REAL_MIN = DBL_MIN = 2^-1022 in the C; the theorems hold
   for every tiny > 0. *)
From Coq Require Import ZArith List Reals Lia Lra Permutation.
From Flocq Require Import Core.
From LibaV Require Import Common.RoundOps Common.RoundFlocq.
From LibaV Require Import C08.NumOps C08.FactorDefs C08.Instances C08.Base C08.PermProofs C08.RoundSolve C08.RoundSolve64
  C08.RoundFactor C08.RoundFactor64 C08.RoundEndToEnd.
Local Open Scope R_scope.

(* PLU + solve (Higham Thm 9.4): (A + dA) x^ = b + db exactly, |dA| <= gamma_{3n} P^T |L^||U^| + O(n) eta64, u = 2^-53 *)
Theorem plu_solve_end_to_end_binary64 tiny n (A : list R) (p0 : list nat) (b x0 : list R) :
  0 < tiny -> length A = (n * n)%nat -> length p0 = n -> length b = n -> length x0 = n -> (Z.of_nat (3 * n) < 2 ^ 53)%Z ->
  exists rc st, plu (Rnd8_ops rnd64 tiny) n A p0 = Some (rc, st) /\ length (pA st) = (n * n)%nat /\ length (pp st) = n /\
    (rc = 0%nat \/ rc = 1%nat) /\
    (rc = 0%nat ->
       Permutation (pp st) (seq 0 n) /\
       exists xh (dA : nat -> nat -> R) (db : nat -> R),
         plu_solve (Rnd8_ops rnd64 tiny) n (pA st) (pp st) b x0 = Some xh /\ length xh = n /\
         (forall i, (i < n)%nat -> rsum (fun c => (mg n A i c + dA i c) * nth c xh 0) n = nth i b 0 + db i) /\
         (forall r c, (r < n)%nat -> (c < n)%nat ->
            Rabs (dA (nth r (pp st) 0%nat) c)
            <= gamma eps64 (3 * n) * lu_abs_cell (mg n (pA st)) r c
               + (3 * INR n + Rabs (mg n (pA st) c c)) * (1 + gamma eps64 n) * eta64) /\
         (forall r, (r < n)%nat ->
            Rabs (db (nth r (pp st) 0%nat))
            <= 3 * INR r * (1 + gamma eps64 r) * eta64
               + (1 + gamma eps64 n)
                 * rsum (fun j => Rabs (lrow n (pA st) r j)
                                  * ((3 * INR (n - j) + Rabs (mg n (pA st) j j)) * (1 + gamma eps64 (n - j)) * eta64)) (S r)) /\
         (eta64 = 0 -> forall i, (i < n)%nat -> db i = 0)).
Proof.
  intros Ht LA Lp Lb Lx Hn.
  exact (plu_solve_end_to_end rnd64 eps64 eta64 tiny std_model_binary64 Ht n A p0 b x0 LA Lp Lb Lx (small_n64 _ Hn)).
Qed.

(* LDL^T + solve: (A + dA) x^ = b + db exactly, |dA| <= gamma_{3n} |L^||D^||L^|^T + O(n + sum |d_i|) eta64 *)
Theorem ldl_solve_end_to_end_binary64 tiny n (A b : list R) :
  0 < tiny -> length A = (n * n)%nat -> length b = n -> (Z.of_nat (3 * n) < 2 ^ 53)%Z ->
  exists rc Mh, ldl (Rnd8_ops rnd64 tiny) n A = Some (rc, Mh) /\ length Mh = (n * n)%nat /\ (rc = 0%nat \/ rc = 1%nat) /\
    (rc = 0%nat ->
       exists xh (dA : nat -> nat -> R) (db : nat -> R),
         ldl_solve (Rnd8_ops rnd64 tiny) n Mh b = Some xh /\ length xh = n /\
         (forall r, (r < n)%nat -> rsum (fun k => (symlow n A r k + dA r k) * nth k xh 0) n = nth r b 0 + db r) /\
         (forall r k, (r < n)%nat -> (k < n)%nat ->
            Rabs (dA r k)
            <= gamma eps64 (3 * n) * ldlt_abs_cell (mg n Mh) (Nat.max r k) (Nat.min r k)
               + (3 * INR n + rsum (fun i => Rabs (mg n Mh i i)) (S (Nat.min r k))) * (1 + gamma eps64 n) * eta64) /\
         (forall r, (r < n)%nat ->
            Rabs (db r)
            <= 3 * INR r * (1 + gamma eps64 r) * eta64
               + (1 + gamma eps64 n)
                 * rsum (fun c => Rabs (lrow n Mh r c)
                                  * (Rabs (mg n Mh c c) * (3 * INR (n - c) * (1 + gamma eps64 (n - c)) * eta64))) (S r)) /\
         (eta64 = 0 -> forall r, (r < n)%nat -> db r = 0)).
Proof.
  intros Ht LA Lb Hn.
  exact (ldl_solve_end_to_end rnd64 eps64 eta64 tiny std_model_binary64 Ht n A b LA Lb (small_n64 _ Hn)).
Qed.

(* the hypotheses at the C's threshold A_REAL_MIN = DBL_MIN and a concrete order: n = 100 gives gamma_{3n} < 3.4e-14 *)
Example plu_end_to_end_binary64_dbl_min_100 (A : list R) (p0 : list nat) (b x0 : list R) :
  length A = (100 * 100)%nat -> length p0 = 100%nat -> length b = 100%nat -> length x0 = 100%nat ->
  exists rc st, plu (Rnd8_ops rnd64 dbl_min) 100 A p0 = Some (rc, st) /\ (rc = 0%nat \/ rc = 1%nat) /\
    (rc = 0%nat ->
       exists xh (dA : nat -> nat -> R) (db : nat -> R),
         plu_solve (Rnd8_ops rnd64 dbl_min) 100 (pA st) (pp st) b x0 = Some xh /\
         (forall i, (i < 100)%nat -> rsum (fun c => (mg 100 A i c + dA i c) * nth c xh 0) 100 = nth i b 0 + db i) /\
         (forall r c, (r < 100)%nat -> (c < 100)%nat ->
            Rabs (dA (nth r (pp st) 0%nat) c)
            <= gamma eps64 300 * lu_abs_cell (mg 100 (pA st)) r c
               + (3 * INR 100 + Rabs (mg 100 (pA st) c c)) * (1 + gamma eps64 100) * eta64)).
Proof.
  intros LA Lp Lb Lx.
  destruct (plu_solve_end_to_end_binary64 dbl_min 100 A p0 b x0 dbl_min_pos LA Lp Lb Lx) as (rc & st & E & _ & _ & Hrc & P).
  { apply Z.ltb_lt. vm_compute. reflexivity. }
  exists rc, st. split; [exact E|]. split; [exact Hrc|]. intros Hz.
  destruct (P Hz) as (_ & xh & dA & db & Es & _ & Eq & BA & _). exists xh, dA, db. auto.
Qed.

Example gamma64_300 : gamma eps64 300 <= 34 / 1000000000000000.
Proof.
  unfold gamma. rewrite eps64_val. replace (INR 300) with 300 by (rewrite INR_IZR_INZ; reflexivity).
  apply (Rmult_le_reg_r (1 - 300 * / 9007199254740992)); [lra|].
  unfold Rdiv. rewrite Rmult_assoc, Rinv_l by lra. lra.
Qed.
