(* C08: what each inner loop of a_real_plu does to the flat array, as a function of (row, column).
   Instance R.  Every lemma has the shape "under the length preconditions the loop returns
   Some array (no out-of-bounds access) and its cells are ...". *)
From Coq Require Import ZArith List Reals Lia Lra Psatz Bool.
From LibaV Require Import C08.NumOps C08.FactorDefs C08.Instances C08.Base.
Import ListNotations.
Local Open Scope R_scope.

Ltac bcase :=
  repeat match goal with
         | |- context [Nat.eqb ?a ?b] =>
             let E := fresh "E" in
             destruct (Nat.eqb_spec a b) as [E|E]; [try first [subst a | subst b]|]
         | |- context [Nat.ltb ?a ?b] => destruct (Nat.ltb_spec a b)
         | |- context [Nat.leb ?a ?b] => destruct (Nat.leb_spec a b)
         end; simpl; try lia; try reflexivity.

Section Steps.
Variable tiny : R.
Let RO := R_ops tiny.
Variable n : nat.

Lemma rd_mg M r c : length M = (n * n)%nat -> (r < n)%nat -> (c < n)%nat -> rd M (n * r + c) = Some (mg n M r c).
Proof. intros HL Hr Hc. apply rd_some. rewrite HL. now apply idx_lt. Qed.

Lemma wr_mg (M : list R) r c v :
  length M = (n * n)%nat -> (r < n)%nat -> (c < n)%nat -> wr M (n * r + c) v = Some (upd M (n * r + c) v).
Proof. intros HL Hr Hc. apply wr_some. rewrite HL. now apply idx_lt. Qed.

(* ---- linalg_plu.c:13-25 : search of the column maximum ---- *)
Lemma maxsearch_spec A i :
  length A = (n * n)%nat -> (i < n)%nat ->
  exists mx ab mi,
    for_range (i + 1) n (plu_maxstep RO n i A) (mg n A i i, Rabs (mg n A i i), i) = Some (mx, ab, mi) /\
    (i <= mi < n)%nat /\ mx = mg n A mi i /\ ab = Rabs mx /\
    (forall r, (i <= r < n)%nat -> Rabs (mg n A r i) <= ab).
Proof.
  intros HL Hi.
  destruct (for_range_inv
              (fun k (s : R * R * nat) =>
                 (i <= snd s < k)%nat /\ fst (fst s) = mg n A (snd s) i /\ snd (fst s) = Rabs (fst (fst s)) /\
                 (forall r, (i <= r < k)%nat -> Rabs (mg n A r i) <= snd (fst s)))
              (i + 1) n (plu_maxstep RO n i A) (mg n A i i, Rabs (mg n A i i), i)) as (s & E & P).
  - lia.
  - simpl. repeat split; try lia. intros r Hr. replace r with i by lia. lra.
  - intros k [[mx ab] mi] Hk (P1 & P2 & P3 & P4). simpl in *.
    unfold plu_maxstep. rewrite rd_mg by (auto; lia). simpl.
    destruct (Rlt_dec ab (Rabs (mg n A k i))) as [L|NL].
    + eexists. split; [reflexivity|]. simpl. repeat split; try lia.
      intros r Hr. destruct (Nat.eq_dec r k) as [->|N]; [lra|].
      specialize (P4 r ltac:(lia)). lra.
    + eexists. split; [reflexivity|]. simpl. repeat split; try lia; auto.
      intros r Hr. destruct (Nat.eq_dec r k) as [->|N]; [lra|].
      apply P4. lia.
  - destruct s as [[mx ab] mi]. simpl in P. destruct P as (P1 & P2 & P3 & P4).
    exists mx, ab, mi. repeat split; auto; lia.
Qed.

(* ---- math.c a_real_swap on two different rows ---- *)
Lemma swap_spec A i m :
  length A = (n * n)%nat -> (i < n)%nat -> (m < n)%nat -> i <> m ->
  exists A', real_swap n A (n * i) (n * m) = Some A' /\ length A' = (n * n)%nat /\
    forall r c, (r < n)%nat -> (c < n)%nat ->
      mg n A' r c = if Nat.eqb r i then mg n A m c else if Nat.eqb r m then mg n A i c else mg n A r c.
Proof.
  intros HL Hi Hm Nim. unfold real_swap.
  destruct (for_range_inv
              (fun k (A' : list R) =>
                 length A' = (n * n)%nat /\
                 forall r c, (r < n)%nat -> (c < n)%nat ->
                   mg n A' r c = if Nat.ltb c k
                                 then (if Nat.eqb r i then mg n A m c else if Nat.eqb r m then mg n A i c else mg n A r c)
                                 else mg n A r c)
              0 n
              (fun k A => do x <- rd A (n * i + k); do y <- rd A (n * m + k);
                          do A1 <- wr A (n * i + k) y; wr A1 (n * m + k) x) A) as (A' & E & L' & P).
  - lia.
  - split; auto.
  - intros k A1 [_ Hk] [L1 P1].
    rewrite !rd_mg by auto. rewrite wr_mg by auto.
    rewrite wr_mg by (rewrite ?upd_length; auto).
    eexists. split; [reflexivity|]. split; [now rewrite !upd_length|].
    intros r c Hr Hc.
    rewrite mg_upd by (rewrite ?upd_length; auto).
    rewrite mg_upd by auto.
    rewrite !P1 by auto.
    bcase.
  - exists A'. split; [exact E|]. split; auto.
    intros r c Hr Hc. rewrite P by auto. bcase.
Qed.

(* ---- linalg_plu.c:37-43 : elimination of one row ---- *)
Lemma elim_row_spec A i mx r :
  length A = (n * n)%nat -> (i < r)%nat -> (r < n)%nat ->
  exists A', plu_elim_row RO n i mx r A = Some A' /\ length A' = (n * n)%nat /\
    forall r' c', (r' < n)%nat -> (c' < n)%nat ->
      mg n A' r' c' =
      if Nat.eqb r' r
      then (if Nat.eqb c' i then mg n A r i / mx
            else if Nat.ltb i c' then mg n A r c' - mg n A i c' * (mg n A r i / mx)
                 else mg n A r c')
      else mg n A r' c'.
Proof.
  intros HL Hir Hr. unfold plu_elim_row.
  rewrite rd_mg by (auto; lia). simpl.
  set (x := mg n A r i / mx).
  destruct (for_range_inv
              (fun k (A' : list R) =>
                 length A' = (n * n)%nat /\
                 forall r' c', (r' < n)%nat -> (c' < n)%nat ->
                   mg n A' r' c' = if (Nat.eqb r' r && Nat.ltb i c' && Nat.ltb c' k)%bool
                                   then mg n A r c' - mg n A i c' * x else mg n A r' c')
              (i + 1) n
              (fun c A0 => do arc <- rd A0 (n * r + c); do aic <- rd A0 (n * i + c);
                           wr A0 (n * r + c) (arc - aic * x)) A) as (A1 & E & L1 & P1).
  - lia.
  - split; auto. intros r' c' _ _. bcase.
  - intros k A0 Hk [L0 P0].
    rewrite !rd_mg by (auto; lia). rewrite wr_mg by (auto; lia).
    eexists. split; [reflexivity|]. split; [now rewrite upd_length|].
    intros r' c' Hr' Hc'. rewrite mg_upd by (auto; lia). rewrite !P0 by (auto; lia).
    bcase.
  - unfold RO in E. simpl in E. unfold RO. simpl. rewrite E.
    rewrite wr_mg by (auto; lia).
    eexists. split; [reflexivity|]. split; [now rewrite upd_length|].
    intros r' c' Hr' Hc'. rewrite mg_upd by (auto; lia). rewrite !P1 by (auto; lia).
    bcase.
Qed.

(* ---- linalg_plu.c:35-44 : elimination of all rows below the pivot row ---- *)
Lemma elim_spec A i mx :
  length A = (n * n)%nat -> (i < n)%nat ->
  exists A', for_range (i + 1) n (plu_elim_row RO n i mx) A = Some A' /\ length A' = (n * n)%nat /\
    forall r c, (r < n)%nat -> (c < n)%nat ->
      mg n A' r c =
      if Nat.ltb i r
      then (if Nat.eqb c i then mg n A r i / mx
            else if Nat.ltb i c then mg n A r c - mg n A i c * (mg n A r i / mx)
                 else mg n A r c)
      else mg n A r c.
Proof.
  intros HL Hi.
  destruct (for_range_inv
              (fun k (A' : list R) =>
                 length A' = (n * n)%nat /\
                 forall r c, (r < n)%nat -> (c < n)%nat ->
                   mg n A' r c =
                   if (Nat.ltb i r && Nat.ltb r k)%bool
                   then (if Nat.eqb c i then mg n A r i / mx
                         else if Nat.ltb i c then mg n A r c - mg n A i c * (mg n A r i / mx)
                              else mg n A r c)
                   else mg n A r c)
              (i + 1) n (plu_elim_row RO n i mx) A) as (A1 & E & L1 & P1).
  - lia.
  - split; auto. intros r c _ _. bcase.
  - intros k A0 Hk [L0 P0].
    destruct (elim_row_spec A0 i mx k L0) as (A2 & E2 & L2 & P2); try lia.
    exists A2. split; [exact E2|]. split; auto.
    intros r c Hr Hc. rewrite P2 by auto. rewrite !P0 by (auto; lia).
    bcase.
  - exists A1. split; [exact E|]. split; auto.
    intros r c Hr Hc. rewrite P1 by auto. bcase.
Qed.

End Steps.
