(* C08: executable model of src/linalg_plu.c, src/linalg_ldl.c, src/linalg_llt.c
   (and of the four read-out kernels of src/linalg.c they call: triL, triL1, triU, diag1).

   Conventions
   - a matrix is the flat row-major C array: [list T] of length n*n, cell (r,c) at n*r+c,
     indices are computed as the C computes them (n*r+c, strided column walks off+n*r,
     the (n+1)*c + n*(r-c) walk of ldl_upper/llt_upper);
   - every access goes through [rd]/[wr] (NumOps.v): out of bounds = [None];
   - loops are [for_range]/[for_down] with the C loop body as the step function, in the
     C's statement order (the order matters for the floating-point instance);
   - return codes: 0 = A_SUCCESS, 1 = A_FAILURE; an early [return A_FAILURE] leaves the
     arrays as they are at that moment (the state is part of the result);
   - [a_uint]/[a_size] are [nat] (no wrap: all indices are < n*n <= 2^64 for n < 2^32),
     [int sign] is [Z].
   No proofs in this file. *)
From Coq Require Import ZArith List.
From LibaV Require Import C08.NumOps.
Import ListNotations.

Section Model.
Context {T : Type} (O : NumOps T).

Local Notation "a -- b" := (sub O a b) (at level 50, left associativity).
Local Notation "a ** b" := (mul O a b) (at level 40, left associativity).
Local Notation "a // b" := (div O a b) (at level 40, left associativity).

(* ------------------------------------------------------------------ helpers *)

(* math.c: a_real_swap(n, lhs, rhs) with lhs = A+ol, rhs = A+orr *)
Definition real_swap (n : nat) (A : list T) (ol orr : nat) : option (list T) :=
  for_range 0 n (fun k A =>
    do x <- rd A (ol + k);
    do y <- rd A (orr + k);
    do A1 <- wr A (ol + k) y;
    wr A1 (orr + k) x) A.

(* linalg.c: a_real_triL1 (unit lower), a_real_triL (lower), a_real_triU (upper), a_real_diag1.
   The C walks the output with a running pointer; the k-th write goes to cell k = n*r+c. *)
Definition triL1 (n : nat) (A L : list T) : option (list T) :=
  for_range 0 n (fun r L =>
    for_range 0 n (fun c L =>
      if Nat.ltb c r then do v <- rd A (n * r + c); wr L (n * r + c) v
      else if Nat.eqb c r then wr L (n * r + c) (one O)
      else wr L (n * r + c) (zero O)) L) L.

Definition triL (n : nat) (A L : list T) : option (list T) :=
  for_range 0 n (fun r L =>
    for_range 0 n (fun c L =>
      if Nat.leb c r then do v <- rd A (n * r + c); wr L (n * r + c) v
      else wr L (n * r + c) (zero O)) L) L.

Definition triU (n : nat) (A U : list T) : option (list T) :=
  for_range 0 n (fun r U =>
    for_range 0 n (fun c U =>
      if Nat.ltb c r then wr U (n * r + c) (zero O)
      else do v <- rd A (n * r + c); wr U (n * r + c) v) U) U.

Definition diag1 (n : nat) (A d : list T) : option (list T) :=
  for_range 0 n (fun i d => do v <- rd A ((n + 1) * i); wr d i v) d.

(* ===================================================================== PLU *)

Record plu_st : Type := { pA : list T; pp : list nat; psign : Z }.

(* linalg_plu.c:15-25, one iteration of the column maximum search *)
Definition plu_maxstep (n i : nat) (A : list T) (r : nat) (s : T * T * nat) : option (T * T * nat) :=
  let '(max_x, abs_x, max_i) := s in
  do max_r <- rd A (n * r + i);
  let abs_r := abs O max_r in
  if ltb O abs_x abs_r then Some (max_r, abs_r, r) else Some s.

(* linalg_plu.c:35-44, one row of the elimination *)
Definition plu_elim_row (n i : nat) (max_x : T) (r : nat) (A : list T) : option (list T) :=
  do ari <- rd A (n * r + i);
  let x := ari // max_x in
  do A1 <- for_range (i + 1) n (fun c A =>
             do arc <- rd A (n * r + c);
             do aic <- rd A (n * i + c);
             wr A (n * r + c) (arc -- aic ** x)) A;
  wr A1 (n * r + i) x.

(* linalg_plu.c:10-45, the body of the outer loop; result (return code, state) *)
Definition plu_step (n i : nat) (st : plu_st) : option (nat * plu_st) :=
  let A := pA st in
  do max_x0 <- rd A (n * i + i);
  do m <- for_range (i + 1) n (plu_maxstep n i A) (max_x0, abs O max_x0, i);
  let '(max_x, abs_x, max_i) := m in
  if ltb O abs_x (tiny O) then Some (1, st)
  else
    do st1 <- (if Nat.eqb max_i i then Some st
               else
                 do u <- rd (pp st) i;
                 do v <- rd (pp st) max_i;
                 do p1 <- wr (pp st) i v;
                 do p2 <- wr p1 max_i u;
                 do A1 <- real_swap n A (n * i) (n * max_i);
                 Some {| pA := A1; pp := p2; psign := Z.opp (psign st) |});
    do A2 <- for_range (i + 1) n (plu_elim_row n i max_x) (pA st1);
    Some (0, {| pA := A2; pp := pp st1; psign := psign st1 |}).

(* a_real_plu(n, A, p, &sign); p0 is the caller's p buffer *)
Definition plu (n : nat) (A : list T) (p0 : list nat) : option (nat * plu_st) :=
  do p1 <- for_range 0 n (fun i p => wr p i i) p0;
  for_range 0 n (fun i (s : nat * plu_st) =>
                   if Nat.eqb (fst s) 0 then plu_step n i (snd s) else Some s)
            (0, {| pA := A; pp := p1; psign := 1%Z |}).

(* a_real_plu_P / a_real_plu_P_ *)
Definition plu_P (n : nat) (p : list nat) (P : list T) : option (list T) :=
  for_range 0 n (fun r P =>
    do i <- rd p r;
    for_range 0 n (fun c P => wr P (n * r + c) (if Nat.eqb c i then one O else zero O)) P) P.

Definition plu_P_ (n : nat) (p : list nat) (P : list T) : option (list T) :=
  for_range 0 n (fun r P =>
    for_range 0 n (fun c P =>
      do pc <- rd p c;
      wr P (n * r + c) (if Nat.eqb pc r then one O else zero O)) P) P.

Definition plu_L (n : nat) (A L : list T) := triL1 n A L.
Definition plu_U (n : nat) (A U : list T) := triU n A U.

Definition plu_apply (n : nat) (p : list nat) (b Pb : list T) : option (list T) :=
  for_range 0 n (fun i Pb => do pi <- rd p i; do v <- rd b pi; wr Pb i v) Pb.

(* y[r] -= L[n*r+c] * y[c] *)
Definition plu_lower (n : nat) (L y : list T) : option (list T) :=
  for_range 0 n (fun r y =>
    for_range 0 r (fun c y =>
      do yr <- rd y r; do l <- rd L (n * r + c); do yc <- rd y c;
      wr y r (yr -- l ** yc)) y) y.

(* strided: the vector is column [off] of the row-major matrix y (the C passes y+off) *)
Definition plu_lower_ (n : nat) (L y : list T) (off : nat) : option (list T) :=
  for_range 0 n (fun r y =>
    for_range 0 r (fun c y =>
      do yr <- rd y (off + n * r); do l <- rd L (n * r + c); do yc <- rd y (off + n * c);
      wr y (off + n * r) (yr -- l ** yc)) y) y.

Definition plu_upper (n : nat) (U x : list T) : option (list T) :=
  for_down n (fun r x =>
    do x1 <- for_range (r + 1) n (fun c x =>
               do xr <- rd x r; do u <- rd U (n * r + c); do xc <- rd x c;
               wr x r (xr -- u ** xc)) x;
    do xr <- rd x1 r; do u <- rd U (n * r + r);
    wr x1 r (xr // u)) x.

Definition plu_upper_ (n : nat) (U x : list T) (off : nat) : option (list T) :=
  for_down n (fun r x =>
    do x1 <- for_range (r + 1) n (fun c x =>
               do xr <- rd x (off + n * r); do u <- rd U (n * r + c); do xc <- rd x (off + n * c);
               wr x (off + n * r) (xr -- u ** xc)) x;
    do xr <- rd x1 (off + n * r); do u <- rd U (n * r + r);
    wr x1 (off + n * r) (xr // u)) x.

Definition plu_solve (n : nat) (A : list T) (p : list nat) (b x : list T) : option (list T) :=
  do x1 <- plu_apply n p b x;
  do x2 <- plu_lower n A x1;
  plu_upper n A x2.

(* result (b, X): the scratch vector is part of the observable state *)
Definition plu_inv (n : nat) (A : list T) (p : list nat) (b X : list T) : option (list T * list T) :=
  do X1 <- plu_P n p X;
  for_range 0 n (fun c (s : list T * list T) =>
    let '(b, X) := s in
    do b1 <- for_range 0 n (fun r b => do v <- rd X (c + n * r); wr b r v) b;
    do b2 <- plu_lower n A b1;
    do b3 <- plu_upper n A b2;
    do X2 <- for_range 0 n (fun r X => do v <- rd b3 r; wr X (c + n * r) v) X;
    Some (b3, X2)) (b, X1).

Definition plu_inv_ (n : nat) (A : list T) (p : list nat) (X : list T) : option (list T) :=
  do X1 <- plu_P n p X;
  for_range 0 n (fun i X =>
    do X2 <- plu_lower_ n A X i;
    plu_upper_ n A X2 i) X1.

(* r = (a_real)sign; r *= A[n*i+i] *)
Definition plu_det (n : nat) (A : list T) (sign : Z) : option T :=
  for_range 0 n (fun i r => do a <- rd A (n * i + i); Some (r ** a)) (ofZ O sign).

Definition plu_lndet (n : nat) (A : list T) : option T :=
  for_range 0 n (fun i r => do a <- rd A (n * i + i); Some (add O r (ln O (abs O a)))) (zero O).

(* state (sign, broke-out-of-the-loop) *)
Definition sgndet_loop (n : nat) (A : list T) (sign : Z) : option (Z * bool) :=
  for_range 0 n (fun i (s : Z * bool) =>
    if snd s then Some s
    else
      do x <- rd A (n * i + i);
      if ltb O x (zero O) then Some (Z.opp (fst s), false)
      else if eqb O x (zero O) then Some (0%Z, true)
      else Some s) (sign, false).

Definition plu_sgndet (n : nat) (A : list T) (sign : Z) : option Z :=
  do s <- sgndet_loop n A sign; Some (fst s).

(* ===================================================================== LDL *)

(* linalg_ldl.c:8-23, the body of the outer loop *)
Definition ldl_step (n c : nat) (A : list T) : option (nat * list T) :=
  do A1 <- for_range 0 c (fun i A =>
             do acc <- rd A (n * c + c); do aci <- rd A (n * c + i); do d <- rd A (n * i + i);
             wr A (n * c + c) (acc -- aci ** aci ** d)) A;
  do acc <- rd A1 (n * c + c);
  if ltb O (abs O acc) (tiny O) then Some (1, A1)
  else
    do A2 <- for_range (c + 1) n (fun r A =>
               do A' <- for_range 0 c (fun i A =>
                          do arc <- rd A (n * r + c); do ari <- rd A (n * r + i);
                          do aci <- rd A (n * c + i); do d <- rd A (n * i + i);
                          wr A (n * r + c) (arc -- ari ** aci ** d)) A;
               do arc <- rd A' (n * r + c); do acc <- rd A' (n * c + c);
               wr A' (n * r + c) (arc // acc)) A1;
    Some (0, A2).

Definition ldl (n : nat) (A : list T) : option (nat * list T) :=
  for_range 0 n (fun c (s : nat * list T) =>
                   if Nat.eqb (fst s) 0 then ldl_step n c (snd s) else Some s) (0, A).

Definition ldl_L (n : nat) (A L : list T) := triL1 n A L.
Definition ldl_D (n : nat) (A d : list T) := diag1 n A d.

Definition ldl_lower (n : nat) (L y : list T) := plu_lower n L y.        (* same text as plu_lower *)
Definition ldl_lower_ (n : nat) (L y : list T) (off : nat) := plu_lower_ n L y off.

(* Lc = L + (n+1)*c; x[c] /= *Lc; for r: Lc += n; x[c] -= *Lc * x[r] *)
Definition ldl_upper (n : nat) (L x : list T) : option (list T) :=
  for_down n (fun c x =>
    do xc <- rd x c; do d <- rd L ((n + 1) * c);
    do x1 <- wr x c (xc // d);
    for_range (c + 1) n (fun r x =>
      do xc <- rd x c; do l <- rd L ((n + 1) * c + n * (r - c)); do xr <- rd x r;
      wr x c (xc -- l ** xr)) x1) x.

Definition ldl_upper_ (n : nat) (L x : list T) (off : nat) : option (list T) :=
  for_down n (fun c x =>
    do xc <- rd x (off + n * c); do d <- rd L ((n + 1) * c);
    do x1 <- wr x (off + n * c) (xc // d);
    for_range (c + 1) n (fun r x =>
      do xc <- rd x (off + n * c); do l <- rd L ((n + 1) * c + n * (r - c)); do xr <- rd x (off + n * r);
      wr x (off + n * c) (xc -- l ** xr)) x1) x.

Definition ldl_solve (n : nat) (A x : list T) : option (list T) :=
  do x1 <- ldl_lower n A x; ldl_upper n A x1.

Definition ldl_inv (n : nat) (A b X : list T) : option (list T * list T) :=
  for_range 0 n (fun i (s : list T * list T) =>
    let '(b, X) := s in
    do b0 <- for_range 0 n (fun r b => wr b r (zero O)) b;
    do b1 <- wr b0 i (one O);
    do b2 <- for_range i n (fun r b =>
               for_range i r (fun c b =>
                 do br <- rd b r; do a <- rd A (n * r + c); do bc <- rd b c;
                 wr b r (br -- a ** bc)) b) b1;
    do b3 <- ldl_upper n A b2;
    do X2 <- for_range 0 n (fun r X => do v <- rd b3 r; wr X (i + n * r) v) X;
    Some (b3, X2)) (b, X).

Definition ldl_inv_ (n : nat) (A X : list T) : option (list T) :=
  for_range 0 n (fun i X =>
    do X0 <- for_range 0 n (fun r X => wr X (i + n * r) (if Nat.eqb r i then one O else zero O)) X;
    do X1 <- for_range i n (fun r X =>
               for_range i r (fun c X =>
                 do yr <- rd X (i + n * r); do a <- rd A (n * r + c); do yc <- rd X (i + n * c);
                 wr X (i + n * r) (yr -- a ** yc)) X) X0;
    ldl_upper_ n A X1 i) X.

Definition ldl_det (n : nat) (A : list T) : option T :=
  for_range 0 n (fun i r => do a <- rd A (n * i + i); Some (r ** a)) (one O).

Definition ldl_lndet (n : nat) (A : list T) : option T := plu_lndet n A.  (* same text *)

Definition ldl_sgndet (n : nat) (A : list T) : option Z := plu_sgndet n A 1%Z.

(* ===================================================================== LLT *)

(* linalg_llt.c:8-24, the body of the outer loop *)
Definition llt_step (n r : nat) (A : list T) : option (nat * list T) :=
  do A1 <- for_range 0 r (fun c A =>
             do A' <- for_range 0 c (fun i A =>
                        do arc <- rd A (n * r + c); do ari <- rd A (n * r + i); do aci <- rd A (n * c + i);
                        wr A (n * r + c) (arc -- ari ** aci)) A;
             do arc <- rd A' (n * r + c); do acc <- rd A' (n * c + c);
             wr A' (n * r + c) (arc // acc)) A;
  do A2 <- for_range 0 r (fun i A =>
             do arr <- rd A (n * r + r); do ari <- rd A (n * r + i);
             wr A (n * r + r) (arr -- ari ** ari)) A1;
  do arr <- rd A2 (n * r + r);
  if ltb O arr (tiny O) then Some (1, A2)
  else do A3 <- wr A2 (n * r + r) (sqrt O arr); Some (0, A3).

Definition llt (n : nat) (A : list T) : option (nat * list T) :=
  for_range 0 n (fun r (s : nat * list T) =>
                   if Nat.eqb (fst s) 0 then llt_step n r (snd s) else Some s) (0, A).

Definition llt_L (n : nat) (A L : list T) := triL n A L.

Definition llt_lower (n : nat) (L y : list T) : option (list T) :=
  for_range 0 n (fun r y =>
    do y1 <- for_range 0 r (fun c y =>
               do yr <- rd y r; do l <- rd L (n * r + c); do yc <- rd y c;
               wr y r (yr -- l ** yc)) y;
    do yr <- rd y1 r; do l <- rd L (n * r + r);
    wr y1 r (yr // l)) y.

Definition llt_lower_ (n : nat) (L y : list T) (off : nat) : option (list T) :=
  for_range 0 n (fun r y =>
    do y1 <- for_range 0 r (fun c y =>
               do yr <- rd y (off + n * r); do l <- rd L (n * r + c); do yc <- rd y (off + n * c);
               wr y (off + n * r) (yr -- l ** yc)) y;
    do yr <- rd y1 (off + n * r); do l <- rd L (n * r + r);
    wr y1 (off + n * r) (yr // l)) y.

(* Lcc = L[(n+1)*c]; for r: Lc += n; x[c] -= *Lc * x[r]; x[c] /= Lcc *)
Definition llt_upper (n : nat) (L x : list T) : option (list T) :=
  for_down n (fun c x =>
    do lcc <- rd L ((n + 1) * c);
    do x1 <- for_range (c + 1) n (fun r x =>
               do xc <- rd x c; do l <- rd L ((n + 1) * c + n * (r - c)); do xr <- rd x r;
               wr x c (xc -- l ** xr)) x;
    do xc <- rd x1 c;
    wr x1 c (xc // lcc)) x.

Definition llt_upper_ (n : nat) (L x : list T) (off : nat) : option (list T) :=
  for_down n (fun c x =>
    do lcc <- rd L ((n + 1) * c);
    do x1 <- for_range (c + 1) n (fun r x =>
               do xc <- rd x (off + n * c); do l <- rd L ((n + 1) * c + n * (r - c)); do xr <- rd x (off + n * r);
               wr x (off + n * c) (xc -- l ** xr)) x;
    do xc <- rd x1 (off + n * c);
    wr x1 (off + n * c) (xc // lcc)) x.

Definition llt_solve (n : nat) (A x : list T) : option (list T) :=
  do x1 <- llt_lower n A x; llt_upper n A x1.

Definition llt_inv (n : nat) (A b X : list T) : option (list T * list T) :=
  for_range 0 n (fun i (s : list T * list T) =>
    let '(b, X) := s in
    do b0 <- for_range 0 n (fun r b => wr b r (zero O)) b;
    do b1 <- wr b0 i (one O);
    do b2 <- for_range i n (fun r b =>
               do b' <- for_range i r (fun c b =>
                          do br <- rd b r; do a <- rd A (n * r + c); do bc <- rd b c;
                          wr b r (br -- a ** bc)) b;
               do br <- rd b' r; do a <- rd A (n * r + r);
               wr b' r (br // a)) b1;
    do b3 <- llt_upper n A b2;
    do X2 <- for_range 0 n (fun r X => do v <- rd b3 r; wr X (i + n * r) v) X;
    Some (b3, X2)) (b, X).

Definition llt_inv_ (n : nat) (A X : list T) : option (list T) :=
  for_range 0 n (fun i X =>
    do X0 <- for_range 0 n (fun r X => wr X (i + n * r) (if Nat.eqb r i then one O else zero O)) X;
    do X1 <- for_range i n (fun r X =>
               do X' <- for_range i r (fun c X =>
                          do yr <- rd X (i + n * r); do a <- rd A (n * r + c); do yc <- rd X (i + n * c);
                          wr X (i + n * r) (yr -- a ** yc)) X;
               do yr <- rd X' (i + n * r); do a <- rd A (n * r + r);
               wr X' (i + n * r) (yr // a)) X0;
    llt_upper_ n A X1 i) X.

(* r = 1; r *= A[n*i+i]; return r*r *)
Definition llt_det (n : nat) (A : list T) : option T :=
  do r <- for_range 0 n (fun i r => do a <- rd A (n * i + i); Some (r ** a)) (one O);
  Some (r ** r).

(* r = 0; r += log(A[n*i+i]); return r*2 *)
Definition llt_lndet (n : nat) (A : list T) : option T :=
  do r <- for_range 0 n (fun i r => do a <- rd A (n * i + i); Some (add O r (ln O a))) (zero O);
  Some (r ** ofZ O 2).

End Model.
