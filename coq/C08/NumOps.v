(* C08: the numeric interface the factorisation model is written against, and the
   bounds-checked array / loop combinators.  No proofs in this file.

   The model of linalg_plu.c / linalg_ldl.c / linalg_llt.c (FactorDefs.v) is ONE Gallina
   term, polymorphic in a record [NumOps T]; it is instantiated with
     - R           (Instances.v, R_ops)    : the instance the theorems are about,
     - PrimFloat   (Instances.v, F64_ops)  : IEEE binary64, executed by vm_compute and
                                             compared bit for bit with the C code. *)
From Coq Require Import ZArith List.
Import ListNotations.

Record NumOps (T : Type) : Type := {
  zero : T;
  one  : T;
  add  : T -> T -> T;
  sub  : T -> T -> T;
  mul  : T -> T -> T;
  div  : T -> T -> T;
  abs  : T -> T;                 (* a_real_abs  = fabs  *)
  sqrt : T -> T;                 (* a_real_sqrt = sqrt  *)
  ln   : T -> T;                 (* a_real_log  = log (libm) *)
  ltb  : T -> T -> bool;         (* C  a < b  *)
  eqb  : T -> T -> bool;         (* C  a == b *)
  ofZ  : Z -> T;                 (* C  (a_real)int_value *)
  tiny : T                       (* A_REAL_MIN *)
}.

Arguments zero {T}. Arguments one {T}. Arguments add {T}. Arguments sub {T}.
Arguments mul {T}. Arguments div {T}. Arguments abs {T}. Arguments sqrt {T}.
Arguments ln {T}. Arguments ltb {T}. Arguments eqb {T}. Arguments ofZ {T}.
Arguments tiny {T}.

(* ---------------------------------------------------------------- arrays *)
(* A C array is a list; every read and write is bounds-checked and an access outside the
   array makes the whole computation [None] (so a theorem of the form
   "... = Some result" also says that the modelled code stays inside its buffers). *)

Definition rd {A} (l : list A) (i : nat) : option A := nth_error l i.

Fixpoint wr {A} (l : list A) (i : nat) (v : A) : option (list A) :=
  match l, i with
  | [], _ => None
  | _ :: t, O => Some (v :: t)
  | x :: t, S j => match wr t j v with Some t' => Some (x :: t') | None => None end
  end.

Notation "'do' x <- a ; b" := (match a with Some x => b | None => None end)
  (at level 200, x pattern, a at level 100, b at level 200, right associativity).

(* ----------------------------------------------------------------- loops *)
(* for (i = lo; i < lo + cnt; ++i) s = f i s; *)
Fixpoint forM {St} (lo cnt : nat) (f : nat -> St -> option St) (s : St) : option St :=
  match cnt with
  | O => Some s
  | S k => do s' <- f lo s; forM (S lo) k f s'
  end.

(* for (i = lo; i < hi; ++i) *)
Definition for_range {St} (lo hi : nat) (f : nat -> St -> option St) (s : St) : option St :=
  forM lo (hi - lo) f s.

(* for (i = n; i;) { --i; s = f i s; } *)
Fixpoint for_down {St} (n : nat) (f : nat -> St -> option St) (s : St) : option St :=
  match n with
  | O => Some s
  | S k => do s' <- f k s; for_down k f s'
  end.
