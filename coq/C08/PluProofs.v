(* C08: a_real_plu over R - loop invariant of the outer loop, shape and reconstruction.

   Invariant after k steps (state M, p, sign; a0 = the input matrix):
     - p is a permutation of 0..n-1 and sign is its parity;
     - [recon]  for every cell (r,c):
           a0(p r, c) = sum_{j < min(r,k), j <= c} M(r,j) * M(j,c)
                        + (if r < k then [r <= c] M(r,c) else [k <= c] M(r,c))
       i.e.  P_k A = L_k R_k  with L_k the unit lower triangle of the first k columns and R_k the
       first k rows of U on top of the (not yet reduced) Schur complement;
     - [mult_ok] |M(r,j)| <= 1 for j < k, j < r;   [diag_ok] |M(j,j)| >= tiny for j < k. *)
From Coq Require Import ZArith List Reals Lia Lra Psatz Bool Permutation.
From LibaV Require Import C08.NumOps C08.FactorDefs C08.Instances C08.Base C08.PermProofs C08.PluSteps.
Import ListNotations.
Local Open Scope R_scope.

Ltac split7 := simpl; split; [|split; [|split; [|split; [|split; [|split]]]]].

Section Plu.
Variable tiny : R.
Hypothesis tiny_pos : 0 < tiny.
Let RO := R_ops tiny.
Variable n : nat.
Variable a0 : nat -> nat -> R.          (* the input matrix *)

Definition recon (k : nat) (m : nat -> nat -> R) (p : nat -> nat) : Prop :=
  forall r c, (r < n)%nat -> (c < n)%nat ->
    a0 (p r) c =
    rsum (fun j => m r j * m j c) (Nat.min (Nat.min r k) (S c)) +
    (if Nat.ltb r k then (if Nat.leb r c then m r c else 0) else (if Nat.leb k c then m r c else 0)).

Definition mult_ok (k : nat) (m : nat -> nat -> R) : Prop :=
  forall r j, (j < k)%nat -> (j < r)%nat -> (r < n)%nat -> Rabs (m r j) <= 1.

Definition diag_ok (k : nat) (m : nat -> nat -> R) : Prop :=
  forall j, (j < k)%nat -> (j < n)%nat -> tiny <= Rabs (m j j).

Lemma recon_init : recon 0 a0 (fun r => r).
Proof.
  intros r c Hr Hc. rewrite Nat.min_0_r. simpl. lra.
Qed.

(* exchange of rows k and mx (> k) of M together with p *)
Lemma recon_swap k mx m p m' p' :
  recon k m p -> (k < mx)%nat -> (mx < n)%nat ->
  (forall r c, (r < n)%nat -> (c < n)%nat ->
     m' r c = if Nat.eqb r k then m mx c else if Nat.eqb r mx then m k c else m r c) ->
  (forall r, (r < n)%nat -> p' r = if Nat.eqb r k then p mx else if Nat.eqb r mx then p k else p r) ->
  recon k m' p'.
Proof.
  intros H Hk Hmx Hm Hp r c Hr Hc.
  rewrite Hp by auto.
  destruct (Nat.eqb_spec r k) as [->|Nk].
  - (* new row k = old row mx *)
    rewrite (H mx c) by auto.
    replace (Nat.min (Nat.min mx k) (S c)) with (Nat.min (Nat.min k k) (S c)) by lia.
    f_equal.
    + apply rsum_ext. intros j Hj. rewrite !Hm by lia. bcase.
    + rewrite Hm by lia. bcase.
  - destruct (Nat.eqb_spec r mx) as [->|Nmx].
    + rewrite (H k c) by lia.
      replace (Nat.min (Nat.min mx k) (S c)) with (Nat.min (Nat.min k k) (S c)) by lia.
      f_equal.
      * apply rsum_ext. intros j Hj. rewrite !Hm by lia. bcase.
      * rewrite Hm by lia. bcase.
    + rewrite (H r c) by auto.
      f_equal.
      * apply rsum_ext. intros j Hj. rewrite !Hm by lia. bcase.
      * rewrite Hm by lia. bcase.
Qed.

(* elimination of column k with pivot m k k <> 0 *)
Lemma recon_elim k m p m' :
  recon k m p -> (k < n)%nat -> m k k <> 0 ->
  (forall r c, (r < n)%nat -> (c < n)%nat ->
     m' r c = if Nat.ltb k r
              then (if Nat.eqb c k then m r k / m k k
                    else if Nat.ltb k c then m r c - m k c * (m r k / m k k) else m r c)
              else m r c) ->
  recon (S k) m' p.
Proof.
  intros H Hk Hpiv Hm r c Hr Hc.
  rewrite (H r c) by auto.
  destruct (le_lt_dec r k) as [Hrk|Hrk].
  - (* rows up to k are not touched; neither are the rows j < r they refer to *)
    replace (Nat.min (Nat.min r (S k)) (S c)) with (Nat.min (Nat.min r k) (S c)) by lia.
    f_equal.
    + apply rsum_ext. intros j Hj. rewrite !Hm by lia. bcase.
    + rewrite Hm by lia. bcase.
  - (* rows below the pivot row *)
    destruct (lt_eq_lt_dec c k) as [[Hc1| ->]|Hc1].
    + replace (Nat.min (Nat.min r (S k)) (S c)) with (Nat.min (Nat.min r k) (S c)) by lia.
      f_equal.
      * apply rsum_ext. intros j Hj. rewrite !Hm by lia. bcase.
      * bcase.
    + replace (Nat.min (Nat.min r (S k)) (S k)) with (S k) by lia.
      replace (Nat.min (Nat.min r k) (S k)) with k by lia.
      rewrite rsum_S.
      rewrite (rsum_ext (fun j => m' r j * m' j k) (fun j => m r j * m j k))
        by (intros j Hj; rewrite !Hm by lia; bcase).
      rewrite !Hm by lia. bcase. field. auto.
    + replace (Nat.min (Nat.min r (S k)) (S c)) with (S k) by lia.
      replace (Nat.min (Nat.min r k) (S c)) with k by lia.
      rewrite rsum_S.
      rewrite (rsum_ext (fun j => m' r j * m' j c) (fun j => m r j * m j c))
        by (intros j Hj; rewrite !Hm by lia; bcase).
      rewrite !Hm by lia. bcase. field. auto.
Qed.

(* ------------------------------------------------------------ the invariant *)
Definition pfun (p : list nat) : nat -> nat := fun r => nth r p 0%nat.

Definition PInv (k : nat) (st : plu_st) : Prop :=
  length (pA st) = (n * n)%nat /\ length (pp st) = n /\
  Permutation (pp st) (seq 0 n) /\ psign st = perm_sign (pp st) /\
  recon k (mg n (pA st)) (pfun (pp st)) /\ mult_ok k (mg n (pA st)) /\ diag_ok k (mg n (pA st)).

(* linalg_plu.c:27-34 : the conditional exchange *)
Lemma pivot_swap_spec i st mx mi :
  (i < n)%nat -> PInv i st -> (i <= mi < n)%nat -> mx = mg n (pA st) mi i ->
  (forall r, (i <= r < n)%nat -> Rabs (mg n (pA st) r i) <= Rabs mx) ->
  exists st1,
    (if Nat.eqb mi i then Some st
     else
       do u <- rd (pp st) i;
       do v <- rd (pp st) mi;
       do p1 <- wr (pp st) i v;
       do p2 <- wr p1 mi u;
       do A1 <- real_swap n (pA st) (n * i) (n * mi);
       Some {| pA := A1; pp := p2; psign := Z.opp (psign st) |}) = Some st1 /\
    PInv i st1 /\ mg n (pA st1) i i = mx /\
    (forall r, (i <= r < n)%nat -> Rabs (mg n (pA st1) r i) <= Rabs mx).
Proof.
  intros Hi (LA & Lp & Pp & Sg & Rc & Mo & Do) Hmi Emx Hmax.
  destruct (Nat.eqb_spec mi i) as [->|Nmi].
  - exists st. split; auto. split; [unfold PInv; split7; auto|]. split; auto.
  - rewrite (rd_some 0%nat) by lia. cbv beta iota. rewrite (rd_some 0%nat) by lia. cbv beta iota.
    rewrite wr_some by lia. cbv beta iota. rewrite wr_some by (rewrite upd_length; lia). cbv beta iota.
    destruct (swap_spec n (pA st) i mi LA) as (A1 & E1 & L1 & P1); try lia.
    rewrite E1. eexists. split; [reflexivity|]. simpl.
    assert (ND : NoDup (pp st)) by (eapply Permutation_NoDup; [symmetry; exact Pp|apply seq_NoDup]).
    destruct (swap_perm_sign (pp st) i mi ND) as [Pq Sq]; [lia|]. cbv zeta in Pq, Sq.
    assert (Hp' : forall r, (r < n)%nat ->
              pfun (upd (upd (pp st) i (nth mi (pp st) 0%nat)) mi (nth i (pp st) 0%nat)) r =
              if Nat.eqb r i then pfun (pp st) mi else if Nat.eqb r mi then pfun (pp st) i else pfun (pp st) r).
    { intros r Hr. unfold pfun. rewrite nth_upd by (rewrite upd_length; lia).
      rewrite nth_upd by lia. bcase. }
    split; [|split].
    + unfold PInv. split7.
      * exact L1.
      * now rewrite !upd_length.
      * eapply Permutation_trans; [exact Pq|exact Pp].
      * rewrite Sq, Sg. reflexivity.
      * eapply (recon_swap i mi (mg n (pA st)) (pfun (pp st))); eauto; lia.
      * intros r j Hj Hjr Hr. rewrite P1 by lia. bcase; apply Mo; lia.
      * intros j Hj Hjn. rewrite P1 by lia. bcase. apply Do; lia.
    + rewrite P1 by lia. bcase. auto.
    + intros r Hr. rewrite P1 by lia. bcase; apply Hmax; lia.
Qed.

(* linalg_plu.c:35-44 : the elimination re-establishes the invariant for k+1 *)
Lemma elim_inv i st1 mx A2 :
  (i < n)%nat -> PInv i st1 -> mg n (pA st1) i i = mx -> tiny <= Rabs mx ->
  (forall r, (i <= r < n)%nat -> Rabs (mg n (pA st1) r i) <= Rabs mx) ->
  length A2 = (n * n)%nat ->
  (forall r c, (r < n)%nat -> (c < n)%nat ->
     mg n A2 r c =
     if Nat.ltb i r
     then (if Nat.eqb c i then mg n (pA st1) r i / mx
           else if Nat.ltb i c then mg n (pA st1) r c - mg n (pA st1) i c * (mg n (pA st1) r i / mx)
                else mg n (pA st1) r c)
     else mg n (pA st1) r c) ->
  PInv (S i) {| pA := A2; pp := pp st1; psign := psign st1 |}.
Proof.
  intros Hi (LA & Lp & Pp & Sg & Rc & Mo & Do) Emx Hmx Hmax L2 P2.
  subst mx. set (piv := mg n (pA st1) i i) in *.
  assert (Nz : piv <> 0).
  { intros Z. rewrite Z, Rabs_R0 in Hmx. lra. }
  unfold PInv. split7; auto.
  - apply (recon_elim i (mg n (pA st1))); auto.
  - intros r j Hj Hjr Hr. rewrite P2 by lia.
    destruct (Nat.eq_dec j i) as [->|Nj].
    + specialize (Hmax r ltac:(lia)).
      assert (0 < Rabs piv) by (apply Rabs_pos_lt; auto).
      bcase. unfold Rdiv. rewrite Rabs_mult, Rabs_inv.
      apply Rmult_le_reg_r with (Rabs piv); auto.
      rewrite Rmult_assoc, Rinv_l by lra. lra.
    + bcase; apply Mo; lia.
  - intros j Hj Hjn. rewrite P2 by lia.
    destruct (Nat.eq_dec j i) as [->|Nj].
    + bcase. auto.
    + bcase. apply Do; lia.
Qed.

(* linalg_plu.c:10-45 : one iteration of the outer loop *)
Lemma plu_step_spec i st :
  (i < n)%nat -> PInv i st ->
  exists rc st',
    plu_step RO n i st = Some (rc, st') /\
    ((rc = 0%nat /\ PInv (S i) st') \/
     (rc = 1%nat /\ st' = st /\ forall r, (i <= r < n)%nat -> Rabs (mg n (pA st) r i) < tiny)).
Proof.
  intros Hi Inv. pose proof Inv as (LA & Lp & Pp & Sg & Rc & Mo & Do).
  unfold plu_step. rewrite (rd_mg n) by auto.
  destruct (maxsearch_spec tiny n (pA st) i LA Hi) as (mx & ab & mi & E & Hmi & Emx & Eab & Hmax).
  unfold RO. simpl. unfold RO in E. simpl in E. rewrite E.
  destruct (Rlt_dec ab tiny) as [Lt|NLt].
  - exists 1%nat, st. split; auto. right. repeat split; auto.
    intros r Hr. specialize (Hmax r Hr). lra.
  - rewrite Eab in Hmax.
    destruct (pivot_swap_spec i st mx mi Hi Inv Hmi Emx Hmax) as (st1 & E1 & Inv1 & Ep & Hmax1).
    rewrite E1.
    destruct (elim_spec tiny n (pA st1) i mx) as (A2 & E2 & L2 & P2); auto.
    { destruct Inv1 as (L1 & _). exact L1. }
    unfold RO in E2. simpl in E2. rewrite E2.
    eexists 0%nat, _. split; [reflexivity|]. left. split; auto.
    apply elim_inv with (mx := mx); auto. lra.
Qed.

(* ------------------------------------------------------------ the whole function *)
Lemma init_p (p0 : list nat) :
  length p0 = n -> for_range 0 n (fun i p => wr p i i) p0 = Some (seq 0 n).
Proof.
  intros L.
  destruct (for_range_inv
              (fun k (p : list nat) => length p = n /\ forall i, (i < k)%nat -> nth i p 0%nat = i)
              0 n (fun i p => wr p i i) p0) as (p & E & Lp & P).
  - lia.
  - split; auto. intros; lia.
  - intros k p [_ Hk] [Lp P]. rewrite wr_some by lia. eexists. split; [reflexivity|].
    split; [now rewrite upd_length|]. intros i Hi. rewrite nth_upd by lia.
    destruct (Nat.eqb_spec i k); auto. apply P. lia.
  - rewrite E. f_equal. apply (nth_ext _ _ 0%nat 0%nat).
    + now rewrite seq_length.
    + intros i Hi. rewrite seq_nth by lia. rewrite P by lia. reflexivity.
Qed.

End Plu.

Section PluMain.
Variable tiny : R.
Hypothesis tiny_pos : 0 < tiny.
Let RO := R_ops tiny.
Variable n : nat.
Variable A : list R.
Hypothesis LA : length A = (n * n)%nat.

Lemma PInv_init : PInv tiny n (mg n A) 0 {| pA := A; pp := seq 0 n; psign := 1%Z |}.
Proof.
  unfold PInv. split7; auto.
  - apply seq_length.
  - now rewrite perm_sign_seq.
  - intros r c Hr Hc. unfold pfun. rewrite seq_nth by auto. simpl.
    apply (recon_init n (mg n A)); auto.
  - intros r j Hj. lia.
  - intros j Hj. lia.
Qed.

(* failure state: some step j found its whole pivot column below the threshold *)
Definition plu_failed (st : plu_st) : Prop :=
  exists j, (j < n)%nat /\ PInv tiny n (mg n A) j st /\
            forall r, (j <= r < n)%nat -> Rabs (mg n (pA st) r j) < tiny.

Lemma plu_spec (p0 : list nat) :
  length p0 = n ->
  exists rc st, plu RO n A p0 = Some (rc, st) /\
    ((rc = 0%nat /\ PInv tiny n (mg n A) n st) \/ (rc = 1%nat /\ plu_failed st)).
Proof.
  intros Lp. unfold plu. rewrite init_p by auto.
  destruct (for_range_inv
              (fun k (s : nat * plu_st) =>
                 (fst s = 0%nat /\ PInv tiny n (mg n A) k (snd s)) \/ (fst s = 1%nat /\ plu_failed (snd s)))
              0 n
              (fun i (s : nat * plu_st) => if Nat.eqb (fst s) 0 then plu_step RO n i (snd s) else Some s)
              (0%nat, {| pA := A; pp := seq 0 n; psign := 1%Z |})) as (s & E & P).
  - lia.
  - left. split; auto. apply PInv_init.
  - intros i [rc st] [_ Hi] [[E0 Inv]|[E1 F]]; simpl in *; subst rc; simpl.
    + destruct (plu_step_spec tiny tiny_pos n (mg n A) i st Hi Inv) as (rc & st' & E & [[-> I']|[-> [-> Hf]]]).
      * exists (0%nat, st'). split; auto.
      * exists (1%nat, st). split; auto. right. split; auto. exists i. auto.
    + exists (1%nat, st). split; auto.
  - destruct s as [rc st]. exists rc, st. split; [exact E|]. exact P.
Qed.

End PluMain.
