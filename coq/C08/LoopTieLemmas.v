(* Lemmas used by the all-orders translator tie of C08 (harness/C08/TieLoop*.v).  Nothing here mentions generated code.
   for_tie / down_tie: a function G given by its one-pass unfolding equations (which a generated loop Fixpoint satisfies by
   computation) agrees with the model's [for_range] / [for_down]; the fuel of G only has to exceed the number of passes. *)
From Coq Require Import List Arith Bool Lia.
From LibaV Require Import C08.NumOps.
Import ListNotations.

Definition omap {A B} (f : A -> B) (o : option A) : option B := match o with Some a => Some (f a) | None => None end.

Lemma for_tie {St R : Type} (G : nat -> nat -> St -> option R) (hi : nat) (body : nat -> St -> option St) (rho : nat -> St -> R) :
  (forall f i s, i < hi -> G (S f) i s = match body i s with Some s' => G f (S i) s' | None => None end) ->
  (forall f i s, hi <= i -> G (S f) i s = Some (rho i s)) ->
  forall fg lo s, hi - lo < fg -> G fg lo s = omap (rho (Nat.max lo hi)) (for_range lo hi body s).
Proof.
  intros Hstep Hexit fg lo s Hf. unfold for_range.
  remember (hi - lo) as k eqn:Ek. revert fg lo s Hf Ek.
  induction k as [|k IH]; intros fg lo s Hf Ek; (destruct fg as [|fg]; [lia|]).
  - cbn [forM omap]. replace (Nat.max lo hi) with lo by lia. apply Hexit. lia.
  - cbn [forM]. rewrite Hstep by lia. destruct (body lo s) as [s'|]; [|reflexivity].
    replace (Nat.max lo hi) with (Nat.max (S lo) hi) by lia. apply IH; lia.
Qed.

(* the same with the passes known to start at lo0 or later (loops whose moving pointer is a function of i - lo0) *)
Lemma for_tie_from {St R : Type} (G : nat -> nat -> St -> option R) (lo0 hi : nat) (body : nat -> St -> option St) (rho : nat -> St -> R) :
  (forall f i s, lo0 <= i < hi -> G (S f) i s = match body i s with Some s' => G f (S i) s' | None => None end) ->
  (forall f i s, lo0 <= i -> hi <= i -> G (S f) i s = Some (rho i s)) ->
  forall fg lo s, lo0 <= lo -> hi - lo < fg -> G fg lo s = omap (rho (Nat.max lo hi)) (for_range lo hi body s).
Proof.
  intros Hstep Hexit fg lo s Hl Hf. unfold for_range.
  remember (hi - lo) as k eqn:Ek. revert fg lo s Hl Hf Ek.
  induction k as [|k IH]; intros fg lo s Hl Hf Ek; (destruct fg as [|fg]; [lia|]).
  - cbn [forM omap]. replace (Nat.max lo hi) with lo by lia. apply Hexit; lia.
  - cbn [forM]. rewrite Hstep by lia. destruct (body lo s) as [s'|]; [|reflexivity].
    replace (Nat.max lo hi) with (Nat.max (S lo) hi) by lia. apply IH; lia.
Qed.

Lemma down_tie {St R : Type} (G : nat -> nat -> St -> option R) (top : nat) (body : nat -> St -> option St) (rho : St -> R) :
  (forall f k s, k < top -> G (S f) (S k) s = match body k s with Some s' => G f k s' | None => None end) ->
  (forall f s, G (S f) 0 s = Some (rho s)) ->
  forall n fg s, n <= top -> n < fg -> G fg n s = omap rho (for_down n body s).
Proof.
  intros Hstep Hexit. induction n as [|n IH]; intros fg s Hn Hf; (destruct fg as [|fg]; [lia|]).
  - cbn [for_down omap]. apply Hexit.
  - cbn [for_down]. rewrite Hstep by lia. destruct (body n s) as [s'|]; [|reflexivity]. apply IH; lia.
Qed.

(* the model's checked write is the splice *)
Lemma wr_splice {A} (l : list A) : forall i v, wr l i v = if i <? length l then Some (firstn i l ++ v :: skipn (S i) l) else None.
Proof.
  induction l as [|h t IH]; intros i v.
  - destruct i; reflexivity.
  - destruct i as [|i]; [reflexivity|]. cbn [wr length]. rewrite IH.
    change (S i <? S (length t)) with (i <? length t). destruct (i <? length t); reflexivity.
Qed.

(* splitting a for_range and replacing its body on the range it runs over (the row loops of the extraction kernels run one
   for_range with a case distinction where the C runs three consecutive loops) *)
Lemma forM_ext {St} (f g : nat -> St -> option St) : forall cnt lo s,
  (forall i s, lo <= i < lo + cnt -> f i s = g i s) -> forM lo cnt f s = forM lo cnt g s.
Proof.
  induction cnt as [|k IH]; intros lo s H; [reflexivity|]. cbn [forM]. rewrite H by lia.
  destruct (g lo s) as [s'|]; [|reflexivity]. apply IH. intros i s0 Hi. apply H. lia.
Qed.
Lemma for_range_ext {St} (f g : nat -> St -> option St) lo hi s :
  (forall i s, lo <= i < hi -> f i s = g i s) -> for_range lo hi f s = for_range lo hi g s.
Proof. intros H. unfold for_range. apply forM_ext. intros i s0 Hi. apply H. lia. Qed.
Lemma forM_split {St} (f : nat -> St -> option St) : forall a b lo s,
  forM lo (a + b) f s = match forM lo a f s with Some s' => forM (lo + a) b f s' | None => None end.
Proof.
  induction a as [|a IH]; intros b lo s.
  - cbn [forM Nat.add]. rewrite Nat.add_0_r. reflexivity.
  - cbn [forM Nat.add]. destruct (f lo s) as [s'|]; [|reflexivity]. rewrite IH. replace (S lo + a) with (lo + S a) by lia. reflexivity.
Qed.
Lemma for_range_split {St} (f : nat -> St -> option St) lo mid hi s : lo <= mid <= hi ->
  for_range lo hi f s = match for_range lo mid f s with Some s' => for_range mid hi f s' | None => None end.
Proof.
  intros H. unfold for_range. replace (hi - lo) with ((mid - lo) + (hi - mid)) by lia. rewrite forM_split.
  replace (lo + (mid - lo)) with mid by lia. reflexivity.
Qed.
Lemma for_range_one {St} (f : nat -> St -> option St) i s : for_range i (i + 1) f s = f i s.
Proof. unfold for_range. replace (i + 1 - i) with 1 by lia. cbn [forM]. destruct (f i s); reflexivity. Qed.

(* the loop entered at lo <= hi leaves at i = hi exactly: the exit equation is needed there only *)
Lemma for_tie_le {St R : Type} (G : nat -> nat -> St -> option R) (lo0 hi : nat) (body : nat -> St -> option St) (rho : St -> R) :
  (forall f i s, lo0 <= i < hi -> G (S f) i s = match body i s with Some s' => G f (S i) s' | None => None end) ->
  (forall f s, G (S f) hi s = Some (rho s)) ->
  forall fg lo s, lo0 <= lo <= hi -> hi - lo < fg -> G fg lo s = omap rho (for_range lo hi body s).
Proof.
  intros Hstep Hexit fg lo s Hl Hf. unfold for_range.
  remember (hi - lo) as k eqn:Ek. revert fg lo s Hl Hf Ek.
  induction k as [|k IH]; intros fg lo s Hl Hf Ek; (destruct fg as [|fg]; [lia|]).
  - cbn [forM omap]. replace lo with hi by lia. apply Hexit.
  - cbn [forM]. rewrite Hstep by lia. destruct (body lo s) as [s'|]; [|reflexivity]. apply IH; lia.
Qed.

(* the pivot search of a_real_plu returns a row index below n *)
From LibaV Require Import C08.FactorDefs.
Lemma maxstep_index {T} (O : NumOps T) (n i : nat) (A : list T) : forall cnt lo mx ax mi mx' ax' mi',
  forM lo cnt (plu_maxstep O n i A) (mx, ax, mi) = Some (mx', ax', mi') -> lo + cnt <= n -> mi < n -> mi' < n.
Proof.
  induction cnt as [|cnt IH]; intros lo mx ax mi mx' ax' mi' H Hl Hm; cbn [forM] in H.
  - injection H as _ _ <-. exact Hm.
  - unfold plu_maxstep at 1 in H. destruct (rd A (n * lo + i)) as [v|]; [|discriminate H].
    destruct (ltb O ax (abs O v)); apply (IH _ _ _ _ _ _ _ H); lia.
Qed.
