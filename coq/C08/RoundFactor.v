(* C08: backward error of the three FACTORISATIONS in the STANDARD MODEL OF FLOATING-POINT ARITHMETIC
   (Common/RoundOps.v:  |rnd x - x| <= eps |x| + eta,  rnd 0 = 0,  0 <= eps < 1/4,  0 <= eta), for EVERY order n and
   every input on which the ROUNDED run succeeds (Higham, Accuracy and Stability of Numerical Algorithms, 2nd ed.,
   Thm 10.3 (Cholesky), Thm 9.3 (LU), and the LDL^T analogue).

   The model of FactorDefs.v is instantiated with [Rnd8_ops rnd tiny] (RoundSolve.v): every sub/mul/div/sqrt is the
   exact real operation followed by rnd, comparisons (pivot tests, pivot search) are exact comparisons of the ROUNDED
   values.  Overflow is outside that model.

   Method.  Every cell of the in-place result is the end of ONE scalar recurrence  s := rnd (s - rnd (p_i))
   ([rsub] of RoundSolve.v), possibly followed by one division or one square root; the loop invariants of the exact
   proofs (LdlLltProofs.v, PluProofs.v) are restated with [rsub] in place of the exact sums ("..._cells" lemmas: what
   the rounded run stores in every cell, as an equation between the cells of the RESULT and the input), and the
   scalar bounds [rsub_bound] (RoundSolve.v) and [rsub_sqrt_bound], [rsub_scaled_bound], [div_after] (here) turn each
   equation into a componentwise residual bound.  a := 1/(1-eps), GG k := a^k - 1 <= gamma_k = k eps/(1 - k eps),
   HH k := (a+1)(1+a+..+a^(k-1)) <= 3 k a^k.

   What is proved (M = the in-place result, l_rc / u_rc / d_c its cells; only the triangle that the code reads is
   concerned for LDL^T and Cholesky; the gradual-underflow term eta is kept explicit):
     llt  (success, 0 < tiny, eta^2 < (1-eps)^2 tiny [then every l_cc > 0]):
          |a_rc - sum_{i<=c} l_ri l_ci| <= gamma_{c+1} sum_{i<=c} |l_ri||l_ci| + (3(c+1) + |l_cc|)(1+gamma_{c+1}) eta   (c < r)
          |a_rr - sum_{i<=r} l_ri^2|    <= gamma_{r+2} sum_{i<=r} l_ri^2       + (3(r+2) + 2|l_rr| + eta)(1+gamma_{r+2}) eta
          hence |A - L L^T| <= gamma_{n+1} |L||L|^T + O(n) eta componentwise                       [llt_backward_error]
     ldl  (success, 0 < tiny):
          |a_rc - sum_{i<c} l_ri d_i l_ci - l_rc d_c| <= gamma_{c+2} (sum_{i<c} |l_ri||d_i||l_ci| + |l_rc||d_c|) + (..) eta  (c < r)
          |a_cc - sum_{i<c} l_ci^2 d_i - d_c|         <= gamma_{c+1} (sum_{i<c} l_ci^2 |d_i| + |d_c|) + (..) eta
          hence |A - L D L^T| <= gamma_n |L||D||L|^T + O(n + sum |d_i|) eta                         [ldl_backward_error]
     plu  (success, 0 < tiny; p = the permutation the rounded run chooses):
          |a_{p r,c} - sum_{j<r} l_rj u_jc - u_rc|      <= gamma_r     (sum_{j<r} |l_rj||u_jc| + |u_rc|) + 3 r (1+gamma_r) eta   (r <= c)
          |a_{p r,c} - sum_{j<c} l_rj u_jc - l_rc u_cc| <= gamma_{c+1} (sum_{j<c} |l_rj||u_jc| + |l_rc||u_cc|) + (..) eta        (c < r)
          hence |P A - L U| <= gamma_n |L||U| + O(n) eta;  p is a permutation, sign its parity, |u_cc| >= tiny;
          every multiplier is rnd x for some |x| <= 1, hence |l_rc| <= 1 when rnd is monotone with rnd 1 = 1
          (RoundMono.mono_rnd) and |l_rc| <= 1 + eps + eta in any case                              [plu_backward_error]
   End to end: llt followed by llt_solve, both stages of the solve against the COMPUTED factor [llt_factor_solve_stages],
   and in ONE statement (Higham Thm 10.4) [llt_solve_end_to_end]: the computed x^ solves (A + dA) x^ = b + db EXACTLY with
   |dA|_rk <= gamma_{3n+1} (|L^||L^|^T)_rk + (3(n+1) + 2|l_mm| + eta)(1+gamma_{n+1}) eta (m = min r k; A read as the
   symmetric matrix of its lower triangle) and |db| = O(n) eta explicit, db = 0 when eta = 0; needs (3n+1) eps < 1.
   Non-vacuity: examples with the inexact rounding v -> v (1 + 1/8) at the end of the file; binary64: RoundFactor64.v. *)
From Coq Require Import ZArith List Reals Lia Lra Psatz Bool Permutation.
From LibaV Require Import Common.RoundOps Common.RoundMono.
From LibaV Require Import C08.NumOps C08.FactorDefs C08.Instances C08.Base C08.PermProofs C08.PluSteps C08.PluProofs C08.LdlLltProofs
  C08.RoundSolve.
Import ListNotations.
Local Open Scope R_scope.

(* ------------------------------------------------------------------------------------ sums *)
Lemma isum_le f g lo hi : (forall i, (lo <= i < hi)%nat -> f i <= g i) -> isum f lo hi <= isum g lo hi.
Proof.
  intros H. unfold isum. apply rsum_le. intros i Hi. destruct (Nat.leb_spec lo i); [apply H; lia|lra].
Qed.
Lemma isum_plus f g lo hi : isum (fun i => f i + g i) lo hi = isum f lo hi + isum g lo hi.
Proof.
  unfold isum. rewrite <- rsum_plus. apply rsum_ext. intros i _. destruct (Nat.leb lo i); ring.
Qed.
Lemma isum_minus f g lo hi : isum (fun i => f i - g i) lo hi = isum f lo hi - isum g lo hi.
Proof.
  unfold isum. rewrite <- rsum_minus. apply rsum_ext. intros i _. destruct (Nat.leb lo i); ring.
Qed.
Lemma isum_scal a f lo hi : isum (fun i => a * f i) lo hi = a * isum f lo hi.
Proof.
  unfold isum. rewrite <- rsum_scal. apply rsum_ext. intros i _. destruct (Nat.leb lo i); ring.
Qed.

(* ------------------------------------------------------------------------------------ scalar bounds *)
Section Scalar.
Variable rnd : R -> R.
Variables eps eta : R.
Hypothesis M : std_model rnd eps eta.

Let a := ainv eps.

Lemma rsub_snoc p : forall cnt lo s,
  rsub rnd p lo (S cnt) s = rnd (rsub rnd p lo cnt s - rnd (p (lo + cnt)%nat)).
Proof.
  induction cnt as [|k IH]; intros lo s.
  - cbn [rsub]. rewrite Nat.add_0_r. reflexivity.
  - change (rsub rnd p lo (S (S k)) s) with (rsub rnd p (S lo) (S k) (rnd (s - rnd (p lo)))).
    rewrite IH. cbn [rsub]. replace (S lo + k)%nat with (lo + S k)%nat by lia. reflexivity.
Qed.

Lemma GG_add2 k : GG eps (k + 2) = a * a * (1 + GG eps k) - 1.
Proof. unfold GG. fold a. rewrite pow_add. simpl. ring. Qed.

(* the division  x = rnd (sm / u)  after ANY bound of the shape  |B - sm| <= g (|sm| + A) + h eta *)
Lemma div_after g h B sm A u :
  u <> 0 -> 0 <= g -> 0 <= h -> 0 <= A ->
  Rabs (B - sm) <= g * (Rabs sm + A) + h * eta ->
  Rabs (B - u * rnd (sm / u))
  <= (a * g + (a - 1)) * (Rabs (u * rnd (sm / u)) + A) + (h + (a * g + a) * Rabs u) * eta.
Proof.
  intros Hu Hg Hh HA HR.
  pose proof (rnd_err _ _ _ M (sm / u)) as Hd. set (xh := rnd (sm / u)) in *.
  assert (Hau : 0 < Rabs u) by (apply Rabs_pos_lt; exact Hu).
  assert (HD : Rabs (u * xh - sm) <= eps * Rabs sm + Rabs u * eta).
  { replace (u * xh - sm) with (u * (xh - sm / u)) by (field; exact Hu).
    rewrite Rabs_mult.
    replace (eps * Rabs sm + Rabs u * eta) with (Rabs u * (eps * Rabs (sm / u) + eta)).
    - apply Rmult_le_compat_l; lra.
    - unfold Rdiv. rewrite Rabs_mult, Rabs_inv. field. lra. }
  apply (div_arith a eps eta g h (Rabs sm) (Rabs (u * xh)) A (Rabs u) (Rabs (B - sm)) (Rabs (u * xh - sm)));
    try (apply Rabs_pos); try assumption.
  - exact (eps_ge0 _ _ _ M).
  - exact (a_inv _ _ _ M).
  - exact (a_ge1 _ _ _ M).
  - exact (eta_ge0 _ _ _ M).
  - assert (Rabs sm <= Rabs (sm - u * xh) + Rabs (u * xh)).
    { replace sm with ((sm - u * xh) + u * xh) at 1 by ring. apply Rabs_triang. }
    rewrite (Rabs_minus_sym sm) in *. lra.
  - replace (B - u * xh) with ((B - sm) + (sm - u * xh)) by ring.
    rewrite (Rabs_minus_sym (u * xh) sm). apply Rabs_triang.
Qed.

(* the square root  l = rnd (R_sqrt.sqrt s)  of a non-negative s:  |s - l^2| <= (a^2 - 1) l^2 + a^2 (2 |l| + eta) eta *)
Lemma sqrt_round_bound s : 0 <= s ->
  Rabs (s - rnd (R_sqrt.sqrt s) * rnd (R_sqrt.sqrt s))
  <= GG eps 2 * (rnd (R_sqrt.sqrt s) * rnd (R_sqrt.sqrt s)) + a * a * (2 * Rabs (rnd (R_sqrt.sqrt s)) + eta) * eta.
Proof.
  intros Hs. pose proof (eps_ge0 _ _ _ M) as He. pose proof (eta_ge0 _ _ _ M) as Ht.
  pose proof (a_inv _ _ _ M) as Ha. pose proof (a_ge1 _ _ _ M) as Ha1. fold a in Ha, Ha1.
  pose proof (sqrt_pos s) as Hx. pose proof (sqrt_sqrt s Hs) as Hxx.
  pose proof (rnd_err _ _ _ M (R_sqrt.sqrt s)) as Hd.
  set (x := R_sqrt.sqrt s) in *. set (l := rnd x) in *.
  rewrite (Rabs_pos_eq x) in Hd by exact Hx.
  pose proof (Rabs_pos l) as HL. set (L := Rabs l) in *.
  assert (Ell : l * l = L * L) by (unfold L; rewrite <- Rabs_mult; symmetry; apply Rabs_pos_eq; nra).
  (* x (1 - eps) <= L + eta *)
  assert (H0 : x <= Rabs (l - x) + L).
  { unfold L. rewrite <- (Rabs_pos_eq x) at 1 by exact Hx.
    replace x with (- (l - x) + l) at 1 by ring. eapply Rle_trans; [apply Rabs_triang|]. rewrite Rabs_Ropp. lra. }
  assert (H1 : x <= a * (L + eta)).
  { replace x with (a * ((1 - eps) * x)) by (rewrite <- Rmult_assoc, Ha; ring). apply Rmult_le_compat_l; lra. }
  assert (Ea : eps * a = a - 1) by nra.
  assert (H2 : Rabs (l - x) <= (a - 1) * L + a * eta).
  { eapply Rle_trans; [exact Hd|].
    assert (eps * x <= eps * (a * (L + eta))) by (apply Rmult_le_compat_l; lra).
    replace (eps * (a * (L + eta))) with ((a - 1) * (L + eta)) in H by (rewrite <- Ea; ring). nra. }
  assert (H3 : Rabs (x + l) <= (a + 1) * L + a * eta).
  { eapply Rle_trans; [apply Rabs_triang|]. rewrite (Rabs_pos_eq x) by exact Hx. fold L. nra. }
  rewrite <- Hxx. replace (x * x - l * l) with (- ((l - x) * (x + l))) by ring.
  rewrite Rabs_Ropp, Rabs_mult, Ell.
  eapply Rle_trans; [apply Rmult_le_compat; [apply Rabs_pos|apply Rabs_pos|exact H2|exact H3]|].
  unfold GG. fold a. simpl. apply Req_le. ring.
Qed.

(* Cholesky diagonal: the recurrence, the test s >= 0, the rounded square root *)
Lemma rsub_sqrt_bound p cnt lo s :
  0 <= rsub rnd p lo cnt s ->
  Rabs (s - isum p lo (lo + cnt) - rnd (R_sqrt.sqrt (rsub rnd p lo cnt s)) * rnd (R_sqrt.sqrt (rsub rnd p lo cnt s)))
  <= GG eps (cnt + 2) * (rnd (R_sqrt.sqrt (rsub rnd p lo cnt s)) * rnd (R_sqrt.sqrt (rsub rnd p lo cnt s))
                         + isum (fun c => Rabs (p c)) lo (lo + cnt))
     + (HH eps cnt + (1 + GG eps (cnt + 2)) * (2 * Rabs (rnd (R_sqrt.sqrt (rsub rnd p lo cnt s))) + eta)) * eta.
Proof.
  intros Hs. pose proof (rsub_bound rnd eps eta M p cnt lo s) as HR.
  pose proof (sqrt_round_bound _ Hs) as HQ.
  assert (HA : 0 <= isum (fun c => Rabs (p c)) lo (lo + cnt)) by (apply isum_nonneg; intros; apply Rabs_pos).
  set (sm := rsub rnd p lo cnt s) in *. set (P := isum p lo (lo + cnt)) in *.
  set (A := isum (fun c => Rabs (p c)) lo (lo + cnt)) in *.
  set (l := rnd (R_sqrt.sqrt sm)) in *.
  pose proof (eta_ge0 _ _ _ M) as Ht. pose proof (a_ge1 _ _ _ M) as Ha1. fold a in Ha1.
  pose proof (GG_ge0 _ _ _ M cnt) as Hg. pose proof (HH_ge0 _ _ _ M cnt) as Hh.
  pose proof (Rabs_pos l) as HL.
  assert (Hll : 0 <= l * l) by nra.
  rewrite GG_add2. set (g := GG eps cnt) in *. set (h := HH eps cnt) in *.
  assert (G2 : GG eps 2 = a * a - 1) by (unfold GG; fold a; simpl; ring). rewrite G2 in HQ.
  set (D := Rabs (sm - l * l)) in *.
  assert (H1 : Rabs sm <= l * l + D).
  { unfold D. replace sm with ((sm - l * l) + l * l) at 1 by ring.
    eapply Rle_trans; [apply Rabs_triang|]. rewrite (Rabs_pos_eq (l * l)) by exact Hll. lra. }
  assert (H2 : Rabs (s - P - l * l) <= Rabs (s - P - sm) + D).
  { unfold D. replace (s - P - l * l) with ((s - P - sm) + (sm - l * l)) by ring. apply Rabs_triang. }
  assert (H3 : g * Rabs sm <= g * (l * l + D)) by (apply Rmult_le_compat_l; lra).
  assert (H4 : (1 + g) * D <= (1 + g) * ((a * a - 1) * (l * l) + a * a * (2 * Rabs l + eta) * eta))
    by (apply Rmult_le_compat_l; lra).
  assert (H5 : g * A <= (a * a * (1 + g) - 1) * A).
  { apply Rmult_le_compat_r; [exact HA|]. assert (1 <= a * a) by nra.
    assert (0 <= (a * a - 1) * (1 + g)) by (apply Rmult_le_pos; lra). lra. }
  replace ((1 + (a * a * (1 + g) - 1)) * (2 * Rabs l + eta)) with ((1 + g) * (a * a * (2 * Rabs l + eta))) by ring.
  nra.
Qed.

(* LDL^T: the subtracted term is a DOUBLE product rnd (rnd (p_i) d_i).  With q_i := rnd (p_i) d_i the recurrence
   is rsub on q; the first rounding is charged to the term *)
Lemma rsub_scaled_bound (p d : nat -> R) cnt lo s :
  Rabs (s - isum (fun i => p i * d i) lo (lo + cnt) - rsub rnd (fun i => rnd (p i) * d i) lo cnt s)
  <= GG eps (S cnt) * (Rabs (rsub rnd (fun i => rnd (p i) * d i) lo cnt s)
                       + isum (fun i => Rabs (p i * d i)) lo (lo + cnt))
     + (HH eps cnt + (1 + GG eps cnt) * isum (fun i => Rabs (d i)) lo (lo + cnt)) * eta.
Proof.
  pose proof (rsub_bound rnd eps eta M (fun i => rnd (p i) * d i) cnt lo s) as HR.
  set (sm := rsub rnd (fun i => rnd (p i) * d i) lo cnt s) in *.
  set (hi := (lo + cnt)%nat) in *.
  pose proof (eps_ge0 _ _ _ M) as He. pose proof (eta_ge0 _ _ _ M) as Ht.
  pose proof (a_inv _ _ _ M) as Ha. pose proof (a_ge1 _ _ _ M) as Ha1. fold a in Ha, Ha1.
  pose proof (GG_ge0 _ _ _ M cnt) as Hg. pose proof (HH_ge0 _ _ _ M cnt) as Hh.
  (* |q_i - p_i d_i| <= eps |p_i d_i| + |d_i| eta,   |q_i| <= (1 + eps) |p_i d_i| + |d_i| eta *)
  assert (Q1 : forall i, Rabs (rnd (p i) * d i - p i * d i) <= eps * Rabs (p i * d i) + eta * Rabs (d i)).
  { intros i. replace (rnd (p i) * d i - p i * d i) with ((rnd (p i) - p i) * d i) by ring.
    rewrite !Rabs_mult. pose proof (rnd_err _ _ _ M (p i)). pose proof (Rabs_pos (d i)). nra. }
  assert (Q2 : forall i, Rabs (rnd (p i) * d i) <= (1 + eps) * Rabs (p i * d i) + eta * Rabs (d i)).
  { intros i. specialize (Q1 i).
    replace (rnd (p i) * d i) with ((rnd (p i) * d i - p i * d i) + p i * d i) by ring.
    eapply Rle_trans; [apply Rabs_triang|]. lra. }
  set (SP := isum (fun i => Rabs (p i * d i)) lo hi) in *.
  set (SD := isum (fun i => Rabs (d i)) lo hi) in *.
  assert (HSP : 0 <= SP) by (apply isum_nonneg; intros; apply Rabs_pos).
  assert (HSD : 0 <= SD) by (apply isum_nonneg; intros; apply Rabs_pos).
  assert (S1 : Rabs (isum (fun i => rnd (p i) * d i) lo hi - isum (fun i => p i * d i) lo hi) <= eps * SP + eta * SD).
  { rewrite <- isum_minus. eapply Rle_trans; [apply isum_abs_le|].
    unfold SP, SD. rewrite <- !isum_scal, <- isum_plus. apply isum_le. intros i _. apply Q1. }
  assert (S2 : isum (fun i => Rabs (rnd (p i) * d i)) lo hi <= (1 + eps) * SP + eta * SD).
  { unfold SP, SD. rewrite <- !isum_scal, <- isum_plus. apply isum_le. intros i _. apply Q2. }
  set (Q := isum (fun i => rnd (p i) * d i) lo hi) in *.
  set (AQ := isum (fun i => Rabs (rnd (p i) * d i)) lo hi) in *.
  set (P := isum (fun i => p i * d i) lo hi) in *.
  assert (T : Rabs (s - P - sm) <= Rabs (s - Q - sm) + Rabs (Q - P)).
  { replace (s - P - sm) with ((s - Q - sm) + (Q - P)) by ring. apply Rabs_triang. }
  rewrite GG_S. fold a. set (g := GG eps cnt) in *. set (h := HH eps cnt) in *.
  pose proof (Rabs_pos sm) as Hsm.
  assert (E1 : g * AQ <= g * ((1 + eps) * SP + eta * SD)) by (apply Rmult_le_compat_l; lra).
  (* g (1 + eps) + eps <= a g + (a - 1)  since  1 + eps <= a *)
  assert (Ea : 1 + eps <= a) by nra.
  assert (E2 : (g * (1 + eps) + eps) * SP <= (a * g + (a - 1)) * SP).
  { apply Rmult_le_compat_r; [exact HSP|]. nra. }
  assert (E3 : g * Rabs sm <= (a * g + (a - 1)) * Rabs sm).
  { apply Rmult_le_compat_r; [exact Hsm|]. nra. }
  nra.
Qed.

(* the diagonal of the Cholesky factor does not vanish:  s >= tiny,  eta^2 < (1 - eps)^2 tiny  =>  rnd (R_sqrt.sqrt s) > 0 *)
Lemma sqrt_round_pos tiny s : 0 < tiny -> eta * eta < (1 - eps) * (1 - eps) * tiny -> tiny <= s -> 0 < rnd (R_sqrt.sqrt s).
Proof.
  intros Ht Hroom Hs. pose proof (eps_ge0 _ _ _ M) as He. pose proof (eps_lt _ _ _ M) as He4.
  pose proof (eta_ge0 _ _ _ M) as Hn.
  assert (Hs0 : 0 <= s) by lra. pose proof (sqrt_pos s) as Hx. pose proof (sqrt_sqrt s Hs0) as Hxx.
  pose proof (rnd_err _ _ _ M (R_sqrt.sqrt s)) as Hd. set (x := R_sqrt.sqrt s) in *. rewrite (Rabs_pos_eq x) in Hd by exact Hx.
  assert (Hlow : eta < (1 - eps) * x).
  { destruct (Rlt_le_dec eta ((1 - eps) * x)) as [L|L]; [exact L|].
    assert ((1 - eps) * x * ((1 - eps) * x) <= eta * eta) by (apply Rmult_le_compat; nra).
    assert ((1 - eps) * (1 - eps) * tiny <= (1 - eps) * (1 - eps) * (x * x)) by (apply Rmult_le_compat_l; nra).
    nra. }
  pose proof (Rle_abs (- (rnd x - x))) as H. rewrite Rabs_Ropp in H. lra.
Qed.

End Scalar.

(* ------------------------------------------------------------------------------------ cells of the flat array *)
Section Cells.
Variable rnd : R -> R.
Variable tiny : R.
Local Notation QO := (Rnd8_ops rnd tiny).
Variable n : nat.

(* X[r][c] := rnd (X[r][c] - rnd (gv i)), i = 0..k-1, where the loop body reads only cells other than (r,c) *)
Lemma racc_loop (A : list R) r c k (body : nat -> list R -> option (list R)) (gv : nat -> R) :
  length A = (n * n)%nat -> (r < n)%nat -> (c < n)%nat ->
  (forall i A', (i < k)%nat -> length A' = (n * n)%nat -> agree_off n r c A A' ->
     body i A' = Some (upd A' (n * r + c) (rnd (mg n A' r c - rnd (gv i))))) ->
  exists A', for_range 0 k body A = Some A' /\ length A' = (n * n)%nat /\
    forall r' c', (r' < n)%nat -> (c' < n)%nat ->
      mg n A' r' c' = if (Nat.eqb r' r && Nat.eqb c' c)%bool then rsub rnd gv 0 k (mg n A r c) else mg n A r' c'.
Proof.
  intros LA Hr Hc Hbody.
  destruct (for_range_inv
              (fun j (A' : list R) => length A' = (n * n)%nat /\
                 forall r' c', (r' < n)%nat -> (c' < n)%nat ->
                   mg n A' r' c' = if (Nat.eqb r' r && Nat.eqb c' c)%bool then rsub rnd gv 0 j (mg n A r c) else mg n A r' c')
              0 k body A) as (A' & E & P).
  - lia.
  - split; auto. intros r' c' _ _. cbn [rsub]. destruct (Nat.eqb_spec r' r), (Nat.eqb_spec c' c); simpl; subst; auto.
  - intros j A1 [_ Hj] [L1 P1].
    rewrite Hbody; auto.
    + eexists. split; [reflexivity|]. split; [now rewrite upd_length|].
      intros r' c' Hr' Hc'. rewrite mg_upd by auto. rewrite !P1 by auto.
      rewrite !Nat.eqb_refl. cbn [andb].
      destruct (Nat.eqb r' r && Nat.eqb c' c)%bool; [|reflexivity].
      rewrite rsub_snoc. reflexivity.
    + intros r' c' Hr' Hc' N. rewrite P1 by auto.
      destruct (Nat.eqb_spec r' r), (Nat.eqb_spec c' c); simpl; auto. lia.
  - exists A'. split; [exact E|]. exact P.
Qed.

(* X[r][c] := rnd (X[r][c] / X[r2][c2]) *)
Lemma rcell_div (A : list R) r c r2 c2 :
  length A = (n * n)%nat -> (r < n)%nat -> (c < n)%nat -> (r2 < n)%nat -> (c2 < n)%nat ->
  exists A', (do a <- rd A (n * r + c); do d <- rd A (n * r2 + c2); wr A (n * r + c) (div QO a d)) = Some A' /\
    length A' = (n * n)%nat /\
    forall r' c', (r' < n)%nat -> (c' < n)%nat ->
      mg n A' r' c' = if (Nat.eqb r' r && Nat.eqb c' c)%bool then rnd (mg n A r c / mg n A r2 c2) else mg n A r' c'.
Proof.
  intros LA Hr Hc Hr2 Hc2. rewrite !(rd_mg n) by auto. rewrite (wr_mg n) by auto.
  eexists. split; [reflexivity|]. split; [now rewrite upd_length|].
  intros r' c' Hr' Hc'. rewrite mg_upd by auto. reflexivity.
Qed.

End Cells.

(* ================================================================================ Cholesky: the cells *)
Section LltCells.
Variable rnd : R -> R.
Variable tiny : R.
Local Notation QO := (Rnd8_ops rnd tiny).
Variable n : nat.

(* linalg_llt.c:10-18 : the off-diagonal part of row r *)
Lemma rllt_row_loop A r :
  length A = (n * n)%nat -> (r < n)%nat ->
  exists A1,
    for_range 0 r (fun c A =>
      do A' <- for_range 0 c (fun i A =>
                 do arc <- rd A (n * r + c); do ari <- rd A (n * r + i); do aci <- rd A (n * c + i);
                 wr A (n * r + c) (sub QO arc (mul QO ari aci))) A;
      do arc <- rd A' (n * r + c); do acc <- rd A' (n * c + c);
      wr A' (n * r + c) (div QO arc acc)) A = Some A1 /\
    length A1 = (n * n)%nat /\
    (forall r' c', (r' < n)%nat -> (c' < n)%nat -> (r' <> r \/ r <= c')%nat -> mg n A1 r' c' = mg n A r' c') /\
    (forall c, (c < r)%nat ->
       mg n A1 r c = rnd (rsub rnd (fun i => mg n A1 r i * mg n A c i) 0 c (mg n A r c) / mg n A c c)).
Proof.
  intros LA Hr.
  destruct (for_range_inv
              (fun k (A' : list R) => length A' = (n * n)%nat /\
                 (forall r' c', (r' < n)%nat -> (c' < n)%nat -> (r' <> r \/ k <= c')%nat -> mg n A' r' c' = mg n A r' c') /\
                 (forall c, (c < k)%nat ->
                    mg n A' r c = rnd (rsub rnd (fun i => mg n A' r i * mg n A c i) 0 c (mg n A r c) / mg n A c c)))
              0 r
              (fun c A =>
                 do A' <- for_range 0 c (fun i A =>
                            do arc <- rd A (n * r + c); do ari <- rd A (n * r + i); do aci <- rd A (n * c + i);
                            wr A (n * r + c) (sub QO arc (mul QO ari aci))) A;
                 do arc <- rd A' (n * r + c); do acc <- rd A' (n * c + c);
                 wr A' (n * r + c) (div QO arc acc)) A) as (A1 & E & L1 & F1 & P1).
  - lia.
  - split; auto. split; auto. intros; lia.
  - intros k A0 [_ Hk] (L0 & F0 & P0).
    destruct (racc_loop rnd n A0 r k k
                (fun i A => do arc <- rd A (n * r + k); do ari <- rd A (n * r + i); do aci <- rd A (n * k + i);
                            wr A (n * r + k) (sub QO arc (mul QO ari aci)))
                (fun i => mg n A0 r i * mg n A0 k i)) as (A2 & E2 & L2 & P2); auto; try lia.
    { intros i A' Hi L' Ag.
      rewrite !(rd_mg n) by (auto; lia). rewrite (wr_mg n) by (auto; lia).
      rewrite (Ag r i), (Ag k i) by (auto; lia). reflexivity. }
    rewrite E2.
    destruct (rcell_div rnd tiny n A2 r k k k) as (A3 & E3 & L3 & P3); auto; try lia.
    exists A3. split; [exact E3|]. split; auto.
    assert (Hfr : forall r' c', (r' < n)%nat -> (c' < n)%nat -> (r' <> r \/ c' <> k) -> mg n A3 r' c' = mg n A0 r' c').
    { intros r' c' Hr' Hc' N. rewrite P3 by auto.
      destruct (Nat.eqb_spec r' r), (Nat.eqb_spec c' k); simpl; try lia; rewrite P2 by auto;
        destruct (Nat.eqb_spec r' r), (Nat.eqb_spec c' k); simpl; try lia; reflexivity. }
    split; [|].
    + intros r' c' Hr' Hc' N. rewrite Hfr by (auto; lia). apply F0; auto; lia.
    + intros c Hc. destruct (Nat.eq_dec c k) as [->|Nc].
      * rewrite P3 by (auto; lia). rewrite !Nat.eqb_refl. cbn [andb].
        rewrite !P2 by (auto; lia). rewrite !Nat.eqb_refl. cbn [andb].
        destruct (Nat.eqb_spec k r); [lia|]. cbn [andb].
        rewrite (F0 r k), (F0 k k) by (auto; lia). f_equal. f_equal.
        apply rsub_ext. intros i Hi. rewrite (Hfr r i) by (auto; lia).
        rewrite (F0 k i) by (auto; lia). reflexivity.
      * rewrite Hfr by (auto; lia). rewrite P0 by lia. f_equal. f_equal.
        apply rsub_ext. intros i Hi. rewrite (Hfr r i) by (auto; lia). reflexivity.
  - exists A1. split; [exact E|]. split; auto.
Qed.

(* linalg_llt.c:19-22 : the diagonal of row r *)
Lemma rllt_diag_loop A r :
  length A = (n * n)%nat -> (r < n)%nat ->
  exists A2,
    for_range 0 r (fun i A =>
      do arr <- rd A (n * r + r); do ari <- rd A (n * r + i);
      wr A (n * r + r) (sub QO arr (mul QO ari ari))) A = Some A2 /\
    length A2 = (n * n)%nat /\
    forall r' c', (r' < n)%nat -> (c' < n)%nat ->
      mg n A2 r' c' = if (Nat.eqb r' r && Nat.eqb c' r)%bool
                      then rsub rnd (fun i => mg n A r i * mg n A r i) 0 r (mg n A r r) else mg n A r' c'.
Proof.
  intros LA Hr.
  apply (racc_loop rnd n A r r r _ (fun i => mg n A r i * mg n A r i)); auto.
  intros i A' Hi L' Ag.
  rewrite !(rd_mg n) by (auto; lia). rewrite (wr_mg n) by auto.
  rewrite (Ag r i) by (auto; lia). reflexivity.
Qed.

Variable a0 : nat -> nat -> R.

(* the recurrence that ends in cell (r,c), written on the cells m of the RESULT *)
Definition lltq (m : nat -> nat -> R) (r c : nat) : R := rsub rnd (fun i => m r i * m c i) 0 c (a0 r c).

Definition RLltInv (k : nat) (M : list R) : Prop :=
  length M = (n * n)%nat /\
  (forall r c, (r < k)%nat -> (c < r)%nat -> (r < n)%nat ->
     mg n M r c = rnd (lltq (mg n M) r c / mg n M c c)) /\
  (forall r, (r < k)%nat -> (r < n)%nat ->
     tiny <= lltq (mg n M) r r /\ mg n M r r = rnd (R_sqrt.sqrt (lltq (mg n M) r r))) /\
  (forall r c, (r < n)%nat -> (c < n)%nat -> (k <= r \/ r < c)%nat -> mg n M r c = a0 r c).

Lemma lltq_ext m m' r c : (forall i, (i < c)%nat -> m r i = m' r i /\ m c i = m' c i) -> lltq m r c = lltq m' r c.
Proof.
  intros H. unfold lltq. apply rsub_ext. intros i Hi. destruct (H i ltac:(lia)) as [-> ->]. reflexivity.
Qed.

Lemma rllt_step_spec r M :
  (r < n)%nat -> RLltInv r M ->
  exists rc M', llt_step QO n r M = Some (rc, M') /\ length M' = (n * n)%nat /\
    (rc = 0%nat -> RLltInv (S r) M') /\ (rc = 0%nat \/ rc = 1%nat).
Proof.
  intros Hr (LM & I1 & I2 & I3). unfold llt_step.
  destruct (rllt_row_loop M r LM Hr) as (A1 & E1 & L1 & F1 & P1). rewrite E1.
  destruct (rllt_diag_loop A1 r L1 Hr) as (A2 & E2 & L2 & P2). rewrite E2.
  rewrite (rd_mg n) by auto.
  cbn [ltb C08.NumOps.tiny sqrt Rnd8_ops].
  destruct (Rlt_dec (mg n A2 r r) tiny) as [Lt|NLt].
  - exists 1%nat, A2. split; auto. split; auto. split; [discriminate|auto].
  - rewrite (wr_mg n) by auto.
    eexists 0%nat, _. split; [reflexivity|]. split; [now rewrite upd_length|]. split; [intros _|auto].
    set (A3 := upd A2 (n * r + r) (rnd (R_sqrt.sqrt (mg n A2 r r)))).
    assert (P3 : forall r' c', (r' < n)%nat -> (c' < n)%nat ->
               mg n A3 r' c' = if (Nat.eqb r' r && Nat.eqb c' r)%bool then rnd (R_sqrt.sqrt (mg n A2 r r)) else mg n A2 r' c').
    { intros r' c' Hr' Hc'. unfold A3. now rewrite mg_upd by auto. }
    assert (Hoth : forall r' c', (r' < n)%nat -> (c' < n)%nat -> r' <> r -> mg n A3 r' c' = mg n M r' c').
    { intros r' c' Hr' Hc' N. rewrite P3 by auto. destruct (Nat.eqb_spec r' r); [lia|]. cbn [andb].
      rewrite P2 by auto. destruct (Nat.eqb_spec r' r); [lia|]. cbn [andb].
      apply F1; auto. }
    assert (Hrowr : forall c', (c' < r)%nat -> mg n A3 r c' = mg n A1 r c').
    { intros c' Hc'. rewrite P3 by (auto; lia). destruct (Nat.eqb_spec c' r); [lia|].
      rewrite Bool.andb_false_r. rewrite P2 by (auto; lia). destruct (Nat.eqb_spec c' r); [lia|].
      rewrite Bool.andb_false_r. reflexivity. }
    assert (Hpiv : mg n A2 r r = lltq (mg n A3) r r).
    { rewrite P2 by auto. rewrite !Nat.eqb_refl. cbn [andb]. unfold lltq.
      rewrite (F1 r r) by (auto; lia). rewrite (I3 r r) by (auto; lia).
      apply rsub_ext. intros i Hi. rewrite Hrowr by lia. reflexivity. }
    split; [unfold A3; now rewrite upd_length|]. split; [|split].
    + intros r' c Hr' Hc Hr'n.
      destruct (Nat.eq_dec r' r) as [->|Nr].
      * rewrite Hrowr by lia. rewrite (P1 c Hc). rewrite (Hoth c c) by lia. f_equal. f_equal.
        unfold lltq. rewrite (I3 r c) by (auto; lia). apply rsub_ext. intros i Hi.
        rewrite Hrowr by lia. rewrite (Hoth c i) by lia. reflexivity.
      * rewrite (Hoth r' c), (Hoth c c) by lia. rewrite (I1 r' c) by (auto; lia). f_equal. f_equal.
        apply lltq_ext. intros i Hi. rewrite (Hoth r' i), (Hoth c i) by lia. auto.
    + intros r' Hr' Hr'n. destruct (Nat.eq_dec r' r) as [->|Nr].
      * rewrite <- Hpiv. split; [lra|]. rewrite P3 by auto. rewrite !Nat.eqb_refl. reflexivity.
      * rewrite (Hoth r' r') by lia.
        rewrite (lltq_ext (mg n A3) (mg n M) r' r') by (intros i Hi; rewrite (Hoth r' i) by lia; auto).
        apply I2; lia.
    + intros r' c' Hr' Hc' Hor. rewrite P3 by auto.
      destruct (Nat.eqb_spec r' r) as [->|Nr]; cbn [andb].
      * destruct (Nat.eqb_spec c' r); [lia|]. rewrite P2 by auto. rewrite Nat.eqb_refl. cbn [andb].
        destruct (Nat.eqb_spec c' r); [lia|]. rewrite (F1 r c') by (auto; lia). apply I3; auto; lia.
      * rewrite P2 by auto. destruct (Nat.eqb_spec r' r); [lia|]. cbn [andb].
        rewrite (F1 r' c') by auto. apply I3; auto; lia.
Qed.

End LltCells.

(* a_real_llt as a whole: what the rounded run stores *)
Lemma rllt_cells rnd tiny n (A : list R) :
  length A = (n * n)%nat ->
  exists rc M, llt (Rnd8_ops rnd tiny) n A = Some (rc, M) /\ length M = (n * n)%nat /\
    (rc = 0%nat -> RLltInv rnd tiny n (mg n A) n M) /\ (rc = 0%nat \/ rc = 1%nat).
Proof.
  intros LA. unfold llt.
  destruct (for_range_inv
              (fun k (s : nat * list R) => length (snd s) = (n * n)%nat /\
                 (fst s = 0%nat -> RLltInv rnd tiny n (mg n A) k (snd s)) /\ (fst s = 0%nat \/ fst s = 1%nat))
              0 n
              (fun r (s : nat * list R) => if Nat.eqb (fst s) 0 then llt_step (Rnd8_ops rnd tiny) n r (snd s) else Some s)
              (0%nat, A)) as (s & E & L & P & Q).
  - lia.
  - simpl. split; auto. split; auto. intros _. split; auto. split; [intros; lia|]. split; [intros; lia|]. auto.
  - intros r [rc M] [_ Hr] (L & P & [E0|E1]); simpl in *; subst rc; simpl.
    + destruct (rllt_step_spec rnd tiny n (mg n A) r M Hr (P eq_refl)) as (rc & M' & E & L' & I' & Q').
      exists (rc, M'). split; auto.
    + exists (1%nat, M). split; auto. simpl. split; auto. split; [discriminate|auto].
  - destruct s as [rc M]. exists rc, M. split; [exact E|]. auto.
Qed.

(* ================================================================================ Cholesky: the theorem *)
Section LltTheorem.
Variable rnd : R -> R.
Variables eps eta tiny : R.
Hypothesis M : std_model rnd eps eta.
Hypothesis tiny_pos : 0 < tiny.
Local Notation QO := (Rnd8_ops rnd tiny).

(* from one gamma_k bound to a cruder one *)
Lemma gamma_bound_weaken k k' w w' S E :
  (k <= k')%nat -> INR k' * eps < 1 -> 0 <= S -> 0 <= w <= w' ->
  E <= gamma eps k * S + (3 * INR k + w) * (1 + gamma eps k) * eta ->
  E <= gamma eps k' * S + (3 * INR k' + w') * (1 + gamma eps k') * eta.
Proof.
  intros Hk Hk' HS Hw HE.
  pose proof (gamma_mono _ _ _ M k k' Hk Hk') as G1.
  assert (Hke : INR k * eps < 1).
  { pose proof (eps_ge0 _ _ _ M). apply le_INR in Hk. nra. }
  pose proof (gamma_ge0 _ _ _ M k Hke) as G0. pose proof (eta_ge0 _ _ _ M) as Ht.
  pose proof (pos_INR k) as Pk. pose proof (le_INR _ _ Hk) as Pkk.
  assert (A1 : gamma eps k * S <= gamma eps k' * S) by (apply Rmult_le_compat_r; lra).
  assert (A2 : (3 * INR k + w) * (1 + gamma eps k) <= (3 * INR k' + w') * (1 + gamma eps k')).
  { apply Rmult_le_compat; lra. }
  assert (A3 : (3 * INR k + w) * (1 + gamma eps k) * eta <= (3 * INR k' + w') * (1 + gamma eps k') * eta).
  { apply Rmult_le_compat_r; lra. }
  lra.
Qed.

Lemma sq_abs x : Rabs x * Rabs x = x * x.
Proof. rewrite <- Rabs_mult. apply Rabs_pos_eq. nra. Qed.

Section Inv.
Variable n : nat.
Variable a0 : nat -> nat -> R.
Variable Mx : list R.
Hypothesis Inv : RLltInv rnd tiny n a0 n Mx.
Local Notation m := (mg n Mx).

(* strictly below the diagonal: recurrence, then the division by l_cc *)
Lemma llt_offdiag_residual r c : (c < r)%nat -> (r < n)%nat -> m c c <> 0 ->
  Rabs (a0 r c - rsum (fun i => m r i * m c i) (S c))
  <= GG eps (S c) * rsum (fun i => Rabs (m r i) * Rabs (m c i)) (S c)
     + (HH eps c + (1 + GG eps (S c)) * Rabs (m c c)) * eta.
Proof.
  intros Hc Hr Hu. destruct Inv as (_ & I1 & _ & _).
  pose proof (rsub_div_bound rnd eps eta M (fun i => m r i * m c i) (m c c) c 0 (a0 r c) Hu) as HB.
  specialize (I1 r c Hr Hc Hr). unfold lltq in I1. rewrite <- I1 in HB. cbn [Nat.add] in HB.
  rewrite !isum_0, rsum_abs_mult, Rabs_mult, GG_pow in HB.
  rewrite !rsum_S.
  replace (a0 r c - (rsum (fun i => m r i * m c i) c + m r c * m c c))
    with (a0 r c - rsum (fun i => m r i * m c i) c - m c c * m r c) by ring.
  rewrite (Rplus_comm (rsum _ c)), (Rmult_comm (Rabs (m r c))). exact HB.
Qed.

(* the diagonal: recurrence, test, rounded square root *)
Lemma llt_diag_residual r : (r < n)%nat ->
  Rabs (a0 r r - rsum (fun i => m r i * m r i) (S r))
  <= GG eps (r + 2) * rsum (fun i => Rabs (m r i) * Rabs (m r i)) (S r)
     + (HH eps r + (1 + GG eps (r + 2)) * (2 * Rabs (m r r) + eta)) * eta.
Proof.
  intros Hr. destruct Inv as (_ & _ & I2 & _). destruct (I2 r Hr Hr) as [Hp Hl]. unfold lltq in Hp, Hl.
  assert (Hs : 0 <= rsub rnd (fun i => m r i * m r i) 0 r (a0 r r)) by lra.
  pose proof (rsub_sqrt_bound rnd eps eta M (fun i => m r i * m r i) r 0 (a0 r r) Hs) as HB.
  rewrite <- Hl in HB. cbn [Nat.add] in HB. rewrite !isum_0, rsum_abs_mult in HB.
  rewrite !rsum_S, sq_abs.
  replace (a0 r r - (rsum (fun i => m r i * m r i) r + m r r * m r r))
    with (a0 r r - rsum (fun i => m r i * m r i) r - m r r * m r r) by ring.
  rewrite (Rplus_comm (rsum _ r)). exact HB.
Qed.

Lemma llt_diag_pos r : eta * eta < (1 - eps) * (1 - eps) * tiny -> (r < n)%nat -> 0 < m r r.
Proof.
  intros Hroom Hr. destruct Inv as (_ & _ & I2 & _). destruct (I2 r Hr Hr) as [Hp Hl]. rewrite Hl.
  apply (sqrt_round_pos rnd eps eta M tiny); assumption.
Qed.
End Inv.

(* a_real_llt: |A - L^ L^^T| componentwise on the triangle the code reads, fine-grained constants *)
Theorem llt_backward_error n (A : list R) :
  length A = (n * n)%nat -> INR (n + 1) * eps < 1 -> eta * eta < (1 - eps) * (1 - eps) * tiny ->
  exists rc Lh, llt QO n A = Some (rc, Lh) /\ length Lh = (n * n)%nat /\ (rc = 0%nat \/ rc = 1%nat) /\
    (rc = 0%nat ->
       (forall c, (c < n)%nat -> 0 < mg n Lh c c) /\
       (forall r c, (c < r)%nat -> (r < n)%nat ->
          Rabs (mg n A r c - rsum (fun i => mg n Lh r i * mg n Lh c i) (S c))
          <= gamma eps (S c) * rsum (fun i => Rabs (mg n Lh r i) * Rabs (mg n Lh c i)) (S c)
             + (3 * INR (S c) + Rabs (mg n Lh c c)) * (1 + gamma eps (S c)) * eta) /\
       (forall r, (r < n)%nat ->
          Rabs (mg n A r r - rsum (fun i => mg n Lh r i * mg n Lh r i) (S r))
          <= gamma eps (r + 2) * rsum (fun i => Rabs (mg n Lh r i) * Rabs (mg n Lh r i)) (S r)
             + (3 * INR (r + 2) + (2 * Rabs (mg n Lh r r) + eta)) * (1 + gamma eps (r + 2)) * eta)).
Proof.
  intros LA Hn Hroom. destruct (rllt_cells rnd tiny n A LA) as (rc & Lh & E & LL & Inv & Hrc).
  exists rc, Lh. split; [exact E|]. split; [exact LL|]. split; [exact Hrc|]. intros Hz. specialize (Inv Hz).
  pose proof (eps_ge0 _ _ _ M) as He. pose proof (eta_ge0 _ _ _ M) as Ht.
  assert (Hsmall : forall k, (k <= n + 1)%nat -> INR k * eps < 1).
  { intros k Hk. apply le_INR in Hk. nra. }
  split; [|split].
  - intros c Hc. apply (llt_diag_pos n (mg n A) Lh Inv c Hroom Hc).
  - intros r c Hc Hr.
    assert (Hu : mg n Lh c c <> 0).
    { pose proof (llt_diag_pos n (mg n A) Lh Inv c Hroom ltac:(lia)). lra. }
    apply (to_gamma rnd eps eta M (S c) c); try lia; try apply Rabs_pos.
    + apply Hsmall. lia.
    + apply rsum_nonneg. intros. apply Rmult_le_pos; apply Rabs_pos.
    + apply (llt_offdiag_residual n (mg n A) Lh Inv r c Hc Hr Hu).
  - intros r Hr.
    apply (to_gamma rnd eps eta M (r + 2) r); try lia.
    + apply Hsmall. lia.
    + apply rsum_nonneg. intros. apply Rmult_le_pos; apply Rabs_pos.
    + pose proof (Rabs_pos (mg n Lh r r)). lra.
    + apply (llt_diag_residual n (mg n A) Lh Inv r Hr).
Qed.

(* the classical shape (Higham Thm 10.3):  |A - L^ L^^T|_rc <= gamma_{n+1} (|L^||L^|^T)_rc + O(n) eta,  c <= r *)
Theorem llt_backward_error_uniform n (A : list R) :
  length A = (n * n)%nat -> INR (n + 1) * eps < 1 -> eta * eta < (1 - eps) * (1 - eps) * tiny ->
  exists rc Lh, llt QO n A = Some (rc, Lh) /\ length Lh = (n * n)%nat /\ (rc = 0%nat \/ rc = 1%nat) /\
    (rc = 0%nat ->
       (forall c, (c < n)%nat -> 0 < mg n Lh c c) /\
       (forall r c, (c <= r)%nat -> (r < n)%nat ->
          Rabs (mg n A r c - rsum (fun i => mg n Lh r i * mg n Lh c i) (S c))
          <= gamma eps (n + 1) * rsum (fun i => Rabs (mg n Lh r i) * Rabs (mg n Lh c i)) (S c)
             + (3 * INR (n + 1) + (2 * Rabs (mg n Lh c c) + eta)) * (1 + gamma eps (n + 1)) * eta)).
Proof.
  intros LA Hn Hroom. destruct (llt_backward_error n A LA Hn Hroom) as (rc & Lh & E & LL & Hrc & P).
  exists rc, Lh. split; [exact E|]. split; [exact LL|]. split; [exact Hrc|]. intros Hz.
  destruct (P Hz) as (P0 & P1 & P2). split; [exact P0|].
  pose proof (eta_ge0 _ _ _ M) as Ht.
  intros r c Hc Hr.
  assert (HS : 0 <= rsum (fun i => Rabs (mg n Lh r i) * Rabs (mg n Lh c i)) (S c)).
  { apply rsum_nonneg. intros. apply Rmult_le_pos; apply Rabs_pos. }
  pose proof (Rabs_pos (mg n Lh c c)) as Hw.
  destruct (Nat.eq_dec c r) as [->|N].
  - apply (gamma_bound_weaken (r + 2) (n + 1) (2 * Rabs (mg n Lh r r) + eta) (2 * Rabs (mg n Lh r r) + eta)); try lia; try lra.
    apply P2. exact Hr.
  - apply (gamma_bound_weaken (S c) (n + 1) (Rabs (mg n Lh c c)) (2 * Rabs (mg n Lh c c) + eta)); try lia; try lra.
    apply P1; lia.
Qed.

End LltTheorem.

(* ================================================================================ LDL^T: the cells *)
Section LdlCells.
Variable rnd : R -> R.
Variable tiny : R.
Local Notation QO := (Rnd8_ops rnd tiny).
Variable n : nat.

(* the recurrence of cell (r,c) started at s: the subtracted term is rnd (rnd (l_ri l_ci) d_i) *)
Definition ldlrec (m : nat -> nat -> R) (r c : nat) (s : R) : R :=
  rsub rnd (fun i => rnd (m r i * m c i) * m i i) 0 c s.

Lemma ldlrec_ext m m' r c s :
  (forall i, (i < c)%nat -> m r i = m' r i /\ m c i = m' c i /\ m i i = m' i i) -> ldlrec m r c s = ldlrec m' r c s.
Proof.
  intros H. unfold ldlrec. apply rsub_ext. intros i Hi. destruct (H i ltac:(lia)) as (-> & -> & ->). reflexivity.
Qed.

(* linalg_ldl.c:10-13 *)
Lemma rldl_diag_loop A c :
  length A = (n * n)%nat -> (c < n)%nat ->
  exists A1,
    for_range 0 c (fun i A =>
      do acc <- rd A (n * c + c); do aci <- rd A (n * c + i); do d <- rd A (n * i + i);
      wr A (n * c + c) (sub QO acc (mul QO (mul QO aci aci) d))) A = Some A1 /\
    length A1 = (n * n)%nat /\
    forall r' c', (r' < n)%nat -> (c' < n)%nat ->
      mg n A1 r' c' = if (Nat.eqb r' c && Nat.eqb c' c)%bool then ldlrec (mg n A) c c (mg n A c c) else mg n A r' c'.
Proof.
  intros LA Hc.
  apply (racc_loop rnd n A c c c _ (fun i => rnd (mg n A c i * mg n A c i) * mg n A i i)); auto.
  intros i A' Hi L' Ag.
  rewrite !(rd_mg n) by (auto; lia). rewrite (wr_mg n) by auto.
  rewrite (Ag c i), (Ag i i) by (auto; lia). reflexivity.
Qed.

(* linalg_ldl.c:17-22, one row below the diagonal *)
Lemma rldl_row A c r :
  length A = (n * n)%nat -> (c < r)%nat -> (r < n)%nat ->
  exists A2,
    (do A' <- for_range 0 c (fun i A =>
                do arc <- rd A (n * r + c); do ari <- rd A (n * r + i);
                do aci <- rd A (n * c + i); do d <- rd A (n * i + i);
                wr A (n * r + c) (sub QO arc (mul QO (mul QO ari aci) d))) A;
     do arc <- rd A' (n * r + c); do acc <- rd A' (n * c + c);
     wr A' (n * r + c) (div QO arc acc)) = Some A2 /\
    length A2 = (n * n)%nat /\
    forall r' c', (r' < n)%nat -> (c' < n)%nat ->
      mg n A2 r' c' = if (Nat.eqb r' r && Nat.eqb c' c)%bool
                      then rnd (ldlrec (mg n A) r c (mg n A r c) / mg n A c c) else mg n A r' c'.
Proof.
  intros LA Hcr Hr.
  destruct (racc_loop rnd n A r c c
              (fun i A => do arc <- rd A (n * r + c); do ari <- rd A (n * r + i);
                          do aci <- rd A (n * c + i); do d <- rd A (n * i + i);
                          wr A (n * r + c) (sub QO arc (mul QO (mul QO ari aci) d)))
              (fun i => rnd (mg n A r i * mg n A c i) * mg n A i i)) as (A1 & E1 & L1 & P1); auto; try lia.
  { intros i A' Hi L' Ag.
    rewrite !(rd_mg n) by (auto; lia). rewrite (wr_mg n) by (auto; lia).
    rewrite (Ag r i), (Ag c i), (Ag i i) by (auto; lia). reflexivity. }
  rewrite E1.
  destruct (rcell_div rnd tiny n A1 r c c c) as (A2 & E2 & L2 & P2); auto; try lia.
  exists A2. split; [exact E2|]. split; auto.
  intros r' c' Hr' Hc'. rewrite P2 by auto. rewrite !P1 by (auto; lia).
  unfold ldlrec. bcase.
Qed.

(* linalg_ldl.c:15-23, all rows below the diagonal *)
Lemma rldl_rows A c :
  length A = (n * n)%nat -> (c < n)%nat ->
  exists A2,
    for_range (c + 1) n (fun r A =>
      do A' <- for_range 0 c (fun i A =>
                 do arc <- rd A (n * r + c); do ari <- rd A (n * r + i);
                 do aci <- rd A (n * c + i); do d <- rd A (n * i + i);
                 wr A (n * r + c) (sub QO arc (mul QO (mul QO ari aci) d))) A;
      do arc <- rd A' (n * r + c); do acc <- rd A' (n * c + c);
      wr A' (n * r + c) (div QO arc acc)) A = Some A2 /\
    length A2 = (n * n)%nat /\
    forall r' c', (r' < n)%nat -> (c' < n)%nat ->
      mg n A2 r' c' = if (Nat.ltb c r' && Nat.eqb c' c)%bool
                      then rnd (ldlrec (mg n A) r' c (mg n A r' c) / mg n A c c) else mg n A r' c'.
Proof.
  intros LA Hc.
  destruct (for_range_inv
              (fun k (A' : list R) => length A' = (n * n)%nat /\
                 forall r' c', (r' < n)%nat -> (c' < n)%nat ->
                   mg n A' r' c' = if (Nat.ltb c r' && Nat.ltb r' k && Nat.eqb c' c)%bool
                                   then rnd (ldlrec (mg n A) r' c (mg n A r' c) / mg n A c c) else mg n A r' c')
              (c + 1) n
              (fun r A =>
                 do A' <- for_range 0 c (fun i A =>
                            do arc <- rd A (n * r + c); do ari <- rd A (n * r + i);
                            do aci <- rd A (n * c + i); do d <- rd A (n * i + i);
                            wr A (n * r + c) (sub QO arc (mul QO (mul QO ari aci) d))) A;
                 do arc <- rd A' (n * r + c); do acc <- rd A' (n * c + c);
                 wr A' (n * r + c) (div QO arc acc)) A) as (A2 & E & L2 & P2).
  - lia.
  - split; auto. intros r' c' _ _. bcase.
  - intros k A1 Hk [L1 P1].
    destruct (rldl_row A1 c k L1) as (A2 & E2 & L2 & P2); try lia.
    exists A2. split; [exact E2|]. split; auto.
    intros r' c' Hr' Hc'. rewrite P2 by auto. rewrite !P1 by (auto; lia).
    assert (Hrec : forall s, ldlrec (mg n A1) k c s = ldlrec (mg n A) k c s).
    { intros s. apply ldlrec_ext. intros i Hi. rewrite !P1 by (auto; lia). repeat split; bcase. }
    rewrite Hrec. rewrite !Nat.ltb_irrefl, !Bool.andb_false_r. cbn [andb]. bcase.
  - exists A2. split; [exact E|]. split; auto.
    intros r' c' Hr' Hc'. rewrite P2 by auto. bcase.
Qed.

Variable a0 : nat -> nat -> R.

Definition RLdlInv (k : nat) (M : list R) : Prop :=
  length M = (n * n)%nat /\
  (forall r c, (c < k)%nat -> (c < r)%nat -> (r < n)%nat ->
     mg n M r c = rnd (ldlrec (mg n M) r c (a0 r c) / mg n M c c)) /\
  (forall c, (c < k)%nat -> (c < n)%nat ->
     mg n M c c = ldlrec (mg n M) c c (a0 c c) /\ tiny <= Rabs (mg n M c c)) /\
  (forall r c, (r < n)%nat -> (c < n)%nat -> (k <= c \/ r < c)%nat -> mg n M r c = a0 r c).

Lemma rldl_step_spec c M :
  (c < n)%nat -> RLdlInv c M ->
  exists rc M', ldl_step QO n c M = Some (rc, M') /\ length M' = (n * n)%nat /\
    (rc = 0%nat -> RLdlInv (S c) M') /\ (rc = 0%nat \/ rc = 1%nat).
Proof.
  intros Hc (LM & I1 & I2 & I3). unfold ldl_step.
  destruct (rldl_diag_loop M c LM Hc) as (A1 & E1 & L1 & P1). rewrite E1.
  rewrite (rd_mg n) by auto.
  cbn [ltb abs C08.NumOps.tiny Rnd8_ops].
  destruct (Rlt_dec (Rabs (mg n A1 c c)) tiny) as [Lt|NLt].
  - exists 1%nat, A1. split; auto. split; auto. split; [discriminate|auto].
  - destruct (rldl_rows A1 c L1 Hc) as (A2 & E2 & L2 & P2). rewrite E2.
    exists 0%nat, A2. split; auto. split; auto. split; [intros _|auto].
    assert (Hold : forall r' c', (r' < n)%nat -> (c' < n)%nat -> (c' < c)%nat -> mg n A2 r' c' = mg n M r' c').
    { intros r' c' Hr' Hc' Hlt. rewrite P2 by auto. bcase; rewrite P1 by auto; bcase. }
    assert (Hrec2 : forall r' s, (r' < n)%nat -> ldlrec (mg n A2) r' c s = ldlrec (mg n M) r' c s).
    { intros r' s Hr'. apply ldlrec_ext. intros i Hi.
      rewrite (Hold r' i), (Hold c i), (Hold i i) by lia. auto. }
    assert (Hrec1 : forall r' s, (r' < n)%nat -> ldlrec (mg n A1) r' c s = ldlrec (mg n M) r' c s).
    { intros r' s Hr'. apply ldlrec_ext. intros i Hi. rewrite !P1 by (auto; lia). repeat split; bcase. }
    assert (Hcc1 : mg n A1 c c = ldlrec (mg n M) c c (a0 c c)).
    { rewrite P1 by auto. rewrite !Nat.eqb_refl. cbn [andb]. rewrite (I3 c c) by (auto; lia). reflexivity. }
    assert (Hcc2 : mg n A2 c c = mg n A1 c c).
    { rewrite P2 by auto. bcase. }
    split; [exact L2|]. split; [|split].
    + intros r c' Hc' Hrc Hr.
      destruct (Nat.eq_dec c' c) as [->|Nc].
      * rewrite Hrec2 by auto. rewrite Hcc2.
        rewrite P2 by auto. destruct (Nat.ltb_spec c r); [|lia]. rewrite Nat.eqb_refl. cbn [andb].
        rewrite Hrec1 by auto. f_equal. f_equal. f_equal.
        rewrite P1 by auto. destruct (Nat.eqb_spec r c); [lia|]. cbn [andb].
        apply (I3 r c); auto; lia.
      * rewrite (Hold r c'), (Hold c' c') by lia. rewrite (I1 r c') by (auto; lia). f_equal. f_equal.
        apply ldlrec_ext. intros i Hi. rewrite (Hold r i), (Hold c' i), (Hold i i) by lia. auto.
    + intros c' Hc' Hcn. destruct (Nat.eq_dec c' c) as [->|Nc].
      * rewrite Hrec2 by auto. rewrite Hcc2. split; [exact Hcc1|lra].
      * rewrite (Hold c' c') by lia.
        rewrite (ldlrec_ext (mg n A2) (mg n M) c' c')
          by (intros i Hi; rewrite (Hold c' i), (Hold i i) by lia; auto).
        apply I2; lia.
    + intros r' c' Hr' Hc' Hor. rewrite P2 by auto. bcase; rewrite P1 by auto; bcase; apply I3; auto; lia.
Qed.

End LdlCells.

(* a_real_ldl as a whole: what the rounded run stores *)
Lemma rldl_cells rnd tiny n (A : list R) :
  length A = (n * n)%nat ->
  exists rc M, ldl (Rnd8_ops rnd tiny) n A = Some (rc, M) /\ length M = (n * n)%nat /\
    (rc = 0%nat -> RLdlInv rnd tiny n (mg n A) n M) /\ (rc = 0%nat \/ rc = 1%nat).
Proof.
  intros LA. unfold ldl.
  destruct (for_range_inv
              (fun k (s : nat * list R) => length (snd s) = (n * n)%nat /\
                 (fst s = 0%nat -> RLdlInv rnd tiny n (mg n A) k (snd s)) /\ (fst s = 0%nat \/ fst s = 1%nat))
              0 n
              (fun c (s : nat * list R) => if Nat.eqb (fst s) 0 then ldl_step (Rnd8_ops rnd tiny) n c (snd s) else Some s)
              (0%nat, A)) as (s & E & L & P & Q).
  - lia.
  - simpl. split; auto. split; auto. intros _. split; auto. split; [intros; lia|]. split; [intros; lia|]. auto.
  - intros c [rc M] [_ Hc] (L & P & [E0|E1]); simpl in *; subst rc; simpl.
    + destruct (rldl_step_spec rnd tiny n (mg n A) c M Hc (P eq_refl)) as (rc & M' & E & L' & I' & Q').
      exists (rc, M'). split; auto.
    + exists (1%nat, M). split; auto. simpl. split; auto. split; [discriminate|auto].
  - destruct s as [rc M]. exists rc, M. split; [exact E|]. auto.
Qed.

(* ================================================================================ LDL^T: the theorem *)
Section LdlTheorem.
Variable rnd : R -> R.
Variables eps eta tiny : R.
Hypothesis M : std_model rnd eps eta.
Hypothesis tiny_pos : 0 < tiny.
Local Notation QO := (Rnd8_ops rnd tiny).

Section Inv.
Variable n : nat.
Variable a0 : nat -> nat -> R.
Variable Mx : list R.
Hypothesis Inv : RLdlInv rnd tiny n a0 n Mx.
Local Notation m := (mg n Mx).

Lemma ldl_pivot_nz c : (c < n)%nat -> m c c <> 0.
Proof.
  intros Hc Z. destruct Inv as (_ & _ & I2 & _). destruct (I2 c Hc Hc) as [_ H]. rewrite Z, Rabs_R0 in H. lra.
Qed.

(* the pivot d_c: recurrence only *)
Lemma ldl_diag_residual c : (c < n)%nat ->
  Rabs (a0 c c - (rsum (fun i => m c i * m c i * m i i) c + m c c))
  <= GG eps (S c) * (rsum (fun i => Rabs (m c i * m c i * m i i)) c + Rabs (m c c))
     + (HH eps c + (1 + GG eps c) * rsum (fun i => Rabs (m i i)) c) * eta.
Proof.
  intros Hc. destruct Inv as (_ & _ & I2 & _). destruct (I2 c Hc Hc) as [Hd _]. unfold ldlrec in Hd.
  pose proof (rsub_scaled_bound rnd eps eta M (fun i => m c i * m c i) (fun i => m i i) c 0 (a0 c c)) as HB.
  cbv beta in HB. rewrite <- Hd in HB. cbn [Nat.add] in HB. rewrite !isum_0 in HB.
  replace (a0 c c - (rsum (fun i => m c i * m c i * m i i) c + m c c))
    with (a0 c c - rsum (fun i => m c i * m c i * m i i) c - m c c) by ring.
  rewrite (Rplus_comm (rsum _ c) (Rabs (m c c))). exact HB.
Qed.

(* below the diagonal: recurrence, then the division by d_c *)
Lemma ldl_offdiag_residual r c : (c < r)%nat -> (r < n)%nat ->
  Rabs (a0 r c - (rsum (fun i => m r i * m c i * m i i) c + m r c * m c c))
  <= GG eps (c + 2) * (rsum (fun i => Rabs (m r i * m c i * m i i)) c + Rabs (m r c * m c c))
     + (HH eps c + (1 + GG eps (c + 2)) * rsum (fun i => Rabs (m i i)) (S c)) * eta.
Proof.
  intros Hc Hr. pose proof (ldl_pivot_nz c ltac:(lia)) as Hu. destruct Inv as (_ & I1 & _ & _).
  specialize (I1 r c ltac:(lia) Hc Hr). unfold ldlrec in I1.
  pose proof (rsub_scaled_bound rnd eps eta M (fun i => m r i * m c i) (fun i => m i i) c 0 (a0 r c)) as HB.
  cbv beta in HB. cbn [Nat.add] in HB. rewrite !isum_0 in HB.
  set (sm := rsub rnd (fun i => rnd (m r i * m c i) * m i i) 0 c (a0 r c)) in *.
  set (P := rsum (fun i => m r i * m c i * m i i) c) in *.
  set (AP := rsum (fun i => Rabs (m r i * m c i * m i i)) c) in *.
  set (SD := rsum (fun i => Rabs (m i i)) c) in *.
  pose proof (eta_ge0 _ _ _ M) as Ht. pose proof (a_ge1 _ _ _ M) as Ha1.
  pose proof (GG_ge0 _ _ _ M c) as Hg0. pose proof (GG_ge0 _ _ _ M (S c)) as Hg1. pose proof (HH_ge0 _ _ _ M c) as Hh.
  assert (HAP : 0 <= AP) by (apply rsum_nonneg; intros; apply Rabs_pos).
  assert (HSD : 0 <= SD) by (apply rsum_nonneg; intros; apply Rabs_pos).
  assert (Hh' : 0 <= HH eps c + (1 + GG eps c) * SD) by nra.
  pose proof (div_after rnd eps eta M (GG eps (S c)) (HH eps c + (1 + GG eps c) * SD) (a0 r c - P) sm AP (m c c)
                Hu Hg1 Hh' HAP HB) as HD.
  rewrite <- I1 in HD.
  replace (ainv eps * GG eps (S c) + (ainv eps - 1)) with (GG eps (c + 2)) in HD
    by (replace (c + 2)%nat with (S (S c)) by lia; rewrite (GG_S eps (S c)); reflexivity).
  replace (ainv eps * GG eps (S c) + ainv eps) with (1 + GG eps (c + 2)) in HD
    by (replace (c + 2)%nat with (S (S c)) by lia; rewrite (GG_S eps (S c)); ring).
  replace (a0 r c - (P + m r c * m c c)) with (a0 r c - P - m c c * m r c) by ring.
  rewrite (Rmult_comm (m r c) (m c c)), (Rplus_comm AP).
  eapply Rle_trans; [exact HD|]. apply Rplus_le_compat_l. apply Rmult_le_compat_r; [exact Ht|].
  rewrite rsum_S. fold SD.
  assert (GG eps c <= GG eps (c + 2)) by (apply (GG_mono _ _ _ M); lia).
  pose proof (Rabs_pos (m c c)). nra.
Qed.
End Inv.

(* a_real_ldl: |A - L^ D^ L^^T| componentwise on the triangle the code reads, fine-grained constants;
   in the in-place result M the pivots d_c are the diagonal cells and l_rc the cells below the diagonal *)
Theorem ldl_backward_error n (A : list R) :
  length A = (n * n)%nat -> INR n * eps < 1 ->
  exists rc Mh, ldl QO n A = Some (rc, Mh) /\ length Mh = (n * n)%nat /\ (rc = 0%nat \/ rc = 1%nat) /\
    (rc = 0%nat ->
       (forall c, (c < n)%nat -> tiny <= Rabs (mg n Mh c c)) /\
       (forall r c, (c < r)%nat -> (r < n)%nat ->
          Rabs (mg n A r c - (rsum (fun i => mg n Mh r i * mg n Mh c i * mg n Mh i i) c + mg n Mh r c * mg n Mh c c))
          <= gamma eps (c + 2) * (rsum (fun i => Rabs (mg n Mh r i * mg n Mh c i * mg n Mh i i)) c
                                  + Rabs (mg n Mh r c * mg n Mh c c))
             + (3 * INR (c + 2) + rsum (fun i => Rabs (mg n Mh i i)) (S c)) * (1 + gamma eps (c + 2)) * eta) /\
       (forall c, (c < n)%nat ->
          Rabs (mg n A c c - (rsum (fun i => mg n Mh c i * mg n Mh c i * mg n Mh i i) c + mg n Mh c c))
          <= gamma eps (S c) * (rsum (fun i => Rabs (mg n Mh c i * mg n Mh c i * mg n Mh i i)) c + Rabs (mg n Mh c c))
             + (3 * INR (S c) + rsum (fun i => Rabs (mg n Mh i i)) c) * (1 + gamma eps (S c)) * eta)).
Proof.
  intros LA Hn. destruct (rldl_cells rnd tiny n A LA) as (rc & Mh & E & LL & Inv & Hrc).
  exists rc, Mh. split; [exact E|]. split; [exact LL|]. split; [exact Hrc|]. intros Hz. specialize (Inv Hz).
  pose proof (eps_ge0 _ _ _ M) as He. pose proof (eta_ge0 _ _ _ M) as Ht.
  assert (Hsmall : forall k, (k <= n)%nat -> INR k * eps < 1).
  { intros k Hk. apply le_INR in Hk. nra. }
  split; [|split].
  - intros c Hc. destruct Inv as (_ & _ & I2 & _). apply (I2 c Hc Hc).
  - intros r c Hc Hr.
    apply (to_gamma rnd eps eta M (c + 2) c); try lia.
    + apply Hsmall. lia.
    + apply Rplus_le_le_0_compat; [|apply Rabs_pos]. apply rsum_nonneg. intros. apply Rabs_pos.
    + apply rsum_nonneg. intros. apply Rabs_pos.
    + apply (ldl_offdiag_residual n (mg n A) Mh Inv r c Hc Hr).
  - intros c Hc.
    apply (to_gamma rnd eps eta M (S c) c); try lia.
    + apply Hsmall. lia.
    + apply Rplus_le_le_0_compat; [|apply Rabs_pos]. apply rsum_nonneg. intros. apply Rabs_pos.
    + apply rsum_nonneg. intros. apply Rabs_pos.
    + eapply Rle_trans; [apply (ldl_diag_residual n (mg n A) Mh Inv c Hc)|].
      apply Rplus_le_compat_l. apply Rmult_le_compat_r; [exact Ht|]. apply Rplus_le_compat_l.
      apply Rmult_le_compat_r; [apply rsum_nonneg; intros; apply Rabs_pos|].
      pose proof (GG_mono _ _ _ M c (S c) ltac:(lia)). lra.
Qed.

(* (L D L^T)_rc and (|L||D||L|^T)_rc for c <= r, read from the in-place result *)
Definition ldlt_cell (m : nat -> nat -> R) (r c : nat) : R :=
  rsum (fun i => m r i * m c i * m i i) c + (if Nat.eqb r c then m c c else m r c * m c c).
Definition ldlt_abs_cell (m : nat -> nat -> R) (r c : nat) : R :=
  rsum (fun i => Rabs (m r i * m c i * m i i)) c + (if Nat.eqb r c then Rabs (m c c) else Rabs (m r c * m c c)).

(* the classical shape:  |A - L^ D^ L^^T|_rc <= gamma_n (|L^||D^||L^|^T)_rc + O(n + sum |d_i|) eta,  c <= r *)
Theorem ldl_backward_error_uniform n (A : list R) :
  length A = (n * n)%nat -> INR n * eps < 1 ->
  exists rc Mh, ldl QO n A = Some (rc, Mh) /\ length Mh = (n * n)%nat /\ (rc = 0%nat \/ rc = 1%nat) /\
    (rc = 0%nat ->
       (forall c, (c < n)%nat -> tiny <= Rabs (mg n Mh c c)) /\
       (forall r c, (c <= r)%nat -> (r < n)%nat ->
          Rabs (mg n A r c - ldlt_cell (mg n Mh) r c)
          <= gamma eps n * ldlt_abs_cell (mg n Mh) r c
             + (3 * INR n + rsum (fun i => Rabs (mg n Mh i i)) (S c)) * (1 + gamma eps n) * eta)).
Proof.
  intros LA Hn. destruct (ldl_backward_error n A LA Hn) as (rc & Mh & E & LL & Hrc & P).
  exists rc, Mh. split; [exact E|]. split; [exact LL|]. split; [exact Hrc|]. intros Hz.
  destruct (P Hz) as (P0 & P1 & P2). split; [exact P0|].
  intros r c Hc Hr. unfold ldlt_cell, ldlt_abs_cell.
  assert (HSD : 0 <= rsum (fun i => Rabs (mg n Mh i i)) c) by (apply rsum_nonneg; intros; apply Rabs_pos).
  destruct (Nat.eqb_spec r c) as [->|N].
  - apply (gamma_bound_weaken rnd eps eta M (S c) n (rsum (fun i => Rabs (mg n Mh i i)) c)); try lia; try assumption.
    + apply Rplus_le_le_0_compat; [|apply Rabs_pos]. apply rsum_nonneg. intros. apply Rabs_pos.
    + split; [exact HSD|]. rewrite rsum_S. pose proof (Rabs_pos (mg n Mh c c)). lra.
    + apply P2. exact Hr.
  - apply (gamma_bound_weaken rnd eps eta M (c + 2) n (rsum (fun i => Rabs (mg n Mh i i)) (S c))); try lia; try assumption.
    + apply Rplus_le_le_0_compat; [|apply Rabs_pos]. apply rsum_nonneg. intros. apply Rabs_pos.
    + split; [|lra]. apply rsum_nonneg. intros. apply Rabs_pos.
    + apply P1; lia.
Qed.

End LdlTheorem.

(* ================================================================================ PLU: the cells *)
Section PluCells.
Variable rnd : R -> R.
Variable tiny : R.
Hypothesis tiny_pos : 0 < tiny.
Local Notation QO := (Rnd8_ops rnd tiny).
Variable n : nat.

(* ---- linalg_plu.c:37-43 : elimination of one row, rounded ---- *)
Lemma relim_row_spec A i mx r :
  length A = (n * n)%nat -> (i < r)%nat -> (r < n)%nat ->
  exists A', plu_elim_row QO n i mx r A = Some A' /\ length A' = (n * n)%nat /\
    forall r' c', (r' < n)%nat -> (c' < n)%nat ->
      mg n A' r' c' =
      if Nat.eqb r' r
      then (if Nat.eqb c' i then rnd (mg n A r i / mx)
            else if Nat.ltb i c' then rnd (mg n A r c' - rnd (mg n A i c' * rnd (mg n A r i / mx)))
                 else mg n A r c')
      else mg n A r' c'.
Proof.
  intros HL Hir Hr. unfold plu_elim_row.
  rewrite (rd_mg n) by (auto; lia). cbn [div sub mul Rnd8_ops]. cbv zeta.
  set (x := rnd (mg n A r i / mx)).
  match goal with |- context [for_range (i + 1) n ?f A] =>
    destruct (for_range_inv
                (fun k (A' : list R) =>
                   length A' = (n * n)%nat /\
                   forall r' c', (r' < n)%nat -> (c' < n)%nat ->
                     mg n A' r' c' = if (Nat.eqb r' r && Nat.ltb i c' && Nat.ltb c' k)%bool
                                     then rnd (mg n A r c' - rnd (mg n A i c' * x)) else mg n A r' c')
                (i + 1) n f A) as (A1 & E & L1 & P1)
  end.
  - lia.
  - split; auto. intros r' c' _ _. bcase.
  - intros k A0 Hk [L0 P0]. cbv beta.
    rewrite !(rd_mg n) by (auto; lia). rewrite (wr_mg n) by (auto; lia).
    eexists. split; [reflexivity|]. split; [now rewrite upd_length|].
    intros r' c' Hr' Hc'. rewrite mg_upd by (auto; lia). rewrite !P0 by (auto; lia).
    rewrite !Nat.ltb_irrefl, !Bool.andb_false_r. destruct (Nat.eqb_spec i r); [lia|]. cbn [andb]. bcase.
  - rewrite E.
    rewrite (wr_mg n) by (auto; lia).
    eexists. split; [reflexivity|]. split; [now rewrite upd_length|].
    intros r' c' Hr' Hc'. rewrite mg_upd by (auto; lia). rewrite !P1 by (auto; lia).
    bcase.
Qed.

(* ---- linalg_plu.c:35-44 : elimination of all rows below the pivot row, rounded ---- *)
Lemma relim_spec A i mx :
  length A = (n * n)%nat -> (i < n)%nat ->
  exists A', for_range (i + 1) n (plu_elim_row QO n i mx) A = Some A' /\ length A' = (n * n)%nat /\
    forall r c, (r < n)%nat -> (c < n)%nat ->
      mg n A' r c =
      if Nat.ltb i r
      then (if Nat.eqb c i then rnd (mg n A r i / mx)
            else if Nat.ltb i c then rnd (mg n A r c - rnd (mg n A i c * rnd (mg n A r i / mx)))
                 else mg n A r c)
      else mg n A r c.
Proof.
  intros HL Hi.
  destruct (for_range_inv
              (fun k (A' : list R) =>
                 length A' = (n * n)%nat /\
                 forall r c, (r < n)%nat -> (c < n)%nat ->
                   mg n A' r c =
                   if (Nat.ltb i r && Nat.ltb r k)%bool
                   then (if Nat.eqb c i then rnd (mg n A r i / mx)
                         else if Nat.ltb i c then rnd (mg n A r c - rnd (mg n A i c * rnd (mg n A r i / mx)))
                              else mg n A r c)
                   else mg n A r c)
              (i + 1) n (plu_elim_row QO n i mx) A) as (A1 & E & L1 & P1).
  - lia.
  - split; auto. intros r c _ _. bcase.
  - intros k A0 Hk [L0 P0].
    destruct (relim_row_spec A0 i mx k L0) as (A2 & E2 & L2 & P2); try lia.
    exists A2. split; [exact E2|]. split; auto.
    intros r c Hr Hc. rewrite P2 by auto. rewrite !P0 by (auto; lia).
    bcase.
  - exists A1. split; [exact E|]. split; auto.
    intros r c Hr Hc. rewrite P1 by auto. bcase.
Qed.

(* ---- the invariant ---- *)
Variable a0 : nat -> nat -> R.          (* the input matrix *)

(* the recurrence of cell (r,c) after cnt eliminations, on the cells m of the CURRENT array *)
Definition plurec (m : nat -> nat -> R) (r c cnt : nat) (s : R) : R := rsub rnd (fun j => m j c * m r j) 0 cnt s.

Lemma plurec_ext m m' r r' c cnt s :
  (forall j, (j < cnt)%nat -> m j c = m' j c /\ m r j = m' r' j) -> plurec m r c cnt s = plurec m' r' c cnt s.
Proof.
  intros H. unfold plurec. apply rsub_ext. intros j Hj. destruct (H j ltac:(lia)) as [-> ->]. reflexivity.
Qed.

(* after k steps: a multiplier l_rc (c < min r k) is the rounded quotient of its finished recurrence by the pivot;
   every other cell has received min(r,k) updates *)
Definition cells_ok (k : nat) (m : nat -> nat -> R) (p : nat -> nat) : Prop :=
  forall r c, (r < n)%nat -> (c < n)%nat ->
    m r c = if Nat.ltb c (Nat.min r k) then rnd (plurec m r c c (a0 (p r) c) / m c c)
            else plurec m r c (Nat.min r k) (a0 (p r) c).

Definition mult_okR (k : nat) (m : nat -> nat -> R) : Prop :=
  forall r j, (j < k)%nat -> (j < r)%nat -> (r < n)%nat -> exists x, Rabs x <= 1 /\ m r j = rnd x.

Definition diag_okR (k : nat) (m : nat -> nat -> R) : Prop :=
  forall j, (j < k)%nat -> (j < n)%nat -> tiny <= Rabs (m j j).

Lemma cells_init : cells_ok 0 a0 (fun r => r).
Proof. intros r c Hr Hc. rewrite Nat.min_0_r. reflexivity. Qed.

(* exchange of rows k and mx (> k) of M together with p *)
Lemma cells_swap k mx m p m' p' :
  cells_ok k m p -> (k < mx)%nat -> (mx < n)%nat ->
  (forall r c, (r < n)%nat -> (c < n)%nat ->
     m' r c = if Nat.eqb r k then m mx c else if Nat.eqb r mx then m k c else m r c) ->
  (forall r, (r < n)%nat -> p' r = if Nat.eqb r k then p mx else if Nat.eqb r mx then p k else p r) ->
  cells_ok k m' p'.
Proof.
  intros H Hk Hmx Hm Hp r c Hr Hc.
  assert (Hrow : forall j c', (j < k)%nat -> (c' < n)%nat -> m' j c' = m j c').
  { intros j c' Hj Hc'. rewrite Hm by lia. bcase. }
  rewrite Hp by auto. rewrite (Hm r c) by auto.
  destruct (Nat.eqb_spec r k) as [->|Nk].
  - (* new row k = old row mx *)
    rewrite (H mx c) by auto.
    replace (Nat.min mx k) with (Nat.min k k) by lia.
    destruct (Nat.ltb_spec c (Nat.min k k)) as [Hlt|Hge].
    + rewrite (Hrow c c) by lia. f_equal. f_equal. apply plurec_ext. intros j Hj.
      rewrite (Hrow j c) by lia. rewrite (Hm k j) by lia. rewrite Nat.eqb_refl. auto.
    + apply plurec_ext. intros j Hj. rewrite (Hrow j c) by lia. rewrite (Hm k j) by lia. rewrite Nat.eqb_refl. auto.
  - destruct (Nat.eqb_spec r mx) as [->|Nmx].
    + rewrite (H k c) by lia.
      replace (Nat.min mx k) with (Nat.min k k) by lia.
      destruct (Nat.ltb_spec c (Nat.min k k)) as [Hlt|Hge].
      * rewrite (Hrow c c) by lia. f_equal. f_equal. apply plurec_ext. intros j Hj.
        rewrite (Hrow j c) by lia. rewrite (Hm mx j) by lia. split; [reflexivity|]. bcase.
      * apply plurec_ext. intros j Hj. rewrite (Hrow j c) by lia. rewrite (Hm mx j) by lia. split; [reflexivity|]. bcase.
    + rewrite (H r c) by auto.
      destruct (Nat.ltb_spec c (Nat.min r k)) as [Hlt|Hge].
      * rewrite (Hrow c c) by lia. f_equal. f_equal. apply plurec_ext. intros j Hj.
        rewrite (Hrow j c) by lia. rewrite (Hm r j) by lia. split; [reflexivity|]. bcase.
      * apply plurec_ext. intros j Hj. rewrite (Hrow j c) by lia. rewrite (Hm r j) by lia. split; [reflexivity|]. bcase.
Qed.

(* elimination of column k with the pivot m k k *)
Lemma cells_elim k m p m' :
  cells_ok k m p -> (k < n)%nat ->
  (forall r c, (r < n)%nat -> (c < n)%nat ->
     m' r c = if Nat.ltb k r
              then (if Nat.eqb c k then rnd (m r k / m k k)
                    else if Nat.ltb k c then rnd (m r c - rnd (m k c * rnd (m r k / m k k))) else m r c)
              else m r c) ->
  cells_ok (S k) m' p.
Proof.
  intros H Hk Hm r c Hr Hc.
  assert (Hrow : forall j c', (j <= k)%nat -> (c' < n)%nat -> m' j c' = m j c').
  { intros j c' Hj Hc'. rewrite Hm by lia. bcase. }
  assert (Hcol : forall r' j, (r' < n)%nat -> (j < k)%nat -> m' r' j = m r' j).
  { intros r' j Hr' Hj. rewrite Hm by lia. bcase. }
  destruct (le_lt_dec r k) as [Hrk|Hrk].
  - (* rows up to k are not touched; neither are the rows j < r they refer to *)
    rewrite (Hrow r c) by lia. rewrite (H r c) by auto.
    replace (Nat.min r (S k)) with (Nat.min r k) by lia.
    destruct (Nat.ltb_spec c (Nat.min r k)) as [Hlt|Hge].
    + rewrite (Hrow c c) by lia. f_equal. f_equal. apply plurec_ext. intros j Hj.
      rewrite (Hrow j c), (Hrow r j) by lia. auto.
    + apply plurec_ext. intros j Hj. rewrite (Hrow j c), (Hrow r j) by lia. auto.
  - (* rows below the pivot row *)
    replace (Nat.min r (S k)) with (S k) by lia.
    assert (Hmin : Nat.min r k = k) by lia.
    destruct (lt_eq_lt_dec c k) as [[Hc1| ->]|Hc1].
    + destruct (Nat.ltb_spec c (S k)); [|lia].
      rewrite (Hcol r c) by lia. rewrite (H r c) by auto. rewrite Hmin.
      destruct (Nat.ltb_spec c k); [|lia].
      rewrite (Hrow c c) by lia. f_equal. f_equal. apply plurec_ext. intros j Hj.
      rewrite (Hrow j c), (Hcol r j) by lia. auto.
    + destruct (Nat.ltb_spec k (S k)); [|lia].
      rewrite (Hm r k) by auto. destruct (Nat.ltb_spec k r); [|lia]. rewrite Nat.eqb_refl.
      rewrite (Hrow k k) by lia. f_equal. f_equal.
      rewrite (H r k) by auto. rewrite Hmin. rewrite Nat.ltb_irrefl.
      apply plurec_ext. intros j Hj. rewrite (Hrow j k), (Hcol r j) by lia. auto.
    + destruct (Nat.ltb_spec c (S k)); [lia|].
      rewrite (Hm r c) by auto. destruct (Nat.ltb_spec k r); [|lia].
      destruct (Nat.eqb_spec c k); [lia|]. destruct (Nat.ltb_spec k c); [|lia].
      unfold plurec. rewrite rsub_snoc. cbn [Nat.add]. fold (plurec m' r c k (a0 (p r) c)).
      rewrite (Hrow k c) by lia. rewrite (Hm r k) by auto.
      destruct (Nat.ltb_spec k r); [|lia]. rewrite Nat.eqb_refl.
      f_equal. f_equal.
      rewrite (H r c) by auto. rewrite Hmin. destruct (Nat.ltb_spec c k); [lia|].
      apply plurec_ext. intros j Hj. rewrite (Hrow j c), (Hcol r j) by lia. auto.
Qed.

Definition PRInv (k : nat) (st : plu_st) : Prop :=
  length (pA st) = (n * n)%nat /\ length (pp st) = n /\
  Permutation (pp st) (seq 0 n) /\ psign st = perm_sign (pp st) /\
  cells_ok k (mg n (pA st)) (pfun (pp st)) /\ mult_okR k (mg n (pA st)) /\ diag_okR k (mg n (pA st)).

(* linalg_plu.c:27-34 : the conditional exchange *)
Lemma rpivot_swap_spec i st mx mi :
  (i < n)%nat -> PRInv i st -> (i <= mi < n)%nat -> mx = mg n (pA st) mi i ->
  (forall r, (i <= r < n)%nat -> Rabs (mg n (pA st) r i) <= Rabs mx) ->
  exists st1,
    (if Nat.eqb mi i then Some st
     else
       do u <- rd (pp st) i;
       do v <- rd (pp st) mi;
       do p1 <- wr (pp st) i v;
       do p2 <- wr p1 mi u;
       do A1 <- real_swap n (pA st) (n * i) (n * mi);
       Some {| pA := A1; pp := p2; psign := Z.opp (psign st) |}) = Some st1 /\
    PRInv i st1 /\ mg n (pA st1) i i = mx /\
    (forall r, (i <= r < n)%nat -> Rabs (mg n (pA st1) r i) <= Rabs mx).
Proof.
  intros Hi (LA & Lp & Pp & Sg & Rc & Mo & Do) Hmi Emx Hmax.
  destruct (Nat.eqb_spec mi i) as [->|Nmi].
  - exists st. split; auto. split; [unfold PRInv; split7; auto|]. split; auto.
  - rewrite (rd_some 0%nat) by lia. cbv beta iota. rewrite (rd_some 0%nat) by lia. cbv beta iota.
    rewrite wr_some by lia. cbv beta iota. rewrite wr_some by (rewrite upd_length; lia). cbv beta iota.
    destruct (swap_spec n (pA st) i mi LA) as (A1 & E1 & L1 & P1); try lia.
    rewrite E1. eexists. split; [reflexivity|]. simpl.
    assert (ND : NoDup (pp st)) by (eapply Permutation_NoDup; [symmetry; exact Pp|apply seq_NoDup]).
    destruct (swap_perm_sign (pp st) i mi ND) as [Pq Sq]; [lia|]. cbv zeta in Pq, Sq.
    assert (Hp' : forall r, (r < n)%nat ->
              pfun (upd (upd (pp st) i (nth mi (pp st) 0%nat)) mi (nth i (pp st) 0%nat)) r =
              if Nat.eqb r i then pfun (pp st) mi else if Nat.eqb r mi then pfun (pp st) i else pfun (pp st) r).
    { intros r Hr. unfold pfun. rewrite nth_upd by (rewrite upd_length; lia).
      rewrite nth_upd by lia. bcase. }
    split; [|split].
    + unfold PRInv. split7.
      * exact L1.
      * now rewrite !upd_length.
      * eapply Permutation_trans; [exact Pq|exact Pp].
      * rewrite Sq, Sg. reflexivity.
      * eapply (cells_swap i mi (mg n (pA st)) (pfun (pp st))); eauto; lia.
      * intros r j Hj Hjr Hr. rewrite P1 by lia. bcase; apply Mo; lia.
      * intros j Hj Hjn. rewrite P1 by lia. bcase. apply Do; lia.
    + rewrite P1 by lia. bcase. auto.
    + intros r Hr. rewrite P1 by lia. bcase; apply Hmax; lia.
Qed.

(* linalg_plu.c:35-44 : the elimination re-establishes the invariant for k+1 *)
Lemma relim_inv i st1 mx A2 :
  (i < n)%nat -> PRInv i st1 -> mg n (pA st1) i i = mx -> tiny <= Rabs mx ->
  (forall r, (i <= r < n)%nat -> Rabs (mg n (pA st1) r i) <= Rabs mx) ->
  length A2 = (n * n)%nat ->
  (forall r c, (r < n)%nat -> (c < n)%nat ->
     mg n A2 r c =
     if Nat.ltb i r
     then (if Nat.eqb c i then rnd (mg n (pA st1) r i / mx)
           else if Nat.ltb i c then rnd (mg n (pA st1) r c - rnd (mg n (pA st1) i c * rnd (mg n (pA st1) r i / mx)))
                else mg n (pA st1) r c)
     else mg n (pA st1) r c) ->
  PRInv (S i) {| pA := A2; pp := pp st1; psign := psign st1 |}.
Proof.
  intros Hi (LA & Lp & Pp & Sg & Rc & Mo & Do) Emx Hmx Hmax L2 P2.
  subst mx. set (piv := mg n (pA st1) i i) in *.
  assert (Nz : piv <> 0).
  { intros Z. rewrite Z, Rabs_R0 in Hmx. lra. }
  unfold PRInv. split7; auto.
  - apply (cells_elim i (mg n (pA st1))); auto.
  - intros r j Hj Hjr Hr. rewrite P2 by lia.
    destruct (Nat.eq_dec j i) as [->|Nj].
    + specialize (Hmax r ltac:(lia)).
      assert (0 < Rabs piv) by (apply Rabs_pos_lt; auto).
      destruct (Nat.ltb_spec i r); [|lia]. rewrite Nat.eqb_refl.
      exists (mg n (pA st1) r i / piv). split; [|reflexivity].
      unfold Rdiv. rewrite Rabs_mult, Rabs_inv.
      apply Rmult_le_reg_r with (Rabs piv); auto.
      rewrite Rmult_assoc, Rinv_l by lra. lra.
    + bcase; apply Mo; lia.
  - intros j Hj Hjn. rewrite P2 by lia.
    destruct (Nat.eq_dec j i) as [->|Nj].
    + bcase. auto.
    + bcase. apply Do; lia.
Qed.

(* linalg_plu.c:10-45 : one iteration of the outer loop *)
Lemma rplu_step_spec i st :
  (i < n)%nat -> PRInv i st ->
  exists rc st',
    plu_step QO n i st = Some (rc, st') /\ length (pA st') = (n * n)%nat /\ length (pp st') = n /\
    (rc = 0%nat -> PRInv (S i) st') /\ (rc = 0%nat \/ rc = 1%nat).
Proof.
  intros Hi Inv. pose proof Inv as (LA & Lp & Pp & Sg & Rc & Mo & Do).
  unfold plu_step. rewrite (rd_mg n) by auto.
  destruct (maxsearch_spec tiny n (pA st) i LA Hi) as (mx & ab & mi & E & Hmi & Emx & Eab & Hmax).
  change (plu_maxstep QO n i (pA st)) with (plu_maxstep (R_ops tiny) n i (pA st)).
  cbn [abs ltb C08.NumOps.tiny Rnd8_ops]. cbn [abs R_ops] in E. rewrite E.
  destruct (Rlt_dec ab tiny) as [Lt|NLt].
  - exists 1%nat, st. split; auto. split; auto. split; auto. split; [discriminate|auto].
  - rewrite Eab in Hmax.
    destruct (rpivot_swap_spec i st mx mi Hi Inv Hmi Emx Hmax) as (st1 & E1 & Inv1 & Ep & Hmax1).
    rewrite E1.
    destruct (relim_spec (pA st1) i mx) as (A2 & E2 & L2 & P2); auto.
    { destruct Inv1 as (L1 & _). exact L1. }
    rewrite E2.
    eexists 0%nat, _. split; [reflexivity|]. cbn [pA pp]. split; [exact L2|].
    split; [destruct Inv1 as (_ & Lp1 & _); exact Lp1|]. split; [intros _|auto].
    apply relim_inv with (mx := mx); auto. lra.
Qed.

End PluCells.

(* a_real_plu as a whole: what the rounded run stores *)
Lemma rplu_cells rnd tiny n (A : list R) (p0 : list nat) :
  0 < tiny -> length A = (n * n)%nat -> length p0 = n ->
  exists rc st, plu (Rnd8_ops rnd tiny) n A p0 = Some (rc, st) /\
    length (pA st) = (n * n)%nat /\ length (pp st) = n /\
    (rc = 0%nat -> PRInv rnd tiny n (mg n A) n st) /\ (rc = 0%nat \/ rc = 1%nat).
Proof.
  intros Ht LA Lp. unfold plu. rewrite (init_p n) by auto.
  destruct (for_range_inv
              (fun k (s : nat * plu_st) =>
                 length (pA (snd s)) = (n * n)%nat /\ length (pp (snd s)) = n /\
                 (fst s = 0%nat -> PRInv rnd tiny n (mg n A) k (snd s)) /\ (fst s = 0%nat \/ fst s = 1%nat))
              0 n
              (fun i (s : nat * plu_st) => if Nat.eqb (fst s) 0 then plu_step (Rnd8_ops rnd tiny) n i (snd s) else Some s)
              (0%nat, {| pA := A; pp := seq 0 n; psign := 1%Z |})) as (s & E & L1 & L2 & P & Q).
  - lia.
  - simpl. split; auto. split; [apply seq_length|]. split; auto. intros _.
    unfold PRInv. split7; auto.
    + apply seq_length.
    + now rewrite perm_sign_seq.
    + intros r c Hr Hc. unfold pfun. rewrite seq_nth by auto. simpl.
      apply (cells_init rnd n (mg n A)); auto.
    + intros r j Hj. lia.
    + intros j Hj. lia.
  - intros i [rc st] [_ Hi] (L1 & L2 & P & [E0|E1]); simpl in *; subst rc; simpl.
    + destruct (rplu_step_spec rnd tiny Ht n (mg n A) i st Hi (P eq_refl)) as (rc & st' & E & L1' & L2' & I' & Q').
      exists (rc, st'). split; auto.
    + exists (1%nat, st). split; auto. simpl. split; auto. split; auto. split; [discriminate|auto].
  - destruct s as [rc st]. exists rc, st. split; [exact E|]. auto.
Qed.

(* ================================================================================ PLU: the theorems *)
(* (L U)_rc and (|L||U|)_rc read from the in-place result: L = unit lower triangle, U = upper triangle *)
Definition lu_cell (m : nat -> nat -> R) (r c : nat) : R :=
  rsum (fun j => m r j * m j c) (Nat.min r (S c)) + (if Nat.leb r c then m r c else 0).
Definition lu_abs_cell (m : nat -> nat -> R) (r c : nat) : R :=
  rsum (fun j => Rabs (m r j) * Rabs (m j c)) (Nat.min r (S c)) + (if Nat.leb r c then Rabs (m r c) else 0).

Section PluTheorem.
Variable rnd : R -> R.
Variables eps eta tiny : R.
Hypothesis M : std_model rnd eps eta.
Hypothesis tiny_pos : 0 < tiny.
Local Notation QO := (Rnd8_ops rnd tiny).

Section Inv.
Variable n : nat.
Variable a0 : nat -> nat -> R.
Variable st : @plu_st R.
Hypothesis Inv : PRInv rnd tiny n a0 n st.
Local Notation m := (mg n (pA st)).
Local Notation p := (pfun (pp st)).

Lemma plu_pivot_nz c : (c < n)%nat -> m c c <> 0.
Proof.
  intros Hc Z. destruct Inv as (_ & _ & _ & _ & _ & _ & Do). specialize (Do c Hc Hc). rewrite Z, Rabs_R0 in Do. lra.
Qed.

(* upper triangle: r updates, no division *)
Lemma plu_upper_residual r c : (r <= c)%nat -> (c < n)%nat ->
  Rabs (a0 (p r) c - (rsum (fun j => m r j * m j c) r + m r c))
  <= GG eps r * (rsum (fun j => Rabs (m r j) * Rabs (m j c)) r + Rabs (m r c)) + HH eps r * eta.
Proof.
  intros Hr Hc. destruct Inv as (_ & _ & _ & _ & Rc & _ & _).
  specialize (Rc r c ltac:(lia) Hc). replace (Nat.min r n) with r in Rc by lia.
  destruct (Nat.ltb_spec c r); [lia|]. unfold plurec in Rc.
  pose proof (rsub_bound rnd eps eta M (fun j => m j c * m r j) r 0 (a0 (p r) c)) as HB.
  rewrite <- Rc in HB. cbn [Nat.add] in HB. rewrite !isum_0, rsum_abs_mult in HB.
  rewrite (rsum_ext (fun j => m r j * m j c) (fun j => m j c * m r j)) by (intros; ring).
  rewrite (rsum_ext (fun j => Rabs (m r j) * Rabs (m j c)) (fun j => Rabs (m j c) * Rabs (m r j))) by (intros; ring).
  replace (a0 (p r) c - (rsum (fun j => m j c * m r j) r + m r c))
    with (a0 (p r) c - rsum (fun j => m j c * m r j) r - m r c) by ring.
  rewrite (Rplus_comm (rsum _ r) (Rabs (m r c))). exact HB.
Qed.

(* multipliers: c updates, then the division by the pivot u_cc *)
Lemma plu_lower_residual r c : (c < r)%nat -> (r < n)%nat ->
  Rabs (a0 (p r) c - rsum (fun j => m r j * m j c) (S c))
  <= GG eps (S c) * rsum (fun j => Rabs (m r j) * Rabs (m j c)) (S c)
     + (HH eps c + (1 + GG eps (S c)) * Rabs (m c c)) * eta.
Proof.
  intros Hc Hr. pose proof (plu_pivot_nz c ltac:(lia)) as Hu. destruct Inv as (_ & _ & _ & _ & Rc & _ & _).
  specialize (Rc r c Hr ltac:(lia)). replace (Nat.min r n) with r in Rc by lia.
  destruct (Nat.ltb_spec c r); [|lia]. unfold plurec in Rc.
  pose proof (rsub_div_bound rnd eps eta M (fun j => m j c * m r j) (m c c) c 0 (a0 (p r) c) Hu) as HB.
  rewrite <- Rc in HB. cbn [Nat.add] in HB. rewrite !isum_0, rsum_abs_mult, Rabs_mult, GG_pow in HB.
  rewrite !rsum_S.
  rewrite (rsum_ext (fun j => m r j * m j c) (fun j => m j c * m r j)) by (intros; ring).
  rewrite (rsum_ext (fun j => Rabs (m r j) * Rabs (m j c)) (fun j => Rabs (m j c) * Rabs (m r j))) by (intros; ring).
  replace (a0 (p r) c - (rsum (fun j => m j c * m r j) c + m r c * m c c))
    with (a0 (p r) c - rsum (fun j => m j c * m r j) c - m c c * m r c) by ring.
  rewrite (Rplus_comm (rsum _ c)), (Rmult_comm (Rabs (m r c))). exact HB.
Qed.
End Inv.

(* a_real_plu with partial pivoting: |P A - L^ U^| componentwise, fine-grained constants.  Row r of P A is row
   p[r] of A, p the permutation array the rounded run leaves. *)
Theorem plu_backward_error n (A : list R) (p0 : list nat) :
  length A = (n * n)%nat -> length p0 = n -> INR n * eps < 1 ->
  exists rc st, plu QO n A p0 = Some (rc, st) /\ length (pA st) = (n * n)%nat /\ length (pp st) = n /\
    (rc = 0%nat \/ rc = 1%nat) /\
    (rc = 0%nat ->
       Permutation (pp st) (seq 0 n) /\ psign st = perm_sign (pp st) /\
       (forall c, (c < n)%nat -> tiny <= Rabs (mg n (pA st) c c)) /\
       (forall r c, (c < r)%nat -> (r < n)%nat -> exists x, Rabs x <= 1 /\ mg n (pA st) r c = rnd x) /\
       (forall r c, (r <= c)%nat -> (c < n)%nat ->
          Rabs (mg n A (nth r (pp st) 0%nat) c - (rsum (fun j => mg n (pA st) r j * mg n (pA st) j c) r + mg n (pA st) r c))
          <= gamma eps r * (rsum (fun j => Rabs (mg n (pA st) r j) * Rabs (mg n (pA st) j c)) r + Rabs (mg n (pA st) r c))
             + 3 * INR r * (1 + gamma eps r) * eta) /\
       (forall r c, (c < r)%nat -> (r < n)%nat ->
          Rabs (mg n A (nth r (pp st) 0%nat) c - rsum (fun j => mg n (pA st) r j * mg n (pA st) j c) (S c))
          <= gamma eps (S c) * rsum (fun j => Rabs (mg n (pA st) r j) * Rabs (mg n (pA st) j c)) (S c)
             + (3 * INR (S c) + Rabs (mg n (pA st) c c)) * (1 + gamma eps (S c)) * eta)).
Proof.
  intros LA Lp Hn. destruct (rplu_cells rnd tiny n A p0 tiny_pos LA Lp) as (rc & st & E & L1 & L2 & Inv & Hrc).
  exists rc, st. split; [exact E|]. split; [exact L1|]. split; [exact L2|]. split; [exact Hrc|]. intros Hz.
  specialize (Inv Hz). pose proof Inv as (_ & _ & Pp & Sg & _ & Mo & Do).
  pose proof (eps_ge0 _ _ _ M) as He. pose proof (eta_ge0 _ _ _ M) as Ht.
  assert (Hsmall : forall k, (k <= n)%nat -> INR k * eps < 1).
  { intros k Hk. apply le_INR in Hk. nra. }
  split; [exact Pp|]. split; [exact Sg|]. split; [|split; [|split]].
  - intros c Hc. apply Do; exact Hc.
  - intros r c Hc Hr. apply Mo; lia.
  - intros r c Hr Hc.
    replace (3 * INR r * (1 + gamma eps r) * eta) with ((3 * INR r + 0) * (1 + gamma eps r) * eta) by ring.
    apply (to_gamma rnd eps eta M r r); try lia; try lra.
    + apply Hsmall. lia.
    + apply Rplus_le_le_0_compat; [|apply Rabs_pos]. apply rsum_nonneg. intros. apply Rmult_le_pos; apply Rabs_pos.
    + rewrite Rmult_0_r, Rplus_0_r. apply (plu_upper_residual n (mg n A) st Inv r c Hr Hc).
  - intros r c Hc Hr.
    apply (to_gamma rnd eps eta M (S c) c); try lia; try apply Rabs_pos.
    + apply Hsmall. lia.
    + apply rsum_nonneg. intros. apply Rmult_le_pos; apply Rabs_pos.
    + apply (plu_lower_residual n (mg n A) st Inv r c Hc Hr).
Qed.

(* the classical shape (Higham Thm 9.3):  |P A - L^ U^|_rc <= gamma_n (|L^||U^|)_rc + O(n) eta, every cell;
   and the multipliers without any monotonicity: |l_rc| <= 1 + eps + eta *)
Theorem plu_backward_error_uniform n (A : list R) (p0 : list nat) :
  length A = (n * n)%nat -> length p0 = n -> INR n * eps < 1 ->
  exists rc st, plu QO n A p0 = Some (rc, st) /\ length (pA st) = (n * n)%nat /\ length (pp st) = n /\
    (rc = 0%nat \/ rc = 1%nat) /\
    (rc = 0%nat ->
       Permutation (pp st) (seq 0 n) /\ psign st = perm_sign (pp st) /\
       (forall c, (c < n)%nat -> tiny <= Rabs (mg n (pA st) c c)) /\
       (forall r c, (c < r)%nat -> (r < n)%nat -> Rabs (mg n (pA st) r c) <= 1 + eps + eta) /\
       (forall r c, (r < n)%nat -> (c < n)%nat ->
          Rabs (mg n A (nth r (pp st) 0%nat) c - lu_cell (mg n (pA st)) r c)
          <= gamma eps n * lu_abs_cell (mg n (pA st)) r c
             + (3 * INR n + Rabs (mg n (pA st) c c)) * (1 + gamma eps n) * eta)).
Proof.
  intros LA Lp Hn. destruct (plu_backward_error n A p0 LA Lp Hn) as (rc & st & E & L1 & L2 & Hrc & P).
  exists rc, st. split; [exact E|]. split; [exact L1|]. split; [exact L2|]. split; [exact Hrc|]. intros Hz.
  destruct (P Hz) as (Pp & Sg & Do & Mo & PU & PL).
  split; [exact Pp|]. split; [exact Sg|]. split; [exact Do|]. split.
  - intros r c Hc Hr. destruct (Mo r c Hc Hr) as (x & Hx & ->).
    pose proof (rnd_abs_le _ _ _ M x). pose proof (eps_ge0 _ _ _ M). nra.
  - intros r c Hr Hc. unfold lu_cell, lu_abs_cell. pose proof (Rabs_pos (mg n (pA st) c c)) as Hw.
    destruct (Nat.leb_spec r c) as [Hle|Hlt].
    + replace (Nat.min r (S c)) with r by lia.
      apply (gamma_bound_weaken rnd eps eta M r n 0 (Rabs (mg n (pA st) c c))); try lia; try lra.
      * apply Rplus_le_le_0_compat; [|apply Rabs_pos]. apply rsum_nonneg. intros. apply Rmult_le_pos; apply Rabs_pos.
      * rewrite Rplus_0_r. apply PU; assumption.
    + replace (Nat.min r (S c)) with (S c) by lia. rewrite !Rplus_0_r.
      apply (gamma_bound_weaken rnd eps eta M (S c) n (Rabs (mg n (pA st) c c)) (Rabs (mg n (pA st) c c))); try lia; try lra.
      * apply rsum_nonneg. intros. apply Rmult_le_pos; apply Rabs_pos.
      * apply PL; assumption.
Qed.

End PluTheorem.

(* the multiplier bound of partial pivoting survives rounding when rnd is monotone, odd and fixes 1 (RoundMono.v);
   no error model is needed for this *)
Theorem plu_multipliers_mono rnd tiny n (A : list R) (p0 : list nat) :
  mono_rnd rnd -> 0 < tiny -> length A = (n * n)%nat -> length p0 = n ->
  exists rc st, plu (Rnd8_ops rnd tiny) n A p0 = Some (rc, st) /\ (rc = 0%nat \/ rc = 1%nat) /\
    (rc = 0%nat -> forall r c, (c < r)%nat -> (r < n)%nat -> Rabs (mg n (pA st) r c) <= 1).
Proof.
  intros Mo Ht LA Lp. destruct (rplu_cells rnd tiny n A p0 Ht LA Lp) as (rc & st & E & _ & _ & Inv & Hrc).
  exists rc, st. split; [exact E|]. split; [exact Hrc|]. intros Hz r c Hc Hr.
  destruct (Inv Hz) as (_ & _ & _ & _ & _ & Mu & _). destruct (Mu r c ltac:(lia) Hc Hr) as (x & Hx & ->).
  assert (Hx' : -1 <= x <= 1).
  { pose proof (Rle_abs x). pose proof (Rle_abs (- x)) as H1. rewrite Rabs_Ropp in H1. lra. }
  apply Rabs_le.
  apply (mrnd_between rnd Mo (-1) 1 x); [apply (mrnd_m1 rnd Mo)|apply (mrnd_1 rnd Mo)|exact Hx'].
Qed.

(* ================================================================================ Cholesky, end to end, stage by stage
   a_real_llt followed by a_real_llt_solve on the factor it produced: the factor satisfies the bound of
   llt_backward_error_uniform against A, and the two substitutions satisfy the bounds of RoundSolve.v against the
   COMPUTED factor (whose diagonal is positive, so the divisions are genuine) *)
Section LltSolve.
Variable rnd : R -> R.
Variables eps eta tiny : R.
Hypothesis M : std_model rnd eps eta.
Hypothesis tiny_pos : 0 < tiny.
Local Notation QO := (Rnd8_ops rnd tiny).

Theorem llt_factor_solve_stages n (A b : list R) :
  length A = (n * n)%nat -> length b = n -> INR (n + 1) * eps < 1 -> eta * eta < (1 - eps) * (1 - eps) * tiny ->
  exists rc Lh, llt QO n A = Some (rc, Lh) /\ length Lh = (n * n)%nat /\ (rc = 0%nat \/ rc = 1%nat) /\
    (rc = 0%nat ->
       (forall r c, (c <= r)%nat -> (r < n)%nat ->
          Rabs (mg n A r c - rsum (fun i => mg n Lh r i * mg n Lh c i) (S c))
          <= gamma eps (n + 1) * rsum (fun i => Rabs (mg n Lh r i) * Rabs (mg n Lh c i)) (S c)
             + (3 * INR (n + 1) + (2 * Rabs (mg n Lh c c) + eta)) * (1 + gamma eps (n + 1)) * eta) /\
       exists yh xh, llt_lower QO n Lh b = Some yh /\ llt_solve QO n Lh b = Some xh /\ length xh = n /\
         (forall r, (r < n)%nat ->
            Rabs (nth r b 0 - rsum (fun c => mg n Lh r c * nth c yh 0) (S r))
            <= gamma eps (S r) * rsum (fun c => Rabs (mg n Lh r c) * Rabs (nth c yh 0)) (S r)
               + (3 * INR (S r) + Rabs (mg n Lh r r)) * (1 + gamma eps (S r)) * eta) /\
         (forall c, (c < n)%nat ->
            Rabs (nth c yh 0 - isum (fun r => mg n Lh r c * nth r xh 0) c n)
            <= gamma eps (n - c) * isum (fun r => Rabs (mg n Lh r c) * Rabs (nth r xh 0)) c n
               + (3 * INR (n - c) + Rabs (mg n Lh c c)) * (1 + gamma eps (n - c)) * eta)).
Proof.
  intros LA Lb Hn Hroom.
  destruct (llt_backward_error_uniform rnd eps eta tiny M tiny_pos n A LA Hn Hroom) as (rc & Lh & E & LL & Hrc & P).
  exists rc, Lh. split; [exact E|]. split; [exact LL|]. split; [exact Hrc|]. intros Hz.
  destruct (P Hz) as (Pos & PF). split; [exact PF|].
  assert (Hd : forall r, (r < n)%nat -> mg n Lh r r <> 0) by (intros r Hr; pose proof (Pos r Hr); lra).
  assert (Hn' : INR n * eps < 1).
  { pose proof (eps_ge0 _ _ _ M). assert (INR n <= INR (n + 1)) by (apply le_INR; lia). nra. }
  exact (llt_solve_backward_error rnd eps eta tiny M n Lh b LL Lb Hd Hn').
Qed.

End LltSolve.

(* ================================================================================ Cholesky, end to end, ONE statement
   (Higham Thm 10.4): the computed solution of a_real_llt + a_real_llt_solve solves a nearby system EXACTLY,
   (A + dA) x^ = b + db,  |dA| <= gamma_{3n+1} |L^||L^|^T + O(n) eta,  |db| = O(n) eta (db = 0 when eta = 0). *)

(* gamma_j + gamma_k + gamma_j gamma_k <= gamma_{j+k}  (Higham Lemma 3.3) *)
Lemma gamma_add eps j k : 0 <= eps -> INR (j + k) * eps < 1 ->
  gamma eps j + gamma eps k + gamma eps j * gamma eps k <= gamma eps (j + k).
Proof.
  intros He H. unfold gamma. rewrite plus_INR in *. pose proof (pos_INR j) as Pj. pose proof (pos_INR k) as Pk.
  set (x := INR j * eps) in *. set (y := INR k * eps) in *.
  assert (Hx : 0 <= x) by (unfold x; nra). assert (Hy : 0 <= y) by (unfold y; nra).
  assert (Hxy : x + y < 1) by (unfold x, y; nra).
  fold x y. replace ((INR j + INR k) * eps) with (x + y) by (unfold x, y; ring).
  clearbody x y.
  assert (P1 : 0 < 1 - x) by lra. assert (P2 : 0 < 1 - y) by lra. assert (P3 : 0 < 1 - (x + y)) by lra.
  replace (x / (1 - x) + y / (1 - y) + x / (1 - x) * (y / (1 - y))) with ((x + y - x * y) / ((1 - x) * (1 - y)))
    by (field; lra).
  apply (Rmult_le_reg_r ((1 - x) * (1 - y) * (1 - (x + y)))); [repeat apply Rmult_lt_0_compat; lra|].
  replace ((x + y - x * y) / ((1 - x) * (1 - y)) * ((1 - x) * (1 - y) * (1 - (x + y))))
    with ((x + y - x * y) * (1 - (x + y))) by (field; lra).
  replace ((x + y) / (1 - (x + y)) * ((1 - x) * (1 - y) * (1 - (x + y))))
    with ((x + y) * ((1 - x) * (1 - y))) by (field; lra).
  assert (0 <= x * y) by nra. nra.
Qed.

Lemma rsum_ind_le f r k :
  rsum (fun c => if Nat.leb c k then f c else 0) (S r) = rsum f (S (Nat.min r k)).
Proof.
  destruct (le_lt_dec r k) as [H|H].
  - replace (Nat.min r k) with r by lia. apply rsum_ext. intros c Hc. destruct (Nat.leb_spec c k); [reflexivity|lia].
  - replace (Nat.min r k) with k by lia.
    rewrite <- (rsum_ind_lt f (S k) (S r)) by lia. apply rsum_ext. intros c Hc.
    destruct (Nat.leb_spec c k), (Nat.ltb_spec c (S k)); try lia; reflexivity.
Qed.

(* sum_{c <= r} l1 c * (sum_{c <= k < n} l2 k c * x k)  =  sum_{k < n} (sum_{c <= min r k} l1 c * l2 k c) * x k *)
Lemma tri_swap (l1 : nat -> R) (l2 : nat -> nat -> R) (x : nat -> R) r n :
  rsum (fun c => l1 c * isum (fun k => l2 k c * x k) c n) (S r)
  = rsum (fun k => rsum (fun c => l1 c * l2 k c) (S (Nat.min r k)) * x k) n.
Proof.
  rewrite (rsum_ext _ (fun c => rsum (fun k => if Nat.leb c k then l1 c * l2 k c * x k else 0) n)).
  - rewrite rsum_swap. apply rsum_ext. intros k Hk.
    rewrite <- rsum_scal_r. rewrite <- (rsum_ind_le (fun c => l1 c * l2 k c * x k) r k). reflexivity.
  - intros c Hc. unfold isum. rewrite <- rsum_scal. apply rsum_ext. intros k Hk. destruct (Nat.leb c k); ring.
Qed.

(* the symmetric matrix whose lower triangle the code reads *)
Definition symlow (n : nat) (A : list R) (r k : nat) : R := mg n A (Nat.max r k) (Nat.min r k).

Section LltEndToEnd.
Variable rnd : R -> R.
Variables eps eta tiny : R.
Hypothesis M : std_model rnd eps eta.
Hypothesis tiny_pos : 0 < tiny.
Local Notation QO := (Rnd8_ops rnd tiny).

Lemma cross_bound g a1 a2 l1 l2 d1 d2 :
  0 <= g -> Rabs l1 = a1 -> Rabs l2 = a2 -> Rabs d1 <= g * a1 -> Rabs d2 <= g * a2 ->
  Rabs (l1 * d2 + d1 * l2 + d1 * d2) <= (g + g + g * g) * (a1 * a2).
Proof.
  intros Hg E1 E2 H1 H2. pose proof (Rabs_pos l1). pose proof (Rabs_pos l2). pose proof (Rabs_pos d1). pose proof (Rabs_pos d2).
  subst a1 a2.
  eapply Rle_trans; [apply Rabs_triang|]. eapply Rle_trans; [apply Rplus_le_compat_r; apply Rabs_triang|].
  rewrite !Rabs_mult.
  assert (Rabs l1 * Rabs d2 <= Rabs l1 * (g * Rabs l2)) by (apply Rmult_le_compat_l; lra).
  assert (Rabs d1 * Rabs l2 <= g * Rabs l1 * Rabs l2) by (apply Rmult_le_compat_r; lra).
  assert (Rabs d1 * Rabs d2 <= g * Rabs l1 * (g * Rabs l2)).
  { apply Rmult_le_compat; lra. }
  nra.
Qed.

Theorem llt_solve_end_to_end n (A b : list R) :
  length A = (n * n)%nat -> length b = n -> INR (3 * n + 1) * eps < 1 -> eta * eta < (1 - eps) * (1 - eps) * tiny ->
  exists rc Lh, llt QO n A = Some (rc, Lh) /\ length Lh = (n * n)%nat /\ (rc = 0%nat \/ rc = 1%nat) /\
    (rc = 0%nat ->
       exists xh (dA : nat -> nat -> R) (db : nat -> R),
         llt_solve QO n Lh b = Some xh /\ length xh = n /\
         (forall r, (r < n)%nat -> rsum (fun k => (symlow n A r k + dA r k) * nth k xh 0) n = nth r b 0 + db r) /\
         (forall r k, (r < n)%nat -> (k < n)%nat ->
            Rabs (dA r k)
            <= gamma eps (3 * n + 1) * rsum (fun i => Rabs (mg n Lh r i) * Rabs (mg n Lh k i)) (S (Nat.min r k))
               + (3 * INR (n + 1) + (2 * Rabs (mg n Lh (Nat.min r k) (Nat.min r k)) + eta)) * (1 + gamma eps (n + 1)) * eta) /\
         (forall r, (r < n)%nat ->
            Rabs (db r)
            <= (3 * INR (S r) + Rabs (mg n Lh r r)) * (1 + gamma eps (S r)) * eta
               + (1 + gamma eps n)
                 * rsum (fun c => Rabs (mg n Lh r c)
                                  * ((3 * INR (n - c) + Rabs (mg n Lh c c)) * (1 + gamma eps (n - c)) * eta)) (S r))).
Proof.
  intros LA Lb H3n Hroom.
  pose proof (eps_ge0 _ _ _ M) as He. pose proof (eta_ge0 _ _ _ M) as Ht.
  assert (Hsmall : forall k, (k <= 3 * n + 1)%nat -> INR k * eps < 1).
  { intros k Hk. apply le_INR in Hk. nra. }
  assert (Hn1 : INR (n + 1) * eps < 1) by (apply Hsmall; lia).
  assert (Hn : INR n * eps < 1) by (apply Hsmall; lia).
  destruct (llt_backward_error_uniform rnd eps eta tiny M tiny_pos n A LA Hn1 Hroom) as (rc & Lh & E & LL & Hrc & P).
  exists rc, Lh. split; [exact E|]. split; [exact LL|]. split; [exact Hrc|]. intros Hz.
  destruct (P Hz) as (Pos & PF).
  assert (Hd : forall r, (r < n)%nat -> mg n Lh r r <> 0) by (intros r Hr; pose proof (Pos r Hr); lra).
  destruct (llt_lower_solve_perturbed rnd eps eta tiny M n Lh b LL Lb Hd Hn) as (yh & dL1 & db1 & E1 & Ly & P1).
  destruct (llt_upper_solve_perturbed rnd eps eta tiny M n Lh yh LL Ly Hd Hn) as (xh & dL2 & db2 & E2 & Lx & P2).
  pose proof (gamma_ge0 _ _ _ M n Hn) as Gn0.
  assert (Gmono : forall k, (k <= n)%nat -> gamma eps k <= gamma eps n) by (intros k Hk; apply (gamma_mono _ _ _ M); auto).
  exists xh, (fun r k => rsum (fun c => (mg n Lh r c + dL1 r c) * (mg n Lh k c + dL2 k c)) (S (Nat.min r k)) - symlow n A r k),
             (fun r => db1 r + rsum (fun c => (mg n Lh r c + dL1 r c) * db2 c) (S r)).
  split; [unfold llt_solve; rewrite E1; exact E2|]. split; [exact Lx|]. split; [|split].
  - (* the computed solution solves the perturbed system exactly *)
    intros r Hr. destruct (P1 r Hr) as (_ & _ & Eq1).
    rewrite (rsum_ext _ (fun k => rsum (fun c => (mg n Lh r c + dL1 r c) * (mg n Lh k c + dL2 k c)) (S (Nat.min r k)) * nth k xh 0))
      by (intros; f_equal; ring).
    pose proof (tri_swap (fun c => mg n Lh r c + dL1 r c) (fun k c => mg n Lh k c + dL2 k c) (fun k => nth k xh 0) r n) as TS.
    cbv beta in TS. rewrite <- TS.
    rewrite (rsum_ext _ (fun c => (mg n Lh r c + dL1 r c) * nth c yh 0 + (mg n Lh r c + dL1 r c) * db2 c)).
    + rewrite rsum_plus, Eq1. ring.
    + intros c Hc. destruct (P2 c ltac:(lia)) as (_ & _ & Eq2). rewrite Eq2. ring.
  - (* the perturbation of the matrix *)
    intros r k Hr Hk. set (m := Nat.min r k).
    set (W := rsum (fun i => Rabs (mg n Lh r i) * Rabs (mg n Lh k i)) (S m)).
    set (LLt := rsum (fun c => mg n Lh r c * mg n Lh k c) (S m)).
    assert (HW : 0 <= W) by (apply rsum_nonneg; intros; apply Rmult_le_pos; apply Rabs_pos).
    (* the two substitutions *)
    assert (B1 : Rabs (rsum (fun c => (mg n Lh r c + dL1 r c) * (mg n Lh k c + dL2 k c)) (S m) - LLt)
                 <= (gamma eps n + gamma eps n + gamma eps n * gamma eps n) * W).
    { unfold LLt. rewrite <- rsum_minus.
      rewrite (rsum_ext _ (fun c => mg n Lh r c * dL2 k c + dL1 r c * mg n Lh k c + dL1 r c * dL2 k c)) by (intros; ring).
      eapply Rle_trans; [apply rsum_abs_le|]. unfold W. rewrite <- rsum_scal. apply rsum_le. intros c Hc.
      destruct (P1 r Hr) as (D1 & _ & _). destruct (P2 c ltac:(lia)) as (D2 & _ & _).
      apply cross_bound; auto.
      - eapply Rle_trans; [apply D1|]. apply Rmult_le_compat_r; [apply Rabs_pos|]. apply Gmono. lia.
      - eapply Rle_trans; [apply D2; lia|]. apply Rmult_le_compat_r; [apply Rabs_pos|]. apply Gmono. lia. }
    (* the factorisation, at the cell (max r k, min r k) that the code reads *)
    assert (B2 : Rabs (symlow n A r k - LLt)
                 <= gamma eps (n + 1) * W
                    + (3 * INR (n + 1) + (2 * Rabs (mg n Lh m m) + eta)) * (1 + gamma eps (n + 1)) * eta).
    { unfold symlow, LLt, W. fold m.
      destruct (le_lt_dec k r) as [Hkr|Hkr].
      - replace (Nat.max r k) with r by lia. replace m with k by lia. apply PF; lia.
      - replace (Nat.max r k) with k by lia. replace m with r by lia.
        rewrite (rsum_ext (fun c => mg n Lh r c * mg n Lh k c) (fun c => mg n Lh k c * mg n Lh r c)) by (intros; ring).
        rewrite (rsum_ext (fun i => Rabs (mg n Lh r i) * Rabs (mg n Lh k i)) (fun i => Rabs (mg n Lh k i) * Rabs (mg n Lh r i)))
          by (intros; ring).
        apply PF; lia. }
    (* gamma_{n+1} + 2 gamma_n + gamma_n^2 <= gamma_{3n+1} *)
    pose proof (gamma_add eps n n He (Hsmall (n + n)%nat ltac:(lia))) as G2.
    pose proof (gamma_add eps (n + 1) (n + n) He (Hsmall (n + 1 + (n + n))%nat ltac:(lia))) as G3.
    replace (n + 1 + (n + n))%nat with (3 * n + 1)%nat in G3 by lia.
    pose proof (gamma_ge0 _ _ _ M (n + 1) Hn1) as Gn1. pose proof (gamma_ge0 _ _ _ M (n + n) (Hsmall (n + n)%nat ltac:(lia))) as Gnn.
    assert (G4 : gamma eps (n + 1) + (gamma eps n + gamma eps n + gamma eps n * gamma eps n) <= gamma eps (3 * n + 1)) by nra.
    match goal with |- Rabs (?T - ?S) <= _ => replace (T - S) with ((T - LLt) - (S - LLt)) by ring end.
    eapply Rle_trans; [apply Rabs_triang|]. rewrite Rabs_Ropp.
    assert (gamma eps (n + 1) * W + (gamma eps n + gamma eps n + gamma eps n * gamma eps n) * W <= gamma eps (3 * n + 1) * W).
    { rewrite <- Rmult_plus_distr_r. apply Rmult_le_compat_r; [exact HW|exact G4]. }
    lra.
  - (* the perturbation of the right-hand side *)
    intros r Hr. destruct (P1 r Hr) as (D1 & B1 & _).
    eapply Rle_trans; [apply Rabs_triang|]. apply Rplus_le_compat; [exact B1|].
    eapply Rle_trans; [apply rsum_abs_le|]. rewrite <- rsum_scal. apply rsum_le. intros c Hc.
    destruct (P2 c ltac:(lia)) as (_ & B2 & _).
    rewrite Rabs_mult.
    assert (Rabs (mg n Lh r c + dL1 r c) <= (1 + gamma eps n) * Rabs (mg n Lh r c)).
    { eapply Rle_trans; [apply Rabs_triang|]. specialize (D1 c).
      assert (gamma eps (S r) * Rabs (mg n Lh r c) <= gamma eps n * Rabs (mg n Lh r c)).
      { apply Rmult_le_compat_r; [apply Rabs_pos|]. apply Gmono. lia. }
      lra. }
    rewrite <- Rmult_assoc. apply Rmult_le_compat; try apply Rabs_pos; assumption.
Qed.

End LltEndToEnd.

(* ------------------------------------------------------------------------------------ non-vacuity
   The hypotheses are met by a rounding that is NOT exact, rnd v = v (1 + 1/8)  (std_model_scale: eps = 1/8,
   eta = 0), tiny = 1, on 2 x 2 matrices on which the rounded run succeeds; the computed factors are not the exact
   ones, the residuals are not zero and lie below the proved bounds. *)
Lemma sqrt_4 : R_sqrt.sqrt 4 = 2.
Proof. replace 4 with (2 * 2) by lra. apply sqrt_square. lra. Qed.
Lemma sqrt_9_4 : R_sqrt.sqrt (9 / 4) = 3 / 2.
Proof. replace (9 / 4) with (3 / 2 * (3 / 2)) by lra. apply sqrt_square. lra. Qed.
Lemma gamma8_1 : gamma (/ 8) 1 = / 7. Proof. unfold gamma; simpl; field. Qed.
Lemma gamma8_2 : gamma (/ 8) 2 = / 3. Proof. unfold gamma; simpl; field. Qed.
Lemma gamma8_3 : gamma (/ 8) 3 = 3 / 5. Proof. unfold gamma; simpl; field. Qed.

(* Cholesky of [4 2; 2 25/8]: L^ = [9/4 0; 1 27/16]  (exact factor: [2 0; 1 sqrt(17/8)]).
   Residual of cell (1,0): 2 - l10 l00 = -1/4, bound gamma_1 |l10||l00| = 9/28;
   residual of cell (1,1): 25/8 - (l10^2 + l11^2) = -185/256, bound gamma_3 (l10^2 + l11^2) = 591/256. *)
Example llt_2x2_scale :
  exists l00 l10 l11,
    llt (Rnd8_ops (fun v => v * (1 + / 8)) 1) 2 [4; 2; 2; 25 / 8] = Some (0%nat, [l00; 2; l10; l11]) /\
    l00 = 9 / 4 /\ l10 = 1 /\ l11 = 27 / 16 /\
    INR (2 + 1) * / 8 < 1 /\ 0 * 0 < (1 - / 8) * (1 - / 8) * 1 /\
    2 - l10 * l00 = - (1 / 4) /\
    Rabs (2 - l10 * l00) <= gamma (/ 8) 1 * (Rabs l10 * Rabs l00) /\
    25 / 8 - (l10 * l10 + l11 * l11) = - (185 / 256) /\
    Rabs (25 / 8 - (l10 * l10 + l11 * l11)) <= gamma (/ 8) 3 * (Rabs l10 * Rabs l10 + Rabs l11 * Rabs l11).
Proof.
  eexists. eexists. eexists. split.
  - cbn. destruct (Rlt_dec 4 1) as [L|_]; [exfalso; lra|].
    cbn. rewrite sqrt_4.
    match goal with |- context [Rlt_dec ?a 1] => replace a with (9 / 4) by field end.
    destruct (Rlt_dec (9 / 4) 1) as [L|_]; [exfalso; lra|].
    cbn. rewrite sqrt_9_4. reflexivity.
  - assert (E0 : 2 * (1 + / 8) = 9 / 4) by field.
    assert (E1 : 2 / (9 / 4) * (1 + / 8) = 1) by field.
    assert (E2 : 3 / 2 * (1 + / 8) = 27 / 16) by field.
    rewrite E0, E1, E2, gamma8_1, gamma8_3.
    repeat split; try lra; try (simpl; lra).
    + replace (2 - 1 * (9 / 4)) with (- (1 / 4)) by field.
      rewrite Rabs_Ropp, !Rabs_pos_eq by lra. lra.
    + replace (25 / 8 - (1 * 1 + 27 / 16 * (27 / 16))) with (- (185 / 256)) by field.
      rewrite Rabs_Ropp, !Rabs_pos_eq by lra. lra.
Qed.

(* LDL^T of [4 2; 2 3]: d0 = 4, l10 = 9/16 (exact 1/2), d1 = 51543/32768 (exact 2).
   Residual of cell (1,0): 2 - l10 d0 = -1/4, bound gamma_2 |l10 d0| = 3/4;
   residual of cell (1,1): 3 - (l10^2 d0 + d1) = 5289/32768, bound gamma_2 (l10^2 d0 + d1). *)
Example ldl_2x2_scale :
  exists l10 d1,
    ldl (Rnd8_ops (fun v => v * (1 + / 8)) 1) 2 [4; 2; 2; 3] = Some (0%nat, [4; 2; l10; d1]) /\
    l10 = 9 / 16 /\ d1 = 51543 / 32768 /\
    INR 2 * / 8 < 1 /\
    2 - l10 * 4 = - (1 / 4) /\
    Rabs (2 - l10 * 4) <= gamma (/ 8) 2 * Rabs (l10 * 4) /\
    3 - (l10 * l10 * 4 + d1) = 5289 / 32768 /\
    Rabs (3 - (l10 * l10 * 4 + d1)) <= gamma (/ 8) 2 * (Rabs (l10 * l10 * 4) + Rabs d1).
Proof.
  eexists. eexists. split.
  - cbn. destruct (Rlt_dec (Rabs 4) 1) as [L|_]; [exfalso; rewrite Rabs_pos_eq in L; lra|].
    cbn.
    match goal with |- context [Rlt_dec (Rabs ?a) 1] => replace a with (51543 / 32768) by field end.
    destruct (Rlt_dec _ 1) as [L|_]; [exfalso; rewrite Rabs_pos_eq in L; lra|].
    reflexivity.
  - assert (E0 : 2 / 4 * (1 + / 8) = 9 / 16) by field.
    rewrite E0, gamma8_2.
    repeat split; try lra; try (simpl; lra).
    + replace (2 - 9 / 16 * 4) with (- (1 / 4)) by field.
      rewrite Rabs_Ropp, !Rabs_pos_eq by lra. lra.
    + rewrite !Rabs_pos_eq by lra. lra.
Qed.

(* PLU of [1 2; 4 3]: the rows are exchanged (p = [1; 0], sign = -1), l10 = 9/32 (exact 1/4), u11 = 2421/2048
   (exact 5/4).  Residual of cell (1,0): a(p1,0) - l10 u00 = 1 - 9/8 = -1/8, bound gamma_1 |l10||u00| = 9/56;
   residual of cell (1,1): a(p1,1) - (l10 u01 + u11) = 2 - 4149/2048 = -53/2048, bound gamma_1 (|l10||u01| + |u11|). *)
Example plu_2x2_scale :
  exists l10 u11,
    plu (Rnd8_ops (fun v => v * (1 + / 8)) 1) 2 [1; 2; 4; 3] [7%nat; 7%nat]
    = Some (0%nat, {| pA := [4; 3; l10; u11]; pp := [1%nat; 0%nat]; psign := (-1)%Z |}) /\
    l10 = 9 / 32 /\ u11 = 2421 / 2048 /\
    INR 2 * / 8 < 1 /\
    1 - l10 * 4 = - (1 / 8) /\
    Rabs (1 - l10 * 4) <= gamma (/ 8) 1 * (Rabs l10 * Rabs 4) /\
    2 - (l10 * 3 + u11) = - (53 / 2048) /\
    Rabs (2 - (l10 * 3 + u11)) <= gamma (/ 8) 1 * (Rabs l10 * Rabs 3 + Rabs u11) /\
    Rabs l10 <= 1.
Proof.
  eexists. eexists. split.
  - cbn. destruct (Rlt_dec (Rabs 1) (Rabs 4)) as [_|L]; [|exfalso; apply L; rewrite !Rabs_pos_eq; lra].
    cbn. destruct (Rlt_dec (Rabs 4) 1) as [L|_]; [exfalso; rewrite Rabs_pos_eq in L; lra|].
    cbn.
    match goal with |- context [Rlt_dec (Rabs ?a) 1] => replace a with (2421 / 2048) by field end.
    destruct (Rlt_dec _ 1) as [L|_]; [exfalso; rewrite Rabs_pos_eq in L; lra|].
    cbn. reflexivity.
  - assert (E0 : 1 / 4 * (1 + / 8) = 9 / 32) by field.
    rewrite E0, gamma8_1.
    repeat split; try lra; try (simpl; lra).
    + replace (1 - 9 / 32 * 4) with (- (1 / 8)) by field.
      rewrite Rabs_Ropp, !Rabs_pos_eq by lra. lra.
    + replace (2 - (9 / 32 * 3 + 2421 / 2048)) with (- (53 / 2048)) by field.
      rewrite Rabs_Ropp, !Rabs_pos_eq by lra. lra.
    + rewrite Rabs_pos_eq by lra. lra.
Qed.

(* the end-to-end theorem on the Cholesky example above with b = (1, 1): (3n+1) eps = 7/8 < 1, the rounded run succeeds,
   so the computed solution of a_real_llt_solve solves a perturbed system exactly *)
Example llt_end_to_end_2x2_scale :
  exists xh (dA : nat -> nat -> R) (db : nat -> R),
    llt_solve (Rnd8_ops (fun v => v * (1 + / 8)) 1) 2 [9 / 4; 2; 1; 27 / 16] [1; 1] = Some xh /\ length xh = 2%nat /\
    (forall r, (r < 2)%nat ->
       rsum (fun k => (symlow 2 [4; 2; 2; 25 / 8] r k + dA r k) * nth k xh 0) 2 = nth r [1; 1] 0 + db r) /\
    (forall r k, (r < 2)%nat -> (k < 2)%nat ->
       Rabs (dA r k) <= gamma (/ 8) 7 * rsum (fun i => Rabs (mg 2 [9 / 4; 2; 1; 27 / 16] r i) * Rabs (mg 2 [9 / 4; 2; 1; 27 / 16] k i))
                                          (S (Nat.min r k))) /\
    (forall r, (r < 2)%nat -> db r = 0).
Proof.
  destruct llt_2x2_scale as (l00 & l10 & l11 & E & -> & -> & -> & _).
  assert (H7 : INR (3 * 2 + 1) * / 8 < 1) by (simpl; lra).
  assert (Hroom : 0 * 0 < (1 - / 8) * (1 - / 8) * 1) by lra.
  destruct (llt_solve_end_to_end _ _ _ 1 std_model_scale Rlt_0_1 2 [4; 2; 2; 25 / 8] [1; 1] eq_refl eq_refl H7 Hroom)
    as (rc & Lh & E' & _ & _ & P).
  rewrite E in E'. injection E' as <- <-.
  destruct (P eq_refl) as (xh & dA & db & Es & Lx & Eq & BA & Bb).
  exists xh, dA, db. split; [exact Es|]. split; [exact Lx|]. split; [exact Eq|]. split.
  - intros r k Hr Hk. specialize (BA r k Hr Hk). rewrite Rmult_0_r, Rplus_0_r in BA. exact BA.
  - intros r Hr. specialize (Bb r Hr).
    rewrite Rmult_0_r, Rplus_0_l in Bb.
    rewrite (rsum_zero _ (S r)) in Bb by (intros; ring). rewrite Rmult_0_r in Bb.
    pose proof (Rabs_pos (db r)). destruct (Req_dec (db r) 0) as [Z|Z]; [exact Z|]. apply Rabs_pos_lt in Z. lra.
Qed.
