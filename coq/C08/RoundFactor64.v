(* C08: the factorisation backward-error theorems of RoundFactor.v at IEEE binary64 round-to-nearest-even
   (rnd64 of Common/RoundFlocq.v: std_model rnd64 2^-53 2^-1075, mono_rnd rnd64, both proved from Flocq).

   Reading (as in RoundSolve64.v): [Rnd8_ops rnd64 tiny] performs every operation exactly and rounds the result to
   binary64 with gradual underflow and NO overflow threshold.  Coq's primitive-float operations (the F64_ops instance
   that is compared bit for bit with the C code) return exactly that value as long as the rounded result stays below
   2^1024 (RoundFlocq.prim_*_rnd64); a run of the C routine in which no intermediate overflows or is NaN therefore
   computes the factors of these theorems.  That last step is an assumption here, not a theorem.
   tiny is A_REAL_MIN = DBL_MIN = 2^-1022 in the C; the theorems hold for every tiny > 0 with
   eta64^2 < (1 - eps64)^2 tiny (needed only by Cholesky, so that the rounded square root of a pivot >= tiny is not 0);
   [room64_dbl_min] checks it for 2^-1022. *)
From Coq Require Import ZArith List Reals Lia Lra Permutation.
From Flocq Require Import Core.
From LibaV Require Import Common.RoundOps Common.RoundFlocq Common.RoundMono.
From LibaV Require Import C08.NumOps C08.FactorDefs C08.Instances C08.Base C08.PermProofs C08.RoundSolve C08.RoundSolve64
  C08.RoundFactor.
Local Open Scope R_scope.

Definition dbl_min : R := bpow radix2 (-1022).

Lemma dbl_min_pos : 0 < dbl_min.
Proof. apply bpow_gt_0. Qed.

(* eta64^2 = 2^-2150 < 2^-1024 = 2^-2 2^-1022 <= (1 - 2^-53)^2 2^-1022 *)
Lemma room64_dbl_min : eta64 * eta64 < (1 - eps64) * (1 - eps64) * dbl_min.
Proof.
  unfold eta64, dbl_min. rewrite <- bpow_plus.
  assert (H1 : bpow radix2 (-1075 + -1075) < bpow radix2 (-2 + -1022)) by (apply bpow_lt; lia).
  rewrite (bpow_plus radix2 (-2) (-1022)) in H1. change (bpow radix2 (-2)) with (/ 4) in H1.
  pose proof (bpow_gt_0 radix2 (-1022)) as Hp.
  assert (He : eps64 <= / 2) by (rewrite eps64_val; lra).
  assert (H2 : / 4 <= (1 - eps64) * (1 - eps64)) by nra.
  assert (H3 : / 4 * bpow radix2 (-1022) <= (1 - eps64) * (1 - eps64) * bpow radix2 (-1022)).
  { apply Rmult_le_compat_r; lra. }
  lra.
Qed.

(* Cholesky: |A - L^ L^^T| <= gamma_{n+1} |L^||L^|^T + O(n) eta64 on the triangle the code reads, u = 2^-53 *)
Theorem llt_backward_error_binary64 tiny n (A : list R) :
  0 < tiny -> eta64 * eta64 < (1 - eps64) * (1 - eps64) * tiny ->
  length A = (n * n)%nat -> (Z.of_nat (n + 1) < 2 ^ 53)%Z ->
  exists rc Lh, llt (Rnd8_ops rnd64 tiny) n A = Some (rc, Lh) /\ length Lh = (n * n)%nat /\ (rc = 0%nat \/ rc = 1%nat) /\
    (rc = 0%nat ->
       (forall c, (c < n)%nat -> 0 < mg n Lh c c) /\
       (forall r c, (c <= r)%nat -> (r < n)%nat ->
          Rabs (mg n A r c - rsum (fun i => mg n Lh r i * mg n Lh c i) (S c))
          <= gamma eps64 (n + 1) * rsum (fun i => Rabs (mg n Lh r i) * Rabs (mg n Lh c i)) (S c)
             + (3 * INR (n + 1) + (2 * Rabs (mg n Lh c c) + eta64)) * (1 + gamma eps64 (n + 1)) * eta64)).
Proof.
  intros Ht Hroom LA Hn.
  exact (llt_backward_error_uniform rnd64 eps64 eta64 tiny std_model_binary64 Ht n A LA (small_n64 _ Hn) Hroom).
Qed.

(* LDL^T: |A - L^ D^ L^^T| <= gamma_n |L^||D^||L^|^T + O(n + sum |d_i|) eta64 *)
Theorem ldl_backward_error_binary64 tiny n (A : list R) :
  0 < tiny -> length A = (n * n)%nat -> (Z.of_nat n < 2 ^ 53)%Z ->
  exists rc Mh, ldl (Rnd8_ops rnd64 tiny) n A = Some (rc, Mh) /\ length Mh = (n * n)%nat /\ (rc = 0%nat \/ rc = 1%nat) /\
    (rc = 0%nat ->
       (forall c, (c < n)%nat -> tiny <= Rabs (mg n Mh c c)) /\
       (forall r c, (c <= r)%nat -> (r < n)%nat ->
          Rabs (mg n A r c - ldlt_cell (mg n Mh) r c)
          <= gamma eps64 n * ldlt_abs_cell (mg n Mh) r c
             + (3 * INR n + rsum (fun i => Rabs (mg n Mh i i)) (S c)) * (1 + gamma eps64 n) * eta64)).
Proof.
  intros Ht LA Hn.
  exact (ldl_backward_error_uniform rnd64 eps64 eta64 tiny std_model_binary64 Ht n A LA (small_n64 _ Hn)).
Qed.

(* PLU with partial pivoting: |P A - L^ U^| <= gamma_n |L^||U^| + O(n) eta64, and |l_rc| <= 1 EXACTLY
   (round to nearest even is monotone and fixes 1) *)
Theorem plu_backward_error_binary64 tiny n (A : list R) (p0 : list nat) :
  0 < tiny -> length A = (n * n)%nat -> length p0 = n -> (Z.of_nat n < 2 ^ 53)%Z ->
  exists rc st, plu (Rnd8_ops rnd64 tiny) n A p0 = Some (rc, st) /\ length (pA st) = (n * n)%nat /\ length (pp st) = n /\
    (rc = 0%nat \/ rc = 1%nat) /\
    (rc = 0%nat ->
       Permutation (pp st) (seq 0 n) /\ psign st = perm_sign (pp st) /\
       (forall c, (c < n)%nat -> tiny <= Rabs (mg n (pA st) c c)) /\
       (forall r c, (c < r)%nat -> (r < n)%nat -> Rabs (mg n (pA st) r c) <= 1) /\
       (forall r c, (r < n)%nat -> (c < n)%nat ->
          Rabs (mg n A (nth r (pp st) 0%nat) c - lu_cell (mg n (pA st)) r c)
          <= gamma eps64 n * lu_abs_cell (mg n (pA st)) r c
             + (3 * INR n + Rabs (mg n (pA st) c c)) * (1 + gamma eps64 n) * eta64)).
Proof.
  intros Ht LA Lp Hn.
  destruct (plu_backward_error_uniform rnd64 eps64 eta64 tiny std_model_binary64 Ht n A p0 LA Lp (small_n64 _ Hn))
    as (rc & st & E & L1 & L2 & Hrc & P).
  destruct (plu_multipliers_mono rnd64 tiny n A p0 mono_rnd_binary64 Ht LA Lp) as (rc' & st' & E' & _ & Pm).
  rewrite E in E'. injection E' as <- <-.
  exists rc, st. split; [exact E|]. split; [exact L1|]. split; [exact L2|]. split; [exact Hrc|]. intros Hz.
  destruct (P Hz) as (Pp & Sg & Do & _ & PB).
  split; [exact Pp|]. split; [exact Sg|]. split; [exact Do|]. split; [exact (Pm Hz)|exact PB].
Qed.

(* Cholesky factorisation + solve in one statement: (A + dA) x^ = b + db exactly, |dA| <= gamma_{3n+1} |L^||L^|^T + O(n) eta64 *)
Theorem llt_solve_end_to_end_binary64 tiny n (A b : list R) :
  0 < tiny -> eta64 * eta64 < (1 - eps64) * (1 - eps64) * tiny ->
  length A = (n * n)%nat -> length b = n -> (Z.of_nat (3 * n + 1) < 2 ^ 53)%Z ->
  exists rc Lh, llt (Rnd8_ops rnd64 tiny) n A = Some (rc, Lh) /\ length Lh = (n * n)%nat /\ (rc = 0%nat \/ rc = 1%nat) /\
    (rc = 0%nat ->
       exists xh (dA : nat -> nat -> R) (db : nat -> R),
         llt_solve (Rnd8_ops rnd64 tiny) n Lh b = Some xh /\ length xh = n /\
         (forall r, (r < n)%nat -> rsum (fun k => (symlow n A r k + dA r k) * nth k xh 0) n = nth r b 0 + db r) /\
         (forall r k, (r < n)%nat -> (k < n)%nat ->
            Rabs (dA r k)
            <= gamma eps64 (3 * n + 1) * rsum (fun i => Rabs (mg n Lh r i) * Rabs (mg n Lh k i)) (S (Nat.min r k))
               + (3 * INR (n + 1) + (2 * Rabs (mg n Lh (Nat.min r k) (Nat.min r k)) + eta64)) * (1 + gamma eps64 (n + 1)) * eta64) /\
         (forall r, (r < n)%nat ->
            Rabs (db r)
            <= (3 * INR (S r) + Rabs (mg n Lh r r)) * (1 + gamma eps64 (S r)) * eta64
               + (1 + gamma eps64 n)
                 * rsum (fun c => Rabs (mg n Lh r c)
                                  * ((3 * INR (n - c) + Rabs (mg n Lh c c)) * (1 + gamma eps64 (n - c)) * eta64)) (S r))).
Proof.
  intros Ht Hroom LA Lb Hn.
  exact (llt_solve_end_to_end rnd64 eps64 eta64 tiny std_model_binary64 Ht n A b LA Lb (small_n64 _ Hn) Hroom).
Qed.

(* the hypotheses at the C's threshold A_REAL_MIN = DBL_MIN and a concrete order: n = 1000 gives gamma_{n+1} < 1.2e-13 *)
Example llt_binary64_dbl_min_1000 (A : list R) :
  length A = (1000 * 1000)%nat ->
  exists rc Lh, llt (Rnd8_ops rnd64 dbl_min) 1000 A = Some (rc, Lh) /\ (rc = 0%nat \/ rc = 1%nat) /\
    (rc = 0%nat -> forall r c, (c <= r)%nat -> (r < 1000)%nat ->
       Rabs (mg 1000 A r c - rsum (fun i => mg 1000 Lh r i * mg 1000 Lh c i) (S c))
       <= gamma eps64 1001 * rsum (fun i => Rabs (mg 1000 Lh r i) * Rabs (mg 1000 Lh c i)) (S c)
          + (3 * INR 1001 + (2 * Rabs (mg 1000 Lh c c) + eta64)) * (1 + gamma eps64 1001) * eta64).
Proof.
  intros LA.
  destruct (llt_backward_error_binary64 dbl_min 1000 A dbl_min_pos room64_dbl_min LA) as (rc & Lh & E & _ & Hrc & P).
  { apply Z.ltb_lt. vm_compute. reflexivity. }
  exists rc, Lh. split; [exact E|]. split; [exact Hrc|]. intros Hz. exact (proj2 (P Hz)).
Qed.

Example gamma64_1001 : gamma eps64 1001 <= 12 / 100000000000000.
Proof.
  unfold gamma. rewrite eps64_val. replace (INR 1001) with 1001 by (rewrite INR_IZR_INZ; reflexivity).
  apply (Rmult_le_reg_r (1 - 1001 * / 9007199254740992)); [lra|].
  unfold Rdiv. rewrite Rmult_assoc, Rinv_l by lra. lra.
Qed.
