(* C08: a_real_ldl and a_real_llt over R - loop invariants and reconstruction.

   LDL, after the columns < k are done (state M, input a0; only the lower triangle is read):
       for c < k, c <= r :  a0(r,c) = sum_{i<c} M(r,i) M(c,i) M(i,i) + (if r = c then M(c,c) else M(r,c) M(c,c))
       |M(c,c)| >= tiny for c < k;   all other cells (columns >= k, upper triangle) still equal a0.
   LLT, after the rows < k are done:
       for r < k, c <= r :  a0(r,c) = sum_{i<=c} M(r,i) M(c,i),   M(r,r) > 0;
       all other cells (rows >= k, upper triangle) still equal a0. *)
From Coq Require Import ZArith List Reals Lia Lra Psatz Bool.
From LibaV Require Import C08.NumOps C08.FactorDefs C08.Instances C08.Base C08.PluSteps.
Import ListNotations.
Local Open Scope R_scope.

Section Cells.
Variable tiny : R.
Let RO := R_ops tiny.
Variable n : nat.

(* two arrays agree everywhere except (possibly) at cell (r,c) *)
Definition agree_off (r c : nat) (A A' : list R) : Prop :=
  forall r' c', (r' < n)%nat -> (c' < n)%nat -> (r' <> r \/ c' <> c) -> mg n A' r' c' = mg n A r' c'.

(* X[r][c] -= gv(i), i = 0..k-1, where the loop body reads only cells other than (r,c) *)
Lemma acc_loop (A : list R) r c k (body : nat -> list R -> option (list R)) (gv : nat -> R) :
  length A = (n * n)%nat -> (r < n)%nat -> (c < n)%nat ->
  (forall i A', (i < k)%nat -> length A' = (n * n)%nat -> agree_off r c A A' ->
     body i A' = Some (upd A' (n * r + c) (mg n A' r c - gv i))) ->
  exists A', for_range 0 k body A = Some A' /\ length A' = (n * n)%nat /\
    forall r' c', (r' < n)%nat -> (c' < n)%nat ->
      mg n A' r' c' = if (Nat.eqb r' r && Nat.eqb c' c)%bool then mg n A r c - rsum gv k else mg n A r' c'.
Proof.
  intros LA Hr Hc Hbody.
  destruct (for_range_inv
              (fun j (A' : list R) => length A' = (n * n)%nat /\
                 forall r' c', (r' < n)%nat -> (c' < n)%nat ->
                   mg n A' r' c' = if (Nat.eqb r' r && Nat.eqb c' c)%bool then mg n A r c - rsum gv j else mg n A r' c')
              0 k body A) as (A' & E & P).
  - lia.
  - split; auto. intros r' c' _ _. simpl. destruct (Nat.eqb_spec r' r), (Nat.eqb_spec c' c); simpl; subst; auto; lra.
  - intros j A1 [_ Hj] [L1 P1].
    rewrite Hbody; auto.
    + eexists. split; [reflexivity|]. split; [now rewrite upd_length|].
      intros r' c' Hr' Hc'. rewrite mg_upd by auto. rewrite !P1 by auto.
      rewrite !Nat.eqb_refl. simpl.
      destruct (Nat.eqb r' r && Nat.eqb c' c)%bool; [lra|reflexivity].
    + intros r' c' Hr' Hc' N. rewrite P1 by auto.
      destruct (Nat.eqb_spec r' r), (Nat.eqb_spec c' c); simpl; auto. lia.
  - exists A'. split; [exact E|]. exact P.
Qed.

(* X[r][c] /= X[r2][c2] *)
Lemma cell_div (A : list R) r c r2 c2 :
  length A = (n * n)%nat -> (r < n)%nat -> (c < n)%nat -> (r2 < n)%nat -> (c2 < n)%nat ->
  exists A', (do a <- rd A (n * r + c); do d <- rd A (n * r2 + c2); wr A (n * r + c) (div RO a d)) = Some A' /\
    length A' = (n * n)%nat /\
    forall r' c', (r' < n)%nat -> (c' < n)%nat ->
      mg n A' r' c' = if (Nat.eqb r' r && Nat.eqb c' c)%bool then mg n A r c / mg n A r2 c2 else mg n A r' c'.
Proof.
  intros LA Hr Hc Hr2 Hc2. rewrite !(rd_mg n) by auto. rewrite (wr_mg n) by auto.
  eexists. split; [reflexivity|]. split; [now rewrite upd_length|].
  intros r' c' Hr' Hc'. now rewrite mg_upd by auto.
Qed.

End Cells.

(* ================================================================================ LDL *)
Section Ldl.
Variable tiny : R.
Hypothesis tiny_pos : 0 < tiny.
Let RO := R_ops tiny.
Variable n : nat.

(* the sum subtracted from cell (r,c) *)
Definition ldl_dot (m : nat -> nat -> R) (r c : nat) : R := rsum (fun i => m r i * m c i * m i i) c.

(* linalg_ldl.c:10-13 *)
Lemma ldl_diag_loop A c :
  length A = (n * n)%nat -> (c < n)%nat ->
  exists A1,
    for_range 0 c (fun i A =>
      do acc <- rd A (n * c + c); do aci <- rd A (n * c + i); do d <- rd A (n * i + i);
      wr A (n * c + c) (sub RO acc (mul RO (mul RO aci aci) d))) A = Some A1 /\
    length A1 = (n * n)%nat /\
    forall r' c', (r' < n)%nat -> (c' < n)%nat ->
      mg n A1 r' c' = if (Nat.eqb r' c && Nat.eqb c' c)%bool then mg n A c c - ldl_dot (mg n A) c c else mg n A r' c'.
Proof.
  intros LA Hc.
  apply (acc_loop n A c c c _ (fun i => mg n A c i * mg n A c i * mg n A i i)); auto.
  intros i A' Hi L' Ag.
  rewrite !(rd_mg n) by (auto; lia). rewrite (wr_mg n) by auto.
  rewrite (Ag c i), (Ag i i) by (auto; lia). reflexivity.
Qed.

(* linalg_ldl.c:17-22, one row below the diagonal *)
Lemma ldl_row A c r :
  length A = (n * n)%nat -> (c < r)%nat -> (r < n)%nat ->
  exists A2,
    (do A' <- for_range 0 c (fun i A =>
                do arc <- rd A (n * r + c); do ari <- rd A (n * r + i);
                do aci <- rd A (n * c + i); do d <- rd A (n * i + i);
                wr A (n * r + c) (sub RO arc (mul RO (mul RO ari aci) d))) A;
     do arc <- rd A' (n * r + c); do acc <- rd A' (n * c + c);
     wr A' (n * r + c) (div RO arc acc)) = Some A2 /\
    length A2 = (n * n)%nat /\
    forall r' c', (r' < n)%nat -> (c' < n)%nat ->
      mg n A2 r' c' = if (Nat.eqb r' r && Nat.eqb c' c)%bool
                      then (mg n A r c - ldl_dot (mg n A) r c) / mg n A c c else mg n A r' c'.
Proof.
  intros LA Hcr Hr.
  destruct (acc_loop n A r c c
              (fun i A => do arc <- rd A (n * r + c); do ari <- rd A (n * r + i);
                          do aci <- rd A (n * c + i); do d <- rd A (n * i + i);
                          wr A (n * r + c) (sub RO arc (mul RO (mul RO ari aci) d)))
              (fun i => mg n A r i * mg n A c i * mg n A i i)) as (A1 & E1 & L1 & P1); auto; try lia.
  { intros i A' Hi L' Ag.
    rewrite !(rd_mg n) by (auto; lia). rewrite (wr_mg n) by (auto; lia).
    rewrite (Ag r i), (Ag c i), (Ag i i) by (auto; lia). reflexivity. }
  rewrite E1.
  destruct (cell_div tiny n A1 r c c c) as (A2 & E2 & L2 & P2); auto; try lia.
  exists A2. split; [exact E2|]. split; auto.
  intros r' c' Hr' Hc'. rewrite P2 by auto. rewrite !P1 by (auto; lia).
  unfold ldl_dot. bcase.
Qed.

(* linalg_ldl.c:15-23, all rows below the diagonal *)
Lemma ldl_rows A c :
  length A = (n * n)%nat -> (c < n)%nat ->
  exists A2,
    for_range (c + 1) n (fun r A =>
      do A' <- for_range 0 c (fun i A =>
                 do arc <- rd A (n * r + c); do ari <- rd A (n * r + i);
                 do aci <- rd A (n * c + i); do d <- rd A (n * i + i);
                 wr A (n * r + c) (sub RO arc (mul RO (mul RO ari aci) d))) A;
      do arc <- rd A' (n * r + c); do acc <- rd A' (n * c + c);
      wr A' (n * r + c) (div RO arc acc)) A = Some A2 /\
    length A2 = (n * n)%nat /\
    forall r' c', (r' < n)%nat -> (c' < n)%nat ->
      mg n A2 r' c' = if (Nat.ltb c r' && Nat.eqb c' c)%bool
                      then (mg n A r' c - ldl_dot (mg n A) r' c) / mg n A c c else mg n A r' c'.
Proof.
  intros LA Hc.
  destruct (for_range_inv
              (fun k (A' : list R) => length A' = (n * n)%nat /\
                 forall r' c', (r' < n)%nat -> (c' < n)%nat ->
                   mg n A' r' c' = if (Nat.ltb c r' && Nat.ltb r' k && Nat.eqb c' c)%bool
                                   then (mg n A r' c - ldl_dot (mg n A) r' c) / mg n A c c else mg n A r' c')
              (c + 1) n
              (fun r A =>
                 do A' <- for_range 0 c (fun i A =>
                            do arc <- rd A (n * r + c); do ari <- rd A (n * r + i);
                            do aci <- rd A (n * c + i); do d <- rd A (n * i + i);
                            wr A (n * r + c) (sub RO arc (mul RO (mul RO ari aci) d))) A;
                 do arc <- rd A' (n * r + c); do acc <- rd A' (n * c + c);
                 wr A' (n * r + c) (div RO arc acc)) A) as (A2 & E & L2 & P2).
  - lia.
  - split; auto. intros r' c' _ _. bcase.
  - intros k A1 Hk [L1 P1].
    destruct (ldl_row A1 c k L1) as (A2 & E2 & L2 & P2); try lia.
    exists A2. split; [exact E2|]. split; auto.
    intros r' c' Hr' Hc'. rewrite P2 by auto. rewrite !P1 by (auto; lia).
    assert (Hdot : ldl_dot (mg n A1) k c = ldl_dot (mg n A) k c).
    { unfold ldl_dot. apply rsum_ext. intros i Hi. rewrite !P1 by (auto; lia). bcase. }
    rewrite Hdot. bcase.
  - exists A2. split; [exact E|]. split; auto.
    intros r' c' Hr' Hc'. rewrite P2 by auto. bcase.
Qed.

(* ---- the invariant ---- *)
Variable a0 : nat -> nat -> R.

Definition LdlInv (k : nat) (M : list R) : Prop :=
  length M = (n * n)%nat /\
  (forall r c, (c < k)%nat -> (c <= r)%nat -> (r < n)%nat ->
     a0 r c = ldl_dot (mg n M) r c + (if Nat.eqb r c then mg n M c c else mg n M r c * mg n M c c)) /\
  (forall c, (c < k)%nat -> (c < n)%nat -> tiny <= Rabs (mg n M c c)) /\
  (forall r c, (r < n)%nat -> (c < n)%nat -> (k <= c \/ r < c)%nat -> mg n M r c = a0 r c).

Lemma ldl_step_spec c M :
  (c < n)%nat -> LdlInv c M ->
  exists rc M', ldl_step RO n c M = Some (rc, M') /\
    ((rc = 0%nat /\ LdlInv (S c) M') \/
     (rc = 1%nat /\ length M' = (n * n)%nat /\ Rabs (a0 c c - ldl_dot (mg n M) c c) < tiny)).
Proof.
  intros Hc (LM & I1 & I2 & I3). unfold ldl_step.
  destruct (ldl_diag_loop M c LM Hc) as (A1 & E1 & L1 & P1). rewrite E1.
  rewrite (rd_mg n) by auto.
  assert (Hcc : mg n A1 c c = a0 c c - ldl_dot (mg n M) c c).
  { rewrite P1 by auto. rewrite !Nat.eqb_refl. simpl. rewrite (I3 c c) by (auto; lia). reflexivity. }
  unfold RO; simpl.
  destruct (Rlt_dec (Rabs (mg n A1 c c)) tiny) as [Lt|NLt].
  - exists 1%nat, A1. split; auto. right. repeat split; auto. now rewrite <- Hcc.
  - destruct (ldl_rows A1 c L1 Hc) as (A2 & E2 & L2 & P2).
    unfold RO in E2; simpl in E2. rewrite E2.
    exists 0%nat, A2. split; auto. left. split; auto.
    assert (Nz : mg n A1 c c <> 0).
    { intros Z. rewrite Z, Rabs_R0 in NLt. lra. }
    (* cells of the finished columns and of row c left of the diagonal did not change *)
    assert (Hold : forall r' c', (r' < n)%nat -> (c' < n)%nat -> (c' < c)%nat -> mg n A2 r' c' = mg n M r' c').
    { intros r' c' Hr' Hc' Hlt. rewrite P2 by auto. bcase; rewrite P1 by auto; bcase. }
    assert (Hdiag : forall i, (i < c)%nat -> mg n A2 i i = mg n M i i).
    { intros i Hi. apply Hold; lia. }
    assert (Hdot : forall r', (r' < n)%nat -> ldl_dot (mg n A2) r' c = ldl_dot (mg n M) r' c).
    { intros r' Hr'. unfold ldl_dot. apply rsum_ext. intros i Hi.
      rewrite (Hold r' i), (Hold c i), (Hdiag i) by lia. reflexivity. }
    assert (Hdot1 : forall r', (r' < n)%nat -> ldl_dot (mg n A1) r' c = ldl_dot (mg n M) r' c).
    { intros r' Hr'. unfold ldl_dot. apply rsum_ext. intros i Hi. rewrite !P1 by (auto; lia). bcase. }
    assert (Hcc2 : mg n A2 c c = mg n A1 c c).
    { rewrite P2 by auto. bcase. }
    split; [exact L2|]. split; [|split].
    + intros r c' Hc' Hrc Hr.
      destruct (Nat.eq_dec c' c) as [->|Nc].
      * rewrite Hdot by auto. rewrite Hcc2.
        destruct (Nat.eqb_spec r c) as [->|Nrc].
        -- rewrite Hcc. lra.
        -- rewrite P2 by auto. destruct (Nat.ltb_spec c r); [|lia]. rewrite Nat.eqb_refl. simpl.
           rewrite Hdot1 by auto. rewrite P1 by auto.
           destruct (Nat.eqb_spec r c); [lia|]. simpl.
           rewrite (I3 r c) by (auto; lia). field. auto.
      * rewrite (I1 r c') by (auto; lia).
        assert (E : ldl_dot (mg n A2) r c' = ldl_dot (mg n M) r c').
        { unfold ldl_dot. apply rsum_ext. intros i Hi. rewrite (Hold r i), (Hold c' i), (Hdiag i) by lia. reflexivity. }
        rewrite E. rewrite (Hold r c'), (Hold c' c') by lia. reflexivity.
    + intros c' Hc' Hcn. destruct (Nat.eq_dec c' c) as [->|Nc].
      * rewrite Hcc2. lra.
      * rewrite Hdiag by lia. apply I2; lia.
    + intros r' c' Hr' Hc' Hor. rewrite P2 by auto. bcase; rewrite P1 by auto; bcase; apply I3; auto; lia.
Qed.

End Ldl.

(* ---- a_real_ldl as a whole ---- *)
Section LdlMain.
Variable tiny : R.
Hypothesis tiny_pos : 0 < tiny.
Let RO := R_ops tiny.
Variable n : nat.
Variable A : list R.
Hypothesis LA : length A = (n * n)%nat.

(* failure: at some column c the pivot a(c,c) - sum_{i<c} l(c,i)^2 d(i) computed from the
   (correctly factored) columns before it is below the threshold *)
Definition ldl_failed : Prop :=
  exists c M0, (c < n)%nat /\ LdlInv tiny n (mg n A) c M0 /\
               Rabs (mg n A c c - ldl_dot (mg n M0) c c) < tiny.

Lemma ldl_spec :
  exists rc M, ldl RO n A = Some (rc, M) /\ length M = (n * n)%nat /\
    ((rc = 0%nat /\ LdlInv tiny n (mg n A) n M) \/ (rc = 1%nat /\ ldl_failed)).
Proof.
  unfold ldl.
  destruct (for_range_inv
              (fun k (s : nat * list R) => length (snd s) = (n * n)%nat /\
                 ((fst s = 0%nat /\ LdlInv tiny n (mg n A) k (snd s)) \/ (fst s = 1%nat /\ ldl_failed)))
              0 n
              (fun c (s : nat * list R) => if Nat.eqb (fst s) 0 then ldl_step RO n c (snd s) else Some s)
              (0%nat, A)) as (s & E & L & P).
  - lia.
  - simpl. split; auto. left. split; auto. split; auto. split; [intros; lia|]. split; [intros; lia|]. auto.
  - intros c [rc M] [_ Hc] [L [[E0 Inv]|[E1 F]]]; simpl in *; subst rc; simpl.
    + destruct (ldl_step_spec tiny tiny_pos n (mg n A) c M Hc Inv) as (rc & M' & E & [[-> I']|[-> [L' F]]]).
      * exists (0%nat, M'). split; auto. simpl. split; [apply I'|]. left. auto.
      * exists (1%nat, M'). split; auto. simpl. split; auto. right. split; auto. exists c, M. auto.
    + exists (1%nat, M). split; auto.
  - destruct s as [rc M]. exists rc, M. split; [exact E|]. auto.
Qed.

End LdlMain.

(* ================================================================================ LLT *)
Section Llt.
Variable tiny : R.
Hypothesis tiny_pos : 0 < tiny.
Let RO := R_ops tiny.
Variable n : nat.

(* linalg_llt.c:10-18 : the off-diagonal part of row r *)
Lemma llt_row_loop A r :
  length A = (n * n)%nat -> (r < n)%nat ->
  exists A1,
    for_range 0 r (fun c A =>
      do A' <- for_range 0 c (fun i A =>
                 do arc <- rd A (n * r + c); do ari <- rd A (n * r + i); do aci <- rd A (n * c + i);
                 wr A (n * r + c) (sub RO arc (mul RO ari aci))) A;
      do arc <- rd A' (n * r + c); do acc <- rd A' (n * c + c);
      wr A' (n * r + c) (div RO arc acc)) A = Some A1 /\
    length A1 = (n * n)%nat /\
    (forall r' c', (r' < n)%nat -> (c' < n)%nat -> (r' <> r \/ r <= c')%nat -> mg n A1 r' c' = mg n A r' c') /\
    (forall c, (c < r)%nat ->
       mg n A1 r c = (mg n A r c - rsum (fun i => mg n A1 r i * mg n A c i) c) / mg n A c c).
Proof.
  intros LA Hr.
  destruct (for_range_inv
              (fun k (A' : list R) => length A' = (n * n)%nat /\
                 (forall r' c', (r' < n)%nat -> (c' < n)%nat -> (r' <> r \/ k <= c')%nat -> mg n A' r' c' = mg n A r' c') /\
                 (forall c, (c < k)%nat ->
                    mg n A' r c = (mg n A r c - rsum (fun i => mg n A' r i * mg n A c i) c) / mg n A c c))
              0 r
              (fun c A =>
                 do A' <- for_range 0 c (fun i A =>
                            do arc <- rd A (n * r + c); do ari <- rd A (n * r + i); do aci <- rd A (n * c + i);
                            wr A (n * r + c) (sub RO arc (mul RO ari aci))) A;
                 do arc <- rd A' (n * r + c); do acc <- rd A' (n * c + c);
                 wr A' (n * r + c) (div RO arc acc)) A) as (A1 & E & L1 & F1 & P1).
  - lia.
  - split; auto. split; auto. intros; lia.
  - intros k A0 [_ Hk] (L0 & F0 & P0).
    destruct (acc_loop n A0 r k k
                (fun i A => do arc <- rd A (n * r + k); do ari <- rd A (n * r + i); do aci <- rd A (n * k + i);
                            wr A (n * r + k) (sub RO arc (mul RO ari aci)))
                (fun i => mg n A0 r i * mg n A0 k i)) as (A2 & E2 & L2 & P2); auto; try lia.
    { intros i A' Hi L' Ag.
      rewrite !(rd_mg n) by (auto; lia). rewrite (wr_mg n) by (auto; lia).
      rewrite (Ag r i), (Ag k i) by (auto; lia). reflexivity. }
    rewrite E2.
    destruct (cell_div tiny n A2 r k k k) as (A3 & E3 & L3 & P3); auto; try lia.
    exists A3. split; [exact E3|]. split; auto.
    assert (Hfr : forall r' c', (r' < n)%nat -> (c' < n)%nat -> (r' <> r \/ c' <> k) -> mg n A3 r' c' = mg n A0 r' c').
    { intros r' c' Hr' Hc' N. rewrite P3 by auto.
      destruct (Nat.eqb_spec r' r), (Nat.eqb_spec c' k); simpl; try lia; rewrite P2 by auto;
        destruct (Nat.eqb_spec r' r), (Nat.eqb_spec c' k); simpl; try lia; reflexivity. }
    split; [|].
    + intros r' c' Hr' Hc' N. rewrite Hfr by (auto; lia). apply F0; auto; lia.
    + intros c Hc. destruct (Nat.eq_dec c k) as [->|Nc].
      * rewrite P3 by (auto; lia). rewrite !Nat.eqb_refl. simpl.
        rewrite !P2 by (auto; lia). rewrite !Nat.eqb_refl. simpl.
        destruct (Nat.eqb_spec k r); [lia|]. simpl.
        rewrite (F0 r k), (F0 k k) by (auto; lia). f_equal. f_equal.
        apply rsum_ext. intros i Hi. rewrite (Hfr r i) by (auto; lia).
        rewrite (F0 k i) by (auto; lia). reflexivity.
      * rewrite Hfr by (auto; lia). rewrite P0 by lia. f_equal. f_equal.
        apply rsum_ext. intros i Hi. rewrite (Hfr r i) by (auto; lia). reflexivity.
  - exists A1. split; [exact E|]. split; auto.
Qed.

(* linalg_llt.c:19-22 : the diagonal of row r *)
Lemma llt_diag_loop A r :
  length A = (n * n)%nat -> (r < n)%nat ->
  exists A2,
    for_range 0 r (fun i A =>
      do arr <- rd A (n * r + r); do ari <- rd A (n * r + i);
      wr A (n * r + r) (sub RO arr (mul RO ari ari))) A = Some A2 /\
    length A2 = (n * n)%nat /\
    forall r' c', (r' < n)%nat -> (c' < n)%nat ->
      mg n A2 r' c' = if (Nat.eqb r' r && Nat.eqb c' r)%bool
                      then mg n A r r - rsum (fun i => mg n A r i * mg n A r i) r else mg n A r' c'.
Proof.
  intros LA Hr.
  apply (acc_loop n A r r r _ (fun i => mg n A r i * mg n A r i)); auto.
  intros i A' Hi L' Ag.
  rewrite !(rd_mg n) by (auto; lia). rewrite (wr_mg n) by auto.
  rewrite (Ag r i) by (auto; lia). reflexivity.
Qed.

Variable a0 : nat -> nat -> R.

Definition LltInv (k : nat) (M : list R) : Prop :=
  length M = (n * n)%nat /\
  (forall r c, (r < k)%nat -> (c <= r)%nat -> (r < n)%nat ->
     a0 r c = rsum (fun i => mg n M r i * mg n M c i) (S c)) /\
  (forall r, (r < k)%nat -> (r < n)%nat -> 0 < mg n M r r /\ tiny <= mg n M r r * mg n M r r) /\
  (forall r c, (r < n)%nat -> (c < n)%nat -> (k <= r \/ r < c)%nat -> mg n M r c = a0 r c).

(* the Cholesky pivot of row r given the rows before it *)
Definition llt_pivot (M1 : list R) (r : nat) : R := a0 r r - rsum (fun i => mg n M1 r i * mg n M1 r i) r.

Lemma llt_step_spec r M :
  (r < n)%nat -> LltInv r M ->
  exists rc M', llt_step RO n r M = Some (rc, M') /\ length M' = (n * n)%nat /\
    ((rc = 0%nat /\ LltInv (S r) M') \/
     (rc = 1%nat /\ exists M1, (forall c, (c < r)%nat ->
                                  a0 r c = rsum (fun i => mg n M1 r i * mg n M c i) (S c)) /\
                               llt_pivot M1 r < tiny)).
Proof.
  intros Hr (LM & I1 & I2 & I3). unfold llt_step.
  destruct (llt_row_loop M r LM Hr) as (A1 & E1 & L1 & F1 & P1). rewrite E1.
  destruct (llt_diag_loop A1 r L1 Hr) as (A2 & E2 & L2 & P2). rewrite E2.
  rewrite (rd_mg n) by auto.
  (* the finished off-diagonal entries of row r satisfy their equations *)
  assert (Hrow : forall c, (c < r)%nat -> a0 r c = rsum (fun i => mg n A1 r i * mg n M c i) (S c)).
  { intros c Hc. rewrite rsum_S. rewrite (P1 c Hc). rewrite (I3 r c) by (auto; lia).
    destruct (I2 c Hc ltac:(lia)) as [I2c _]. field. lra. }
  assert (Hpiv : mg n A2 r r = llt_pivot A1 r).
  { rewrite P2 by auto. rewrite !Nat.eqb_refl. simpl. unfold llt_pivot.
    rewrite (F1 r r) by (auto; lia). rewrite (I3 r r) by (auto; lia). reflexivity. }
  unfold RO; simpl.
  destruct (Rlt_dec (mg n A2 r r) tiny) as [Lt|NLt].
  - exists 1%nat, A2. split; auto. split; auto. right. split; auto. exists A1. split; auto. now rewrite <- Hpiv.
  - rewrite (wr_mg n) by auto.
    eexists 0%nat, _. split; [reflexivity|]. split; [now rewrite upd_length|]. left. split; auto.
    set (A3 := upd A2 (n * r + r) (R_sqrt.sqrt (mg n A2 r r))).
    assert (P3 : forall r' c', (r' < n)%nat -> (c' < n)%nat ->
               mg n A3 r' c' = if (Nat.eqb r' r && Nat.eqb c' r)%bool then R_sqrt.sqrt (mg n A2 r r) else mg n A2 r' c').
    { intros r' c' Hr' Hc'. unfold A3. now rewrite mg_upd by auto. }
    assert (Hoth : forall r' c', (r' < n)%nat -> (c' < n)%nat -> r' <> r -> mg n A3 r' c' = mg n M r' c').
    { intros r' c' Hr' Hc' N. rewrite P3 by auto. destruct (Nat.eqb_spec r' r); [lia|]. simpl.
      rewrite P2 by auto. destruct (Nat.eqb_spec r' r); [lia|]. simpl.
      apply F1; auto. }
    assert (Hrowr : forall c', (c' < r)%nat -> mg n A3 r c' = mg n A1 r c').
    { intros c' Hc'. rewrite P3 by (auto; lia). destruct (Nat.eqb_spec c' r); [lia|].
      rewrite Bool.andb_false_r. rewrite P2 by (auto; lia). destruct (Nat.eqb_spec c' r); [lia|].
      rewrite Bool.andb_false_r. reflexivity. }
    assert (Hpos : 0 < mg n A2 r r) by lra.
    split; [unfold A3; now rewrite upd_length|]. split; [|split].
    + intros r' c Hr' Hc Hr'n.
      destruct (Nat.eq_dec r' r) as [->|Nr].
      * destruct (Nat.eq_dec c r) as [->|Nc].
        -- rewrite rsum_S. rewrite P3 by auto. rewrite !Nat.eqb_refl. simpl.
           rewrite sqrt_sqrt by lra. rewrite Hpiv. unfold llt_pivot.
           rewrite (rsum_ext (fun i => mg n A3 r i * mg n A3 r i) (fun i => mg n A1 r i * mg n A1 r i))
             by (intros i Hi; rewrite Hrowr by lia; reflexivity).
           lra.
        -- rewrite (Hrow c) by lia. apply rsum_ext. intros i Hi.
           rewrite Hrowr by lia. rewrite (Hoth c i) by lia. reflexivity.
      * rewrite (I1 r' c) by (auto; lia). apply rsum_ext. intros i Hi.
        rewrite (Hoth r' i), (Hoth c i) by lia. reflexivity.
    + intros r' Hr' Hr'n. destruct (Nat.eq_dec r' r) as [->|Nr].
      * rewrite P3 by auto. rewrite !Nat.eqb_refl. simpl. split; [now apply sqrt_lt_R0|].
        rewrite sqrt_sqrt by lra. lra.
      * rewrite Hoth by auto. apply I2; lia.
    + intros r' c' Hr' Hc' Hor. rewrite P3 by auto.
      destruct (Nat.eqb_spec r' r) as [->|Nr]; simpl.
      * destruct (Nat.eqb_spec c' r); [lia|]. rewrite P2 by auto. rewrite Nat.eqb_refl. simpl.
        destruct (Nat.eqb_spec c' r); [lia|]. rewrite (F1 r c') by (auto; lia). apply I3; auto; lia.
      * rewrite P2 by auto. destruct (Nat.eqb_spec r' r); [lia|]. simpl.
        rewrite (F1 r' c') by auto. apply I3; auto; lia.
Qed.

End Llt.

Section LltMain.
Variable tiny : R.
Hypothesis tiny_pos : 0 < tiny.
Let RO := R_ops tiny.
Variable n : nat.
Variable A : list R.
Hypothesis LA : length A = (n * n)%nat.

(* failure: at some row r, with the rows before it correctly factored (M0) and the off-diagonal
   part of row r correctly computed (M1), the pivot a(r,r) - sum_{i<r} l(r,i)^2 is below tiny
   (in particular: every non-positive pivot) *)
Definition llt_failed : Prop :=
  exists r M0 M1, (r < n)%nat /\ LltInv tiny n (mg n A) r M0 /\
    (forall c, (c < r)%nat -> mg n A r c = rsum (fun i => mg n M1 r i * mg n M0 c i) (S c)) /\
    llt_pivot n (mg n A) M1 r < tiny.

Lemma llt_spec :
  exists rc M, llt RO n A = Some (rc, M) /\ length M = (n * n)%nat /\
    ((rc = 0%nat /\ LltInv tiny n (mg n A) n M) \/ (rc = 1%nat /\ llt_failed)).
Proof.
  unfold llt.
  destruct (for_range_inv
              (fun k (s : nat * list R) => length (snd s) = (n * n)%nat /\
                 ((fst s = 0%nat /\ LltInv tiny n (mg n A) k (snd s)) \/ (fst s = 1%nat /\ llt_failed)))
              0 n
              (fun r (s : nat * list R) => if Nat.eqb (fst s) 0 then llt_step RO n r (snd s) else Some s)
              (0%nat, A)) as (s & E & L & P).
  - lia.
  - simpl. split; auto. left. split; auto. split; auto. split; [intros; lia|]. split; [intros; lia|]. auto.
  - intros r [rc M] [_ Hr] [L [[E0 Inv]|[E1 F]]]; simpl in *; subst rc; simpl.
    + destruct (llt_step_spec tiny tiny_pos n (mg n A) r M Hr Inv) as (rc & M' & E & L' & [[-> I']|[-> (M1 & F1 & F2)]]).
      * exists (0%nat, M'). split; auto.
      * exists (1%nat, M'). split; auto. simpl. split; auto. right. split; auto. exists r, M, M1. auto.
    + exists (1%nat, M). split; auto.
  - destruct s as [rc M]. exists rc, M. split; [exact E|]. auto.
Qed.

End LltMain.
