(* C08: a_real_ldl and a_real_llt over R - loop invariants and reconstruction.

   LDL, after the columns < k are done (state M, input a0; only the lower triangle is read):
       for c < k, c <= r :  a0(r,c) = sum_{i<c} M(r,i) M(c,i) M(i,i) + (if r = c then M(c,c) else M(r,c) M(c,c))
       |M(c,c)| >= tiny for c < k;   all other cells (columns >= k, upper triangle) still equal a0.
   LLT, after the rows < k are done:
       for r < k, c <= r :  a0(r,c) = sum_{i<=c} M(r,i) M(c,i),   M(r,r) > 0;
       all other cells (rows >= k, upper triangle) still equal a0. *)
From Coq Require Import ZArith List Reals Lia Lra Psatz Bool.
From LibaV Require Import C08.NumOps C08.FactorDefs C08.Instances C08.Base C08.PluSteps.
Import ListNotations.
Local Open Scope R_scope.

Section Cells.
Variable tiny : R.
Let RO := R_ops tiny.
Variable n : nat.

(* two arrays agree everywhere except (possibly) at cell (r,c) *)
Definition agree_off (r c : nat) (A A' : list R) : Prop :=
  forall r' c', (r' < n)%nat -> (c' < n)%nat -> (r' <> r \/ c' <> c) -> mg n A' r' c' = mg n A r' c'.

(* X[r][c] -= gv(i), i = 0..k-1, where the loop body reads only cells other than (r,c) *)
Lemma acc_loop (A : list R) r c k (body : nat -> list R -> option (list R)) (gv : nat -> R) :
  length A = (n * n)%nat -> (r < n)%nat -> (c < n)%nat ->
  (forall i A', (i < k)%nat -> length A' = (n * n)%nat -> agree_off r c A A' ->
     body i A' = Some (upd A' (n * r + c) (mg n A' r c - gv i))) ->
  exists A', for_range 0 k body A = Some A' /\ length A' = (n * n)%nat /\
    forall r' c', (r' < n)%nat -> (c' < n)%nat ->
      mg n A' r' c' = if (Nat.eqb r' r && Nat.eqb c' c)%bool then mg n A r c - rsum gv k else mg n A r' c'.
Proof.
  intros LA Hr Hc Hbody.
  destruct (for_range_inv
              (fun j (A' : list R) => length A' = (n * n)%nat /\
                 forall r' c', (r' < n)%nat -> (c' < n)%nat ->
                   mg n A' r' c' = if (Nat.eqb r' r && Nat.eqb c' c)%bool then mg n A r c - rsum gv j else mg n A r' c')
              0 k body A) as (A' & E & P).
  - lia.
  - split; auto. intros r' c' _ _. simpl. destruct (Nat.eqb_spec r' r), (Nat.eqb_spec c' c); simpl; subst; auto; lra.
  - intros j A1 [_ Hj] [L1 P1].
    rewrite Hbody; auto.
    + eexists. split; [reflexivity|]. split; [now rewrite upd_length|].
      intros r' c' Hr' Hc'. rewrite mg_upd by auto. rewrite !P1 by auto.
      rewrite !Nat.eqb_refl. simpl.
      destruct (Nat.eqb r' r && Nat.eqb c' c)%bool; [lra|reflexivity].
    + intros r' c' Hr' Hc' N. rewrite P1 by auto.
      destruct (Nat.eqb_spec r' r), (Nat.eqb_spec c' c); simpl; auto. lia.
  - exists A'. split; [exact E|]. exact P.
Qed.

(* X[r][c] /= X[r2][c2] *)
Lemma cell_div (A : list R) r c r2 c2 :
  length A = (n * n)%nat -> (r < n)%nat -> (c < n)%nat -> (r2 < n)%nat -> (c2 < n)%nat ->
  exists A', (do a <- rd A (n * r + c); do d <- rd A (n * r2 + c2); wr A (n * r + c) (div RO a d)) = Some A' /\
    length A' = (n * n)%nat /\
    forall r' c', (r' < n)%nat -> (c' < n)%nat ->
      mg n A' r' c' = if (Nat.eqb r' r && Nat.eqb c' c)%bool then mg n A r c / mg n A r2 c2 else mg n A r' c'.
Proof.
  intros LA Hr Hc Hr2 Hc2. rewrite !(rd_mg n) by auto. rewrite (wr_mg n) by auto.
  eexists. split; [reflexivity|]. split; [now rewrite upd_length|].
  intros r' c' Hr' Hc'. now rewrite mg_upd by auto.
Qed.

End Cells.

(* ================================================================================ LDL *)
Section Ldl.
Variable tiny : R.
Hypothesis tiny_pos : 0 < tiny.
Let RO := R_ops tiny.
Variable n : nat.

(* the sum subtracted from cell (r,c) *)
Definition ldl_dot (m : nat -> nat -> R) (r c : nat) : R := rsum (fun i => m r i * m c i * m i i) c.

(* linalg_ldl.c:10-13 *)
Lemma ldl_diag_loop A c :
  length A = (n * n)%nat -> (c < n)%nat ->
  exists A1,
    for_range 0 c (fun i A =>
      do acc <- rd A (n * c + c); do aci <- rd A (n * c + i); do d <- rd A (n * i + i);
      wr A (n * c + c) (sub RO acc (mul RO (mul RO aci aci) d))) A = Some A1 /\
    length A1 = (n * n)%nat /\
    forall r' c', (r' < n)%nat -> (c' < n)%nat ->
      mg n A1 r' c' = if (Nat.eqb r' c && Nat.eqb c' c)%bool then mg n A c c - ldl_dot (mg n A) c c else mg n A r' c'.
Proof.
  intros LA Hc.
  apply (acc_loop n A c c c _ (fun i => mg n A c i * mg n A c i * mg n A i i)); auto.
  intros i A' Hi L' Ag.
  rewrite !(rd_mg n) by (auto; lia). rewrite (wr_mg n) by auto.
  rewrite (Ag c i), (Ag i i) by (auto; lia). reflexivity.
Qed.

(* linalg_ldl.c:17-22, one row below the diagonal *)
Lemma ldl_row A c r :
  length A = (n * n)%nat -> (c < r)%nat -> (r < n)%nat ->
  exists A2,
    (do A' <- for_range 0 c (fun i A =>
                do arc <- rd A (n * r + c); do ari <- rd A (n * r + i);
                do aci <- rd A (n * c + i); do d <- rd A (n * i + i);
                wr A (n * r + c) (sub RO arc (mul RO (mul RO ari aci) d))) A;
     do arc <- rd A' (n * r + c); do acc <- rd A' (n * c + c);
     wr A' (n * r + c) (div RO arc acc)) = Some A2 /\
    length A2 = (n * n)%nat /\
    forall r' c', (r' < n)%nat -> (c' < n)%nat ->
      mg n A2 r' c' = if (Nat.eqb r' r && Nat.eqb c' c)%bool
                      then (mg n A r c - ldl_dot (mg n A) r c) / mg n A c c else mg n A r' c'.
Proof.
  intros LA Hcr Hr.
  destruct (acc_loop n A r c c
              (fun i A => do arc <- rd A (n * r + c); do ari <- rd A (n * r + i);
                          do aci <- rd A (n * c + i); do d <- rd A (n * i + i);
                          wr A (n * r + c) (sub RO arc (mul RO (mul RO ari aci) d)))
              (fun i => mg n A r i * mg n A c i * mg n A i i)) as (A1 & E1 & L1 & P1); auto; try lia.
  { intros i A' Hi L' Ag.
    rewrite !(rd_mg n) by (auto; lia). rewrite (wr_mg n) by (auto; lia).
    rewrite (Ag r i), (Ag c i), (Ag i i) by (auto; lia). reflexivity. }
  rewrite E1.
  destruct (cell_div tiny n A1 r c c c) as (A2 & E2 & L2 & P2); auto; try lia.
  exists A2. split; [exact E2|]. split; auto.
  intros r' c' Hr' Hc'. rewrite P2 by auto. rewrite !P1 by (auto; lia).
  unfold ldl_dot. bcase.
Qed.

(* linalg_ldl.c:15-23, all rows below the diagonal *)
Lemma ldl_rows A c :
  length A = (n * n)%nat -> (c < n)%nat ->
  exists A2,
    for_range (c + 1) n (fun r A =>
      do A' <- for_range 0 c (fun i A =>
                 do arc <- rd A (n * r + c); do ari <- rd A (n * r + i);
                 do aci <- rd A (n * c + i); do d <- rd A (n * i + i);
                 wr A (n * r + c) (sub RO arc (mul RO (mul RO ari aci) d))) A;
      do arc <- rd A' (n * r + c); do acc <- rd A' (n * c + c);
      wr A' (n * r + c) (div RO arc acc)) A = Some A2 /\
    length A2 = (n * n)%nat /\
    forall r' c', (r' < n)%nat -> (c' < n)%nat ->
      mg n A2 r' c' = if (Nat.ltb c r' && Nat.eqb c' c)%bool
                      then (mg n A r' c - ldl_dot (mg n A) r' c) / mg n A c c else mg n A r' c'.
Proof.
  intros LA Hc.
  destruct (for_range_inv
              (fun k (A' : list R) => length A' = (n * n)%nat /\
                 forall r' c', (r' < n)%nat -> (c' < n)%nat ->
                   mg n A' r' c' = if (Nat.ltb c r' && Nat.ltb r' k && Nat.eqb c' c)%bool
                                   then (mg n A r' c - ldl_dot (mg n A) r' c) / mg n A c c else mg n A r' c')
              (c + 1) n
              (fun r A =>
                 do A' <- for_range 0 c (fun i A =>
                            do arc <- rd A (n * r + c); do ari <- rd A (n * r + i);
                            do aci <- rd A (n * c + i); do d <- rd A (n * i + i);
                            wr A (n * r + c) (sub RO arc (mul RO (mul RO ari aci) d))) A;
                 do arc <- rd A' (n * r + c); do acc <- rd A' (n * c + c);
                 wr A' (n * r + c) (div RO arc acc)) A) as (A2 & E & L2 & P2).
  - lia.
  - split; auto. intros r' c' _ _. bcase.
  - intros k A1 Hk [L1 P1].
    destruct (ldl_row A1 c k L1) as (A2 & E2 & L2 & P2); try lia.
    exists A2. split; [exact E2|]. split; auto.
    intros r' c' Hr' Hc'. rewrite P2 by auto. rewrite !P1 by (auto; lia).
    assert (Hdot : ldl_dot (mg n A1) k c = ldl_dot (mg n A) k c).
    { unfold ldl_dot. apply rsum_ext. intros i Hi. rewrite !P1 by (auto; lia). bcase. }
    rewrite Hdot. bcase.
  - exists A2. split; [exact E|]. split; auto.
    intros r' c' Hr' Hc'. rewrite P2 by auto. bcase.
Qed.

(* ---- the invariant ---- *)
Variable a0 : nat -> nat -> R.

Definition LdlInv (k : nat) (M : list R) : Prop :=
  length M = (n * n)%nat /\
  (forall r c, (c < k)%nat -> (c <= r)%nat -> (r < n)%nat ->
     a0 r c = ldl_dot (mg n M) r c + (if Nat.eqb r c then mg n M c c else mg n M r c * mg n M c c)) /\
  (forall c, (c < k)%nat -> (c < n)%nat -> tiny <= Rabs (mg n M c c)) /\
  (forall r c, (r < n)%nat -> (c < n)%nat -> (k <= c \/ r < c)%nat -> mg n M r c = a0 r c).

Lemma ldl_step_spec c M :
  (c < n)%nat -> LdlInv c M ->
  exists rc M', ldl_step RO n c M = Some (rc, M') /\
    ((rc = 0%nat /\ LdlInv (S c) M') \/
     (rc = 1%nat /\ length M' = (n * n)%nat /\ Rabs (a0 c c - ldl_dot (mg n M) c c) < tiny)).
Proof.
  intros Hc (LM & I1 & I2 & I3). unfold ldl_step.
  destruct (ldl_diag_loop M c LM Hc) as (A1 & E1 & L1 & P1). rewrite E1.
  rewrite (rd_mg n) by auto.
  assert (Hcc : mg n A1 c c = a0 c c - ldl_dot (mg n M) c c).
  { rewrite P1 by auto. rewrite !Nat.eqb_refl. simpl. rewrite (I3 c c) by (auto; lia). reflexivity. }
  unfold RO; simpl.
  destruct (Rlt_dec (Rabs (mg n A1 c c)) tiny) as [Lt|NLt].
  - exists 1%nat, A1. split; auto. right. repeat split; auto. now rewrite <- Hcc.
  - destruct (ldl_rows A1 c L1 Hc) as (A2 & E2 & L2 & P2).
    unfold RO in E2; simpl in E2. rewrite E2.
    exists 0%nat, A2. split; auto. left. split; auto.
    assert (Nz : mg n A1 c c <> 0).
    { intros Z. rewrite Z, Rabs_R0 in NLt. lra. }
    (* cells of the finished columns and of row c left of the diagonal did not change *)
    assert (Hold : forall r' c', (r' < n)%nat -> (c' < n)%nat -> (c' < c)%nat -> mg n A2 r' c' = mg n M r' c').
    { intros r' c' Hr' Hc' Hlt. rewrite P2 by auto. bcase; rewrite P1 by auto; bcase. }
    assert (Hdiag : forall i, (i < c)%nat -> mg n A2 i i = mg n M i i).
    { intros i Hi. apply Hold; lia. }
    assert (Hdot : forall r', (r' < n)%nat -> ldl_dot (mg n A2) r' c = ldl_dot (mg n M) r' c).
    { intros r' Hr'. unfold ldl_dot. apply rsum_ext. intros i Hi.
      rewrite (Hold r' i), (Hold c i), (Hdiag i) by lia. reflexivity. }
    assert (Hdot1 : forall r', (r' < n)%nat -> ldl_dot (mg n A1) r' c = ldl_dot (mg n M) r' c).
    { intros r' Hr'. unfold ldl_dot. apply rsum_ext. intros i Hi. rewrite !P1 by (auto; lia). bcase. }
    assert (Hcc2 : mg n A2 c c = mg n A1 c c).
    { rewrite P2 by auto. bcase. }
    split; [exact L2|]. split; [|split].
    + intros r c' Hc' Hrc Hr.
      destruct (Nat.eq_dec c' c) as [->|Nc].
      * rewrite Hdot by auto. rewrite Hcc2.
        destruct (Nat.eqb_spec r c) as [->|Nrc].
        -- rewrite Hcc. lra.
        -- rewrite P2 by auto. destruct (Nat.ltb_spec c r); [|lia]. rewrite Nat.eqb_refl. simpl.
           rewrite Hdot1 by auto. rewrite P1 by auto.
           destruct (Nat.eqb_spec r c); [lia|]. simpl.
           rewrite (I3 r c) by (auto; lia). field. auto.
      * rewrite (I1 r c') by (auto; lia).
        assert (E : ldl_dot (mg n A2) r c' = ldl_dot (mg n M) r c').
        { unfold ldl_dot. apply rsum_ext. intros i Hi. rewrite (Hold r i), (Hold c' i), (Hdiag i) by lia. reflexivity. }
        rewrite E. rewrite (Hold r c'), (Hold c' c') by lia. reflexivity.
    + intros c' Hc' Hcn. destruct (Nat.eq_dec c' c) as [->|Nc].
      * rewrite Hcc2. lra.
      * rewrite Hdiag by lia. apply I2; lia.
    + intros r' c' Hr' Hc' Hor. rewrite P2 by auto. bcase; rewrite P1 by auto; bcase; apply I3; auto; lia.
Qed.

End Ldl.
