(* C08: the triangular solves (forward / backward substitution) of the three families, over R.
   They are proved once for a vector stored at positions [ix 0], [ix 1], ... of an array:
   ix r = r gives the plain routines, ix r = off + n*r the strided "_" routines that work on
   one column of a row-major matrix (a_real_plu_inv_, a_real_ldl_inv_, a_real_llt_inv_). *)
From Coq Require Import ZArith List Reals Lia Lra Psatz Bool.
From LibaV Require Import C08.NumOps C08.FactorDefs C08.Instances C08.Base C08.PluSteps.
Import ListNotations.
Local Open Scope R_scope.

Section Solve.
Variable tiny : R.
Let RO := R_ops tiny.
Variable n : nat.
Variable ix : nat -> nat.
Hypothesis ix_inj : forall r r', (r < n)%nat -> (r' < n)%nat -> ix r = ix r' -> r = r'.

Definition vg (y : list R) (r : nat) : R := nth (ix r) y 0.
Definition vec_ok (y : list R) : Prop := forall r, (r < n)%nat -> (ix r < length y)%nat.

(* frame: cells of the array that are not components of the vector *)
Definition off_vec (k : nat) : Prop := forall r, (r < n)%nat -> k <> ix r.

(* y[r] -= coefficient(c) * y[c]  for c = lo .. hi-1, the coefficient being read from M at [coef c] *)
Lemma axpy_loop (M : list R) (coef : nat -> nat) (cv : nat -> R) r lo hi (y : list R) :
  (forall c, (lo <= c < hi)%nat -> rd M (coef c) = Some (cv c)) ->
  (r < n)%nat -> (forall c, (lo <= c < hi)%nat -> (c < n)%nat /\ c <> r) -> vec_ok y ->
  exists y',
    for_range lo hi (fun c y => do yr <- rd y (ix r); do l <- rd M (coef c); do yc <- rd y (ix c);
                                wr y (ix r) (sub RO yr (mul RO l yc))) y = Some y' /\
    length y' = length y /\
    (forall k, k <> ix r -> nth k y' 0 = nth k y 0) /\
    vg y' r = vg y r - isum (fun c => cv c * vg y c) lo hi.
Proof.
  intros Hcoef Hr Hc Hok.
  destruct (le_lt_dec hi lo) as [Hle|Hlt].
  { exists y. rewrite for_range_empty by auto. rewrite isum_empty by auto. repeat split; auto. lra. }
  destruct (for_range_inv
              (fun k (y' : list R) =>
                 length y' = length y /\ (forall j, j <> ix r -> nth j y' 0 = nth j y 0) /\
                 vg y' r = vg y r - isum (fun c => cv c * vg y c) lo k)
              lo hi
              (fun c y => do yr <- rd y (ix r); do l <- rd M (coef c); do yc <- rd y (ix c);
                          wr y (ix r) (sub RO yr (mul RO l yc))) y) as (y' & E & P).
  - lia.
  - repeat split; auto. rewrite isum_empty by lia. lra.
  - intros k y1 Hk (L1 & F1 & V1).
    destruct (Hc k Hk) as [Hkn Hkr].
    rewrite (rd_some 0) by (rewrite L1; apply Hok; auto).
    rewrite Hcoef by auto.
    rewrite (rd_some 0) by (rewrite L1; apply Hok; auto).
    rewrite wr_some by (rewrite L1; apply Hok; auto).
    eexists. split; [reflexivity|]. split; [now rewrite upd_length|]. split.
    + intros j Hj. rewrite nth_upd_other by auto. auto.
    + unfold vg. rewrite nth_upd_same by (rewrite L1; apply Hok; auto).
      rewrite isum_S by lia. fold (vg y1 r). rewrite V1.
      rewrite (F1 (ix k)) by (intros Ek; apply ix_inj in Ek; auto).
      unfold RO; simpl. unfold vg. lra.
  - exists y'. split; [exact E|]. exact P.
Qed.

(* y[r] /= M[d] *)
Lemma div_at (M : list R) (d : nat) (dv : R) r (y : list R) :
  rd M d = Some dv -> (r < n)%nat -> vec_ok y ->
  exists y',
    (do yr <- rd y (ix r); do l <- rd M d; wr y (ix r) (div RO yr l)) = Some y' /\
    length y' = length y /\
    (forall k, k <> ix r -> nth k y' 0 = nth k y 0) /\
    vg y' r = vg y r / dv.
Proof.
  intros Hd Hr Hok.
  rewrite (rd_some 0) by (apply Hok; auto). rewrite Hd.
  rewrite wr_some by (apply Hok; auto).
  eexists. split; [reflexivity|]. split; [now rewrite upd_length|]. split.
  - intros k Hk. now rewrite nth_upd_other.
  - unfold vg. rewrite nth_upd_same by (apply Hok; auto). reflexivity.
Qed.

Lemma vec_ok_len y y' : length y' = length y -> vec_ok y -> vec_ok y'.
Proof. intros L H r Hr. rewrite L. auto. Qed.

Lemma vg_frame y y' r r' :
  (r < n)%nat -> (r' < n)%nat -> r' <> r ->
  (forall k, k <> ix r -> nth k y' 0 = nth k y 0) -> vg y' r' = vg y r'.
Proof. intros Hr Hr' N F. unfold vg. apply F. intros E. apply ix_inj in E; auto. Qed.

(* ------------------------------------------------------------------------------------------ *)
(* unit lower triangular forward substitution: a_real_plu_lower(_), a_real_ldl_lower(_) *)
Definition lower_gen (L y : list R) : option (list R) :=
  for_range 0 n (fun r y =>
    for_range 0 r (fun c y =>
      do yr <- rd y (ix r); do l <- rd L (n * r + c); do yc <- rd y (ix c);
      wr y (ix r) (sub RO yr (mul RO l yc))) y) y.

Lemma lower_gen_spec (L y : list R) :
  length L = (n * n)%nat -> vec_ok y ->
  exists y', lower_gen L y = Some y' /\ length y' = length y /\
    (forall k, off_vec k -> nth k y' 0 = nth k y 0) /\
    forall r, (r < n)%nat -> vg y' r = vg y r - isum (fun c => mg n L r c * vg y' c) 0 r.
Proof.
  intros LL Hok. unfold lower_gen.
  destruct (for_range_inv
              (fun k (y' : list R) =>
                 length y' = length y /\ (forall j, off_vec j -> nth j y' 0 = nth j y 0) /\
                 (forall r, (k <= r < n)%nat -> vg y' r = vg y r) /\
                 (forall r, (r < k)%nat -> vg y' r = vg y r - isum (fun c => mg n L r c * vg y' c) 0 r))
              0 n
              (fun r y => for_range 0 r (fun c y =>
                 do yr <- rd y (ix r); do l <- rd L (n * r + c); do yc <- rd y (ix c);
                 wr y (ix r) (sub RO yr (mul RO l yc))) y) y) as (y' & E & L' & F' & _ & P').
  - lia.
  - repeat split; auto. intros; lia.
  - intros k y1 [_ Hk] (L1 & F1 & U1 & D1).
    destruct (axpy_loop L (fun c => (n * k + c)%nat) (fun c => mg n L k c) k 0 k y1) as (y2 & E2 & L2 & F2 & V2); auto.
    + intros c Hc. apply (rd_mg n); auto; lia.
    + intros c Hc. lia.
    + eapply vec_ok_len; eauto.
    + exists y2. split; [exact E2|]. split; [congruence|]. split; [|split].
      * intros j Hj. rewrite F2 by (apply Hj; auto). auto.
      * intros r Hr. rewrite (vg_frame y1 y2 k r) by (auto; lia). apply U1. lia.
      * intros r Hr. destruct (Nat.eq_dec r k) as [->|N].
        -- rewrite V2. rewrite U1 by lia. f_equal. apply isum_ext. intros c Hc.
           rewrite (vg_frame y1 y2 k c) by (auto; lia). reflexivity.
        -- rewrite (vg_frame y1 y2 k r) by (auto; lia). rewrite D1 by lia. f_equal.
           apply isum_ext. intros c Hc. rewrite (vg_frame y1 y2 k c) by (auto; lia). reflexivity.
  - exists y'. split; [exact E|]. repeat split; auto.
Qed.

(* upper triangular backward substitution with division: a_real_plu_upper(_) *)
Definition upper_gen (U x : list R) : option (list R) :=
  for_down n (fun r x =>
    do x1 <- for_range (r + 1) n (fun c x =>
               do xr <- rd x (ix r); do u <- rd U (n * r + c); do xc <- rd x (ix c);
               wr x (ix r) (sub RO xr (mul RO u xc))) x;
    do xr <- rd x1 (ix r); do u <- rd U (n * r + r);
    wr x1 (ix r) (div RO xr u)) x.

Lemma upper_gen_spec (U x : list R) :
  length U = (n * n)%nat -> vec_ok x ->
  exists x', upper_gen U x = Some x' /\ length x' = length x /\
    (forall k, off_vec k -> nth k x' 0 = nth k x 0) /\
    forall r, (r < n)%nat ->
      vg x' r = (vg x r - isum (fun c => mg n U r c * vg x' c) (r + 1) n) / mg n U r r.
Proof.
  intros LU Hok. unfold upper_gen.
  destruct (for_down_inv
              (fun k (x' : list R) =>
                 length x' = length x /\ (forall j, off_vec j -> nth j x' 0 = nth j x 0) /\
                 (forall r, (r < k)%nat -> vg x' r = vg x r) /\
                 (forall r, (k <= r < n)%nat ->
                    vg x' r = (vg x r - isum (fun c => mg n U r c * vg x' c) (r + 1) n) / mg n U r r))
              (fun r x =>
                 do x1 <- for_range (r + 1) n (fun c x =>
                            do xr <- rd x (ix r); do u <- rd U (n * r + c); do xc <- rd x (ix c);
                            wr x (ix r) (sub RO xr (mul RO u xc))) x;
                 do xr <- rd x1 (ix r); do u <- rd U (n * r + r);
                 wr x1 (ix r) (div RO xr u)) n x) as (x' & E & L' & F' & _ & P').
  - repeat split; auto. intros; lia.
  - intros k x1 Hk (L1 & F1 & U1 & D1).
    destruct (axpy_loop U (fun c => (n * k + c)%nat) (fun c => mg n U k c) k (k + 1) n x1) as (x2 & E2 & L2 & F2 & V2); auto.
    + intros c Hc. apply (rd_mg n); auto; lia.
    + intros c Hc. lia.
    + eapply vec_ok_len; eauto.
    + rewrite E2.
      destruct (div_at U (n * k + k)%nat (mg n U k k) k x2) as (x3 & E3 & L3 & F3 & V3); auto.
      * apply (rd_mg n); auto.
      * eapply vec_ok_len; [|exact Hok]. congruence.
      * exists x3. split; [exact E3|]. split; [congruence|]. split; [|split].
        -- intros j Hj. rewrite F3, F2 by (apply Hj; auto). auto.
        -- intros r Hr. rewrite (vg_frame x2 x3 k r), (vg_frame x1 x2 k r) by (auto; lia). apply U1. lia.
        -- intros r Hr.
           assert (Hfr : forall c, (c < n)%nat -> c <> k -> vg x3 c = vg x1 c).
           { intros c Hc Nc. rewrite (vg_frame x2 x3 k c), (vg_frame x1 x2 k c) by auto. reflexivity. }
           destruct (Nat.eq_dec r k) as [->|N].
           ++ rewrite V3, V2. rewrite U1 by lia. f_equal. f_equal.
              apply isum_ext. intros c Hc. rewrite Hfr by lia. reflexivity.
           ++ rewrite Hfr by lia. rewrite D1 by lia. f_equal. f_equal.
              apply isum_ext. intros c Hc. rewrite Hfr by lia. reflexivity.
  - exists x'. split; [exact E|]. repeat split; auto. intros r Hr. apply P'. lia.
Qed.

(* the pointer walk  Lc = L + (n+1)*c; Lc += n  (r-c times)  of ldl_upper / llt_upper reaches cell (r,c) *)
Lemma idx_diag c : ((n + 1) * c = n * c + c)%nat.
Proof. lia. Qed.

Lemma idx_walk c r : (c <= r)%nat -> ((n + 1) * c + n * (r - c) = n * r + c)%nat.
Proof.
  intros H. rewrite Nat.mul_sub_distr_l.
  assert (n * c <= n * r)%nat by (apply Nat.mul_le_mono_l; auto). lia.
Qed.

(* D L^T x = y : a_real_ldl_upper(_) *)
Definition ldl_upper_gen (L x : list R) : option (list R) :=
  for_down n (fun c x =>
    do xc <- rd x (ix c); do d <- rd L ((n + 1) * c);
    do x1 <- wr x (ix c) (div RO xc d);
    for_range (c + 1) n (fun r x =>
      do xc <- rd x (ix c); do l <- rd L ((n + 1) * c + n * (r - c)); do xr <- rd x (ix r);
      wr x (ix c) (sub RO xc (mul RO l xr))) x1) x.

Lemma ldl_upper_gen_spec (L x : list R) :
  length L = (n * n)%nat -> vec_ok x ->
  exists x', ldl_upper_gen L x = Some x' /\ length x' = length x /\
    (forall k, off_vec k -> nth k x' 0 = nth k x 0) /\
    forall c, (c < n)%nat ->
      vg x' c = vg x c / mg n L c c - isum (fun r => mg n L r c * vg x' r) (c + 1) n.
Proof.
  intros LL Hok. unfold ldl_upper_gen.
  destruct (for_down_inv
              (fun k (x' : list R) =>
                 length x' = length x /\ (forall j, off_vec j -> nth j x' 0 = nth j x 0) /\
                 (forall c, (c < k)%nat -> vg x' c = vg x c) /\
                 (forall c, (k <= c < n)%nat ->
                    vg x' c = vg x c / mg n L c c - isum (fun r => mg n L r c * vg x' r) (c + 1) n))
              (fun c x =>
                 do xc <- rd x (ix c); do d <- rd L ((n + 1) * c);
                 do x1 <- wr x (ix c) (div RO xc d);
                 for_range (c + 1) n (fun r x =>
                   do xc <- rd x (ix c); do l <- rd L ((n + 1) * c + n * (r - c)); do xr <- rd x (ix r);
                   wr x (ix c) (sub RO xc (mul RO l xr))) x1) n x) as (x' & E & L' & F' & _ & P').
  - repeat split; auto. intros; lia.
  - intros k x1 Hk (L1 & F1 & U1 & D1).
    assert (Hok1 : vec_ok x1) by (eapply vec_ok_len; eauto).
    assert (Hd : rd L ((n + 1) * k) = Some (mg n L k k)) by (rewrite idx_diag; apply (rd_mg n); auto).
    rewrite (rd_some 0) by (apply Hok1; auto).
    rewrite Hd.
    rewrite wr_some by (apply Hok1; auto).
    set (x2 := upd x1 (ix k) (div RO (nth (ix k) x1 0) (mg n L k k))).
    assert (L2 : length x2 = length x1) by (unfold x2; now rewrite upd_length).
    assert (Hok2 : vec_ok x2) by (eapply vec_ok_len; eauto).
    destruct (axpy_loop L (fun r => ((n + 1) * k + n * (r - k))%nat) (fun r => mg n L r k) k (k + 1) n x2)
      as (x3 & E3 & L3 & F3 & V3); auto.
    + intros r Hr. rewrite idx_walk by lia. apply (rd_mg n); auto; lia.
    + intros r Hr. lia.
    + exists x3. split; [exact E3|]. split; [congruence|].
      assert (Hfr : forall c, (c < n)%nat -> c <> k -> vg x3 c = vg x1 c).
      { intros c Hc Nc. rewrite (vg_frame x2 x3 k c) by auto. unfold vg, x2.
        rewrite nth_upd_other; [reflexivity|]. intros Ek. apply ix_inj in Ek; auto. }
      split; [|split].
      * intros j Hj. rewrite F3 by (apply Hj; auto). unfold x2.
        rewrite nth_upd_other by (apply Hj; auto). auto.
      * intros c Hc. rewrite Hfr by lia. apply U1. lia.
      * intros c Hc. destruct (Nat.eq_dec c k) as [->|N].
        -- rewrite V3.
           assert (Hx2k : vg x2 k = vg x k / mg n L k k).
           { unfold vg, x2. rewrite nth_upd_same by (apply Hok1; auto). fold (vg x1 k).
             rewrite U1 by lia. reflexivity. }
           rewrite Hx2k. f_equal.
           apply isum_ext. intros r Hr. rewrite (vg_frame x2 x3 k r) by (auto; lia). reflexivity.
        -- rewrite Hfr by lia. rewrite D1 by lia. f_equal.
           apply isum_ext. intros r Hr. rewrite Hfr by lia. reflexivity.
  - exists x'. split; [exact E|]. repeat split; auto. intros c Hc. apply P'. lia.
Qed.

(* L y = b with a general (non-unit) diagonal: a_real_llt_lower(_) *)
Definition llt_lower_gen (L y : list R) : option (list R) :=
  for_range 0 n (fun r y =>
    do y1 <- for_range 0 r (fun c y =>
               do yr <- rd y (ix r); do l <- rd L (n * r + c); do yc <- rd y (ix c);
               wr y (ix r) (sub RO yr (mul RO l yc))) y;
    do yr <- rd y1 (ix r); do l <- rd L (n * r + r);
    wr y1 (ix r) (div RO yr l)) y.

Lemma llt_lower_gen_spec (L y : list R) :
  length L = (n * n)%nat -> vec_ok y ->
  exists y', llt_lower_gen L y = Some y' /\ length y' = length y /\
    (forall k, off_vec k -> nth k y' 0 = nth k y 0) /\
    forall r, (r < n)%nat ->
      vg y' r = (vg y r - isum (fun c => mg n L r c * vg y' c) 0 r) / mg n L r r.
Proof.
  intros LL Hok. unfold llt_lower_gen.
  destruct (for_range_inv
              (fun k (y' : list R) =>
                 length y' = length y /\ (forall j, off_vec j -> nth j y' 0 = nth j y 0) /\
                 (forall r, (k <= r < n)%nat -> vg y' r = vg y r) /\
                 (forall r, (r < k)%nat ->
                    vg y' r = (vg y r - isum (fun c => mg n L r c * vg y' c) 0 r) / mg n L r r))
              0 n
              (fun r y =>
                 do y1 <- for_range 0 r (fun c y =>
                            do yr <- rd y (ix r); do l <- rd L (n * r + c); do yc <- rd y (ix c);
                            wr y (ix r) (sub RO yr (mul RO l yc))) y;
                 do yr <- rd y1 (ix r); do l <- rd L (n * r + r);
                 wr y1 (ix r) (div RO yr l)) y) as (y' & E & L' & F' & _ & P').
  - lia.
  - repeat split; auto. intros; lia.
  - intros k y1 [_ Hk] (L1 & F1 & U1 & D1).
    destruct (axpy_loop L (fun c => (n * k + c)%nat) (fun c => mg n L k c) k 0 k y1) as (y2 & E2 & L2 & F2 & V2); auto.
    + intros c Hc. apply (rd_mg n); auto; lia.
    + intros c Hc. lia.
    + eapply vec_ok_len; eauto.
    + rewrite E2.
      destruct (div_at L (n * k + k)%nat (mg n L k k) k y2) as (y3 & E3 & L3 & F3 & V3); auto.
      * apply (rd_mg n); auto.
      * eapply vec_ok_len; [|exact Hok]. congruence.
      * exists y3. split; [exact E3|]. split; [congruence|].
        assert (Hfr : forall c, (c < n)%nat -> c <> k -> vg y3 c = vg y1 c).
        { intros c Hc Nc. rewrite (vg_frame y2 y3 k c), (vg_frame y1 y2 k c) by auto. reflexivity. }
        split; [|split].
        -- intros j Hj. rewrite F3, F2 by (apply Hj; auto). auto.
        -- intros r Hr. rewrite Hfr by lia. apply U1. lia.
        -- intros r Hr. destruct (Nat.eq_dec r k) as [->|N].
           ++ rewrite V3, V2. rewrite U1 by lia. f_equal. f_equal.
              apply isum_ext. intros c Hc. rewrite Hfr by lia. reflexivity.
           ++ rewrite Hfr by lia. rewrite D1 by lia. f_equal. f_equal.
              apply isum_ext. intros c Hc. rewrite Hfr by lia. reflexivity.
  - exists y'. split; [exact E|]. repeat split; auto.
Qed.

(* L^T x = y : a_real_llt_upper(_) *)
Definition llt_upper_gen (L x : list R) : option (list R) :=
  for_down n (fun c x =>
    do lcc <- rd L ((n + 1) * c);
    do x1 <- for_range (c + 1) n (fun r x =>
               do xc <- rd x (ix c); do l <- rd L ((n + 1) * c + n * (r - c)); do xr <- rd x (ix r);
               wr x (ix c) (sub RO xc (mul RO l xr))) x;
    do xc <- rd x1 (ix c);
    wr x1 (ix c) (div RO xc lcc)) x.

Lemma llt_upper_gen_spec (L x : list R) :
  length L = (n * n)%nat -> vec_ok x ->
  exists x', llt_upper_gen L x = Some x' /\ length x' = length x /\
    (forall k, off_vec k -> nth k x' 0 = nth k x 0) /\
    forall c, (c < n)%nat ->
      vg x' c = (vg x c - isum (fun r => mg n L r c * vg x' r) (c + 1) n) / mg n L c c.
Proof.
  intros LL Hok. unfold llt_upper_gen.
  destruct (for_down_inv
              (fun k (x' : list R) =>
                 length x' = length x /\ (forall j, off_vec j -> nth j x' 0 = nth j x 0) /\
                 (forall c, (c < k)%nat -> vg x' c = vg x c) /\
                 (forall c, (k <= c < n)%nat ->
                    vg x' c = (vg x c - isum (fun r => mg n L r c * vg x' r) (c + 1) n) / mg n L c c))
              (fun c x =>
                 do lcc <- rd L ((n + 1) * c);
                 do x1 <- for_range (c + 1) n (fun r x =>
                            do xc <- rd x (ix c); do l <- rd L ((n + 1) * c + n * (r - c)); do xr <- rd x (ix r);
                            wr x (ix c) (sub RO xc (mul RO l xr))) x;
                 do xc <- rd x1 (ix c);
                 wr x1 (ix c) (div RO xc lcc)) n x) as (x' & E & L' & F' & _ & P').
  - repeat split; auto. intros; lia.
  - intros k x1 Hk (L1 & F1 & U1 & D1).
    assert (Hok1 : vec_ok x1) by (eapply vec_ok_len; eauto).
    assert (Hd : rd L ((n + 1) * k) = Some (mg n L k k)) by (rewrite idx_diag; apply (rd_mg n); auto).
    rewrite Hd.
    destruct (axpy_loop L (fun r => ((n + 1) * k + n * (r - k))%nat) (fun r => mg n L r k) k (k + 1) n x1)
      as (x2 & E2 & L2 & F2 & V2); auto.
    + intros r Hr. rewrite idx_walk by lia. apply (rd_mg n); auto; lia.
    + intros r Hr. lia.
    + rewrite E2.
      assert (Hok2 : vec_ok x2) by (eapply vec_ok_len; eauto).
      rewrite (rd_some 0) by (apply Hok2; auto).
      rewrite wr_some by (apply Hok2; auto).
      match goal with |- context [Some (upd x2 ?i ?v)] => set (x3 := upd x2 i v) end.
      exists x3. split; [reflexivity|]. split; [unfold x3; rewrite upd_length; congruence|].
      assert (Hfr : forall c, (c < n)%nat -> c <> k -> vg x3 c = vg x1 c).
      { intros c Hc Nc. unfold vg, x3. rewrite nth_upd_other by (intros Ek; apply ix_inj in Ek; auto).
        apply (vg_frame x1 x2 k c); auto. }
      split; [|split].
      * intros j Hj. unfold x3. rewrite nth_upd_other by (apply Hj; auto).
        rewrite F2 by (apply Hj; auto). auto.
      * intros c Hc. rewrite (Hfr c) by lia. apply U1. lia.
      * intros c Hc. destruct (Nat.eq_dec c k) as [->|N].
        -- assert (Hx3k : vg x3 k = vg x2 k / mg n L k k).
           { unfold vg, x3. rewrite nth_upd_same by (apply Hok2; auto). reflexivity. }
           rewrite Hx3k, V2. rewrite U1 by lia. f_equal. f_equal.
           apply isum_ext. intros r Hr. rewrite (Hfr r) by lia. reflexivity.
        -- rewrite (Hfr c) by lia. rewrite D1 by lia. f_equal. f_equal.
           apply isum_ext. intros r Hr. rewrite (Hfr r) by lia. reflexivity.
  - exists x'. split; [exact E|]. repeat split; auto. intros c Hc. apply P'. lia.
Qed.

(* ---- the forward substitutions inlined in a_real_ldl_inv(_) / a_real_llt_inv(_): the right-hand
   side is the unit vector e_i, so the loops start at row i and column i ---- *)
Definition dlt (r i : nat) : R := if Nat.eqb r i then 1 else 0.

Definition fwd_unit_gen (i : nat) (L y : list R) : option (list R) :=
  for_range i n (fun r y =>
    for_range i r (fun c y =>
      do yr <- rd y (ix r); do a <- rd L (n * r + c); do yc <- rd y (ix c);
      wr y (ix r) (sub RO yr (mul RO a yc))) y) y.

Lemma fwd_unit_gen_spec i (L y : list R) :
  length L = (n * n)%nat -> vec_ok y -> (i < n)%nat ->
  (forall r, (r < n)%nat -> vg y r = dlt r i) ->
  exists y', fwd_unit_gen i L y = Some y' /\ length y' = length y /\
    (forall k, off_vec k -> nth k y' 0 = nth k y 0) /\
    forall r, (r < n)%nat -> vg y' r = dlt r i - isum (fun c => mg n L r c * vg y' c) 0 r.
Proof.
  intros LL Hok Hi Hy. unfold fwd_unit_gen.
  destruct (for_range_inv
              (fun k (y' : list R) =>
                 length y' = length y /\ (forall j, off_vec j -> nth j y' 0 = nth j y 0) /\
                 (forall r, (r < i)%nat -> vg y' r = 0) /\
                 (forall r, (k <= r < n)%nat -> vg y' r = dlt r i) /\
                 (forall r, (i <= r < k)%nat -> vg y' r = dlt r i - isum (fun c => mg n L r c * vg y' c) i r))
              i n
              (fun r y => for_range i r (fun c y =>
                 do yr <- rd y (ix r); do a <- rd L (n * r + c); do yc <- rd y (ix c);
                 wr y (ix r) (sub RO yr (mul RO a yc))) y) y) as (y' & E & L' & F' & Z' & _ & P').
  - lia.
  - repeat split; auto.
    + intros r Hr. rewrite Hy by lia. unfold dlt. destruct (Nat.eqb_spec r i); [lia|reflexivity].
    + intros r Hr. apply Hy. lia.
    + intros; lia.
  - intros k y1 Hk (L1 & F1 & Z1 & U1 & D1).
    destruct (axpy_loop L (fun c => (n * k + c)%nat) (fun c => mg n L k c) k i k y1) as (y2 & E2 & L2 & F2 & V2); auto.
    + intros c Hc. apply (rd_mg n); auto; lia.
    + lia.
    + intros c Hc. lia.
    + eapply vec_ok_len; eauto.
    + exists y2. split; [exact E2|]. split; [congruence|]. split; [|split; [|split]].
      * intros j Hj. rewrite F2 by (apply Hj; lia). auto.
      * intros r Hr. rewrite (vg_frame y1 y2 k r) by (auto; lia). auto.
      * intros r Hr. rewrite (vg_frame y1 y2 k r) by (auto; lia). apply U1. lia.
      * intros r Hr. destruct (Nat.eq_dec r k) as [->|N].
        -- rewrite V2. rewrite U1 by lia. f_equal. apply isum_ext. intros c Hc.
           rewrite (vg_frame y1 y2 k c) by (auto; lia). reflexivity.
        -- rewrite (vg_frame y1 y2 k r) by (auto; lia). rewrite D1 by lia. f_equal.
           apply isum_ext. intros c Hc. rewrite (vg_frame y1 y2 k c) by (auto; lia). reflexivity.
  - exists y'. split; [exact E|]. split; auto. split; auto.
    intros r Hr. destruct (le_lt_dec i r) as [Hir|Hri].
    + rewrite P' by lia. f_equal. symmetry. apply isum_skip; auto.
      intros c Hc. rewrite Z' by auto. lra.
    + rewrite Z' by auto. unfold dlt. destruct (Nat.eqb_spec r i); [lia|].
      rewrite isum_0. rewrite rsum_zero; [lra|]. intros c Hc. rewrite Z' by lia. lra.
Qed.

Definition fwd_div_gen (i : nat) (L y : list R) : option (list R) :=
  for_range i n (fun r y =>
    do y' <- for_range i r (fun c y =>
               do yr <- rd y (ix r); do a <- rd L (n * r + c); do yc <- rd y (ix c);
               wr y (ix r) (sub RO yr (mul RO a yc))) y;
    do yr <- rd y' (ix r); do a <- rd L (n * r + r);
    wr y' (ix r) (div RO yr a)) y.

Lemma fwd_div_gen_spec i (L y : list R) :
  length L = (n * n)%nat -> vec_ok y -> (i < n)%nat ->
  (forall r, (r < n)%nat -> vg y r = dlt r i) ->
  exists y', fwd_div_gen i L y = Some y' /\ length y' = length y /\
    (forall k, off_vec k -> nth k y' 0 = nth k y 0) /\
    forall r, (r < n)%nat -> vg y' r = (dlt r i - isum (fun c => mg n L r c * vg y' c) 0 r) / mg n L r r.
Proof.
  intros LL Hok Hi Hy. unfold fwd_div_gen.
  destruct (for_range_inv
              (fun k (y' : list R) =>
                 length y' = length y /\ (forall j, off_vec j -> nth j y' 0 = nth j y 0) /\
                 (forall r, (r < i)%nat -> vg y' r = 0) /\
                 (forall r, (k <= r < n)%nat -> vg y' r = dlt r i) /\
                 (forall r, (i <= r < k)%nat ->
                    vg y' r = (dlt r i - isum (fun c => mg n L r c * vg y' c) i r) / mg n L r r))
              i n
              (fun r y =>
                 do y' <- for_range i r (fun c y =>
                            do yr <- rd y (ix r); do a <- rd L (n * r + c); do yc <- rd y (ix c);
                            wr y (ix r) (sub RO yr (mul RO a yc))) y;
                 do yr <- rd y' (ix r); do a <- rd L (n * r + r);
                 wr y' (ix r) (div RO yr a)) y) as (y' & E & L' & F' & Z' & _ & P').
  - lia.
  - repeat split; auto.
    + intros r Hr. rewrite Hy by lia. unfold dlt. destruct (Nat.eqb_spec r i); [lia|reflexivity].
    + intros r Hr. apply Hy. lia.
    + intros; lia.
  - intros k y1 Hk (L1 & F1 & Z1 & U1 & D1).
    destruct (axpy_loop L (fun c => (n * k + c)%nat) (fun c => mg n L k c) k i k y1) as (y2 & E2 & L2 & F2 & V2); auto.
    + intros c Hc. apply (rd_mg n); auto; lia.
    + lia.
    + intros c Hc. lia.
    + eapply vec_ok_len; eauto.
    + rewrite E2.
      destruct (div_at L (n * k + k)%nat (mg n L k k) k y2) as (y3 & E3 & L3 & F3 & V3); auto.
      * apply (rd_mg n); auto; lia.
      * lia.
      * eapply vec_ok_len; [|exact Hok]. congruence.
      * exists y3. split; [exact E3|]. split; [congruence|].
        assert (Hfr : forall c, (c < n)%nat -> c <> k -> vg y3 c = vg y1 c).
        { intros c Hc Nc. rewrite (vg_frame y2 y3 k c), (vg_frame y1 y2 k c) by (auto; lia). reflexivity. }
        split; [|split; [|split]].
        -- intros j Hj. rewrite F3, F2 by (apply Hj; lia). auto.
        -- intros r Hr. rewrite Hfr by lia. auto.
        -- intros r Hr. rewrite Hfr by lia. apply U1. lia.
        -- intros r Hr. destruct (Nat.eq_dec r k) as [->|N].
           ++ rewrite V3, V2. rewrite U1 by lia. f_equal. f_equal.
              apply isum_ext. intros c Hc. rewrite Hfr by lia. reflexivity.
           ++ rewrite Hfr by lia. rewrite D1 by lia. f_equal. f_equal.
              apply isum_ext. intros c Hc. rewrite Hfr by lia. reflexivity.
  - exists y'. split; [exact E|]. split; auto. split; auto.
    intros r Hr. destruct (le_lt_dec i r) as [Hir|Hri].
    + rewrite P' by lia. f_equal. f_equal. symmetry. apply isum_skip; auto.
      intros c Hc. rewrite Z' by auto. lra.
    + rewrite Z' by auto. unfold dlt. destruct (Nat.eqb_spec r i); [lia|].
      rewrite isum_0. rewrite rsum_zero; [unfold Rdiv; lra|]. intros c Hc. rewrite Z' by lia. lra.
Qed.

End Solve.
