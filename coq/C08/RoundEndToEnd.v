(* C08: factorisation + solve in ONE statement for PLU and LDL^T, in the STANDARD MODEL OF FLOATING-POINT ARITHMETIC
   (Common/RoundOps.v:  |rnd x - x| <= eps |x| + eta,  rnd 0 = 0,  0 <= eps < 1/4,  0 <= eta), for EVERY order n and every
   input on which the ROUNDED factorisation succeeds (Higham, Accuracy and Stability of Numerical Algorithms, 2nd ed.,
   Thm 9.4 and its LDL^T analogue).  The Cholesky counterpart is RoundFactor.llt_solve_end_to_end (Thm 10.4).

   The model of FactorDefs.v is instantiated with [Rnd8_ops rnd tiny] (RoundSolve.v): every sub/mul/div is the exact real
   operation followed by rnd, the pivot tests and the pivot search compare the ROUNDED values exactly.  Overflow is
   outside that model.  gamma_k = k eps / (1 - k eps).

   What is proved, under  3 n eps < 1  and  0 < tiny  (nothing else: the pivots are non-zero because the run succeeded):

     PLU   a_real_plu on (A, p0) returns 0 with in-place factors M (strict lower part = multipliers l_rj, upper part =
           u_jc) and permutation array p;  x^ = a_real_plu_solve (M, p, b, x0).  Then there are dA, db with
             sum_c (A[i][c] + dA[i][c]) x^_c = b_i + db_i            for every row i < n            (EXACTLY)
             |dA[p[r]][c]| <= gamma_{3n} (|L^||U^|)_rc + (3n + |u_cc|)(1 + gamma_n) eta              (r, c < n)
             |db[p[r]]|    <= 3r (1 + gamma_r) eta + (1 + gamma_n) sum_{j<=r} |l_rj| (3(n-j) + |u_jj|)(1 + gamma_{n-j}) eta
           p a permutation of 0..n-1, so the last two lines bound every row:  |dA| <= gamma_{3n} P^T |L^||U^| + O(n) eta.
           db = 0 when eta = 0.                                     [plu_solve_end_to_end; row-of-PA form: ..._PA]

     LDL^T a_real_ldl on A returns 0 with in-place result M (d_c = M[c][c], l_rc = M[r][c] below the diagonal);
           x^ = a_real_ldl_solve (M, b);  A read as the symmetric matrix of its lower triangle (symlow).  Then
             sum_k (A_rk + dA_rk) x^_k = b_r + db_r                                                  (EXACTLY)
             |dA_rk| <= gamma_{3n} (|L^||D^||L^|^T)_rk + (3n + sum_{i<=min(r,k)} |d_i|)(1 + gamma_n) eta
             |db_r|  <= 3r (1 + gamma_r) eta + (1 + gamma_n) sum_{c<=r} |l_rc| |d_c| 3(n-c)(1 + gamma_{n-c}) eta
           db = 0 when eta = 0.  (gamma_{3n}, one index better than the gamma_{3n+1} of the Cholesky statement: no square
           root.)                                                                                   [ldl_solve_end_to_end]

   Method (that of llt_solve_end_to_end).  The factorisation theorem of RoundFactor.v bounds  A - L^ U^  by gamma_n;
   the two substitutions are run on the COMPUTED factors and each is, by the Oettli-Prager construction of RoundSolve.v,
   the EXACT solution of a system with perturbed factor,  (L^ + dL) y^ = b + db1,  (U^ + dU) x^ = y^ + db2,
   |dL| <= gamma_n |L^|, |dU| <= gamma_n |U^|;  hence  (L^ + dL)(U^ + dU) x^ = b + db1 + (L^ + dL) db2  and
   dA := (L^ + dL)(U^ + dU) - A  is bounded by  gamma_n + (2 gamma_n + gamma_n^2) <= gamma_{3n}  times |L^||U^|.
   For LDL^T, U^ := D^ L^^T and the second substitution a_real_ldl_upper (division FIRST) is put in perturbed form here
   ([ldl_upper_solve_perturbed]).  No choice axiom: dA and db are explicit.
   Non-vacuity: the theorems applied to the 2 x 2 runs of RoundFactor.v with the inexact rounding v -> v (1 + 1/8)
   (3 n eps = 3/4 < 1) at the end of the file; binary64: RoundEndToEnd64.v. *)
From Coq Require Import ZArith List Reals Lia Lra Psatz Bool Permutation.
From LibaV Require Import Common.RoundOps.
From LibaV Require Import C08.NumOps C08.FactorDefs C08.Instances C08.Base C08.PermProofs C08.PluSteps C08.PluProofs C08.PluTheorems
  C08.RoundSolve C08.RoundFactor.
Import ListNotations.
Local Open Scope R_scope.

(* ------------------------------------------------------------------------------------ products of triangular factors
   l r c is read for c <= r (lower), u c k for c <= k (upper): (l u)_rk = sum_{c <= min r k} l_rc u_ck *)
Definition tprod (l u : nat -> nat -> R) (r k : nat) : R := rsum (fun c => l r c * u c k) (S (Nat.min r k)).
Definition tabs (l u : nat -> nat -> R) (r k : nat) : R := rsum (fun c => Rabs (l r c) * Rabs (u c k)) (S (Nat.min r k)).

Lemma tabs_nonneg l u r k : 0 <= tabs l u r k.
Proof. apply rsum_nonneg. intros. apply Rmult_le_pos; apply Rabs_pos. Qed.

(* (L + dL) y = b + db1  and  (U + dU) x = y + db2  give  ((L + dL)(U + dU)) x = b + db1 + (L + dL) db2 *)
Lemma combine_eq n (lf uf dL dU : nat -> nat -> R) (b yh xh db1 db2 : nat -> R) r :
  (r < n)%nat ->
  rsum (fun c => (lf r c + dL r c) * yh c) (S r) = b r + db1 r ->
  (forall c, (c < n)%nat -> isum (fun k => (uf c k + dU c k) * xh k) c n = yh c + db2 c) ->
  rsum (fun k => tprod (fun r c => lf r c + dL r c) (fun c k => uf c k + dU c k) r k * xh k) n
  = b r + (db1 r + rsum (fun c => (lf r c + dL r c) * db2 c) (S r)).
Proof.
  intros Hr E1 E2.
  pose proof (tri_swap (fun c => lf r c + dL r c) (fun k c => uf c k + dU c k) xh r n) as TS.
  cbv beta in TS. unfold tprod. rewrite <- TS.
  rewrite (rsum_ext _ (fun c => (lf r c + dL r c) * yh c + (lf r c + dL r c) * db2 c)).
  - rewrite rsum_plus, E1. ring.
  - intros c Hc. rewrite E2 by lia. ring.
Qed.

(* |(L + dL)(U + dU) - L U| <= (2 g + g^2) |L||U| *)
Lemma combine_cross (lf uf dL dU : nat -> nat -> R) g r k :
  0 <= g ->
  (forall c, (c <= Nat.min r k)%nat -> Rabs (dL r c) <= g * Rabs (lf r c)) ->
  (forall c, (c <= Nat.min r k)%nat -> Rabs (dU c k) <= g * Rabs (uf c k)) ->
  Rabs (tprod (fun r c => lf r c + dL r c) (fun c k => uf c k + dU c k) r k - tprod lf uf r k)
  <= (g + g + g * g) * tabs lf uf r k.
Proof.
  intros Hg D1 D2. unfold tprod, tabs. rewrite <- rsum_minus.
  rewrite (rsum_ext _ (fun c => lf r c * dU c k + dL r c * uf c k + dL r c * dU c k)) by (intros; ring).
  eapply Rle_trans; [apply rsum_abs_le|]. rewrite <- rsum_scal. apply rsum_le. intros c Hc.
  apply cross_bound; auto.
  - apply D1. lia.
  - apply D2. lia.
Qed.

(* the perturbation of the right-hand side *)
Lemma combine_db (lf dL : nat -> nat -> R) (db1 db2 t2 : nat -> R) g t1 r :
  0 <= g ->
  (forall c, (c <= r)%nat -> Rabs (dL r c) <= g * Rabs (lf r c)) ->
  Rabs (db1 r) <= t1 -> (forall c, (c <= r)%nat -> Rabs (db2 c) <= t2 c) ->
  Rabs (db1 r + rsum (fun c => (lf r c + dL r c) * db2 c) (S r))
  <= t1 + (1 + g) * rsum (fun c => Rabs (lf r c) * t2 c) (S r).
Proof.
  intros Hg D1 B1 B2.
  eapply Rle_trans; [apply Rabs_triang|]. apply Rplus_le_compat; [exact B1|].
  eapply Rle_trans; [apply rsum_abs_le|]. rewrite <- rsum_scal. apply rsum_le. intros c Hc.
  rewrite Rabs_mult.
  assert (H : Rabs (lf r c + dL r c) <= (1 + g) * Rabs (lf r c)).
  { eapply Rle_trans; [apply Rabs_triang|]. specialize (D1 c ltac:(lia)). lra. }
  rewrite <- Rmult_assoc. apply Rmult_le_compat; try apply Rabs_pos; [exact H|apply B2; lia].
Qed.

(* a bound that is a multiple of eta vanishes with eta *)
Lemma abs_le_0 x : Rabs x <= 0 -> x = 0.
Proof.
  intros H. destruct (Req_dec x 0) as [Z|Z]; [exact Z|]. apply Rabs_pos_lt in Z. lra.
Qed.

(* ------------------------------------------------------------------------------------ the inverse of a permutation
   array, explicit (first position of v in l), so that the perturbation of row i of A can be NAMED *)
Fixpoint pidx (v : nat) (l : list nat) : nat :=
  match l with
  | [] => 0%nat
  | x :: t => if Nat.eqb x v then 0%nat else S (pidx v t)
  end.

Lemma pidx_spec v : forall l, In v l -> (pidx v l < length l)%nat /\ nth (pidx v l) l 0%nat = v.
Proof.
  induction l as [|x t IH]; intros I; [destruct I|].
  cbn [pidx]. destruct (Nat.eqb_spec x v) as [->|N].
  - cbn. split; [lia|reflexivity].
  - destruct I as [I|I]; [contradiction|]. destruct (IH I) as [H1 H2]. cbn [length nth]. split; [lia|exact H2].
Qed.

Lemma perm_pidx l n v : Permutation l (seq 0 n) -> (v < n)%nat -> (pidx v l < n)%nat /\ nth (pidx v l) l 0%nat = v.
Proof.
  intros P Hv. assert (L : length l = n) by (rewrite (Permutation_length P); apply seq_length).
  assert (I : In v l) by (eapply Permutation_in; [symmetry; exact P|]; apply in_seq; lia).
  destruct (pidx_spec v l I) as [H1 H2]. split; [lia|exact H2].
Qed.

Lemma perm_pidx_nth l n r : Permutation l (seq 0 n) -> (r < n)%nat -> pidx (nth r l 0%nat) l = r.
Proof.
  intros P Hr. pose proof (perm_nth_lt l n r P Hr) as Hv.
  destruct (perm_pidx l n (nth r l 0%nat) P Hv) as [H1 H2].
  apply (perm_nth_inj l n _ _ P H1 Hr H2).
Qed.

(* ------------------------------------------------------------------------------------ the in-place storage read as factors *)
(* unit lower triangular factor: RoundSolve.lrow n M r c = M[r][c] for c < r, 1 otherwise (read for c <= r) *)
Lemma lrow_lt n M r c : (c < r)%nat -> lrow n M r c = mg n M r c.
Proof. intros H. unfold lrow. destruct (Nat.ltb_spec c r); [reflexivity|lia]. Qed.
Lemma lrow_diag n M r : lrow n M r r = 1.
Proof. unfold lrow. rewrite Nat.ltb_irrefl. reflexivity. Qed.

(* (L U)_rc and (|L||U|)_rc of RoundFactor.v are the triangular products *)
Lemma lu_cell_tprod n M r c : lu_cell (mg n M) r c = tprod (lrow n M) (mg n M) r c.
Proof.
  unfold lu_cell, tprod. destruct (Nat.leb_spec r c) as [H|H].
  - replace (Nat.min r (S c)) with r by lia. replace (Nat.min r c) with r by lia.
    rewrite (lrow_sum n M r (fun j v => v * mg n M j c)). rewrite Rmult_1_l. reflexivity.
  - replace (Nat.min r (S c)) with (S c) by lia. replace (Nat.min r c) with c by lia.
    rewrite Rplus_0_r. apply rsum_ext. intros j Hj. rewrite lrow_lt by lia. reflexivity.
Qed.
Lemma lu_abs_cell_tabs n M r c : lu_abs_cell (mg n M) r c = tabs (lrow n M) (mg n M) r c.
Proof.
  unfold lu_abs_cell, tabs. destruct (Nat.leb_spec r c) as [H|H].
  - replace (Nat.min r (S c)) with r by lia. replace (Nat.min r c) with r by lia.
    rewrite (lrow_sum n M r (fun j v => Rabs v * Rabs (mg n M j c))). rewrite Rabs_R1, Rmult_1_l. reflexivity.
  - replace (Nat.min r (S c)) with (S c) by lia. replace (Nat.min r c) with c by lia.
    rewrite Rplus_0_r. apply rsum_ext. intros j Hj. rewrite lrow_lt by lia. reflexivity.
Qed.

(* D L^T of the LDL^T storage as an upper triangular factor: (D L^T)_ck = d_c l_kc for c <= k *)
Definition dlt (n : nat) (M : list R) (c k : nat) : R := mg n M c c * lrow n M k c.

Lemma ldlt_tprod_sym n M r k : tprod (lrow n M) (dlt n M) r k = tprod (lrow n M) (dlt n M) k r.
Proof. unfold tprod, dlt. rewrite (Nat.min_comm k r). apply rsum_ext. intros; ring. Qed.
Lemma ldlt_tabs_sym n M r k : tabs (lrow n M) (dlt n M) r k = tabs (lrow n M) (dlt n M) k r.
Proof. unfold tabs, dlt. rewrite (Nat.min_comm k r). apply rsum_ext. intros. rewrite !Rabs_mult. ring. Qed.

Lemma ldlt_cell_tprod n M r k : (k <= r)%nat -> ldlt_cell (mg n M) r k = tprod (lrow n M) (dlt n M) r k.
Proof.
  intros H. unfold ldlt_cell, tprod, dlt. replace (Nat.min r k) with k by lia. rewrite rsum_S. f_equal.
  - apply rsum_ext. intros i Hi. rewrite !lrow_lt by lia. ring.
  - rewrite lrow_diag. destruct (Nat.eqb_spec r k) as [->|N].
    + rewrite lrow_diag. ring.
    + rewrite lrow_lt by lia. ring.
Qed.
Lemma ldlt_abs_cell_tabs n M r k : (k <= r)%nat -> ldlt_abs_cell (mg n M) r k = tabs (lrow n M) (dlt n M) r k.
Proof.
  intros H. unfold ldlt_abs_cell, tabs, dlt. replace (Nat.min r k) with k by lia. rewrite rsum_S. f_equal.
  - apply rsum_ext. intros i Hi. rewrite !lrow_lt by lia. rewrite !Rabs_mult. ring.
  - rewrite lrow_diag. destruct (Nat.eqb_spec r k) as [->|N].
    + rewrite lrow_diag. rewrite !Rabs_mult, Rabs_R1. ring.
    + rewrite lrow_lt by lia. rewrite !Rabs_mult, Rabs_R1. ring.
Qed.

Section EndToEnd.
Variable rnd : R -> R.
Variables eps eta tiny : R.
Hypothesis M : std_model rnd eps eta.
Hypothesis tiny_pos : 0 < tiny.
Local Notation QO := (Rnd8_ops rnd tiny).

(* gamma_n + (2 gamma_n + gamma_n^2) <= gamma_{3n} *)
Lemma gamma_3n n : INR (3 * n) * eps < 1 ->
  INR n * eps < 1 /\ 0 <= gamma eps n /\
  gamma eps n + (gamma eps n + gamma eps n + gamma eps n * gamma eps n) <= gamma eps (3 * n).
Proof.
  intros H3n. pose proof (eps_ge0 _ _ _ M) as He.
  assert (Hsmall : forall k, (k <= 3 * n)%nat -> INR k * eps < 1).
  { intros k Hk. apply le_INR in Hk. nra. }
  assert (Hn : INR n * eps < 1) by (apply Hsmall; lia).
  pose proof (gamma_ge0 _ _ _ M n Hn) as Gn0.
  pose proof (gamma_ge0 _ _ _ M (n + n) (Hsmall (n + n)%nat ltac:(lia))) as Gnn0.
  pose proof (gamma_add eps n n He (Hsmall (n + n)%nat ltac:(lia))) as G2.
  pose proof (gamma_add eps n (n + n) He (Hsmall (n + (n + n))%nat ltac:(lia))) as G3.
  replace (n + (n + n))%nat with (3 * n)%nat in G3 by lia.
  pose proof (Rmult_le_pos _ _ Gn0 Gnn0).
  split; [exact Hn|]. split; [exact Gn0|]. lra.
Qed.

(* ================================================================================ PLU: rows of P A
   row r of P A is row p[r] of A, row r of P b is b[p[r]] *)
Theorem plu_solve_end_to_end_PA n (A : list R) (p0 : list nat) (b x0 : list R) :
  length A = (n * n)%nat -> length p0 = n -> length b = n -> length x0 = n -> INR (3 * n) * eps < 1 ->
  exists rc st, plu QO n A p0 = Some (rc, st) /\ length (pA st) = (n * n)%nat /\ length (pp st) = n /\
    (rc = 0%nat \/ rc = 1%nat) /\
    (rc = 0%nat ->
       Permutation (pp st) (seq 0 n) /\
       exists xh (dA : nat -> nat -> R) (db : nat -> R),
         plu_solve QO n (pA st) (pp st) b x0 = Some xh /\ length xh = n /\
         (forall r, (r < n)%nat ->
            rsum (fun c => (mg n A (nth r (pp st) 0%nat) c + dA r c) * nth c xh 0) n
            = nth (nth r (pp st) 0%nat) b 0 + db r) /\
         (forall r c, (r < n)%nat -> (c < n)%nat ->
            Rabs (dA r c)
            <= gamma eps (3 * n) * lu_abs_cell (mg n (pA st)) r c
               + (3 * INR n + Rabs (mg n (pA st) c c)) * (1 + gamma eps n) * eta) /\
         (forall r, (r < n)%nat ->
            Rabs (db r)
            <= 3 * INR r * (1 + gamma eps r) * eta
               + (1 + gamma eps n)
                 * rsum (fun j => Rabs (lrow n (pA st) r j)
                                  * ((3 * INR (n - j) + Rabs (mg n (pA st) j j)) * (1 + gamma eps (n - j)) * eta)) (S r))).
Proof.
  intros LA Lp Lb Lx H3n.
  destruct (gamma_3n n H3n) as (Hn & Gn0 & G3).
  assert (Gmono : forall k, (k <= n)%nat -> gamma eps k <= gamma eps n) by (intros k Hk; apply (gamma_mono _ _ _ M); auto).
  destruct (plu_backward_error_uniform rnd eps eta tiny M tiny_pos n A p0 LA Lp Hn) as (rc & st & E & L1 & L2 & Hrc & P).
  exists rc, st. split; [exact E|]. split; [exact L1|]. split; [exact L2|]. split; [exact Hrc|]. intros Hz.
  destruct (P Hz) as (Pp & _ & Do & _ & PF). split; [exact Pp|].
  assert (Hd : forall r, (r < n)%nat -> mg n (pA st) r r <> 0).
  { intros r Hr Z. specialize (Do r Hr). rewrite Z, Rabs_R0 in Do. lra. }
  destruct (plu_apply_spec n (pp st) b x0 L2) as (Pb & Ea & LPb & HPb); auto.
  { intros i Hi. rewrite Lb. apply (perm_nth_lt _ n); auto. }
  unfold pfun in HPb.
  destruct (lower_solve_perturbed rnd eps eta tiny M n (pA st) Pb L1 LPb Hn) as (yh & dL & db1 & E1 & Ly & P1).
  destruct (upper_solve_perturbed rnd eps eta tiny M n (pA st) yh L1 Ly Hd Hn) as (xh & dU & db2 & E2 & Lxh & P2).
  set (Mh := pA st) in *.
  (* the two substitutions in the shape of the combination lemmas *)
  assert (D1 : forall r c, (r < n)%nat -> (c <= r)%nat -> Rabs (dL r c) <= gamma eps n * Rabs (lrow n Mh r c)).
  { intros r c Hr Hc. destruct (P1 r Hr) as (Da & Db & _ & _). specialize (Gmono r ltac:(lia)).
    destruct (Nat.eq_dec c r) as [->|N].
    - rewrite lrow_diag, Rabs_R1. lra.
    - rewrite lrow_lt by lia. eapply Rle_trans; [apply Da; lia|]. apply Rmult_le_compat_r; [apply Rabs_pos|exact Gmono]. }
  assert (D2 : forall c k, (c < n)%nat -> (c <= k)%nat -> Rabs (dU c k) <= gamma eps n * Rabs (mg n Mh c k)).
  { intros c k Hc Hk. destruct (P2 c Hc) as (Da & _ & _).
    eapply Rle_trans; [apply Da; exact Hk|]. apply Rmult_le_compat_r; [apply Rabs_pos|]. apply Gmono. lia. }
  exists xh,
    (fun r c => tprod (fun r j => lrow n Mh r j + dL r j) (fun j c => mg n Mh j c + dU j c) r c - mg n A (nth r (pp st) 0%nat) c),
    (fun r => db1 r + rsum (fun j => (lrow n Mh r j + dL r j) * db2 j) (S r)).
  split; [unfold plu_solve; rewrite Ea, E1; exact E2|]. split; [exact Lxh|]. split; [|split].
  - (* the computed solution solves the perturbed system exactly *)
    intros r Hr.
    rewrite (rsum_ext _ (fun c => tprod (fun r j => lrow n Mh r j + dL r j) (fun j c => mg n Mh j c + dU j c) r c * nth c xh 0))
      by (intros; ring).
    rewrite <- (HPb r Hr).
    apply (combine_eq n (lrow n Mh) (mg n Mh) dL dU (fun i => nth i Pb 0) (fun i => nth i yh 0) (fun i => nth i xh 0) db1 db2 r Hr).
    + destruct (P1 r Hr) as (_ & _ & _ & Eq1).
      rewrite (lrow_sum n Mh r (fun c v => (v + dL r c) * nth c yh 0)). exact Eq1.
    + intros c Hc. destruct (P2 c Hc) as (_ & _ & Eq2). exact Eq2.
  - (* the perturbation of the matrix *)
    intros r c Hr Hc.
    pose proof (combine_cross (lrow n Mh) (mg n Mh) dL dU (gamma eps n) r c Gn0
                  (fun j Hj => D1 r j Hr ltac:(lia)) (fun j Hj => D2 j c ltac:(lia) ltac:(lia))) as B1.
    pose proof (PF r c Hr Hc) as B2. rewrite lu_cell_tprod, lu_abs_cell_tabs in B2. rewrite lu_abs_cell_tabs.
    pose proof (tabs_nonneg (lrow n Mh) (mg n Mh) r c) as HW.
    set (W := tabs (lrow n Mh) (mg n Mh) r c) in *. set (LU := tprod (lrow n Mh) (mg n Mh) r c) in *.
    match goal with |- Rabs (?T - ?S) <= _ => replace (T - S) with ((T - LU) - (S - LU)) by ring end.
    eapply Rle_trans; [apply Rabs_triang|]. rewrite Rabs_Ropp.
    assert (gamma eps n * W + (gamma eps n + gamma eps n + gamma eps n * gamma eps n) * W <= gamma eps (3 * n) * W).
    { rewrite <- Rmult_plus_distr_r. apply Rmult_le_compat_r; [exact HW|exact G3]. }
    lra.
  - (* the perturbation of the right-hand side *)
    intros r Hr. destruct (P1 r Hr) as (_ & _ & B1 & _).
    apply (combine_db (lrow n Mh) dL db1 db2
             (fun j => (3 * INR (n - j) + Rabs (mg n Mh j j)) * (1 + gamma eps (n - j)) * eta) (gamma eps n)); auto.
    intros j Hj. destruct (P2 j ltac:(lia)) as (_ & B2 & _). exact B2.
Qed.

(* ================================================================================ PLU: rows of A  (Higham Thm 9.4)
   the perturbation of row i of A is the one of row r of P A, r the position of i in p *)
Theorem plu_solve_end_to_end n (A : list R) (p0 : list nat) (b x0 : list R) :
  length A = (n * n)%nat -> length p0 = n -> length b = n -> length x0 = n -> INR (3 * n) * eps < 1 ->
  exists rc st, plu QO n A p0 = Some (rc, st) /\ length (pA st) = (n * n)%nat /\ length (pp st) = n /\
    (rc = 0%nat \/ rc = 1%nat) /\
    (rc = 0%nat ->
       Permutation (pp st) (seq 0 n) /\
       exists xh (dA : nat -> nat -> R) (db : nat -> R),
         plu_solve QO n (pA st) (pp st) b x0 = Some xh /\ length xh = n /\
         (forall i, (i < n)%nat -> rsum (fun c => (mg n A i c + dA i c) * nth c xh 0) n = nth i b 0 + db i) /\
         (forall r c, (r < n)%nat -> (c < n)%nat ->
            Rabs (dA (nth r (pp st) 0%nat) c)
            <= gamma eps (3 * n) * lu_abs_cell (mg n (pA st)) r c
               + (3 * INR n + Rabs (mg n (pA st) c c)) * (1 + gamma eps n) * eta) /\
         (forall r, (r < n)%nat ->
            Rabs (db (nth r (pp st) 0%nat))
            <= 3 * INR r * (1 + gamma eps r) * eta
               + (1 + gamma eps n)
                 * rsum (fun j => Rabs (lrow n (pA st) r j)
                                  * ((3 * INR (n - j) + Rabs (mg n (pA st) j j)) * (1 + gamma eps (n - j)) * eta)) (S r)) /\
         (eta = 0 -> forall i, (i < n)%nat -> db i = 0)).
Proof.
  intros LA Lp Lb Lx H3n.
  destruct (plu_solve_end_to_end_PA n A p0 b x0 LA Lp Lb Lx H3n) as (rc & st & E & L1 & L2 & Hrc & P).
  exists rc, st. split; [exact E|]. split; [exact L1|]. split; [exact L2|]. split; [exact Hrc|]. intros Hz.
  destruct (P Hz) as (Pp & xh & dA & db & Es & Lxh & Eq & BA & Bb). split; [exact Pp|].
  exists xh, (fun i c => dA (pidx i (pp st)) c), (fun i => db (pidx i (pp st))).
  split; [exact Es|]. split; [exact Lxh|]. split; [|split; [|split]].
  - intros i Hi. destruct (perm_pidx (pp st) n i Pp Hi) as [H1 H2].
    pose proof (Eq (pidx i (pp st)) H1) as Q. rewrite H2 in Q. exact Q.
  - intros r c Hr Hc. rewrite (perm_pidx_nth (pp st) n r Pp Hr). apply BA; assumption.
  - intros r Hr. rewrite (perm_pidx_nth (pp st) n r Pp Hr). apply Bb; assumption.
  - intros Z i Hi. destruct (perm_pidx (pp st) n i Pp Hi) as [H1 _].
    pose proof (Bb (pidx i (pp st)) H1) as Q. rewrite Z in Q. rewrite Rmult_0_r, Rplus_0_l in Q.
    rewrite (rsum_zero _ (S (pidx i (pp st)))) in Q by (intros; ring). rewrite Rmult_0_r in Q.
    apply abs_le_0. exact Q.
Qed.

(* ================================================================================ LDL^T: the second substitution
   a_real_ldl_upper in perturbed form: x^ solves EXACTLY (D L^T + dU) x^ = y + db, |dU_ck| <= gamma_{n-c} |d_c l_kc| *)
Theorem ldl_upper_solve_perturbed n (L y : list R) :
  length L = (n * n)%nat -> length y = n -> (forall r, (r < n)%nat -> mg n L r r <> 0) -> INR n * eps < 1 ->
  exists xh (dU : nat -> nat -> R) (db : nat -> R), ldl_upper QO n L y = Some xh /\ length xh = n /\
    forall c, (c < n)%nat ->
      (forall k, (c <= k)%nat -> Rabs (dU c k) <= gamma eps (n - c) * Rabs (dlt n L c k)) /\
      Rabs (db c) <= Rabs (mg n L c c) * (3 * INR (n - c) * (1 + gamma eps (n - c)) * eta) /\
      isum (fun k => (dlt n L c k + dU c k) * nth k xh 0) c n = nth c y 0 + db c.
Proof.
  intros LL Ly Hd Hn.
  destruct (ldl_upper_solve_backward_error rnd eps eta tiny M n L y LL Ly Hd Hn) as (xh & E & Lx & P).
  exists xh, (fun c => op_d (gamma eps (n - c)) n (urow c (dlt n L c)) (fun k => nth k xh 0) (nth c y 0)),
             (fun c => op_db (gamma eps (n - c)) n (urow c (dlt n L c)) (fun k => nth k xh 0) (nth c y 0)).
  split; [exact E|]. split; [exact Lx|]. intros c Hc. specialize (P c Hc).
  assert (Hre : INR (n - c) * eps < 1) by (apply (small_k _ _ _ M (n - c) n); [lia|exact Hn]).
  pose proof (gamma_ge0 _ _ _ M (n - c) Hre) as Hg.
  assert (Ht : 0 <= Rabs (mg n L c c) * (3 * INR (n - c) * (1 + gamma eps (n - c)) * eta)).
  { pose proof (pos_INR (n - c)). pose proof (eta_ge0 _ _ _ M). pose proof (Rabs_pos (mg n L c c)).
    repeat apply Rmult_le_pos; lra. }
  apply (op_isum _ _ c n (dlt n L c) (fun k => nth k xh 0) (nth c y 0) Hg Ht).
  (* the residual of RoundSolve.v, rewritten on the row c of D L^T *)
  rewrite !(isum_first _ c n) by lia. replace (c + 1)%nat with (S c) in P by lia.
  rewrite (isum_ext (fun k => dlt n L c k * nth k xh 0) (fun k => mg n L c c * (mg n L k c * nth k xh 0)) (S c) n)
    by (intros k Hk; unfold dlt; rewrite lrow_lt by lia; ring).
  rewrite (isum_ext (fun k => Rabs (dlt n L c k) * Rabs (nth k xh 0))
                    (fun k => Rabs (mg n L c c) * (Rabs (mg n L k c) * Rabs (nth k xh 0))) (S c) n)
    by (intros k Hk; unfold dlt; rewrite lrow_lt by lia; rewrite Rabs_mult; ring).
  rewrite !isum_scal. unfold dlt at 1 2. rewrite lrow_diag, Rmult_1_r.
  replace (mg n L c c * nth c xh 0 + mg n L c c * isum (fun k => mg n L k c * nth k xh 0) (S c) n)
    with (mg n L c c * (nth c xh 0 + isum (fun k => mg n L k c * nth k xh 0) (S c) n)) by ring.
  eapply Rle_trans; [exact P|]. apply Req_le. ring.
Qed.

(* ================================================================================ LDL^T  (the analogue of Higham Thm 9.4)
   A is read as the symmetric matrix of its lower triangle: RoundFactor.symlow n A r k = A[max r k][min r k];
   (|L^||D^||L^|^T)_rk = ldlt_abs_cell at (max r k, min r k) *)
Theorem ldl_solve_end_to_end n (A b : list R) :
  length A = (n * n)%nat -> length b = n -> INR (3 * n) * eps < 1 ->
  exists rc Mh, ldl QO n A = Some (rc, Mh) /\ length Mh = (n * n)%nat /\ (rc = 0%nat \/ rc = 1%nat) /\
    (rc = 0%nat ->
       exists xh (dA : nat -> nat -> R) (db : nat -> R),
         ldl_solve QO n Mh b = Some xh /\ length xh = n /\
         (forall r, (r < n)%nat -> rsum (fun k => (symlow n A r k + dA r k) * nth k xh 0) n = nth r b 0 + db r) /\
         (forall r k, (r < n)%nat -> (k < n)%nat ->
            Rabs (dA r k)
            <= gamma eps (3 * n) * ldlt_abs_cell (mg n Mh) (Nat.max r k) (Nat.min r k)
               + (3 * INR n + rsum (fun i => Rabs (mg n Mh i i)) (S (Nat.min r k))) * (1 + gamma eps n) * eta) /\
         (forall r, (r < n)%nat ->
            Rabs (db r)
            <= 3 * INR r * (1 + gamma eps r) * eta
               + (1 + gamma eps n)
                 * rsum (fun c => Rabs (lrow n Mh r c)
                                  * (Rabs (mg n Mh c c) * (3 * INR (n - c) * (1 + gamma eps (n - c)) * eta))) (S r)) /\
         (eta = 0 -> forall r, (r < n)%nat -> db r = 0)).
Proof.
  intros LA Lb H3n.
  destruct (gamma_3n n H3n) as (Hn & Gn0 & G3).
  assert (Gmono : forall k, (k <= n)%nat -> gamma eps k <= gamma eps n) by (intros k Hk; apply (gamma_mono _ _ _ M); auto).
  destruct (ldl_backward_error_uniform rnd eps eta tiny M tiny_pos n A LA Hn) as (rc & Mh & E & LL & Hrc & P).
  exists rc, Mh. split; [exact E|]. split; [exact LL|]. split; [exact Hrc|]. intros Hz.
  destruct (P Hz) as (Do & PF).
  assert (Hd : forall r, (r < n)%nat -> mg n Mh r r <> 0).
  { intros r Hr Z. specialize (Do r Hr). rewrite Z, Rabs_R0 in Do. lra. }
  destruct (lower_solve_perturbed rnd eps eta tiny M n Mh b LL Lb Hn) as (yh & dL & db1 & E1 & Ly & P1).
  destruct (ldl_upper_solve_perturbed n Mh yh LL Ly Hd Hn) as (xh & dU & db2 & E2 & Lxh & P2).
  assert (D1 : forall r c, (r < n)%nat -> (c <= r)%nat -> Rabs (dL r c) <= gamma eps n * Rabs (lrow n Mh r c)).
  { intros r c Hr Hc. destruct (P1 r Hr) as (Da & Db & _ & _). specialize (Gmono r ltac:(lia)).
    destruct (Nat.eq_dec c r) as [->|N].
    - rewrite lrow_diag, Rabs_R1. lra.
    - rewrite lrow_lt by lia. eapply Rle_trans; [apply Da; lia|]. apply Rmult_le_compat_r; [apply Rabs_pos|exact Gmono]. }
  assert (D2 : forall c k, (c < n)%nat -> (c <= k)%nat -> Rabs (dU c k) <= gamma eps n * Rabs (dlt n Mh c k)).
  { intros c k Hc Hk. destruct (P2 c Hc) as (Da & _ & _).
    eapply Rle_trans; [apply Da; exact Hk|]. apply Rmult_le_compat_r; [apply Rabs_pos|]. apply Gmono. lia. }
  assert (Bdb : forall r, (r < n)%nat ->
            Rabs (db1 r + rsum (fun c => (lrow n Mh r c + dL r c) * db2 c) (S r))
            <= 3 * INR r * (1 + gamma eps r) * eta
               + (1 + gamma eps n)
                 * rsum (fun c => Rabs (lrow n Mh r c)
                                  * (Rabs (mg n Mh c c) * (3 * INR (n - c) * (1 + gamma eps (n - c)) * eta))) (S r)).
  { intros r Hr. destruct (P1 r Hr) as (_ & _ & B1 & _).
    apply (combine_db (lrow n Mh) dL db1 db2
             (fun c => Rabs (mg n Mh c c) * (3 * INR (n - c) * (1 + gamma eps (n - c)) * eta)) (gamma eps n)); auto.
    intros c Hc. destruct (P2 c ltac:(lia)) as (_ & B2 & _). exact B2. }
  exists xh,
    (fun r k => tprod (fun r c => lrow n Mh r c + dL r c) (fun c k => dlt n Mh c k + dU c k) r k - symlow n A r k),
    (fun r => db1 r + rsum (fun c => (lrow n Mh r c + dL r c) * db2 c) (S r)).
  split; [unfold ldl_solve, ldl_lower; rewrite E1; exact E2|]. split; [exact Lxh|]. split; [|split; [|split]].
  - (* the computed solution solves the perturbed system exactly *)
    intros r Hr.
    rewrite (rsum_ext _ (fun k => tprod (fun r c => lrow n Mh r c + dL r c) (fun c k => dlt n Mh c k + dU c k) r k * nth k xh 0))
      by (intros; ring).
    apply (combine_eq n (lrow n Mh) (dlt n Mh) dL dU (fun i => nth i b 0) (fun i => nth i yh 0) (fun i => nth i xh 0) db1 db2 r Hr).
    + destruct (P1 r Hr) as (_ & _ & _ & Eq1).
      rewrite (lrow_sum n Mh r (fun c v => (v + dL r c) * nth c yh 0)). exact Eq1.
    + intros c Hc. destruct (P2 c Hc) as (_ & _ & Eq2). exact Eq2.
  - (* the perturbation of the matrix *)
    intros r k Hr Hk.
    pose proof (combine_cross (lrow n Mh) (dlt n Mh) dL dU (gamma eps n) r k Gn0
                  (fun c Hc => D1 r c Hr ltac:(lia)) (fun c Hc => D2 c k ltac:(lia) ltac:(lia))) as B1.
    set (W := tabs (lrow n Mh) (dlt n Mh) r k) in *. set (LDL := tprod (lrow n Mh) (dlt n Mh) r k) in *.
    assert (HW : 0 <= W) by apply tabs_nonneg.
    (* the factorisation, at the cell (max r k, min r k) that the code reads *)
    assert (EW : ldlt_abs_cell (mg n Mh) (Nat.max r k) (Nat.min r k) = W).
    { unfold W. destruct (le_lt_dec k r) as [Hkr|Hkr].
      - replace (Nat.max r k) with r by lia. replace (Nat.min r k) with k by lia. apply ldlt_abs_cell_tabs. exact Hkr.
      - replace (Nat.max r k) with k by lia. replace (Nat.min r k) with r by lia.
        rewrite ldlt_tabs_sym. apply ldlt_abs_cell_tabs. lia. }
    assert (B2 : Rabs (symlow n A r k - LDL)
                 <= gamma eps n * W
                    + (3 * INR n + rsum (fun i => Rabs (mg n Mh i i)) (S (Nat.min r k))) * (1 + gamma eps n) * eta).
    { rewrite <- EW. unfold symlow, LDL. destruct (le_lt_dec k r) as [Hkr|Hkr].
      - replace (Nat.max r k) with r by lia. replace (Nat.min r k) with k by lia.
        rewrite <- ldlt_cell_tprod by exact Hkr. apply PF; lia.
      - replace (Nat.max r k) with k by lia. replace (Nat.min r k) with r by lia.
        rewrite ldlt_tprod_sym, <- ldlt_cell_tprod by lia. apply PF; lia. }
    rewrite EW.
    match goal with |- Rabs (?T - ?S) <= _ => replace (T - S) with ((T - LDL) - (S - LDL)) by ring end.
    eapply Rle_trans; [apply Rabs_triang|]. rewrite Rabs_Ropp.
    assert (gamma eps n * W + (gamma eps n + gamma eps n + gamma eps n * gamma eps n) * W <= gamma eps (3 * n) * W).
    { rewrite <- Rmult_plus_distr_r. apply Rmult_le_compat_r; [exact HW|exact G3]. }
    lra.
  - exact Bdb.
  - intros Z r Hr. pose proof (Bdb r Hr) as Q. set (dbr := db1 r + rsum _ (S r)) in *. clearbody dbr.
    rewrite Z in Q. rewrite Rmult_0_r, Rplus_0_l in Q.
    rewrite (rsum_zero _ (S r)) in Q by (intros; ring). rewrite Rmult_0_r in Q.
    apply abs_le_0. exact Q.
Qed.

End EndToEnd.

(* ------------------------------------------------------------------------------------ non-vacuity
   The hypotheses are met by a rounding that is NOT exact, rnd v = v (1 + 1/8) (std_model_scale: eps = 1/8, eta = 0),
   tiny = 1, n = 2 (3 n eps = 3/4 < 1), on the 2 x 2 runs of RoundFactor.v, which succeed with factors that are not the
   exact ones (plu_2x2_scale: rows exchanged, l10 = 9/32 instead of 1/4; ldl_2x2_scale: l10 = 9/16 instead of 1/2). *)

(* PLU of [1 2; 4 3] (p = [1; 0]) followed by a_real_plu_solve with b = (1, 1): the computed solution solves a perturbed
   system exactly, rows of A, with |dA| <= gamma_6 P^T |L^||U^| and db = 0 *)
Example plu_end_to_end_2x2_scale :
  exists xh (dA : nat -> nat -> R) (db : nat -> R),
    plu_solve (Rnd8_ops (fun v => v * (1 + / 8)) 1) 2 [4; 3; 9 / 32; 2421 / 2048] [1%nat; 0%nat] [1; 1] [0; 0] = Some xh /\
    length xh = 2%nat /\
    (forall i, (i < 2)%nat -> rsum (fun c => (mg 2 [1; 2; 4; 3] i c + dA i c) * nth c xh 0) 2 = nth i [1; 1] 0 + db i) /\
    (forall r c, (r < 2)%nat -> (c < 2)%nat ->
       Rabs (dA (nth r [1%nat; 0%nat] 0%nat) c) <= gamma (/ 8) 6 * lu_abs_cell (mg 2 [4; 3; 9 / 32; 2421 / 2048]) r c) /\
    (forall i, (i < 2)%nat -> db i = 0).
Proof.
  destruct plu_2x2_scale as (l10 & u11 & E & -> & -> & _).
  assert (H6 : INR (3 * 2) * / 8 < 1) by (simpl; lra).
  destruct (plu_solve_end_to_end _ _ _ 1 std_model_scale Rlt_0_1 2 [1; 2; 4; 3] [7%nat; 7%nat] [1; 1] [0; 0]
              eq_refl eq_refl eq_refl eq_refl H6) as (rc & st & E' & _ & _ & _ & P).
  rewrite E in E'. injection E' as <- <-.
  destruct (P eq_refl) as (_ & xh & dA & db & Es & Lx & Eq & BA & _ & Z). cbn [pA pp] in *.
  exists xh, dA, db. split; [exact Es|]. split; [exact Lx|]. split; [exact Eq|]. split.
  - intros r c Hr Hc. specialize (BA r c Hr Hc). rewrite Rmult_0_r, Rplus_0_r in BA. exact BA.
  - exact (Z eq_refl).
Qed.

(* LDL^T of [4 2; 2 3] followed by a_real_ldl_solve with b = (1, 1) *)
Example ldl_end_to_end_2x2_scale :
  exists xh (dA : nat -> nat -> R) (db : nat -> R),
    ldl_solve (Rnd8_ops (fun v => v * (1 + / 8)) 1) 2 [4; 2; 9 / 16; 51543 / 32768] [1; 1] = Some xh /\ length xh = 2%nat /\
    (forall r, (r < 2)%nat -> rsum (fun k => (symlow 2 [4; 2; 2; 3] r k + dA r k) * nth k xh 0) 2 = nth r [1; 1] 0 + db r) /\
    (forall r k, (r < 2)%nat -> (k < 2)%nat ->
       Rabs (dA r k) <= gamma (/ 8) 6 * ldlt_abs_cell (mg 2 [4; 2; 9 / 16; 51543 / 32768]) (Nat.max r k) (Nat.min r k)) /\
    (forall r, (r < 2)%nat -> db r = 0).
Proof.
  destruct ldl_2x2_scale as (l10 & d1 & E & -> & -> & _).
  assert (H6 : INR (3 * 2) * / 8 < 1) by (simpl; lra).
  destruct (ldl_solve_end_to_end _ _ _ 1 std_model_scale Rlt_0_1 2 [4; 2; 2; 3] [1; 1] eq_refl eq_refl H6)
    as (rc & Mh & E' & _ & _ & P).
  rewrite E in E'. injection E' as <- <-.
  destruct (P eq_refl) as (xh & dA & db & Es & Lx & Eq & BA & _ & Z).
  exists xh, dA, db. split; [exact Es|]. split; [exact Lx|]. split; [exact Eq|]. split.
  - intros r k Hr Hk. specialize (BA r k Hr Hk). rewrite Rmult_0_r, Rplus_0_r in BA. exact BA.
  - exact (Z eq_refl).
Qed.

(* the computed solutions of the two examples are NOT the exact ones ((-1/5, 3/5) resp. (1/8, 1/4)): the residuals of
   A x^ = b are not zero, so the dA of the theorems is a genuine perturbation *)
Example plu_solve_2x2_scale_values :
  exists x0 x1,
    plu_solve (Rnd8_ops (fun v => v * (1 + / 8)) 1) 2 [4; 3; 9 / 32; 2421 / 2048] [1%nat; 0%nat] [1; 1] [0; 0] = Some [x0; x1] /\
    x0 = - (2050029 / 4407296) /\ x1 = 1575 / 2152 /\
    1 * x0 + 2 * x1 - 1 = - (6125 / 4407296) /\ 4 * x0 + 3 * x1 - 1 = - (732653 / 1101824).
Proof.
  eexists. eexists. split; [cbn; reflexivity|].
  assert (X1 : (1 - 9 / 32 * 1 * (1 + / 8)) * (1 + / 8) / (2421 / 2048) * (1 + / 8) = 1575 / 2152) by field.
  rewrite X1.
  assert (X0 : (1 - 3 * (1575 / 2152) * (1 + / 8)) * (1 + / 8) / 4 * (1 + / 8) = - (2050029 / 4407296)) by field.
  rewrite X0. repeat split; field.
Qed.

Example ldl_solve_2x2_scale_values :
  exists x0 x1,
    ldl_solve (Rnd8_ops (fun v => v * (1 + / 8)) 1) 2 [4; 2; 9 / 16; 51543 / 32768] [1; 1] = Some [x0; x1] /\
    x0 = 405 / 3818 /\ x1 = 564 / 1909 /\
    4 * x0 + 2 * x1 - 1 = 29 / 1909 /\ 2 * x0 + 3 * x1 - 1 = 188 / 1909.
Proof.
  eexists. eexists. split; [cbn; reflexivity|].
  assert (X1 : (1 - 9 / 16 * 1 * (1 + / 8)) * (1 + / 8) / (51543 / 32768) * (1 + / 8) = 564 / 1909) by field.
  rewrite X1.
  assert (X0 : (1 / 4 * (1 + / 8) - 9 / 16 * (564 / 1909) * (1 + / 8)) * (1 + / 8) = 405 / 3818) by field.
  rewrite X0. repeat split; field.
Qed.
