(* C08: det / lndet / sgndet of the three families agree with one another on the factors of a
   successful factorisation (over R). *)
From Coq Require Import ZArith List Reals Lia Lra Psatz Bool Permutation.
From LibaV Require Import C08.NumOps C08.FactorDefs C08.Instances C08.Base C08.PermProofs
  C08.DetProofs C08.PluSteps C08.PluProofs C08.PluTheorems C08.LdlLltProofs C08.LdlLltTheorems.
Import ListNotations.
Local Open Scope R_scope.

Lemma perm_sign_cases l : perm_sign l = 1%Z \/ perm_sign l = (-1)%Z.
Proof. unfold perm_sign. destruct (Nat.even (inversions l)); auto. Qed.

Lemma sgnZ_IZR_pm s : s = 1%Z \/ s = (-1)%Z -> sgnZ (IZR s) = s /\ Rabs (IZR s) = 1.
Proof.
  intros [-> | ->]; split.
  - apply sgnZ_pos; lra.
  - apply Rabs_R1.
  - apply sgnZ_neg; lra.
  - rewrite Rabs_left; lra.
Qed.

Lemma rprod_pos f k : (forall i, (i < k)%nat -> 0 < f i) -> 0 < rprod f k.
Proof.
  induction k as [|k IH]; intros H; simpl; [lra|].
  apply Rmult_lt_0_compat; [apply IH; intros; apply H; lia|apply H; lia].
Qed.

Lemma ln_rprod_pos f k :
  (forall i, (i < k)%nat -> 0 < f i) -> rsum (fun i => Rpower.ln (f i)) k = Rpower.ln (rprod f k).
Proof.
  induction k as [|k IH]; intros H; simpl.
  - now rewrite ln_1.
  - rewrite ln_mult; [|apply rprod_pos; intros; apply H; lia|apply H; lia].
    rewrite IH by (intros; apply H; lia). reflexivity.
Qed.

Section DetFamily.
Variable tiny : R.
Hypothesis tiny_pos : 0 < tiny.
Local Notation RO := (R_ops tiny).
Variable n : nat.
Variable A : list R.
Hypothesis LA : length A = (n * n)%nat.

(* PLU: det = sign * prod u_ii <> 0,  lndet = ln |det|,  sgndet = sgn det *)
Lemma plu_det_family p0 st :
  length p0 = n -> plu RO n A p0 = Some (0%nat, st) ->
  exists d, plu_det RO n (pA st) (psign st) = Some d /\
            d = IZR (psign st) * rprod (fun i => mg n (pA st) i i) n /\ d <> 0 /\
            plu_lndet RO n (pA st) = Some (Rpower.ln (Rabs d)) /\
            plu_sgndet RO n (pA st) (psign st) = Some (sgnZ d).
Proof.
  intros Lp H.
  pose proof (plu_success_inv tiny tiny_pos n A LA p0 Lp st H) as (L1 & _ & _ & Sg & _ & _ & Do).
  assert (Hnz : forall i, (i < n)%nat -> mg n (pA st) i i <> 0).
  { intros i Hi Z. specialize (Do i Hi Hi). rewrite Z, Rabs_R0 in Do. lra. }
  destruct (ln_rprod (fun i => mg n (pA st) i i) n Hnz) as [Hln Hp].
  destruct (sgnZ_IZR_pm (psign st)) as [S1 S2]; [rewrite Sg; apply perm_sign_cases|].
  eexists. split; [apply plu_det_spec; auto|]. split; [reflexivity|]. split; [|split].
  - apply Rmult_integral_contrapositive. split; auto.
    intros Z. rewrite Z, Rabs_R0 in S2. lra.
  - rewrite plu_lndet_spec by auto. rewrite Hln. rewrite Rabs_mult, S2, Rmult_1_l. reflexivity.
  - rewrite plu_sgndet_spec by auto. rewrite sgnZ_mult, S1. reflexivity.
Qed.

(* LDL: det = prod d_i <> 0,  lndet = ln |det|,  sgndet = sgn det *)
Lemma ldl_det_family M :
  ldl RO n A = Some (0%nat, M) ->
  exists d, ldl_det RO n M = Some d /\ d = rprod (fun i => mg n M i i) n /\ d <> 0 /\
            ldl_lndet RO n M = Some (Rpower.ln (Rabs d)) /\
            ldl_sgndet RO n M = Some (sgnZ d).
Proof.
  intros H.
  pose proof (ldl_success_inv tiny tiny_pos n A LA M H) as (L1 & _ & I2 & _).
  assert (Hnz : forall i, (i < n)%nat -> mg n M i i <> 0).
  { intros i Hi Z. specialize (I2 i Hi Hi). rewrite Z, Rabs_R0 in I2. lra. }
  destruct (ln_rprod (fun i => mg n M i i) n Hnz) as [Hln Hp].
  eexists. split; [apply ldl_det_spec; auto|]. split; [reflexivity|]. split; [auto|split].
  - unfold ldl_lndet. rewrite plu_lndet_spec by auto. now rewrite Hln.
  - unfold ldl_sgndet. rewrite plu_sgndet_spec by auto. f_equal. lia.
Qed.

(* LLT: det = (prod l_ii)^2 > 0,  lndet = ln det *)
Lemma llt_det_family M :
  llt RO n A = Some (0%nat, M) ->
  exists d, llt_det RO n M = Some d /\ d = (rprod (fun i => mg n M i i) n) ^ 2 /\ 0 < d /\
            llt_lndet RO n M = Some (Rpower.ln d).
Proof.
  intros H.
  pose proof (llt_success_inv tiny tiny_pos n A LA M H) as (L1 & _ & I2 & _).
  assert (Hpos : forall i, (i < n)%nat -> 0 < mg n M i i).
  { intros i Hi. destruct (I2 i Hi Hi). auto. }
  pose proof (rprod_pos (fun i => mg n M i i) n Hpos) as Pp.
  eexists. split; [apply llt_det_spec; auto|]. split; [reflexivity|]. split.
  - apply pow_lt. auto.
  - rewrite llt_lndet_spec by auto. rewrite (ln_rprod_pos (fun i => mg n M i i) n Hpos).
    f_equal. simpl. rewrite Rmult_1_r. rewrite ln_mult by auto. lra.
Qed.

End DetFamily.
