(* C08: generic lemmas - bounds-checked arrays, loop rules, finite sums over R, the flat
   row-major matrix view.  Used by PluProofs / LdlProofs / LltProofs / SolveProofs. *)
From Coq Require Import ZArith List Reals Lia Lra Psatz.
From LibaV Require Import C08.NumOps.
Import ListNotations.

(* ------------------------------------------------------------- total array ops *)
Fixpoint upd {A} (l : list A) (i : nat) (v : A) : list A :=
  match l, i with
  | [], _ => []
  | _ :: t, O => v :: t
  | x :: t, S j => x :: upd t j v
  end.

Lemma rd_some {A} (d : A) : forall (l : list A) i, i < length l -> rd l i = Some (nth i l d).
Proof.
  unfold rd. induction l as [|x l IH]; intros [|i] H; simpl in *; try lia; auto.
  apply IH. lia.
Qed.

Lemma rd_none {A} : forall (l : list A) i, length l <= i -> rd l i = None.
Proof. intros. unfold rd. now apply nth_error_None. Qed.

Lemma wr_some {A} : forall (l : list A) i v, i < length l -> wr l i v = Some (upd l i v).
Proof.
  induction l as [|x l IH]; intros [|i] v H; simpl in *; try lia; auto.
  rewrite IH by lia. reflexivity.
Qed.

Lemma wr_none {A} : forall (l : list A) i v, length l <= i -> wr l i v = None.
Proof.
  induction l as [|x l IH]; intros [|i] v H; simpl in *; try lia; auto.
  rewrite IH by lia. reflexivity.
Qed.

Lemma upd_length {A} : forall (l : list A) i v, length (upd l i v) = length l.
Proof. induction l as [|x l IH]; intros [|i] v; simpl; auto. Qed.

Lemma nth_upd_same {A} (d : A) : forall (l : list A) i v, i < length l -> nth i (upd l i v) d = v.
Proof. induction l as [|x l IH]; intros [|i] v H; simpl in *; try lia; auto. apply IH; lia. Qed.

Lemma nth_upd_other {A} (d : A) : forall (l : list A) i j v, j <> i -> nth j (upd l i v) d = nth j l d.
Proof.
  induction l as [|x l IH]; intros [|i] [|j] v H; simpl in *; try lia; auto.
Qed.

Lemma nth_upd {A} (d : A) (l : list A) i j v :
  i < length l -> nth j (upd l i v) d = if Nat.eqb j i then v else nth j l d.
Proof.
  intros H. destruct (Nat.eqb_spec j i) as [->|N].
  - now apply nth_upd_same.
  - now apply nth_upd_other.
Qed.

(* ------------------------------------------------------------------ loop rules *)
Lemma forM_inv {St} (P : nat -> St -> Prop) (f : nat -> St -> option St) :
  forall cnt lo s,
    P lo s ->
    (forall i s, lo <= i < lo + cnt -> P i s -> exists s', f i s = Some s' /\ P (S i) s') ->
    exists s', forM lo cnt f s = Some s' /\ P (lo + cnt) s'.
Proof.
  induction cnt as [|k IH]; intros lo s H0 Hs; simpl.
  - exists s. rewrite Nat.add_0_r. auto.
  - destruct (Hs lo s) as (s1 & E1 & P1); [lia|auto|].
    rewrite E1.
    destruct (IH (S lo) s1 P1) as (s2 & E2 & P2).
    + intros i s' Hi. apply Hs. lia.
    + exists s2. split; auto. replace (lo + S k) with (S lo + k) by lia. auto.
Qed.

Lemma for_range_inv {St} (P : nat -> St -> Prop) lo hi (f : nat -> St -> option St) s :
  lo <= hi -> P lo s ->
  (forall i s, lo <= i < hi -> P i s -> exists s', f i s = Some s' /\ P (S i) s') ->
  exists s', for_range lo hi f s = Some s' /\ P hi s'.
Proof.
  intros Hle H0 Hs. unfold for_range.
  destruct (forM_inv P f (hi - lo) lo s H0) as (s' & E & Ps).
  - intros i s1 Hi. apply Hs. lia.
  - exists s'. split; auto. replace hi with (lo + (hi - lo)) by lia. auto.
Qed.

Lemma for_range_empty {St} lo hi (f : nat -> St -> option St) s :
  hi <= lo -> for_range lo hi f s = Some s.
Proof. intros H. unfold for_range. replace (hi - lo) with 0 by lia. reflexivity. Qed.

Lemma for_down_inv {St} (P : nat -> St -> Prop) (f : nat -> St -> option St) :
  forall n s,
    P n s ->
    (forall i s, i < n -> P (S i) s -> exists s', f i s = Some s' /\ P i s') ->
    exists s', for_down n f s = Some s' /\ P 0 s'.
Proof.
  induction n as [|k IH]; intros s H0 Hs; simpl.
  - exists s; auto.
  - destruct (Hs k s) as (s1 & E1 & P1); [lia|auto|].
    rewrite E1. apply IH; auto.
Qed.

(* --------------------------------------------------------------------- sums *)
Local Open Scope R_scope.

Fixpoint rsum (f : nat -> R) (k : nat) : R :=
  match k with O => 0 | S k' => rsum f k' + f k' end.

Lemma rsum_ext f g k : (forall i, (i < k)%nat -> f i = g i) -> rsum f k = rsum g k.
Proof.
  induction k as [|k IH]; intros H; simpl; auto.
  rewrite IH, H; auto.
Qed.

Lemma rsum_zero f k : (forall i, (i < k)%nat -> f i = 0) -> rsum f k = 0.
Proof.
  induction k as [|k IH]; intros H; simpl; auto.
  rewrite IH, H; auto. lra.
Qed.

Lemma rsum_S f k : rsum f (S k) = rsum f k + f k.
Proof. reflexivity. Qed.

Lemma rsum_plus f g k : rsum (fun i => f i + g i) k = rsum f k + rsum g k.
Proof. induction k as [|k IH]; simpl; [lra|rewrite IH; lra]. Qed.

Lemma rsum_minus f g k : rsum (fun i => f i - g i) k = rsum f k - rsum g k.
Proof. induction k as [|k IH]; simpl; [lra|rewrite IH; lra]. Qed.

Lemma rsum_scal a f k : rsum (fun i => a * f i) k = a * rsum f k.
Proof. induction k as [|k IH]; simpl; [lra|rewrite IH; lra]. Qed.

Lemma rsum_scal_r a f k : rsum (fun i => f i * a) k = rsum f k * a.
Proof. induction k as [|k IH]; simpl; [lra|rewrite IH; lra]. Qed.

(* extend a sum by terms that vanish *)
Lemma rsum_extend f j k : (j <= k)%nat -> (forall i, (j <= i < k)%nat -> f i = 0) -> rsum f k = rsum f j.
Proof.
  intros Hle. induction k as [|k IH]; intros H.
  - replace j with 0%nat by lia. reflexivity.
  - destruct (Nat.eq_dec j (S k)) as [->|N]; auto.
    simpl. rewrite IH by (try lia; intros; apply H; lia). rewrite H by lia. lra.
Qed.

Lemma rsum_single f j k : (j < k)%nat -> (forall i, (i < k)%nat -> i <> j -> f i = 0) -> rsum f k = f j.
Proof.
  intros Hj H.
  rewrite (rsum_extend f (S j) k) by (try lia; intros; apply H; lia).
  simpl. rewrite rsum_zero by (intros; apply H; lia). lra.
Qed.

Lemma rsum_swap (f : nat -> nat -> R) a b :
  rsum (fun i => rsum (fun j => f i j) b) a = rsum (fun j => rsum (fun i => f i j) a) b.
Proof.
  induction a as [|a IH]; simpl.
  - symmetry. apply rsum_zero. auto.
  - rewrite IH. rewrite <- rsum_plus. reflexivity.
Qed.

Lemma rsum_nonneg f k : (forall i, (i < k)%nat -> 0 <= f i) -> 0 <= rsum f k.
Proof.
  induction k as [|k IH]; intros H; simpl; [lra|].
  specialize (IH (fun i Hi => H i (Nat.lt_lt_succ_r _ _ Hi))). specialize (H k (Nat.lt_succ_diag_r k)). lra.
Qed.

(* products, for the determinant family *)
Fixpoint rprod (f : nat -> R) (k : nat) : R :=
  match k with O => 1 | S k' => rprod f k' * f k' end.

(* ------------------------------------------------------------ matrix view *)
(* cell (r,c) of the flat row-major n x n array M *)
Definition mg (n : nat) (M : list R) (r c : nat) : R := nth (n * r + c) M 0.

Lemma idx_lt n r c : (r < n)%nat -> (c < n)%nat -> (n * r + c < n * n)%nat.
Proof.
  intros. assert (n * (r + 1) <= n * n)%nat by (apply Nat.mul_le_mono_l; lia). lia.
Qed.

Lemma idx_inj n r c r' c' :
  (c < n)%nat -> (c' < n)%nat -> (n * r + c = n * r' + c')%nat -> r = r' /\ c = c'.
Proof.
  intros Hc Hc' E.
  destruct (lt_eq_lt_dec r r') as [[L| -> ]|L].
  - assert (n * (r + 1) <= n * r')%nat by (apply Nat.mul_le_mono_l; lia). lia.
  - lia.
  - assert (n * (r' + 1) <= n * r)%nat by (apply Nat.mul_le_mono_l; lia). lia.
Qed.

Lemma mg_upd n M r c v r' c' :
  length M = (n * n)%nat -> (r < n)%nat -> (c < n)%nat -> (c' < n)%nat ->
  mg n (upd M (n * r + c) v) r' c' = if (Nat.eqb r' r && Nat.eqb c' c)%bool then v else mg n M r' c'.
Proof.
  intros HL Hr Hc Hc'. unfold mg.
  rewrite nth_upd by (rewrite HL; apply idx_lt; auto).
  destruct (Nat.eqb_spec (n * r' + c') (n * r + c)) as [E|N].
  - apply idx_inj in E; auto. destruct E as [-> ->]. now rewrite !Nat.eqb_refl.
  - destruct (Nat.eqb_spec r' r) as [->|]; simpl; auto.
    destruct (Nat.eqb_spec c' c) as [->|]; simpl; auto. congruence.
Qed.

(* full matrix product, cell (r,c) *)
Definition mmul (n : nat) (X Y : nat -> nat -> R) (r c : nat) : R := rsum (fun j => X r j * Y j c) n.

(* ------------------------------------------------------------ more loop lemmas *)
Lemma forM_ext {St} (f g : nat -> St -> option St) :
  forall cnt lo s, (forall i s, (lo <= i < lo + cnt)%nat -> f i s = g i s) -> forM lo cnt f s = forM lo cnt g s.
Proof.
  induction cnt as [|k IH]; intros lo s H; simpl; auto.
  rewrite H by lia. destruct (g lo s); auto. apply IH. intros. apply H. lia.
Qed.

Lemma for_range_ext {St} lo hi (f g : nat -> St -> option St) s :
  (forall i s, (lo <= i < hi)%nat -> f i s = g i s) -> for_range lo hi f s = for_range lo hi g s.
Proof. intros H. unfold for_range. apply forM_ext. intros. apply H. lia. Qed.

(* indicator sums: sum of f j over lo <= j < hi *)
Definition isum (f : nat -> R) (lo hi : nat) : R := rsum (fun j => if Nat.leb lo j then f j else 0) hi.

Lemma isum_S f lo hi : (lo <= hi)%nat -> isum f lo (S hi) = isum f lo hi + f hi.
Proof. intros H. unfold isum. rewrite rsum_S. destruct (Nat.leb_spec lo hi); [reflexivity|lia]. Qed.

Lemma isum_empty f lo hi : (hi <= lo)%nat -> isum f lo hi = 0.
Proof. intros H. unfold isum. apply rsum_zero. intros i Hi. destruct (Nat.leb_spec lo i); [lia|reflexivity]. Qed.

Lemma isum_ext f g lo hi : (forall i, (lo <= i < hi)%nat -> f i = g i) -> isum f lo hi = isum g lo hi.
Proof. intros H. unfold isum. apply rsum_ext. intros i Hi. destruct (Nat.leb_spec lo i); [apply H; lia|reflexivity]. Qed.

(* ------------------------------------------------- filling an n x n array cell by cell *)
Section Fill.
Variable n : nat.

Lemma fill_row_spec (g : nat -> option R) (gv : nat -> R) r (X0 : list R) :
  (forall c, (c < n)%nat -> g c = Some (gv c)) -> length X0 = (n * n)%nat -> (r < n)%nat ->
  exists X, for_range 0 n (fun c X => do v <- g c; wr X (n * r + c) v) X0 = Some X /\ length X = (n * n)%nat /\
    forall r' c, (r' < n)%nat -> (c < n)%nat -> mg n X r' c = if Nat.eqb r' r then gv c else mg n X0 r' c.
Proof.
  intros Hg L0 Hr.
  destruct (for_range_inv
              (fun k (X : list R) => length X = (n * n)%nat /\
                 forall r' c, (r' < n)%nat -> (c < n)%nat ->
                   mg n X r' c = if (Nat.eqb r' r && Nat.ltb c k)%bool then gv c else mg n X0 r' c)
              0 n (fun c X => do v <- g c; wr X (n * r + c) v) X0) as (X & E & LX & P).
  - lia.
  - split; auto. intros r' c _ _. rewrite Bool.andb_false_r. reflexivity.
  - intros k X [_ Hk] [LX P]. rewrite Hg by auto.
    rewrite wr_some by (rewrite LX; apply idx_lt; auto).
    eexists. split; [reflexivity|]. split; [now rewrite upd_length|].
    intros r' c Hr' Hc. rewrite mg_upd by auto. rewrite P by auto.
    destruct (Nat.eqb_spec r' r), (Nat.eqb_spec c k), (Nat.ltb_spec c k), (Nat.ltb_spec c (S k));
      simpl; subst; try lia; reflexivity.
  - exists X. split; [exact E|]. split; auto.
    intros r' c Hr' Hc. rewrite P by auto.
    destruct (Nat.eqb_spec r' r), (Nat.ltb_spec c n); simpl; try lia; reflexivity.
Qed.

Lemma fill_spec (g : nat -> nat -> option R) (gv : nat -> nat -> R) (X0 : list R) :
  (forall r c, (r < n)%nat -> (c < n)%nat -> g r c = Some (gv r c)) -> length X0 = (n * n)%nat ->
  exists X, for_range 0 n (fun r X => for_range 0 n (fun c X => do v <- g r c; wr X (n * r + c) v) X) X0 = Some X /\
    length X = (n * n)%nat /\ forall r c, (r < n)%nat -> (c < n)%nat -> mg n X r c = gv r c.
Proof.
  intros Hg L0.
  destruct (for_range_inv
              (fun k (X : list R) => length X = (n * n)%nat /\
                 forall r c, (r < k)%nat -> (c < n)%nat -> mg n X r c = gv r c)
              0 n (fun r X => for_range 0 n (fun c X => do v <- g r c; wr X (n * r + c) v) X) X0) as (X & E & LX & P).
  - lia.
  - split; auto. intros; lia.
  - intros k X [_ Hk] [LX P].
    destruct (fill_row_spec (g k) (gv k) k X) as (X' & E' & LX' & P'); auto.
    exists X'. split; [exact E'|]. split; auto.
    intros r c Hr Hc. rewrite P' by (auto; lia).
    destruct (Nat.eqb_spec r k); auto. apply P; auto; lia.
  - exists X. auto.
Qed.
End Fill.

(* sums with indicators *)
Lemma rsum_ind_lt f k n : (k <= n)%nat -> rsum (fun c => if Nat.ltb c k then f c else 0) n = rsum f k.
Proof.
  intros H. rewrite (rsum_extend _ k n); auto.
  - apply rsum_ext. intros i Hi. destruct (Nat.ltb_spec i k); [reflexivity|lia].
  - intros i Hi. destruct (Nat.ltb_spec i k); [lia|reflexivity].
Qed.

Lemma rsum_ind_eq f k n : (k < n)%nat -> rsum (fun c => if Nat.eqb c k then f c else 0) n = f k.
Proof.
  intros H. rewrite (rsum_single _ k n); auto.
  - now rewrite Nat.eqb_refl.
  - intros i Hi N. destruct (Nat.eqb_spec i k); [contradiction|reflexivity].
Qed.

Lemma isum_0 f k : isum f 0 k = rsum f k.
Proof. unfold isum. apply rsum_ext. intros. reflexivity. Qed.

Lemma isum_skip f lo hi : (lo <= hi)%nat -> (forall c, (c < lo)%nat -> f c = 0) -> isum f 0 hi = isum f lo hi.
Proof.
  intros H Z. unfold isum. apply rsum_ext. intros i Hi.
  destruct (Nat.leb_spec lo i); simpl; auto.
Qed.
