(* C08: permutations as lists, parity by inversion count, and the effect of the exchange
   p[i] <-> p[max_i] that a_real_plu performs (linalg_plu.c:29-31): the result is again a
   permutation and its parity flips. *)
From Coq Require Import ZArith List Lia Permutation Bool.
From LibaV Require Import C08.NumOps C08.Base.
Import ListNotations.

(* number of elements of l smaller than x *)
Fixpoint cnt_lt (x : nat) (l : list nat) : nat :=
  match l with
  | [] => 0
  | y :: t => (if Nat.ltb y x then 1 else 0) + cnt_lt x t
  end.

(* number of inversions: pairs of positions a < b with l[a] > l[b] *)
Fixpoint inversions (l : list nat) : nat :=
  match l with
  | [] => 0
  | x :: t => cnt_lt x t + inversions t
  end.

(* the sign (parity) of a permutation given as the list of its values: (-1)^(inversions) *)
Definition perm_sign (l : list nat) : Z := if Nat.even (inversions l) then 1%Z else (-1)%Z.

Lemma cnt_lt_app x l1 l2 : cnt_lt x (l1 ++ l2) = cnt_lt x l1 + cnt_lt x l2.
Proof. induction l1 as [|y l1 IH]; simpl; auto. rewrite IH. lia. Qed.

Lemma inversions_adjacent l1 a b l2 :
  a <> b ->
  inversions (l1 ++ a :: b :: l2) = S (inversions (l1 ++ b :: a :: l2)) \/
  inversions (l1 ++ b :: a :: l2) = S (inversions (l1 ++ a :: b :: l2)).
Proof.
  intros N. induction l1 as [|x l1 IH]; simpl.
  - destruct (Nat.ltb_spec b a), (Nat.ltb_spec a b); try lia.
  - rewrite !cnt_lt_app. simpl. destruct IH as [IH|IH]; rewrite IH; [left|right]; lia.
Qed.

Lemma even_flip a b : a = S b \/ b = S a -> Nat.even a = negb (Nat.even b).
Proof.
  intros [-> | ->].
  - rewrite Nat.even_succ. now rewrite <- Nat.negb_even.
  - rewrite Nat.even_succ. rewrite <- Nat.negb_even. now rewrite negb_involutive.
Qed.

Lemma parity_adjacent l1 a b l2 :
  a <> b -> Nat.even (inversions (l1 ++ a :: b :: l2)) = negb (Nat.even (inversions (l1 ++ b :: a :: l2))).
Proof. intros N. apply even_flip. now apply inversions_adjacent. Qed.

(* exchanging two arbitrary positions flips the parity *)
Lemma parity_swap : forall m l1 a b l2,
  a <> b -> ~ In a m -> ~ In b m ->
  Nat.even (inversions (l1 ++ a :: m ++ b :: l2)) = negb (Nat.even (inversions (l1 ++ b :: m ++ a :: l2))).
Proof.
  induction m as [|c m IH]; intros l1 a b l2 Nab Na Nb.
  - simpl. now apply parity_adjacent.
  - simpl in Na, Nb.
    assert (a <> c) by intuition. assert (b <> c) by intuition.
    simpl.
    (* a c m b  ->  c a m b  ->  c b m a  ->  b c m a *)
    rewrite (parity_adjacent l1 a c (m ++ b :: l2)) by auto.
    replace (l1 ++ c :: a :: m ++ b :: l2) with ((l1 ++ [c]) ++ a :: m ++ b :: l2)
      by (rewrite <- app_assoc; reflexivity).
    rewrite (IH (l1 ++ [c]) a b l2) by intuition.
    replace ((l1 ++ [c]) ++ b :: m ++ a :: l2) with (l1 ++ c :: b :: m ++ a :: l2)
      by (rewrite <- app_assoc; reflexivity).
    rewrite (parity_adjacent l1 c b (m ++ a :: l2)) by auto.
    now rewrite !negb_involutive.
Qed.

Lemma upd_app_r {A} : forall (l1 l2 : list A) j v, upd (l1 ++ l2) (length l1 + j) v = l1 ++ upd l2 j v.
Proof. induction l1 as [|x l1 IH]; intros; simpl; auto. now rewrite IH. Qed.

(* the C exchange  u = p[i]; p[i] = p[m]; p[m] = u  on a list, as a decomposition *)
Lemma swap_decompose (l : list nat) i m :
  i < m < length l ->
  exists l1 mid l2,
    l = l1 ++ nth i l 0 :: mid ++ nth m l 0 :: l2 /\
    upd (upd l i (nth m l 0)) m (nth i l 0) = l1 ++ nth m l 0 :: mid ++ nth i l 0 :: l2.
Proof.
  intros [Him Hm].
  destruct (nth_split l 0 (n := i)) as (l1 & t & El & L1); [lia|].
  set (a := nth i l 0) in *.
  assert (Lt : length l = length l1 + S (length t)) by (rewrite El at 1; rewrite app_length; reflexivity).
  assert (Hb : nth m l 0 = nth (m - i - 1) t 0).
  { rewrite El at 1. rewrite app_nth2 by lia. rewrite L1.
    destruct (m - i) as [|k] eqn:D; [lia|]. simpl. f_equal. lia. }
  destruct (nth_split t 0 (n := m - i - 1)) as (mid & l2 & Et & L2); [lia|].
  rewrite <- Hb in Et. set (b := nth m l 0) in *.
  exists l1, mid, l2. split.
  - rewrite El at 1. now rewrite Et at 1.
  - rewrite El at 1.
    replace i with (length l1 + 0) at 1 by lia. rewrite upd_app_r. simpl.
    replace m with (length l1 + S (length mid + 0)) by lia. rewrite upd_app_r. simpl.
    rewrite Et at 1. rewrite upd_app_r. reflexivity.
Qed.

Lemma perm_swap_middle {A} (a b : A) mid l2 :
  Permutation (b :: mid ++ a :: l2) (a :: mid ++ b :: l2).
Proof.
  transitivity (b :: a :: mid ++ l2).
  - constructor. symmetry. apply Permutation_middle.
  - transitivity (a :: b :: mid ++ l2); [constructor|].
    constructor. apply Permutation_middle.
Qed.

Lemma NoDup_app_r {A} (l1 l2 : list A) : NoDup (l1 ++ l2) -> NoDup l2.
Proof. induction l1 as [|x l1 IH]; simpl; auto. intros H. inversion H; auto. Qed.

(* what the proofs about a_real_plu use *)
Lemma swap_perm_sign (l : list nat) i m :
  NoDup l -> i < m < length l ->
  let l' := upd (upd l i (nth m l 0)) m (nth i l 0) in
  Permutation l' l /\ perm_sign l' = Z.opp (perm_sign l).
Proof.
  intros ND H. cbv zeta.
  destruct (swap_decompose l i m H) as (l1 & mid & l2 & El & El').
  rewrite El'. set (a := nth i l 0) in *. set (b := nth m l 0) in *.
  rewrite El in ND.
  apply NoDup_remove in ND. destruct ND as [ND Na].
  assert (Nab : a <> b).
  { intros E. apply Na. rewrite in_app_iff. right. rewrite in_app_iff. right. left. auto. }
  assert (Nam : ~ In a mid).
  { intros I. apply Na. rewrite in_app_iff. right. rewrite in_app_iff. left. auto. }
  assert (Nbm : ~ In b mid).
  { apply NoDup_app_r in ND. apply NoDup_remove_2 in ND. intros I. apply ND.
    rewrite in_app_iff. left. auto. }
  split.
  - rewrite El at 1. apply Permutation_app_head. apply perm_swap_middle.
  - unfold perm_sign. rewrite El at 1.
    rewrite (parity_swap mid l1 a b l2) by auto.
    destruct (Nat.even (inversions (l1 ++ b :: mid ++ a :: l2))); reflexivity.
Qed.

Lemma perm_sign_seq n : perm_sign (seq 0 n) = 1%Z.
Proof.
  assert (H : forall k s, inversions (seq s k) = 0 /\ forall x, x <= s -> cnt_lt x (seq s k) = 0).
  { induction k as [|k IH]; intros s; simpl; split; auto.
    - destruct (IH (S s)) as [I1 I2]. rewrite I1, I2; auto.
    - intros x Hx. destruct (IH (S s)) as [I1 I2]. rewrite I2 by lia.
      destruct (Nat.ltb_spec s x); lia. }
  unfold perm_sign. now rewrite (proj1 (H n 0)).
Qed.

(* a permutation of 0..n-1 maps positions < n to values < n, injectively and onto *)
Lemma perm_nth_lt l n i : Permutation l (seq 0 n) -> i < n -> nth i l 0 < n.
Proof.
  intros P Hi. assert (L : length l = n) by (rewrite (Permutation_length P); apply seq_length).
  assert (I : In (nth i l 0) (seq 0 n)).
  { eapply Permutation_in; [exact P|]. apply nth_In. lia. }
  apply in_seq in I. lia.
Qed.

Lemma perm_nth_inj l n i j :
  Permutation l (seq 0 n) -> i < n -> j < n -> nth i l 0 = nth j l 0 -> i = j.
Proof.
  intros P Hi Hj E. assert (L : length l = n) by (rewrite (Permutation_length P); apply seq_length).
  assert (ND : NoDup l) by (eapply Permutation_NoDup; [symmetry; exact P|apply seq_NoDup]).
  eapply (proj1 (NoDup_nth l 0) ND); lia || auto.
Qed.

Lemma perm_nth_surj l n v : Permutation l (seq 0 n) -> v < n -> exists i, i < n /\ nth i l 0 = v.
Proof.
  intros P Hv. assert (L : length l = n) by (rewrite (Permutation_length P); apply seq_length).
  assert (I : In v l).
  { eapply Permutation_in; [symmetry; exact P|]. apply in_seq. lia. }
  destruct (In_nth l v 0 I) as (i & Hi & E). exists i. split; [lia|auto].
Qed.
