(* C08: consequences of the a_real_plu invariant over R - read-outs, P A = L U, solve,
   failure on singular inputs. *)
From Coq Require Import ZArith List Reals Lia Lra Psatz Bool Permutation.
From LibaV Require Import C08.NumOps C08.FactorDefs C08.Instances C08.Base C08.PermProofs
  C08.PluSteps C08.PluProofs C08.SolveProofs.
Import ListNotations.
Local Open Scope R_scope.

(* the factors as functions of the in-place storage m *)
Definition Lf (m : nat -> nat -> R) (r j : nat) : R := if Nat.ltb j r then m r j else if Nat.eqb j r then 1 else 0.
Definition Uf (m : nat -> nat -> R) (j c : nat) : R := if Nat.ltb c j then 0 else m j c.
Definition Pf (p : nat -> nat) (r c : nat) : R := if Nat.eqb c (p r) then 1 else 0.

Section Readouts.
Variable tiny : R.
Let RO := R_ops tiny.
Variable n : nat.

Lemma triL1_spec (A L0 : list R) :
  length A = (n * n)%nat -> length L0 = (n * n)%nat ->
  exists L, triL1 RO n A L0 = Some L /\ length L = (n * n)%nat /\
    forall r c, (r < n)%nat -> (c < n)%nat -> mg n L r c = Lf (mg n A) r c.
Proof.
  intros LA LL. unfold triL1.
  set (g := fun r c => if Nat.ltb c r then rd A (n * r + c) else if Nat.eqb c r then Some 1 else Some 0).
  rewrite (for_range_ext 0 n _ (fun r X => for_range 0 n (fun c X => do v <- g r c; wr X (n * r + c) v) X)).
  2:{ intros r X Hr. apply for_range_ext. intros c X' Hc. unfold g.
      destruct (Nat.ltb c r); [reflexivity|]. destruct (Nat.eqb c r); reflexivity. }
  apply fill_spec; auto. intros r c Hr Hc. unfold g, Lf.
  destruct (Nat.ltb c r); [now apply (rd_mg n)|]. destruct (Nat.eqb c r); reflexivity.
Qed.

Lemma triU_spec (A U0 : list R) :
  length A = (n * n)%nat -> length U0 = (n * n)%nat ->
  exists U, triU RO n A U0 = Some U /\ length U = (n * n)%nat /\
    forall r c, (r < n)%nat -> (c < n)%nat -> mg n U r c = Uf (mg n A) r c.
Proof.
  intros LA LL. unfold triU.
  set (g := fun r c => if Nat.ltb c r then Some 0 else rd A (n * r + c)).
  rewrite (for_range_ext 0 n _ (fun r X => for_range 0 n (fun c X => do v <- g r c; wr X (n * r + c) v) X)).
  2:{ intros r X Hr. apply for_range_ext. intros c X' Hc. unfold g.
      destruct (Nat.ltb c r); reflexivity. }
  apply fill_spec; auto. intros r c Hr Hc. unfold g, Uf.
  destruct (Nat.ltb c r); [reflexivity|now apply (rd_mg n)].
Qed.

Lemma plu_P_spec (p : list nat) (P0 : list R) :
  length p = n -> length P0 = (n * n)%nat ->
  exists P, plu_P RO n p P0 = Some P /\ length P = (n * n)%nat /\
    forall r c, (r < n)%nat -> (c < n)%nat -> mg n P r c = Pf (pfun p) r c.
Proof.
  intros Lp LP. unfold plu_P.
  set (g := fun r c => Some (if Nat.eqb c (pfun p r) then 1 else 0)).
  rewrite (for_range_ext 0 n _ (fun r X => for_range 0 n (fun c X => do v <- g r c; wr X (n * r + c) v) X)).
  2:{ intros r X Hr. rewrite (rd_some 0%nat) by lia. reflexivity. }
  apply fill_spec; auto.
Qed.

(* a_real_plu_P_ writes the transpose of P *)
Lemma plu_P__spec (p : list nat) (P0 : list R) :
  length p = n -> length P0 = (n * n)%nat ->
  exists P, plu_P_ RO n p P0 = Some P /\ length P = (n * n)%nat /\
    forall r c, (r < n)%nat -> (c < n)%nat -> mg n P r c = Pf (pfun p) c r.
Proof.
  intros Lp LP. unfold plu_P_.
  set (g := fun r c => Some (if Nat.eqb (pfun p c) r then 1 else 0)).
  rewrite (for_range_ext 0 n _ (fun r X => for_range 0 n (fun c X => do v <- g r c; wr X (n * r + c) v) X)).
  2:{ intros r X Hr. apply for_range_ext. intros c X' Hc. rewrite (rd_some 0%nat) by lia. reflexivity. }
  destruct (fill_spec n g (fun r c => if Nat.eqb (pfun p c) r then 1 else 0) P0) as (P & E & L & H); auto.
  exists P. split; [exact E|]. split; auto. intros r c Hr Hc. rewrite H by auto. unfold Pf.
  rewrite (Nat.eqb_sym r). reflexivity.
Qed.

Lemma plu_apply_spec (p : list nat) (b Pb0 : list R) :
  length p = n -> (forall i, (i < n)%nat -> (pfun p i < length b)%nat) -> length Pb0 = n ->
  exists Pb, plu_apply n p b Pb0 = Some Pb /\ length Pb = n /\
    forall i, (i < n)%nat -> nth i Pb 0 = nth (pfun p i) b 0.
Proof.
  intros Lp Hp L0. unfold plu_apply.
  destruct (for_range_inv
              (fun k (Pb : list R) => length Pb = n /\ forall i, (i < k)%nat -> nth i Pb 0 = nth (pfun p i) b 0)
              0 n (fun i Pb => do pi <- rd p i; do v <- rd b pi; wr Pb i v) Pb0) as (Pb & E & P).
  - lia.
  - split; auto. intros; lia.
  - intros k Pb [_ Hk] [L P].
    rewrite (rd_some 0%nat) by lia. rewrite (rd_some 0) by (apply Hp; auto).
    rewrite wr_some by lia. eexists. split; [reflexivity|]. split; [now rewrite upd_length|].
    intros i Hi. rewrite nth_upd by lia. destruct (Nat.eqb_spec i k) as [->|]; auto. apply P. lia.
  - exists Pb. auto.
Qed.

End Readouts.

(* ---------------------------------------------------------------- pure algebra on the factors *)
Section Algebra.
Variable n : nat.

(* (L U)(r,c) in terms of the storage *)
Lemma lu_product m r c :
  (r < n)%nat -> (c < n)%nat ->
  rsum (fun j => Lf m r j * Uf m j c) n =
  rsum (fun j => m r j * m j c) (Nat.min r (S c)) + (if Nat.leb r c then m r c else 0).
Proof.
  intros Hr Hc.
  rewrite (rsum_ext _ (fun j => (if Nat.ltb j (Nat.min r (S c)) then m r j * m j c else 0) +
                                (if Nat.eqb j r then (if Nat.leb r c then m r c else 0) else 0))).
  2:{ intros j Hj. unfold Lf, Uf. bcase; try lra. }
  rewrite rsum_plus. rewrite rsum_ind_lt by lia. rewrite rsum_ind_eq by lia. reflexivity.
Qed.

(* row r of P A *)
Lemma pa_product (a : nat -> nat -> R) p r c :
  (p r < n)%nat -> rsum (fun j => Pf p r j * a j c) n = a (p r) c.
Proof.
  intros Hp. rewrite (rsum_ext _ (fun j => if Nat.eqb j (p r) then a j c else 0)).
  2:{ intros j Hj. unfold Pf. destruct (Nat.eqb j (p r)); lra. }
  now rewrite rsum_ind_eq.
Qed.

(* U x, row j *)
Lemma u_row m x j :
  (j < n)%nat ->
  rsum (fun c => Uf m j c * x c) n = m j j * x j + isum (fun c => m j c * x c) (j + 1) n.
Proof.
  intros Hj. unfold isum.
  rewrite (rsum_ext _ (fun c => (if Nat.eqb c j then m j c * x c else 0) +
                                (if Nat.leb (j + 1) c then m j c * x c else 0))).
  2:{ intros c Hc. unfold Uf. bcase; lra. }
  rewrite rsum_plus. rewrite rsum_ind_eq by lia. reflexivity.
Qed.

(* L y, row r *)
Lemma l_row m y r :
  (r < n)%nat ->
  rsum (fun j => Lf m r j * y j) n = y r + isum (fun c => m r c * y c) 0 r.
Proof.
  intros Hr. rewrite isum_0.
  rewrite (rsum_ext _ (fun j => (if Nat.eqb j r then y j else 0) + (if Nat.ltb j r then m r j * y j else 0))).
  2:{ intros j Hj. unfold Lf. bcase; lra. }
  rewrite rsum_plus. rewrite rsum_ind_eq by lia. rewrite rsum_ind_lt by lia. reflexivity.
Qed.

(* forward + backward substitution solve (L U) x = y0 *)
Lemma lu_solve_correct m y0 y x :
  (forall j, (j < n)%nat -> m j j <> 0) ->
  (forall r, (r < n)%nat -> y r = y0 r - isum (fun c => m r c * y c) 0 r) ->
  (forall r, (r < n)%nat -> x r = (y r - isum (fun c => m r c * x c) (r + 1) n) / m r r) ->
  forall r, (r < n)%nat ->
    rsum (fun c => rsum (fun j => Lf m r j * Uf m j c) n * x c) n = y0 r.
Proof.
  intros Hd Hy Hx r Hr.
  rewrite (rsum_ext _ (fun c => rsum (fun j => Lf m r j * (Uf m j c * x c)) n)).
  2:{ intros c Hc. rewrite <- rsum_scal_r. apply rsum_ext. intros; lra. }
  rewrite rsum_swap.
  rewrite (rsum_ext _ (fun j => Lf m r j * y j)).
  2:{ intros j Hj. rewrite rsum_scal. f_equal. rewrite u_row by auto.
      rewrite (Hx j Hj) at 1. field. auto. }
  rewrite l_row by auto. rewrite (Hy r Hr). lra.
Qed.

(* a unit lower triangular matrix is injective *)
Lemma l_injective m z :
  (forall r, (r < n)%nat -> rsum (fun j => Lf m r j * z j) n = 0) ->
  forall r, (r < n)%nat -> z r = 0.
Proof.
  intros H r. induction r as [r IH] using lt_wf_ind. intros Hr.
  specialize (H r Hr). rewrite l_row in H by auto. rewrite isum_0 in H.
  rewrite rsum_zero in H; [lra|].
  intros c Hc. rewrite IH by lia. lra.
Qed.

End Algebra.

(* ------------------------------------------------------------------ a_real_plu, main results *)
Section Main.
Variable tiny : R.
Hypothesis tiny_pos : 0 < tiny.
Let RO := R_ops tiny.
Variable n : nat.
Variable A : list R.
Hypothesis LA : length A = (n * n)%nat.
Variable p0 : list nat.
Hypothesis Lp0 : length p0 = n.

Lemma plu_total :
  exists rc st, plu RO n A p0 = Some (rc, st) /\ (rc = 0%nat \/ rc = 1%nat) /\
                length (pA st) = (n * n)%nat /\ length (pp st) = n.
Proof.
  destruct (plu_spec tiny tiny_pos n A LA p0 Lp0) as (rc & st & E & [[-> I]|[-> (j & Hj & I & _)]]).
  - exists 0%nat, st. split; [exact E|]. destruct I as (L1 & L2 & _). auto.
  - exists 1%nat, st. split; [exact E|]. destruct I as (L1 & L2 & _). auto.
Qed.

Lemma plu_success_inv st : plu RO n A p0 = Some (0%nat, st) -> PInv tiny n (mg n A) n st.
Proof.
  intros H. destruct (plu_spec tiny tiny_pos n A LA p0 Lp0) as (rc & st' & E & [[-> I]|[-> _]]);
    unfold RO in H; rewrite E in H.
  - injection H as <-. exact I.
  - discriminate H.
Qed.

Lemma plu_failure_inv st : plu RO n A p0 = Some (1%nat, st) -> plu_failed tiny n A st.
Proof.
  intros H. destruct (plu_spec tiny tiny_pos n A LA p0 Lp0) as (rc & st' & E & [[-> _]|[-> F]]);
    unfold RO in H; rewrite E in H.
  - discriminate H.
  - injection H as <-. exact F.
Qed.

Lemma plu_shape st :
  plu RO n A p0 = Some (0%nat, st) ->
  Permutation (pp st) (seq 0 n) /\ psign st = perm_sign (pp st) /\
  (forall r c, (c < r < n)%nat -> Rabs (mg n (pA st) r c) <= 1) /\
  (forall i, (i < n)%nat -> tiny <= Rabs (mg n (pA st) i i)).
Proof.
  intros H. destruct (plu_success_inv st H) as (_ & _ & Pp & Sg & _ & Mo & Do).
  split; [exact Pp|]. split; [exact Sg|]. split.
  - intros r c Hrc. apply Mo; lia.
  - intros i Hi. apply Do; lia.
Qed.

Lemma plu_reconstruct_fun st :
  plu RO n A p0 = Some (0%nat, st) ->
  forall r c, (r < n)%nat -> (c < n)%nat ->
    mg n A (pfun (pp st) r) c = rsum (fun j => Lf (mg n (pA st)) r j * Uf (mg n (pA st)) j c) n.
Proof.
  intros H r c Hr Hc. destruct (plu_success_inv st H) as (_ & _ & _ & _ & Rc & _).
  rewrite (Rc r c Hr Hc). rewrite lu_product by auto.
  replace (Nat.min (Nat.min r n) (S c)) with (Nat.min r (S c)) by lia.
  destruct (Nat.ltb_spec r n); [reflexivity|lia].
Qed.

(* P A = L U with the matrices produced by a_real_plu_P, a_real_plu_L, a_real_plu_U *)
Lemma plu_reconstruct st (P0 L0 U0 : list R) :
  length P0 = (n * n)%nat -> length L0 = (n * n)%nat -> length U0 = (n * n)%nat ->
  plu RO n A p0 = Some (0%nat, st) ->
  exists P L U,
    plu_P RO n (pp st) P0 = Some P /\ plu_L RO n (pA st) L0 = Some L /\ plu_U RO n (pA st) U0 = Some U /\
    forall r c, (r < n)%nat -> (c < n)%nat ->
      mmul n (mg n P) (mg n A) r c = mmul n (mg n L) (mg n U) r c.
Proof.
  intros LP LL LU H. pose proof (plu_success_inv st H) as (L1 & L2 & Pp & _).
  destruct (plu_P_spec tiny n (pp st) P0 L2 LP) as (P & EP & _ & HP).
  destruct (triL1_spec tiny n (pA st) L0 L1 LL) as (L & EL & _ & HL).
  destruct (triU_spec tiny n (pA st) U0 L1 LU) as (U & EU & _ & HU).
  exists P, L, U. repeat split; auto.
  intros r c Hr Hc. unfold mmul.
  rewrite (rsum_ext _ (fun j => Pf (pfun (pp st)) r j * mg n A j c)) by (intros; rewrite HP; auto).
  rewrite pa_product by (apply (perm_nth_lt _ n); auto).
  rewrite (plu_reconstruct_fun st H r c Hr Hc).
  apply rsum_ext. intros j Hj. rewrite HL, HU by auto. reflexivity.
Qed.

(* a_real_plu_solve returns x with A x = b *)
Lemma plu_solve_correct st (b x0 : list R) :
  plu RO n A p0 = Some (0%nat, st) -> length b = n -> length x0 = n ->
  exists x, plu_solve RO n (pA st) (pp st) b x0 = Some x /\ length x = n /\
    forall r, (r < n)%nat -> rsum (fun c => mg n A r c * nth c x 0) n = nth r b 0.
Proof.
  intros H Lb Lx. pose proof (plu_success_inv st H) as (L1 & L2 & Pp & _ & _ & _ & Do).
  unfold plu_solve.
  destruct (plu_apply_spec n (pp st) b x0 L2) as (x1 & E1 & Lx1 & H1); auto.
  { intros i Hi. rewrite Lb. apply (perm_nth_lt _ n); auto. }
  rewrite E1.
  assert (Hinj : forall r r', (r < n)%nat -> (r' < n)%nat -> (fun k : nat => k) r = (fun k : nat => k) r' -> r = r') by auto.
  destruct (lower_gen_spec tiny n (fun k => k) Hinj (pA st) x1 L1) as (x2 & E2 & Lx2 & _ & H2).
  { intros r Hr. lia. }
  change (plu_lower RO n (pA st) x1) with (lower_gen tiny n (fun k => k) (pA st) x1). rewrite E2.
  destruct (upper_gen_spec tiny n (fun k => k) Hinj (pA st) x2 L1) as (x3 & E3 & Lx3 & _ & H3).
  { intros r Hr. lia. }
  change (plu_upper RO n (pA st) x2) with (upper_gen tiny n (fun k => k) (pA st) x2). rewrite E3.
  exists x3. split; auto. split; [congruence|].
  unfold vg in H2, H3.
  assert (Hd : forall j, (j < n)%nat -> mg n (pA st) j j <> 0).
  { intros j Hj Z. specialize (Do j Hj Hj). rewrite Z, Rabs_R0 in Do. lra. }
  (* rows of P A x = P b, then use that p is onto *)
  intros r' Hr'. destruct (perm_nth_surj (pp st) n r' Pp Hr') as (r & Hr & Er).
  rewrite <- Er.
  rewrite (rsum_ext _ (fun c => rsum (fun j => Lf (mg n (pA st)) r j * Uf (mg n (pA st)) j c) n * nth c x3 0)).
  2:{ intros c Hc. fold (pfun (pp st) r). rewrite (plu_reconstruct_fun st H r c Hr Hc). reflexivity. }
  rewrite (lu_solve_correct n (mg n (pA st)) (fun k => nth k x1 0) (fun k => nth k x2 0) (fun k => nth k x3 0)); auto.
  apply H1. auto.
Qed.

(* exactly singular inputs are reported as failure *)
Lemma plu_zero_column_fails c rc st :
  (c < n)%nat -> (forall r, (r < n)%nat -> mg n A r c = 0) ->
  plu RO n A p0 = Some (rc, st) -> rc = 1%nat.
Proof.
  intros Hc Hz H.
  destruct plu_total as (rc' & st' & E & [-> | ->] & _); rewrite E in H; [|injection H as <- _; reflexivity].
  injection H as <- _.
  exfalso.
  pose proof (plu_success_inv st' E) as (_ & _ & Pp & _ & _ & _ & Do).
  assert (Z : forall j, (j < n)%nat -> Uf (mg n (pA st')) j c = 0).
  { apply (l_injective n (mg n (pA st'))). intros r Hr.
    rewrite <- (plu_reconstruct_fun st' E r c Hr Hc). apply Hz. apply (perm_nth_lt _ n); auto. }
  specialize (Z c Hc). unfold Uf in Z. rewrite Nat.ltb_irrefl in Z.
  specialize (Do c Hc Hc). rewrite Z, Rabs_R0 in Do. lra.
Qed.

Lemma plu_duplicate_rows_fail r1 r2 rc st :
  (r1 < n)%nat -> (r2 < n)%nat -> r1 <> r2 ->
  (forall c, (c < n)%nat -> mg n A r1 c = mg n A r2 c) ->
  plu RO n A p0 = Some (rc, st) -> rc = 1%nat.
Proof.
  intros H1 H2 N Hdup H.
  destruct plu_total as (rc' & st' & E & [-> | ->] & _); rewrite E in H; [|injection H as <- _; reflexivity].
  injection H as <- _.
  exfalso.
  destruct (plu_solve_correct st' (upd (repeat 0 n) r1 1) (repeat 0 n) E) as (x & _ & _ & Hx).
  { rewrite upd_length. apply repeat_length. }
  { apply repeat_length. }
  pose proof (Hx r1 H1) as X1. pose proof (Hx r2 H2) as X2.
  rewrite nth_upd_same in X1 by (rewrite repeat_length; auto).
  rewrite nth_upd_other in X2 by auto. rewrite nth_repeat in X2.
  rewrite (rsum_ext _ (fun c => mg n A r2 c * nth c x 0)) in X1 by (intros; rewrite Hdup; auto).
  lra.
Qed.

End Main.
