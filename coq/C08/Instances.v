(* C08: the two instances of NumOps, and the executable "run one case" wrapper that the
   correspondence check evaluates with vm_compute.  No proofs in this file. *)
From Coq Require Import ZArith List Reals Floats.
From LibaV Require Import C08.NumOps C08.FactorDefs.
Import ListNotations.

(* ------------------------------------------------------------------ reals *)
(* tiny (A_REAL_MIN) is a parameter of the instance: the theorems hold for every tiny > 0. *)
Definition R_ops (tiny : R) : NumOps R := {|
  zero := 0%R; one := 1%R;
  add := Rplus; sub := Rminus; mul := Rmult; div := Rdiv;
  abs := Rabs; sqrt := R_sqrt.sqrt; ln := Rpower.ln;
  ltb := fun a b => if Rlt_dec a b then true else false;
  eqb := fun a b => if Req_EM_T a b then true else false;
  ofZ := IZR;
  tiny := tiny
|}.

(* ------------------------------------------------------------- binary64 *)
(* Bit pattern <-> primitive float, through the stdlib's SpecFloat view (Prim2SF/SF2Prim).
   NaNs are canonicalised to 0x7ff8000000000000 (the C driver does the same). *)
Local Open Scope Z_scope.

Definition bits_of_f64 (f : float) : Z :=
  match Prim2SF f with
  | S754_zero s => if s then 2 ^ 63 else 0
  | S754_infinity s => (if s then 2 ^ 63 else 0) + 0x7ff0000000000000
  | S754_nan => 0x7ff8000000000000
  | S754_finite s m e =>
      (if s then 2 ^ 63 else 0) +
      (if Z.pos m <? 2 ^ 52 then Z.pos m else (e + 1075) * 2 ^ 52 + (Z.pos m - 2 ^ 52))
  end.

Definition f64_of_bits (z : Z) : float :=
  let s := 2 ^ 63 <=? z in
  let a := z mod 2 ^ 63 in
  let E := a / 2 ^ 52 in
  let m := a mod 2 ^ 52 in
  SF2Prim (if E =? 2047 then (if m =? 0 then S754_infinity s else S754_nan)
           else if E =? 0 then match m with Zpos p => S754_finite s p (-1074) | _ => S754_zero s end
           else match m + 2 ^ 52 with Zpos p => S754_finite s p (E - 1075) | _ => S754_nan end).

Definition f64_ofZ (z : Z) : float :=
  match z with
  | Z0 => PrimFloat.zero
  | Zpos _ => PrimFloat.of_uint63 (Uint63.of_Z z)
  | Zneg p => PrimFloat.opp (PrimFloat.of_uint63 (Uint63.of_Z (Zpos p)))
  end.

(* libm log is not computed in Coq: the C run logs (argument, result) of every call to log
   (linker --wrap=log) and the model looks the argument up in that table; an argument that
   the C code never passed to log yields NaN, which makes the comparison fail. *)
Fixpoint log_lookup (tbl : list (Z * Z)) (x : Z) : float :=
  match tbl with
  | [] => PrimFloat.nan
  | (a, r) :: t => if a =? x then f64_of_bits r else log_lookup t x
  end.

Definition F64_ops (logtbl : list (Z * Z)) : NumOps float := {|
  zero := PrimFloat.zero; one := PrimFloat.one;
  add := PrimFloat.add; sub := PrimFloat.sub; mul := PrimFloat.mul; div := PrimFloat.div;
  abs := PrimFloat.abs; sqrt := PrimFloat.sqrt;
  ln := fun x => log_lookup logtbl (bits_of_f64 x);
  ltb := PrimFloat.ltb; eqb := PrimFloat.eqb;
  ofZ := f64_ofZ;
  tiny := f64_of_bits 0x0010000000000000          (* DBL_MIN = 0x1p-1022 *)
|}.

(* --------------------------------------------------------- canonical output *)
(* One output line = (opcode, items); items are integers, doubles (as bit patterns) or the
   error mark (the model went out of bounds).  tools side prints them exactly like the C driver. *)
Inductive item : Type := I (z : Z) | F (bits : Z) | E.

Definition fl (l : list float) : list item := map (fun x => F (bits_of_f64 x)) l.
Definition nl (l : list nat) : list item := map (fun x => I (Z.of_nat x)) l.
Definition ofl (o : option (list float)) : list item := match o with Some l => fl l | None => [E] end.
Definition of1 (o : option float) : list item := match o with Some x => [F (bits_of_f64 x)] | None => [E] end.
Definition oz1 (o : option Z) : list item := match o with Some x => [I x] | None => [E] end.
Definition ofl2 (o : option (list float * list float)) : list item :=
  match o with Some (a, b) => fl a ++ fl b | None => [E] end.

Definition junk : float := f64_of_bits 0xC01C000000000000.   (* -7.0: initial content of output buffers *)

(* The sequence of calls the C driver (harness/C08/drv.c) makes for one case, in the same
   order, on the same buffers.  mask: 1 = PLU, 2 = LDL, 4 = LLT. *)
Definition run_case (mask : Z) (n : nat) (Abits bbits : list Z) (logtbl : list (Z * Z))
  : list (Z * list item) :=
  let O := F64_ops logtbl in
  let A := map f64_of_bits Abits in
  let b := map f64_of_bits bbits in
  let mat := repeat junk (n * n) in
  let vec := repeat junk n in
  (if Z.testbit mask 0 then
     match plu O n A (repeat 99%nat n) with
     | None => [(100, [E])]
     | Some (rc, st) =>
         (100, I (Z.of_nat rc) :: I (psign st) :: nl (pp st) ++ fl (pA st)) ::
         (if Nat.eqb rc 0 then
            let LU := pA st in let p := pp st in
            let Pb := plu_apply n p b vec in
            let y := match Pb with Some v => plu_lower O n LU v | None => None end in
            let x := match y with Some v => plu_upper O n LU v | None => None end in
            [ (101, ofl (plu_P O n p mat));
              (102, ofl (plu_P_ O n p mat));
              (103, ofl (plu_L O n LU mat));
              (104, ofl (plu_U O n LU mat));
              (105, ofl Pb);
              (106, ofl y);
              (107, ofl x);
              (108, ofl (plu_solve O n LU p b vec));
              (109, ofl2 (plu_inv O n LU p vec mat));
              (110, ofl (plu_inv_ O n LU p mat));
              (111, of1 (plu_det O n LU (psign st)));
              (112, of1 (plu_lndet O n LU));
              (113, oz1 (plu_sgndet O n LU (psign st))) ]
          else [])
     end
   else []) ++
  (if Z.testbit mask 1 then
     match ldl O n A with
     | None => [(200, [E])]
     | Some (rc, LD) =>
         (200, I (Z.of_nat rc) :: fl LD) ::
         (if Nat.eqb rc 0 then
            let y := ldl_lower O n LD b in
            let x := match y with Some v => ldl_upper O n LD v | None => None end in
            [ (201, ofl (ldl_L O n LD mat));
              (202, ofl (ldl_D n LD vec));
              (203, ofl y);
              (204, ofl x);
              (205, ofl (ldl_solve O n LD b));
              (206, ofl2 (ldl_inv O n LD vec mat));
              (207, ofl (ldl_inv_ O n LD mat));
              (208, of1 (ldl_det O n LD));
              (209, of1 (ldl_lndet O n LD));
              (210, oz1 (ldl_sgndet O n LD)) ]
          else [])
     end
   else []) ++
  (if Z.testbit mask 2 then
     match llt O n A with
     | None => [(300, [E])]
     | Some (rc, LL) =>
         (300, I (Z.of_nat rc) :: fl LL) ::
         (if Nat.eqb rc 0 then
            let y := llt_lower O n LL b in
            let x := match y with Some v => llt_upper O n LL v | None => None end in
            [ (301, ofl (llt_L O n LL mat));
              (303, ofl y);
              (304, ofl x);
              (305, ofl (llt_solve O n LL b));
              (306, ofl2 (llt_inv O n LL vec mat));
              (307, ofl (llt_inv_ O n LL mat));
              (308, of1 (llt_det O n LL));
              (309, of1 (llt_lndet O n LL)) ]
          else [])
     end
   else []).
