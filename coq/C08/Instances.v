(* C08: the two instances of NumOps, and the executable "run one case" wrapper that the
   correspondence check evaluates with vm_compute.  No proofs in this file. *)
From Coq Require Import ZArith List Reals Uint63 Floats.
From LibaV Require Import C08.NumOps C08.FactorDefs.
Import ListNotations.

(* ------------------------------------------------------------------ reals *)
(* tiny (A_REAL_MIN) is a parameter of the instance: the theorems hold for every tiny > 0. *)
Definition R_ops (tiny : R) : NumOps R := {|
  zero := 0%R; one := 1%R;
  add := Rplus; sub := Rminus; mul := Rmult; div := Rdiv;
  abs := Rabs; sqrt := R_sqrt.sqrt; ln := Rpower.ln;
  ltb := fun a b => if Rlt_dec a b then true else false;
  eqb := fun a b => if Req_EM_T a b then true else false;
  ofZ := IZR;
  tiny := tiny
|}.

(* ------------------------------------------------------------- binary64 *)
(* A double travels as two 32-bit halves (hi, lo) of its bit pattern, held in primitive 63-bit
   integers.  Decoding/encoding uses only the primitive operations ldshiftexp / frshiftexp /
   normfr_mantissa (exact scalings by powers of two), so it is exact; it is validated on every
   run by the round trip through the C driver (inputs are echoed inside the outputs) and against
   Python's struct encoding.  NaNs are canonicalised to 0x7ff8000000000000 (the C driver does
   the same). *)
Local Open Scope uint63_scope.

Definition f64_of_parts (hi lo : int) : float :=
  let s := hi >> 31 in
  let E := (hi >> 20) land 0x7ff in
  let m := ((hi land 0xfffff) << 32) lor lo in
  let v := if E =? 2047 then (if m =? 0 then PrimFloat.infinity else PrimFloat.nan)
           else if E =? 0 then PrimFloat.ldshiftexp (PrimFloat.of_uint63 m) (2101 - 1074)
           else PrimFloat.ldshiftexp (PrimFloat.of_uint63 (m lor 0x10000000000000)) (E + 2101 - 1075) in
  if s =? 1 then PrimFloat.opp v else v.

(* low 63 bits of the pattern of a non-NaN float, and its sign *)
Definition parts_of_f64 (f : float) : int * int :=
  if PrimFloat.is_nan f then (0x7ff80000, 0)
  else
    let s := if PrimFloat.get_sign f then 1 else 0 in
    let a := PrimFloat.abs f in
    let body :=
      if PrimFloat.is_infinity a then 0x7ff0000000000000
      else if PrimFloat.is_zero a then 0
      else
        let (m, e) := PrimFloat.frshiftexp a in          (* a = m * 2^(e - shift), 1/2 <= m < 1 *)
        let mant := PrimFloat.normfr_mantissa m in        (* m * 2^53 *)
        if 2101 - 1021 <=? e
        then ((e - (2101 - 1022)) << 52) + (mant - 0x10000000000000)
        else mant >> (2101 - 1021 - e) in
    ((s << 31) lor (body >> 32), body land 0xffffffff).

Definition f64_ofZ (z : Z) : float :=
  match z with
  | Z0 => PrimFloat.zero
  | Zpos _ => PrimFloat.of_uint63 (Uint63.of_Z z)
  | Zneg p => PrimFloat.opp (PrimFloat.of_uint63 (Uint63.of_Z (Zpos p)))
  end.

(* libm log is not computed in Coq: the C run logs (argument, result) of every call to log
   (linker --wrap=log) and the model looks the argument up in that table; an argument that
   the C code never passed to log yields NaN, which makes the comparison fail. *)
Definition f64pair : Type := (int * int)%type.
Fixpoint log_lookup (tbl : list (f64pair * f64pair)) (x : f64pair) : float :=
  match tbl with
  | [] => PrimFloat.nan
  | (a, r) :: t => if andb (fst a =? fst x) (snd a =? snd x) then f64_of_parts (fst r) (snd r) else log_lookup t x
  end.

Definition F64_ops (logtbl : list (f64pair * f64pair)) : NumOps float := {|
  zero := PrimFloat.zero; one := PrimFloat.one;
  add := PrimFloat.add; sub := PrimFloat.sub; mul := PrimFloat.mul; div := PrimFloat.div;
  abs := PrimFloat.abs; sqrt := PrimFloat.sqrt;
  ln := fun x => log_lookup logtbl (parts_of_f64 x);
  ltb := PrimFloat.ltb; eqb := PrimFloat.eqb;
  ofZ := f64_ofZ;
  tiny := f64_of_parts 0x00100000 0          (* DBL_MIN = 0x1p-1022 *)
|}.

(* --------------------------------------------------------- canonical output *)
(* One output line = (opcode, items); items are integers, doubles (as bit patterns) or the
   error mark (the model went out of bounds).  tools side prints them exactly like the C driver. *)
Local Open Scope Z_scope.
Inductive item : Type := I (z : Z) | F (hi lo : int) | E.

Definition fitem (x : float) : item := let (h, l) := parts_of_f64 x in F h l.
Definition fl (l : list float) : list item := map fitem l.
Definition nl (l : list nat) : list item := map (fun x => I (Z.of_nat x)) l.
Definition ofl (o : option (list float)) : list item := match o with Some l => fl l | None => [E] end.
Definition of1 (o : option float) : list item := match o with Some x => [fitem x] | None => [E] end.
Definition oz1 (o : option Z) : list item := match o with Some x => [I x] | None => [E] end.
Definition ofl2 (o : option (list float * list float)) : list item :=
  match o with Some (a, b) => fl a ++ fl b | None => [E] end.

Definition junk : float := f64_of_parts 0xC01C0000%uint63 0%uint63.   (* -7.0: initial content of output buffers *)

(* The sequence of calls the C driver (harness/C08/drv.c) makes for one case, in the same
   order, on the same buffers.  mask: 1 = PLU, 2 = LDL, 4 = LLT. *)
Definition run_case (mask : Z) (n : nat) (Abits bbits : list f64pair) (logtbl : list (f64pair * f64pair))
  : list (Z * list item) :=
  let O := F64_ops logtbl in
  let A := map (fun q => f64_of_parts (fst q) (snd q)) Abits in
  let b := map (fun q => f64_of_parts (fst q) (snd q)) bbits in
  let mat := repeat junk (n * n) in
  let vec := repeat junk n in
  (if Z.testbit mask 0 then
     match plu O n A (repeat 99%nat n) with
     | None => [(100, [E])]
     | Some (rc, st) =>
         (100, I (Z.of_nat rc) :: I (psign st) :: nl (pp st) ++ fl (pA st)) ::
         (if Nat.eqb rc 0 then
            let LU := pA st in let p := pp st in
            let Pb := plu_apply n p b vec in
            let y := match Pb with Some v => plu_lower O n LU v | None => None end in
            let x := match y with Some v => plu_upper O n LU v | None => None end in
            [ (101, ofl (plu_P O n p mat));
              (102, ofl (plu_P_ O n p mat));
              (103, ofl (plu_L O n LU mat));
              (104, ofl (plu_U O n LU mat));
              (105, ofl Pb);
              (106, ofl y);
              (107, ofl x);
              (108, ofl (plu_solve O n LU p b vec));
              (109, ofl2 (plu_inv O n LU p vec mat));
              (110, ofl (plu_inv_ O n LU p mat));
              (111, of1 (plu_det O n LU (psign st)));
              (112, of1 (plu_lndet O n LU));
              (113, oz1 (plu_sgndet O n LU (psign st))) ]
          else [])
     end
   else []) ++
  (if Z.testbit mask 1 then
     match ldl O n A with
     | None => [(200, [E])]
     | Some (rc, LD) =>
         (200, I (Z.of_nat rc) :: fl LD) ::
         (if Nat.eqb rc 0 then
            let y := ldl_lower O n LD b in
            let x := match y with Some v => ldl_upper O n LD v | None => None end in
            [ (201, ofl (ldl_L O n LD mat));
              (202, ofl (ldl_D n LD vec));
              (203, ofl y);
              (204, ofl x);
              (205, ofl (ldl_solve O n LD b));
              (206, ofl2 (ldl_inv O n LD vec mat));
              (207, ofl (ldl_inv_ O n LD mat));
              (208, of1 (ldl_det O n LD));
              (209, of1 (ldl_lndet O n LD));
              (210, oz1 (ldl_sgndet O n LD)) ]
          else [])
     end
   else []) ++
  (if Z.testbit mask 2 then
     match llt O n A with
     | None => [(300, [E])]
     | Some (rc, LL) =>
         (300, I (Z.of_nat rc) :: fl LL) ::
         (if Nat.eqb rc 0 then
            let y := llt_lower O n LL b in
            let x := match y with Some v => llt_upper O n LL v | None => None end in
            [ (301, ofl (llt_L O n LL mat));
              (303, ofl y);
              (304, ofl x);
              (305, ofl (llt_solve O n LL b));
              (306, ofl2 (llt_inv O n LL vec mat));
              (307, ofl (llt_inv_ O n LL mat));
              (308, of1 (llt_det O n LL));
              (309, of1 (llt_lndet O n LL)) ]
          else [])
     end
   else []).
