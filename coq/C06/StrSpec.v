(* C06 -- what the theorems say: invariant, abstraction function, abstract operations.
   Definitions only (no proofs); the proofs are in StrLemmas.v / StrProofs.v. *)
From Coq Require Import NArith ZArith List Bool.
From LibaV Require Import C06.StrDefs.
Import ListNotations.
Local Open Scope N_scope.

(* storage and abstract content of one string object *)
Definition buf (s : str) : list N := match ptr s with Some b => b | None => [] end.
Definition content (s : str) : list N := take (num s) (buf s).

(* representation invariant: the length never exceeds the capacity, the capacity is the size of
   the heap block (0 and no block for A_STR_INIT) *)
Definition inv (s : str) : Prop :=
  num s <= mem s /\ mem s < W64 /\ len (buf s) = mem s.

(* "a NUL byte directly after the content inside the capacity" *)
Definition terminated (s : str) : Prop :=
  num s < mem s /\ get (num s) (buf s) = Some 0.

Definition minv (m : mstate) : Prop := inv (sA m) /\ inv (sB m).

(* abstract state: the two byte strings *)
Definition astate : Type := (list N * list N)%type.
Definition abs (m : mstate) : astate := (content (sA m), content (sB m)).
Definition asel (t : tgt) (a : astate) : list N := match t with TA => fst a | TB => snd a end.
Definition aoth (t : tgt) (a : astate) : list N := match t with TA => snd a | TB => fst a end.
Definition aupd (t : tgt) (c : list N) (a : astate) : astate :=
  match t with TA => (c, snd a) | TB => (fst a, c) end.

(* allocator outcome of a step *)
Definition ev_failed (e : ev) : bool :=
  match e with EvMalloc _ ok => negb ok | EvRealloc _ _ ok => negb ok | _ => false end.
Definition any_failed (e : list ev) : bool := existsb ev_failed e.

(* sizes stay away from 2^64 (a_size_up and num_ + n do not wrap) *)
Definition fits (s : str) (k : N) : Prop := num s + k + 8 < W64.

(* preconditions of the operations (documented contracts / physically necessary bounds) *)
Definition op_ok (o : op) (m : mstate) : Prop :=
  match o with
  | OSetm t n => n + 8 < W64
  | OSetm_ t n => n + 8 < W64 /\ num (sel t m) <= n
  | OSetn_ t n => n <= mem (sel t m)                         (* str.h: "length must less than memory" *)
  | OCatc t _ | OCatc_ t _ => fits (sel t m) 2
  | OCatn t d | OCatn_ t d => fits (sel t m) (len d + 1)
  | OCats t d | OCats_ t d => fits (sel t m) (len (cstr d) + 1)
  | OCat t self | OCat_ t self =>
      fits (sel t m) (num (if self then sel t m else oth t m) + 1)
  | OCatf t out => fits (sel t m) (len out + 1) /\ len out < 2147483647
  | OUtf t _ => fits (sel t m) 7
  | OExit t => fits (sel t m) 1
  | _ => True
  end.

(* ---------------------------------------------------------------- abstract operations *)
Fixpoint dropwhile (f : N -> bool) (l : list N) : list N :=
  match l with
  | [] => []
  | x :: r => if f x then dropwhile f r else l
  end.
Definition lstrip (f : N -> bool) (l : list N) : list N := dropwhile f l.
Definition rstrip (f : N -> bool) (l : list N) : list N := rev (dropwhile f (rev l)).

(* bytewise lexicographic order, a proper prefix is smaller: -1 / 0 / 1 *)
Fixpoint lex_cmp (a b : list N) : Z :=
  match a, b with
  | [], [] => 0%Z
  | [], _ :: _ => (-1)%Z
  | _ :: _, [] => 1%Z
  | x :: a', y :: b' => if x <? y then (-1)%Z else if y <? x then 1%Z else lex_cmp a' b'
  end.

(* length change: shrinking truncates; growing exposes storage bytes (whatever they are) *)
Definition resized (n : N) (c c' : list N) : Prop :=
  if n <=? len c then c' = take n c
  else exists ext, len ext = n - len c /\ c' = c ++ ext.

(* the value by which an operation reports that an allocation failed *)
Definition fail_ret (o : op) : option ret :=
  match o with
  | OCatc _ _ | OCatc_ _ _ => Some (RInt (-1)%Z)
  | OCatn _ _ | OCatn_ _ _ | OCats _ _ | OCats_ _ _ | OCat _ _ | OCat_ _ _ | OUtf _ _
  | OSetm _ _ | OSetm_ _ _ => Some (RInt A_OMEMORY)
  | OCatf _ _ => Some (RInt 0%Z)
  | OExit _ => Some (RPtr None)
  | _ => None
  end.

(* effect and return value of an operation whose allocations (if any) all succeeded, as a
   relation between the abstract byte strings before ([abs m]) and after ([a']) *)
Definition spec_ok (o : op) (m : mstate) (r : ret) (a' : astate) : Prop :=
  let a := abs m in
  match o with
  | ODtor t => r = RVoid /\ a' = aupd t [] a
  | OSwap => r = RVoid /\ a' = (snd a, fst a)
  | OExit t =>
      match ptr (sel t m) with
      | None => r = RPtr None /\ a' = a
      | Some _ => exists blk, r = RPtr (Some blk) /\
                              take (len (asel t a) + 1) blk = asel t a ++ [0] /\ a' = aupd t [] a
      end
  | OSetm t _ | OSetm_ t _ => r = RInt A_SUCCESS /\ a' = a
  | OSetn t n =>
      if n <=? mem (sel t m)
      then r = RInt A_SUCCESS /\ resized n (asel t a) (asel t a') /\ aoth t a' = aoth t a
      else r = RInt A_OBOUNDS /\ a' = a
  | OSetn_ t n => r = RVoid /\ resized n (asel t a) (asel t a') /\ aoth t a' = aoth t a
  | OGetc t | OGetc_ t =>
      (asel t a = [] /\ r = RInt (-1)%Z /\ a' = a) \/
      (exists c0 x, asel t a = c0 ++ [x] /\ r = RInt (schar x) /\ a' = aupd t c0 a)
  | OCatc t z | OCatc_ t z => r = RInt z /\ a' = aupd t (asel t a ++ [uchar z]) a
  | OGetn t w n | OGetn_ t w n =>
      let c := asel t a in
      let k := N.min n (len c) in
      r = RSize k (if w then drop (len c - k) c else []) /\ a' = aupd t (take (len c - k) c) a
  | OCatn t d | OCatn_ t d => r = RInt A_SUCCESS /\ a' = aupd t (asel t a ++ d) a
  | OCats t d | OCats_ t d => r = RInt A_SUCCESS /\ a' = aupd t (asel t a ++ cstr d) a
  | OCat t self | OCat_ t self =>
      r = RInt A_SUCCESS /\ a' = aupd t (asel t a ++ (if self then asel t a else aoth t a)) a
  | OCatf t out => r = RInt (Z.of_N (len out)) /\ a' = aupd t (asel t a ++ out) a
  | ORtrim t set | ORtrim_ t set => r = RVoid /\ a' = aupd t (rstrip (inset set) (asel t a)) a
  | OLtrim t set | OLtrim_ t set => r = RVoid /\ a' = aupd t (lstrip (inset set) (asel t a)) a
  | OTrim t set | OTrim_ t set =>
      r = RVoid /\ a' = aupd t (lstrip (inset set) (rstrip (inset set) (asel t a))) a
  | OUtf t c => r = RInt A_SUCCESS /\ a' = aupd t (asel t a ++ utf_encode c) a
  | OCmp t => r = RInt (lex_cmp (asel t a) (aoth t a)) /\ a' = a
  | OCmpn t d => r = RInt (lex_cmp (asel t a) d) /\ a' = a
  | OCmps t d => r = RInt (lex_cmp (asel t a) (cstr d)) /\ a' = a
  end.

(* one step refines the abstract operation *)
Definition step_refines (o : op) (m m' : mstate) (r : ret) (e : list ev) : Prop :=
  r <> RFault /\
  if any_failed e
  then abs m' = abs m /\ fail_ret o = Some r          (* failure reported, byte strings unchanged *)
  else spec_ok o m r (abs m').

(* the terminating variants: which object must end up NUL-terminated, and when *)
Definition term_target (o : op) : option (tgt * bool) :=       (* bool: unconditional *)
  match o with
  | OCatc t _ | OCatn t _ | OCats t _ | OCat t _ | OCatf t _ | OUtf t _ => Some (t, true)
  | OGetc t | OGetn t _ _ | ORtrim t _ | OLtrim t _ | OTrim t _ => Some (t, false)
  | _ => None
  end.

Definition step_terminates (o : op) (m m' : mstate) (e : list ev) : Prop :=
  match term_target o with
  | Some (t, always) =>
      any_failed e = false ->
      (always = true \/ num (sel t m') < num (sel t m)) ->
      terminated (sel t m')
  | None => True
  end.

(* histories *)
Fixpoint ops_ok (ops : list op) (m : mstate) : Prop :=
  match ops with
  | [] => True
  | o :: r => op_ok o m /\ ops_ok r (fst (fst (step o m)))
  end.

Fixpoint steps (ops : list op) (m : mstate) : list (mstate * op * (mstate * ret * list ev)) :=
  match ops with
  | [] => []
  | o :: r => let x := step o m in (m, o, x) :: steps r (fst (fst x))
  end.
