(* C06 -- list/byte-block toolkit used by StrProofs.v *)
From Coq Require Import NArith ZArith List Bool Lia ZifyBool ZifyNat ZifyN.
From LibaV Require Import C06.StrDefs C06.StrSpec.
Import ListNotations.
Local Open Scope N_scope.
Ltac Zify.zify_post_hook ::= Z.div_mod_to_equations.

Arguments N.add : simpl never.
Arguments N.sub : simpl never.
Arguments N.mul : simpl never.
Arguments N.modulo : simpl never.
Arguments N.div : simpl never.
Arguments N.ldiff : simpl never.
Arguments N.to_nat : simpl never.
Arguments N.of_nat : simpl never.

(* ------------------------------------------------------------------ words *)
Lemma W64_val : W64 = 18446744073709551616. Proof. reflexivity. Qed.
Global Opaque W64.

Lemma wadd_small a b : a + b < W64 -> wadd a b = a + b.
Proof. intros. unfold wadd, wrap. apply N.mod_small. assumption. Qed.

Lemma wsub_small a b : a < W64 -> b <= a -> wsub a b = a - b.
Proof. intros. unfold wsub, wrap. rewrite W64_val in *. lia. Qed.

Lemma size_up8_eq m : m + 7 < W64 -> size_up8 m = (m + 7) / 8 * 8.
Proof.
  intros H. unfold size_up8. rewrite wadd_small by assumption.
  change 7 with (N.ones 3) at 2. rewrite N.ldiff_ones_r.
  rewrite N.shiftr_div_pow2, N.shiftl_mul_pow2. reflexivity.
Qed.

Lemma size_up8_spec m : m + 7 < W64 ->
  m <= size_up8 m /\ size_up8 m < m + 8 /\ size_up8 m < W64.
Proof.
  intros H. rewrite size_up8_eq by assumption. rewrite W64_val in *. lia.
Qed.

(* ------------------------------------------------------------------ len / take / drop *)
Lemma len_nil : len [] = 0. Proof. reflexivity. Qed.
Lemma len_cons x l : len (x :: l) = len l + 1.
Proof. unfold len. cbn [length]. lia. Qed.
Lemma len_app a b : len (a ++ b) = len a + len b.
Proof. unfold len. rewrite app_length. lia. Qed.
Lemma len_take n l : len (take n l) = N.min n (len l).
Proof. unfold len, take. rewrite firstn_length. lia. Qed.
Lemma len_drop n l : len (drop n l) = len l - n.
Proof. unfold len, drop. rewrite skipn_length. lia. Qed.
Lemma len_fresh n : len (fresh n) = n.
Proof. unfold len, fresh. rewrite repeat_length. lia. Qed.
Lemma len_rev l : len (rev l) = len l.
Proof. unfold len. rewrite rev_length. reflexivity. Qed.
Lemma len_0_nil l : len l = 0 -> l = [].
Proof. destruct l; [reflexivity|]. rewrite len_cons. lia. Qed.

Lemma take_0 l : take 0 l = [].
Proof. reflexivity. Qed.
Lemma take_all n l : len l <= n -> take n l = l.
Proof. intros. unfold take, len in *. apply firstn_all2. lia. Qed.
Lemma take_nil n : take n [] = [].
Proof. unfold take. apply firstn_nil. Qed.
Lemma drop_0 l : drop 0 l = l.
Proof. reflexivity. Qed.
Lemma drop_all n l : len l <= n -> drop n l = [].
Proof. intros. unfold drop, len in *. apply skipn_all2. lia. Qed.
Lemma take_drop n l : take n l ++ drop n l = l.
Proof. apply firstn_skipn. Qed.

Lemma take_app_le n a b : n <= len a -> take n (a ++ b) = take n a.
Proof.
  intros. unfold take, len in *. rewrite firstn_app.
  replace (N.to_nat n - length a)%nat with 0%nat by lia. cbn [firstn]. apply app_nil_r.
Qed.
Lemma take_app_ge n a b : len a <= n -> take n (a ++ b) = a ++ take (n - len a) b.
Proof.
  intros. unfold take, len in *. rewrite firstn_app.
  rewrite firstn_all2 by lia. f_equal. f_equal. lia.
Qed.
Lemma take_app_exact a b : take (len a) (a ++ b) = a.
Proof. rewrite take_app_le by lia. apply take_all. lia. Qed.
Lemma drop_app_ge n a b : len a <= n -> drop n (a ++ b) = drop (n - len a) b.
Proof.
  intros. unfold drop, len in *. rewrite skipn_app.
  rewrite skipn_all2 by lia. cbn [app]. f_equal. lia.
Qed.
Lemma drop_app_exact a b : drop (len a) (a ++ b) = b.
Proof. rewrite drop_app_ge by lia. rewrite N.sub_diag. reflexivity. Qed.

Lemma take_take a b l : take a (take b l) = take (N.min a b) l.
Proof.
  unfold take. rewrite firstn_firstn. f_equal. lia.
Qed.
Lemma take_take_le a b l : a <= b -> take a (take b l) = take a l.
Proof. intros. rewrite take_take. f_equal. lia. Qed.

Lemma take_drop_comm i n l : take n (drop i l) = drop i (take (i + n) l).
Proof.
  unfold take, drop. rewrite firstn_skipn_comm. f_equal. f_equal. lia.
Qed.

(* two lists with a common extension: prefixes agree *)
Lemma take_eq_of_take_eq k n a b : k <= n -> take n a = take n b -> take k a = take k b.
Proof.
  intros Hk H. rewrite <- (take_take_le k n a Hk), <- (take_take_le k n b Hk). now rewrite H.
Qed.

(* ------------------------------------------------------------------ get *)
Lemma get_lt i l : i < len l -> exists c, get i l = Some c.
Proof.
  intros. unfold get, len in *. destruct (nth_error l (N.to_nat i)) eqn:E; [eauto|].
  apply nth_error_None in E. lia.
Qed.
Lemma get_Some_lt i l c : get i l = Some c -> i < len l.
Proof.
  unfold get, len. intros E. assert (nth_error l (N.to_nat i) <> None) by congruence.
  apply nth_error_Some in H. lia.
Qed.
Lemma get_app_len a c b : get (len a) (a ++ c :: b) = Some c.
Proof.
  unfold get, len. rewrite Nat2N.id. rewrite nth_error_app2 by lia.
  rewrite Nat.sub_diag. reflexivity.
Qed.
Lemma get_app_l i a b : i < len a -> get i (a ++ b) = get i a.
Proof. intros. unfold get, len in *. apply nth_error_app1. lia. Qed.

Lemma take_succ i l c : get i l = Some c -> take (i + 1) l = take i l ++ [c].
Proof.
  unfold get, take. intros E.
  replace (N.to_nat (i + 1)) with (S (N.to_nat i)) by lia.
  revert l E. generalize (N.to_nat i) as k. induction k; intros [|x l] E; cbn in E; try discriminate.
  - injection E as ->. reflexivity.
  - cbn [firstn app]. f_equal. apply IHk. assumption.
Qed.

(* the byte just after a known prefix *)
Lemma get_of_take n l p c : take (n + 1) l = p ++ [c] -> len p = n -> get n l = Some c.
Proof.
  intros H Hp.
  assert (Hl : n < len l).
  { assert (E : len (take (n + 1) l) = n + 1) by (rewrite H, len_app, len_cons, len_nil; lia).
    rewrite len_take in E. lia. }
  destruct (get_lt n l Hl) as [c' Hc']. rewrite (take_succ _ _ _ Hc') in H.
  apply app_inj_tail in H. destruct H as [_ ->]. assumption.
Qed.

(* ------------------------------------------------------------------ put / blit / sub *)
Lemma put_ok i v l : i < len l ->
  exists l', put i v l = Some l' /\ len l' = len l /\ take i l' = take i l /\ get i l' = Some v.
Proof.
  intros H. unfold put. replace (i <? len l) with true by lia.
  eexists. split; [reflexivity|].
  assert (Hi : len (take i l) = i) by (rewrite len_take; lia).
  repeat split.
  - rewrite len_app, len_cons, len_drop, Hi. lia.
  - rewrite <- Hi at 1. apply take_app_exact.
  - rewrite <- Hi at 1. apply get_app_len.
Qed.
Lemma put_None i v l : put i v l = None -> len l <= i.
Proof. unfold put. destruct (i <? len l) eqn:E; [discriminate|]. lia. Qed.

Lemma blit_ok i src l : i + len src <= len l ->
  exists l', blit i src l = Some l' /\ len l' = len l /\ take i l' = take i l /\
             take (i + len src) l' = take i l ++ src.
Proof.
  intros H. unfold blit. replace (i + len src <=? len l) with true by lia.
  eexists. split; [reflexivity|].
  assert (Hi : len (take i l) = i) by (rewrite len_take; lia).
  repeat split.
  - rewrite !len_app, len_drop, Hi. lia.
  - rewrite <- Hi at 1. apply take_app_exact.
  - rewrite app_assoc. replace (i + len src) with (len (take i l ++ src)) by (rewrite len_app; lia).
    apply take_app_exact.
Qed.

Lemma sub_ok i n l : i + n <= len l -> sub i n l = Some (take n (drop i l)).
Proof. intros. unfold sub. replace (i + n <=? len l) with true by lia. reflexivity. Qed.

(* ------------------------------------------------------------------ strip *)
Lemma rstrip_snoc f l c : rstrip f (l ++ [c]) = if f c then rstrip f l else l ++ [c].
Proof.
  unfold rstrip. rewrite rev_app_distr. cbn [rev app dropwhile].
  destruct (f c); [reflexivity|]. cbn [rev]. rewrite rev_involutive. reflexivity.
Qed.
Lemma rstrip_nil f : rstrip f [] = [].
Proof. reflexivity. Qed.

Lemma lcount_spec set l : drop (lcount set l) l = lstrip (inset set) l /\ lcount set l <= len l.
Proof.
  induction l as [|x l [IH1 IH2]]; cbn [lcount lstrip dropwhile].
  - split; [reflexivity|]. rewrite len_nil. lia.
  - rewrite len_cons. destruct (inset set x).
    + split; [|lia]. unfold drop in *. replace (N.to_nat (1 + lcount set l)) with (S (N.to_nat (lcount set l))) by lia.
      cbn [skipn]. exact IH1.
    + split; [reflexivity|lia].
Qed.

(* what "maximal" means *)
Lemma lstrip_char f l :
  exists pre, l = pre ++ lstrip f l /\ forallb f pre = true /\
              match lstrip f l with [] => True | x :: _ => f x = false end.
Proof.
  induction l as [|x l (pre & E & Hp & Hh)]; cbn [lstrip dropwhile].
  - exists []. repeat split.
  - destruct (f x) eqn:Fx.
    + exists (x :: pre). cbn [app forallb]. rewrite Fx, Hp. repeat split; [|exact Hh].
      f_equal. exact E.
    + exists []. repeat split. exact Fx.
Qed.
Lemma rstrip_char f l :
  exists suf, l = rstrip f l ++ suf /\ forallb f suf = true /\
              match rev (rstrip f l) with [] => True | x :: _ => f x = false end.
Proof.
  destruct (lstrip_char f (rev l)) as (pre & E & Hp & Hh).
  exists (rev pre). unfold rstrip. rewrite rev_involutive. repeat split.
  - rewrite <- rev_app_distr. unfold lstrip in E. rewrite <- E. symmetry. apply rev_involutive.
  - rewrite forallb_forall in *. intros x Hx. apply Hp. now apply in_rev.
  - exact Hh.
Qed.

(* ------------------------------------------------------------------ comparison *)
Lemma lex_cmp_memcmp a b :
  let k := Nat.min (length a) (length b) in
  lex_cmp a b = (let rc := memcmp (firstn k a) (firstn k b) in
                 if (rc =? 0)%Z then lencmp (len a) (len b) else rc).
Proof.
  revert b. induction a as [|x a IH]; intros [|y b]; cbn [length Nat.min firstn memcmp lex_cmp].
  - reflexivity.
  - cbn. unfold lencmp. rewrite len_nil, len_cons. replace (len b + 1 <? 0) with false by lia.
    replace (0 <? len b + 1) with true by lia. reflexivity.
  - cbn. unfold lencmp. rewrite len_nil, len_cons. replace (len a + 1 <? 0) with false by lia.
    replace (0 <? len a + 1) with true by lia. reflexivity.
  - destruct (x <? y) eqn:E1; [reflexivity|]. destruct (y <? x) eqn:E2; [reflexivity|].
    rewrite IH. cbn zeta. unfold lencmp. rewrite !len_cons.
    replace (len b + 1 <? len a + 1) with (len b <? len a) by lia.
    replace (len a + 1 <? len b + 1) with (len a <? len b) by lia. reflexivity.
Qed.

(* ------------------------------------------------------------------ cstr *)
Lemma cstr_len d : len (cstr d) <= len d.
Proof.
  induction d as [|x d IH]; cbn [cstr]; [lia|]. destruct (x =? 0); rewrite ?len_cons, ?len_nil; lia.
Qed.

(* ------------------------------------------------------------------ utf *)
Lemma enc_tail_len k : forall x acc, len (snd (enc_tail k x acc)) = N.of_nat k + len acc.
Proof.
  induction k; intros; cbn [enc_tail snd]; [lia|]. rewrite IHk, len_cons. lia.
Qed.
Lemma enc_len k mask x : (1 <= k)%nat -> len (enc k mask x) = N.of_nat k.
Proof.
  intros. unfold enc. pose proof (enc_tail_len (Nat.pred k) x []) as E.
  destruct (enc_tail (Nat.pred k) x []) as [x' t]. cbn [snd] in E.
  rewrite len_cons, E, len_nil. lia.
Qed.
Lemma utf_encode_len c : len (utf_encode c) <= 6.
Proof.
  unfold utf_encode.
  repeat match goal with |- context [if ?b then _ else _] => destruct b end;
    rewrite ?enc_len, ?len_nil by lia; lia.
Qed.
